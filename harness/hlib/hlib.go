// Package hlib holds what every property harness shares: the single PRNG all
// random choices derive from, printers for Coq terms, the case-file writer and
// the report the check driver reads.
package hlib

import (
	"encoding/hex"
	"encoding/json"
	"flag"
	"fmt"
	"math/big"
	"os"
	"path/filepath"
	"sort"
	"strings"
)

// ---------- PRNG (splitmix64) ----------

type Rng struct{ s uint64 }

// NewRng derives the initial state from the seed through the output mixer, so that the streams
// of consecutive seeds are unrelated (a plain seed*G+C state would make seed k+1 the stream of
// seed k shifted by one step).
func NewRng(seed uint64) *Rng {
	r := &Rng{s: seed*0x9E3779B97F4A7C15 + 0x1234567}
	a := r.Next()
	b := r.Next()
	return &Rng{s: a ^ (b << 1) ^ (seed * 0xD6E8FEB86659FD93)}
}

func (r *Rng) Next() uint64 {
	r.s += 0x9E3779B97F4A7C15
	z := r.s
	z = (z ^ (z >> 30)) * 0xBF58476D1CE4E5B9
	z = (z ^ (z >> 27)) * 0x94D049BB133111EB
	return z ^ (z >> 31)
}
func (r *Rng) Intn(n int) int {
	if n <= 0 {
		return 0
	}
	return int(r.Next() % uint64(n))
}
func (r *Rng) Bool() bool         { return r.Next()&1 == 1 }
func (r *Rng) Chance(pct int) bool { return r.Intn(100) < pct }
func (r *Rng) Bytes(n int) []byte {
	b := make([]byte, n)
	for i := range b {
		b[i] = byte(r.Next())
	}
	return b
}
func (r *Rng) Fork() *Rng { return &Rng{s: r.Next()} }

// Pick returns one of the weighted alternatives: weights[i] is the weight of index i.
func (r *Rng) Pick(weights ...int) int {
	t := 0
	for _, w := range weights {
		t += w
	}
	x := r.Intn(t)
	for i, w := range weights {
		if x < w {
			return i
		}
		x -= w
	}
	return len(weights) - 1
}

// ---------- Coq term printers ----------

func CoqBytes(b []byte) string {
	if len(b) == 0 {
		return "[]"
	}
	var sb strings.Builder
	sb.WriteByte('[')
	for i, x := range b {
		if i > 0 {
			sb.WriteByte(';')
		}
		fmt.Fprintf(&sb, "%d", x)
	}
	sb.WriteByte(']')
	return sb.String()
}
func CoqN(x uint64) string { return fmt.Sprintf("%d", x) }
func CoqBig(x *big.Int) string {
	if x == nil {
		return "0"
	}
	if x.Sign() < 0 {
		return "(" + x.String() + ")"
	}
	return x.String()
}
func CoqBool(b bool) string {
	if b {
		return "true"
	}
	return "false"
}
func CoqList(items []string) string { return "[" + strings.Join(items, "; ") + "]" }
func CoqSome(s string) string        { return "(Some " + s + ")" }
func CoqOptBytes(b []byte, ok bool) string {
	if !ok {
		return "None"
	}
	return CoqSome(CoqBytes(b))
}
func CoqPair(a, b string) string { return "(" + a + ", " + b + ")" }
func Hex(b []byte) string        { return hex.EncodeToString(b) }

// ---------- standard flags ----------

type Flags struct {
	Seed   uint64
	N      int
	Tier   string
	Out    string
	Replay string
}

func ParseFlags() *Flags {
	f := &Flags{}
	flag.Uint64Var(&f.Seed, "seed", 1, "PRNG seed (VERIF_SEED)")
	flag.IntVar(&f.N, "n", 100, "number of generated cases")
	flag.StringVar(&f.Tier, "tier", "quick", "quick|thorough")
	flag.StringVar(&f.Out, "out", "", "output directory")
	flag.StringVar(&f.Replay, "replay", "", "replay file (a JSON case or replay record)")
	flag.Parse()
	if f.Out == "" {
		fmt.Fprintln(os.Stderr, "-out required")
		os.Exit(2)
	}
	os.MkdirAll(f.Out, 0o755)
	return f
}

// ---------- case files ----------

// CaseWriter writes Coq case shards  <out>/cases_<k>.v  each defining
//   Definition cases : list <caseType> := [ ... ].
// The driver appends the evaluation footer and runs coqc.
type CaseWriter struct {
	dir      string
	header   string // Require/Import lines
	caseType string
	perShard int
	cur      []string
	shard    int
	Total    int
	jsonl    *os.File
}

func NewCaseWriter(dir, header, caseType string, perShard int) *CaseWriter {
	f, err := os.Create(filepath.Join(dir, "cases.jsonl"))
	if err != nil {
		panic(err)
	}
	return &CaseWriter{dir: dir, header: header, caseType: caseType, perShard: perShard, jsonl: f}
}

// Add appends a case: coqTerm is the Coq value, js any JSON-able replayable description (must carry the id).
func (w *CaseWriter) Add(coqTerm string, js any) {
	w.cur = append(w.cur, coqTerm)
	w.Total++
	b, _ := json.Marshal(js)
	w.jsonl.Write(b)
	w.jsonl.Write([]byte("\n"))
	if len(w.cur) >= w.perShard {
		w.flush()
	}
}
func (w *CaseWriter) flush() {
	if len(w.cur) == 0 {
		return
	}
	var sb strings.Builder
	sb.WriteString(w.header)
	sb.WriteString("\nDefinition cases : list " + w.caseType + " := [\n")
	sb.WriteString(strings.Join(w.cur, ";\n"))
	sb.WriteString("\n].\n")
	os.WriteFile(filepath.Join(w.dir, fmt.Sprintf("cases_%d.v", w.shard)), []byte(sb.String()), 0o644)
	w.shard++
	w.cur = nil
}
func (w *CaseWriter) Close() { w.flush(); w.jsonl.Close() }

// ---------- report ----------

type Failure struct {
	Signature string `json:"signature"` // stable class of the failure (call site / branch / input class)
	What      string `json:"what"`
	Case      any    `json:"case"` // replayable input
}

type Report struct {
	Property        string         `json:"property"`
	Evaluations     int            `json:"evaluations"`
	DistinctNontriv int            `json:"distinct_nontrivial"`
	Rule            string         `json:"rule"`
	Samples         []any          `json:"samples"`
	Distribution    map[string]int `json:"distribution"`
	TracesValidated int            `json:"traces_validated_against_impl"`
	Exhaustive      bool           `json:"exhaustive"`
	Failures        []Failure      `json:"monitor_failures"`
	Notes           []string       `json:"notes"`
	distinct        map[string]struct{}
}

func NewReport(prop, rule string) *Report {
	return &Report{Property: prop, Rule: rule, Distribution: map[string]int{}, distinct: map[string]struct{}{}}
}
func (r *Report) Count(k string)       { r.Distribution[k]++ }
func (r *Report) CountN(k string, n int) { r.Distribution[k] += n }

// Nontrivial registers the fingerprint of a non-trivial case (distinct ones are counted).
func (r *Report) Nontrivial(fingerprint string) { r.distinct[fingerprint] = struct{}{} }
func (r *Report) Sample(x any) {
	if len(r.Samples) < 3 {
		r.Samples = append(r.Samples, x)
	}
}
func (r *Report) Fail(sig, what string, c any) {
	if len(r.Failures) < 200 {
		r.Failures = append(r.Failures, Failure{sig, what, c})
	}
}
func (r *Report) Note(s string) { r.Notes = append(r.Notes, s) }
func (r *Report) Write(dir string) {
	r.DistinctNontriv = len(r.distinct)
	if r.Samples == nil {
		r.Samples = []any{}
	}
	if r.Failures == nil {
		r.Failures = []Failure{}
	}
	b, _ := json.MarshalIndent(r, "", " ")
	os.WriteFile(filepath.Join(dir, "report.json"), b, 0o644)
}

func SortedKeys[V any](m map[string]V) []string {
	ks := make([]string, 0, len(m))
	for k := range m {
		ks = append(ks, k)
	}
	sort.Strings(ks)
	return ks
}

// ReadReplayCase loads a case from a replay file: either the bare case JSON or a
// replay record {"case": ...} written by the check driver.
func ReadReplayCase(path string, into any) {
	b, err := os.ReadFile(path)
	if err != nil {
		panic(err)
	}
	var rec map[string]json.RawMessage
	if json.Unmarshal(b, &rec) == nil {
		if c, ok := rec["case"]; ok {
			if err := json.Unmarshal(c, into); err != nil {
				panic(err)
			}
			return
		}
	}
	if err := json.Unmarshal(b, into); err != nil {
		panic(err)
	}
}

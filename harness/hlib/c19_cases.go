package hlib

import "encoding/json"

// AddJSONOnly records a replayable case in cases.jsonl without a Coq term (cases that
// are checked by the harness monitors only).
func (w *CaseWriter) AddJSONOnly(js any) {
	b, _ := json.Marshal(js)
	w.jsonl.Write(b)
	w.jsonl.Write([]byte("\n"))
}

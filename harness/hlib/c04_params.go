package hlib

import "github.com/dominant-strategies/go-quai/params"

// C04Params: values of the params.* names that may occur in the ETX inclusion guards of
// Process, taken from the compiled package of the repository under test.
func C04Params() map[string]uint64 {
	return map[string]uint64{
		"params.TimeToStartTx":           params.TimeToStartTx,
		"params.MinEtxCount":             uint64(params.MinEtxCount),
		"params.MaxEtxCount":             uint64(params.MaxEtxCount),
		"params.MinimumEtxGasDivisor":    uint64(params.MinimumEtxGasDivisor),
		"params.MaximumEtxGasMultiplier": uint64(params.MaximumEtxGasMultiplier),
	}
}

package hlib

// Extraction of the ETX hand-down glue of Slice.Append (core/slice.go) for property C04:
// every simple statement of Append that mentions the set handed to the subordinate chain
// (newInboundEtxs) or the rollup sent up to prime (crossPrimeRollup, subRollup, EtxRollupHash),
// outside the prime-only branches, printed canonically together with the conditions that guard it.
// The generator writes the list into Generated/C04Sites.v; Props/C04.v compares it with the list
// the model was written against.

import (
	"bytes"
	"fmt"
	"go/ast"
	"go/parser"
	"go/printer"
	"go/token"
	"path/filepath"
	"regexp"
	"strings"
)

var c04GlueNames = regexp.MustCompile(`\b(newInboundEtxs|crossPrimeRollup|subRollup|EtxRollupHash|etxRollupHash|pEtxRollup|subPendingEtxs)\b`)

func c04NodeString(fset *token.FileSet, n any) string {
	var b bytes.Buffer
	printer.Fprint(&b, fset, n)
	return strings.Join(strings.Fields(b.String()), " ")
}

// ExtractC04AppendGlue returns the canonical lines "guard; guard => statement".
func ExtractC04AppendGlue(repo string) ([]string, error) {
	fset := token.NewFileSet()
	f, err := parser.ParseFile(fset, filepath.Join(repo, "core", "slice.go"), nil, 0)
	if err != nil {
		return nil, err
	}
	var fn *ast.FuncDecl
	for _, d := range f.Decls {
		if fd, ok := d.(*ast.FuncDecl); ok && fd.Name.Name == "Append" && fd.Recv != nil && len(fd.Recv.List) == 1 {
			if id, ok := starX(fd.Recv.List[0].Type).(*ast.Ident); ok && id.Name == "Slice" {
				fn = fd
			}
		}
	}
	if fn == nil {
		return nil, fmt.Errorf("Slice.Append not found in core/slice.go")
	}
	var out []string
	primeOnly := func(guards []string) bool {
		for _, g := range guards {
			if g == "nodeCtx == common.PRIME_CTX" {
				return true
			}
		}
		return false
	}
	emit := func(guards []string, s string) {
		inRollupLoop := false
		for _, g := range guards {
			if g == "range subRollup" {
				inRollupLoop = true
			}
		}
		if primeOnly(guards) || strings.HasPrefix(s, "sl.logger.") || !(inRollupLoop || c04GlueNames.MatchString(s)) {
			return
		}
		out = append(out, strings.Join(guards, "; ")+" => "+s)
	}
	var walk func(stmts []ast.Stmt, guards []string)
	walkStmt := func(st ast.Stmt, guards []string) {
		switch x := st.(type) {
		case *ast.IfStmt:
			cond := c04NodeString(fset, x.Cond)
			if x.Init != nil {
				init := c04NodeString(fset, x.Init)
				emit(guards, init)
			}
			if c04GlueNames.MatchString(cond) && !primeOnly(guards) {
				ret := ""
				for _, b := range x.Body.List {
					if r, ok := b.(*ast.ReturnStmt); ok {
						ret = " -> " + c04NodeString(fset, r)
					}
				}
				out = append(out, strings.Join(guards, "; ")+" => if "+cond+ret)
			}
			walk(x.Body.List, append(append([]string{}, guards...), cond))
			if x.Else != nil {
				g := append(append([]string{}, guards...), "!("+cond+")")
				switch e := x.Else.(type) {
				case *ast.BlockStmt:
					walk(e.List, g)
				case *ast.IfStmt:
					walk([]ast.Stmt{e}, g)
				}
			}
		case *ast.ForStmt:
			walk(x.Body.List, append(append([]string{}, guards...), "for"))
		case *ast.RangeStmt:
			walk(x.Body.List, append(append([]string{}, guards...), "range "+c04NodeString(fset, x.X)))
		case *ast.BlockStmt:
			walk(x.List, guards)
		case *ast.AssignStmt, *ast.ExprStmt, *ast.ReturnStmt, *ast.DeclStmt, *ast.IncDecStmt:
			emit(guards, c04NodeString(fset, x))
		case *ast.GoStmt, *ast.DeferStmt:
			// closures started by Append do not take part in the hand-down
		default:
			emit(guards, c04NodeString(fset, x))
		}
	}
	walk = func(stmts []ast.Stmt, guards []string) {
		for _, st := range stmts {
			walkStmt(st, guards)
		}
	}
	walk(fn.Body.List, nil)
	return out, nil
}

// CoqString renders a Go string as a Coq string literal.
func CoqString(s string) string { return "\"" + strings.ReplaceAll(s, "\"", "\"\"") + "\"" }

package hlib

import (
	"io"

	"github.com/dominant-strategies/go-quai/log"
)

// QuietLogs silences the repository's global logger (it otherwise writes to
// stdout and ./nodelogs); returns the logger for APIs that need one.
func QuietLogs() *log.Logger {
	log.Global.SetOutput(io.Discard)
	return log.Global
}

package hlib

// C04: inventory of the ETX-queue discipline in core/state_processor.go (Process) and of the
// control-cell keys in core/state/statedb.go, read from the source text of the repository.
// Used by the generator (emits coq/Generated/C04Sites.v) and by the harness (interprets the
// extracted discipline over the real StateDB so that a changed source yields a failing input).

import (
	"encoding/hex"
	"fmt"
	"go/ast"
	"go/parser"
	"go/token"
	"path/filepath"
	"regexp"
	"strconv"
	"strings"
)

// C04Expr is a condition/arithmetic expression over the named quantities of the model
// (coq/Lib/C04_Expr.v).
type C04Expr struct {
	Op    string // avar bvar const div mul add sub le lt ge gt eq and or not
	Name  string // for avar/bvar: NUM COUNT GAS GASLIMIT / AVAIL
	Const uint64
	Args  []*C04Expr
}

type C04Sites struct {
	Keys map[string][]byte // newestEtxKey oldestEtxKey kQuaiKey updateBitKey -> 32 bytes

	// line numbers in core/state_processor.go, 0 = not found
	PosReadInbound, PosPush, PosLoop, PosLoopEnd, PosCount, PosPop, PosNil, PosCmp int
	PosOldest, PosRead, PosAvail, PosCountRule, PosGasRule                         int

	PushGuardLen          bool // PushETXs guarded by `if len(x) > 0`
	PushArgParentInbnd    bool // pushed list = rawdb.ReadInboundEtxs(.., <blk>.ParentHash(..))
	PopErrReturns         bool
	NilReturnsErr         bool
	CmpReturnsErr         bool
	CmpOp                 string // "!=" expected
	ReadArgIsOldest       bool
	CountRuleReturnsErr   bool
	GasRuleReturnsErr     bool
	CountRule, GasRule    *C04Expr
	NPushCalls, NPopCalls int // call sites of PushETXs/PushETX and PopETX inside Process
	// core/block_validator.go:ValidateState: `if root := statedb.ETXRoot(); header.EtxSetRoot() != root { return err }`
	PosValidateEtxRoot   int
	ValidateEtxRootError bool
	// Process opens the state at the parent's ETX-set root (state.New(.., parentEtxSetRoot, ..))
	StateAtParentEtxRoot bool
	// anchored regular expressions matching the error texts of the four refusal sites (built from the
	// fmt.Errorf format strings found there); used only to classify errors of an end-to-end Process run
	NilRe, CmpRe, CountRe, GasRe string
	Problems                     []string // things that could not be located / understood
}

func (s *C04Sites) problem(f string, a ...any) { s.Problems = append(s.Problems, fmt.Sprintf(f, a...)) }

func hexToHash32(lit string) ([]byte, error) {
	h := strings.TrimPrefix(strings.TrimPrefix(lit, "0x"), "0X")
	if len(h)%2 == 1 {
		h = "0" + h
	}
	b, err := hex.DecodeString(h)
	if err != nil {
		return nil, err
	}
	if len(b) > 32 {
		b = b[len(b)-32:]
	}
	out := make([]byte, 32)
	copy(out[32-len(b):], b)
	return out, nil
}

func exprString(fset *token.FileSet, e ast.Expr) string {
	switch x := e.(type) {
	case *ast.Ident:
		return x.Name
	case *ast.SelectorExpr:
		return exprString(fset, x.X) + "." + x.Sel.Name
	case *ast.CallExpr:
		args := make([]string, len(x.Args))
		for i, a := range x.Args {
			args[i] = exprString(fset, a)
		}
		return exprString(fset, x.Fun) + "(" + strings.Join(args, ",") + ")"
	case *ast.BasicLit:
		return x.Value
	case *ast.ParenExpr:
		return "(" + exprString(fset, x.X) + ")"
	case *ast.BinaryExpr:
		return exprString(fset, x.X) + x.Op.String() + exprString(fset, x.Y)
	case *ast.UnaryExpr:
		return x.Op.String() + exprString(fset, x.X)
	}
	return fmt.Sprintf("<%T>", e)
}

// ExtractC04Sites parses the two source files under repo. params gives the values of the
// params.* constants (taken from the compiled package by the caller).
func ExtractC04Sites(repo string, params map[string]uint64) (*C04Sites, error) {
	s := &C04Sites{Keys: map[string][]byte{}}
	fset := token.NewFileSet()

	// ---- statedb.go: control-cell keys
	sf, err := parser.ParseFile(fset, filepath.Join(repo, "core/state/statedb.go"), nil, 0)
	if err != nil {
		return nil, err
	}
	for _, d := range sf.Decls {
		gd, ok := d.(*ast.GenDecl)
		if !ok || gd.Tok != token.VAR {
			continue
		}
		for _, sp := range gd.Specs {
			vs := sp.(*ast.ValueSpec)
			for i, n := range vs.Names {
				if i >= len(vs.Values) {
					continue
				}
				switch n.Name {
				case "newestEtxKey", "oldestEtxKey", "kQuaiKey", "updateBitKey":
					call, ok := vs.Values[i].(*ast.CallExpr)
					if !ok || exprString(fset, call.Fun) != "common.HexToHash" || len(call.Args) != 1 {
						s.problem("statedb.go: %s is not common.HexToHash(<literal>)", n.Name)
						continue
					}
					lit, ok := call.Args[0].(*ast.BasicLit)
					if !ok || lit.Kind != token.STRING {
						s.problem("statedb.go: %s argument is not a string literal", n.Name)
						continue
					}
					str, _ := strconv.Unquote(lit.Value)
					b, err := hexToHash32(str)
					if err != nil {
						s.problem("statedb.go: %s literal: %v", n.Name, err)
						continue
					}
					s.Keys[n.Name] = b
				}
			}
		}
	}
	for _, k := range []string{"newestEtxKey", "oldestEtxKey", "kQuaiKey", "updateBitKey"} {
		if _, ok := s.Keys[k]; !ok {
			s.problem("statedb.go: key %s not found", k)
		}
	}

	// ---- block_validator.go: the header's ETX-set root is compared with the root of the queue trie
	if vf, err := parser.ParseFile(fset, filepath.Join(repo, "core/block_validator.go"), nil, 0); err == nil {
		for _, d := range vf.Decls {
			f, ok := d.(*ast.FuncDecl)
			if !ok || f.Name.Name != "ValidateState" || f.Body == nil {
				continue
			}
			for _, st := range f.Body.List {
				ifs, ok := st.(*ast.IfStmt)
				if !ok || ifs.Init == nil {
					continue
				}
				as, ok := ifs.Init.(*ast.AssignStmt)
				if !ok || len(as.Lhs) != 1 || len(as.Rhs) != 1 {
					continue
				}
				c, ok := as.Rhs[0].(*ast.CallExpr)
				if !ok {
					continue
				}
				if sel, ok := c.Fun.(*ast.SelectorExpr); !ok || sel.Sel.Name != "ETXRoot" {
					continue
				}
				v := exprString(fset, as.Lhs[0])
				cond := exprString(fset, ifs.Cond)
				if cond == "header.EtxSetRoot()!="+v || cond == v+"!=header.EtxSetRoot()" || cond == "block.EtxSetRoot()!="+v {
					s.PosValidateEtxRoot = fset.Position(ifs.Pos()).Line
					if n := len(ifs.Body.List); n > 0 {
						if r, ok := ifs.Body.List[n-1].(*ast.ReturnStmt); ok && len(r.Results) == 1 {
							if id, ok := r.Results[0].(*ast.Ident); !ok || id.Name != "nil" {
								s.ValidateEtxRootError = true
							}
						}
					}
				}
			}
		}
	}
	if s.PosValidateEtxRoot == 0 {
		s.problem("block_validator.go: ValidateState does not compare header.EtxSetRoot() with statedb.ETXRoot()")
	}

	// ---- state_processor.go: Process
	pf, err := parser.ParseFile(fset, filepath.Join(repo, "core/state_processor.go"), nil, 0)
	if err != nil {
		return nil, err
	}
	var fn *ast.FuncDecl
	for _, d := range pf.Decls {
		if f, ok := d.(*ast.FuncDecl); ok && f.Name.Name == "Process" && f.Recv != nil && len(f.Recv.List) == 1 &&
			strings.HasSuffix(exprString(fset, starX(f.Recv.List[0].Type)), "StateProcessor") {
			fn = f
		}
	}
	if fn == nil {
		s.problem("state_processor.go: func (*StateProcessor) Process not found")
		return s, nil
	}
	line := func(p token.Pos) int { return fset.Position(p).Line }
	isCall := func(e ast.Expr, suffix string) *ast.CallExpr {
		c, ok := e.(*ast.CallExpr)
		if !ok {
			return nil
		}
		if sel, ok := c.Fun.(*ast.SelectorExpr); ok && sel.Sel.Name == suffix {
			return c
		}
		return nil
	}
	returnsErr := func(b *ast.BlockStmt) bool {
		if b == nil || len(b.List) == 0 {
			return false
		}
		r, ok := b.List[len(b.List)-1].(*ast.ReturnStmt)
		if !ok || len(r.Results) == 0 {
			return false
		}
		last := r.Results[len(r.Results)-1]
		if id, ok := last.(*ast.Ident); ok && id.Name == "nil" {
			return false
		}
		return true
	}
	// := definitions of plain identifiers at any depth (used to inline minimumEtxGas etc.)
	defs := map[string]ast.Expr{}
	inboundVar := ""
	ast.Inspect(fn.Body, func(n ast.Node) bool {
		as, ok := n.(*ast.AssignStmt)
		if !ok || as.Tok != token.DEFINE {
			return true
		}
		if len(as.Lhs) != len(as.Rhs) {
			// v, err := f(...)
			if len(as.Rhs) == 1 {
				if id, ok := as.Lhs[0].(*ast.Ident); ok {
					if _, dup := defs[id.Name]; !dup {
						defs[id.Name] = as.Rhs[0]
					}
				}
			}
			return true
		}
		for i, l := range as.Lhs {
			if id, ok := l.(*ast.Ident); ok {
				if _, dup := defs[id.Name]; !dup {
					defs[id.Name] = as.Rhs[i]
				}
				if c := isCall(as.Rhs[i], "ReadInboundEtxs"); c != nil && len(c.Args) == 2 && isCall(c.Args[1], "ParentHash") != nil {
					inboundVar = id.Name
					s.PosReadInbound = line(as.Pos())
				}
			}
		}
		return true
	})

	ast.Inspect(fn.Body, func(n ast.Node) bool {
		if c, ok := n.(*ast.CallExpr); ok {
			if isCall(c, "PushETXs") != nil || isCall(c, "PushETX") != nil {
				s.NPushCalls++
			}
			if isCall(c, "PopETX") != nil {
				s.NPopCalls++
			}
		}
		return true
	})

	// statedb := state.New(parentEvmRoot, parentEtxSetRoot, ...) with parentEtxSetRoot := parent.Header().EtxSetRoot()
	if d, ok := defs["statedb"]; ok {
		if c := isCall(d, "New"); c != nil && len(c.Args) >= 2 {
			if id, ok := c.Args[1].(*ast.Ident); ok {
				if dd, ok := defs[id.Name]; ok && strings.HasPrefix(exprString(fset, dd), "parent.") && strings.HasSuffix(exprString(fset, dd), "EtxSetRoot()") {
					s.StateAtParentEtxRoot = true
				}
			}
		}
	}
	if !s.StateAtParentEtxRoot {
		s.problem("Process: the state is not opened at the parent's ETX-set root")
	}

	// the statement-level scan of the function body
	var loop *ast.RangeStmt
	for _, st := range fn.Body.List {
		switch x := st.(type) {
		case *ast.IfStmt:
			// if len(v) > 0 { if err := statedb.PushETXs(v); ... }
			found := false
			ast.Inspect(x, func(n ast.Node) bool {
				if c, ok := n.(*ast.CallExpr); ok && isCall(c, "PushETXs") != nil && len(c.Args) == 1 {
					found = true
					s.PosPush = line(c.Pos())
					arg := exprString(fset, c.Args[0])
					s.PushArgParentInbnd = inboundVar != "" && arg == inboundVar
					s.PushGuardLen = exprString(fset, x.Cond) == "len("+arg+")>0"
				}
				return true
			})
			_ = found
		case *ast.ExprStmt, *ast.AssignStmt:
			ast.Inspect(x, func(n ast.Node) bool {
				if c, ok := n.(*ast.CallExpr); ok && isCall(c, "PushETXs") != nil && len(c.Args) == 1 && s.PosPush == 0 {
					s.PosPush = line(c.Pos())
					arg := exprString(fset, c.Args[0])
					s.PushArgParentInbnd = inboundVar != "" && arg == inboundVar
				}
				return true
			})
		case *ast.RangeStmt:
			has := false
			ast.Inspect(x.Body, func(n ast.Node) bool {
				if c, ok := n.(*ast.CallExpr); ok && isCall(c, "PopETX") != nil {
					has = true
				}
				return true
			})
			if has && loop == nil {
				loop = x
			}
		}
	}
	if s.PosPush == 0 {
		// maybe somewhere deeper / after the loop: still report where
		ast.Inspect(fn.Body, func(n ast.Node) bool {
			if c, ok := n.(*ast.CallExpr); ok && isCall(c, "PushETXs") != nil && s.PosPush == 0 {
				s.PosPush = line(c.Pos())
				if len(c.Args) == 1 {
					s.PushArgParentInbnd = inboundVar != "" && exprString(fset, c.Args[0]) == inboundVar
				}
			}
			return true
		})
	}
	if s.PosPush == 0 {
		s.problem("Process: no statedb.PushETXs call")
	}
	if loop == nil {
		s.problem("Process: no range loop containing statedb.PopETX()")
		return s, nil
	}
	if exprString(fset, loop.X) != "block.Transactions()" {
		s.problem("Process: the PopETX loop ranges over %s", exprString(fset, loop.X))
	}
	s.PosLoop, s.PosLoopEnd = line(loop.Pos()), line(loop.End())
	txVar := exprString(fset, loop.Value)

	// the `if tx.Type() == types.ExternalTxType` branch that pops
	var etxBranch *ast.BlockStmt
	ast.Inspect(loop.Body, func(n ast.Node) bool {
		if ifs, ok := n.(*ast.IfStmt); ok && etxBranch == nil &&
			exprString(fset, ifs.Cond) == txVar+".Type()==types.ExternalTxType" {
			for _, st := range ifs.Body.List {
				if as, ok := st.(*ast.AssignStmt); ok && len(as.Rhs) == 1 && isCall(as.Rhs[0], "PopETX") != nil {
					etxBranch = ifs.Body
				}
			}
		}
		return true
	})
	if etxBranch == nil {
		s.problem("Process: no `if %s.Type() == types.ExternalTxType` branch calling PopETX at its top level", txVar)
		return s, nil
	}
	popVar := ""
	for i, st := range etxBranch.List {
		switch x := st.(type) {
		case *ast.IncDecStmt:
			if exprString(fset, x.X) == "etxCount" && x.Tok == token.INC && s.PosCount == 0 {
				s.PosCount = line(x.Pos())
			}
		case *ast.AssignStmt:
			if len(x.Rhs) == 1 && isCall(x.Rhs[0], "PopETX") != nil && s.PosPop == 0 {
				s.PosPop = line(x.Pos())
				if len(x.Lhs) == 2 {
					popVar = exprString(fset, x.Lhs[0])
					// the next statement must be the err check
					if i+1 < len(etxBranch.List) {
						if ifs, ok := etxBranch.List[i+1].(*ast.IfStmt); ok && exprString(fset, ifs.Cond) == exprString(fset, x.Lhs[1])+"!=nil" {
							s.PopErrReturns = returnsErr(ifs.Body)
						}
					}
				}
			}
		case *ast.IfStmt:
			c := exprString(fset, x.Cond)
			if popVar != "" && (c == popVar+"==nil" || c == "nil=="+popVar) && s.PosNil == 0 {
				s.PosNil = line(x.Pos())
				s.NilReturnsErr = returnsErr(x.Body)
				s.NilRe = errRegexp(x.Body)
			}
			if be, ok := x.Cond.(*ast.BinaryExpr); ok && popVar != "" && s.PosCmp == 0 {
				l, r := exprString(fset, be.X), exprString(fset, be.Y)
				a, b := popVar+".Hash()", txVar+".Hash()"
				if (l == a && r == b) || (l == b && r == a) {
					s.PosCmp = line(x.Pos())
					s.CmpOp = be.Op.String()
					s.CmpReturnsErr = returnsErr(x.Body)
					s.CmpRe = errRegexp(x.Body)
				}
			}
		}
	}
	if s.PosCount == 0 {
		s.problem("Process: etxCount++ not found in the ExternalTx branch")
	}
	if s.PosPop == 0 {
		s.problem("Process: PopETX assignment not found")
	}
	if s.PosNil == 0 {
		s.problem("Process: nil check of the popped ETX not found")
	}
	if s.PosCmp == 0 {
		s.problem("Process: hash comparison of the popped ETX with the block's transaction not found")
	}

	// after the loop
	after := false
	oldestVar, readVar := "", ""
	for _, st := range fn.Body.List {
		if st == ast.Stmt(loop) {
			after = true
			continue
		}
		if !after {
			continue
		}
		switch x := st.(type) {
		case *ast.AssignStmt:
			if len(x.Rhs) == 1 && len(x.Lhs) == 2 {
				if isCall(x.Rhs[0], "GetOldestIndex") != nil && s.PosOldest == 0 {
					s.PosOldest = line(x.Pos())
					oldestVar = exprString(fset, x.Lhs[0])
				}
				if c := isCall(x.Rhs[0], "ReadETX"); c != nil && s.PosRead == 0 {
					s.PosRead = line(x.Pos())
					readVar = exprString(fset, x.Lhs[0])
					s.ReadArgIsOldest = len(c.Args) == 1 && oldestVar != "" && exprString(fset, c.Args[0]) == oldestVar
				}
			}
		case *ast.IfStmt:
			c := exprString(fset, x.Cond)
			if readVar != "" && c == readVar+"!=nil" && s.PosAvail == 0 && len(x.Body.List) == 1 &&
				stmtString(fset, x.Body.List[0]) == "etxAvailable=true" {
				s.PosAvail = line(x.Pos())
			}
			if strings.Contains(c, "etxCount") && s.PosCountRule == 0 {
				s.PosCountRule = line(x.Pos())
				s.CountRuleReturnsErr = returnsErr(x.Body)
				s.CountRe = errRegexp(x.Body)
				e, err := convB(fset, x.Cond, defs, params, 0)
				if err != nil {
					s.problem("Process: count rule: %v", err)
				}
				s.CountRule = e
			}
			if strings.Contains(c, "totalEtxGas") && s.PosGasRule == 0 {
				s.PosGasRule = line(x.Pos())
				s.GasRuleReturnsErr = returnsErr(x.Body)
				s.GasRe = errRegexp(x.Body)
				e, err := convB(fset, x.Cond, defs, params, 0)
				if err != nil {
					s.problem("Process: gas rule: %v", err)
				}
				s.GasRule = e
			}
		}
	}
	if d, ok := defs["etxAvailable"]; !ok || exprString(fset, d) != "false" {
		s.problem("Process: etxAvailable is not initialised to false")
	}
	if d, ok := defs["etxCount"]; !ok || exprString(fset, d) != "0" {
		s.problem("Process: etxCount is not initialised to 0")
	}
	if s.PosOldest == 0 || s.PosRead == 0 || s.PosAvail == 0 {
		s.problem("Process: availability probe (GetOldestIndex / ReadETX / etxAvailable = true) not found after the loop")
	}
	if s.PosCountRule == 0 {
		s.problem("Process: ETX count rule not found after the loop")
	}
	if s.PosGasRule == 0 {
		s.problem("Process: ETX gas rule not found after the loop")
	}
	return s, nil
}

var fmtVerb = regexp.MustCompile(`%[-+# 0]*[0-9]*(\.[0-9]+)?[a-zA-Z]`)

// errRegexp turns the format string of the fmt.Errorf returned at the end of b into an anchored
// regular expression ("" if there is none).
func errRegexp(b *ast.BlockStmt) string {
	if b == nil || len(b.List) == 0 {
		return ""
	}
	r, ok := b.List[len(b.List)-1].(*ast.ReturnStmt)
	if !ok || len(r.Results) == 0 {
		return ""
	}
	c, ok := r.Results[len(r.Results)-1].(*ast.CallExpr)
	if !ok || len(c.Args) == 0 {
		return ""
	}
	lit, ok := c.Args[0].(*ast.BasicLit)
	if !ok || lit.Kind != token.STRING {
		return ""
	}
	f, err := strconv.Unquote(lit.Value)
	if err != nil {
		return ""
	}
	parts := fmtVerb.Split(f, -1)
	for i := range parts {
		parts[i] = regexp.QuoteMeta(parts[i])
	}
	return "^" + strings.Join(parts, ".*") + "$"
}

func starX(e ast.Expr) ast.Expr {
	if s, ok := e.(*ast.StarExpr); ok {
		return s.X
	}
	return e
}

func stmtString(fset *token.FileSet, st ast.Stmt) string {
	if as, ok := st.(*ast.AssignStmt); ok && len(as.Lhs) == 1 && len(as.Rhs) == 1 {
		return exprString(fset, as.Lhs[0]) + as.Tok.String() + exprString(fset, as.Rhs[0])
	}
	return fmt.Sprintf("<%T>", st)
}

func convB(fset *token.FileSet, e ast.Expr, defs map[string]ast.Expr, params map[string]uint64, depth int) (*C04Expr, error) {
	if depth > 8 {
		return nil, fmt.Errorf("definition chain too deep")
	}
	switch x := e.(type) {
	case *ast.ParenExpr:
		return convB(fset, x.X, defs, params, depth)
	case *ast.Ident:
		if x.Name == "etxAvailable" {
			return &C04Expr{Op: "bvar", Name: "AVAIL"}, nil
		}
		return nil, fmt.Errorf("unknown boolean identifier %s", x.Name)
	case *ast.UnaryExpr:
		if x.Op == token.NOT {
			a, err := convB(fset, x.X, defs, params, depth)
			if err != nil {
				return nil, err
			}
			return &C04Expr{Op: "not", Args: []*C04Expr{a}}, nil
		}
	case *ast.BinaryExpr:
		switch x.Op {
		case token.LAND, token.LOR:
			a, err := convB(fset, x.X, defs, params, depth)
			if err != nil {
				return nil, err
			}
			b, err := convB(fset, x.Y, defs, params, depth)
			if err != nil {
				return nil, err
			}
			op := "and"
			if x.Op == token.LOR {
				op = "or"
			}
			return &C04Expr{Op: op, Args: []*C04Expr{a, b}}, nil
		case token.LSS, token.LEQ, token.GTR, token.GEQ, token.EQL, token.NEQ:
			a, err := convA(fset, x.X, defs, params, depth)
			if err != nil {
				return nil, err
			}
			b, err := convA(fset, x.Y, defs, params, depth)
			if err != nil {
				return nil, err
			}
			op := map[token.Token]string{token.LSS: "lt", token.LEQ: "le", token.GTR: "gt", token.GEQ: "ge", token.EQL: "eq", token.NEQ: "eq"}[x.Op]
			r := &C04Expr{Op: op, Args: []*C04Expr{a, b}}
			if x.Op == token.NEQ {
				r = &C04Expr{Op: "not", Args: []*C04Expr{r}}
			}
			return r, nil
		}
	}
	return nil, fmt.Errorf("unsupported boolean expression %s", exprString(fset, e))
}

func convA(fset *token.FileSet, e ast.Expr, defs map[string]ast.Expr, params map[string]uint64, depth int) (*C04Expr, error) {
	if depth > 8 {
		return nil, fmt.Errorf("definition chain too deep")
	}
	switch x := e.(type) {
	case *ast.ParenExpr:
		return convA(fset, x.X, defs, params, depth)
	case *ast.BasicLit:
		if x.Kind == token.INT {
			v, err := strconv.ParseUint(x.Value, 0, 64)
			if err != nil {
				return nil, err
			}
			return &C04Expr{Op: "const", Const: v}, nil
		}
	case *ast.Ident:
		switch x.Name {
		case "etxCount":
			return &C04Expr{Op: "avar", Name: "COUNT"}, nil
		case "totalEtxGas":
			return &C04Expr{Op: "avar", Name: "GAS"}, nil
		}
		if d, ok := defs[x.Name]; ok {
			return convA(fset, d, defs, params, depth+1)
		}
		return nil, fmt.Errorf("unknown identifier %s", x.Name)
	case *ast.SelectorExpr:
		name := exprString(fset, x)
		if v, ok := params[name]; ok {
			return &C04Expr{Op: "const", Const: v}, nil
		}
		return nil, fmt.Errorf("unknown constant %s", name)
	case *ast.CallExpr:
		str := exprString(fset, x)
		switch str {
		case "block.NumberU64(common.ZONE_CTX)", "header.NumberU64(common.ZONE_CTX)":
			return &C04Expr{Op: "avar", Name: "NUM"}, nil
		case "header.GasLimit()", "block.GasLimit()":
			return &C04Expr{Op: "avar", Name: "GASLIMIT"}, nil
		}
		// conversions uint64(x), int(x)
		if id, ok := x.Fun.(*ast.Ident); ok && len(x.Args) == 1 && (id.Name == "uint64" || id.Name == "int" || id.Name == "uint") {
			return convA(fset, x.Args[0], defs, params, depth)
		}
		return nil, fmt.Errorf("unknown call %s", str)
	case *ast.BinaryExpr:
		op := map[token.Token]string{token.QUO: "div", token.MUL: "mul", token.ADD: "add", token.SUB: "sub"}[x.Op]
		if op != "" {
			a, err := convA(fset, x.X, defs, params, depth)
			if err != nil {
				return nil, err
			}
			b, err := convA(fset, x.Y, defs, params, depth)
			if err != nil {
				return nil, err
			}
			return &C04Expr{Op: op, Args: []*C04Expr{a, b}}, nil
		}
	}
	return nil, fmt.Errorf("unsupported arithmetic expression %s", exprString(fset, e))
}

// Coq prints the expression as a term of Lib/C04_Expr.v.
func (e *C04Expr) Coq() string {
	if e == nil {
		return "(BVar 99)"
	}
	bin := func(c string) string { return "(" + c + " " + e.Args[0].Coq() + " " + e.Args[1].Coq() + ")" }
	switch e.Op {
	case "avar":
		return "(AVar V_" + e.Name + ")"
	case "bvar":
		return "(BVar B_" + e.Name + ")"
	case "const":
		return fmt.Sprintf("(AConst %d)", e.Const)
	case "div":
		return bin("ADiv")
	case "mul":
		return bin("AMul")
	case "add":
		return bin("AAdd")
	case "sub":
		return bin("ASub")
	case "le":
		return bin("BLe")
	case "lt":
		return bin("BLt")
	case "ge":
		return bin("BGe")
	case "gt":
		return bin("BGt")
	case "eq":
		return bin("BEq")
	case "and":
		return bin("BAnd")
	case "or":
		return bin("BOr")
	case "not":
		return "(BNot " + e.Args[0].Coq() + ")"
	}
	return "(BVar 98)"
}

// C04Env are the quantities an extracted expression may mention.
type C04Env struct {
	Num, Count, Gas, GasLimit uint64
	Avail                     bool
}

func (e *C04Expr) EvalA(env C04Env) uint64 {
	switch e.Op {
	case "avar":
		switch e.Name {
		case "NUM":
			return env.Num
		case "COUNT":
			return env.Count
		case "GAS":
			return env.Gas
		case "GASLIMIT":
			return env.GasLimit
		}
	case "const":
		return e.Const
	case "div":
		d := e.Args[1].EvalA(env)
		if d == 0 {
			return 0
		}
		return e.Args[0].EvalA(env) / d
	case "mul":
		return e.Args[0].EvalA(env) * e.Args[1].EvalA(env)
	case "add":
		return e.Args[0].EvalA(env) + e.Args[1].EvalA(env)
	case "sub":
		a, b := e.Args[0].EvalA(env), e.Args[1].EvalA(env)
		if b > a {
			return 0
		}
		return a - b
	}
	return 0
}

func (e *C04Expr) EvalB(env C04Env) bool {
	switch e.Op {
	case "bvar":
		return e.Name == "AVAIL" && env.Avail
	case "le":
		return e.Args[0].EvalA(env) <= e.Args[1].EvalA(env)
	case "lt":
		return e.Args[0].EvalA(env) < e.Args[1].EvalA(env)
	case "ge":
		return e.Args[0].EvalA(env) >= e.Args[1].EvalA(env)
	case "gt":
		return e.Args[0].EvalA(env) > e.Args[1].EvalA(env)
	case "eq":
		return e.Args[0].EvalA(env) == e.Args[1].EvalA(env)
	case "and":
		return e.Args[0].EvalB(env) && e.Args[1].EvalB(env)
	case "or":
		return e.Args[0].EvalB(env) || e.Args[1].EvalB(env)
	case "not":
		return !e.Args[0].EvalB(env)
	}
	return false
}

package main

// World of the C07 harness: the scaled protocol schedule, deterministic keys ground to
// zone (0,0) addresses, the small set of contracts used as transaction content and the
// factories for signed Quai / Qi transactions and for inbound external transactions.

import (
	"crypto/ecdsa"
	"fmt"
	"math/big"

	"github.com/btcsuite/btcd/btcec/v2"
	"github.com/btcsuite/btcd/btcec/v2/schnorr"
	"github.com/btcsuite/btcd/btcec/v2/schnorr/musig2"
	"github.com/dominant-strategies/go-quai/common"
	"github.com/dominant-strategies/go-quai/core/types"
	"github.com/dominant-strategies/go-quai/core/vm"
	"github.com/dominant-strategies/go-quai/crypto"
	"github.com/dominant-strategies/go-quai/params"
	"verifharness/hlib"
)

var loc = common.Location{0, 0}

// setupSchedule scales the protocol schedule down to a test network (done once, before
// any zone is created; never changed afterwards). The code paths are unchanged.
func setupSchedule() {
	params.TimeToStartTx = 0
	params.ControllerKickInBlock = 0
	params.CoinbaseLockupPrecompileKickInHeight = 0
	params.ConversionLockPeriod = 2
	params.LockupByteToBlockDepth = [4]uint64{2, 4, 6, 8}
	params.CoinbaseEpochBlocks = 4
	for i := uint8(0); i <= 5; i++ {
		types.TrimDepths[i] = uint64(3 + i)
	}
}

type quaiAcct struct {
	key  *ecdsa.PrivateKey
	addr common.Address
}

type qiAcct struct {
	key  *btcec.PrivateKey
	addr common.Address
}

func grindQuai(tag string, n int, l common.Location) []quaiAcct {
	var out []quaiAcct
	for i := 0; len(out) < n; i++ {
		k, err := crypto.ToECDSA(crypto.Keccak256([]byte(fmt.Sprintf("%s-%d", tag, i))))
		if err != nil {
			continue
		}
		a := crypto.PubkeyToAddress(k.PublicKey, l)
		if !a.Location().Equal(l) || !a.IsInQuaiLedgerScope() {
			continue
		}
		// the address object is always classified relative to the node's own location
		// (as it is when a transaction is decoded from the wire by a zone (0,0) node)
		out = append(out, quaiAcct{k, common.BytesToAddress(a.Bytes(), loc)})
	}
	return out
}

func grindQi(tag string, n int, l common.Location) []qiAcct {
	var out []qiAcct
	for i := 0; len(out) < n; i++ {
		k, _ := btcec.PrivKeyFromBytes(crypto.Keccak256([]byte(fmt.Sprintf("%s-%d", tag, i))))
		a := crypto.PubkeyBytesToAddress(k.PubKey().SerializeUncompressed(), l)
		if !a.Location().Equal(l) || !a.IsInQiLedgerScope() {
			continue
		}
		out = append(out, qiAcct{k, common.BytesToAddress(a.Bytes(), loc)})
	}
	return out
}

type world struct {
	eoas     []quaiAcct // funded senders
	cbQuai   common.Address
	cbQi     common.Address
	qis      []qiAcct   // own-zone Qi owners
	farQuai  []quaiAcct // Quai addresses in other zones
	farQi    []qiAcct
	chainID  *big.Int
	signer   types.Signer
	lockupCt common.Address // an in-zone Quai address without code (used as lockup contract)
}

func newWorld(chainID *big.Int) *world {
	w := &world{chainID: chainID, signer: types.NewSigner(chainID, loc)}
	w.eoas = grindQuai("verif-c07-eoa", 8, loc)
	w.cbQuai = grindQuai("verif-c07-cb", 1, loc)[0].addr
	w.lockupCt = grindQuai("verif-c07-lct", 1, loc)[0].addr
	w.qis = grindQi("verif-c07-qi", 4, loc)
	w.cbQi = w.qis[3].addr
	w.farQuai = append(grindQuai("verif-c07-far01", 2, common.Location{0, 1}), grindQuai("verif-c07-far10", 2, common.Location{1, 0})...)
	w.farQi = append(grindQi("verif-c07-farqi01", 1, common.Location{0, 1}), grindQi("verif-c07-farqi10", 1, common.Location{1, 0})...)
	return w
}

// ---------- contracts ----------

func initCode(runtime []byte) []byte {
	l := byte(len(runtime))
	return append([]byte{0x60, l, 0x60, 0x0c, 0x60, 0x00, 0x39, 0x60, l, 0x60, 0x00, 0xf3}, runtime...)
}

var (
	// counter: s[0]++ ; log1(topic, s[0])
	rtCounter = func() []byte {
		c := []byte{0x60, 0x00, 0x54, 0x60, 0x01, 0x01, 0x80, 0x60, 0x00, 0x55, 0x60, 0x00, 0x52, 0x7f}
		c = append(c, crypto.Keccak256([]byte("verif-c07-topic"))...)
		return append(c, 0x60, 0x20, 0x60, 0x00, 0xa1, 0x00)
	}()
	// reverter
	rtRevert = []byte{0x60, 0x00, 0x60, 0x00, 0xfd}
	// context recorder: stores COINBASE, NUMBER, TIMESTAMP, GASLIMIT, BASEFEE, DIFFICULTY, BLOCKHASH(n-1), GASPRICE, ORIGIN
	rtContext = []byte{
		0x41, 0x60, 0x01, 0x55,
		0x43, 0x60, 0x02, 0x55,
		0x42, 0x60, 0x03, 0x55,
		0x45, 0x60, 0x04, 0x55,
		0x48, 0x60, 0x05, 0x55,
		0x44, 0x60, 0x06, 0x55,
		0x60, 0x01, 0x43, 0x03, 0x40, 0x60, 0x07, 0x55,
		0x3a, 0x60, 0x08, 0x55,
		0x32, 0x60, 0x09, 0x55,
		0x00}
	contractKinds = [][]byte{rtCounter, rtRevert, rtContext, rtEmitter} // rtEmitter: budget.go
)

func slotKeys(n int) []common.Hash {
	out := make([]common.Hash, n)
	for i := range out {
		out[i] = common.BigToHash(big.NewInt(int64(i)))
	}
	return out
}

// ---------- transactions ----------

type quaiSpec struct {
	from   int
	nonce  uint64
	price  *big.Int
	gas    uint64
	to     *common.Address
	value  *big.Int
	data   []byte
	access types.AccessList
}

func (w *world) signQuai(s quaiSpec) *types.Transaction {
	inner := &types.QuaiTx{ChainID: w.chainID, Nonce: s.nonce, GasPrice: s.price, Gas: s.gas, To: s.to, Value: s.value, Data: s.data, AccessList: s.access}
	tx, err := types.SignTx(types.NewTx(inner), w.signer, w.eoas[s.from].key)
	if err != nil {
		panic(err)
	}
	return tx
}

// signQi builds a Qi transaction spending the given outpoints (all owned by owner).
func (w *world) signQi(owner qiAcct, ins []types.OutPoint, outs types.TxOuts) *types.Transaction {
	var txin types.TxIns
	for _, op := range ins {
		txin = append(txin, types.TxIn{PreviousOutPoint: op, PubKey: owner.key.PubKey().SerializeUncompressed()})
	}
	qt := &types.QiTx{ChainID: w.chainID, TxIn: txin, TxOut: outs}
	d := w.signer.Hash(types.NewTx(qt))
	if len(ins) > 1 {
		qt.Signature = musigSameKey(owner.key, len(ins), d)
		return types.NewTx(qt)
	}
	sig, err := schnorr.Sign(owner.key, d[:])
	if err != nil {
		panic(err)
	}
	qt.Signature = sig
	return types.NewTx(qt)
}

// detReader: deterministic byte stream derived from a seed (nonce generation of test signatures only).
type detReader struct {
	seed []byte
	ctr  byte
}

func (d *detReader) Read(p []byte) (int, error) {
	for i := 0; i < len(p); {
		d.ctr++
		i += copy(p[i:], crypto.Keccak256(d.seed, []byte{d.ctr}))
	}
	return len(p), nil
}

// musigSameKey: a transaction with n > 1 inputs is verified against the MuSig2 aggregate of the n input
// public keys (here n times the same key): run the n signers locally and combine.
func musigSameKey(key *btcec.PrivateKey, n int, digest [32]byte) *schnorr.Signature {
	pubs := make([]*btcec.PublicKey, n)
	nonces := make([]*musig2.Nonces, n)
	pubNonces := make([][musig2.PubNonceSize]byte, n)
	for i := 0; i < n; i++ {
		pubs[i] = key.PubKey()
		nn, err := musig2.GenNonces(musig2.WithCustomRand(&detReader{seed: append(digest[:], byte(i))}), musig2.WithPublicKey(key.PubKey()))
		if err != nil {
			panic(err)
		}
		nonces[i], pubNonces[i] = nn, nn.PubNonce
	}
	comb, err := musig2.AggregateNonces(pubNonces)
	if err != nil {
		panic(err)
	}
	parts := make([]*musig2.PartialSignature, n)
	for i := 0; i < n; i++ {
		ps, err := musig2.Sign(nonces[i].SecNonce, key, comb, pubs, digest)
		if err != nil {
			panic(err)
		}
		parts[i] = ps
	}
	return musig2.CombineSigs(parts[0].R, parts)
}

// originHash builds an originating tx hash whose origin byte (h[2]) is the given zone.
func originHash(r *hlib.Rng, origin common.Location) common.Hash {
	var h common.Hash
	copy(h[:], r.Bytes(32))
	o := byte(origin[0])*16 + byte(origin[1])
	h[0] = o
	h[1] &= 0x7f
	h[2] = o
	h[3] &= 0x7f
	return h
}

func etx(e *types.ExternalTx) *types.Transaction { return types.NewTx(e) }

func bigPow10(n int) *big.Int { return new(big.Int).Exp(big.NewInt(10), big.NewInt(int64(n)), nil) }

var _ = vm.LockupContractAddresses

func bigInt(x int64) *big.Int { return big.NewInt(x) }

package main

import (
	"crypto/ecdsa"
	"fmt"
	"math/big"
	"os"

	"github.com/dominant-strategies/go-quai/common"
	"github.com/dominant-strategies/go-quai/core"
	"github.com/dominant-strategies/go-quai/core/rawdb"
	"github.com/dominant-strategies/go-quai/core/types"
	"github.com/dominant-strategies/go-quai/crypto"
	"github.com/dominant-strategies/go-quai/log"
	"github.com/dominant-strategies/go-quai/params"
	"verifharness/hlib"
)

var loc = common.Location{0, 0}

type acct struct {
	key  *ecdsa.PrivateKey
	addr common.Address
}

func grind(tag string, n int) []acct {
	var out []acct
	for i := 0; len(out) < n; i++ {
		k, err := crypto.ToECDSA(crypto.Keccak256([]byte(fmt.Sprintf("%s-%d", tag, i))))
		if err != nil {
			continue
		}
		a := crypto.PubkeyToAddress(k.PublicKey, loc)
		if _, err := a.InternalAndQuaiAddress(); err != nil {
			continue
		}
		out = append(out, acct{k, a})
	}
	return out
}

func main() {
	logger := hlib.QuietLogs()
	if os.Getenv("VLOG") != "" {
		log.Global.SetOutput(os.Stderr)
	}
	params.TimeToStartTx = 0
	params.ControllerKickInBlock = 0
	db := rawdb.NewMemoryDatabase(logger)
	accts := grind("verif-c07", 6)
	cb := accts[5].addr
	qi := common.HexToAddress("0x0080000000000000000000000000000000000001", loc)
	z, err := core.VerifNewZone(db, core.VerifZoneOptions{Location: loc, QuaiCoinbase: cb, QiCoinbase: qi, GenesisTime: 1000}, logger)
	if err != nil {
		fmt.Println("newzone:", err)
		return
	}
	chainID := z.Config.ChainID
	signer := types.NewSigner(chainID, loc)
	fmt.Println("chainid", chainID)
	var pending types.Transactions
	nonces := map[int]uint64{}
	foreign := common.HexToAddress("0x1000000000000000000000000000000000000007", common.Location{1, 0})
	for i := 0; i < 30; i++ {
		head := z.Hc.CurrentHeader()
		// txs
		if i >= 6 {
			for s := 0; s < 3; s++ {
				to := accts[(s+1)%5].addr
				inner := &types.QuaiTx{ChainID: chainID, Nonce: nonces[s], GasPrice: new(big.Int).Add(new(big.Int).Mul(head.BaseFee(), big.NewInt(2)), big.NewInt(int64(1000*(s+1)))), Gas: 21000, To: &to, Value: big.NewInt(12345)}
				tx, err := types.SignTx(types.NewTx(inner), signer, accts[s].key)
				if err != nil {
					fmt.Println("sign", err)
					return
				}
				if err := z.Pool.AddLocal(tx); err != nil {
					fmt.Println("  addlocal:", s, err)
				} else {
					nonces[s]++
				}
			}
		}
		b, err := z.Assemble(true)
		if err != nil {
			fmt.Println("assemble:", i, err)
			return
		}
		b.WorkObjectHeader().SetHeaderHash(b.Header().Hash())
		fmt.Println("assembled", b.NumberU64(common.ZONE_CTX), "out", len(b.OutboundEtxs()), "txs", len(b.Transactions()), "gaslimit", b.GasLimit(), "gasused", b.GasUsed(), "basefee", b.BaseFee(), "coinbase", b.PrimaryCoinbase().Hex(), "fees", b.TotalFees(), b.AvgTxFees())
		if err := z.VerifyHeader(b); err != nil {
			fmt.Println("  verifyheader:", err)
		}
		if err := z.ValidateBody(b); err != nil {
			fmt.Println("  validatebody:", err)
		}
		if err := z.Append(b); err != nil {
			fmt.Println("append:", i, err)
			return
		}
		z.VerifC07PoolReset(head, b)
		pending = append(pending, b.OutboundEtxs()...)
		if i%3 == 2 {
			in := append(types.Transactions{}, pending...)
			if i == 2 {
				for k := 0; k < 5; k++ {
					to := accts[k].addr
					var oh common.Hash
					oh[0] = 0x10
					oh[2] = 0x10
					oh[31] = byte(k + 1)
					in = append(in, types.NewTx(&types.ExternalTx{To: &to, Gas: 200000, Value: new(big.Int).Mul(big.NewInt(1e18), big.NewInt(100)), EtxType: types.DefaultType, OriginatingTxHash: oh, ETXIndex: uint16(k), Sender: foreign}))
				}
			}
			rawdb.WriteInboundEtxs(db, b.Hash(), in)
			pending = nil
		}
		for _, r := range z.Processor().GetReceiptsByHash(b.Hash()) {
			fmt.Println("   receipt type", r.Type, "status", r.Status, "gas", r.GasUsed, "etxs", len(r.OutboundEtxs))
		}
		st, _ := z.StateAt(b)
		ia, _ := accts[0].addr.InternalAndQuaiAddress()
		fmt.Println(" utxo set size", rawdb.ReadUTXOSetSize(db, b.Hash()), "bal0", st.GetBalance(ia), "nonce0", st.GetNonce(ia))
	}
}

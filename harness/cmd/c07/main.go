// Harness of property C07: own blocks validate; any deviation from re-execution is
// rejected; a rejected block leaves no trace.
//
// Liveness direction: random chains are grown with the REAL worker
// (GeneratePendingHeader over the real TxPool and inbound ETX queue); every block it
// returns is sealed and given to the REAL validation path (ValidateBody, then
// HeaderChain.SetCurrentHeader -> BodyDb.Append -> StateProcessor.Apply -> Process +
// ValidateState). Monitor: accepted.
// Safety direction: each accepted block is mutated in one component; every mutant is
// validated on a second node opened on a copy of the pre-state. Monitors: rejected, the
// database is unchanged by the rejected append, and after all rejected mutants the honest
// block is still accepted and yields the same database as on the primary node.
// Correspondence: (declared commitments, recomputed commitments observed from a separate
// Process run, observed verdict class) are emitted as Coq cases for Model/C07.v.
package main

import (
	"fmt"
	"os"
	"runtime/debug"

	"github.com/dominant-strategies/go-quai/log"
	"github.com/dominant-strategies/go-quai/params"
	"verifharness/hlib"
)

const rule = "a case = one block offered to the real validation path (honest block assembled by the real worker, or one single-component mutant of it); " +
	"non-trivial = honest block carrying transactions (distinct by chain kind, numbers of Quai/ETX/Qi transactions, outbound ETXs, gas) or a mutant (distinct by mutation class, verdict class and execution-error class)"

func chainRng(seed uint64, idx int) *hlib.Rng {
	return hlib.NewRng(seed*1000003 + uint64(idx)*7919 + 1)
}

func runOne(rc *runCtx, w *world, idx int, logger *log.Logger) {
	cfg := cfgFor(idx)
	if idx >= 1000 {
		if k := corpus[(idx-1000)%len(corpus)]; k.startTx > 0 {
			// the schedule constant is read by worker, validator and gas-limit computation: set it for the
			// lifetime of this chain only (chains run one after the other; the previous zone is closed)
			params.TimeToStartTx = k.startTx
			defer func() { params.TimeToStartTx = 0 }()
		}
		if k := corpus[(idx-1000)%len(corpus)]; k.blocksPerMonth > 0 {
			old := params.BlocksPerMonth
			params.BlocksPerMonth = k.blocksPerMonth
			defer func() { params.BlocksPerMonth = old }()
		}
	}
	c, err := newChain(w, cfg, chainRng(rc.seed, idx), rc.rep, logger)
	if err != nil {
		rc.rep.Note("cannot create zone: " + err.Error())
		return
	}
	defer c.close()
	last := rc.blocks
	if idx >= 1000 {
		k := corpus[(idx-1000)%len(corpus)]
		c.script = k.script
		c.poolScript = k.pool
		c.noMut = k.noMut
		c.noGeneric = k.noGeneric
		if k.startTx > 0 {
			c.startup, c.funded = true, true
		}
		last = k.blocks
		rc.rep.Count("corpus/" + k.name)
	}
	if rc.tgt != nil {
		last = rc.tgt.block + 1
	}
	c.n.z.Locked(func() { // production holds hc.headermu around these calls; it also keeps the worker's ticker out
		for i := 0; i < last; i++ {
			stop := false
			func() {
				defer func() {
					if p := recover(); p != nil {
						if rc.verbose {
							fmt.Println("PANIC", p, string(debug.Stack()))
						}
						rc.rep.Fail("harness-step-panic", fmt.Sprint("panic in block step: ", p), caseJSON{ID: caseID(idx, i, 0), Seed: rc.seed, Chain: idx, Blocks: rc.blocks, Block: i, Mutant: "honest"})
						stop = true
					}
				}()
				stop = c.step(rc, i)
			}()
			if stop {
				break
			}
		}
	})
}

func main() {
	f := hlib.ParseFlags()
	logger := hlib.QuietLogs()
	if os.Getenv("VLOG") != "" {
		log.Global.SetOutput(os.Stderr)
	}
	setupSchedule()
	rep := hlib.NewReport("C07", rule)
	cw := hlib.NewCaseWriter(f.Out, "From Coq Require Import List NArith Bool.\nFrom GQ Require Import Model.C07.\nImport ListNotations.\nLocal Open Scope N_scope.\n", "C07.case", 60)
	w := newWorld(bigInt(1337))
	rc := &runCtx{seed: f.Seed, rep: rep, cw: cw, verbose: os.Getenv("C07_VERBOSE") != ""}
	// plan: N = total number of blocks, spread over chains of 30 (quick) / 60 (thorough) blocks
	rc.blocks = 30
	rc.mutPct = 28
	rc.caseEvery = 5
	if f.Tier == "thorough" {
		rc.blocks = 60
		rc.mutPct = 60
		rc.caseEvery = 6
	}
	if f.Replay != "" {
		var cj caseJSON
		hlib.ReadReplayCase(f.Replay, &cj)
		rc.seed = cj.Seed
		if cj.Blocks > 0 {
			rc.blocks = cj.Blocks
		}
		m := cj.Mutant
		if m == "honest-after-mutants" || m == "honest-before-mutants" {
			m = ""
		}
		rc.tgt = &target{chain: cj.Chain, block: cj.Block, mutant: m}
		runOne(rc, w, cj.Chain, logger)
	} else {
		nChains := (f.N + rc.blocks - 1) / rc.blocks
		if nChains < 1 {
			nChains = 1
		}
		for k := range corpus {
			runOne(rc, w, 1000+k, logger)
		}
		for i := 0; i < nChains; i++ {
			runOne(rc, w, i, logger)
		}
	}
	cw.Close()
	rep.Note("schedule scaled to a test network before any zone is created: TimeToStartTx=0 (1000 while the corpus chain startup-etx-count-rule runs, 2 while tx-start-boundary runs; BlocksPerMonth=4 while gas-limit-ramp runs), ControllerKickInBlock=0, CoinbaseLockupPrecompileKickInHeight=0, ConversionLockPeriod=2, LockupByteToBlockDepth={2,4,6,8}, CoinbaseEpochBlocks=4, TrimDepths=3..8")
	rep.Write(f.Out)
}

package main

// One block step: pool content -> real worker assembles -> seal -> own validation
// (ValidateBody + Store + SetCurrentHeader) on the primary node; mutants of the accepted
// block on a sibling node opened on a copy of the pre-state; database diffs; Coq cases.

import (
	"bytes"
	"fmt"
	"math/big"
	"regexp"
	"runtime/debug"
	"sort"
	"strings"

	"github.com/dominant-strategies/go-quai/common"
	"github.com/dominant-strategies/go-quai/core/rawdb"
	"github.com/dominant-strategies/go-quai/core/types"
	"github.com/dominant-strategies/go-quai/crypto"
	"github.com/dominant-strategies/go-quai/ethdb"
	"github.com/dominant-strategies/go-quai/params"
	"github.com/dominant-strategies/go-quai/trie"
	"google.golang.org/protobuf/proto"
	"verifharness/hlib"
)

// ---------- verdict classes (same numbering as Model/C07.v) ----------

const (
	vOk = iota
	vUncles
	vUncleHash
	vTxRoot
	vScope
	vEtxBody
	vExec
	vAvg
	vTotal
	vGas
	vStateUsed
	vReceipt
	vEvmRoot
	vStateSize
	vUtxoRoot
	vEtxSetRoot
	vEtxEmitted
	vUncledEntropy
)

var verdictNames = []string{"ok", "uncles-invalid", "uncle-hash", "tx-root", "qi-scope", "etx-body-hash", "exec-error", "avg-fees", "total-fees", "gas-used",
	"state-used", "receipt-root", "evm-root", "state-size", "utxo-root", "etx-set-root", "etx-emitted-hash", "uncled-entropy"}

var bodyPrefixes = []struct {
	p string
	v int
}{
	{"uncle root hash mismatch", vUncleHash}, {"transaction root hash mismatch", vTxRoot}, {"Qi TXO emitted to an inactive chain", vScope},
	{"outbound etx hash mismatch", vEtxBody},
}
var statePrefixes = []struct {
	p string
	v int
}{
	{"invalid avgTxFees used", vAvg}, {"invalid totalFees used", vTotal}, {"invalid gas used", vGas}, {"invalid state used", vStateUsed},
	{"invalid receipt root hash", vReceipt}, {"invalid merkle root", vEvmRoot}, {"invalid quai trie size", vStateSize}, {"invalid utxo root", vUtxoRoot},
	{"invalid etx root", vEtxSetRoot}, {"invalid outbound etx hash", vEtxEmitted}, {"invalid uncledEntropy", vUncledEntropy},
}

func classBody(err error) int {
	if err == nil {
		return vOk
	}
	for _, p := range bodyPrefixes {
		if strings.HasPrefix(err.Error(), p.p) {
			return p.v
		}
	}
	return vUncles
}

func classState(err error) int {
	if err == nil {
		return vOk
	}
	for _, p := range statePrefixes {
		if strings.HasPrefix(err.Error(), p.p) {
			return p.v
		}
	}
	return vExec
}

// execClass is a coarse, stable class of an execution error (for the distribution only).
func execClass(err error) string {
	s := err.Error()
	for _, k := range []string{"is not in order or not found", "could not pop etx", "total number of ETXs", "nonce too low", "nonce too high", "insufficient funds", "gas price less", "base fee less",
		"invalid transaction v, r, s", "invalid sender", "gas limit reached", "intrinsic gas", "total gas used by ETXs", "is nil", "could not apply tx", "qi tx", "UTXO", "signature"} {
		if strings.Contains(s, k) {
			return strings.ReplaceAll(k, " ", "-")
		}
	}
	return "other"
}

// ---------- commitments ----------

type commits struct {
	UncleHash, TxRoot, EtxHash, Receipt, Evm, Utxo, EtxSet common.Hash
	Gas, StateUsed                                         uint64
	StateSize, Avg, Total, Uncled                          *big.Int
}

func declaredOf(b *types.WorkObject) commits {
	h := b.Header()
	return commits{UncleHash: h.UncleHash(), TxRoot: h.TxHash(), EtxHash: h.OutboundEtxHash(), Receipt: h.ReceiptHash(), Evm: h.EVMRoot(), Utxo: h.UTXORoot(),
		EtxSet: h.EtxSetRoot(), Gas: h.GasUsed(), StateUsed: h.StateUsed(), StateSize: h.QuaiStateSize(), Avg: h.AvgTxFees(), Total: h.TotalFees(), Uncled: h.UncledEntropy()}
}

// numerals are printed in hexadecimal: Coq parses 0x… literals in linear time
func hN(h common.Hash) string { return "0x" + new(big.Int).SetBytes(h[:]).Text(16) }
func bN(x *big.Int) string {
	if x == nil {
		return "0"
	}
	return "0x" + x.Text(16)
}

func (c commits) coq() string {
	return fmt.Sprintf("(mkC %s %s %s %s %s %s %s %d %d %s %s %s %s)", hN(c.UncleHash), hN(c.TxRoot), hN(c.EtxHash), hN(c.Receipt), hN(c.Evm), hN(c.Utxo), hN(c.EtxSet),
		c.Gas, c.StateUsed, bN(c.StateSize), bN(c.Avg), bN(c.Total), bN(c.Uncled))
}

// bodyObs = what ValidateBody recomputes from the body, computed here with the library primitives.
type bodyObs struct {
	UnclesOk          bool
	UncleRoot, TxRoot common.Hash
	ScopeOk           bool
	EtxBodyRoot       common.Hash
}

func observeBody(n *node, b *types.WorkObject) bodyObs {
	o := bodyObs{UnclesOk: n.z.Hc.VerifyUncles(b) == nil, UncleRoot: types.CalcUncleHash(b.Uncles()), ScopeOk: true}
	o.TxRoot = types.DeriveSha(b.Transactions(), trie.NewStackTrie(nil))
	o.EtxBodyRoot = types.DeriveSha(b.OutboundEtxs(), trie.NewStackTrie(nil))
	active := common.NewChainsAdded(0)
	for _, tx := range b.Transactions() {
		if tx.Type() == types.QiTxType {
			for _, txo := range tx.TxOut() {
				found := false
				for _, l := range active {
					if common.IsInChainScope(txo.Address, l) {
						found = true
					}
				}
				if !found {
					o.ScopeOk = false
				}
			}
		}
	}
	return o
}

func (o bodyObs) coq() string {
	return fmt.Sprintf("(mkBody %s %s %s %s %s)", hlib.CoqBool(o.UnclesOk), hN(o.UncleRoot), hN(o.TxRoot), hlib.CoqBool(o.ScopeOk), hN(o.EtxBodyRoot))
}

var localRe = regexp.MustCompile(`local: (\d+)\)`)

// observeExec runs the real Process on a scratch batch and projects what ValidateState
// would recompute. known=false when the recomputed values could not be observed.
func observeExec(n *node, b *types.WorkObject) (some bool, r commits, known bool, perr error) {
	batch := n.db.NewBatch()
	defer batch.Reset()
	d := declaredOf(b)
	receipts, etxs, _, statedb, usedGas, usedState, _, multiSet, _, err := n.z.Processor().Process(b, batch)
	if err != nil {
		switch classState(err) {
		case vAvg, vTotal:
			m := localRe.FindStringSubmatch(err.Error())
			if m == nil {
				return false, r, false, err
			}
			v, _ := new(big.Int).SetString(m[1], 10)
			r = d // later stages were not reached: unknown, filled with the declared values
			if classState(err) == vAvg {
				r.Avg = v
			} else {
				r.Total = v
			}
			return true, r, true, err
		}
		return false, r, true, err
	}
	r = commits{UncleHash: d.UncleHash, TxRoot: d.TxRoot}
	r.EtxHash = types.DeriveSha(types.Transactions(etxs), trie.NewStackTrie(nil))
	r.Receipt = types.DeriveSha(receipts, trie.NewStackTrie(nil))
	r.Evm = statedb.IntermediateRoot(true)
	r.StateSize = statedb.GetQuaiTrieSize()
	r.Utxo = multiSet.Hash()
	r.EtxSet = statedb.ETXRoot()
	r.Gas, r.StateUsed = usedGas, usedState
	r.Avg, r.Total = d.Avg, d.Total // Process returned nil: both fee comparisons passed
	r.Uncled = n.z.Hc.UncledLogEntropy(b)
	return true, r, true, nil
}

// ---------- database snapshots ----------

type snap map[string]string

func takeSnap(db ethdb.Database) snap {
	s := snap{}
	it := db.NewIterator(nil, nil)
	for it.Next() {
		s[string(it.Key())] = string(it.Value())
	}
	it.Release()
	return s
}

type diffEntry struct {
	Key  string `json:"key"`
	Kind string `json:"kind"`
}

func keyClass(k string) string {
	for _, p := range []string{"secure-key-", "LastWorkObject", "LastHeader", "HeadersHash", "sutxo", "tutxo", "cutxo", "putxo", "wsh2bh", "auwh", "ccl", "dcl", "ltb", "pru",
		"au", "al", "ub", "ps", "ms", "ut", "tc", "us", "pe", "pr", "ma", "il", "bl", "tk", "wb", "ie", "dh", "ph", "pb", "cl", "sa", "ld", "bh"} {
		if strings.HasPrefix(k, p) {
			return p
		}
	}
	if len(k) == 32 {
		return "hash32"
	}
	if len(k) > 0 {
		return k[:1] + fmt.Sprintf("(len%d)", len(k))
	}
	return "empty"
}

func contentAddressed(k, v string) bool {
	h := crypto.Keccak256([]byte(v))
	if len(k) == 32 && bytes.Equal([]byte(k), h) {
		return true
	}
	if len(k) == 33 && k[0] == 'c' && bytes.Equal([]byte(k[1:]), h) {
		return true
	}
	if strings.HasPrefix(k, "secure-key-") && bytes.Equal([]byte(k[len("secure-key-"):]), h) {
		return true
	}
	return false
}

// snapshotLayer: keys of the state-snapshot layer (a derived cache of the account trie that a
// background goroutine generates asynchronously; its progress markers change with timing).
func snapshotLayer(k string) bool {
	return strings.HasPrefix(k, "Snapshot") || (len(k) == 33 && k[0] == 'a') || (len(k) == 65 && k[0] == 'o')
}

// normKeyValues decodes a types.ProtoKeysAndValues record and re-encodes it as the sorted list of its pairs
// (the lockup-delta record of a block, prefix "ld", is written by ranging over a Go map, so two runs of the
// same block produce the same pairs in different orders).
func normKeyValues(v string) string {
	var p types.ProtoKeysAndValues
	if err := proto.Unmarshal([]byte(v), &p); err != nil {
		return "undecodable:" + v
	}
	var l []string
	for _, kv := range p.KeysAndValues {
		l = append(l, hlib.Hex(kv.Key)+":"+hlib.Hex(kv.Value))
	}
	sort.Strings(l)
	return strings.Join(l, ",")
}

// diffSnaps lists the keys that differ and are not content-addressed additions.
func diffSnaps(a, b snap) (sig []diffEntry, contentAdds int) {
	for k, v := range b {
		if snapshotLayer(k) {
			continue
		}
		if av, ok := a[k]; !ok {
			if contentAddressed(k, v) {
				contentAdds++
				continue
			}
			sig = append(sig, diffEntry{hlib.Hex([]byte(k)), "added:" + keyClass(k)})
		} else if av != v {
			if strings.HasPrefix(k, "ld") && len(k) == 34 && normKeyValues(av) == normKeyValues(v) {
				continue // rawdb.WriteNewLockups serialises a Go map in iteration order: same set of (address, delta) pairs
			}
			sig = append(sig, diffEntry{hlib.Hex([]byte(k)), "changed:" + keyClass(k)})
		}
	}
	for k := range a {
		if snapshotLayer(k) {
			continue
		}
		if _, ok := b[k]; !ok {
			sig = append(sig, diffEntry{hlib.Hex([]byte(k)), "deleted:" + keyClass(k)})
		}
	}
	sort.Slice(sig, func(i, j int) bool { return sig[i].Key < sig[j].Key })
	return
}

func diffKinds(d []diffEntry) string {
	m := map[string]bool{}
	for _, e := range d {
		m[e.Kind] = true
	}
	ks := make([]string, 0, len(m))
	for k := range m {
		ks = append(ks, k)
	}
	sort.Strings(ks)
	return strings.Join(ks, ",")
}

// ---------- replayable case ----------

type caseJSON struct {
	ID      uint64      `json:"id"`
	Seed    uint64      `json:"seed"`
	Chain   int         `json:"chain"`
	Blocks  int         `json:"blocks"`
	Block   int         `json:"block"`
	Mutant  string      `json:"mutant"`
	Number  uint64      `json:"number,omitempty"`
	Txs     int         `json:"txs"`
	Etxs    int         `json:"outbound_etxs"`
	Verdict string      `json:"verdict"`
	BodyErr string      `json:"body_error_class,omitempty"`
	ExecErr string      `json:"exec_error_class,omitempty"`
	Diff    []diffEntry `json:"db_diff,omitempty"`
	Detail  string      `json:"detail,omitempty"`
}

func caseID(chain, block, mut int) uint64 {
	return uint64(chain)*10000000 + uint64(block)*10000 + uint64(mut)
}

type target struct {
	chain, block int
	mutant       string
}

type runCtx struct {
	seed      uint64
	blocks    int
	rep       *hlib.Report
	cw        *hlib.CaseWriter
	tgt       *target // replay: only this block's mutants (or this mutant)
	mutPct    int     // share of eligible blocks that get the mutant battery
	caseEvery int     // emit a Coq case for every k-th mutant
	verbose   bool
	mutCount  int
}

func (rc *runCtx) emit(id uint64, d commits, bo bodyObs, some bool, r commits, verdict int, cj caseJSON) {
	ex := "None"
	if some {
		ex = "(Some " + r.coq() + ")"
	}
	term := fmt.Sprintf("(mkCase %d %s %s %s %d)", id, d.coq(), bo.coq(), ex, verdict)
	rc.cw.Add(term, cj)
	rc.rep.TracesValidated++
}

// ---------- one step ----------

func (c *chain) step(rc *runCtx, i int) (stop bool) {
	z := c.n.z
	r := c.rng.Fork()  // content
	rm := c.rng.Fork() // mutants
	rd := c.rng.Fork() // delivery
	head := z.Hc.CurrentHeader()
	c.height = i
	c.genPool(r)
	fill := !r.Chance(c.cfg.NoFillPct)
	cj := caseJSON{ID: caseID(c.cfg.Idx, i, 0), Seed: rc.seed, Chain: c.cfg.Idx, Blocks: rc.blocks, Block: i, Mutant: "honest"}
	var b *types.WorkObject
	var err error
	site := ""
	func() {
		defer func() {
			if p := recover(); p != nil {
				site = panicSite(string(debug.Stack()))
				cj.Detail = fmt.Sprint("panic: ", p)
			}
		}()
		b, err = z.Assemble(fill)
	}()
	rc.rep.Evaluations++
	if site != "" {
		rc.rep.Count("honest/worker-panic")
		rc.rep.Fail("own-block/worker-panic/"+site, "the worker panicked while assembling a block on its own head ("+cj.Detail+"): no block can be produced from this pool / inbound queue", cj)
		return true
	}
	if err != nil {
		rc.rep.Fail("own-block/assemble-error", "the worker failed to assemble a block on its own head: "+err.Error(), cj)
		return true
	}
	seal(b)
	cj.Number, cj.Txs, cj.Etxs = b.NumberU64(common.ZONE_CTX), len(b.Transactions()), len(b.OutboundEtxs())
	nq, ne, nqi := 0, 0, 0
	for _, t := range b.Transactions() {
		switch t.Type() {
		case types.QuaiTxType:
			nq++
		case types.ExternalTxType:
			ne++
		default:
			nqi++
		}
	}
	rc.rep.Count(fmt.Sprintf("block/quai-txs=%s", bucket(nq)))
	rc.rep.Count(fmt.Sprintf("block/inbound-etxs=%s", bucket(ne)))
	rc.rep.Count(fmt.Sprintf("block/qi-txs=%s", bucket(nqi)))
	if b.GasLimit() != head.GasLimit() && head.NumberU64(common.ZONE_CTX) > 0 {
		// the quota of the inbound-ETX section depends on the gas limit of this block, not of its parent
		etxGas := uint64(0)
		if ne > 0 {
			etxGas = b.GasUsed()
		}
		rc.rep.Count(fmt.Sprintf("block/gas-limit-differs-from-parent/inbound-etxs=%s/quota-reached=%v", bucket(ne), nq+nqi == 0 && etxGas >= b.GasLimit()/params.MinimumEtxGasDivisor))
		if ne > 0 {
			rc.rep.Nontrivial(fmt.Sprintf("gl/%d/%d/%d", head.GasLimit()/1000000, b.GasLimit()/1000000, ne))
		}
	}
	rc.rep.Count(fmt.Sprintf("block/outbound-etxs=%s", bucket(len(b.OutboundEtxs()))))
	if nq+ne+nqi > 0 {
		rc.rep.Nontrivial(fmt.Sprintf("c%d/q%d/e%d/i%d/o%d/g%d", c.cfg.Idx%4, nq, ne, nqi, len(b.OutboundEtxs()), b.GasUsed()/21000))
	}

	// the property's own predicate on the assembled body (independent of the validator)
	if sig, what := c.checkBodyConflicts(b); sig != "" {
		rc.rep.Fail(sig, what, cj)
	}
	rc.rep.Count(fmt.Sprintf("block/pool-qi-conflicts-left-out=%s", bucket(c.conflictsLeftOut(b))))
	if sig, what := c.checkNonceSequence(b, head); sig != "" {
		rc.rep.Fail(sig, what, cj)
	}
	c.countSkipped(b, head)

	// sibling on a copy of the pre-state
	doMut := c.funded && (rc.tgt != nil || rm.Chance(rc.mutPct) || (c.startup && i%2 == 1)) && !c.noMut
	if rc.tgt != nil && rc.tgt.block != i {
		doMut = false
	}
	var pre ethdb.Database
	if doMut {
		pre = copyDb(c.n.db, c.logger)
	}

	// ---- liveness direction: the own block must pass the own validation ----
	d := declaredOf(b)
	bo := observeBody(c.n, b)
	verdict := vOk
	vbErr := z.ValidateBody(b)
	var some bool
	var rr commits
	if vbErr != nil {
		verdict = classBody(vbErr)
		cj.Verdict = verdictNames[verdict]
		rc.rep.Fail("own-block/rejected-by-ValidateBody/"+verdictNames[verdict], "a block assembled by the worker fails the node's own ValidateBody: "+vbErr.Error(), cj)
	} else {
		var known bool
		var perr error
		some, rr, known, perr = observeExec(c.n, b)
		if some && known {
			if sig, what := checkPendingVsReexecution(d, rr); sig != "" {
				if perr != nil {
					what += "; Process: " + perr.Error()
				}
				rc.rep.Fail(sig, what, cj)
			}
		}
		func() {
			defer func() {
				if p := recover(); p != nil {
					site = panicSite(string(debug.Stack()))
					err = fmt.Errorf("panic: %v", p)
				}
			}()
			err = z.Append(b)
		}()
		if site != "" {
			rc.rep.Count("honest/validator-panic")
			rc.rep.Fail("own-block/validator-panic/"+site, "the node's own validation panicked on a block assembled by its worker: "+err.Error(), cj)
			return true
		}
		if err != nil {
			verdict = classState(err)
			cj.Verdict = verdictNames[verdict]
			if verdict == vExec {
				cj.ExecErr = execClass(err)
			}
			if rc.verbose {
				for ti, t := range b.Transactions() {
					if t.Type() == types.ExternalTxType {
						fmt.Printf("   tx %d etx type %d to %v gas %d value %v data %x sender %v\n", ti, t.EtxType(), t.To(), t.Gas(), t.Value(), t.Data(), t.ETXSender().Hex())
					} else {
						fmt.Printf("   tx %d type %d hash %x\n", ti, t.Type(), t.Hash())
					}
				}
			}
			rc.rep.Fail("own-block/rejected-by-Append/"+verdictNames[verdict]+"/"+cj.ExecErr, "a block assembled by the worker is rejected by the node's own SetCurrentHeader: "+err.Error(), cj)
		}
		if !known {
			some, rr = true, d
		}
	}
	cj.Verdict = verdictNames[verdict]
	if rc.tgt == nil || (rc.tgt.block == i && (rc.tgt.mutant == "" || rc.tgt.mutant == "honest")) {
		rc.emit(cj.ID, d, bo, some, rr, verdict, cj)
		rc.rep.Sample(cj)
	}
	rc.rep.Count("honest/" + verdictNames[verdict])
	if verdict != vOk {
		return true // the chain cannot continue from a block its own node refuses
	}
	if rc.verbose {
		fmt.Printf("chain %d block %d: txs q=%d e=%d qi=%d out=%d gas=%d fees=%v avg=%v\n", c.cfg.Idx, i, nq, ne, nqi, len(b.OutboundEtxs()), b.GasUsed(), b.TotalFees(), b.AvgTxFees())
	}

	// ---- safety direction: mutants on the sibling ----
	if doMut {
		c.runMutants(rc, i, b, head, pre, rm)
	}

	// ---- continue the chain ----
	if !r.Chance(c.cfg.StalePct) {
		z.VerifC07PoolReset(head, b)
	} else {
		rc.rep.Count("pool/stale-head")
	}
	c.afterAppend(b)
	if !c.funded || c.script != nil || rd.Chance(45) {
		var in types.Transactions
		if !c.startup {
			in = c.inbound(rd, b)
		}
		if c.script != nil {
			in = append(in, c.script(c, i, b)...)
		}
		if len(in) > 0 {
			rawdb.WriteInboundEtxs(c.n.db, b.Hash(), in)
		}
	}
	return false
}

// panicSite names the innermost go-quai function on the stack of a recovered panic.
func panicSite(stack string) string {
	lines := strings.Split(stack, "\n")
	seenPanic := false
	for _, l := range lines {
		if strings.HasPrefix(l, "panic(") {
			seenPanic = true
			continue
		}
		if seenPanic && strings.HasPrefix(l, "github.com/dominant-strategies/go-quai/") {
			f := strings.TrimPrefix(l, "github.com/dominant-strategies/go-quai/")
			if k := strings.LastIndex(f, "("); k > 0 {
				f = f[:k]
			}
			return f
		}
	}
	return "unknown"
}

func bucket(n int) string {
	switch {
	case n == 0:
		return "0"
	case n == 1:
		return "1"
	case n <= 3:
		return "2-3"
	case n <= 7:
		return "4-7"
	default:
		return "8+"
	}
}

func (c *chain) runMutants(rc *runCtx, i int, b, parent *types.WorkObject, pre ethdb.Database, rm *hlib.Rng) {
	// a foreign, validly signed transfer and an ETX that is not in the queue
	s := rm.Intn(len(c.w.eoas))
	in, _ := c.w.eoas[s].addr.InternalAndQuaiAddress()
	st, _ := c.n.z.StateAt(b)
	var foreign *types.Transaction
	if st != nil {
		to := c.w.eoas[(s+1)%len(c.w.eoas)].addr
		price := new(big.Int).Mul(b.BaseFee(), big.NewInt(2))
		foreign = c.w.signQuai(quaiSpec{from: s, nonce: st.GetNonce(in), price: price, gas: 21000, to: &to, value: big.NewInt(777)})
	}
	fto := c.w.eoas[0].addr
	fake := etx(&types.ExternalTx{To: &fto, Gas: 100000, Value: bigPow10(20), EtxType: types.DefaultType, OriginatingTxHash: originHash(rm, common.Location{1, 0}), ETXIndex: 3, Sender: c.w.farQuai[2].addr})
	muts := buildMutants(b, rm, foreign, fake, parent)
	// adversarial re-rooting of the rule-violating bodies (on its own node over the pre-state): a body the
	// real Process refuses by itself cannot be offered in that form and is dropped from the battery
	if rn, err := openNode(copyDb(pre, c.logger), c.w, c.cfg, c.logger); err == nil {
		kept := muts[:0]
		rn.z.Locked(func() {
			for _, m := range muts {
				if !m.reroot || (rc.tgt != nil && rc.tgt.mutant != "" && rc.tgt.mutant != m.Name) {
					kept = append(kept, m)
					continue
				}
				rc.rep.Evaluations++
				ok, why := rerootAll(rn, m.wo)
				if ok {
					kept = append(kept, m)
					rc.rep.Count("reroot/" + m.sigName() + "→process-accepts-the-body")
				} else {
					rc.rep.Count("reroot/" + m.sigName() + "→refused/" + why)
					rc.rep.Nontrivial("r/" + m.sigName() + "/" + why)
				}
			}
		})
		rn.z.Close()
		muts = kept
	}

	// Mutants are processed in batches, one sibling node per batch (a new sibling, on a fresh copy of
	// the pre-state, is opened whenever a mutant was accepted or left a trace). Within a batch: every
	// mutant that passes ValidateBody is stored first (what Slice.Append writes for a candidate block
	// before state processing), one baseline snapshot is taken, then each mutant goes through the real
	// SetCurrentHeader with a snapshot after it, compared with the previous one.
	next := 0
	for next < len(muts) {
		sib, err := openNode(copyDb(pre, c.logger), c.w, c.cfg, c.logger)
		if err != nil {
			rc.rep.Note("sibling open failed: " + err.Error())
			return
		}
		last := false
		sib.z.Locked(func() {
			next, last = c.mutantBatch(rc, i, b, parent, sib, muts, next)
		})
		sib.z.Close()
		if last {
			break
		}
	}
}

func rollingFees(n *node) string {
	a, b, c, d := n.z.VerifC07RollingFees()
	return fmt.Sprint(a, b, c, d)
}

type mutEval struct {
	m       *mutant
	idx     int
	cj      caseJSON
	d       commits
	bo      bodyObs
	verdict int
	bodyRej bool
}

// mutantBatch evaluates muts[from:] on sib until the sibling is no longer pristine; it returns the
// index of the next mutant to evaluate and whether the battery is complete (including the final
// honest-block check, which is done on a pristine sibling only).
func (c *chain) mutantBatch(rc *runCtx, i int, b, parent *types.WorkObject, sib *node, muts []*mutant, from int) (int, bool) {
	var evs []*mutEval
	var mutHashes []common.Hash
	// pass 1: ValidateBody (pure) and Store
	for mi := from; mi < len(muts); mi++ {
		m := muts[mi]
		if rc.tgt != nil && rc.tgt.mutant != "" && rc.tgt.mutant != m.Name {
			continue
		}
		e := &mutEval{m: m, idx: mi}
		e.cj = caseJSON{ID: caseID(c.cfg.Idx, i, mi+1), Seed: rc.seed, Chain: c.cfg.Idx, Blocks: rc.blocks, Block: i, Mutant: m.Name, Number: b.NumberU64(common.ZONE_CTX),
			Txs: len(m.wo.Transactions()), Etxs: len(m.wo.OutboundEtxs())}
		e.d = declaredOf(m.wo)
		e.bo = observeBody(sib, m.wo)
		func() {
			defer func() {
				if p := recover(); p != nil {
					e.bodyRej, e.verdict = true, vUncles
					e.cj.Detail = fmt.Sprint("panic: ", p)
					rc.rep.Fail("mutant/panic-in-ValidateBody/"+m.Name, "ValidateBody of a mutated block panicked: "+fmt.Sprint(p), e.cj)
				}
			}()
			if vbErr := sib.z.ValidateBody(m.wo); vbErr != nil {
				e.bodyRej, e.verdict = true, classBody(vbErr)
				e.cj.BodyErr = verdictNames[e.verdict]
			}
		}()
		if !e.bodyRej && !m.staleSeal {
			sib.z.Store(m.wo)
			mutHashes = append(mutHashes, m.wo.Hash())
		}
		evs = append(evs, e)
	}
	// pass 1b (round 3): the verdict of ValidateBody must be a function of the block handed in, not of what this
	// validator has seen before. The honest block (same header hash as every stale-root / stale-seal mutant)
	// goes through the real ValidateBody - and on every other sampled block through the real Process as well -
	// on this sibling, as an append attempt that is postponed does; then every mutant is body-checked AGAIN.
	// A verdict (class) that differs from the cold one is a violation. Pass 2 below then runs on the warmed
	// sibling (the honest block has been body-checked / processed, not appended).
	if len(evs) > 0 {
		wcj := caseJSON{ID: caseID(c.cfg.Idx, i, 9998), Seed: rc.seed, Chain: c.cfg.Idx, Blocks: rc.blocks, Block: i, Mutant: "honest-before-mutants"}
		warmOk := true
		func() {
			defer func() {
				if p := recover(); p != nil {
					warmOk = false
				}
			}()
			if err := sib.z.ValidateBody(b); err != nil {
				warmOk = false
				rc.rep.Fail("honest-before-mutants/rejected", "the honest block fails ValidateBody on a sibling over the same pre-state (after the mutants were body-checked): "+err.Error(), wcj)
				return
			}
			if i%2 == 0 {
				if _, _, _, perr := observeExec(sib, b); perr != nil {
					rc.rep.Fail("honest-before-mutants/rejected", "the honest block fails Process on a sibling over the same pre-state: "+perr.Error(), wcj)
				}
				rc.rep.Count("warm/ValidateBody+Process")
			} else {
				rc.rep.Count("warm/ValidateBody")
			}
		}()
		if warmOk {
			for _, e := range evs {
				warmRej, warmVerdict := false, vOk
				func() {
					defer func() {
						if p := recover(); p != nil {
							warmRej, warmVerdict = true, vUncles
						}
					}()
					if err := sib.z.ValidateBody(e.m.wo); err != nil {
						warmRej, warmVerdict = true, classBody(err)
					}
				}()
				rc.rep.Evaluations++
				coldVerdict := vOk
				if e.bodyRej {
					coldVerdict = e.verdict
				}
				if warmRej != e.bodyRej || warmVerdict != coldVerdict {
					rc.rep.Fail("validation-depends-on-history/ValidateBody/"+e.m.sigName(),
						fmt.Sprintf("ValidateBody gave %s for the mutated block %s on a fresh validator and %s after the same validator had checked the honest block with the same header: the verdict is not a function of the block", verdictNames[coldVerdict], e.m.Name, verdictNames[warmVerdict]), e.cj)
					rc.rep.Count("warm/verdict-changed")
				} else if e.bodyRej {
					rc.rep.Count("warm/still-rejected")
					if e.m.wo.Hash() == b.Hash() {
						rc.rep.Nontrivial("w/" + e.m.sigName() + "/" + verdictNames[warmVerdict])
					}
				}
			}
		}
	}
	base := takeSnap(sib.db)
	// pass 2: the real SetCurrentHeader
	for k, e := range evs {
		m := e.m
		rc.rep.Evaluations++
		rc.mutCount++
		emitCase := rc.tgt != nil || rc.mutCount%rc.caseEvery == 0
		var some bool
		var rr commits
		pristine := true
		if !e.bodyRej {
			func() {
				defer func() {
					if p := recover(); p != nil {
						e.verdict = vExec
						e.cj.Detail = fmt.Sprint("panic: ", p)
						rc.rep.Fail("mutant/panic/"+m.Name, "validation of a mutated block panicked: "+fmt.Sprint(p), e.cj)
						pristine = false
						emitCase = false
					}
				}()
				if emitCase {
					var known bool
					some, rr, known, _ = observeExec(sib, m.wo)
					if !known {
						emitCase = false
					}
				}
				if m.staleSeal { // same hash as the original: stored just in time
					sib.z.Store(m.wo)
					mutHashes = append(mutHashes, m.wo.Hash())
					base = takeSnap(sib.db)
				}
				feesBefore := rollingFees(sib)
				err := sib.z.Hc.SetCurrentHeader(m.wo)
				after := takeSnap(sib.db)
				if err != nil && rollingFees(sib) != feesBefore {
					// in-memory, not chain state: Process updates the fee oracle's rolling statistics before ValidateState runs
					rc.rep.Count("observation/rolling-fee-stats-changed-by-rejected-block")
				}
				if err != nil {
					e.verdict = classState(err)
					if e.verdict == vExec {
						e.cj.ExecErr = execClass(err)
					}
					diff, _ := diffSnaps(base, after)
					if len(diff) > 0 {
						e.cj.Diff = diff
						if len(e.cj.Diff) > 12 {
							e.cj.Diff = e.cj.Diff[:12]
						}
						rc.rep.Fail("rejected-block-left-trace/"+diffKinds(diff), fmt.Sprintf("a rejected block (%s) changed %d database keys", m.Name, len(diff)), e.cj)
						pristine = false
					}
					if hd := sib.z.Hc.CurrentHeader().Hash(); hd != parent.Hash() {
						rc.rep.Fail("rejected-block-moved-head", "the in-memory head changed although SetCurrentHeader returned an error", e.cj)
						pristine = false
					}
				} else {
					pristine = false
					if m.wo.Hash() == b.Hash() {
						rc.rep.Fail("mutant-accepted/same-hash/"+m.Name, "a mutated block with the original block hash was accepted", e.cj)
					} else if !m.mayAccept {
						rc.rep.Fail("mutant-accepted/"+m.sigName(), "a block deviating from re-execution was accepted: "+m.Name, e.cj)
					} else if m.reroot {
						rc.rep.Count("accepted-other-valid-block/" + m.sigName())
					} else {
						// a different candidate block: must commit to the very same results
						dm, db_ := declaredOf(m.wo), declaredOf(b)
						dm.TxRoot, db_.TxRoot = common.Hash{}, common.Hash{}
						if dm.coq() != db_.coq() {
							rc.rep.Fail("mutant-accepted/other-results/"+m.Name, "an accepted reordering commits to different results", e.cj)
						}
						rc.rep.Count("accepted-equivalent/" + m.Name)
					}
				}
				base = after
			}()
		}
		e.cj.Verdict = verdictNames[e.verdict]
		rc.rep.Count("mutant/" + m.sigName() + "→" + verdictNames[e.verdict])
		if e.verdict != vOk {
			rc.rep.Nontrivial("m/" + m.sigName() + "/" + verdictNames[e.verdict] + "/" + e.cj.ExecErr)
		}
		if emitCase {
			rc.emit(e.cj.ID, e.d, e.bo, some, rr, e.verdict, e.cj)
		}
		if !pristine {
			if k+1 < len(evs) {
				return evs[k+1].idx, false
			}
			return len(muts), false // one more (pristine) sibling for the final check
		}
	}
	// after all rejected mutants the honest block must still be accepted and lead to the same database
	if rc.tgt == nil || rc.tgt.mutant == "" {
		cj := caseJSON{ID: caseID(c.cfg.Idx, i, 9999), Seed: rc.seed, Chain: c.cfg.Idx, Blocks: rc.blocks, Block: i, Mutant: "honest-after-mutants"}
		if err := sib.z.ValidateBody(b); err != nil {
			rc.rep.Fail("honest-after-mutants/rejected", "after rejected mutants the honest block fails ValidateBody on the sibling: "+err.Error(), cj)
		} else if err := sib.z.Append(b); err != nil {
			rc.rep.Fail("honest-after-mutants/rejected", "after rejected mutants the honest block is rejected on the sibling: "+err.Error(), cj)
		} else {
			sa, sb := takeSnap(c.n.db), takeSnap(sib.db)
			var extra []diffEntry
			d, _ := diffSnaps(sa, sb)
			for _, e := range d {
				k := common.FromHex(e.Key)
				own := false
				for _, h := range mutHashes {
					if bytes.Contains(k, h[:]) {
						own = true
					}
				}
				if !own {
					extra = append(extra, e)
				}
			}
			if len(extra) > 0 {
				cj.Diff = extra
				if len(cj.Diff) > 12 {
					cj.Diff = cj.Diff[:12]
				}
				rc.rep.Fail("honest-after-mutants/db-differs/"+diffKinds(extra), fmt.Sprintf("sibling database (rejected mutants + honest block) differs from the primary in %d keys that are not records of the stored mutants", len(extra)), cj)
			}
			rc.rep.Count(fmt.Sprintf("honest-after-mutants/ok"))
		}
	}
	return len(muts), true
}

func mutClass(name string) string {
	// strip nothing: names are already stable classes
	return name
}

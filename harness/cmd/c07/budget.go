package main

// Pool contents whose members pass every pool check but make core.ApplyTransaction return an
// error AFTER the message was executed (third strengthening round, see design/C07.md).
//
// worker.commitTransaction takes a state snapshot, calls ApplyTransaction and reverts to the
// snapshot when it returns an error: the transaction is skipped and must leave nothing behind
// in the pending state, because the block the worker seals commits to that state while the
// validator re-executes only the transactions that are IN the block. Errors raised by the
// pre-checks (nonce, balance for gas, block gas pool) happen before anything is written; the
// following ones happen after buyGas / after the EVM ran:
//   * "emits too many cross-region ETXs": the per-block budget etxRLimit (destination in the
//     same region, another zone) is smaller than the gas carried by the ETXs the tx emitted;
//   * "emits too many cross-prime ETXs": same with etxPLimit (destination in another region);
//     both budgets are max(len(parent.Transactions()), 50) * 21000 gas, and a plain cross-zone
//     transfer hands ALL its left-over gas to its ETX; an opETX in a contract names any gas
//     limit it likes, for free;
//   * ErrInsufficientFundsForTransfer: the sender can pay for the gas (bought in preCheck) but
//     not for the value any more, because an earlier transaction of the same block spent it.
// A "burst" is a small list of such transactions built around the exact budget of the next
// block (fits exactly / exceeds by one / exceeds alone / same sender with follow-up nonces /
// both budgets interleaved / many small ones / a contract emitting two ETXs after an SSTORE),
// plus the pre-check class "block gas pool exhausted mid-block" for comparison.

import (
	"fmt"
	"math/big"

	"github.com/dominant-strategies/go-quai/common"
	"github.com/dominant-strategies/go-quai/core/types"
	"verifharness/hlib"
)

const emitterKind = 3 // index of rtEmitter in contractKinds

// rtEmitter: s[0]++ ; ETX(value 1, to = calldata[0:32], gas limit = calldata[32:64]) ;
// ETX(value 1, to = calldata[64:96], gas limit = calldata[96:128]) ; STOP.
// opETX fails softly (pushes 0) when the gas limit is below 21000, the address is in the own
// zone or the contract cannot pay the value, so one, two or no ETX is emitted depending on the
// call data and the value sent along.
var rtEmitter = func() []byte {
	c := []byte{0x60, 0x00, 0x54, 0x60, 0x01, 0x01, 0x60, 0x00, 0x55}
	one := func(off byte) []byte {
		return []byte{
			0x60, 0x00, 0x60, 0x00, 0x60, 0x00, 0x60, 0x00, 0x60, 0x00, 0x60, 0x00, // accessListSize, accessListOffset, inSize, inOffset, gasFeeCap, gasTipCap
			0x60, off + 0x20, 0x35, // etxGasLimit := calldataload(off+32)
			0x60, 0x01, // value 1
			0x60, off, 0x35, // addr := calldataload(off)
			0x5a,       // GAS (the "temp" operand)
			0xf6, 0x50, // ETX ; POP
		}
	}
	c = append(c, one(0x00)...)
	c = append(c, one(0x40)...)
	return append(c, 0x00)
}()

func emitData(a1 common.Address, g1 uint64, a2 common.Address, g2 uint64) []byte {
	d := make([]byte, 128)
	copy(d[12:32], a1.Bytes())
	new(big.Int).SetUint64(g1).FillBytes(d[32:64])
	copy(d[76:96], a2.Bytes())
	new(big.Int).SetUint64(g2).FillBytes(d[96:128])
	return d
}

// etxBudget: the cross-region / cross-prime ETX gas budget of the block built on head
// (worker.makeEnv and StateProcessor.Process: both from the number of transactions of the parent).
func etxBudget(head *types.WorkObject) uint64 {
	n := uint64(len(head.Transactions()))
	if n < 50 {
		n = 50
	}
	return n * 21000
}

func (c *chain) takeNonce(s int) uint64 {
	if _, ok := c.nonce[s]; !ok {
		in, _ := c.w.eoas[s].addr.InternalAndQuaiAddress()
		c.nonce[s] = c.n.z.Pool.Nonce(in)
	}
	n := c.nonce[s]
	c.nonce[s]++
	return n
}

type burstItem struct {
	s      int    // index into the burst's own list of distinct senders
	etxGas uint64 // gas carried by the emitted ETX (transaction gas = etxGas + TxGas + ETXGas); 0 = plain in-zone transfer
	far    int    // 0 = zone (0,1): same region, counted against etxRLimit; 1 = zone (1,0): other region, etxPLimit
}

const nBurstKinds = 10

var burstNames = []string{"two-thirds-twice", "exact-fit", "off-by-one", "exceeds-alone", "same-sender-chain", "both-budgets", "many-small", "emitter", "gas-pool", "value-after-gas"}

// burst builds the transactions of one burst of the given kind. x selects which budget the
// single-budget kinds aim at (0 = cross-region, 1 = cross-prime).
func (c *chain) burst(r *hlib.Rng, head *types.WorkObject, base *big.Int, kind, x int) []*types.Transaction {
	B := etxBudget(head)
	var items []burstItem
	switch kind {
	case 0:
		g := B*2/3 + uint64(r.Intn(1000))
		items = []burstItem{{0, g, x}, {1, g, x}}
	case 1:
		g1 := B/5 + uint64(r.Intn(int(B/2)))
		items = []burstItem{{0, g1, x}, {1, B - g1, x}, {2, 21000, x}}
	case 2:
		g1 := B/5 + uint64(r.Intn(int(B/2)))
		items = []burstItem{{0, g1, x}, {1, B - g1 + 1, x}, {2, B - g1, x}}
	case 3:
		if c.stuck { // a sender whose next nonce can never be included stays blocked: once per chain
			return nil
		}
		c.stuck = true
		items = []burstItem{{0, B + 1, x}, {0, 0, 0}, {1, 21000, x}}
	case 4:
		g := B/3 + 1 + uint64(r.Intn(50000))
		items = []burstItem{{0, g, x}, {0, g, x}, {0, g, x}, {0, 0, 0}, {0, 21000, x}}
	case 5:
		items = []burstItem{{0, B * 6 / 10, 0}, {1, B * 6 / 10, 1}, {2, B * 6 / 10, 0}, {3, B * 3 / 10, 1}, {4, B * 3 / 10, 0}, {2, B / 10, 1}, {3, B/10 + 1, 1}}
	case 6:
		for j := 0; j < 12; j++ {
			items = append(items, burstItem{j % 4, B / 10, x})
		}
	case 7:
		return c.emitterBurst(r, head, base, B, x)
	case 8:
		return c.gasPoolBurst(r, head, base)
	default:
		return c.valueAfterGas(r, head, base)
	}
	perm := r.Fork()
	senders := []int{}
	for len(senders) < 5 {
		s := perm.Intn(len(c.w.eoas))
		dup := false
		for _, t := range senders {
			dup = dup || t == s
		}
		if !dup {
			senders = append(senders, s)
		}
	}
	p0 := new(big.Int).Mul(base, big.NewInt(int64(5+r.Intn(4))))
	var out []*types.Transaction
	for j, it := range items {
		s := senders[it.s]
		spec := quaiSpec{from: s, nonce: c.takeNonce(s), price: new(big.Int).Sub(p0, big.NewInt(int64(j))), value: big.NewInt(int64(1000 + r.Intn(100000)))}
		if it.etxGas == 0 {
			to := c.w.eoas[(s+1)%len(c.w.eoas)].addr
			spec.to, spec.gas = &to, 21000
		} else {
			to := c.w.farQuai[2*it.far+r.Intn(2)].addr
			spec.to, spec.gas = &to, it.etxGas+42000
		}
		out = append(out, c.w.signQuai(spec))
	}
	c.rep.Count(fmt.Sprintf("pool/burst/%s/%s", burstNames[kind], []string{"cross-region", "cross-prime"}[x]))
	return out
}

// emitterBurst: calls of the emitter contract (if one is deployed): every call writes storage and then
// emits up to two ETXs whose gas limits are chosen around the budgets: the first call fits, the second
// exceeds one budget with its second ETX only (after its first one and the SSTORE took effect), the
// third fits again into what is left.
func (c *chain) emitterBurst(r *hlib.Rng, head *types.WorkObject, base *big.Int, B uint64, x int) []*types.Transaction {
	var em []contractInfo
	for _, ct := range c.ctrs {
		if ct.kind == emitterKind {
			em = append(em, ct)
		}
	}
	if len(em) == 0 {
		return nil
	}
	far := func(k int) common.Address { return c.w.farQuai[2*k+r.Intn(2)].addr }
	type call struct{ g1, g2 uint64 }
	g := B/4 + uint64(r.Intn(int(B/4)))
	calls := []call{{g, g}, {B - g - 10, B - g + 1}, {B - g, 21000}, {21000, B + 1}, {0, 30000}}
	p0 := new(big.Int).Mul(base, big.NewInt(int64(5+r.Intn(4))))
	var out []*types.Transaction
	for j, cl := range calls {
		s := (r.Intn(len(c.w.eoas)))
		ct := em[r.Intn(len(em))].addr
		spec := quaiSpec{from: s, nonce: c.takeNonce(s), price: new(big.Int).Sub(p0, big.NewInt(int64(j))), gas: 300000, to: &ct, value: big.NewInt(2),
			data: emitData(far(x), cl.g1, far(1-x), cl.g2)}
		if r.Chance(70) {
			spec.access = types.AccessList{{Address: ct, StorageKeys: slotKeys(2)}}
		}
		out = append(out, c.w.signQuai(spec))
	}
	c.rep.Count(fmt.Sprintf("pool/burst/emitter/%s", []string{"cross-region", "cross-prime"}[x]))
	return out
}

// gasPoolBurst: Quai -> Qi conversions (their ETX is not counted against either budget) with a gas limit
// of a quarter of the block gas limit plus one: the block gas pool runs dry mid-block (ErrGasLimitReached,
// raised in buyGas before anything is written), followed by a small transaction that still fits.
func (c *chain) gasPoolBurst(r *hlib.Rng, head *types.WorkObject, base *big.Int) []*types.Transaction {
	gl := head.GasLimit()
	p0 := new(big.Int).Mul(base, big.NewInt(int64(5+r.Intn(4))))
	var out []*types.Transaction
	for j := 0; j < 6; j++ {
		s := r.Intn(len(c.w.eoas))
		to := c.w.qis[r.Intn(3)].addr
		spec := quaiSpec{from: s, nonce: c.takeNonce(s), price: new(big.Int).Sub(p0, big.NewInt(int64(j))), gas: gl/4 + 1, to: &to,
			value: new(big.Int).Mul(bigPow10(18), big.NewInt(int64(1+r.Intn(5))))}
		if j == 5 {
			to2 := c.w.eoas[(s+1)%len(c.w.eoas)].addr
			spec.to, spec.gas, spec.value = &to2, 21000, big.NewInt(5)
		}
		out = append(out, c.w.signQuai(spec))
	}
	c.rep.Count("pool/burst/gas-pool")
	return out
}

// valueAfterGas: a sender without pending transactions sends (almost) its whole balance away and, with
// the next nonce, a value it can no longer afford although it can still pay for the gas: the second
// transaction passes preCheck (buyGas debits the balance and the block gas pool) and then fails with
// ErrInsufficientFundsForTransfer. The pool admits it because it compares each transaction with the
// committed balance separately.
func (c *chain) valueAfterGas(r *hlib.Rng, head *types.WorkObject, base *big.Int) []*types.Transaction {
	if c.drained >= 2 {
		return nil
	}
	st, err := c.n.z.StateAt(head)
	if err != nil || st == nil {
		return nil
	}
	for tries := 0; tries < 4; tries++ {
		s := r.Intn(len(c.w.eoas))
		in, _ := c.w.eoas[s].addr.InternalAndQuaiAddress()
		if _, used := c.nonce[s]; used || c.n.z.Pool.Nonce(in) != st.GetNonce(in) {
			continue
		}
		bal := st.GetBalance(in)
		price := new(big.Int).Mul(base, big.NewInt(6))
		unit := new(big.Int).Mul(price, big.NewInt(21000))
		// keep 2.5 x (21000 * price): enough for the gas of the second transaction, not for its value
		keep := new(big.Int).Div(new(big.Int).Mul(unit, big.NewInt(5)), big.NewInt(2))
		v1 := new(big.Int).Sub(bal, new(big.Int).Add(unit, keep))
		if v1.Sign() <= 0 || v1.Cmp(new(big.Int).Mul(unit, big.NewInt(100))) < 0 {
			continue
		}
		to := c.w.eoas[(s+1+r.Intn(len(c.w.eoas)-1))%len(c.w.eoas)].addr
		n := c.takeNonce(s)
		a := c.w.signQuai(quaiSpec{from: s, nonce: n, price: price, gas: 21000, to: &to, value: v1})
		b := c.w.signQuai(quaiSpec{from: s, nonce: c.takeNonce(s), price: price, gas: 21000, to: &to, value: new(big.Int).Mul(unit, big.NewInt(2))})
		c.drained++
		c.rep.Count("pool/burst/value-after-gas")
		return []*types.Transaction{a, b}
	}
	return nil
}

// the bursts of the corpus chain "apply-fails-after-execution", one per block from block 4 on
var corpusBursts = []struct{ kind, x int }{
	{0, 0}, {0, 1}, {1, 0}, {2, 1}, {4, 0}, {5, 0}, {6, 1}, {9, 0}, {7, 0}, {7, 1}, {8, 0}, {1, 1}, {2, 0}, {4, 1}, {3, 0},
}

package main

// Single-component mutations of an accepted block. Every mutant is built from
// types.CopyWorkObject(original) with setters only; nothing is re-derived except, where the
// name says so, the one root that commits to the mutated list ("+root") and the seal
// (the work-object header's headerHash := hash of the body header), which is what makes a
// header-field mutant a different block at all. Variants named "stale-seal/…" keep the
// original seal (same block hash as the original).

import (
	"fmt"
	"math/big"
	"strings"

	"github.com/dominant-strategies/go-quai/common"
	"github.com/dominant-strategies/go-quai/core/types"
	"github.com/dominant-strategies/go-quai/params"
	"github.com/dominant-strategies/go-quai/trie"
	"verifharness/hlib"
)

type mutant struct {
	Name      string
	wo        *types.WorkObject
	staleSeal bool
	// mayAccept: acceptance is not a violation by itself (the mutated body was given a
	// re-derived root, so the mutant is simply a different candidate block; if accepted
	// it must have a different hash and commit to the same results).
	mayAccept bool
	// reroot (third strengthening round): the mutated body violates a protocol RULE of the inbound ETX
	// section (order, identity, minimum inclusion), not a commitment. The adversarial miner's version of it
	// declares everything the real Process recomputes from the mutated body (rerootAll): if Process does not
	// refuse the body by itself, nothing else will, and the mutant is offered with all roots re-derived.
	reroot bool
	Class  string // stable class used in monitor signatures (default: Name)
}

func (m *mutant) sigName() string {
	if m.Class != "" {
		return m.Class
	}
	return m.Name
}

func seal(wo *types.WorkObject) { wo.WorkObjectHeader().SetHeaderHash(wo.Header().Hash()) }

func rndHash(r *hlib.Rng) common.Hash { return common.BytesToHash(r.Bytes(32)) }

func txRoot(txs types.Transactions) common.Hash {
	if len(txs) == 0 {
		return types.EmptyRootHash
	}
	return types.DeriveSha(txs, trie.NewStackTrie(nil))
}

func inc(x *big.Int) *big.Int { return new(big.Int).Add(x, big.NewInt(1)) }

type fieldMut struct {
	name string
	f    func(h *types.Header, r *hlib.Rng) bool
}

var fieldMuts = []fieldMut{
	{"gas+1", func(h *types.Header, r *hlib.Rng) bool { h.SetGasUsed(h.GasUsed() + 1); return true }},
	{"stateused+1", func(h *types.Header, r *hlib.Rng) bool { h.SetStateUsed(h.StateUsed() + 1); return true }},
	{"receipt", func(h *types.Header, r *hlib.Rng) bool { h.SetReceiptHash(rndHash(r)); return true }},
	{"evmroot", func(h *types.Header, r *hlib.Rng) bool { h.SetEVMRoot(rndHash(r)); return true }},
	{"utxoroot", func(h *types.Header, r *hlib.Rng) bool { h.SetUTXORoot(rndHash(r)); return true }},
	{"etxsetroot", func(h *types.Header, r *hlib.Rng) bool { h.SetEtxSetRoot(rndHash(r)); return true }},
	{"statesize+1", func(h *types.Header, r *hlib.Rng) bool { h.SetQuaiStateSize(inc(h.QuaiStateSize())); return true }},
	{"etxhash", func(h *types.Header, r *hlib.Rng) bool { h.SetOutboundEtxHash(rndHash(r)); return true }},
	{"avgfees+1", func(h *types.Header, r *hlib.Rng) bool { h.SetAvgTxFees(inc(h.AvgTxFees())); return true }},
	{"totalfees+1", func(h *types.Header, r *hlib.Rng) bool { h.SetTotalFees(inc(h.TotalFees())); return true }},
	{"uncledentropy+1", func(h *types.Header, r *hlib.Rng) bool { h.SetUncledEntropy(inc(h.UncledEntropy())); return true }},
	{"txhash", func(h *types.Header, r *hlib.Rng) bool { h.SetTxHash(rndHash(r)); return true }},
	{"unclehash", func(h *types.Header, r *hlib.Rng) bool { h.SetUncleHash(rndHash(r)); return true }},
	{"gas=0", func(h *types.Header, r *hlib.Rng) bool {
		if h.GasUsed() == 0 {
			return false
		}
		h.SetGasUsed(0)
		return true
	}},
	{"avgfees=0", func(h *types.Header, r *hlib.Rng) bool {
		if h.AvgTxFees().Sign() == 0 {
			return false
		}
		h.SetAvgTxFees(big.NewInt(0))
		return true
	}},
	{"totalfees=0", func(h *types.Header, r *hlib.Rng) bool {
		if h.TotalFees().Sign() == 0 {
			return false
		}
		h.SetTotalFees(big.NewInt(0))
		return true
	}},
	{"totalfees*2", func(h *types.Header, r *hlib.Rng) bool {
		if h.TotalFees().Sign() == 0 {
			return false
		}
		h.SetTotalFees(new(big.Int).Mul(h.TotalFees(), big.NewInt(2)))
		return true
	}},
}

func fieldByName(n string) fieldMut {
	for _, f := range fieldMuts {
		if f.name == n {
			return f
		}
	}
	panic(n)
}

var doubles = [][2]string{
	{"gas+1", "receipt"}, {"avgfees+1", "totalfees+1"}, {"totalfees+1", "gas+1"}, {"stateused+1", "evmroot"},
	{"evmroot", "statesize+1"}, {"statesize+1", "utxoroot"}, {"utxoroot", "etxsetroot"}, {"receipt", "evmroot"},
	{"etxsetroot", "uncledentropy+1"}, {"gas+1", "stateused+1"}, {"avgfees+1", "gas+1"}, {"txhash", "gas+1"}, {"unclehash", "txhash"},
	{"txhash", "etxhash"},
}

// alterQuai re-encodes a signed Quai transaction with one field changed and the original
// signature values (the signature then no longer belongs to the original sender).
func alterQuai(tx *types.Transaction, what string) *types.Transaction {
	v, rr, s := tx.GetEcdsaSignatureValues()
	in := &types.QuaiTx{ChainID: tx.ChainId(), Nonce: tx.Nonce(), GasPrice: tx.GasPrice(), Gas: tx.Gas(), To: tx.To(), Value: tx.Value(),
		Data: tx.Data(), AccessList: tx.AccessList(), V: v, R: rr, S: s}
	switch what {
	case "value":
		in.Value = inc(in.Value)
	case "nonce":
		in.Nonce++
	case "price":
		in.GasPrice = inc(in.GasPrice)
	case "gas":
		in.Gas++
	case "data":
		in.Data = append(append([]byte{}, in.Data...), 0x01)
	case "worknonce":
		n := types.EncodeNonce(12345)
		in.WorkNonce = &n
	}
	return types.NewTx(in)
}

func alterEtx(tx *types.Transaction, what string) *types.Transaction {
	in := &types.ExternalTx{OriginatingTxHash: tx.OriginatingTxHash(), ETXIndex: tx.ETXIndex(), Gas: tx.Gas(), To: tx.To(), Value: tx.Value(),
		Data: tx.Data(), AccessList: tx.AccessList(), Sender: tx.ETXSender(), EtxType: tx.EtxType()}
	switch what {
	case "value":
		in.Value = inc(in.Value)
	case "gas":
		in.Gas++
	case "index":
		in.ETXIndex++
	case "type":
		in.EtxType = (in.EtxType + 1) % 3
	}
	return types.NewTx(in)
}

// buildMutants derives the mutants of block b. foreign is a validly signed transaction
// that is not in the block (may be nil); fakeEtx is an ETX that is not in the queue.
func buildMutants(b *types.WorkObject, r *hlib.Rng, foreign *types.Transaction, fakeEtx *types.Transaction, parent *types.WorkObject) []*mutant {
	var out []*mutant
	add := func(name string, wo *types.WorkObject, stale, may bool) {
		if !stale {
			seal(wo)
		}
		out = append(out, &mutant{Name: name, wo: wo, staleSeal: stale, mayAccept: may})
	}
	// declared fields
	for _, f := range fieldMuts {
		m := types.CopyWorkObject(b)
		if f.f(m.Header(), r) {
			add("field/"+f.name, m, false, false)
		}
	}
	for _, n := range []string{"gas+1", "evmroot", "totalfees+1", "receipt"} {
		m := types.CopyWorkObject(b)
		fieldByName(n).f(m.Header(), r)
		add("stale-seal/"+n, m, true, false)
	}
	for _, d := range doubles {
		m := types.CopyWorkObject(b)
		if fieldByName(d[0]).f(m.Header(), r) && fieldByName(d[1]).f(m.Header(), r) {
			add("double/"+d[0]+"&"+d[1], m, false, false)
		}
	}
	// transaction list
	txs := b.Transactions()
	nEtx := 0
	for _, t := range txs {
		if t.Type() == types.ExternalTxType {
			nEtx++
		}
	}
	type listMut struct {
		name string
		txs  types.Transactions
	}
	var lms []listMut
	cp := func() types.Transactions { return append(types.Transactions{}, txs...) }
	if len(txs) > 0 {
		i := r.Intn(len(txs))
		l := cp()
		lms = append(lms, listMut{"tx-drop", append(l[:i], l[i+1:]...)})
		l = cp()
		i = r.Intn(len(txs))
		l = append(l[:i+1], l[i:]...)
		lms = append(lms, listMut{"tx-dup", l})
		l = cp()
		lms = append(lms, listMut{"tx-drop-last", l[:len(l)-1]})
	}
	if len(txs) > 1 {
		i := r.Intn(len(txs) - 1)
		l := cp()
		l[i], l[i+1] = l[i+1], l[i]
		lms = append(lms, listMut{"tx-swap-adjacent", l})
		l = cp()
		l[0], l[len(l)-1] = l[len(l)-1], l[0]
		lms = append(lms, listMut{"tx-swap-ends", l})
	}
	if foreign != nil {
		lms = append(lms, listMut{"tx-add-foreign-end", append(cp(), foreign)})
		l := append(types.Transactions{}, txs[:nEtx]...)
		l = append(l, foreign)
		l = append(l, txs[nEtx:]...)
		lms = append(lms, listMut{"tx-add-foreign-first", l})
	}
	var quaiIdx, etxIdx, qiIdx []int
	for i, t := range txs {
		switch t.Type() {
		case types.QuaiTxType:
			quaiIdx = append(quaiIdx, i)
		case types.ExternalTxType:
			etxIdx = append(etxIdx, i)
		case types.QiTxType:
			qiIdx = append(qiIdx, i)
		}
	}
	if len(quaiIdx) > 0 {
		for _, what := range []string{"value", "nonce", "price", "gas", "data", "worknonce"} {
			i := quaiIdx[r.Intn(len(quaiIdx))]
			l := cp()
			l[i] = alterQuai(l[i], what)
			lms = append(lms, listMut{"tx-alter-" + what, l})
		}
	}
	if len(etxIdx) > 0 {
		for _, what := range []string{"value", "gas", "index", "type"} {
			i := etxIdx[r.Intn(len(etxIdx))]
			l := cp()
			l[i] = alterEtx(l[i], what)
			lms = append(lms, listMut{"etx-alter-" + what, l})
		}
		l := cp()
		lms = append(lms, listMut{"etx-drop-first", l[1:]})
		l = cp()
		lms = append(lms, listMut{"etx-dup-first", append(types.Transactions{l[0]}, l...)})
	}
	if len(etxIdx) > 1 {
		l := cp()
		l[etxIdx[0]], l[etxIdx[1]] = l[etxIdx[1]], l[etxIdx[0]]
		lms = append(lms, listMut{"etx-swap", l})
	}
	if fakeEtx != nil {
		l := append(types.Transactions{}, txs[:nEtx]...)
		l = append(l, fakeEtx)
		l = append(l, txs[nEtx:]...)
		lms = append(lms, listMut{"etx-add-unqueued", l})
	}
	// truncations of the inbound ETX section: the block keeps only the first k of the n queued ETXs the
	// worker included (k = 0 .. n-1; all of them for n <= 6), with the rest of the transactions or without:
	// the queue is still non-empty after the block's pops and, because the worker stops adding ETXs as soon
	// as the minimum is reached, every proper prefix is below the minimum-inclusion rule
	var keeps []listMut
	if nEtx > 0 {
		ks := []int{}
		if nEtx <= 6 {
			for k := 0; k < nEtx; k++ {
				ks = append(ks, k)
			}
		} else {
			ks = []int{0, 1, 2, nEtx / 2, nEtx - 2, nEtx - 1}
		}
		for _, k := range ks {
			l := append(types.Transactions{}, txs[:k]...)
			keeps = append(keeps, listMut{fmt.Sprintf("etx-only-%d", k), l})
			if nEtx < len(txs) {
				keeps = append(keeps, listMut{fmt.Sprintf("etx-keep-%d", k), append(append(types.Transactions{}, l...), txs[nEtx:]...)})
			}
		}
	}
	for _, lm := range keeps {
		m := types.CopyWorkObject(b)
		m.Body().SetTransactions(lm.txs)
		m.Header().SetTxHash(txRoot(lm.txs))
		add("body/"+lm.name+"/+root", m, false, false)
		out[len(out)-1].Class = "body/etx-keep-prefix/+root"
	}
	for _, lm := range append(append([]listMut{}, keeps...), lms...) {
		if !strings.HasPrefix(lm.name, "etx-") {
			continue
		}
		m := types.CopyWorkObject(b)
		m.Body().SetTransactions(lm.txs)
		m.Header().SetTxHash(txRoot(lm.txs))
		// start-up regime: the rule counts ETXs and the worker includes one more than the minimum, so a prefix
		// of MinEtxCount or more is simply another valid block
		var kk int
		legit := false
		if n, _ := fmt.Sscanf(strings.TrimPrefix(strings.TrimPrefix(lm.name, "etx-keep-"), "etx-only-"), "%d", &kk); n == 1 && strings.Contains(lm.name, "-") &&
			(strings.HasPrefix(lm.name, "etx-keep-") || strings.HasPrefix(lm.name, "etx-only-")) {
			legit = b.NumberU64(common.ZONE_CTX) <= params.TimeToStartTx && kk >= params.MinEtxCount
		}
		add("body/"+lm.name+"/all-roots", m, false, legit)
		out[len(out)-1].reroot = true
		if strings.HasPrefix(lm.name, "etx-keep-") || strings.HasPrefix(lm.name, "etx-only-") {
			out[len(out)-1].Class = "body/etx-keep-prefix/all-roots"
		}
	}
	for _, lm := range lms {
		m := types.CopyWorkObject(b)
		m.Body().SetTransactions(lm.txs)
		add("body/"+lm.name+"/stale-root", m, false, false)
		m = types.CopyWorkObject(b)
		m.Body().SetTransactions(lm.txs)
		m.Header().SetTxHash(txRoot(lm.txs))
		add("body/"+lm.name+"/+root", m, false, strings.HasPrefix(lm.name, "tx-swap") || lm.name == "tx-alter-worknonce")
	}
	// outbound ETX list of the body
	oe := b.OutboundEtxs()
	var oms []listMut
	ocp := func() types.Transactions { return append(types.Transactions{}, oe...) }
	if len(oe) > 0 {
		l := ocp()
		oms = append(oms, listMut{"out-drop-last", l[:len(l)-1]})
		l = ocp()
		l[0] = alterEtx(l[0], "value")
		oms = append(oms, listMut{"out-alter-value", l})
	}
	if fakeEtx != nil {
		oms = append(oms, listMut{"out-add", append(ocp(), fakeEtx)})
	}
	if len(oe) > 1 {
		l := ocp()
		l[0], l[1] = l[1], l[0]
		oms = append(oms, listMut{"out-swap", l})
	}
	for _, om := range oms {
		m := types.CopyWorkObject(b)
		m.Body().SetOutboundEtxs(om.txs)
		add("body/"+om.name+"/stale-root", m, false, false)
		m = types.CopyWorkObject(b)
		m.Body().SetOutboundEtxs(om.txs)
		m.Header().SetOutboundEtxHash(txRoot(om.txs))
		add("body/"+om.name+"/+root", m, false, false)
	}
	// an uncle that is not a valid work share (the parent's own header)
	if parent != nil {
		m := types.CopyWorkObject(b)
		us := append(append([]*types.WorkObjectHeader{}, b.Uncles()...), types.CopyWorkObjectHeader(parent.WorkObjectHeader()))
		m.Body().SetUncles(us)
		add("body/uncle-add/stale-root", m, false, false)
		m = types.CopyWorkObject(b)
		m.Body().SetUncles(us)
		m.Header().SetUncleHash(types.CalcUncleHash(us))
		add("body/uncle-add/+root", m, false, false)
	}
	return out
}

// rerootAll turns wo (a block with a mutated body) into the block an adversarial miner would publish: every
// commitment is set to what the real Process recomputes from the body (fees first, read from the fee
// comparison errors, then everything ValidateState compares, and the body's outbound list := the emitted
// ETXs). ok=false when Process refuses the body itself (why = class of the error): then no choice of the
// declared values can make the block acceptable.
func rerootAll(n *node, wo *types.WorkObject) (ok bool, why string) {
	defer func() {
		if p := recover(); p != nil {
			ok, why = false, "panic"
		}
	}()
	for it := 0; it < 4; it++ {
		seal(wo)
		batch := n.db.NewBatch()
		receipts, etxs, _, statedb, usedGas, usedState, _, multiSet, _, err := n.z.Processor().Process(wo, batch)
		batch.Reset()
		if err != nil {
			cl := classState(err)
			if cl == vAvg || cl == vTotal {
				m := localRe.FindStringSubmatch(err.Error())
				if m == nil {
					return false, "fee-unparsed"
				}
				v, _ := new(big.Int).SetString(m[1], 10)
				if cl == vAvg {
					wo.Header().SetAvgTxFees(v)
				} else {
					wo.Header().SetTotalFees(v)
				}
				continue
			}
			return false, execClass(err)
		}
		h := wo.Header()
		emitted := types.Transactions(etxs)
		wo.Body().SetOutboundEtxs(emitted)
		h.SetOutboundEtxHash(types.DeriveSha(emitted, trie.NewStackTrie(nil)))
		h.SetReceiptHash(types.DeriveSha(receipts, trie.NewStackTrie(nil)))
		h.SetEVMRoot(statedb.IntermediateRoot(true))
		h.SetQuaiStateSize(statedb.GetQuaiTrieSize())
		h.SetUTXORoot(multiSet.Hash())
		h.SetEtxSetRoot(statedb.ETXRoot())
		h.SetGasUsed(usedGas)
		h.SetStateUsed(usedState)
		seal(wo)
		return true, ""
	}
	return false, "fee-loop"
}

package main

// Monitors and distribution counters added in the third strengthening round (design/C07.md).

import (
	"fmt"
	"sort"
	"strings"

	"github.com/dominant-strategies/go-quai/common"
	"github.com/dominant-strategies/go-quai/core/types"
)

// diffCommits names the commitments in which two records differ.
func diffCommits(a, b commits) []string {
	var out []string
	add := func(n string, ne bool) {
		if ne {
			out = append(out, n)
		}
	}
	add("uncle-hash", a.UncleHash != b.UncleHash)
	add("tx-root", a.TxRoot != b.TxRoot)
	add("etx-emitted-hash", a.EtxHash != b.EtxHash)
	add("receipt-root", a.Receipt != b.Receipt)
	add("evm-root", a.Evm != b.Evm)
	add("utxo-root", a.Utxo != b.Utxo)
	add("etx-set-root", a.EtxSet != b.EtxSet)
	add("gas-used", a.Gas != b.Gas)
	add("state-used", a.StateUsed != b.StateUsed)
	add("state-size", bN(a.StateSize) != bN(b.StateSize))
	add("avg-fees", bN(a.Avg) != bN(b.Avg))
	add("total-fees", bN(a.Total) != bN(b.Total))
	add("uncled-entropy", bN(a.Uncled) != bN(b.Uncled))
	sort.Strings(out)
	return out
}

// checkPendingVsReexecution: what the worker declared (computed from its pending state after the
// transactions it kept AND the ones it skipped) against what a separate run of the real Process
// recomputes from the transactions that are in the block. Lists every differing commitment at once.
func checkPendingVsReexecution(d, rr commits) (sig, what string) {
	df := diffCommits(d, rr)
	if len(df) == 0 {
		return "", ""
	}
	return "own-block/declared-differs-from-reexecution/" + strings.Join(df, "+"),
		"the worker's pending state and the re-execution of the block it assembled disagree in: " + strings.Join(df, ", ") +
			" (a transaction that is not in the block left effects in the pending state, or one that is in the block was executed differently)"
}

// checkNonceSequence: the Quai transactions of one sender in an assembled block carry the nonces
// n, n+1, ... in this order, n = the sender's nonce in the state of the parent.
func (c *chain) checkNonceSequence(b, head *types.WorkObject) (sig, what string) {
	st, err := c.n.z.StateAt(head)
	if err != nil || st == nil {
		return "", ""
	}
	next := map[common.AddressBytes]uint64{}
	for ti, tx := range b.Transactions() {
		if tx.Type() != types.QuaiTxType {
			continue
		}
		from, err := types.Sender(c.w.signer, tx)
		if err != nil {
			continue // reported by checkBodyConflicts
		}
		k := from.Bytes20()
		if _, ok := next[k]; !ok {
			in, err := from.InternalAndQuaiAddress()
			if err != nil {
				continue
			}
			next[k] = st.GetNonce(in)
		}
		if tx.Nonce() != next[k] {
			return "own-block/nonce-gap", fmt.Sprintf("transaction %d of the assembled block has nonce %d, the sender's next nonce at that point is %d", ti, tx.Nonce(), next[k])
		}
		next[k]++
	}
	return "", ""
}

// countSkipped: distribution only. Pending pool transactions that were next in line for their sender
// (nonce = state nonce + number of the sender's transactions in the block) and are not in the block,
// by kind of transaction: the inputs on which worker.commitTransaction returned an error.
func (c *chain) countSkipped(b, head *types.WorkObject) {
	st, err := c.n.z.StateAt(head)
	if err != nil || st == nil {
		return
	}
	pend, err := c.n.z.Pool.TxPoolPending()
	if err != nil {
		return
	}
	inBlock := map[common.Hash]bool{}
	cnt := map[common.AddressBytes]uint64{}
	for _, tx := range b.Transactions() {
		inBlock[tx.Hash()] = true
		if tx.Type() == types.QuaiTxType {
			if from, err := types.Sender(c.w.signer, tx); err == nil {
				cnt[from.Bytes20()]++
			}
		}
	}
	n := map[string]int{}
	for _, a := range c.w.eoas {
		in, _ := a.addr.InternalAndQuaiAddress()
		want := st.GetNonce(in) + cnt[a.addr.Bytes20()]
		for _, tx := range pend[a.addr.Bytes20()] {
			if tx.Nonce() != want || inBlock[tx.Hash()] {
				continue
			}
			kind := "other"
			switch {
			case tx.To() == nil:
				kind = "create"
			case !tx.To().Location().Equal(loc) && tx.To().Location().CommonDom(loc).Context() == common.REGION_CTX:
				kind = "cross-region-transfer"
			case !tx.To().Location().Equal(loc):
				kind = "cross-prime-transfer"
			case tx.To().IsInQiLedgerScope():
				kind = "conversion"
			case len(tx.Data()) == 128:
				kind = "emitter-call"
			case len(tx.Data()) == 0:
				kind = "transfer"
			}
			n[kind]++
		}
	}
	tot := 0
	for k, v := range n {
		c.rep.Count("block/next-in-line-skipped/" + k + "=" + bucket(v))
		tot += v
	}
	c.rep.Count("block/next-in-line-skipped=" + bucket(tot))
}

package main

// Pool contents with mutually conflicting transactions (added after the blind changes, see
// design/C07.md "Strengthening after the blind changes").
//
// The pool admits a Qi transaction by looking at the committed UTXO set only; it never
// compares the inputs of two pool transactions. A deliberate multi-spend, repeated fee
// bumps of a Qi payment, or two wallets racing therefore all end up as several pool
// transactions naming the same outpoint, and the worker is the only place where they are
// arbitrated (env.deletedUtxos in worker.processQiTx). A "cluster" is a small universe of
// outpoints of one owner and a list of transactions each spending an ordered, non-empty
// subset of it: {X},{X},{X} is the plain triple spend; {X,Y},{Y},{X} and {X},{Z,X},{Z},{Z}
// are partial overlaps where a rejected transaction has reserved some of its inputs before
// the conflicting one was met. Whatever the worker does with the rejected members, the
// block it returns must be accepted by the node's own validation (monitor own-block/…) and
// no outpoint may be consumed twice in its body (monitor own-block/outpoint-spent-twice).

import (
	"fmt"
	"math"
	"math/big"

	"github.com/dominant-strategies/go-quai/common"
	"github.com/dominant-strategies/go-quai/consensus/misc"
	"github.com/dominant-strategies/go-quai/core/rawdb"
	"github.com/dominant-strategies/go-quai/core/types"
	"verifharness/hlib"
)

type qiIn struct {
	ref utxoRef
	den uint8
}

// spendable lists the tracked outpoints that exist in the committed UTXO set of the head, are
// unlocked in the next block and large enough to pay a fee; spent ones are dropped from c.utxos.
func (c *chain) spendable(head *types.WorkObject) []qiIn {
	var out []qiIn
	keep := c.utxos[:0]
	for _, u := range c.utxos {
		e := rawdb.GetUTXO(c.n.db, u.op.TxHash, u.op.Index)
		if e == nil {
			if u.born+6 > c.height { // not created yet (inbound ETX still queued): keep for later
				keep = append(keep, u)
			}
			continue
		}
		keep = append(keep, u)
		if e.Lock != nil && e.Lock.Sign() > 0 && e.Lock.Uint64() > head.NumberU64(common.ZONE_CTX)+1 {
			continue
		}
		if e.Denomination < 2 {
			continue
		}
		out = append(out, qiIn{u, e.Denomination})
	}
	c.utxos = keep
	return out
}

// qiSpend builds a signed Qi transaction spending ins (all of one owner, in this order). The output
// denomination is the largest one whose fee clears twice the base fee for the gas of the transaction,
// lowered by skew further steps (higher fee, different hash); flip selects the recipient, two makes a
// second output of the same denomination.
func (c *chain) qiSpend(head *types.WorkObject, base *big.Int, ins []qiIn, skew, flip int, two bool) *types.Transaction {
	owner := ins[0].ref.owner
	minDen := ins[0].den
	totalIn := new(big.Int)
	var ops []types.OutPoint
	for _, in := range ins {
		if in.den < minDen {
			minDen = in.den
		}
		totalIn.Add(totalIn, types.Denominations[in.den])
		ops = append(ops, in.ref.op)
	}
	scaling := math.Log(float64(rawdb.ReadUTXOSetSize(c.n.db, head.Hash())))
	var last *types.Transaction
	for den := int(minDen) - 1; den >= 0; den-- {
		d1 := (owner + 1 + flip%2) % 3
		d2 := 3 - owner - d1
		outs := types.TxOuts{{Denomination: uint8(den), Address: c.w.qis[d1].addr.Bytes(), Lock: big.NewInt(0)}}
		if two {
			outs = append(outs, types.TxOut{Denomination: uint8(den), Address: c.w.qis[d2].addr.Bytes(), Lock: big.NewInt(0)})
		}
		total := new(big.Int)
		for _, o := range outs {
			total.Add(total, types.Denominations[o.Denomination])
		}
		fee := new(big.Int).Sub(totalIn, total)
		if fee.Sign() <= 0 {
			continue
		}
		tx := c.w.signQi(c.w.qis[owner], ops, outs)
		gas := types.CalculateBlockQiTxGas(tx, scaling, loc)
		feeQuai := misc.QiToQuai(head, head.ExchangeRate(), head.Difficulty(), fee)
		if new(big.Int).Div(feeQuai, new(big.Int).SetUint64(gas)).Cmp(new(big.Int).Mul(base, big.NewInt(2))) >= 0 || den == 0 {
			last = tx
			if skew == 0 {
				return tx
			}
			skew--
		}
	}
	return last
}

// qiCluster builds the transactions of one conflict cluster. pattern[j] = ordered indices (into a
// universe of outpoints of one owner) spent by the j-th transaction. With equalFee the members pay
// the same fee wherever the shape allows (ties in the worker's price ordering), otherwise the j-th
// member pays more than the (j+1)-th, so that the worker meets them in the order of the pattern.
func (c *chain) qiCluster(r *hlib.Rng, head *types.WorkObject, base *big.Int, pattern [][]int, equalFee bool) []*types.Transaction {
	sp := c.spendable(head)
	byOwner := map[int][]qiIn{}
	for _, s := range sp {
		byOwner[s.ref.owner] = append(byOwner[s.ref.owner], s)
	}
	need := 0
	for _, p := range pattern {
		for _, i := range p {
			if i+1 > need {
				need = i + 1
			}
		}
	}
	// owner with the most spendable outpoints (ties: lowest index): deterministic
	best := -1
	for o := 0; o < 3; o++ {
		if len(byOwner[o]) > 0 && (best < 0 || len(byOwner[o]) > len(byOwner[best])) {
			best = o
		}
	}
	if best < 0 {
		return nil
	}
	pool := byOwner[best]
	// the universe: a random choice of `need` outpoints (fewer if the owner has fewer: indices wrap)
	var uni []qiIn
	for len(uni) < need && len(pool) > 0 {
		i := r.Intn(len(pool))
		uni = append(uni, pool[i])
		pool = append(pool[:i], pool[i+1:]...)
	}
	var out []*types.Transaction
	k := len(pattern)
	for j, p := range pattern {
		var ins []qiIn
		seen := map[int]bool{}
		for _, i := range p {
			i %= len(uni)
			if !seen[i] {
				seen[i] = true
				ins = append(ins, uni[i])
			}
		}
		skew, flip, two := k-1-j, j, j%3 == 2
		if equalFee {
			skew, two = 0, (j/2)%2 == 1
		}
		tx := c.qiSpend(head, base, ins, skew, flip, two)
		if tx == nil {
			continue
		}
		out = append(out, tx)
		c.rep.Count(fmt.Sprintf("pool/qi-conflict/inputs=%d", len(ins)))
	}
	c.rep.Count(fmt.Sprintf("pool/qi-cluster/universe=%d/txs=%s", len(uni), bucket(len(out))))
	return out
}

// randomPattern: 2..5 transactions over a universe of 1..3 outpoints, each spending an ordered
// subset of size 1..2; every member shares an outpoint with at least one other member.
func randomPattern(r *hlib.Rng) [][]int {
	m := 1 + r.Pick(50, 30, 20)
	k := 2 + r.Pick(25, 35, 25, 15)
	var p [][]int
	for j := 0; j < k; j++ {
		a := r.Intn(m)
		if m > 1 && r.Chance(45) {
			b := (a + 1 + r.Intn(m-1)) % m
			p = append(p, []int{a, b})
		} else {
			p = append(p, []int{a})
		}
	}
	return p
}

// fixed patterns of the corpus chain "qi-conflict-clusters" (one per block, in this order)
var corpusPatterns = []struct {
	p     [][]int
	equal bool
}{
	{[][]int{{0}, {0}}, false},
	{[][]int{{0}, {0}, {0}}, false},
	{[][]int{{0}, {0}, {0}, {0}}, false},
	{[][]int{{0}, {0}, {0}, {0}, {0}}, false},
	{[][]int{{0}, {0}, {0}}, true},
	{[][]int{{0, 1}, {1}, {0}, {1, 0}}, false},
	{[][]int{{0}, {2, 0}, {2}, {2}}, false},
	{[][]int{{0, 1}, {1, 2}, {2, 0}, {1}, {2}}, false},
	{[][]int{{0}, {1}, {0}, {1}, {0}, {1}}, false},
	{[][]int{{0, 1}, {0, 1}, {1, 0}, {0}}, true},
}

// checkBodyConflicts is the property's own predicate on an assembled body, independent of any
// validator: no outpoint is named by two inputs of the block (within one Qi transaction or across
// them) and no (sender, nonce) pair occurs twice among the Quai transactions.
func (c *chain) checkBodyConflicts(b *types.WorkObject) (sig, what string) {
	spent := map[types.OutPoint]int{}
	type sn struct {
		from  common.AddressBytes
		nonce uint64
	}
	nonces := map[sn]int{}
	for ti, tx := range b.Transactions() {
		switch tx.Type() {
		case types.QiTxType:
			for _, in := range tx.TxIn() {
				if prev, ok := spent[in.PreviousOutPoint]; ok {
					return "own-block/outpoint-spent-twice", fmt.Sprintf("the assembled block consumes outpoint %x:%d in transaction %d and again in transaction %d", in.PreviousOutPoint.TxHash[:8], in.PreviousOutPoint.Index, prev, ti)
				}
				spent[in.PreviousOutPoint] = ti
			}
		case types.QuaiTxType:
			from, err := types.Sender(c.w.signer, tx)
			if err != nil {
				return "own-block/quai-tx-without-sender", fmt.Sprintf("transaction %d of the assembled block has no recoverable sender: %v", ti, err)
			}
			k := sn{from.Bytes20(), tx.Nonce()}
			if prev, ok := nonces[k]; ok {
				return "own-block/nonce-used-twice", fmt.Sprintf("the assembled block contains two transactions of one sender with nonce %d (positions %d and %d)", tx.Nonce(), prev, ti)
			}
			nonces[k] = ti
		}
	}
	return "", ""
}

// conflictsLeftOut counts the Qi transactions still in the pool that name an outpoint consumed by the
// assembled block (the losers of the worker's arbitration); distribution only.
func (c *chain) conflictsLeftOut(b *types.WorkObject) int {
	spent := map[types.OutPoint]bool{}
	in := map[common.Hash]bool{}
	for _, tx := range b.Transactions() {
		if tx.Type() == types.QiTxType {
			in[tx.Hash()] = true
			for _, i := range tx.TxIn() {
				spent[i.PreviousOutPoint] = true
			}
		}
	}
	n := 0
	for _, p := range c.n.z.Pool.QiPoolPending() {
		if in[p.Tx().Hash()] {
			continue
		}
		for _, i := range p.Tx().TxIn() {
			if spent[i.PreviousOutPoint] {
				n++
				break
			}
		}
	}
	return n
}

package main

// The chain driver: a zone mini node (real worker, pool, header chain, state processor)
// over a memory database, fed with generated pool content and inbound ETX deliveries.

import (
	"bytes"
	"fmt"
	"math"
	"math/big"
	"os"

	"github.com/dominant-strategies/go-quai/common"
	"github.com/dominant-strategies/go-quai/consensus/misc"
	"github.com/dominant-strategies/go-quai/core"
	"github.com/dominant-strategies/go-quai/core/rawdb"
	"github.com/dominant-strategies/go-quai/core/types"
	"github.com/dominant-strategies/go-quai/core/vm"
	"github.com/dominant-strategies/go-quai/crypto"
	"github.com/dominant-strategies/go-quai/ethdb"
	"github.com/dominant-strategies/go-quai/ethdb/memorydb"
	"github.com/dominant-strategies/go-quai/log"
	"verifharness/hlib"
)

type chainCfg struct {
	Idx       int   `json:"idx"`
	PreferQi  bool  `json:"prefer_qi"`
	Lockup    uint8 `json:"lockup"`
	LockupCt  bool  `json:"lockup_contract"`
	IndexUtxo bool  `json:"index_utxo"`
	StalePct  int   `json:"stale_pct"`
	NoFillPct int   `json:"nofill_pct"`
}

func cfgFor(idx int) chainCfg {
	switch idx % 4 {
	case 0:
		return chainCfg{Idx: idx}
	case 1:
		return chainCfg{Idx: idx, PreferQi: true, Lockup: 1, StalePct: 15}
	case 2:
		return chainCfg{Idx: idx, Lockup: 2, LockupCt: true, StalePct: 30, NoFillPct: 10}
	default:
		return chainCfg{Idx: idx, PreferQi: true, Lockup: 3, IndexUtxo: true, NoFillPct: 15}
	}
}

type node struct {
	z    *core.VerifZone
	db   ethdb.Database
	opts core.VerifZoneOptions
}

func openNode(db ethdb.Database, w *world, cfg chainCfg, logger *log.Logger) (*node, error) {
	opts := core.VerifZoneOptions{Location: loc, QuaiCoinbase: w.cbQuai, QiCoinbase: w.cbQi, GenesisTime: 1000, IndexAddressUtxo: cfg.IndexUtxo}
	z, err := core.VerifC07NewZone(db, opts, logger)
	if err != nil {
		return nil, err
	}
	pref := 0.0
	if cfg.PreferQi {
		pref = 1.0
	}
	z.VerifC07SetMinerPreference(pref)
	var ct *common.Address
	if cfg.LockupCt {
		a := w.lockupCt
		ct = &a
	}
	z.VerifC07SetLockup(cfg.Lockup, ct)
	return &node{z: z, db: db, opts: opts}, nil
}

// locMem is the memory database with the node location attached (like the leveldb / pebble
// backends opened by a node; memorydb.Location() is nil, which makes every address of a
// block read back from the database decode as "external").
type locMem struct{ *memorydb.Database }

func (d *locMem) Location() common.Location { return loc }

func newMemDb(logger *log.Logger) ethdb.Database {
	return rawdb.NewDatabase(&locMem{memorydb.New(logger)})
}

func copyDb(src ethdb.Database, logger *log.Logger) ethdb.Database {
	dst := newMemDb(logger)
	it := src.NewIterator(nil, nil)
	for it.Next() {
		dst.Put(append([]byte{}, it.Key()...), append([]byte{}, it.Value()...))
	}
	it.Release()
	return dst
}

var verboseRefusals = os.Getenv("C07_VERBOSE") != ""
var overGas = os.Getenv("C07_OVERGAS") != ""

type contractInfo struct {
	addr common.Address
	kind int
}

type utxoRef struct {
	op    types.OutPoint
	owner int
	born  int // block step at which the harness learnt about it
}

type chain struct {
	w       *world
	cfg     chainCfg
	n       *node
	logger  *log.Logger
	rng     *hlib.Rng
	rep     *hlib.Report
	height  int
	funded  bool
	creates map[common.Hash]int // pending creation tx -> kind
	ctrs    []contractInfo
	out     types.Transactions // own-zone outbound ETXs waiting for delivery
	utxos   []utxoRef
	fresh   int
	script  func(c *chain, i int, b *types.WorkObject) types.Transactions // corpus chains: extra inbound ETXs after block i
	noMut   bool
	// third strengthening round (budget.go)
	nonce     map[int]uint64 // next nonce per sender while a pool round is generated
	stuck     bool           // a sender was given a transaction that can never be included
	drained   int            // senders that sent (almost) their whole balance away
	noGeneric bool           // corpus chains: no generic traffic, only the scripted pool content
	startup   bool           // corpus chains: start-up regime (see corpusCase.startTx)
	// corpus chains: extra pool content before block i (added to what genPool generates)
	poolScript func(c *chain, i int, r *hlib.Rng, head *types.WorkObject, base *big.Int) []*types.Transaction
}

func newChain(w *world, cfg chainCfg, rng *hlib.Rng, rep *hlib.Report, logger *log.Logger) (*chain, error) {
	db := newMemDb(logger)
	n, err := openNode(db, w, cfg, logger)
	if err != nil {
		return nil, err
	}
	return &chain{w: w, cfg: cfg, n: n, logger: logger, rng: rng, rep: rep, creates: map[common.Hash]int{}}, nil
}

func (c *chain) close() { c.n.z.Close() }

func (c *chain) freshAddr() common.Address {
	c.fresh++
	return grindQuai(fmt.Sprintf("verif-c07-fresh-%d-%d", c.cfg.Idx, c.fresh), 1, loc)[0].addr
}

// genPool adds new transactions to the pool (through the pool's public entry points).
func (c *chain) genPool(r *hlib.Rng) {
	z := c.n.z
	head := z.Hc.CurrentHeader()
	base := head.BaseFee()
	if base == nil || base.Sign() == 0 {
		base = big.NewInt(1)
	}
	if !c.funded {
		return
	}
	k := r.Pick(15, 20, 25, 20, 10, 10) // number of new Quai transactions
	if r.Chance(8) {
		k = 12 + r.Intn(14)
	}
	nonce := map[int]uint64{}
	c.nonce = nonce
	if c.noGeneric {
		k = 0
	}
	var txs []*types.Transaction
	var repl []quaiSpec // plain transactions of this round that may get a replacement attempt
	for i := 0; i < k; i++ {
		s := r.Intn(len(c.w.eoas))
		if _, ok := nonce[s]; !ok {
			in, _ := c.w.eoas[s].addr.InternalAndQuaiAddress()
			nonce[s] = z.Pool.Nonce(in)
		}
		var price *big.Int
		switch r.Pick(40, 20, 15, 10, 10, 5) {
		case 0:
			price = new(big.Int).Mul(base, big.NewInt(2))
		case 1:
			price = new(big.Int).Add(new(big.Int).Mul(base, big.NewInt(2)), big.NewInt(int64(r.Intn(3))))
		case 2:
			price = new(big.Int).Mul(base, big.NewInt(3))
		case 3:
			price = new(big.Int).Add(base, new(big.Int).Div(base, big.NewInt(1000)))
		case 4:
			price = new(big.Int).Set(base) // borderline: below the next base fee when it rises
		default:
			price = new(big.Int).Mul(base, big.NewInt(int64(4+r.Intn(5))))
		}
		spec := quaiSpec{from: s, nonce: nonce[s], price: price, gas: 21000, value: big.NewInt(int64(1 + r.Intn(1000000)))}
		kind := r.Pick(30, 8, 12, 6, 12, 22, 4, 3, 3)
		if kind == 5 && len(c.ctrs) == 0 {
			kind = 4
		}
		label := ""
		switch kind {
		case 0:
			to := c.w.eoas[r.Intn(len(c.w.eoas))].addr
			spec.to = &to
			label = "transfer"
		case 1:
			to := c.freshAddr()
			spec.to = &to
			spec.gas = 60000
			label = "transfer-new"
		case 2: // cross-zone transfer: emits an outbound ETX
			to := c.w.farQuai[r.Intn(len(c.w.farQuai))].addr
			spec.to = &to
			spec.gas = 21000*3 + uint64(r.Intn(60000)) - uint64(r.Intn(2))*25000 // some fall short of ETXGas + TxGas
			label = "external"
		case 3: // Quai -> Qi conversion
			to := c.w.qis[r.Intn(3)].addr
			spec.to = &to
			spec.gas = 21000*3 + uint64(r.Intn(200000))
			spec.value = new(big.Int).Mul(bigPow10(18), big.NewInt(int64(1+r.Intn(50))))
			label = "convert"
		case 4: // contract creation
			kd := r.Intn(len(contractKinds))
			spec.to = nil
			spec.data = initCode(contractKinds[kd])
			spec.gas = 300000
			spec.value = big.NewInt(0)
			if r.Chance(90) { // the new contract's address must be in the access list
				ca := crypto.CreateAddress(c.w.eoas[s].addr, spec.nonce, spec.data, loc)
				if _, err := ca.InternalAndQuaiAddress(); err != nil {
					ca, _, _ = vm.GrindContract(c.w.eoas[s].addr, spec.nonce, 1<<40, 0, crypto.Keccak256Hash(spec.data), new(big.Int).Add(head.Number(common.ZONE_CTX), big.NewInt(1)), loc)
				}
				spec.access = types.AccessList{{Address: ca}}
			}
			label = fmt.Sprintf("create-%d", kd)
			tx := c.w.signQuai(spec)
			c.creates[tx.Hash()] = kd
			txs = append(txs, tx)
			nonce[s]++
			c.rep.Count("pool/" + label)
			continue
		case 5: // contract call
			ct := c.ctrs[r.Intn(len(c.ctrs))]
			to := ct.addr
			spec.to = &to
			spec.gas = 250000
			spec.value = big.NewInt(0)
			if r.Chance(80) {
				spec.access = types.AccessList{{Address: to, StorageKeys: slotKeys(10)}}
			}
			label = fmt.Sprintf("call-%d", ct.kind)
			if ct.kind == emitterKind { // SSTORE, then up to two ETXs with gas limits around the per-block budgets
				B := etxBudget(head)
				gs := []uint64{0, 21000, 100000, B / 3, B * 2 / 3, B, B + 1}
				x := r.Intn(2)
				spec.data = emitData(c.w.farQuai[2*x+r.Intn(2)].addr, gs[r.Intn(len(gs))], c.w.farQuai[2*(1-x)+r.Intn(2)].addr, gs[r.Intn(len(gs))])
				spec.value = big.NewInt(int64(r.Intn(3)))
				spec.gas = 300000
			}
		case 6: // nonce gap: stays queued
			to := c.w.eoas[r.Intn(len(c.w.eoas))].addr
			spec.to = &to
			spec.nonce = nonce[s] + 2
			tx := c.w.signQuai(spec)
			txs = append(txs, tx)
			c.rep.Count("pool/nonce-gap")
			continue
		case 7: // more value than the balance: the pool refuses it
			to := c.w.eoas[r.Intn(len(c.w.eoas))].addr
			spec.to = &to
			spec.value = bigPow10(30)
			tx := c.w.signQuai(spec)
			txs = append(txs, tx)
			c.rep.Count("pool/overdraft")
			continue
		default: // data-carrying transfer
			to := c.w.eoas[r.Intn(len(c.w.eoas))].addr
			spec.to = &to
			spec.data = r.Bytes(1 + r.Intn(40))
			spec.gas = 40000
			label = "transfer-data"
		}
		txs = append(txs, c.w.signQuai(spec))
		if kind == 0 || kind == 2 || kind == 8 {
			repl = append(repl, spec)
		}
		nonce[s]++
		c.rep.Count("pool/" + label)
	}
	// Qi transactions
	if len(c.utxos) > 0 && r.Chance(60) {
		for tries := 0; tries < 2 && len(c.utxos) > 0; tries++ {
			i := r.Intn(len(c.utxos))
			u := c.utxos[i]
			c.utxos = append(c.utxos[:i], c.utxos[i+1:]...)
			e := rawdb.GetUTXO(c.n.db, u.op.TxHash, u.op.Index)
			if e == nil {
				if u.born+6 > c.height { // the inbound ETX creating it is still queued: retry later
					c.utxos = append(c.utxos, u)
				}
				continue
			}
			if e.Lock != nil && e.Lock.Sign() > 0 && e.Lock.Uint64() > head.NumberU64(common.ZONE_CTX)+1 {
				c.utxos = append(c.utxos, u) // still locked, retry later
				continue
			}
			if e.Denomination < 2 {
				continue
			}
			// choose outputs so that the fee, converted to Quai, clears the base fee for the tx gas
			var outs types.TxOuts
			var tx *types.Transaction
			scaling := math.Log(float64(rawdb.ReadUTXOSetSize(c.n.db, head.Hash())))
			for den := int(e.Denomination) - 1; den >= 0; den-- {
				d1 := (u.owner + 1 + r.Intn(2)) % 3
				d2 := 3 - u.owner - d1
				outs = types.TxOuts{{Denomination: uint8(den), Address: c.w.qis[d1].addr.Bytes(), Lock: big.NewInt(0)}}
				switch r.Pick(50, 25, 12, 13) {
				case 1:
					outs = append(outs, types.TxOut{Denomination: uint8(den), Address: c.w.qis[d2].addr.Bytes(), Lock: big.NewInt(0)})
				case 2: // an output to a Qi address of zone (1,0) (emits an ETX; (0,1) is "inactive" and trips the pool, see design/C07.md)
					outs = append(outs, types.TxOut{Denomination: uint8(den), Address: c.w.farQi[1].addr.Bytes(), Lock: big.NewInt(0)})
				case 3: // an output to an own-zone Quai address (Qi -> Quai conversion, emits an ETX)
					if den > 9 {
						outs = append(outs, types.TxOut{Denomination: uint8(den), Address: c.w.eoas[r.Intn(len(c.w.eoas))].addr.Bytes(), Lock: big.NewInt(0)})
					}
				}
				total := new(big.Int)
				for _, o := range outs {
					total.Add(total, types.Denominations[o.Denomination])
				}
				fee := new(big.Int).Sub(types.Denominations[e.Denomination], total)
				if fee.Sign() <= 0 {
					continue
				}
				tx = c.w.signQi(c.w.qis[u.owner], []types.OutPoint{u.op}, outs)
				gas := types.CalculateBlockQiTxGas(tx, scaling, loc)
				feeQuai := misc.QiToQuai(head, head.ExchangeRate(), head.Difficulty(), fee)
				if new(big.Int).Div(feeQuai, new(big.Int).SetUint64(gas)).Cmp(new(big.Int).Mul(base, big.NewInt(2))) >= 0 || den == 0 {
					break
				}
				tx = nil
			}
			if tx == nil {
				continue
			}
			txs = append(txs, tx)
			c.rep.Count("pool/qi")
		}
	}
	// conflict clusters: several pool transactions spending the same outpoint(s)
	if r.Chance(35) {
		cl := c.qiCluster(r, head, base, randomPattern(r), r.Chance(25))
		// interleave with the independent traffic (the worker orders by price anyway; the order of
		// arrival decides ties and which entry point each member takes)
		for _, tx := range cl {
			k := r.Intn(len(txs) + 1)
			txs = append(txs[:k], append([]*types.Transaction{tx}, txs[k:]...)...)
		}
	}
	// transactions that fail in ApplyTransaction after the message was executed (budget.go)
	if !c.noGeneric && r.Chance(25) {
		txs = append(txs, c.burst(r, head, base, r.Intn(nBurstKinds), r.Intn(2))...)
	}
	// replacement attempts of Quai transactions: same sender and nonce, other content, with a price
	// bump the pool accepts (>= PriceBump), an insufficient one, or none
	for _, sp := range repl {
		if !r.Chance(30) {
			continue
		}
		to := c.w.eoas[r.Intn(len(c.w.eoas))].addr
		sp.to, sp.value, sp.gas, sp.data = &to, big.NewInt(int64(1+r.Intn(1000))), 21000, nil
		switch r.Pick(50, 25, 25) {
		case 0:
			sp.price = new(big.Int).Add(new(big.Int).Div(new(big.Int).Mul(sp.price, big.NewInt(110)), big.NewInt(100)), big.NewInt(1))
			c.rep.Count("pool/replace-bumped")
		case 1:
			sp.price = new(big.Int).Add(sp.price, big.NewInt(1))
			c.rep.Count("pool/replace-underpriced")
		default:
			c.rep.Count("pool/replace-same-price")
		}
		txs = append(txs, c.w.signQuai(sp))
	}
	if c.poolScript != nil {
		txs = append(txs, c.poolScript(c, c.height, r, head, base)...)
	}
	for _, tx := range txs {
		var err error
		if r.Chance(50) {
			err = z.Pool.AddLocal(tx)
		} else {
			err = z.Pool.AddRemotesSync([]*types.Transaction{tx})[0]
		}
		if err != nil {
			c.rep.Count("pool-refused")
			if verboseRefusals {
				fmt.Println("   pool refused:", err)
			}
		}
	}
}

// inbound builds the inbound ETX list delivered to the children of the block just appended.
func (c *chain) inbound(r *hlib.Rng, b *types.WorkObject) types.Transactions {
	in := append(types.Transactions{}, c.out...)
	c.out = nil
	if !c.funded {
		for i, a := range c.w.eoas {
			to := a.addr
			in = append(in, etx(&types.ExternalTx{To: &to, Gas: 200000, Value: bigPow10(25), EtxType: types.DefaultType,
				OriginatingTxHash: originHash(r, common.Location{1, 0}), ETXIndex: uint16(i), Sender: c.w.farQuai[2].addr}))
		}
		// a few Qi outputs owned by the harness keys
		for i := 0; i < 6; i++ {
			oh := originHash(r, common.Location{0, 1})
			to := c.w.qis[i%3].addr
			in = append(in, etx(&types.ExternalTx{To: &to, Gas: 21000, Value: big.NewInt(int64(9 + i%5)), EtxType: types.DefaultType,
				OriginatingTxHash: oh, ETXIndex: uint16(i), Sender: c.w.farQi[0].addr}))
			c.utxos = append(c.utxos, utxoRef{types.OutPoint{TxHash: oh, Index: uint16(i)}, i % 3, c.height})
		}
		c.funded = true
		c.rep.Count("inbound/funding")
		return in
	}
	k := r.Pick(30, 25, 20, 15, 10)
	for i := 0; i < k; i++ {
		oh := originHash(r, common.Location{0, 1})
		idx := uint16(r.Intn(4))
		switch r.Pick(18, 10, 14, 10, 8, 14, 8, 6, 6, 6) {
		case 0: // foreign transfer to an EOA
			to := c.w.eoas[r.Intn(len(c.w.eoas))].addr
			in = append(in, etx(&types.ExternalTx{To: &to, Gas: uint64(21000 + r.Intn(100000)), Value: big.NewInt(int64(r.Intn(1 << 30))), EtxType: types.DefaultType,
				OriginatingTxHash: oh, ETXIndex: idx, Sender: c.w.farQuai[r.Intn(4)].addr}))
			c.rep.Count("inbound/transfer")
		case 1: // foreign call into a contract
			if len(c.ctrs) == 0 {
				continue
			}
			to := c.ctrs[r.Intn(len(c.ctrs))].addr
			in = append(in, etx(&types.ExternalTx{To: &to, Gas: uint64(30000 + r.Intn(200000)), Value: big.NewInt(int64(r.Intn(1000))), EtxType: types.DefaultType,
				OriginatingTxHash: oh, ETXIndex: idx, Sender: c.w.farQuai[r.Intn(4)].addr, Data: r.Bytes(r.Intn(8))}))
			c.rep.Count("inbound/call")
		case 2: // Qi output from another zone
			own := r.Intn(3)
			to := c.w.qis[own].addr
			den := int64(r.Intn(15))
			in = append(in, etx(&types.ExternalTx{To: &to, Gas: 21000, Value: big.NewInt(den), EtxType: types.DefaultType,
				OriginatingTxHash: oh, ETXIndex: idx, Sender: c.w.farQi[r.Intn(2)].addr}))
			c.utxos = append(c.utxos, utxoRef{types.OutPoint{TxHash: oh, Index: idx}, own, c.height})
			c.rep.Count("inbound/qi-utxo")
		case 3: // Quai -> Qi conversion coming back from prime
			to := c.w.qis[r.Intn(3)].addr
			oh = originHash(r, loc)
			gas := uint64(21000 + r.Intn(400000))
			if r.Chance(15) {
				gas = uint64(r.Intn(21000))
			}
			in = append(in, etx(&types.ExternalTx{To: &to, Gas: gas, Value: big.NewInt(int64(r.Intn(3000000))), EtxType: types.ConversionType,
				OriginatingTxHash: oh, ETXIndex: idx, Sender: c.w.eoas[r.Intn(len(c.w.eoas))].addr}))
			c.rep.Count("inbound/quai-to-qi")
		case 4: // Qi -> Quai conversion coming back from prime
			to := c.w.eoas[r.Intn(len(c.w.eoas))].addr
			oh = originHash(r, loc)
			in = append(in, etx(&types.ExternalTx{To: &to, Gas: uint64(21000 + r.Intn(100000)), Value: new(big.Int).Mul(bigPow10(15), big.NewInt(int64(1+r.Intn(5000)))), EtxType: types.ConversionType,
				OriginatingTxHash: oh, ETXIndex: idx, Sender: c.w.qis[r.Intn(3)].addr, Data: []byte{byte(r.Intn(4))}}))
			c.rep.Count("inbound/qi-to-quai")
		case 5: // coinbase with a plain layout (Quai or Qi beneficiary)
			var to common.Address
			if r.Bool() {
				to = c.w.eoas[r.Intn(len(c.w.eoas))].addr
			} else {
				to = c.w.qis[r.Intn(3)].addr
			}
			oh = originHash(r, loc)
			data := append([]byte{byte(r.Intn(4))}, r.Bytes(32)...)
			in = append(in, etx(&types.ExternalTx{To: &to, Gas: 21000, Value: big.NewInt(int64(1 + r.Intn(5000000))), EtxType: types.CoinbaseType,
				OriginatingTxHash: oh, ETXIndex: idx, Sender: to, Data: data}))
			c.rep.Count("inbound/coinbase-plain")
		case 6: // coinbase with a lockup contract (no code at that address: the reward is lost on both sides)
			var to common.Address
			if r.Bool() {
				to = c.w.eoas[r.Intn(len(c.w.eoas))].addr
			} else {
				to = c.w.qis[r.Intn(3)].addr
			}
			oh = originHash(r, loc)
			ct := c.w.lockupCt
			if len(c.ctrs) > 0 && r.Chance(70) { // a deployed contract: the lockup is recorded (vm.AddNewLock) on both sides
				ct = c.ctrs[r.Intn(len(c.ctrs))].addr
				c.rep.Count("inbound/coinbase-contract-with-code")
			}
			data := append([]byte{byte(r.Intn(4))}, ct.Bytes()...)
			if r.Bool() {
				data = append(data, c.w.eoas[0].addr.Bytes()...)
			}
			data = append(data, r.Bytes(32)...)
			in = append(in, etx(&types.ExternalTx{To: &to, Gas: 21000, Value: big.NewInt(int64(1 + r.Intn(5000000))), EtxType: types.CoinbaseType,
				OriginatingTxHash: oh, ETXIndex: idx, Sender: to, Data: data}))
			c.rep.Count("inbound/coinbase-contract")
		case 7: // coinbase with an odd data length
			var to common.Address
			if r.Bool() {
				to = c.w.eoas[r.Intn(len(c.w.eoas))].addr
			} else {
				to = c.w.qis[r.Intn(3)].addr
			}
			oh = originHash(r, loc)
			data := append([]byte{byte(r.Intn(4))}, r.Bytes(32+1+r.Intn(12))...)
			in = append(in, etx(&types.ExternalTx{To: &to, Gas: 21000, Value: big.NewInt(int64(1 + r.Intn(5000000))), EtxType: types.CoinbaseType,
				OriginatingTxHash: oh, ETXIndex: idx, Sender: to, Data: data}))
			c.rep.Count("inbound/coinbase-oddlen")
		case 8: // transfer with exactly the maximal per-ETX gas limit (block gas limit / 5)
			to := c.w.eoas[r.Intn(len(c.w.eoas))].addr
			gas := b.GasLimit() / 5
			if overGas && r.Bool() { // only with C07_OVERGAS set (after the proposed fix): above the per-ETX maximum
				gas += 1 + uint64(r.Intn(100000))
			}
			in = append(in, etx(&types.ExternalTx{To: &to, Gas: gas, Value: big.NewInt(7), EtxType: types.DefaultType,
				OriginatingTxHash: oh, ETXIndex: idx, Sender: c.w.farQuai[0].addr}))
			c.rep.Count("inbound/transfer-maxgas")
		default: // conversion revert
			oh = originHash(r, loc)
			if r.Bool() { // Quai -> Qi reverted: refund the Quai sender
				to := c.w.qis[r.Intn(3)].addr
				in = append(in, etx(&types.ExternalTx{To: &to, Gas: uint64(21000 + r.Intn(100000)), Value: big.NewInt(int64(r.Intn(1 << 40))), EtxType: types.ConversionRevertType,
					OriginatingTxHash: oh, ETXIndex: idx, Sender: c.w.eoas[r.Intn(len(c.w.eoas))].addr}))
				c.rep.Count("inbound/revert-to-quai-sender")
			} else { // Qi -> Quai reverted: refund the Qi sender named in the data (slip ++ refund address)
				to := c.w.eoas[r.Intn(len(c.w.eoas))].addr
				qs := c.w.qis[r.Intn(3)].addr
				data := append([]byte{0, 10}, qs.Bytes()...)
				in = append(in, etx(&types.ExternalTx{To: &to, Gas: uint64(21000 + r.Intn(200000)), Value: big.NewInt(int64(r.Intn(3000000))), EtxType: types.ConversionRevertType,
					OriginatingTxHash: oh, ETXIndex: idx, Sender: qs, Data: data}))
				c.rep.Count("inbound/revert-to-qi-sender")
			}
		}
	}
	return in
}

// afterAppend harvests what the appended block produced (contract addresses, own-zone ETXs).
func (c *chain) afterAppend(b *types.WorkObject) {
	z := c.n.z
	recs := z.Processor().GetReceiptsByHash(b.Hash())
	for i, tx := range b.Transactions() {
		if kd, ok := c.creates[tx.Hash()]; ok {
			delete(c.creates, tx.Hash())
			if verboseRefusals && i < len(recs) {
				fmt.Println("   create receipt: kind", kd, "status", recs[i].Status, "gas", recs[i].GasUsed, "addr", recs[i].ContractAddress.Hex())
			}
			if i < len(recs) && recs[i].Status == types.ReceiptStatusSuccessful && len(c.ctrs) < 12 {
				c.ctrs = append(c.ctrs, contractInfo{recs[i].ContractAddress, kd})
				if c.cfg.LockupCt && len(c.ctrs) == 1 { // from now on the miner names a contract with code as lockup contract
					a := recs[i].ContractAddress
					z.VerifC07SetLockup(c.cfg.Lockup, &a)
				}
			}
		}
	}
	// outputs of included Qi transactions owned by the harness keys are spendable from the next block on
	for _, tx := range b.Transactions() {
		if tx.Type() != types.QiTxType {
			continue
		}
		for oi, o := range tx.TxOut() {
			for k := 0; k < 3 && len(c.utxos) < 48; k++ {
				if bytes.Equal(o.Address, c.w.qis[k].addr.Bytes()) {
					c.utxos = append(c.utxos, utxoRef{types.OutPoint{TxHash: tx.Hash(), Index: uint16(oi)}, k, c.height})
				}
			}
		}
	}
	for _, e := range b.OutboundEtxs() {
		switch {
		case types.IsCoinBaseTx(e):
			c.rep.Count("outbound/coinbase")
		case types.IsConversionTx(e):
			c.rep.Count("outbound/conversion")
		default:
			c.rep.Count("outbound/cross-zone")
		}
		if e.To() != nil && e.To().Location().Equal(loc) {
			c.out = append(c.out, e)
		}
	}
}

// ---------- corpus of targeted chains (run first; chain index >= 1000) ----------

type corpusCase struct {
	name      string
	blocks    int
	script    func(c *chain, i int, b *types.WorkObject) types.Transactions
	pool      func(c *chain, i int, r *hlib.Rng, head *types.WorkObject, base *big.Int) []*types.Transaction
	noMut     bool // liveness direction only (no mutant battery on this chain)
	noGeneric bool // no generic pool traffic: only what pool returns
	// start-up regime: params.TimeToStartTx is set to this value while the chain runs (block gas limit 0, no
	// pool transactions, inbound ETX COUNT rule instead of the gas rule); the chain gets no funding and no
	// generated inbound ETXs, only what script returns, and every block gets the mutant battery
	startTx uint64
	// gas-limit ramp: params.BlocksPerMonth is set to this value while the chain runs (CalcGasLimit grows the
	// block gas limit linearly over the first 2*BlocksPerMonth blocks: it differs from the parent's on every block)
	blocksPerMonth uint64
}

// plainInbound returns n default-type inbound ETXs (21000 gas each, a transfer to an account of the zone).
func plainInbound(c *chain, r *hlib.Rng, n int) types.Transactions {
	var out types.Transactions
	for k := 0; k < n; k++ {
		to := c.w.eoas[k%len(c.w.eoas)].addr
		out = append(out, etx(&types.ExternalTx{To: &to, Gas: 21000, Value: big.NewInt(int64(100 + k)), EtxType: types.DefaultType,
			OriginatingTxHash: originHash(r, common.Location{1, 0}), ETXIndex: uint16(k % 8), Sender: c.w.farQuai[2+k%2].addr}))
	}
	return out
}

var corpus = []corpusCase{
	// An inbound ETX whose gas limit exceeds block gas limit / 5 (any sender in another zone can emit one:
	// a cross-zone transfer with a large gas limit, or opETX with a zero fee). TransitionDb returns an
	// ExecutionResult without QuaiFees for it; worker.commitTransaction and StateProcessor.Process add the
	// nil fee to their running total.
	{name: "etx-gas-above-limit", blocks: 6, script: func(c *chain, i int, b *types.WorkObject) types.Transactions {
		if i != 2 {
			return nil
		}
		to := c.w.eoas[0].addr
		var oh common.Hash
		oh[0], oh[2], oh[31] = 0x01, 0x01, 0x77
		return types.Transactions{etx(&types.ExternalTx{To: &to, Gas: b.GasLimit()/5 + 1, Value: big.NewInt(7), EtxType: types.DefaultType,
			OriginatingTxHash: oh, ETXIndex: 0, Sender: c.w.farQuai[0].addr})}
	}},
	// An inbound ETX whose gas limit (>= 21000, as opETX / CreateETX require at the origin) does not cover
	// the intrinsic gas of its own data at the destination: ApplyMessage returns ErrIntrinsicGas.
	{name: "etx-gas-below-intrinsic", blocks: 8, script: func(c *chain, i int, b *types.WorkObject) types.Transactions {
		if i != 2 {
			return nil
		}
		var out types.Transactions
		for k := 0; k < 3; k++ {
			to := c.w.eoas[k].addr
			var oh common.Hash
			oh[0], oh[2], oh[31] = 0x01, 0x01, byte(0x80+k)
			e := &types.ExternalTx{To: &to, Gas: 100000, Value: big.NewInt(int64(1000 + k)), EtxType: types.DefaultType, OriginatingTxHash: oh, ETXIndex: uint16(k), Sender: c.w.farQuai[0].addr}
			if k == 1 {
				e.Gas = 21000
				e.Data = make([]byte, 64)
				for j := range e.Data {
					e.Data[j] = byte(j + 1)
				}
			}
			out = append(out, etx(e))
		}
		return out
	}},
	// Conflict clusters in the pool (see conflicts.go): 2, 3, 4, 5 transactions spending one outpoint, ties
	// in price, partial overlaps in both input orders, two interleaved double-spend races; one cluster per
	// block, next to the ordinary generated traffic. Whatever the worker's arbitration does with the
	// rejected members, the block must be accepted by the node's own validation.
	{name: "qi-conflict-clusters", blocks: 4 + len(corpusPatterns) + 1, noMut: true,
		script: func(c *chain, i int, b *types.WorkObject) types.Transactions {
			if i != 1 && i != 6 {
				return nil
			}
			var out types.Transactions
			for k := 0; k < 14; k++ {
				var oh common.Hash
				oh[0], oh[2], oh[30], oh[31] = 0x01, 0x01, byte(i), byte(0xa0+k)
				own := 0
				if k%4 == 3 {
					own = 1
				}
				to := c.w.qis[own].addr
				out = append(out, etx(&types.ExternalTx{To: &to, Gas: 21000, Value: big.NewInt(int64(10 + k%4)), EtxType: types.DefaultType,
					OriginatingTxHash: oh, ETXIndex: uint16(k), Sender: c.w.farQi[0].addr}))
				c.utxos = append(c.utxos, utxoRef{types.OutPoint{TxHash: oh, Index: uint16(k)}, own, c.height})
			}
			return out
		},
		pool: func(c *chain, i int, r *hlib.Rng, head *types.WorkObject, base *big.Int) []*types.Transaction {
			if i < 4 || i-4 >= len(corpusPatterns) {
				return nil
			}
			k := corpusPatterns[i-4]
			return c.qiCluster(r, head, base, k.p, k.equal)
		}},
	// Transactions that pass every pool check and fail in ApplyTransaction AFTER execution (budget.go): the
	// per-block cross-region / cross-prime ETX gas budgets hit exactly, exceeded by one, exceeded alone, by one
	// sender's consecutive nonces, both budgets interleaved, many small emitters, a contract that writes storage
	// and then emits two ETXs, the value no longer affordable after the gas was bought; the block gas pool running
	// dry mid-block for comparison. One burst per block and nothing else in the pool, so that the order in which
	// the worker meets the members is the order of the burst. The skipped members stay in the pool and are met
	// again by the following blocks. Whatever the worker does with a skipped transaction, the block must pass the
	// node's own validation.
	{name: "apply-fails-after-execution", blocks: 4 + len(corpusBursts) + 2, noMut: true, noGeneric: true,
		script: func(c *chain, i int, b *types.WorkObject) types.Transactions { return nil },
		pool: func(c *chain, i int, r *hlib.Rng, head *types.WorkObject, base *big.Int) []*types.Transaction {
			if i == 2 || i == 3 { // deploy the emitter contract (twice: two instances)
				data := initCode(contractKinds[emitterKind])
				for s := range c.w.eoas { // the first sender whose creation address can be ground into the zone
					in, _ := c.w.eoas[s].addr.InternalAndQuaiAddress()
					n := c.n.z.Pool.Nonce(in)
					ca := crypto.CreateAddress(c.w.eoas[s].addr, n, data, loc)
					if _, err := ca.InternalAndQuaiAddress(); err != nil {
						if ca, _, err = vm.GrindContract(c.w.eoas[s].addr, n, 1<<40, 0, crypto.Keccak256Hash(data), new(big.Int).Add(head.Number(common.ZONE_CTX), big.NewInt(1)), loc); err != nil {
							continue
						}
					}
					spec := quaiSpec{from: s, nonce: c.takeNonce(s), price: new(big.Int).Mul(base, big.NewInt(3)), gas: 400000, value: big.NewInt(0), data: data, access: types.AccessList{{Address: ca}}}
					tx := c.w.signQuai(spec)
					c.creates[tx.Hash()] = emitterKind
					return []*types.Transaction{tx}
				}
				return nil
			}
			if i < 4 || i-4 >= len(corpusBursts) {
				return nil
			}
			k := corpusBursts[i-4]
			return c.burst(r, head, base, k.kind, k.x)
		}},
	// Start-up regime (block number <= TimeToStartTx): the block gas limit is 0, the only inbound ETXs are
	// coinbases (no gas), and the minimum-inclusion rule counts ETXs (MinEtxCount .. MaxEtxCount) instead of
	// their gas. 120 coinbase ETXs are delivered after block 0: the worker includes 51, 51 and 18 of them; the
	// mutant battery offers every block with only a prefix of them (fully re-rooted when Process lets the body
	// through).
	{name: "startup-etx-count-rule", blocks: 5, noGeneric: true, startTx: 1000,
		script: func(c *chain, i int, b *types.WorkObject) types.Transactions {
			if i != 0 {
				return nil
			}
			r := hlib.NewRng(77)
			var out types.Transactions
			for k := 0; k < 120; k++ {
				var to common.Address
				if k%3 == 0 {
					to = c.w.qis[k%2].addr
				} else {
					to = c.w.eoas[k%len(c.w.eoas)].addr
				}
				data := append([]byte{byte(k % 4)}, r.Bytes(32)...)
				out = append(out, etx(&types.ExternalTx{To: &to, Gas: 21000, Value: big.NewInt(int64(1000 + k)), EtxType: types.CoinbaseType,
					OriginatingTxHash: originHash(r, loc), ETXIndex: uint16(k % 4), Sender: to, Data: data}))
			}
			return out
		}},
	// Round 3. Heights where the block gas limit differs from the parent's, with inbound ETXs still queued: the
	// worker's inclusion quota (20 % of the gas limit of the block BEING BUILT) and the validator's range rule
	// must be derived from the same block. (1) the first transaction-enabled block: TimeToStartTx = 2, blocks 1
	// and 2 are in the start-up regime (gas limit 0, count rule), block 3 has gas limit MinGasLimit on a parent
	// with gas limit 0. 60 coinbase ETXs are delivered after block 1 (block 2 takes 51 of them), 130 plain ETXs
	// after block 2: block 3 must take the 9 coinbases and 115 plain ETXs (2,415,000 gas >= 2,400,000), block 4
	// drains the queue.
	{name: "tx-start-boundary", blocks: 6, noGeneric: true, startTx: 2,
		script: func(c *chain, i int, b *types.WorkObject) types.Transactions {
			r := hlib.NewRng(uint64(78 + i))
			switch i {
			case 0:
				var out types.Transactions
				for k := 0; k < 60; k++ {
					to := c.w.eoas[k%len(c.w.eoas)].addr
					if k%3 == 0 {
						to = c.w.qis[k%2].addr
					}
					data := append([]byte{byte(k % 4)}, r.Bytes(32)...)
					out = append(out, etx(&types.ExternalTx{To: &to, Gas: 21000, Value: big.NewInt(int64(1000 + k)), EtxType: types.CoinbaseType,
						OriginatingTxHash: originHash(r, loc), ETXIndex: uint16(k % 4), Sender: to, Data: data}))
				}
				return out
			case 1:
				return plainInbound(c, r, 130)
			}
			return nil
		}},
	// (2) the gas-limit ramp: BlocksPerMonth = 4, so blocks 5..9 have gas limits 15.0, 18.75, 22.5, 26.25 and
	// 30 million (MinGasLimit before), each different from its parent's. 420 plain ETXs are delivered after block
	// 4: block 5 must take 143 of them (parent-derived quota: 115), block 6 179 (143), block 7 the rest.
	{name: "gas-limit-ramp", blocks: 9, noGeneric: true, noMut: true, blocksPerMonth: 4,
		script: func(c *chain, i int, b *types.WorkObject) types.Transactions {
			if i != 3 {
				return nil
			}
			return plainInbound(c, hlib.NewRng(91), 420)
		}},
}

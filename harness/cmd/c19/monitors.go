package main

// Model-independent monitors: the clauses of property C19 evaluated directly on a
// snapshot of the real pool taken at a quiescent point.

import (
	"fmt"
	"math/big"
	"sort"

	"github.com/dominant-strategies/go-quai/common"
	"github.com/dominant-strategies/go-quai/core"
	"github.com/dominant-strategies/go-quai/core/types"
)

type violation struct {
	sig  string
	what string
	acct int
}

// checkSnapshot evaluates every state clause of the property. limitsAfterRun says
// whether the snapshot was taken right after a reorg run (size limits are only
// re-established by a run).
func (r *rig) checkSnapshot(s *Snap, limitsAfterRun bool) []violation {
	var out []violation
	curAcct := -1
	fail := func(sig, format string, a ...any) {
		out = append(out, violation{sig, fmt.Sprintf(format, a...), curAcct})
	}
	raw := s.raw
	cfg := r.pool.VerifC19Config()
	idx := map[common.InternalAddress]int{}
	for i, a := range r.w.internals()[:r.n] {
		idx[a] = i
	}
	type slot struct {
		a common.InternalAddress
		n uint64
	}
	inLists := map[common.Hash]string{}
	pendSlots := map[slot]bool{}
	pendingTotal, queueTotal := 0, 0
	maxPendingLen := 0
	// --- per-account lists
	for _, side := range []struct {
		name  string
		lists []core.VerifC19List
	}{{"pending", raw.Pending}, {"queue", raw.Queue}} {
		for _, l := range side.lists {
			if len(l.Txs) == 0 {
				fail("struct:empty-list:"+side.name, "%s holds an empty list for %x", side.name, l.Addr)
				continue
			}
			if l.Strict != (side.name == "pending") {
				fail("struct:strict-flag:"+side.name, "%s list of %x has strict=%v", side.name, l.Addr, l.Strict)
			}
			if l.Items != len(l.Txs) || len(l.IndexNonce) != len(l.Txs) {
				fail("struct:index-items:"+side.name, "%s list of %x: items=%d index=%d flattened=%d", side.name, l.Addr, l.Items, len(l.IndexNonce), len(l.Txs))
			}
			for i, t := range l.Txs {
				if i < len(l.IndexNonce) && l.IndexNonce[i] != t.Nonce() {
					fail("struct:index-items:"+side.name, "%s list of %x: heap index %v does not match nonces", side.name, l.Addr, l.IndexNonce)
					break
				}
			}
			for i, t := range l.Txs {
				if i > 0 && l.Txs[i-1].Nonce() >= t.Nonce() {
					fail("struct:unsorted:"+side.name, "%s list of %x not strictly nonce-sorted", side.name, l.Addr)
				}
				from, err := types.Sender(r.w.signer, t)
				if err != nil {
					fail("struct:sender:"+side.name, "%s list of %x holds a transaction without a valid sender", side.name, l.Addr)
				} else if in, err := from.InternalAndQuaiAddress(); err != nil || in != l.Addr {
					fail("struct:sender:"+side.name, "%s list of %x holds a transaction of another sender", side.name, l.Addr)
				}
				if prev, dup := inLists[t.Hash()]; dup {
					fail("disjoint:same-tx", "transaction %x is in %s and in %s", t.Hash(), prev, side.name)
				}
				inLists[t.Hash()] = side.name
				sl := slot{l.Addr, t.Nonce()}
				if side.name == "pending" {
					pendSlots[sl] = true
				} else if pendSlots[sl] {
					fail("disjoint:same-nonce", "account %x nonce %d is both pending and queued", l.Addr, t.Nonce())
				}
			}
			if side.name == "pending" {
				pendingTotal += len(l.Txs)
				if len(l.Txs) > maxPendingLen {
					maxPendingLen = len(l.Txs)
				}
			} else {
				queueTotal += len(l.Txs)
			}
		}
	}
	// --- pending: contiguous from the state nonce, each transaction payable, pendingNonces
	state := func(a common.InternalAddress) (uint64, *big.Int, uint64, bool) {
		i, ok := idx[a]
		if !ok {
			return 0, nil, 0, false
		}
		return raw.StateNonce[i], raw.StateBalance[i], raw.PendingNonce[i], true
	}
	hasPending := map[common.InternalAddress]bool{}
	for _, l := range raw.Pending {
		sn, bal, pn, ok := state(l.Addr)
		if !ok || len(l.Txs) == 0 {
			continue
		}
		hasPending[l.Addr] = true
		curAcct = idx[l.Addr]
		for i, t := range l.Txs {
			if t.Nonce() != sn+uint64(i) {
				if i == 0 {
					fail("pending:not-from-state-nonce", "account %d: first pending nonce %d, state nonce %d", idx[l.Addr], t.Nonce(), sn)
				} else {
					fail("pending:gap", "account %d: pending nonces %v are not contiguous from state nonce %d", idx[l.Addr], nonces(l.Txs), sn)
				}
				break
			}
		}
		for _, t := range l.Txs {
			if t.Cost().Cmp(bal) > 0 {
				fail("pending:unaffordable", "account %d: pending nonce %d costs %s, balance %s", idx[l.Addr], t.Nonce(), t.Cost(), bal)
				break
			}
			if t.Gas() > raw.MaxGas {
				fail("pending:gas-above-block-limit", "account %d: pending nonce %d gas %d, block limit %d", idx[l.Addr], t.Nonce(), t.Gas(), raw.MaxGas)
				break
			}
		}
		if last := l.Txs[len(l.Txs)-1].Nonce(); pn != last+1 {
			fail("pnonce:not-last-plus-one", "account %d: pendingNonces=%d, last pending nonce %d", idx[l.Addr], pn, last)
		}
	}
	curAcct = -1
	for a, i := range idx {
		if !hasPending[a] && raw.PendingNonce[i] != raw.StateNonce[i] {
			dir := "above"
			if raw.PendingNonce[i] < raw.StateNonce[i] {
				dir = "below"
			}
			fail("pnonce:"+dir+"-state-nonce-when-empty", "account %d has no pending transaction, pendingNonces=%d, state nonce %d", i, raw.PendingNonce[i], raw.StateNonce[i])
		}
	}
	// --- queue: every queued transaction payable too (validateTx on entry, promoteExecutables'
	// Filter on every reset; the chain state only changes at a reset)
	for _, l := range raw.Queue {
		_, bal, _, ok := state(l.Addr)
		if !ok {
			continue
		}
		curAcct = idx[l.Addr]
		for _, t := range l.Txs {
			if t.Cost().Cmp(bal) > 0 {
				fail("queue:unaffordable", "account %d: queued nonce %d costs %s, balance %s", idx[l.Addr], t.Nonce(), t.Cost(), bal)
				break
			}
			if t.Gas() > raw.MaxGas {
				fail("queue:gas-above-block-limit", "account %d: queued nonce %d gas %d, block limit %d", idx[l.Addr], t.Nonce(), t.Gas(), raw.MaxGas)
				break
			}
		}
	}
	curAcct = -1
	// --- txList cache: costcap / gascap are upper bounds of the list (what makes the short
	// circuit of txList.Filter sound)
	for _, c := range s.caps {
		side := "queue"
		if c.Pending {
			side = "pending"
		}
		for _, t := range c.Txs {
			if t.Cost().Cmp(c.CostCap) > 0 {
				fail("cache:costcap-below-list-cost:"+side, "%s list of %x: costcap %s, nonce %d costs %s", side, c.Addr, c.CostCap, t.Nonce(), t.Cost())
				break
			}
		}
		for _, t := range c.Txs {
			if t.Gas() > c.GasCap {
				fail("cache:gascap-below-list-gas:"+side, "%s list of %x: gascap %d, nonce %d uses gas %d", side, c.Addr, c.GasCap, t.Nonce(), t.Gas())
				break
			}
		}
	}
	// --- all == union of the lists; slots
	allSet := map[common.Hash]bool{}
	for _, part := range [][]*types.Transaction{raw.AllLocals, raw.AllRemotes} {
		for _, t := range part {
			if allSet[t.Hash()] {
				fail("all:duplicate", "transaction %x is in all.locals and all.remotes", t.Hash())
			}
			allSet[t.Hash()] = true
			if _, ok := inLists[t.Hash()]; !ok {
				fail("all:not-in-lists", "transaction %x (nonce %d) is in the hash index but in neither pending nor queue", t.Hash(), t.Nonce())
			}
		}
	}
	for h, where := range inLists {
		if !allSet[h] {
			fail("all:missing", "transaction %x is %s but not in the hash index", h, where)
		}
	}
	// the slot counter of the hash index = sum of the slots (32 KiB each) of the indexed transactions
	wantSlots := 0
	countSlots := func(txs []*types.Transaction) {
		for _, t := range txs {
			wantSlots += int((t.Size() + 32*1024 - 1) / (32 * 1024))
		}
	}
	countSlots(raw.AllLocals)
	countSlots(raw.AllRemotes)
	if raw.AllSlots != wantSlots {
		fail("all:slots", "all.slots=%d but the %d indexed transactions occupy %d slots", raw.AllSlots, len(allSet), wantSlots)
	}
	// --- price index covers the remote transactions
	heap := map[common.Hash]bool{}
	for _, t := range raw.PricedUrgent {
		heap[t.Hash()] = true
	}
	for _, t := range raw.PricedFloat {
		heap[t.Hash()] = true
	}
	for _, t := range raw.AllRemotes {
		if !heap[t.Hash()] {
			fail("priced:missing-remote", "remote transaction %x (nonce %d) is not in the price heaps", t.Hash(), t.Nonce())
		}
	}
	// --- size limits
	if uint64(len(allSet)) > cfg.GlobalSlots+cfg.GlobalQueue {
		fail("limit:all", "%d transactions indexed, GlobalSlots+GlobalQueue=%d", len(allSet), cfg.GlobalSlots+cfg.GlobalQueue)
	}
	// the configured capacity is counted in slots, not in transactions
	if uint64(raw.AllSlots) > cfg.GlobalSlots+cfg.GlobalQueue {
		fail("limit:all-slots", "%d slots occupied by %d transactions, GlobalSlots+GlobalQueue=%d", raw.AllSlots, len(allSet), cfg.GlobalSlots+cfg.GlobalQueue)
	}
	if limitsAfterRun {
		if uint64(queueTotal) > cfg.GlobalQueue {
			fail("limit:global-queue", "%d queued, GlobalQueue=%d", queueTotal, cfg.GlobalQueue)
		}
		if uint64(pendingTotal) > cfg.GlobalSlots && uint64(maxPendingLen) > cfg.AccountSlots {
			fail("limit:global-slots", "%d pending (largest account %d), GlobalSlots=%d AccountSlots=%d", pendingTotal, maxPendingLen, cfg.GlobalSlots, cfg.AccountSlots)
		}
	}
	if raw.QiPoolLen > int(cfg.QiPoolSize) {
		fail("limit:qi-pool", "%d Qi transactions, QiPoolSize=%d", raw.QiPoolLen, cfg.QiPoolSize)
	}
	sort.Slice(out, func(i, j int) bool { return out[i].sig < out[j].sig })
	return out
}

func nonces(txs []*types.Transaction) []uint64 {
	out := make([]uint64, len(txs))
	for i, t := range txs {
		out[i] = t.Nonce()
	}
	return out
}

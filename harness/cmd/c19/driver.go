package main

// Driving one real core.TxPool over the mock chain: creation, the quiescence barrier,
// operations, and the projection of a snapshot onto the transaction universe.

import (
	"errors"
	"fmt"
	"math/big"
	"os"
	"runtime"
	"sort"
	"strings"
	"time"

	"github.com/dominant-strategies/go-quai/common"
	"github.com/dominant-strategies/go-quai/core"
	"github.com/dominant-strategies/go-quai/core/rawdb"
	"github.com/dominant-strategies/go-quai/core/types"
	"github.com/dominant-strategies/go-quai/log"
)

// PoolCfg is the part of core.TxPoolConfig the histories vary.
type PoolCfg struct {
	PriceLimit   uint64 `json:"price_limit"`
	PriceBump    uint64 `json:"bump"`
	AccountSlots uint64 `json:"aslots"`
	GlobalSlots  uint64 `json:"gslots"`
	AccountQueue uint64 `json:"aqueue"`
	GlobalQueue  uint64 `json:"gqueue"`
	LifetimeMs   uint64 `json:"lifetime_ms,omitempty"` // 0 = one hour (never in a test)
}

const reorgFrequency = 250 * time.Microsecond

type rig struct {
	w      *world
	chain  *mockChain
	pool   *core.TxPool
	cfg    PoolCfg
	logger *log.Logger
	n      int // number of accounts in use
}

var errStall = errors.New("stall")

func newRig(w *world, logger *log.Logger, cfg PoolCfg, genesis *ChainState) *rig {
	db := rawdb.NewMemoryDatabase(logger)
	ch := newMockChain(w, db, logger, genesis)
	life := time.Hour
	if cfg.LifetimeMs > 0 {
		life = time.Duration(cfg.LifetimeMs) * time.Millisecond
	}
	pc := core.TxPoolConfig{
		NoLocals: false, Journal: "", Rejournal: time.Hour,
		PriceLimit: cfg.PriceLimit, PriceBump: cfg.PriceBump,
		AccountSlots: cfg.AccountSlots, GlobalSlots: cfg.GlobalSlots, AccountQueue: cfg.AccountQueue, GlobalQueue: cfg.GlobalQueue,
		MaxSenders: 4096, MaxFeesCached: 1024, SendersChBuffer: 1024, QiPoolSize: 64, QiTxLifetime: time.Hour,
		Lifetime: life, ReorgFrequency: reorgFrequency,
	}
	p := core.NewTxPool(pc, w.cfg, ch, logger, db)
	return &rig{w: w, chain: ch, pool: p, cfg: cfg, logger: logger, n: len(genesis.Accts)}
}

func (r *rig) stop() {
	done := make(chan struct{})
	go func() { r.pool.Stop(); close(done) }()
	select {
	case <-done:
	case <-time.After(3 * time.Second):
	}
}

// barrier waits for a quiescent point: every request issued so far has been consumed
// by loop/scheduleReorgLoop, the pool has been reset to the last announced head, and a
// reorg run that was launched after all of that has completed.
//
// Observation points (none changes the pool): the lengths of the request channels
// (hook), the root of the last StateAt call (every reset reads the new head's state
// through the chain interface) and the number of completed reorg runs (every run asks
// the chain for GetMaxTxInWorkShare once, after releasing the pool lock).
func (r *rig) barrier(timeout time.Duration) error {
	deadline := time.Now().Add(timeout)
	spin := func(cond func() bool) error {
		for i := 0; !cond(); i++ {
			if time.Now().After(deadline) {
				return errStall
			}
			if i < 50 {
				runtime.Gosched()
			} else {
				time.Sleep(50 * time.Microsecond)
			}
		}
		return nil
	}
	if err := spin(func() bool { return r.pool.VerifC19Backlog() == 0 }); err != nil {
		return err
	}
	if posted := r.chain.lastPosted(); posted != nil {
		want := posted.EVMRoot()
		if err := spin(func() bool { return r.chain.lastRoot.Load().(common.Hash) == want && r.pool.VerifC19Backlog() == 0 }); err != nil {
			return err
		}
	}
	c0 := r.chain.runs.Load()
	return spin(func() bool { return r.chain.runs.Load() >= c0+2 })
}

// goroutineDump is attached to stall reports.
func goroutineDump() string {
	buf := make([]byte, 1<<20)
	n := runtime.Stack(buf, true)
	s := string(buf[:n])
	var keep []string
	for _, g := range strings.Split(s, "\n\n") {
		if strings.Contains(g, "core.(*TxPool)") {
			lines := strings.Split(g, "\n")
			if len(lines) > 12 {
				lines = lines[:12]
			}
			keep = append(keep, strings.Join(lines, "\n"))
		}
		if len(keep) >= 12 {
			break
		}
	}
	return strings.Join(keep, "\n\n")
}

// ---------- error classes (never strings) ----------

const (
	VOk = iota
	VKnown
	VGasLimit
	VLowBaseFee
	VUnderpriced
	VNonceLow
	VFunds
	VIntrinsic
	VReplaceUnderpriced
	VOverflow
	VInvalidSender
	VOther
)

var verdictCoq = []string{"VOk", "VKnown", "VGasLimit", "VLowBaseFee", "VUnderpriced", "VNonceLow", "VFunds", "VIntrinsic", "VReplaceUnderpriced", "VOverflow", "VInvalidSender", "VOther"}

func classify(err error) int {
	switch {
	case err == nil:
		return VOk
	case errors.Is(err, core.ErrAlreadyKnown):
		return VKnown
	case errors.Is(err, core.ErrUnderpriced):
		return VUnderpriced
	case errors.Is(err, core.ErrNonceTooLow):
		return VNonceLow
	case errors.Is(err, core.ErrInsufficientFunds):
		return VFunds
	case errors.Is(err, core.ErrIntrinsicGas):
		return VIntrinsic
	case errors.Is(err, core.ErrReplaceUnderpriced):
		return VReplaceUnderpriced
	case errors.Is(err, core.ErrTxPoolOverflow):
		return VOverflow
	case errors.Is(err, core.ErrInvalidSender):
		return VInvalidSender
	}
	// the two remaining validateTx rejections are built with fmt.Errorf; they are
	// told apart by the condition that produces them, evaluated by the caller
	return VOther
}

// ---------- projected snapshot ----------

type AcctView struct {
	Pending []int  `json:"p"` // universe indices, nonce order
	Queue   []int  `json:"q"`
	PNonce  uint64 `json:"pn"`
	SNonce  uint64 `json:"sn"`
	SBal    string `json:"bal"`
}

type Snap struct {
	Accts     []AcctView `json:"accts"`
	Locals    []int      `json:"all_locals"`  // universe indices, sorted
	Remotes   []int      `json:"all_remotes"` // universe indices, sorted
	LocalAcct []int      `json:"local_accts"`
	GasPrice  uint64     `json:"gas_price"`
	Heap      []int      `json:"-"`
	Stales    int        `json:"-"`
	raw       *core.VerifC19Snapshot
	caps      []core.VerifC19Caps
	foreign   int // transactions not in the universe
}

type universe struct {
	specs []TxSpec
	index map[TxSpec]int
}

func newUniverse() *universe { return &universe{index: map[TxSpec]int{}} }
func (u *universe) id(s TxSpec) int {
	if i, ok := u.index[s]; ok {
		return i
	}
	u.index[s] = len(u.specs)
	u.specs = append(u.specs, s)
	return len(u.specs) - 1
}

func (r *rig) snapshot(u *universe) *Snap {
	raw := r.pool.VerifC19Snapshot(r.w.internals()[:r.n])
	s := &Snap{raw: raw, Accts: make([]AcctView, r.n), caps: r.pool.VerifC19ListCaps()}
	idOf := func(t *types.Transaction) int {
		sp, ok := r.w.specOf(t)
		if !ok {
			s.foreign++
			return -1
		}
		return u.id(sp)
	}
	for i := 0; i < r.n; i++ {
		s.Accts[i] = AcctView{Pending: []int{}, Queue: []int{}, PNonce: raw.PendingNonce[i], SNonce: raw.StateNonce[i], SBal: raw.StateBalance[i].String()}
	}
	for _, l := range raw.Pending {
		ai, ok := r.w.byAddr[l.Addr]
		if !ok {
			s.foreign++
			continue
		}
		for _, t := range l.Txs {
			s.Accts[ai].Pending = append(s.Accts[ai].Pending, idOf(t))
		}
	}
	for _, l := range raw.Queue {
		ai, ok := r.w.byAddr[l.Addr]
		if !ok {
			s.foreign++
			continue
		}
		for _, t := range l.Txs {
			s.Accts[ai].Queue = append(s.Accts[ai].Queue, idOf(t))
		}
	}
	s.Locals, s.Remotes, s.LocalAcct, s.Heap = []int{}, []int{}, []int{}, []int{}
	for _, t := range raw.AllLocals {
		s.Locals = append(s.Locals, idOf(t))
	}
	for _, t := range raw.AllRemotes {
		s.Remotes = append(s.Remotes, idOf(t))
	}
	sort.Ints(s.Locals)
	sort.Ints(s.Remotes)
	for _, a := range raw.LocalAccts {
		if ai, ok := r.w.byAddr[a]; ok {
			s.LocalAcct = append(s.LocalAcct, ai)
		}
	}
	sort.Ints(s.LocalAcct)
	for _, t := range raw.PricedUrgent {
		s.Heap = append(s.Heap, idOf(t))
	}
	for _, t := range raw.PricedFloat {
		s.Heap = append(s.Heap, idOf(t))
	}
	s.Stales = raw.PricedStales
	if raw.GasPrice.IsUint64() {
		s.GasPrice = raw.GasPrice.Uint64()
	}
	return s
}

func fatal(format string, a ...any) {
	fmt.Fprintf(os.Stderr, format+"\n", a...)
	os.Exit(3)
}

var _ = big.NewInt

package main

// Histories: the case format (replayable JSON), execution of one operation on the real
// pool with barrier + snapshot + monitors, the online generator of sequential
// histories, and the printer of Coq cases.

import (
	"fmt"
	"math/big"
	"sort"
	"strings"
	"time"

	"github.com/dominant-strategies/go-quai/common"
	"github.com/dominant-strategies/go-quai/core"
	"github.com/dominant-strategies/go-quai/core/types"

	"verifharness/hlib"
)

type StateJS struct {
	Nonce   []uint64 `json:"nonce"`
	Bal     []uint64 `json:"bal"`
	BaseFee uint64   `json:"basefee"`
	MaxGas  uint64   `json:"maxgas"`
}

func (s StateJS) clone() StateJS {
	return StateJS{append([]uint64{}, s.Nonce...), append([]uint64{}, s.Bal...), s.BaseFee, s.MaxGas}
}
func (s StateJS) chain() *ChainState {
	c := &ChainState{BaseFee: s.BaseFee, MaxGas: s.MaxGas}
	for i := range s.Nonce {
		c.Accts = append(c.Accts, AcctState{s.Nonce[i], new(big.Int).SetUint64(s.Bal[i])})
	}
	return c
}
func (s StateJS) Coq() string {
	ns := make([]string, len(s.Nonce))
	bs := make([]string, len(s.Bal))
	for i := range s.Nonce {
		ns[i] = fmt.Sprintf("(%d,%d)", i, s.Nonce[i])
		bs[i] = fmt.Sprintf("(%d,%d)", i, s.Bal[i])
	}
	return fmt.Sprintf("(St [%s] [%s] %d %d)", strings.Join(ns, ";"), strings.Join(bs, ";"), s.BaseFee, s.MaxGas)
}

type BlockJS struct {
	Parent int     `json:"parent"` // index into Case.Blocks; genesis: -1
	State  StateJS `json:"state"`
	Txs    []int   `json:"txs"`
	// Skip: number of empty blocks (carrying the parent's state) between Parent and this block,
	// built but never announced: the head event jumps over them (number = parent's + Skip + 1)
	Skip int `json:"skip,omitempty"`
}

type OpJS struct {
	K     string `json:"k"` // add | gas | head | bad | sleep | evict
	G     int    `json:"g,omitempty"`
	Local bool   `json:"local,omitempty"`
	One   bool   `json:"one,omitempty"` // use the single-transaction entry point (AddLocal / AddRemote)
	Txs   []int  `json:"txs,omitempty"`
	Price uint64 `json:"price,omitempty"`
	Block int    `json:"block,omitempty"`
	Bad   string `json:"bad,omitempty"`
	Ms    int    `json:"ms,omitempty"`
	Acct  int    `json:"acct,omitempty"` // evict: the account whose list expires
	Side  string `json:"side,omitempty"` // evict: "q" (queue, by heartbeat) | "p" (pending, by first-seen time)
	// observed
	Verdicts []int `json:"verdicts,omitempty"`
	Snap     *Snap `json:"snap,omitempty"`
}

type Case struct {
	ID     int       `json:"id"`
	Kind   string    `json:"kind"` // seq | conc | limit | evict | lin | list
	Cfg    PoolCfg   `json:"cfg"`
	NAccts int       `json:"naccts"`
	Blocks []BlockJS `json:"blocks"`
	Txs    []TxSpec  `json:"txs"`
	Ops    []OpJS    `json:"ops"`
	Alts   [][]int   `json:"alts,omitempty"` // concurrent cases: candidate linearisations (op indices)
	Final  *Snap     `json:"final,omitempty"`
	Note   string    `json:"note,omitempty"`
	// sequential cases: the pool runs with a fast eviction ticker (Lifetime stays one hour), so
	// that "evict" operations -- which make ONE account's expiry test true -- take effect
	Evictable bool `json:"evictable,omitempty"`
	// list cases (list.go): one stand-alone txList
	LStrict bool    `json:"lstrict,omitempty"`
	LOps    []LOpJS `json:"lops,omitempty"`
}

// run is one case being executed against a real pool.
type run struct {
	c      *Case
	r      *rig
	u      *universe
	blocks []*types.WorkObject // parallel to c.Blocks
	head   int                 // index of the current head block
	headBeforeExec int         // head before the operation being executed
	last   *Snap
	rep    *hlib.Report
	failed map[string]bool
	stall  bool
	// accounts whose state nonce was lowered by a head event and whose pending list has
	// had a gap ever since (known finding: refused re-injection leaves a gap)
	tainted map[int]bool
}

func startRun(w *world, c *Case, rep *hlib.Report) *run {
	w.resetCache()
	u := newUniverse()
	for _, s := range c.Txs {
		u.id(s)
	}
	if c.Evictable {
		// the ticker period is read by TxPool.loop when it starts: keep it set until the first barrier has passed
		evictMu.Lock()
		old := core.VerifC19SetEvictionInterval(2 * time.Millisecond)
		defer func() { core.VerifC19SetEvictionInterval(old); evictMu.Unlock() }()
	}
	r := newRig(w, theLogger, c.Cfg, c.Blocks[0].State.chain())
	x := &run{c: c, r: r, u: u, rep: rep, failed: map[string]bool{}, tainted: map[int]bool{}}
	x.blocks = []*types.WorkObject{r.chain.head()}
	if err := r.barrier(barrierTimeout); err != nil {
		x.reportStall("create")
	}
	x.last = r.snapshot(u)
	x.monitor(x.last, true, "create")
	return x
}

func (x *run) finish() {
	x.c.Txs = x.u.specs
	x.r.stop()
}

func (x *run) fail(sig, what string) {
	failMu.Lock()
	defer failMu.Unlock()
	if x.failed[sig] {
		return
	}
	x.failed[sig] = true
	x.rep.Fail(sig, what, x.c)
}

func (x *run) reportStall(where string) {
	x.stall = true
	stalls.Add(1)
	lockable := x.r.pool.VerifC19TryLock(2 * time.Second)
	sig := "liveness:reorg-loop-stalled"
	if !lockable {
		sig = "liveness:pool-mutex-deadlock"
	}
	x.fail(sig, fmt.Sprintf("no quiescent point within %s after %s (pool.mu acquirable=%v, backlog=%d, runs=%d); goroutines:\n%s",
		barrierTimeout, where, lockable, x.r.pool.VerifC19Backlog(), x.r.chain.runs.Load(), goroutineDump()))
}

func (x *run) monitor(s *Snap, afterRun bool, where string) {
	gapped := map[int]bool{}
	for _, v := range x.r.checkSnapshot(s, afterRun) {
		sig := v.sig
		if sig == "pending:gap" {
			gapped[v.acct] = true
			if x.tainted[v.acct] || x.regressPossible(v.acct) {
				sig = "pending:gap:after-nonce-regress"
			}
		}
		if sig == "pnonce:below-state-nonce-when-empty" && x.c.Cfg.GlobalSlots+x.c.Cfg.GlobalQueue <= 16 {
			// only reachable through the pool-full branch of add during re-injection (outside the model)
			sig += ":small-limits"
		}
		x.fail(sig, fmt.Sprintf("after %s: %s", where, v.what))
	}
	for a := range x.tainted {
		if !gapped[a] {
			delete(x.tainted, a)
		}
	}
	if n := panicCount.Load(); n > x.rPanics() {
		x.fail("panic:recovered-in-pool-goroutine", fmt.Sprintf("after %s: the pool logged a recovered panic: %s", where, lastPanic.Load()))
		panicSeen.Store(n)
	}
}

func (x *run) rPanics() int64 { return panicSeen.Load() }

// regressPossible: in a concurrent history the announcement order is not known; an account
// can see its state nonce lowered if two announced heads disagree on it.
func (x *run) regressPossible(a int) bool {
	if x.c.Kind != "conc" && x.c.Kind != "lin" {
		return false
	}
	lo, hi := ^uint64(0), uint64(0)
	for _, b := range x.c.Blocks {
		if a < len(b.State.Nonce) {
			if n := b.State.Nonce[a]; n < lo {
				lo = n
			}
			if n := b.State.Nonce[a]; n > hi {
				hi = n
			}
		}
	}
	return hi > lo
}

// guard runs f and turns a panic of the code under test into a monitor failure.
func (x *run) guard(where string, f func()) {
	defer func() {
		if e := recover(); e != nil {
			x.fail("panic:"+where, fmt.Sprintf("%s panicked: %v", where, e))
		}
	}()
	f()
}

func (x *run) txs(idx []int) []*types.Transaction {
	out := make([]*types.Transaction, len(idx))
	for i, k := range idx {
		out[i] = x.r.w.tx(x.u.specs[k])
	}
	return out
}

var errPanicked = fmt.Errorf("call panicked")

// issue performs the call of op on the real pool (no barrier).
func (x *run) issue(op *OpJS) {
	p := x.r.pool
	switch op.K {
	case "add":
		txs := x.txs(op.Txs)
		var errs []error
		x.guard("add", func() {
			switch {
			case op.One && op.Local && len(txs) == 1:
				errs = []error{p.AddLocal(txs[0])}
			case op.One && len(txs) == 1:
				errs = []error{p.AddRemote(txs[0])}
			case op.Local:
				errs = p.AddLocals(txs)
			default:
				errs = p.AddRemotes(txs)
			}
		})
		op.Verdicts = make([]int, len(txs))
		for i := range txs {
			if i < len(errs) {
				op.Verdicts[i] = classify(errs[i])
			} else {
				op.Verdicts[i] = VOther
			}
		}
	case "gas":
		x.guard("SetGasPrice", func() { p.SetGasPrice(new(big.Int).SetUint64(op.Price)) })
	case "head":
		b := x.c.Blocks[op.Block]
		parent := x.blocks[b.Parent]
		for i := 0; i < b.Skip; i++ {
			parent = x.r.chain.makeBlock(parent, x.c.Blocks[b.Parent].State.chain(), nil)
		}
		wo := x.r.chain.makeBlock(parent, b.State.chain(), x.txs(b.Txs))
		for len(x.blocks) <= op.Block {
			x.blocks = append(x.blocks, nil)
		}
		x.blocks[op.Block] = wo
		x.guard("head", func() { x.r.chain.setHead(wo) })
	case "bad":
		var err error = errPanicked
		x.guard("add-bad:"+op.Bad, func() { err = p.AddRemotes([]*types.Transaction{x.r.w.badTx(op.Bad)})[0] })
		op.Verdicts = []int{classify(err)}
	case "sleep":
		time.Sleep(time.Duration(op.Ms) * time.Millisecond)
	case "evict":
		x.issueEvict(op)
	}
}

// issueEvict makes the expiry test of the lifetime eviction true for one list of one account
// (hook: heartbeat resp. first-seen time moved into the past; the pool content is not touched)
// and waits until the pool's own eviction ticker has removed the list.
func (x *run) issueEvict(op *OpJS) {
	p := x.r.pool
	addr := x.r.w.accts[op.Acct].internal
	var backdated *types.Transaction
	armed := false
	x.guard("evict", func() {
		if op.Side == "q" {
			armed = p.VerifC19ExpireQueue(addr)
		} else {
			backdated = p.VerifC19ExpirePending(addr)
			armed = backdated != nil
		}
	})
	if !armed {
		return // nothing to evict: the model's eviction of an empty list is the identity
	}
	deadline := time.Now().Add(barrierTimeout)
	for {
		hasP, hasQ := p.VerifC19HasLists(addr)
		if (op.Side == "q" && !hasQ) || (op.Side != "q" && !hasP) {
			break
		}
		if time.Now().After(deadline) {
			x.fail("evict:not-evicted:"+op.Side, fmt.Sprintf("account %d: the list whose expiry test is true was not evicted within %s (eviction ticker 2ms)", op.Acct, barrierTimeout))
			break
		}
		time.Sleep(200 * time.Microsecond)
	}
	if backdated != nil {
		backdated.VerifC19SetTime(time.Now()) // the same object may be added again later in the history
	}
}

// exec = issue + barrier + snapshot + monitors (sequential use).
func (x *run) exec(op *OpJS) {
	if x.stall {
		return
	}
	prev := x.last
	x.headBeforeExec = x.head
	x.issue(op)
	if op.K == "head" {
		x.head = op.Block
	}
	if err := x.r.barrier(barrierTimeout); err != nil {
		if op.K == "head" && x.r.pool.VerifC19TryLock(2*time.Second) {
			x.monitorHeadState(x.r.snapshot(x.u), op) // a reset that never read the new head's state
		}
		x.reportStall(op.K)
		return
	}
	s := x.r.snapshot(x.u)
	op.Snap = s
	x.last = s
	if op.K == "head" {
		x.monitorHeadState(s, op)
	}
	if op.K == "head" && prev != nil {
		for a := range s.Accts {
			if s.Accts[a].SNonce < prev.Accts[a].SNonce {
				x.tainted[a] = true
			}
		}
	}
	x.monitor(s, true, op.K)
	switch op.K {
	case "add":
		x.monitorReplacement(prev, s, op)
	case "evict":
		x.monitorEvictOp(prev, s, op)
	case "bad":
		if op.Verdicts[0] == VOk {
			x.fail("validate:accepted-"+op.Bad, "a transaction with "+op.Bad+" was accepted")
		}
		x.monitorRejected(prev, s, op)
	}
}

// monitorHeadState: at the quiescent point after a head event the pool's view of the chain
// (currentState nonce / balance of every account, currentMaxGas) is the state of the announced
// head -- whatever the distance and relation between the old and the new head (extension,
// reorganisation, jump over more than 64 blocks in either direction). Model-independent
// counterpart of chain_state_follows_head.
func (x *run) monitorHeadState(s *Snap, op *OpJS) {
	st := x.c.Blocks[op.Block].State
	kind := "near"
	if d := x.c.num(op.Block) - x.c.num(x.headBeforeExec); d > 64 || d < -64 {
		kind = "far"
	}
	for a := range s.Accts {
		if s.Accts[a].SNonce != st.Nonce[a] || s.Accts[a].SBal != fmt.Sprint(st.Bal[a]) {
			x.fail("head:pool-state-not-at-announced-head:"+kind, fmt.Sprintf("after the head event to block %d (number %d, previous head number %d): the pool sees nonce %d balance %s for account %d, the announced head has nonce %d balance %d",
				op.Block, x.c.num(op.Block), x.c.num(x.headBeforeExec), s.Accts[a].SNonce, s.Accts[a].SBal, a, st.Nonce[a], st.Bal[a]))
			return
		}
	}
	if s.raw != nil && s.raw.MaxGas != st.MaxGas {
		x.fail("head:pool-gaslimit-not-at-announced-head:"+kind, fmt.Sprintf("after the head event to block %d: currentMaxGas=%d, the announced head has %d", op.Block, s.raw.MaxGas, st.MaxGas))
	}
}

// monitorEvictOp: the exact effect of the lifetime eviction of ONE list (model-independent
// statement of evict_queue_exact / evict_pending_exact): the list is gone, the account's other
// list and every list of every other account are unchanged, the hash index lost exactly the
// evicted transactions, pendingNonces only changed for an evicted pending list (-> state nonce).
func (x *run) monitorEvictOp(prev, cur *Snap, op *OpJS) {
	if prev == nil {
		return
	}
	a := op.Acct
	var gone []int
	if op.Side == "q" {
		gone = prev.Accts[a].Queue
	} else {
		gone = prev.Accts[a].Pending
	}
	goneSet := map[int]bool{}
	for _, id := range gone {
		goneSet[id] = true
	}
	for i := range cur.Accts {
		wantP, wantQ, wantPN := prev.Accts[i].Pending, prev.Accts[i].Queue, prev.Accts[i].PNonce
		if i == a && op.Side == "q" {
			wantQ = []int{}
		}
		if i == a && op.Side != "q" {
			wantP = []int{}
			if len(gone) > 0 {
				wantPN = cur.Accts[i].SNonce
			}
		}
		if fmt.Sprint(cur.Accts[i].Pending) != fmt.Sprint(wantP) {
			x.fail("evict:"+op.Side+":pending-lists", fmt.Sprintf("eviction of account %d (%s): pending of account %d is %v, expected %v", a, op.Side, i, cur.Accts[i].Pending, wantP))
		}
		if fmt.Sprint(cur.Accts[i].Queue) != fmt.Sprint(wantQ) {
			x.fail("evict:"+op.Side+":queue-lists", fmt.Sprintf("eviction of account %d (%s): queue of account %d is %v, expected %v", a, op.Side, i, cur.Accts[i].Queue, wantQ))
		}
		if cur.Accts[i].PNonce != wantPN {
			x.fail("evict:"+op.Side+":pending-nonce", fmt.Sprintf("eviction of account %d (%s): pendingNonces of account %d is %d, expected %d", a, op.Side, i, cur.Accts[i].PNonce, wantPN))
		}
	}
	var want []int
	for _, id := range append(append([]int{}, prev.Locals...), prev.Remotes...) {
		if !goneSet[id] {
			want = append(want, id)
		}
	}
	got := append(append([]int{}, cur.Locals...), cur.Remotes...)
	sort.Ints(want)
	sort.Ints(got)
	if fmt.Sprint(want) != fmt.Sprint(got) {
		x.fail("evict:"+op.Side+":hash-index", fmt.Sprintf("eviction of account %d (%s): hash index holds %v, expected %v (before: minus %v)", a, op.Side, got, want, gone))
	}
	if len(gone) > 0 {
		x.rep.Count("evict:" + op.Side + ":nonempty")
	}
}

// monitorRejected: what must hold after a call whose only transaction was refused.
//  1. the refused transaction is in no index (lists, hash index, price heaps): required by
//     the clause "the hash index, price index and per-account lists hold the same
//     transactions" -- every transaction of the harness is in the universe, a refused one is
//     not, so it shows up as a foreign entry;
//  2. the pool content did not change. This is true of every refusal that happens before
//     TxPool.add reaches its pool-full branch (known / signature / validateTx). A refusal
//     AFTER the pool-full branch has evicted pooled transactions to make room (go-quai: the
//     final types.Sender in add, the replacement rule) leaves them evicted: reported under
//     its own signature, with the kind of the refused transaction.
func (x *run) monitorRejected(prev, cur *Snap, op *OpJS) {
	if cur.foreign > 0 {
		x.fail("validate:rejected-tx-indexed:"+op.Bad, fmt.Sprintf("a refused transaction (%s) is held by the pool (%d entries are not transactions of the history)", op.Bad, cur.foreign))
	}
	if sameContent(prev, cur) {
		return
	}
	cfg := x.r.pool.VerifC19Config()
	full := uint64(len(prev.Locals)+len(prev.Remotes)+1) > cfg.GlobalSlots+cfg.GlobalQueue
	before := map[int]bool{}
	for _, id := range append(append([]int{}, prev.Locals...), prev.Remotes...) {
		before[id] = true
	}
	onlyRemovals := true
	for _, id := range append(append([]int{}, cur.Locals...), cur.Remotes...) {
		if !before[id] {
			onlyRemovals = false
		}
	}
	if full && onlyRemovals {
		x.fail("validate:rejected-tx-evicted-pooled:pool-full:"+op.Bad, fmt.Sprintf("the pool was full (%d of %d); a transaction that was then refused (%s) evicted pooled transactions: indexed before %v %v, after %v %v",
			len(prev.Locals)+len(prev.Remotes), cfg.GlobalSlots+cfg.GlobalQueue, op.Bad, prev.Locals, prev.Remotes, cur.Locals, cur.Remotes))
		return
	}
	x.fail("validate:rejected-tx-changed-pool", "the pool content changed although the only transaction was rejected ("+op.Bad+")")
}

func sameContent(a, b *Snap) bool {
	if len(a.Accts) != len(b.Accts) {
		return false
	}
	for i := range a.Accts {
		if fmt.Sprint(a.Accts[i]) != fmt.Sprint(b.Accts[i]) {
			return false
		}
	}
	return fmt.Sprint(a.Locals, a.Remotes) == fmt.Sprint(b.Locals, b.Remotes)
}

type slotKey struct {
	a int
	n uint64
}

func (x *run) slots(s *Snap) map[slotKey]int {
	m := map[slotKey]int{}
	for a, v := range s.Accts {
		for _, id := range append(append([]int{}, v.Pending...), v.Queue...) {
			if id >= 0 {
				m[slotKey{a, x.u.specs[id].Nonce}] = id
			}
		}
	}
	return m
}

// monitorReplacement: a (account, nonce) slot that holds a different transaction after an
// add than before it was replaced; the new one must carry the configured price bump and
// the old one must be gone from every index.
func (x *run) monitorReplacement(prev, cur *Snap, op *OpJS) {
	cfg := x.r.pool.VerifC19Config()
	if uint64(len(prev.Locals)+len(prev.Remotes)+len(op.Txs)) > cfg.GlobalSlots+cfg.GlobalQueue {
		return // the pool-full branch of add may have evicted the old transaction first: not a replacement
	}
	bump := cfg.PriceBump
	before, after := x.slots(prev), x.slots(cur)
	present := map[int]bool{}
	for _, id := range append(append([]int{}, cur.Locals...), cur.Remotes...) {
		present[id] = true
	}
	for k, old := range before {
		now, ok := after[k]
		if !ok || now == old {
			continue
		}
		o, n := x.u.specs[old], x.u.specs[now]
		thr := new(big.Int).Mul(new(big.Int).SetUint64(o.Price), new(big.Int).SetUint64(100+bump))
		thr.Div(thr, big.NewInt(100))
		if n.Price <= o.Price || new(big.Int).SetUint64(n.Price).Cmp(thr) < 0 {
			x.fail("replace:without-bump", fmt.Sprintf("account %d nonce %d: price %d replaced price %d with PriceBump=%d%%", k.a, k.n, n.Price, o.Price, bump))
		}
		if present[old] {
			x.fail("replace:old-still-indexed", fmt.Sprintf("account %d nonce %d: the replaced transaction is still in the hash index", k.a, k.n))
		}
		x.rep.Count("replacement:accepted")
	}
}

// ---------- block table helpers ----------

func (c *Case) num(i int) int {
	n := 0
	for c.Blocks[i].Parent >= 0 {
		n += 1 + c.Blocks[i].Skip
		i = c.Blocks[i].Parent
	}
	return n
}

// reorgSets mirrors the walk of TxPool.reset to the common ancestor: the transactions of
// the abandoned branch (from the old head backwards) and of the adopted branch.
func (c *Case) reorgSets(old, new int) (discarded, included []int, extension bool) {
	if c.Blocks[new].Parent == old && c.Blocks[new].Skip == 0 {
		return nil, nil, true
	}
	// TxPool.reset: "If the reorg is too deep, avoid doing it": more than 64 block NUMBERS apart
	// (in either direction) and not parent/child -> nothing is re-injected, the state is still reset
	if d := c.num(old) - c.num(new); d > 64 || d < -64 {
		return nil, nil, false
	}
	// walk to the common ancestor (always a block of the table: the skipped blocks of two
	// different table entries are different blocks, and they are empty)
	rem, add := old, new
	for rem != add {
		if c.num(rem) >= c.num(add) {
			discarded = append(discarded, c.Blocks[rem].Txs...)
			rem = c.Blocks[rem].Parent
		} else {
			included = append(included, c.Blocks[add].Txs...)
			add = c.Blocks[add].Parent
		}
	}
	return discarded, included, false
}

// ---------- Coq printing ----------

func coqInts(l []int) string {
	s := make([]string, len(l))
	for i, v := range l {
		s[i] = fmt.Sprint(v)
	}
	return "[" + strings.Join(s, ";") + "]"
}

func (s *Snap) Coq() string {
	as := make([]string, len(s.Accts))
	for i, a := range s.Accts {
		as[i] = fmt.Sprintf("(%s,%s,%d)", coqInts(a.Pending), coqInts(a.Queue), a.PNonce)
	}
	return fmt.Sprintf("(Obs [%s] %s %s %s %d)", strings.Join(as, ";"), coqInts(s.Locals), coqInts(s.Remotes), coqInts(s.LocalAcct), s.GasPrice)
}

// coqStep prints op as a model step; head is the index of the head block before op.
func (c *Case) coqStep(op *OpJS, head int, checked bool) (string, bool) {
	var o string
	switch op.K {
	case "add":
		o = fmt.Sprintf("CAdd %v %s", op.Local, coqInts(op.Txs))
	case "gas":
		o = fmt.Sprintf("CSetGasPrice %d", op.Price)
	case "head":
		d, i, _ := c.reorgSets(head, op.Block)
		o = fmt.Sprintf("CHead %s %s %s", c.Blocks[op.Block].State.Coq(), coqInts(d), coqInts(i))
	case "evict":
		if op.Side == "q" {
			o = fmt.Sprintf("CEvict [%d] []", op.Acct)
		} else {
			o = fmt.Sprintf("CEvict [] [%d]", op.Acct)
		}
	default:
		return "", false
	}
	if !checked || op.Snap == nil {
		return fmt.Sprintf("(%s, None, None)", o), true
	}
	vs := "(Some [])"
	if op.K == "add" {
		cl := make([]int, len(op.Verdicts))
		for i, v := range op.Verdicts {
			cl[i] = vclassOf(v)
		}
		vs = "(Some " + coqInts(cl) + ")"
	}
	return fmt.Sprintf("(%s, %s, Some %s)", o, vs, op.Snap.Coq()), true
}

// vclassOf maps a harness verdict to the class number used by C19.vclass.
func vclassOf(v int) int {
	switch v {
	case VOk:
		return 0
	case VKnown:
		return 1
	case VUnderpriced:
		return 4
	case VNonceLow:
		return 5
	case VFunds:
		return 6
	case VIntrinsic:
		return 7
	case VReplaceUnderpriced:
		return 8
	case VOverflow:
		return 9
	case VInvalidSender:
		return 10
	}
	return 11
}

func (c *Case) coqHeader() string {
	g := c.Cfg
	ts := make([]string, len(c.Txs))
	for i, t := range c.Txs {
		ts[i] = t.Coq()
	}
	return fmt.Sprintf("inl (%d, Cfg %d %d %d %d %d, %d, %d, %s, [%s], ", c.ID, g.PriceBump, g.AccountSlots, g.GlobalSlots, g.AccountQueue, g.GlobalQueue,
		g.PriceLimit, c.NAccts, c.Blocks[0].State.Coq(), strings.Join(ts, ";"))
}

// coqSeq prints a sequential case: one history, every step checked.
func (c *Case) coqSeq() string {
	var steps []string
	head := 0
	for i := range c.Ops {
		op := &c.Ops[i]
		if s, ok := c.coqStep(op, head, true); ok {
			steps = append(steps, s)
		}
		if op.K == "head" {
			head = op.Block
		}
	}
	return c.coqHeader() + "[[" + strings.Join(steps, ";\n  ") + "]])"
}

// ---------- online generator of sequential histories ----------

var (
	priceDomain = []uint64{1, 2, 3, 5, 9, 10, 11, 12, 20, 21, 22, 40, 100}
	balDomain   = []uint64{21000 * 15, 21000*60 + 500, 1000000000000, 1000000000000}
)

type gen struct {
	rng *hlib.Rng
	x   *run
	big bool // size-limit histories: some transactions carry 33-100 KB of data (2-4 slots)
}

func pick[T any](r *hlib.Rng, xs []T) T { return xs[r.Intn(len(xs))] }

func genCfg(r *hlib.Rng, kind string) PoolCfg {
	c := PoolCfg{
		PriceLimit:   pick(r, []uint64{1, 1, 1, 2, 5}),
		PriceBump:    pick(r, []uint64{10, 10, 5, 25, 1, 100}),
		AccountSlots: pick(r, []uint64{1, 2, 3, 16}),
		GlobalSlots:  pick(r, []uint64{2, 4, 6, 64}),
		AccountQueue: pick(r, []uint64{1, 2, 3, 8, 64}),
		GlobalQueue:  256, // never reached in the differential histories (truncateQueue order = wall clock)
	}
	if kind == "limit" {
		c.GlobalQueue = pick(r, []uint64{1, 2, 3, 5})
		c.GlobalSlots = pick(r, []uint64{1, 2, 4})
	}
	return c
}

func genGenesis(r *hlib.Rng, n int) StateJS {
	s := StateJS{BaseFee: pick(r, []uint64{1, 1, 1, 2}), MaxGas: 5000000}
	for i := 0; i < n; i++ {
		s.Nonce = append(s.Nonce, pick(r, []uint64{0, 0, 3}))
		s.Bal = append(s.Bal, pick(r, balDomain))
	}
	return s
}

func (g *gen) pickTx(a int) TxSpec {
	r := g.rng
	v := g.x.last.Accts[a]
	specs := g.x.u.specs
	var nonce uint64
	var old *TxSpec
	switch r.Pick(35, 20, 8, 20, 5, 12) {
	case 0:
		nonce = v.PNonce
	case 1:
		if len(v.Pending) > 0 {
			o := specs[pick(r, v.Pending)]
			old, nonce = &o, o.Nonce
		} else {
			nonce = v.PNonce
		}
	case 2:
		if len(v.Queue) > 0 {
			o := specs[pick(r, v.Queue)]
			old, nonce = &o, o.Nonce
		} else {
			nonce = v.PNonce + 1
		}
	case 3:
		nonce = v.PNonce + 1 + uint64(r.Intn(3))
	case 4:
		if v.SNonce > 0 {
			nonce = v.SNonce - 1
		}
	default:
		nonce = uint64(r.Intn(int(v.SNonce) + 8))
	}
	price := pick(r, priceDomain)
	if old != nil && r.Chance(85) {
		bump := g.x.r.pool.VerifC19Config().PriceBump
		thr := old.Price * (100 + bump) / 100
		switch r.Pick(2, 2, 3, 3, 2, 2) {
		case 0:
			price = old.Price
		case 1:
			price = old.Price + 1
		case 2:
			if thr > 0 {
				price = thr - 1
			}
		case 3:
			price = thr
		case 4:
			price = thr + 1
		default:
			price = old.Price * 2
		}
		if price == 0 {
			price = 1
		}
	}
	gas := uint64(21000)
	switch r.Pick(88, 3, 6, 3) {
	case 1:
		gas = 20000
	case 2:
		gas = 50000
	case 3:
		gas = 6000000
	}
	value := pick(r, []uint64{0, 0, 0, 7, 7, 210000})
	if old != nil {
		// a replacement may also move more value or use more gas than anything the list has
		// seen so far (the list's cached cost / gas thresholds must follow), or less
		switch r.Pick(50, 14, 12, 12, 12) {
		case 1:
			value = old.Value + pick(r, []uint64{1, 50000, 210000, 1000000})
		case 2:
			gas = old.Gas + pick(r, []uint64{1, 1000, 29000})
		case 3:
			value = old.Value + pick(r, []uint64{1, 50000, 210000})
			gas = old.Gas + pick(r, []uint64{1, 9000})
		case 4:
			value = old.Value / 2
			gas = 21000
		}
	}
	return TxSpec{From: a, Nonce: nonce, Price: price, Gas: gas, Value: value}
}

// poolSpecs lists the transactions account a has in the pool (pending then queue).
func (g *gen) poolSpecs(a int) []TxSpec {
	v := g.x.last.Accts[a]
	var out []TxSpec
	for _, id := range append(append([]int{}, v.Pending...), v.Queue...) {
		if id >= 0 {
			out = append(out, g.x.u.specs[id])
		}
	}
	return out
}

// boundaryBalance picks a balance at a boundary derived from what account a has in the
// pool and had there before: the cost of one of its transactions (preferably the most
// expensive one), the cost of a former occupant of one of its slots (the value a cached
// threshold may still have), one below / one above, a value between the two highest
// costs, or zero. minNonce: only slots that are still executable after the block.
func (g *gen) boundaryBalance(a int, minNonce uint64) (uint64, bool) {
	r := g.rng
	var costs []uint64
	inPool := g.poolSpecs(a)
	for _, sp := range inPool {
		if c := sp.Cost(); sp.Nonce >= minNonce && c.IsUint64() {
			costs = append(costs, c.Uint64())
		}
	}
	if len(costs) == 0 {
		return 0, false
	}
	sort.Slice(costs, func(i, j int) bool { return costs[i] > costs[j] })
	var former []uint64 // costs of other transactions of the universe for slots the pool holds
	for _, sp := range g.x.u.specs {
		if sp.From != a {
			continue
		}
		for _, q := range inPool {
			if q.Nonce == sp.Nonce && q != sp {
				if c := sp.Cost(); c.IsUint64() {
					former = append(former, c.Uint64())
				}
				break
			}
		}
	}
	var b uint64
	switch r.Pick(30, 20, 20, 20, 10) {
	case 0:
		b = costs[0]
	case 1:
		b = pick(r, costs)
	case 2: // between the highest cost and the next distinct one (or a former occupant's cost)
		lo := uint64(0)
		for _, c := range append(append([]uint64{}, costs...), former...) {
			if c < costs[0] && c > lo {
				lo = c
			}
		}
		if r.Chance(50) {
			b = lo
		} else {
			b = lo + (costs[0]-lo)/2
		}
		return b, true
	case 3:
		if len(former) > 0 {
			b = pick(r, former)
		} else {
			b = costs[len(costs)-1]
		}
	default:
		return 0, true
	}
	switch r.Pick(40, 35, 25) {
	case 0:
		if b > 0 {
			b--
		}
	case 2:
		b++
	}
	return b, true
}

// boundaryGasLimit picks a block gas limit at the gas of a pooled transaction, one below
// or one above (preferably the largest gas in the pool, or a former occupant's gas).
func (g *gen) boundaryGasLimit() (uint64, bool) {
	r := g.rng
	var gases []uint64
	for a := 0; a < g.x.c.NAccts; a++ {
		for _, sp := range g.poolSpecs(a) {
			gases = append(gases, sp.Gas)
		}
	}
	if len(gases) == 0 {
		return 0, false
	}
	sort.Slice(gases, func(i, j int) bool { return gases[i] > gases[j] })
	m := gases[0]
	switch r.Pick(45, 30, 25) {
	case 1:
		m = pick(r, gases)
	case 2: // just below the largest: between it and the next distinct gas
		lo := uint64(21000)
		for _, x := range gases {
			if x < gases[0] && x > lo {
				lo = x
			}
		}
		return lo, true
	}
	switch r.Pick(40, 35, 25) {
	case 0:
		m--
	case 2:
		m++
	}
	return m, true
}

func (g *gen) genAdd() OpJS {
	r := g.rng
	n := 1 + r.Pick(60, 25, 15)
	op := OpJS{K: "add", Local: r.Chance(15)}
	a := r.Intn(g.x.c.NAccts)
	for i := 0; i < n; i++ {
		if r.Chance(30) {
			a = r.Intn(g.x.c.NAccts)
		}
		var s TxSpec
		if len(g.x.u.specs) > 0 && r.Chance(10) {
			s = pick(r, g.x.u.specs) // re-submission of a known / dropped / rejected transaction
		} else {
			s = g.pickTx(a)
			if g.big && r.Chance(30) {
				s.Size = pick(r, []uint64{33000, 33000, 70000, 100000})
				s.Gas = 21000 + 4*s.Size + pick(r, []uint64{0, 0, 1000})
				g.x.rep.Count("add:multi-slot-tx")
			}
			if i > 0 && r.Chance(50) { // consecutive nonces in one batch
				prev := g.x.u.specs[op.Txs[i-1]]
				if prev.From == a {
					s.Nonce = prev.Nonce + 1
				}
			}
		}
		op.Txs = append(op.Txs, g.x.u.id(s))
	}
	op.One = n == 1 && r.Chance(40)
	return op
}

func (g *gen) genGas() OpJS {
	cur := g.x.last.GasPrice
	var p uint64
	switch g.rng.Pick(5, 2, 1) {
	case 0:
		p = pick(g.rng, priceDomain)
	case 1:
		p = cur + 1
	default:
		p = 1
	}
	return OpJS{K: "gas", Price: p}
}

// genHead builds the next head: an extension, a sibling/deeper reorganisation or a return
// to an older branch, mining transactions with consecutive nonces per account.
func (g *gen) genHead() OpJS {
	r := g.rng
	c := g.x.c
	cur := g.x.head
	base := cur
	switch r.Pick(60, 25, 10, 5) {
	case 1:
		if c.Blocks[cur].Parent >= 0 {
			base = c.Blocks[cur].Parent
		}
	case 2:
		if p := c.Blocks[cur].Parent; p >= 0 && c.Blocks[p].Parent >= 0 {
			base = c.Blocks[p].Parent
		}
	case 3:
		base = r.Intn(len(c.Blocks))
	}
	// a head that is far away from the current one (catching up after a stall, deep
	// reorganisation, setHead-like jump back): number distance at and around the 64 of reset
	skip := 0
	if r.Chance(7) {
		d := pick(r, []int{63, 64, 65, 66, 80})
		if k := d + c.num(cur) - c.num(base) - 1; k > 0 {
			skip = k
			g.x.rep.Count(fmt.Sprintf("head:jump:+%d", d))
		}
	} else if c.num(cur) > 64 && r.Chance(30) {
		base = r.Intn(len(c.Blocks)) // back (or across) over a long distance
		if d := c.num(cur) - c.num(base) - 1; d > 64 {
			g.x.rep.Count("head:jump:back")
		}
	}
	st := c.Blocks[base].State.clone()
	var txs []int
	inPool := map[slotKey]int{}
	for k, id := range g.x.slots(g.x.last) {
		inPool[k] = id
	}
	for a := 0; a < c.NAccts; a++ {
		k := r.Pick(50, 30, 15, 5)
		for j := 0; j < k; j++ {
			n := st.Nonce[a]
			var s TxSpec
			if id, ok := inPool[slotKey{a, n}]; ok && r.Chance(80) {
				s = g.x.u.specs[id]
			} else {
				var cands []TxSpec
				for _, sp := range g.x.u.specs {
					if sp.From == a && sp.Nonce == n && sp.Gas >= 21000 && sp.Gas <= st.MaxGas {
						cands = append(cands, sp)
					}
				}
				if len(cands) > 0 && r.Chance(60) {
					s = pick(r, cands)
				} else {
					s = TxSpec{From: a, Nonce: n, Price: pick(r, priceDomain), Gas: 21000, Value: pick(r, []uint64{0, 7})}
				}
			}
			cost := s.Cost()
			if s.Gas < 21000 || s.Gas > st.MaxGas || s.Price < st.BaseFee || !cost.IsUint64() || cost.Uint64() > st.Bal[a] {
				break // a real chain would not include it
			}
			txs = append(txs, g.x.u.id(s))
			st.Nonce[a]++
			st.Bal[a] -= cost.Uint64()
		}
		switch r.Pick(55, 20, 25) {
		case 1:
			st.Bal[a] = pick(r, balDomain)
		case 2:
			if b, ok := g.boundaryBalance(a, st.Nonce[a]); ok {
				st.Bal[a] = b
				g.x.rep.Count("head:boundary-balance")
			}
		}
	}
	if r.Chance(20) {
		st.BaseFee = pick(r, []uint64{1, 2, 5, 12})
	}
	if r.Chance(3) {
		st.MaxGas = 25000
	} else if r.Chance(12) {
		if m, ok := g.boundaryGasLimit(); ok {
			st.MaxGas = m
			g.x.rep.Count("head:boundary-gaslimit")
		}
	} else if r.Chance(35) {
		st.MaxGas = 5000000
	}
	c.Blocks = append(c.Blocks, BlockJS{Parent: base, State: st, Txs: txs, Skip: skip})
	return OpJS{K: "head", Block: len(c.Blocks) - 1}
}

func (g *gen) genBad() OpJS {
	return OpJS{K: "bad", Bad: pick(g.rng, []string{"chainid", "zone", "external", "qi-noinput"})} // qi-inactive: corpus only (known finding)
}

// genEvict picks an account that has a list of the chosen side (falls back to any account:
// the eviction of an empty list must be the identity).
func (g *gen) genEvict() OpJS {
	r := g.rng
	side := "p"
	if r.Chance(50) {
		side = "q"
	}
	var cands []int
	for a, v := range g.x.last.Accts {
		if (side == "q" && len(v.Queue) > 0) || (side == "p" && len(v.Pending) > 0) {
			cands = append(cands, a)
		}
	}
	if len(cands) == 0 || r.Chance(5) {
		return OpJS{K: "evict", Acct: r.Intn(g.x.c.NAccts), Side: side}
	}
	return OpJS{K: "evict", Acct: pick(r, cands), Side: side}
}

func genSeqCase(rng *hlib.Rng, w *world, id int, rep *hlib.Report) *Case {
	n := 2 + rng.Intn(3)
	c := &Case{ID: id, Kind: "seq", Cfg: genCfg(rng, "seq"), NAccts: n}
	c.Evictable = rng.Chance(40)
	c.Blocks = []BlockJS{{Parent: -1, State: genGenesis(rng, n)}}
	x := startRun(w, c, rep)
	g := &gen{rng: rng, x: x}
	nops := 6 + rng.Intn(20)
	for i := 0; i < nops && !x.stall; i++ {
		var op OpJS
		if c.Evictable && i > 1 && rng.Chance(14) {
			op = g.genEvict()
		} else {
			switch rng.Pick(66, 8, 20, 6) {
			case 0:
				op = g.genAdd()
			case 1:
				op = g.genGas()
			case 2:
				op = g.genHead()
			default:
				op = g.genBad()
			}
		}
		x.exec(&op)
		c.Ops = append(c.Ops, op)
	}
	x.finish()
	return c
}

// replaySeq re-executes the recorded operations of c (observations are recomputed).
func replaySeq(w *world, c *Case, rep *hlib.Report) *Case {
	x := startRun(w, c, rep)
	for i := range c.Ops {
		x.exec(&c.Ops[i])
	}
	x.finish()
	return c
}

// fingerprint of a sequential case for the distinct-nontrivial count
func (c *Case) fingerprint() (string, bool) {
	var sb strings.Builder
	nontriv := false
	if c.Kind == "list" { // non-trivial: a Filter removed something
		for _, op := range c.LOps {
			fmt.Fprintf(&sb, "%s%v%d,%d,%d;", op.K, op.Ok, len(op.Out1), len(op.Out2), len(op.Content))
			if op.K == "filter" && len(op.Out1) > 0 {
				nontriv = true
			}
		}
		return sb.String(), nontriv
	}
	for _, op := range c.Ops {
		sb.WriteString(op.K)
		for _, v := range op.Verdicts {
			fmt.Fprintf(&sb, "%d", v)
		}
		if op.Snap != nil {
			for _, a := range op.Snap.Accts {
				fmt.Fprintf(&sb, "|%d,%d", len(a.Pending), len(a.Queue))
				if len(a.Pending) > 0 && len(a.Queue) > 0 {
					nontriv = true
				}
			}
		}
		sb.WriteByte(';')
	}
	return sb.String(), nontriv
}

var _ = sort.Ints
var _ = common.Hash{}

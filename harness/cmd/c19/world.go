package main

// Accounts (deterministic secp256k1 keys ground to zone 0-0 Quai addresses) and the
// transaction factory: one real signed types.QuaiTx per (account, nonce, price, gas,
// value) tuple, cached so that the same tuple is the same transaction (same hash).

import (
	"crypto/ecdsa"
	"fmt"
	"math/big"
	"sync"

	"github.com/dominant-strategies/go-quai/common"
	"github.com/dominant-strategies/go-quai/core/types"
	"github.com/dominant-strategies/go-quai/crypto"
	"github.com/dominant-strategies/go-quai/params"
)

var chainID = big.NewInt(1337)

type acct struct {
	key      *ecdsa.PrivateKey
	addr     common.Address
	internal common.InternalAddress
}

// TxSpec identifies a transaction of the universe.
type TxSpec struct {
	From  int    `json:"from"`
	Nonce uint64 `json:"nonce"`
	Price uint64 `json:"price"`
	Gas   uint64 `json:"gas"`
	Value uint64 `json:"value"`
	// Size: bytes of (zero) call data; > 0 only in the size-limit histories, where a transaction
	// may occupy 2-4 slots of 32 KiB (never printed to Coq: the model counts transactions)
	Size uint64 `json:"size,omitempty"`
}

func (s TxSpec) Cost() *big.Int {
	c := new(big.Int).Mul(new(big.Int).SetUint64(s.Price), new(big.Int).SetUint64(s.Gas))
	return c.Add(c, new(big.Int).SetUint64(s.Value))
}

func (s TxSpec) Coq() string {
	return fmt.Sprintf("T %d %d %d %d %d", s.From, s.Nonce, s.Price, s.Gas, s.Value)
}

type world struct {
	accts  []acct
	byAddr map[common.InternalAddress]int
	signer types.Signer
	cfg    *params.ChainConfig
	to     common.Address
	mu     sync.Mutex
	cache  map[TxSpec]*types.Transaction
	byHash map[common.Hash]TxSpec
}

func newWorld(n int) *world {
	w := &world{byAddr: map[common.InternalAddress]int{}, cache: map[TxSpec]*types.Transaction{}, byHash: map[common.Hash]TxSpec{}}
	w.cfg = &params.ChainConfig{ChainID: chainID, Location: zoneLoc}
	w.signer = types.NewSigner(chainID, zoneLoc)
	for i := 0; len(w.accts) < n+1; i++ {
		seed := crypto.Keccak256([]byte(fmt.Sprintf("verif-c19-key-%d", i)))
		k, err := crypto.ToECDSA(seed)
		if err != nil {
			continue
		}
		a := crypto.PubkeyToAddress(k.PublicKey, zoneLoc)
		in, err := a.InternalAndQuaiAddress()
		if err != nil {
			continue
		}
		w.accts = append(w.accts, acct{k, a, in})
	}
	// the last ground address is only used as the recipient
	w.to = w.accts[n].addr
	w.accts = w.accts[:n]
	for i, a := range w.accts {
		w.byAddr[a.internal] = i
	}
	return w
}

func (w *world) internals() []common.InternalAddress {
	out := make([]common.InternalAddress, len(w.accts))
	for i, a := range w.accts {
		out[i] = a.internal
	}
	return out
}

// tx returns the (fresh copy of the) signed transaction of spec s. A fresh object is
// returned for every call so that per-object caches (sender, local flag, time) of the
// pool never leak between pools; the hash is the same.
func (w *world) tx(s TxSpec) *types.Transaction {
	w.mu.Lock()
	defer w.mu.Unlock()
	if t, ok := w.cache[s]; ok {
		return t
	}
	to := w.to
	inner := &types.QuaiTx{ChainID: chainID, Nonce: s.Nonce, GasPrice: new(big.Int).SetUint64(s.Price), Gas: s.Gas, To: &to,
		Value: new(big.Int).SetUint64(s.Value)}
	if s.Size > 0 {
		inner.Data = make([]byte, s.Size)
	}
	t, err := types.SignTx(types.NewTx(inner), w.signer, w.accts[s.From].key)
	if err != nil {
		panic(err)
	}
	w.cache[s] = t
	w.byHash[t.Hash()] = s
	return t
}

func (w *world) specOf(t *types.Transaction) (TxSpec, bool) {
	w.mu.Lock()
	defer w.mu.Unlock()
	s, ok := w.byHash[t.Hash()]
	return s, ok
}

func (w *world) resetCache() {
	w.mu.Lock()
	defer w.mu.Unlock()
	w.cache = map[TxSpec]*types.Transaction{}
	w.byHash = map[common.Hash]TxSpec{}
}

// badTx builds a transaction the pool must refuse without touching its state:
// "chainid": signed for another chain id; "zone": signed by a key whose address is not a
// Quai address of this zone; "external": an ExternalTx.
func (w *world) badTx(kind string) *types.Transaction {
	to := w.to
	switch kind {
	case "chainid":
		other := big.NewInt(4242)
		inner := &types.QuaiTx{ChainID: other, Nonce: 0, GasPrice: big.NewInt(10), Gas: 21000, To: &to, Value: big.NewInt(1)}
		t, err := types.SignTx(types.NewTx(inner), types.NewSigner(other, zoneLoc), w.accts[0].key)
		if err != nil {
			panic(err)
		}
		return t
	case "zone":
		for i := 0; ; i++ {
			k, err := crypto.ToECDSA(crypto.Keccak256([]byte(fmt.Sprintf("verif-c19-foreign-%d", i))))
			if err != nil {
				continue
			}
			a := crypto.PubkeyToAddress(k.PublicKey, zoneLoc)
			if _, err := a.InternalAndQuaiAddress(); err == nil {
				continue
			}
			inner := &types.QuaiTx{ChainID: chainID, Nonce: 0, GasPrice: big.NewInt(10), Gas: 21000, To: &to, Value: big.NewInt(1)}
			t, err := types.SignTx(types.NewTx(inner), w.signer, k)
			if err != nil {
				panic(err)
			}
			return t
		}
	case "qi-noinput", "qi-inactive", "qi-inactive2":
		// unsigned Qi transactions without inputs: refused by ValidateQiTxInputs; the
		// "inactive" ones also emit an output to a zone that is not active (address prefix 0x01 / 0x10)
		outs := types.TxOuts{{Denomination: 1, Address: make([]byte, 20)}}
		if kind != "qi-noinput" {
			outs[0].Address[0] = 0x01
		}
		if kind == "qi-inactive2" {
			a2 := make([]byte, 20)
			a2[0] = 0x10
			outs = append(outs, types.TxOut{Denomination: 2, Address: a2})
		}
		return types.NewTx(&types.QiTx{ChainID: chainID, TxIn: types.TxIns{}, TxOut: outs})
	default:
		return types.NewTx(&types.ExternalTx{Gas: 21000, To: &to, Value: big.NewInt(1), Sender: w.accts[0].addr})
	}
}

package main

// List cases: one stand-alone real txList (hook core.VerifC19RawList) driven through the
// operations the pool uses (Add incl. same-nonce replacements that raise cost / gas,
// Filter at limits placed on the boundaries of the list content and of the cached
// thresholds, Forward, Remove, Cap, Ready), in lock step with the cached-list model
// (C19.cl_step: content, returned lists, costcap, gascap after every operation) and
// checked by model-independent monitors: Filter leaves only payable transactions and
// removes exactly the unpayable ones, the thresholds are upper bounds of the content,
// the replacement rule.

import (
	"fmt"
	"math/big"
	"sort"
	"strings"

	"github.com/dominant-strategies/go-quai/core"
	"github.com/dominant-strategies/go-quai/core/types"

	"verifharness/hlib"
)

type LOpJS struct {
	K  string  `json:"k"` // add | filter | forward | remove | cap | ready
	Tx *TxSpec `json:"tx,omitempty"`
	A  uint64  `json:"a,omitempty"` // filter: cost limit; forward/remove/ready: nonce; cap: threshold
	B  uint64  `json:"b,omitempty"` // filter: gas limit
	// observed
	Ok      bool     `json:"ok"`
	Out1    []TxSpec `json:"out1,omitempty"`
	Out2    []TxSpec `json:"out2,omitempty"`
	Content []TxSpec `json:"content,omitempty"`
	CostCap uint64   `json:"costcap"`
	GasCap  uint64   `json:"gascap"`
}

func coqSpecs(l []TxSpec) string {
	s := make([]string, len(l))
	for i, t := range l {
		s[i] = t.Coq()
	}
	return "[" + strings.Join(s, ";") + "]"
}

func (o *LOpJS) Coq() string {
	var op string
	switch o.K {
	case "add":
		op = "LAdd (" + o.Tx.Coq() + ")"
	case "filter":
		op = fmt.Sprintf("LFilter %d %d", o.A, o.B)
	case "forward":
		op = fmt.Sprintf("LForward %d", o.A)
	case "remove":
		op = fmt.Sprintf("LRemove %d", o.A)
	case "cap":
		op = fmt.Sprintf("LCap %d", o.A)
	default:
		op = fmt.Sprintf("LReady %d", o.A)
	}
	return fmt.Sprintf("(%s, (%v, %s, %s, %s, %d, %d))", op, o.Ok, coqSpecs(o.Out1), coqSpecs(o.Out2), coqSpecs(o.Content), o.CostCap, o.GasCap)
}

func (c *Case) coqList() string {
	ops := make([]string, len(c.LOps))
	for i := range c.LOps {
		ops[i] = c.LOps[i].Coq()
	}
	return fmt.Sprintf("inr (%d, %v, %d, [%s])", c.ID, c.LStrict, c.Cfg.PriceBump, strings.Join(ops, ";\n  "))
}

type listRun struct {
	c      *Case
	w      *world
	l      *core.VerifC19RawList
	rep    *hlib.Report
	failed map[string]bool
}

func (x *listRun) fail(sig, what string) {
	if x.failed[sig] {
		return
	}
	x.failed[sig] = true
	x.rep.Fail(sig, what, x.c)
}

func (x *listRun) specs(txs types.Transactions) []TxSpec {
	out := make([]TxSpec, 0, len(txs))
	for _, t := range txs {
		if t == nil {
			continue
		}
		if s, ok := x.w.specOf(t); ok {
			out = append(out, s)
		}
	}
	sort.SliceStable(out, func(i, j int) bool { return out[i].Nonce < out[j].Nonce })
	return out
}

func unpayableSpec(s TxSpec, bal, maxgas uint64) bool {
	return s.Gas > maxgas || s.Cost().Cmp(new(big.Int).SetUint64(bal)) > 0
}

func specsEq(a, b []TxSpec) bool {
	if len(a) != len(b) {
		return false
	}
	for i := range a {
		if a[i] != b[i] {
			return false
		}
	}
	return true
}

// exec applies op to the real list, records what it returned and the list afterwards,
// and evaluates the monitors.
func (x *listRun) exec(op *LOpJS) {
	mode := "loose"
	if x.c.LStrict {
		mode = "strict"
	}
	before := x.specs(x.l.Flatten())
	var panicked any
	func() {
		defer func() { panicked = recover() }()
		switch op.K {
		case "add":
			ok, old := x.l.Add(x.w.tx(*op.Tx), x.c.Cfg.PriceBump)
			op.Ok = ok
			if old != nil {
				op.Out1 = x.specs(types.Transactions{old})
			}
		case "filter":
			r, i := x.l.Filter(new(big.Int).SetUint64(op.A), op.B)
			op.Ok, op.Out1, op.Out2 = true, x.specs(r), x.specs(i)
		case "forward":
			op.Ok, op.Out1 = true, x.specs(x.l.Forward(op.A))
		case "remove":
			// Remove looks at the nonce only
			ok, inv := x.l.Remove(x.w.tx(TxSpec{From: 0, Nonce: op.A, Price: 1, Gas: 21000}))
			op.Ok, op.Out2 = ok, x.specs(inv)
		case "cap":
			op.Ok, op.Out1 = true, x.specs(x.l.Cap(int(op.A)))
		case "ready":
			op.Ok, op.Out1 = true, x.specs(x.l.Ready(op.A))
		}
	}()
	if panicked != nil {
		x.fail("panic:list-"+op.K, fmt.Sprintf("txList.%s panicked: %v", op.K, panicked))
		return
	}
	after := x.specs(x.l.Flatten())
	op.Content = after
	cc, gc := x.l.Caps()
	if cc.IsUint64() {
		op.CostCap = cc.Uint64()
	} else {
		op.CostCap = ^uint64(0)
	}
	op.GasCap = gc

	// --- monitors (independent of the model)
	for i := range after {
		if i > 0 && after[i-1].Nonce >= after[i].Nonce {
			x.fail("list:unsorted", fmt.Sprintf("after %s the list is not strictly nonce-sorted", op.K))
		}
		if after[i].Cost().Cmp(cc) > 0 {
			x.fail("list:cache:costcap-below-list-cost:"+op.K, fmt.Sprintf("after %s: costcap %s but nonce %d costs %s", op.K, cc, after[i].Nonce, after[i].Cost()))
		}
		if after[i].Gas > gc {
			x.fail("list:cache:gascap-below-list-gas:"+op.K, fmt.Sprintf("after %s: gascap %d but nonce %d uses gas %d", op.K, gc, after[i].Nonce, after[i].Gas))
		}
	}
	switch op.K {
	case "filter":
		var wantRemoved, rest []TxSpec
		for _, s := range before {
			if unpayableSpec(s, op.A, op.B) {
				wantRemoved = append(wantRemoved, s)
			} else {
				rest = append(rest, s)
			}
		}
		for _, s := range after {
			if unpayableSpec(s, op.A, op.B) {
				x.fail("list:filter:kept-unpayable:"+mode, fmt.Sprintf("Filter(%d, %d) left nonce %d (cost %s, gas %d) in the list", op.A, op.B, s.Nonce, s.Cost(), s.Gas))
				break
			}
		}
		if !specsEq(op.Out1, wantRemoved) {
			x.fail("list:filter:removed-not-the-unpayable:"+mode, fmt.Sprintf("Filter(%d, %d) removed %v, the unpayable transactions are %v", op.A, op.B, op.Out1, wantRemoved))
		}
		var wantInv, wantKept []TxSpec
		for _, s := range rest {
			if x.c.LStrict && len(wantRemoved) > 0 && s.Nonce > wantRemoved[0].Nonce {
				wantInv = append(wantInv, s)
			} else {
				wantKept = append(wantKept, s)
			}
		}
		if !specsEq(op.Out2, wantInv) {
			x.fail("list:filter:invalids:"+mode, fmt.Sprintf("Filter(%d, %d) invalidated %v, expected %v", op.A, op.B, op.Out2, wantInv))
		}
		if !specsEq(after, wantKept) {
			x.fail("list:filter:content:"+mode, fmt.Sprintf("Filter(%d, %d) left %v, expected %v", op.A, op.B, after, wantKept))
		}
	case "add":
		var old *TxSpec
		for i := range before {
			if before[i].Nonce == op.Tx.Nonce {
				old = &before[i]
			}
		}
		want := true
		if old != nil {
			thr := old.Price * (100 + x.c.Cfg.PriceBump) / 100
			want = op.Tx.Price > old.Price && op.Tx.Price >= thr
		}
		if op.Ok != want {
			x.fail("list:add:replacement-rule", fmt.Sprintf("Add(%v) over %v with bump %d returned %v", *op.Tx, old, x.c.Cfg.PriceBump, op.Ok))
		}
		has := false
		for _, s := range after {
			if s == *op.Tx {
				has = true
			}
		}
		if op.Ok && !has {
			x.fail("list:add:accepted-not-listed", fmt.Sprintf("Add(%v) was accepted but the list does not hold it", *op.Tx))
		}
		if !op.Ok && !specsEq(before, after) {
			x.fail("list:add:rejected-changed-list", fmt.Sprintf("Add(%v) was rejected but the list changed", *op.Tx))
		}
		if op.Ok {
			x.rep.Count("list:add:accepted")
			if old != nil {
				x.rep.Count("list:add:replaced")
				if op.Tx.Cost().Cmp(old.Cost()) > 0 || op.Tx.Gas > old.Gas {
					x.rep.Count("list:add:replaced-raising")
				}
			}
		}
	}
	x.rep.Count("lop:" + op.K)
	if op.K == "filter" && len(op.Out1) > 0 {
		x.rep.Count("list:filter:removed-some")
	}
}

var (
	listGas   = []uint64{21000, 21000, 21000, 30000, 50000, 100000}
	listValue = []uint64{0, 0, 7, 1000, 50000, 210000, 1000000}
)

func genListCase(rng *hlib.Rng, w *world, id int, rep *hlib.Report) *Case {
	c := &Case{ID: id, Kind: "list", LStrict: rng.Chance(50), NAccts: 1,
		Cfg: PoolCfg{PriceLimit: 1, PriceBump: pick(rng, []uint64{10, 10, 5, 25, 1, 100}), AccountSlots: 16, GlobalSlots: 64, AccountQueue: 64, GlobalQueue: 256}}
	x := newListRun(w, c, rep)
	nops := 12 + rng.Intn(30)
	for i := 0; i < nops; i++ {
		cur := x.specs(x.l.Flatten())
		cc, gc := x.l.Caps()
		var op LOpJS
		switch rng.Pick(50, 24, 5, 8, 4, 9) {
		case 0:
			s := TxSpec{From: 0, Nonce: uint64(rng.Intn(8)), Price: pick(rng, priceDomain), Gas: pick(rng, listGas), Value: pick(rng, listValue)}
			if len(cur) > 0 && rng.Chance(50) { // same-nonce replacement around the bump threshold
				o := pick(rng, cur)
				thr := o.Price * (100 + c.Cfg.PriceBump) / 100
				s.Nonce = o.Nonce
				s.Price = pick(rng, []uint64{o.Price, o.Price + 1, thr, thr, thr + 1, o.Price * 2, o.Price * 2})
				if thr > 1 && rng.Chance(15) {
					s.Price = thr - 1
				}
				switch rng.Pick(30, 25, 25, 20) {
				case 0:
					s.Gas, s.Value = o.Gas, o.Value
				case 1:
					s.Gas, s.Value = o.Gas, o.Value+pick(rng, []uint64{1, 1000, 210000, 1000000})
				case 2:
					s.Gas, s.Value = o.Gas+pick(rng, []uint64{1, 1000, 29000}), o.Value
				default:
					s.Gas, s.Value = 21000, o.Value/2
				}
			}
			op = LOpJS{K: "add", Tx: &s}
		case 1:
			// limits on the boundaries: a transaction's cost / gas, the cached thresholds, one
			// below, one above, between the two highest, far above, zero
			var costs, gases []uint64
			for _, s := range cur {
				costs = append(costs, s.Cost().Uint64())
				gases = append(gases, s.Gas)
			}
			if cc.IsUint64() {
				costs = append(costs, cc.Uint64())
			}
			gases = append(gases, gc)
			sort.Slice(costs, func(i, j int) bool { return costs[i] > costs[j] })
			sort.Slice(gases, func(i, j int) bool { return gases[i] > gases[j] })
			bound := func(vals []uint64, far uint64) uint64 {
				if len(vals) == 0 || rng.Chance(25) {
					return far
				}
				var b uint64
				switch rng.Pick(35, 35, 20, 10) {
				case 0:
					b = vals[0]
				case 1:
					b = pick(rng, vals)
				case 2:
					lo := uint64(0)
					for _, v := range vals {
						if v < vals[0] && v > lo {
							lo = v
						}
					}
					return lo + (vals[0]-lo)/2
				default:
					return 0
				}
				switch rng.Pick(40, 35, 25) {
				case 0:
					if b > 0 {
						b--
					}
				case 2:
					b++
				}
				return b
			}
			op = LOpJS{K: "filter", A: bound(costs, rich), B: bound(gases, 5000000)}
		case 2:
			op = LOpJS{K: "forward", A: uint64(rng.Intn(5))}
		case 3:
			op = LOpJS{K: "remove", A: uint64(rng.Intn(8))}
		case 4:
			op = LOpJS{K: "cap", A: uint64(rng.Intn(6))}
		default:
			op = LOpJS{K: "ready", A: uint64(rng.Intn(4))}
		}
		x.exec(&op)
		c.LOps = append(c.LOps, op)
	}
	return c
}

func newListRun(w *world, c *Case, rep *hlib.Report) *listRun {
	w.resetCache()
	return &listRun{c: c, w: w, l: core.VerifC19NewRawList(c.LStrict), rep: rep, failed: map[string]bool{}}
}

func replayList(w *world, c *Case, rep *hlib.Report) *Case {
	x := newListRun(w, c, rep)
	for i := range c.LOps {
		op := &c.LOps[i]
		op.Ok, op.Out1, op.Out2, op.Content, op.CostCap, op.GasCap = false, nil, nil, nil, 0, 0
		x.exec(op)
	}
	return c
}

// listCorpus: the targeted list histories (both modes): thresholds after a replacement
// that raises cost / gas, Filter at every edge of the window.
func listCorpus() []*Case {
	var out []*Case
	for _, strict := range []bool{true, false} {
		for _, raise := range []string{"price", "value", "gas", "both"} {
			A := TxSpec{From: 0, Nonce: 0, Price: 10, Gas: 21000, Value: 1000}
			B := TxSpec{From: 0, Nonce: 1, Price: 10, Gas: 21000, Value: 500}
			C := TxSpec{From: 0, Nonce: 2, Price: 10, Gas: 21000, Value: 0}
			R := B
			switch raise {
			case "price":
				R.Price = 20
			case "value":
				R.Price, R.Value = 11, 500000
			case "gas":
				R.Price, R.Gas = 11, 50000
			default:
				R.Price, R.Gas, R.Value = 12, 30000, 70000
			}
			c := &Case{Kind: "list", LStrict: strict, NAccts: 1, Cfg: PoolCfg{PriceLimit: 1, PriceBump: 10, AccountSlots: 16, GlobalSlots: 64, AccountQueue: 64, GlobalQueue: 256},
				Note: "list thresholds after a " + raise + "-raising replacement"}
			rc := R.Cost().Uint64()
			add := func(s TxSpec) { t := s; c.LOps = append(c.LOps, LOpJS{K: "add", Tx: &t}) }
			add(A)
			add(B)
			add(C)
			add(R)
			for _, lim := range [][2]uint64{{rich, 5000000}, {rc, R.Gas}, {rc - 1, 5000000}} {
				c.LOps = append(c.LOps, LOpJS{K: "filter", A: lim[0], B: lim[1]})
			}
			add(R) // back in (new nonce for the list now), then the gas edge and the old threshold
			add(C)
			for _, lim := range [][2]uint64{{rich, R.Gas - 1}, {A.Cost().Uint64(), 21000}, {A.Cost().Uint64() - 1, 20999}} {
				c.LOps = append(c.LOps, LOpJS{K: "filter", A: lim[0], B: lim[1]})
			}
			out = append(out, c)
		}
	}
	// the history of the Coq example list_cache_nonvacuous (Proofs/C19_Cache.v: cache_history)
	for _, lim := range []uint64{5790000, 6420000} {
		c := &Case{Kind: "list", LStrict: true, NAccts: 1, Cfg: PoolCfg{PriceLimit: 1, PriceBump: 10, AccountSlots: 16, GlobalSlots: 64, AccountQueue: 64, GlobalQueue: 256},
			Note: "Coq example list_cache_nonvacuous"}
		for _, s := range []TxSpec{txv(0, 0, 10, 4000000), txv(0, 1, 10, 3000000), txv(0, 1, 20, 6000000)} {
			t := s
			c.LOps = append(c.LOps, LOpJS{K: "add", Tx: &t})
		}
		c.LOps = append(c.LOps, LOpJS{K: "filter", A: lim, B: 5000000})
		out = append(out, c)
	}
	return out
}

package main

// Monitor-only histories: concurrent callers, tiny size limits (truncateQueue and the
// pool-full branch of add, both outside the model), lifetime eviction.

import (
	"fmt"
	"sync"
	"time"

	"github.com/dominant-strategies/go-quai/core"
	"github.com/dominant-strategies/go-quai/core/types"

	"verifharness/hlib"
)

var failMu sync.Mutex

// runConc executes the operations of c grouped by goroutine (op.G), concurrently, then
// waits for quiescence and evaluates the monitors on the final snapshot.
func runConc(w *world, c *Case, rep *hlib.Report) *Case {
	x := startRun(w, c, rep)
	// head blocks are built up-front (in op order) so that goroutines only announce them
	for i := range c.Ops {
		op := &c.Ops[i]
		if op.K == "head" {
			b := c.Blocks[op.Block]
			wo := x.r.chain.makeBlock(x.blocks[b.Parent], b.State.chain(), x.txs(b.Txs))
			for len(x.blocks) <= op.Block {
				x.blocks = append(x.blocks, nil)
			}
			x.blocks[op.Block] = wo
		}
	}
	groups := map[int][]*OpJS{}
	for i := range c.Ops {
		groups[c.Ops[i].G] = append(groups[c.Ops[i].G], &c.Ops[i])
	}
	var wg sync.WaitGroup
	start := make(chan struct{})
	for _, ops := range groups {
		wg.Add(1)
		go func(ops []*OpJS) {
			defer wg.Done()
			<-start
			for _, op := range ops {
				x.issueConc(op)
			}
		}(ops)
	}
	close(start)
	done := make(chan struct{})
	go func() { wg.Wait(); close(done) }()
	select {
	case <-done:
	case <-time.After(barrierTimeout):
		x.reportStall("concurrent calls (some caller never returned)")
	}
	if !x.stall {
		if err := x.r.barrier(barrierTimeout); err != nil {
			x.reportStall("concurrent history")
		}
	}
	if !x.stall {
		s := x.r.snapshot(x.u)
		c.Final = s
		x.monitor(s, true, "concurrent history")
		// the pool must have been reset to the last announced head
		if last := x.r.chain.lastPosted(); last != nil {
			st := x.r.chain.stateOf(last)
			for i := range s.Accts {
				if s.Accts[i].SNonce != st.Accts[i].Nonce || s.Accts[i].SBal != st.Accts[i].Balance.String() {
					x.fail("head:pool-state-not-at-last-head", fmt.Sprintf("account %d: pool state nonce %d balance %s, last announced head has nonce %d balance %s",
						i, s.Accts[i].SNonce, s.Accts[i].SBal, st.Accts[i].Nonce, st.Accts[i].Balance))
					break
				}
			}
		}
	}
	x.finish()
	return c
}

// issueConc is issue for concurrent use: head blocks are pre-built, failures are serialised.
func (x *run) issueConc(op *OpJS) {
	if op.K == "head" {
		x.guardConc("head", func() { x.r.chain.setHead(x.blocks[op.Block]) })
		return
	}
	x.issue(op)
}

func (x *run) guardConc(where string, f func()) {
	defer func() {
		if e := recover(); e != nil {
			x.fail("panic:"+where, fmt.Sprintf("%s panicked: %v", where, e))
		}
	}()
	f()
}

func genConcCase(rng *hlib.Rng, w *world, id int, rep *hlib.Report) *Case {
	n := 2 + rng.Intn(2)
	cfg := genCfg(rng, "seq")
	if rng.Chance(40) {
		cfg.GlobalQueue = pick(rng, []uint64{2, 4, 8})
		cfg.GlobalSlots = pick(rng, []uint64{1, 2, 4})
	}
	c := &Case{ID: id, Kind: "conc", Cfg: cfg, NAccts: n}
	gen := genGenesis(rng, n)
	c.Blocks = []BlockJS{{Parent: -1, State: gen}}
	u := newUniverse()
	ngo := 2 + rng.Intn(3)
	head := 0
	randSpec := func(a int, st StateJS) TxSpec {
		return TxSpec{From: a, Nonce: st.Nonce[a] + uint64(rng.Pick(30, 25, 20, 15, 10)), Price: pick(rng, priceDomain),
			Gas: pick(rng, []uint64{21000, 21000, 21000, 21000, 50000, 20000}), Value: pick(rng, []uint64{0, 0, 7, 210000})}
	}
	for g := 0; g < ngo; g++ {
		nops := 3 + rng.Intn(6)
		for i := 0; i < nops; i++ {
			switch rng.Pick(62, 10, 20, 8) {
			case 0:
				op := OpJS{K: "add", G: g, Local: rng.Chance(15)}
				k := 1 + rng.Pick(50, 30, 20)
				a := rng.Intn(n)
				for j := 0; j < k; j++ {
					if rng.Chance(30) {
						a = rng.Intn(n)
					}
					var s TxSpec
					if len(u.specs) > 0 && rng.Chance(25) {
						s = pick(rng, u.specs)
						if rng.Chance(60) { // same slot, other price: concurrent replacement attempts
							s.Price = pick(rng, priceDomain)
						}
					} else {
						s = randSpec(a, c.Blocks[head].State)
					}
					op.Txs = append(op.Txs, u.id(s))
				}
				op.One = k == 1 && rng.Chance(40)
				c.Ops = append(c.Ops, op)
			case 1:
				c.Ops = append(c.Ops, OpJS{K: "gas", G: g, Price: pick(rng, priceDomain)})
			case 2:
				base := head
				if rng.Chance(25) && c.Blocks[head].Parent >= 0 {
					base = c.Blocks[head].Parent
				}
				st := c.Blocks[base].State.clone()
				var txs []int
				for a := 0; a < n; a++ {
					for j := rng.Pick(50, 30, 20); j > 0; j-- {
						var s TxSpec
						var cands []TxSpec
						for _, sp := range u.specs {
							if sp.From == a && sp.Nonce == st.Nonce[a] && sp.Gas >= 21000 && sp.Gas <= st.MaxGas {
								cands = append(cands, sp)
							}
						}
						if len(cands) > 0 && rng.Chance(70) {
							s = pick(rng, cands)
						} else {
							s = TxSpec{From: a, Nonce: st.Nonce[a], Price: pick(rng, priceDomain), Gas: 21000}
						}
						cost := s.Cost()
						if s.Price < st.BaseFee || !cost.IsUint64() || cost.Uint64() > st.Bal[a] {
							break
						}
						txs = append(txs, u.id(s))
						st.Nonce[a]++
						st.Bal[a] -= cost.Uint64()
					}
					switch rng.Pick(65, 20, 15) {
					case 1:
						st.Bal[a] = pick(rng, balDomain)
					case 2: // at / one below / one above the cost of a transaction of this account
						var costs []uint64
						for _, sp := range u.specs {
							if cst := sp.Cost(); sp.From == a && cst.IsUint64() && cst.Uint64() > 0 {
								costs = append(costs, cst.Uint64())
							}
						}
						if len(costs) > 0 {
							st.Bal[a] = pick(rng, costs) + uint64(rng.Intn(3)) - 1
						}
					}
				}
				if rng.Chance(15) {
					st.BaseFee = pick(rng, []uint64{1, 2, 5})
				}
				c.Blocks = append(c.Blocks, BlockJS{Parent: base, State: st, Txs: txs})
				head = len(c.Blocks) - 1
				c.Ops = append(c.Ops, OpJS{K: "head", G: g, Block: head})
			default:
				c.Ops = append(c.Ops, OpJS{K: "bad", G: g, Bad: pick(rng, []string{"chainid", "zone", "external"})})
			}
		}
	}
	c.Txs = u.specs
	return runConc(w, c, rep)
}

// genLimitCase: sequential history with tiny global limits: truncateQueue (heartbeat order)
// and the pool-full branch of add (price heaps) fire; monitors only.
func genLimitCase(rng *hlib.Rng, w *world, id int, rep *hlib.Report) *Case {
	n := 3 + rng.Intn(2)
	c := &Case{ID: id, Kind: "limit", Cfg: genCfg(rng, "limit"), NAccts: n}
	c.Blocks = []BlockJS{{Parent: -1, State: genGenesis(rng, n)}}
	x := startRun(w, c, rep)
	g := &gen{rng: rng, x: x, big: rng.Chance(50)}
	nops := 10 + rng.Intn(25)
	for i := 0; i < nops && !x.stall; i++ {
		var op OpJS
		switch rng.Pick(80, 6, 12, 2) {
		case 0:
			op = g.genAdd()
		case 1:
			op = g.genGas()
		case 2:
			op = g.genHead()
		default:
			op = g.genBad()
		}
		x.exec(&op)
		c.Ops = append(c.Ops, op)
	}
	x.finish()
	return c
}

var evictMu sync.Mutex

// genEvictCase: short lifetime, fast eviction ticker: after a quiet period longer than the
// lifetime everything must have been evicted, and every snapshot on the way is consistent.
func genEvictCase(rng *hlib.Rng, w *world, id int, rep *hlib.Report) *Case {
	n := 2 + rng.Intn(2)
	cfg := genCfg(rng, "seq")
	cfg.LifetimeMs = 40
	c := &Case{ID: id, Kind: "evict", Cfg: cfg, NAccts: n}
	c.Blocks = []BlockJS{{Parent: -1, State: genGenesis(rng, n)}}
	return runEvict(rng, w, c, rep)
}

func runEvict(rng *hlib.Rng, w *world, c *Case, rep *hlib.Report) *Case {
	evictMu.Lock()
	old := core.VerifC19SetEvictionInterval(5 * time.Millisecond)
	x := startRun(w, c, rep)
	core.VerifC19SetEvictionInterval(old)
	evictMu.Unlock()
	replay := len(c.Ops) > 0
	if !replay {
		g := &gen{rng: rng, x: x}
		for i := 0; i < 4+rng.Intn(6); i++ {
			c.Ops = append(c.Ops, g.genAdd())
			x.exec(&c.Ops[len(c.Ops)-1])
		}
		c.Ops = append(c.Ops, OpJS{K: "sleep", Ms: 150})
	} else {
		for i := range c.Ops {
			if c.Ops[i].K != "sleep" {
				x.exec(&c.Ops[i])
			}
		}
	}
	// quiet period: several lifetimes and eviction ticks, checking consistency on the way
	deadline := time.Now().Add(4 * time.Second)
	empty := false
	for time.Now().Before(deadline) && !x.stall {
		time.Sleep(60 * time.Millisecond)
		if err := x.r.barrier(barrierTimeout); err != nil {
			x.reportStall("eviction")
			break
		}
		s := x.r.snapshot(x.u)
		x.monitorEvict(s)
		if len(s.Locals)+len(s.Remotes) == 0 {
			empty = true
			c.Final = s
			break
		}
	}
	if !empty && !x.stall {
		x.fail("evict:not-evicted", fmt.Sprintf("transactions older than Lifetime=%dms are still pooled after 4s of inactivity", c.Cfg.LifetimeMs))
	}
	x.finish()
	return c
}

// monitorEvict: eviction removes whole accounts with removeTx; the lists and the index
// must stay coherent at every quiescent point (pendingNonces included).
func (x *run) monitorEvict(s *Snap) {
	for _, v := range x.r.checkSnapshot(s, true) {
		x.fail(v.sig, "during lifetime eviction: "+v.what)
	}
}

var _ = types.QuaiTxType

// ---------- linearisability of concurrent additions ----------

// genLinCase: a few goroutines add transactions that contend for the same (account, nonce)
// slots, under wide limits (no cap, no truncation, no price change: the final quiescent
// state then does not depend on where the reorg runs fell, only on the order in which
// pool.mu serialised the calls). The final snapshot must equal the model state of SOME
// interleaving that respects every goroutine's program order (checked inside Coq).
func genLinCase(rng *hlib.Rng, w *world, id int, rep *hlib.Report) *Case {
	n := 2
	cfg := PoolCfg{PriceLimit: 1, PriceBump: pick(rng, []uint64{10, 25}), AccountSlots: 16, GlobalSlots: 64, AccountQueue: 64, GlobalQueue: 256}
	c := &Case{ID: id, Kind: "lin", Cfg: cfg, NAccts: n}
	c.Blocks = []BlockJS{{Parent: -1, State: st(1, 0, rich, 0, rich)}}
	u := newUniverse()
	ngo := 2 + rng.Intn(2)
	total := 0
	hasLocal := false
	for g := 0; g < ngo; g++ {
		nops := 1 + rng.Intn(3)
		// a history with a local addition is checked against the larger candidate set of
		// coqLin (placement of the promotion runs): kept to 4 operations
		for i := 0; i < nops && total < 6 && !(hasLocal && total >= 4); i++ {
			op := OpJS{K: "add", G: g, Local: rng.Chance(10) && total < 4}
			hasLocal = hasLocal || op.Local
			for k := 1 + rng.Pick(60, 40); k > 0; k-- {
				s := TxSpec{From: rng.Intn(n), Nonce: uint64(rng.Pick(45, 35, 20)), Price: pick(rng, []uint64{10, 11, 12, 13, 20, 25}), Gas: 21000, Value: uint64(g)}
				op.Txs = append(op.Txs, u.id(s))
			}
			c.Ops = append(c.Ops, op)
			total++
		}
	}
	c.Txs = u.specs
	c = runConc(w, c, rep)
	c.Alts = interleavings(c)
	return c
}

// interleavings enumerates the orders of c.Ops that keep each goroutine's own order.
func interleavings(c *Case) [][]int {
	groups := map[int][]int{}
	var gids []int
	for i, op := range c.Ops {
		if _, ok := groups[op.G]; !ok {
			gids = append(gids, op.G)
		}
		groups[op.G] = append(groups[op.G], i)
	}
	var out [][]int
	pos := map[int]int{}
	var rec func(cur []int)
	rec = func(cur []int) {
		if len(cur) == len(c.Ops) {
			out = append(out, append([]int{}, cur...))
			return
		}
		for _, g := range gids {
			if pos[g] < len(groups[g]) {
				i := groups[g][pos[g]]
				pos[g]++
				rec(append(cur, i))
				pos[g]--
			}
		}
	}
	rec(nil)
	return out
}

// coqLin prints a concurrent-additions case: every admissible interleaving is a candidate
// history; only the final snapshot is compared.
func (c *Case) coqLin() string {
	final := "None"
	if c.Final != nil {
		final = "Some " + c.Final.Coq()
	}
	hasLocal := false
	for _, op := range c.Ops {
		hasLocal = hasLocal || op.Local
	}
	if hasLocal && len(c.Ops) <= 5 {
		return c.coqHeader() + "[" + joinS(c.deferredAlts(final), ";\n  ") + "])"
	}
	alts := make([]string, len(c.Alts))
	for k, alt := range c.Alts {
		steps := make([]string, len(alt))
		for j, i := range alt {
			op := &c.Ops[i]
			ob := "None"
			if j == len(alt)-1 {
				ob = final
			}
			steps[j] = fmt.Sprintf("(CAdd %v %s, None, %s)", op.Local, coqInts(op.Txs), ob)
		}
		alts[k] = "[" + joinS(steps, "; ") + "]"
	}
	return c.coqHeader() + "[" + joinS(alts, ";\n  ") + "])"
}

func joinS(s []string, sep string) string {
	out := ""
	for i, x := range s {
		if i > 0 {
			out += sep
		}
		out += x
	}
	return out
}

// deferredAlts: candidate histories of a concurrent-additions case in which the placement
// of the promotion runs matters (AddRemotes/AddLocals return before the run they request;
// TxPool.add marks an account local only on the queue path, not when the transaction
// replaces a pending one, so whether an earlier transaction had already been promoted
// changes the outcome). For every interleaving of the calls: after each call but the last,
// a run promoting any subset of the accounts whose request it had taken (CRunAny: every
// subset is tried inside Coq), and a final run over all accounts.
func (c *Case) deferredAlts(final string) []string {
	all := make([]int, c.NAccts)
	for a := range all {
		all[a] = a
	}
	var out []string
	for _, alt := range c.Alts {
		var steps []string
		for jj, i := range alt {
			op := &c.Ops[i]
			steps = append(steps, fmt.Sprintf("(CAddNoRun %v %s, None, None)", op.Local, coqInts(op.Txs)))
			if jj < len(alt)-1 {
				steps = append(steps, "(CRunAny, None, None)")
			}
		}
		steps = append(steps, fmt.Sprintf("(CRunOn %s, None, %s)", coqInts(all), final))
		out = append(out, "["+joinS(steps, "; ")+"]")
	}
	return out
}

package main

// Targeted cases that always run first: the witnesses of the Coq refutations, the
// boundary values of the replacement rule, the limit and demotion paths.

type cb struct {
	c *Case
	u *universe
}

func newCB(cfg PoolCfg, gen StateJS) *cb {
	return &cb{c: &Case{Kind: "seq", Cfg: cfg, NAccts: len(gen.Nonce), Blocks: []BlockJS{{Parent: -1, State: gen}}}, u: newUniverse()}
}
func (b *cb) ids(specs ...TxSpec) []int {
	out := make([]int, len(specs))
	for i, s := range specs {
		out[i] = b.u.id(s)
	}
	return out
}
func (b *cb) add(local bool, specs ...TxSpec) *cb {
	b.c.Ops = append(b.c.Ops, OpJS{K: "add", Local: local, Txs: b.ids(specs...)})
	return b
}
func (b *cb) gas(p uint64) *cb { b.c.Ops = append(b.c.Ops, OpJS{K: "gas", Price: p}); return b }
func (b *cb) head(parent int, st StateJS, specs ...TxSpec) *cb {
	b.c.Blocks = append(b.c.Blocks, BlockJS{Parent: parent, State: st, Txs: b.ids(specs...)})
	b.c.Ops = append(b.c.Ops, OpJS{K: "head", Block: len(b.c.Blocks) - 1})
	return b
}
func (b *cb) jump(parent, skip int, st StateJS, specs ...TxSpec) *cb {
	b.c.Blocks = append(b.c.Blocks, BlockJS{Parent: parent, State: st, Txs: b.ids(specs...), Skip: skip})
	b.c.Ops = append(b.c.Ops, OpJS{K: "head", Block: len(b.c.Blocks) - 1})
	return b
}
func (b *cb) evict(side string, acct int) *cb {
	b.c.Evictable = true
	b.c.Ops = append(b.c.Ops, OpJS{K: "evict", Side: side, Acct: acct})
	return b
}
func (b *cb) done(note string) *Case { b.c.Txs = b.u.specs; b.c.Note = note; return b.c }

func tx(from int, nonce, price uint64) TxSpec {
	return TxSpec{From: from, Nonce: nonce, Price: price, Gas: 21000}
}
func txv(from int, nonce, price, value uint64) TxSpec {
	return TxSpec{From: from, Nonce: nonce, Price: price, Gas: 21000, Value: value}
}

func st(basefee uint64, nb ...uint64) StateJS { // nonce,balance pairs
	s := StateJS{BaseFee: basefee, MaxGas: 5000000}
	for i := 0; i+1 < len(nb); i += 2 {
		s.Nonce = append(s.Nonce, nb[i])
		s.Bal = append(s.Bal, nb[i+1])
	}
	return s
}

const rich = 1000000000000

func corpus() []*Case {
	wide := PoolCfg{PriceLimit: 1, PriceBump: 10, AccountSlots: 16, GlobalSlots: 64, AccountQueue: 16, GlobalQueue: 256}
	var out []*Case

	// Coq witness w_gap_history (pending_contiguous_refuted): two transactions mined on a branch,
	// a third added on top, reorganisation back; the re-injected nonce 1 is below the price limit.
	{
		cfg := wide
		cfg.PriceLimit = 5
		b := newCB(cfg, st(1, 0, 1000000000))
		A, B, C := tx(0, 0, 10), tx(0, 1, 3), tx(0, 2, 10)
		b.head(0, st(1, 2, 1000000000), A, B).add(false, C).head(0, st(1, 0, 1000000000))
		out = append(out, b.done("witness of pending_contiguous_refuted"))
	}
	// same shape, but every re-injected transaction is accepted: no gap
	{
		b := newCB(wide, st(1, 0, rich))
		A, B, C := tx(0, 0, 10), tx(0, 1, 3), tx(0, 2, 10)
		b.head(0, st(1, 2, rich), A, B).add(false, C).head(0, st(1, 0, rich))
		out = append(out, b.done("reorganisation with complete re-injection"))
	}
	// Coq witness w_two (cumulative_affordability_refuted)
	{
		b := newCB(wide, st(1, 0, 300000))
		b.add(false, tx(0, 0, 10), tx(0, 1, 10))
		out = append(out, b.done("witness of cumulative_affordability_refuted"))
	}
	// replacement boundaries, pending and queued, several bumps
	for _, bump := range []uint64{10, 25, 1, 100} {
		cfg := wide
		cfg.PriceBump = bump
		b := newCB(cfg, st(1, 0, rich, 0, rich))
		b.add(false, tx(0, 0, 10), tx(0, 1, 20), tx(0, 3, 10), tx(1, 1, 1), tx(1, 2, 3))
		for _, base := range []TxSpec{tx(0, 0, 10), tx(0, 1, 20), tx(0, 3, 10), tx(1, 1, 1), tx(1, 2, 3)} {
			thr := base.Price * (100 + bump) / 100
			for _, p := range []uint64{base.Price, thr - 1, thr, base.Price + 1} {
				if p == 0 {
					continue
				}
				b.add(false, txv(base.From, base.Nonce, p, 1))
			}
		}
		out = append(out, b.done("replacement boundaries"))
	}
	// AccountQueue cap and promotion across a filled gap
	{
		cfg := wide
		cfg.AccountQueue = 2
		b := newCB(cfg, st(1, 0, rich))
		b.add(false, tx(0, 2, 5), tx(0, 3, 5), tx(0, 4, 5), tx(0, 5, 5)).add(false, tx(0, 1, 5)).add(false, tx(0, 0, 5))
		out = append(out, b.done("queue cap, gap filled"))
	}
	// truncatePending: three spammers above AccountSlots, GlobalSlots small
	{
		cfg := wide
		cfg.AccountSlots, cfg.GlobalSlots = 1, 4
		b := newCB(cfg, st(1, 0, rich, 0, rich, 0, rich))
		b.add(false, tx(0, 0, 5), tx(0, 1, 5), tx(0, 2, 5), tx(0, 3, 5)).
			add(false, tx(1, 0, 5), tx(1, 1, 5), tx(1, 2, 5)).
			add(false, tx(2, 0, 5), tx(2, 1, 5)).add(false, tx(2, 2, 5))
		out = append(out, b.done("truncatePending equalisation"))
	}
	// SetGasPrice: cheap remote at the front of pending drops, the rest is demoted; locals are exempt
	{
		b := newCB(wide, st(1, 0, rich, 0, rich))
		b.add(false, tx(0, 0, 2), tx(0, 1, 9), tx(0, 2, 9)).add(true, tx(1, 0, 2), tx(1, 1, 2)).gas(5).gas(1).
			add(false, tx(0, 0, 9)).add(false, tx(1, 2, 2))
		out = append(out, b.done("price change with demotion and local exemption"))
	}
	// balance / gas-limit drop: an unpayable transaction in the middle invalidates the rest
	{
		b := newCB(wide, st(1, 0, rich))
		b.add(false, tx(0, 0, 5), tx(0, 1, 40), tx(0, 2, 5), tx(0, 4, 5)).
			head(0, st(1, 0, 21000*15)).head(1, st(1, 1, rich), tx(0, 0, 5)).
			add(false, TxSpec{From: 0, Nonce: 2, Price: 5, Gas: 50000})
		s := st(1, 1, rich)
		s.MaxGas = 25000
		b.head(2, s)
		out = append(out, b.done("demotion by balance and by gas limit"))
	}
	// base fee rises above pooled prices, known / stale / underfunded / intrinsic rejections
	{
		b := newCB(wide, st(2, 3, 21000*60+500))
		b.add(false, tx(0, 3, 2), tx(0, 3, 2), tx(0, 2, 9), tx(0, 4, 100), TxSpec{From: 0, Nonce: 4, Price: 9, Gas: 20000}, tx(0, 4, 1)).
			add(true, tx(0, 4, 9)).head(0, st(12, 3, rich)).add(false, tx(0, 5, 9), tx(0, 5, 12))
		out = append(out, b.done("validation verdicts"))
	}
	// refused transactions, one per kind (Qi transactions: the error-merging path of addTxs)
	{
		b := newCB(wide, st(1, 0, rich))
		b.add(false, tx(0, 0, 5))
		for _, k := range []string{"chainid", "zone", "external", "qi-noinput", "qi-inactive", "qi-inactive2"} {
			b.c.Ops = append(b.c.Ops, OpJS{K: "bad", Bad: k})
		}
		out = append(out, b.done("refused transactions"))
	}
	// cached list thresholds (txList.costcap / gascap): a same-nonce replacement that costs
	// more / uses more gas than anything the list has seen, then head events whose balance /
	// block gas limit sits at the boundaries of the window [old threshold, new maximum]:
	// pending (demoteUnexecutables) and queue (promoteExecutables), raise by price, value, gas.
	for _, side := range []string{"pending", "queue"} {
		n0 := uint64(0)
		if side == "queue" {
			n0 = 2
		}
		A := TxSpec{From: 0, Nonce: n0, Price: 10, Gas: 21000, Value: 1000}    // cost 211000: the list's threshold
		B := TxSpec{From: 0, Nonce: n0 + 1, Price: 10, Gas: 21000, Value: 500} // cost 210500
		oldCap := A.Cost().Uint64()
		for _, raise := range []string{"price", "value", "gas"} {
			R := B
			switch raise {
			case "price":
				R.Price = 20
			case "value":
				R.Price, R.Value = 11, 500000
			case "gas":
				R.Price, R.Gas = 11, 50000
			}
			c := R.Cost().Uint64()
			gasSt := func(bal, maxgas uint64) StateJS { s := st(1, 0, bal); s.MaxGas = maxgas; return s }
			for variant := 0; variant < 2; variant++ {
				b := newCB(wide, st(1, 0, 10000000))
				b.add(false, A, B).add(false, R)
				switch {
				case raise != "gas" && variant == 0:
					b.head(0, st(1, 0, c)).head(1, st(1, 0, c-1)).add(false, R)
				case raise != "gas":
					b.head(0, st(1, 0, oldCap)).head(1, st(1, 0, oldCap-1)).head(2, st(1, 0, rich)).add(false, R)
				case variant == 0:
					b.head(0, gasSt(10000000, R.Gas)).head(1, gasSt(10000000, R.Gas-1)).add(false, R)
				default:
					b.head(0, gasSt(10000000, 21000)).head(1, gasSt(10000000, 20999)).head(2, gasSt(10000000, 5000000)).add(false, R)
				}
				out = append(out, b.done("list thresholds after a "+raise+"-raising replacement ("+side+")"))
			}
		}
	}
	// the same through a mined earlier nonce: the balance falls between the cost of the
	// replaced transaction and the cost of its replacement
	{
		b := newCB(wide, st(1, 0, 10000000))
		T0, T1, T1b := txv(0, 0, 10, 4000000), txv(0, 1, 10, 3000000), txv(0, 1, 20, 6000000)
		b.add(false, T0, T1).add(false, T1b).head(0, st(1, 1, 10000000-4210000), T0)
		out = append(out, b.done("replacement unaffordable after the earlier nonce is mined"))
	}
	// known finding validate:rejected-tx-evicted-pooled:pool-full:chainid -- a full pool, then a
	// transaction signed for another chain id that pays more than the cheapest pooled one
	{
		cfg := wide
		// (added in two calls, so that the queue never holds more than GlobalQueue transactions,
		// not even before the promotion run: an idle timer run in between would truncate it)
		cfg.GlobalSlots, cfg.GlobalQueue = 1, 3
		b := newCB(cfg, st(1, 0, rich, 0, rich))
		b.add(false, tx(1, 0, 2)).add(false, tx(1, 2, 3), tx(1, 3, 3), tx(1, 4, 3))
		b.c.Ops = append(b.c.Ops, OpJS{K: "bad", Bad: "chainid"})
		b.c.Kind = "limit" // the pool-full branch is outside the model
		out = append(out, b.done("full pool, refused transaction of another chain id evicts"))
	}
	// lifetime eviction of one list (evict_pending_exact / evict_queue_exact): the followers of the
	// first pending transaction pass through the queue and must leave it again, the account's own
	// queue and the other account stay; then the evicted slots are filled again
	{
		b := newCB(wide, st(1, 0, rich, 0, rich))
		b.add(false, tx(0, 0, 5), tx(0, 1, 5), tx(0, 2, 5), tx(0, 5, 5), tx(1, 0, 7), tx(1, 3, 7)).
			evict("p", 0).add(false, tx(0, 1, 5)).add(false, tx(0, 0, 5)).
			evict("q", 1).evict("q", 0).evict("p", 1).evict("p", 1).add(false, tx(1, 0, 7), tx(0, 2, 5))
		out = append(out, b.done("lifetime eviction of pending and queue lists"))
	}
	// eviction of a local account's lists, and of a pending list standing at a state nonce > 0
	// after a head event (pendingNonces must fall back to the state nonce, not to 0)
	{
		b := newCB(wide, st(1, 0, rich, 0, rich))
		b.add(true, tx(0, 0, 5), tx(0, 1, 5), tx(0, 3, 5)).add(false, tx(1, 0, 7), tx(1, 1, 7), tx(1, 2, 7)).
			head(0, st(1, 1, rich, 2, rich), tx(0, 0, 5), tx(1, 0, 7), tx(1, 1, 7)).
			evict("p", 1).evict("p", 0).add(false, tx(1, 3, 7)).evict("q", 0).evict("q", 1).add(true, tx(0, 1, 6))
		out = append(out, b.done("lifetime eviction after a head event, local account"))
	}
	// head events far away from the current head (TxPool.reset skips the re-injection when the
	// heads are more than 64 numbers apart and not parent/child; the state must still follow):
	// forward over 66 numbers with two nonces consumed on the way, back over 65 (the stale pending
	// list stands in front of a gap and is demoted), forward again by exactly 64 / 65 numbers
	for _, d := range []int{64, 65} {
		b := newCB(wide, st(1, 0, rich, 0, rich))
		b.add(false, tx(0, 0, 5), tx(0, 1, 5), tx(0, 2, 5), tx(1, 0, 7), tx(1, 2, 7)).
			jump(0, 65, st(1, 2, 21000*5*2, 1, rich)).
			add(false, tx(0, 3, 5), tx(1, 1, 7)).
			head(0, st(1, 0, rich, 0, rich)).
			add(false, tx(0, 0, 5), tx(0, 1, 6)).
			jump(2, d-1, st(1, 1, rich, 3, 21000*7), tx(0, 0, 5)).
			add(false, tx(1, 3, 7), tx(0, 2, 5))
		out = append(out, b.done("head events more than 64 numbers away (no re-injection, state follows)"))
	}
	return out
}

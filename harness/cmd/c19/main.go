// C19 harness: the real core.TxPool over a mock chain.
//
//	(i)   sequential histories (adds with replacements, price changes, head events with
//	      reorganisations): after every operation the harness waits for a quiescent point,
//	      snapshots the pool internals (hook, under pool.mu) and writes the projected
//	      snapshot into a Coq case; the model must reproduce every snapshot and verdict;
//	(ii)  model-independent monitors on every snapshot (monitors.go);
//	(iii) concurrent histories, size-limit histories (out of the model's scope) and
//	      lifetime-eviction histories: monitors only, with a deadlock watchdog.
package main

import (
	"encoding/json"
	"fmt"
	"strings"
	"sync/atomic"
	"time"

	"github.com/sirupsen/logrus"

	"github.com/dominant-strategies/go-quai/log"

	"verifharness/hlib"
)

const barrierTimeout = 10 * time.Second

// stalls counts histories that never reached a quiescent point; after a few of them the
// remaining generation is abandoned (every further one would cost a full timeout).
var stalls atomic.Int64

const maxStalls = 3

var (
	theLogger  *log.Logger
	panicCount atomic.Int64
	panicSeen  atomic.Int64
	lastPanic  atomic.Value
	errLogs    atomic.Int64
)

type logHook struct{}

func (logHook) Levels() []logrus.Level {
	return []logrus.Level{logrus.ErrorLevel, logrus.FatalLevel, logrus.PanicLevel}
}
func (logHook) Fire(e *logrus.Entry) error {
	if strings.Contains(e.Message, "Panicked") {
		panicCount.Add(1)
		lastPanic.Store(fmt.Sprintf("%v | %.1500s", e.Data["error"], fmt.Sprint(e.Data["stacktrace"])))
	} else {
		errLogs.Add(1)
	}
	return nil
}

const coqHeader = "From Coq Require Import List NArith Bool.\nFrom GQ Require Import Model.C19.\nImport ListNotations.\nLocal Open Scope N_scope.\n"

func main() {
	f := hlib.ParseFlags()
	theLogger = hlib.QuietLogs()
	theLogger.SetLevel(logrus.ErrorLevel)
	theLogger.AddHook(logHook{})
	lastPanic.Store("")
	rng := hlib.NewRng(f.Seed)
	rep := hlib.NewReport("C19", "real core.TxPool over a mock chain; sequential histories of 6-25 operations (add batches with same-nonce replacements at the bump boundary, "+
		"SetGasPrice, head events incl. reorganisations that re-inject, refused transactions) over 2-4 accounts, every quiescent snapshot compared with the Coq model and checked by the invariant monitors; "+
		"plus concurrent, size-limit and lifetime-eviction histories checked by the monitors only; plus stand-alone txLists (Add with cost/gas-raising replacements, Filter at the boundaries of the content and of the cached thresholds, Forward/Remove/Cap/Ready) compared with the cached-list model after every operation. Non-trivial = some snapshot has an account with both pending and queued transactions (list cases: some Filter removed a transaction); distinct by operation/verdict/shape trace")
	cw := hlib.NewCaseWriter(f.Out, coqHeader, "C19.case", 25)
	w := newWorld(4)

	emit := func(c *Case) {
		rep.Evaluations++
		rep.Count("kind:" + c.Kind)
		for i := range c.Ops {
			op := c.Ops[i]
			rep.Count("op:" + op.K)
			for _, v := range op.Verdicts {
				rep.Count("verdict:" + verdictCoq[v])
			}
			if op.K == "head" {
				if _, _, ext := c.reorgSets(c.headBefore(&op), op.Block); ext {
					rep.Count("head:extension")
				} else {
					rep.Count("head:reorg")
				}
			}
		}
		if fp, nt := c.fingerprint(); nt {
			rep.Nontrivial(fp)
		}
		switch c.Kind {
		case "list":
			cw.Add(c.coqList(), c)
			rep.TracesValidated++
		case "seq":
			cw.Add(c.coqSeq(), c)
			rep.TracesValidated++
		case "lin":
			if c.Final != nil {
				cw.Add(c.coqLin(), c)
				rep.TracesValidated++
				rep.CountN("lin:interleavings", len(c.Alts))
			} else {
				cw.AddJSONOnly(c)
			}
		default:
			cw.AddJSONOnly(c)
		}
		rep.Sample(c.summary())
	}

	if f.Replay != "" {
		var c Case
		hlib.ReadReplayCase(f.Replay, &c)
		emit(replayCase(w, &c, rep))
	} else {
		// decorrelate the streams of consecutive seeds (hlib.NewRng(s+1) is NewRng(s) advanced once)
		rng = hlib.NewRng(mix(f.Seed))
		id := 0
		for _, c := range append(corpus(), listCorpus()...) {
			c.ID = id
			id++
			if stalls.Load() < maxStalls {
				emit(replayCase(w, c, rep))
			}
		}
		nseq := f.N
		nconc, nlimit, nevict, nlin, nlist := f.N/6, f.N/8, 3, f.N/10, f.N/3
		if f.Tier == "thorough" {
			nevict = 12
		}
		for i := 0; i < nseq && stalls.Load() < maxStalls; i++ {
			emit(genSeqCase(rng.Fork(), w, id, rep))
			id++
		}
		for i := 0; i < nlimit && stalls.Load() < maxStalls; i++ {
			emit(genLimitCase(rng.Fork(), w, id, rep))
			id++
		}
		for i := 0; i < nconc && stalls.Load() < maxStalls; i++ {
			emit(genConcCase(rng.Fork(), w, id, rep))
			id++
		}
		for i := 0; i < nlin && stalls.Load() < maxStalls; i++ {
			emit(genLinCase(rng.Fork(), w, id, rep))
			id++
		}
		for i := 0; i < nevict && stalls.Load() < maxStalls; i++ {
			emit(genEvictCase(rng.Fork(), w, id, rep))
			id++
		}
		for i := 0; i < nlist; i++ {
			emit(genListCase(rng.Fork(), w, id, rep))
			id++
		}
		if stalls.Load() >= maxStalls {
			rep.Note("generation abandoned after repeated stalls of the pool")
		}
	}
	if n := errLogs.Load(); n > 0 {
		rep.Note(fmt.Sprintf("%d error-level log lines were emitted by the pool (not failures by themselves)", n))
	}
	cw.Close()
	rep.Write(f.Out)
}

func replayCase(w *world, c *Case, rep *hlib.Report) *Case {
	switch c.Kind {
	case "conc", "lin":
		for i := range c.Ops {
			c.Ops[i].Verdicts, c.Ops[i].Snap = nil, nil
		}
		c = runConc(w, c, rep)
		if c.Kind == "lin" {
			c.Alts = interleavings(c)
		}
		return c
	case "evict":
		return runEvict(nil, w, c, rep)
	case "list":
		return replayList(w, c, rep)
	default:
		return replaySeq(w, c, rep)
	}
}

func mix(x uint64) uint64 {
	x ^= x >> 33
	x *= 0xff51afd7ed558ccd
	x ^= x >> 33
	x *= 0xc4ceb9fe1a85ec53
	x ^= x >> 33
	return x + 0x9e3779b97f4a7c15
}

// headBefore returns the head block index in force before op (ops are scanned in order).
func (c *Case) headBefore(op *OpJS) int {
	head := 0
	for i := range c.Ops {
		if &c.Ops[i] == op || (c.Ops[i].K == "head" && c.Ops[i].Block == op.Block) {
			return head
		}
		if c.Ops[i].K == "head" {
			head = c.Ops[i].Block
		}
	}
	return head
}

func (c *Case) summary() any {
	b, _ := json.Marshal(c)
	if len(b) > 1500 {
		return map[string]any{"id": c.ID, "kind": c.Kind, "cfg": c.Cfg, "ops": len(c.Ops), "txs": len(c.Txs)}
	}
	return c
}

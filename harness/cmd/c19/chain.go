package main

// Mock blockChain for core.TxPool (the pool only needs the interface below), in the
// spirit of go-ethereum's testBlockChain: a table of blocks with parent links and
// bodies, a table of account states keyed by the head's EVM root, and a head feed.
// It also counts two calls the pool makes on every reorg run, which the harness uses
// as an observation point for its quiescence barrier (no pool code is changed).

import (
	"encoding/binary"
	"math/big"
	"sync"
	"sync/atomic"

	"github.com/dominant-strategies/go-quai/common"
	"github.com/dominant-strategies/go-quai/consensus"
	"github.com/dominant-strategies/go-quai/core"
	"github.com/dominant-strategies/go-quai/core/state"
	"github.com/dominant-strategies/go-quai/core/types"
	"github.com/dominant-strategies/go-quai/ethdb"
	"github.com/dominant-strategies/go-quai/event"
	"github.com/dominant-strategies/go-quai/log"
)

var zoneLoc = common.Location{0, 0}

// AcctState is the chain state of one account at one head.
type AcctState struct {
	Nonce   uint64
	Balance *big.Int
}

type ChainState struct {
	Accts   []AcctState // indexed like world.accts
	BaseFee uint64
	MaxGas  uint64
}

func (s *ChainState) clone() *ChainState {
	c := &ChainState{BaseFee: s.BaseFee, MaxGas: s.MaxGas, Accts: make([]AcctState, len(s.Accts))}
	for i, a := range s.Accts {
		c.Accts[i] = AcctState{a.Nonce, new(big.Int).Set(a.Balance)}
	}
	return c
}

type mockChain struct {
	mu       sync.Mutex // tables and cur
	headMu   sync.Mutex // serialises head announcements
	w        *world
	db       ethdb.Database
	logger   *log.Logger
	cur      *types.WorkObject
	posted   *types.WorkObject // last head announced (nil: none since creation)
	blocks   map[common.Hash]*types.WorkObject
	states   map[common.Hash]*ChainState // by EVM root
	feed     event.Feed
	serial   uint64
	runs     atomic.Int64 // GetMaxTxInWorkShare calls = completed runReorg bodies
	lastRoot atomic.Value // common.Hash of the last StateAt root
	stateAts atomic.Int64
}

func newMockChain(w *world, db ethdb.Database, logger *log.Logger, genesis *ChainState) *mockChain {
	c := &mockChain{w: w, db: db, logger: logger, blocks: map[common.Hash]*types.WorkObject{}, states: map[common.Hash]*ChainState{}}
	c.lastRoot.Store(common.Hash{})
	g := c.makeBlock(nil, genesis, nil)
	c.cur = g
	return c
}

// makeBlock builds (and registers) a child of parent carrying txs, whose state is st.
func (c *mockChain) makeBlock(parent *types.WorkObject, st *ChainState, txs []*types.Transaction) *types.WorkObject {
	c.mu.Lock()
	defer c.mu.Unlock()
	c.serial++
	wo := types.EmptyWorkObject(common.ZONE_CTX)
	wo.WorkObjectHeader().SetLocation(zoneLoc)
	var root common.Hash
	binary.BigEndian.PutUint64(root[24:], c.serial)
	root[0] = 0xC1
	wo.Header().SetEVMRoot(root)
	wo.Header().SetBaseFee(new(big.Int).SetUint64(st.BaseFee))
	wo.Header().SetGasLimit(st.MaxGas)
	wo.WorkObjectHeader().SetTime(c.serial)
	wo.WorkObjectHeader().SetNonce(types.EncodeNonce(c.serial))
	if parent != nil {
		wo.WorkObjectHeader().SetParentHash(parent.Hash())
		wo.WorkObjectHeader().SetNumber(new(big.Int).SetUint64(parent.NumberU64(common.ZONE_CTX) + 1))
	}
	wo.Body().SetTransactions(txs)
	c.blocks[wo.Hash()] = wo
	c.states[root] = st.clone()
	return wo
}

// setHead makes b the current block and announces it (serialised: the order of
// announcements is the order of head changes).
func (c *mockChain) setHead(b *types.WorkObject) {
	c.headMu.Lock()
	c.mu.Lock()
	c.cur = b
	c.posted = b
	c.mu.Unlock()
	c.feed.Send(core.ChainHeadEvent{Block: b})
	c.headMu.Unlock()
}

func (c *mockChain) head() *types.WorkObject {
	c.mu.Lock()
	defer c.mu.Unlock()
	return c.cur
}

func (c *mockChain) lastPosted() *types.WorkObject {
	c.mu.Lock()
	defer c.mu.Unlock()
	return c.posted
}

func (c *mockChain) stateOf(b *types.WorkObject) *ChainState {
	c.mu.Lock()
	defer c.mu.Unlock()
	return c.states[b.EVMRoot()]
}

// ---- core.blockChain ----

func (c *mockChain) CurrentBlock() *types.WorkObject { return c.head() }
func (c *mockChain) GetBlock(hash common.Hash, number uint64) *types.WorkObject {
	c.mu.Lock()
	defer c.mu.Unlock()
	return c.blocks[hash]
}
func (c *mockChain) StateAt(root, etxRoot common.Hash, quaiStateSize *big.Int) (*state.StateDB, error) {
	c.mu.Lock()
	st := c.states[root]
	c.mu.Unlock()
	sdb, err := state.New(types.EmptyRootHash, types.EmptyRootHash, new(big.Int), state.NewDatabase(c.db), state.NewDatabase(c.db), nil, zoneLoc, c.logger)
	if err != nil {
		return nil, err
	}
	if st != nil {
		for i, a := range st.Accts {
			sdb.SetNonce(c.w.accts[i].internal, a.Nonce)
			sdb.SetBalance(c.w.accts[i].internal, new(big.Int).Set(a.Balance))
		}
	}
	c.lastRoot.Store(root)
	c.stateAts.Add(1)
	return sdb, nil
}
func (c *mockChain) SubscribeChainHeadEvent(ch chan<- core.ChainHeadEvent) event.Subscription {
	return c.feed.Subscribe(ch)
}
func (c *mockChain) IsGenesisHash(hash common.Hash) bool { return false }
func (c *mockChain) CheckIfEtxIsEligible(hash common.Hash, location common.Location) bool {
	return true
}
func (c *mockChain) Engine(header *types.WorkObjectHeader) consensus.Engine { return nil }
func (c *mockChain) GetHeaderOrCandidateByHash(h common.Hash) *types.WorkObject {
	return c.GetBlock(h, 0)
}
func (c *mockChain) NodeCtx() int                                    { return common.ZONE_CTX }
func (c *mockChain) GetHeaderByHash(h common.Hash) *types.WorkObject { return c.GetBlock(h, 0) }
func (c *mockChain) GetBlockByHash(h common.Hash) *types.WorkObject  { return c.GetBlock(h, 0) }
func (c *mockChain) GetMaxTxInWorkShare() uint64 {
	c.runs.Add(1)
	return 1 << 20
}
func (c *mockChain) CheckInCalcOrderCache(common.Hash) (*big.Int, int, bool) { return nil, 0, false }
func (c *mockChain) AddToCalcOrderCache(common.Hash, int, *big.Int)          {}
func (c *mockChain) CalcBaseFee(wo *types.WorkObject) *big.Int               { return wo.BaseFee() }
func (c *mockChain) CalcOrder(*types.WorkObject) (*big.Int, int, error) {
	return new(big.Int), common.ZONE_CTX, nil
}

// C08 harness, case kind "powfilter": the HeaderChain's memoised PoW hashes (powHashCache, keyed by block
// hash) as used by BlockValidator.ApplyPoWFilter (the gossip PoW filter for blocks / headers) and
// Core.EntropyWindow.  A HISTORY of deliveries is run on one chain object: several blocks with different
// amounts of work (sealed, on the boundary, just above the target, far above it, engine error), each
// delivered several times in random order, interleaved with EntropyWindow calls and head changes.
//
// Monitors (model-independent; ground truth = big.Int product hash*difficulty <= 2^256 and no engine error):
//   - pow-filter-unsealed-not-rejected:<class>:<first|repeat>   a block whose seal is invalid is not Rejected
//   - pow-filter-cache-transparency:<class>                     the verdict differs from the verdict of a brand-new
//     chain object with the same head (either direction)
//   - pow-hash-cache-holds-unverified:<class>                   after any step the cache holds an entry for a block whose
//     seal is invalid, or a value that is not the block's PoW hash
//   - entropy-window-on-unsealed-head / entropy-window-cache-transparency
//   - panic:ApplyPoWFilter:<class>, panic:EntropyWindow
package main

import (
	"fmt"
	"math/big"

	"github.com/dominant-strategies/go-quai/common"
	"github.com/dominant-strategies/go-quai/consensus"
	"github.com/dominant-strategies/go-quai/core"
	"github.com/dominant-strategies/go-quai/core/rawdb"
	"github.com/dominant-strategies/go-quai/core/types"
	"github.com/dominant-strategies/go-quai/params"
	pubsub "github.com/libp2p/go-libp2p-pubsub"

	"verifharness/hlib"
)

func powfilterCorpus() []string {
	return []string{"underworked-repeat", "boundary-repeat", "engine-err-repeat", "far-repeat", "bad-head", "err-head",
		"genesis-head", "failed-block-becomes-head", "mixed"}
}

type pfObj struct {
	class  string // ok, ok-boundary, near (just above the target), above (1.5x), far, err
	nonce  uint64
	number int64
	parent common.Hash
	diff   *big.Int
	hash   common.Hash // what the engine answers
	err    bool
	valid  bool // ground truth
}

func (o *pfObj) build() *types.WorkObject {
	wo := types.EmptyZoneWorkObject()
	wo.SetNumber(big.NewInt(o.number), common.ZONE_CTX)
	wo.SetParentHash(o.parent, common.ZONE_CTX)
	wo.WorkObjectHeader().SetDifficulty(new(big.Int).Set(o.diff))
	wo.WorkObjectHeader().SetPrimeTerminusNumber(big.NewInt(1)) // before the KawPow fork
	wo.WorkObjectHeader().SetTime(1700000000 + uint64(o.number))
	wo.WorkObjectHeader().SetData([]byte{0})
	wo.WorkObjectHeader().SetHeaderHash(wo.Header().Hash())
	wo.WorkObjectHeader().SetNonce(types.EncodeNonce(o.nonce))
	return wo
}

func pfMkObj(r *hlib.Rng, class string, nonce uint64, diff *big.Int) *pfObj {
	o := &pfObj{class: class, nonce: nonce, number: int64(11 + r.Intn(5)), diff: diff}
	o.parent[0] = 0xbb
	o.parent[1] = byte(nonce)
	o.parent[2] = byte(r.Intn(256))
	t := new(big.Int).Div(two256, diff)
	var hv *big.Int
	switch class {
	case "ok":
		hv = new(big.Int).Div(t, big.NewInt(int64(2+r.Intn(3))))
	case "ok-boundary":
		hv = new(big.Int).Set(t)
	case "near":
		hv = new(big.Int).Add(t, big.NewInt(int64(1+r.Intn(3))))
	case "above":
		hv = new(big.Int).Div(new(big.Int).Mul(t, big.NewInt(3)), big.NewInt(2))
	case "far":
		hv = new(big.Int).Sub(two256, big.NewInt(int64(1+r.Intn(1000))))
	case "err":
		hv = big.NewInt(0)
		o.err = true
	}
	if hv.Sign() == 0 && !o.err {
		hv = big.NewInt(1)
	}
	if hv.BitLen() > 256 {
		hv = new(big.Int).Sub(two256, big.NewInt(1))
	}
	o.hash = hashOf(hv)
	o.valid = !o.err && new(big.Int).Mul(hv, diff).Cmp(two256) <= 0
	return o
}

type pfChain struct {
	hc  *core.HeaderChain
	v   *core.BlockValidator
	eng *core.VerifC08NonceEngine
}

func pfNewChain(objs []*pfObj, genesis common.Hash) *pfChain {
	eng := &core.VerifC08NonceEngine{ByNonce: map[uint64]common.Hash{}, ErrNonce: map[uint64]bool{}}
	for _, o := range objs {
		eng.ByNonce[o.nonce] = o.hash
		if o.err {
			eng.ErrNonce[o.nonce] = true
		}
	}
	hc := core.VerifC08NewHeaderChain(rawdb.NewMemoryDatabase(logger), common.Location{0, 0}, params.ModeNormal, 4,
		[]consensus.Engine{eng, eng}, []common.Hash{genesis}, logger)
	return &pfChain{hc: hc, v: core.NewBlockValidator(hc.Config(), hc, []consensus.Engine{eng, eng}), eng: eng}
}

func pfRes(x pubsub.ValidationResult) string {
	switch x {
	case pubsub.ValidationAccept:
		return "Accept"
	case pubsub.ValidationReject:
		return "Reject"
	case pubsub.ValidationIgnore:
		return "Ignore"
	}
	return fmt.Sprint(int(x))
}

func casePowFilter(h *H, r *hlib.Rng, variant string) {
	// difficulty: the relay heuristic compares log-entropies, any size will do
	diff := new(big.Int).Add(big.NewInt(1000), randBig(r, 8+r.Intn(56)))
	classes := []string{"ok", "ok-boundary", "near", "above", "far", "err"}
	headClass := "ok"
	var want []string
	switch variant {
	case "underworked-repeat":
		want = []string{"above"}
	case "boundary-repeat":
		want = []string{"near", "ok-boundary"}
	case "engine-err-repeat":
		want = []string{"err"}
	case "far-repeat":
		want = []string{"far"}
	case "bad-head":
		headClass, want = "above", []string{"ok", "near"}
	case "err-head":
		headClass, want = "err", []string{"ok", "above"}
	case "genesis-head":
		want = []string{"above", "err", "ok"}
	case "failed-block-becomes-head":
		want = []string{"above", "ok"}
	case "mixed":
		want = classes
	default:
		n := 2 + r.Intn(4)
		for i := 0; i < n; i++ {
			// two thirds of the objects carry an invalid seal
			if r.Intn(3) == 0 {
				want = append(want, classes[r.Intn(2)])
			} else {
				want = append(want, classes[2+r.Intn(4)])
			}
		}
		if r.Intn(4) == 0 {
			headClass = classes[2+r.Intn(4)]
		}
	}
	head := pfMkObj(r, headClass, 1, diff)
	head.number = 10
	head.parent = common.Hash{0xaa}
	objs := []*pfObj{head}
	for i, c := range want {
		objs = append(objs, pfMkObj(r, c, uint64(2+i), diff))
	}
	genesis := common.Hash{0x67, 0x65, 0x6e}
	genesisHead := variant == "genesis-head" || (variant == "" && r.Intn(6) == 0)
	if genesisHead {
		genesis = head.build().Hash()
	}
	byHash := map[common.Hash]*pfObj{}
	for _, o := range objs {
		byHash[o.build().Hash()] = o
	}

	warm := pfNewChain(objs, genesis)
	curHead := head
	warm.hc.VerifC08SetCurrentHeader(curHead.build())

	// cold verdict: a brand-new chain object with the same head
	cold := func(o *pfObj, hd *pfObj) (string, string) {
		c := pfNewChain(objs, genesis)
		c.hc.VerifC08SetCurrentHeader(hd.build())
		var res pubsub.ValidationResult
		if p := guard(func() { res = c.v.ApplyPoWFilter(o.build()) }); p != "" {
			return "Panic", p
		}
		return pfRes(res), ""
	}
	coldWindow := func(hd *pfObj) string {
		c := pfNewChain(objs, genesis)
		c.hc.VerifC08SetCurrentHeader(hd.build())
		var w *big.Int
		if p := guard(func() { w = c.hc.VerifC08EntropyWindow() }); p != "" {
			return "Panic"
		}
		if w == nil {
			return "nil"
		}
		return w.String()
	}
	// one report per signature and case: a history repeats the same failure many times
	reported := map[string]bool{}
	fail := func(sig, what string) {
		if !reported[sig] {
			reported[sig] = true
			h.fail(sig, what)
		}
	}
	checkCache := func(step string) {
		for _, k := range warm.hc.VerifC08PowHashCacheKeys() {
			v, _ := warm.hc.VerifC08PeekPowHash(k)
			o, ok := byHash[k]
			switch {
			case !ok:
				fail("pow-hash-cache-holds-unverified:unknown-block", fmt.Sprintf("after %s the PoW hash cache has an entry for block hash %s that was never verified", step, k.Hex()))
			case !o.valid:
				fail("pow-hash-cache-holds-unverified:"+o.class, fmt.Sprintf("after %s the PoW hash cache holds %s for a block (class %s, difficulty %s, engine error %v) whose seal is INVALID: a later lookup skips the seal check", step, v.Hex(), o.class, o.diff, o.err))
			case v != o.hash:
				fail("pow-hash-cache-holds-unverified:wrong-value", fmt.Sprintf("after %s the PoW hash cache holds %s for a block whose PoW hash is %s", step, v.Hex(), o.hash.Hex()))
			}
		}
	}

	steps := 6 + r.Intn(7)
	if variant != "" {
		steps = 4 * len(want)
	}
	seen := map[uint64]int{}
	var trace []string
	for s := 0; s < steps; s++ {
		// now and then: the entropy window of the current head
		if r.Intn(4) == 0 || (variant != "" && s%3 == 2) {
			var w *big.Int
			if p := guard(func() { w = warm.hc.VerifC08EntropyWindow() }); p != "" {
				fail("panic:EntropyWindow", "Core.EntropyWindow panicked: "+p)
			} else if !genesisHead {
				got := "nil"
				if w != nil {
					got = w.String()
				}
				if !curHead.valid && w != nil {
					fail("entropy-window-on-unsealed-head", fmt.Sprintf("EntropyWindow answered %s for a head (class %s) whose seal is invalid", got, curHead.class))
				}
				if cw := coldWindow(curHead); cw != got {
					fail("entropy-window-cache-transparency", fmt.Sprintf("EntropyWindow answered %s after the history %v, a new chain object answers %s", got, trace, cw))
				}
			}
			trace = append(trace, "window")
			checkCache("EntropyWindow")
		}
		// the variant "failed-block-becomes-head": after the first round the refused block is made the head
		if variant == "failed-block-becomes-head" && s == 2 {
			curHead = objs[1]
			warm.hc.VerifC08SetCurrentHeader(curHead.build())
			trace = append(trace, "head:=#1")
		} else if variant == "" && !genesisHead && r.Intn(8) == 0 {
			curHead = objs[r.Intn(len(objs))]
			warm.hc.VerifC08SetCurrentHeader(curHead.build())
			trace = append(trace, fmt.Sprintf("head:=#%d", curHead.nonce-1))
		}
		o := objs[1+r.Intn(len(objs)-1)]
		if variant != "" {
			o = objs[1+(s/2)%(len(objs)-1)] // every object twice in a row, then again later
		}
		nth := "first"
		if seen[o.nonce] > 0 {
			nth = "repeat"
		}
		seen[o.nonce]++
		var res pubsub.ValidationResult
		p := guard(func() { res = warm.v.ApplyPoWFilter(o.build()) })
		got := pfRes(res)
		if p != "" {
			got = "Panic"
			fail("panic:ApplyPoWFilter:"+o.class+":"+nth, fmt.Sprintf("ApplyPoWFilter panicked on delivery %d of a block of class %s after the history %v: %s", seen[o.nonce], o.class, trace, p))
		} else if !o.valid && got != "Reject" {
			fail("pow-filter-unsealed-not-rejected:"+o.class+":"+nth, fmt.Sprintf("delivery %d of a block whose PoW hash %s is not at or below the target of its difficulty %s (engine error %v) got %s from the PoW filter after the history %v",
				seen[o.nonce], o.hash.Hex(), o.diff, o.err, got, trace))
		}
		if cg, cp := cold(o, curHead); cg != got {
			fail("pow-filter-cache-transparency:"+o.class, fmt.Sprintf("ApplyPoWFilter answered %s for a block of class %s (head class %s) after the history %v; a new chain object with the same head answers %s %s", got, o.class, curHead.class, trace, cg, cp))
		}
		trace = append(trace, fmt.Sprintf("#%d(%s)=%s", o.nonce-1, o.class, got))
		h.rep.Count("powfilter:" + o.class + ":" + got)
		checkCache("ApplyPoWFilter")
	}
	h.rep.Evaluations++
	h.rep.TracesValidated++
	h.rep.Count("kind:powfilter")
	h.rep.Nontrivial(fmt.Sprintf("powfilter/%s/%d", headClass, len(want)))
}

package main

// Third strengthening round: the parts of an AuxPoW that are tied to the proof ONLY through the signed
// template (auxPow2 of the non-scrypt chains, the chain id, the merkle branch, the payout, the donor
// version / bits / prevHash) and "an engine error is never an accepted seal".
//
//   * extraAuxMutations: the AuxPoW fields the first sweep left alone (auxPow2 in every shape, chain id,
//     signature length, coinbase tail, donor version / height / nonce / mix hash), for every pow id.
//   * monitorUnbound: `auxpow-field-unbound:<powid>:<field>` - a change of an AuxPoW part that changes the
//     post-fork identity Hash() of an accepted object without changing the bytes the PoW is computed on (the
//     donor header) must be refused.  Model independent: two hashes, two byte strings, two verdicts.
//   * monitorTemplate: `template-field-not-copied:<powid>:<field>` - the template that is rebuilt for the MuSig2
//     check (AuxPow.ConvertToTemplate) is compared getter by getter with a reconstruction from the AuxPoW's own
//     fields (independent Bitcoin wire reader for the coinbase parts).
//   * caseTmpl: correspondence case CTmpl (model template_of vs the real ConvertToTemplate) and the sweep
//     `template-hash-covers:<powid>:<field>` (AuxTemplate.Hash() must change with every signed field).

import (
	"bytes"
	"encoding/binary"
	"fmt"

	"github.com/dominant-strategies/go-quai/common"
	"github.com/dominant-strategies/go-quai/core/types"

	"verifharness/hlib"
)

func powName(id types.PowID) string {
	switch id {
	case types.Kawpow:
		return "kawpow"
	case types.SHA_BTC:
		return "sha_btc"
	case types.SHA_BCH:
		return "sha_bch"
	case types.Scrypt:
		return "scrypt"
	}
	return "other"
}

// required: does the property demand that the mutated object is refused?
func (m mutation) required(s *sealed) bool {
	if f, ok := mustByName[m.name]; ok {
		return f(s)
	}
	return m.mustReject
}

// mustByName: mutations whose "must be refused" depends on the object (overrides mutation.mustReject)
var mustByName = map[string]func(s *sealed) bool{
	// the low 29 version bits of the SHA donor chains are masked out of the signed template (ASIC boost): the miner's
	"aux.donor.version.lo29": func(s *sealed) bool {
		p := s.wo.WorkObjectHeader().AuxPow().PowID()
		return p != types.SHA_BTC && p != types.SHA_BCH
	},
	// only the Ravencoin header carries a height (and a mix hash): for the other chains the change is void
	"aux.donor.height": func(s *sealed) bool { return s.wo.WorkObjectHeader().AuxPow().PowID() == types.Kawpow },
}

// voidFor: the mutation does not change anything for this pow id
func voidFor(name string, id types.PowID) bool {
	return (name == "aux.donor.height" || name == "aux.donor.mixHash") && id != types.Kawpow
}

// extraCorpus: one fixed case per new mutation (x pow id for shares)
func extraCorpus(powids ...int) []string {
	var v []string
	for _, m := range extraAuxMutations() {
		for _, p := range powids {
			if !voidFor(m.name, types.PowID(p)) {
				v = append(v, fmt.Sprintf("x:%d:%s", p, m.name))
			}
		}
	}
	return v
}

// parseExtra: "x:<powid>:<mutation>"
func parseExtra(variant string) (int, *mutation, bool) {
	if len(variant) < 5 || variant[:2] != "x:" {
		return 0, nil, false
	}
	p := int(variant[2] - '0')
	for _, m := range extraAuxMutations() {
		if m.name == variant[4:] {
			m := m
			return p, &m, true
		}
	}
	return 0, nil, false
}

func extraAuxMutations() []mutation {
	ap := func(s *sealed) *types.AuxPow { return s.wo.WorkObjectHeader().AuxPow() }
	reroot := func(s *sealed) {
		a := ap(s)
		root := types.CalculateMerkleRoot(a.PowID(), a.Transaction(), a.MerkleBranch())
		modDonor(s, func(f *donorF) { f.root = root })
	}
	return []mutation{
		// auxPow2: the merge-mined second chain's block hash (scrypt) / unused (the others); in the identity hash for all
		{name: "aux.auxPow2.set", mustReject: true, apply: func(s *sealed, r *hlib.Rng) {
			a := append([]byte{}, ap(s).AuxPow2()...)
			if len(a) == 0 {
				a = r.Bytes(1 + r.Intn(40))
				a[0] |= 1
			} else {
				a[r.Intn(len(a))] ^= byte(1 << uint(r.Intn(8)))
			}
			ap(s).SetAuxPow2(a)
		}},
		{name: "aux.auxPow2.append", mustReject: true, apply: func(s *sealed, r *hlib.Rng) {
			ap(s).SetAuxPow2(append(append([]byte{}, ap(s).AuxPow2()...), byte(r.Intn(256))))
		}},
		{name: "aux.auxPow2.=32bytes", mustReject: true, apply: func(s *sealed, r *hlib.Rng) {
			a := r.Bytes(32)
			if bytes.Equal(a, ap(s).AuxPow2()) {
				a[0] ^= 1
			}
			ap(s).SetAuxPow2(a)
		}},
		// absent <-> present-and-empty: two wire encodings (proto3 optional bytes), two identity hashes
		// (what the property demands is reported by auxpow-field-unbound, once, not also by sealed-*-change-accepted)
		{name: "aux.auxPow2.presence", mustReject: false, apply: func(s *sealed, r *hlib.Rng) {
			switch {
			case ap(s).AuxPow2() == nil:
				ap(s).SetAuxPow2([]byte{})
			default:
				ap(s).SetAuxPow2(nil)
			}
		}},
		{name: "aux.powid", mustReject: true, apply: func(s *sealed, r *hlib.Rng) {
			old := ap(s).PowID()
			for {
				n := types.PowID(1 + r.Intn(4))
				if n != old {
					ap(s).SetPowID(n)
					return
				}
			}
		}},
		{name: "aux.signature.append", mustReject: true, apply: func(s *sealed, r *hlib.Rng) {
			ap(s).SetSignature(append(append([]byte{}, ap(s).Signature()...), byte(r.Intn(256))))
		}},
		{name: "aux.signature.truncate", mustReject: true, apply: func(s *sealed, r *hlib.Rng) {
			sg := ap(s).Signature()
			ap(s).SetSignature(append([]byte{}, sg[:len(sg)-1]...))
		}},
		{name: "aux.tx.append", mustReject: true, apply: func(s *sealed, r *hlib.Rng) {
			ap(s).SetTransaction(append(append([]byte{}, ap(s).Transaction()...), byte(r.Intn(256))))
		}},
		{name: "aux.tx.append+reroot", mustReject: true, apply: func(s *sealed, r *hlib.Rng) {
			ap(s).SetTransaction(append(append([]byte{}, ap(s).Transaction()...), byte(r.Intn(256))))
			reroot(s)
		}},
		{name: "aux.tx.locktime+reroot", mustReject: true, apply: func(s *sealed, r *hlib.Rng) {
			tx := append([]byte{}, ap(s).Transaction()...)
			tx[len(tx)-1-r.Intn(4)] ^= byte(1 << uint(r.Intn(8)))
			ap(s).SetTransaction(tx)
			reroot(s)
		}},
		// donor header: version (the low 29 bits of the SHA chains are the miner's: ASIC boost), height (Ravencoin only),
		// nonce and mix hash (the solution: bound by the work itself, see the engine cases)
		{name: "aux.donor.version.hi3", mustReject: true, apply: func(s *sealed, r *hlib.Rng) {
			modDonor(s, func(f *donorF) { f.version ^= int32(1) << uint(29+r.Intn(2)) })
		}},
		{name: "aux.donor.version.lo29", mustReject: true, apply: func(s *sealed, r *hlib.Rng) {
			modDonor(s, func(f *donorF) { f.version ^= int32(1) << uint(r.Intn(29)) })
		}},
		{name: "aux.donor.height", mustReject: true, apply: func(s *sealed, r *hlib.Rng) {
			modDonor(s, func(f *donorF) { f.height ^= 1 << uint(r.Intn(22)) })
		}},
		{name: "aux.donor.nonce", mustReject: false, apply: func(s *sealed, r *hlib.Rng) {
			modDonor(s, func(f *donorF) { f.nonce ^= 1 << uint(r.Intn(32)) })
		}},
		{name: "aux.donor.mixHash", mustReject: false, apply: func(s *sealed, r *hlib.Rng) {
			modDonor(s, func(f *donorF) { f.mix = flipHash(f.mix, r) })
		}},
	}
}

// ---------- identity / work snapshot ----------

type auxSnap struct {
	has   bool
	id    common.Hash // WorkObjectHeader.Hash() of the object as a node receives it
	donor []byte      // the bytes the proof of work is computed on
	ok    bool
}

// snapAux: identity hash and PoW input of a post-fork AuxPoW object.  The hash is taken on the wire round trip when the
// object is encodable (then it is what a peer would store it under), otherwise on the object itself.
func snapAux(wh *types.WorkObjectHeader) auxSnap {
	var sn auxSnap
	if wh.AuxPow() == nil || wh.AuxPow().Header() == nil {
		return sn
	}
	sn.has = true
	if p := guard(func() {
		sn.id = wh.Hash()
		sn.donor = wh.AuxPow().Header().Bytes()
	}); p != "" {
		return sn
	}
	var f *types.WorkObjectHeader
	if p := guard(func() { f = fresh(wh) }); p == "" && f != nil && f.AuxPow() != nil {
		guard(func() {
			if f.AuxPow().PowID() == wh.AuxPow().PowID() {
				sn.id = f.Hash()
			}
		})
	}
	sn.ok = true
	return sn
}

// monitorUnbound: the mutated object is accepted like the baseline, is a different object (identity hash changed) and
// rests on exactly the same work (donor header bytes unchanged).
func monitorUnbound(h *H, site string, mname string, wh *types.WorkObjectHeader, before, after auxSnap, waived bool) {
	if !before.ok || !after.ok || waived {
		return
	}
	if before.id == after.id || !bytes.Equal(before.donor, after.donor) {
		return
	}
	pn := powName(wh.AuxPow().PowID())
	if mname == "aux.powid" {
		pn = "any"
	}
	h.fail("auxpow-field-unbound:"+pn+":"+mname, fmt.Sprintf("%s: an accepted merge-mined object is still accepted after changing %s: identity hash %x -> %x, "+
		"donor header (the work) unchanged: one proof of work and one template signature admit two different objects", site, mname, before.id, after.id))
}

// ---------- independent reconstruction of the signed template ----------

type refTemplate struct {
	powid    uint32
	prev     [32]byte
	version  uint32
	bits     uint32
	auxPow2  []byte
	branch   [][]byte
	sigs     []byte
	height   uint32
	heightOK bool
	sigTime  uint32
	stOK     bool
	out      []byte
	outOK    bool
}

// refTemplateOf: what the template signature has to cover, read off the AuxPoW with the harness's own wire reader.
func refTemplateOf(ap *types.AuxPow) refTemplate {
	d := ap.Header()
	t := refTemplate{powid: uint32(ap.PowID()), prev: d.PrevBlock(), version: uint32(d.Version()), bits: d.Bits(),
		auxPow2: ap.AuxPow2(), branch: ap.MerkleBranch(), sigs: ap.Signature()}
	if ap.PowID() == types.Kawpow {
		t.height, t.heightOK = d.Height(), true
	}
	tx := ap.Transaction()
	ref, ok := refParseTx(tx)
	if !ok {
		return t
	}
	// outputs .. end of the transaction
	off := 4 + varintLen(ref.inputs) + 36 + varintLen(uint64(len(ref.script))) + len(ref.script) + 4
	if ref.inputs == 1 && off <= len(tx) {
		t.out, t.outOK = tx[off:], true
	}
	// scriptSig = push(height, <= 5 bytes) 0x2c fabe6d6d commitment(32) size(4) nonce(4) push(extranonce) push(4: signature time)
	sc := ref.script
	if len(sc) == 0 || sc[0] == 0 || sc[0] > 5 || len(sc) < 1+int(sc[0]) {
		return t
	}
	hl := int(sc[0])
	if ap.PowID() != types.Kawpow && hl <= 4 {
		var v uint32
		for i := hl; i >= 1; i-- {
			v = v<<8 | uint32(sc[i])
		}
		t.height, t.heightOK = v, true
	}
	c := 1 + hl
	// the harness only vouches for the shape it builds itself (NewAuxPowCoinbaseTx): 0x2c + 44 bytes, 0x2a + 42 bytes, 0x04 + 4 bytes
	if len(sc) == c+45+43+5 && sc[c] == 44 && bytes.Equal(sc[c+1:c+5], []byte{0xfa, 0xbe, 0x6d, 0x6d}) && sc[c+45] == 42 && sc[c+88] == 4 {
		t.sigTime, t.stOK = binary.LittleEndian.Uint32(sc[c+89:c+93]), true
	}
	return t
}

func varintLen(v uint64) int {
	switch {
	case v < 0xfd:
		return 1
	case v <= 0xffff:
		return 3
	case v <= 0xffffffff:
		return 5
	}
	return 9
}

// monitorTemplate compares ConvertToTemplate() with the reference, field by field.
func monitorTemplate(h *H, site string, ap *types.AuxPow) {
	if ap == nil || ap.Header() == nil {
		return
	}
	var t *types.AuxTemplate
	if p := guard(func() { t = ap.ConvertToTemplate() }); p != "" || t == nil {
		h.fail("panic:ConvertToTemplate", "ConvertToTemplate panicked: "+p)
		return
	}
	ref := refTemplateOf(ap)
	pn := powName(ap.PowID())
	bad := func(field string, got, want any) {
		h.fail("template-field-not-copied:"+pn+":"+field, fmt.Sprintf("%s: the template rebuilt for the signature check has %s = %x, the received AuxPoW carries %x: "+
			"the signature is checked over something else than the object", site, field, got, want))
	}
	if uint32(t.PowID()) != ref.powid {
		bad("powID", uint32(t.PowID()), ref.powid)
	}
	if t.PrevHash() != ref.prev {
		bad("prevHash", t.PrevHash(), ref.prev)
	}
	if t.Version() != ref.version {
		bad("version", t.Version(), ref.version)
	}
	if t.Bits() != ref.bits {
		bad("bits", t.Bits(), ref.bits)
	}
	if !bytes.Equal(t.AuxPow2(), ref.auxPow2) { // nil and empty are the same template (both encode as "present, empty")
		bad("auxPow2", t.AuxPow2(), ref.auxPow2)
	}
	if t.AuxPow2() == nil {
		bad("auxPow2.nil", []byte{}, []byte{})
	}
	if !bytes.Equal(t.Sigs(), ref.sigs) {
		bad("signature", t.Sigs(), ref.sigs)
	}
	same := len(t.MerkleBranch()) == len(ref.branch)
	for i := 0; same && i < len(ref.branch); i++ {
		same = bytes.Equal(t.MerkleBranch()[i], ref.branch[i])
	}
	if !same {
		bad("merkleBranch", len(t.MerkleBranch()), len(ref.branch))
	}
	if ref.heightOK && t.Height() != ref.height {
		bad("height", t.Height(), ref.height)
	}
	if ref.stOK && t.SignatureTime() != ref.sigTime {
		bad("signatureTime", t.SignatureTime(), ref.sigTime)
	}
	if ref.outOK && !bytes.Equal(t.CoinbaseOut(), ref.out) {
		bad("coinbaseOut", t.CoinbaseOut(), ref.out)
	}
}

// ---------- case kind "tmpl": ConvertToTemplate against the model, and the coverage sweep of AuxTemplate.Hash() ----------

func tmplCorpus() []string {
	return []string{"kawpow-auxpow2-nonempty", "btc-auxpow2-nonempty", "bch-auxpow2-nonempty", "scrypt", "kawpow-auxpow2-nil", "scrypt-auxpow2-nil", "kawpow-default", "bch-default", "scrypt-default", "short-tx"}
}

func coqOptRaw(b []byte) string {
	if b == nil {
		return "None"
	}
	return "(Some " + hlib.CoqBytes(b) + ")"
}

func caseTmpl(h *H, r *hlib.Rng, variant string) {
	vhSetup()
	powid := 1 + r.Intn(4)
	mode := r.Pick(3, 3, 1, 1, 1) // 0 as built, 1 auxPow2 random non-empty, 2 nil, 3 coinbase cut / byte changed, 4 empty
	forceDefault := false
	switch variant {
	case "kawpow-auxpow2-nonempty":
		powid, mode = 1, 1
	case "btc-auxpow2-nonempty":
		powid, mode = 2, 1
	case "bch-auxpow2-nonempty":
		powid, mode = 3, 1
	case "scrypt":
		powid, mode = 4, 0
	case "kawpow-auxpow2-nil":
		powid, mode = 1, 2
	case "scrypt-auxpow2-nil":
		powid, mode = 4, 2
	case "kawpow-default":
		powid, mode, forceDefault = 1, 0, true
	case "bch-default":
		powid, mode, forceDefault = 3, 0, true
	case "scrypt-default":
		powid, mode, forceDefault = 4, 0, true
	case "short-tx":
		mode = 3
	}
	var s *sealed
	for {
		s = buildSealed(r, powid, fork+trans+uint64(r.Intn(1000)), common.BytesToHash(r.Bytes(32)), common.BytesToHash(r.Bytes(32)), 3)
		if !forceDefault || !s.tp.own {
			break
		}
	}
	ap := s.wo.WorkObjectHeader().AuxPow()
	switch mode {
	case 1:
		a := r.Bytes(1 + r.Intn(40))
		a[0] |= 1
		ap.SetAuxPow2(a)
	case 2:
		ap.SetAuxPow2(nil)
	case 3:
		tx := append([]byte{}, ap.Transaction()...)
		if r.Chance(50) {
			tx = tx[:r.Intn(len(tx))]
		} else {
			tx[r.Intn(len(tx))] ^= byte(1 << uint(r.Intn(8)))
		}
		ap.SetTransaction(tx)
	case 4:
		ap.SetAuxPow2([]byte{})
	}
	h.rep.Count(fmt.Sprintf("tmpl:powid%d/mode%d", powid, mode))
	var t *types.AuxTemplate
	if p := guard(func() { t = ap.ConvertToTemplate() }); p != "" {
		h.fail("panic:ConvertToTemplate", "ConvertToTemplate panicked: "+p)
		return
	}
	d := ap.Header()
	prev := d.PrevBlock()
	tprev := t.PrevHash()
	in := fmt.Sprintf("(mkAuxFull %d %s %s %d %d %d %s %s %s %s)", ap.PowID(), hlib.CoqBytes(d.Bytes()), hlib.CoqBytes(prev[:]), uint32(d.Version()), d.Bits(), d.Height(),
		coqOptRaw(ap.AuxPow2()), hlib.CoqBytes(ap.Transaction()), coqBranch(ap.MerkleBranch()), hlib.CoqBytes(ap.Signature()))
	out := fmt.Sprintf("(mkTmpl %d %s %d %d %s %d %d %s %s %s)", t.PowID(), hlib.CoqBytes(tprev[:]), t.Version(), t.Bits(), coqOptRaw(t.AuxPow2()),
		t.SignatureTime(), t.Height(), coqOptRaw(t.CoinbaseOut()), coqBranch(t.MerkleBranch()), hlib.CoqBytes(t.Sigs()))
	h.emit(fmt.Sprintf("CTmpl %s %s", in, out), map[string]any{"powid": powid, "mode": mode},
		fmt.Sprintf("%d/%d/%v", powid, mode, t.SignatureTime() != 0))
	monitorTemplate(h, "ConvertToTemplate", ap)

	// ---- AuxTemplate.Hash() (the signed message) must change with every signed part of the AuxPoW
	if mode == 3 {
		return
	}
	pn := powName(ap.PowID())
	h0 := t.Hash()
	probe := func(field string, signed bool, mod func(c *sealed)) {
		c := &sealed{wo: types.CopyWorkObject(s.wo), tp: s.tp, has: s.has}
		mod(c)
		var h1 [32]byte
		if p := guard(func() { h1 = c.wo.WorkObjectHeader().AuxPow().ConvertToTemplate().Hash() }); p != "" {
			h.fail("panic:ConvertToTemplate", "ConvertToTemplate panicked after changing "+field+": "+p)
			return
		}
		if signed && h1 == h0 {
			h.fail("template-hash-covers:"+pn+":"+field, "the signed template hash of a "+pn+" AuxPoW does not change after changing "+field)
		}
		if !signed && h1 != h0 {
			h.fail("template-hash-free-part:"+pn+":"+field, "the signed template hash of a "+pn+" AuxPoW changes with "+field+", which the miner must be free to choose")
		}
	}
	cap_ := func(c *sealed) *types.AuxPow { return c.wo.WorkObjectHeader().AuxPow() }
	probe("auxPow2.set", true, func(c *sealed) {
		a := append([]byte{}, cap_(c).AuxPow2()...)
		if len(a) == 0 {
			a = []byte{1 + byte(r.Intn(255))}
		} else {
			a[r.Intn(len(a))] ^= byte(1 << uint(r.Intn(8)))
		}
		cap_(c).SetAuxPow2(a)
	})
	probe("auxPow2.append", true, func(c *sealed) { cap_(c).SetAuxPow2(append(append([]byte{}, cap_(c).AuxPow2()...), 0)) })
	probe("powid", true, func(c *sealed) { cap_(c).SetPowID(types.PowID(1 + (int(cap_(c).PowID())+r.Intn(3))%4)) })
	probe("donor.prevHash", true, func(c *sealed) { modDonor(c, func(f *donorF) { f.prev[r.Intn(32)] ^= byte(1 << uint(r.Intn(8))) }) })
	probe("donor.bits", true, func(c *sealed) { modDonor(c, func(f *donorF) { f.bits ^= 1 << uint(r.Intn(32)) }) })
	probe("donor.version.hi3", true, func(c *sealed) { modDonor(c, func(f *donorF) { f.version ^= int32(1) << uint(29+r.Intn(3)) }) })
	isSha := ap.PowID() == types.SHA_BTC || ap.PowID() == types.SHA_BCH
	probe("donor.version.lo29", !isSha, func(c *sealed) { modDonor(c, func(f *donorF) { f.version ^= int32(1) << uint(r.Intn(29)) }) })
	if ap.PowID() == types.Kawpow {
		probe("donor.height", true, func(c *sealed) { modDonor(c, func(f *donorF) { f.height ^= 1 << uint(r.Intn(22)) }) })
	}
	probe("donor.time", false, func(c *sealed) { modDonor(c, func(f *donorF) { f.time++ }) })
	probe("donor.nonce", false, func(c *sealed) { modDonor(c, func(f *donorF) { f.nonce++ }) })
	probe("donor.root", false, func(c *sealed) { modDonor(c, func(f *donorF) { f.root[r.Intn(32)] ^= 1 }) })
	probe("branch.bit", true, func(c *sealed) {
		br := cap_(c).MerkleBranch()
		if len(br) == 0 {
			cap_(c).SetMerkleBranch([][]byte{r.Bytes(32)})
			return
		}
		i := r.Intn(len(br))
		b2 := append([]byte{}, br[i]...)
		b2[r.Intn(32)] ^= byte(1 << uint(r.Intn(8)))
		br[i] = b2
		cap_(c).SetMerkleBranch(br)
	})
	probe("branch.add", true, func(c *sealed) { cap_(c).SetMerkleBranch(append(cap_(c).MerkleBranch(), r.Bytes(32))) })
	for _, cn := range []string{"heightpush", "sigtime", "outputs", "extranonce", "sealhash"} {
		cn := cn
		signed := cn == "sigtime" || cn == "outputs" || (cn == "heightpush" && ap.PowID() != types.Kawpow)
		if cn == "heightpush" {
			continue // a changed push length re-frames the whole scriptSig: covered by the vh / uncle mutation aux.tx.heightpush
		}
		probe("tx."+cn, signed, func(c *sealed) {
			tx := append([]byte{}, cap_(c).Transaction()...)
			k := txClasses(tx)[cn]
			if cn == "sigtime" || cn == "extranonce" {
				k[0]++ // not the push opcode: changing a push length re-frames the scriptSig, it is not a byte the miner may choose
			}
			tx[k[0]+r.Intn(k[1]-k[0])] ^= byte(1 << uint(r.Intn(8)))
			cap_(c).SetTransaction(tx)
		})
	}
	probe("tx.append", true, func(c *sealed) { cap_(c).SetTransaction(append(append([]byte{}, cap_(c).Transaction()...), 7)) })
}

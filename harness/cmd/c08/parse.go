package main

import (
	"bytes"
	"crypto/sha256"
	"encoding/binary"
	"fmt"
	"strings"

	"github.com/dominant-strategies/go-quai/common"
	"github.com/dominant-strategies/go-quai/core/types"

	"verifharness/hlib"
)

// ---------- independent double-SHA256 and the oracle table handed to the model ----------

func dsha(b []byte) []byte {
	a := sha256.Sum256(b)
	c := sha256.Sum256(a[:])
	return c[:]
}

type oracle struct {
	keys [][]byte
	vals [][]byte
}

func (o *oracle) h(x []byte) []byte {
	v := dsha(x)
	for _, k := range o.keys {
		if bytes.Equal(k, x) {
			return v
		}
	}
	o.keys = append(o.keys, append([]byte{}, x...))
	o.vals = append(o.vals, v)
	return v
}

func (o *oracle) coq() string {
	s := make([]string, len(o.keys))
	for i := range o.keys {
		s[i] = "(" + hlib.CoqBytes(o.keys[i]) + ", " + hlib.CoqBytes(o.vals[i]) + ")"
	}
	return "[" + strings.Join(s, "; ") + "]"
}

func norm32(b []byte) []byte {
	out := make([]byte, 32)
	copy(out, b)
	return out
}

// merkleRef: the donor merkle root as the property understands it (coinbase is the leftmost leaf),
// computed with crypto/sha256 only; records every hash evaluation in the oracle.
func merkleRef(o *oracle, powid int, tx []byte, branch [][]byte) []byte {
	if powid < int(types.Kawpow) || powid > int(types.Scrypt) {
		return make([]byte, 32)
	}
	cur := o.h(tx)
	for _, s := range branch {
		cur = o.h(append(append([]byte{}, cur...), norm32(s)...))
	}
	return cur
}

func rev(b []byte) []byte {
	out := make([]byte, len(b))
	for i := range b {
		out[len(b)-1-i] = b[i]
	}
	return out
}

// auxRootRef: merged-mining root of {Dogecoin block hash, Quai seal hash} as CreateAuxMerkleRoot documents it:
// slot = lcg(lcg(nonce)+chain_id) mod 2, leaves byte-reversed, root byte-reversed.
func auxRootRef(o *oracle, doge, seal []byte) []byte {
	slot := func(chain uint32) uint32 {
		r := uint32(0)
		r = r*1103515245 + 12345
		r += chain
		r = r*1103515245 + 12345
		return r % 2
	}
	leaves := [2][]byte{make([]byte, 32), make([]byte, 32)}
	leaves[slot(98)] = rev(doge)
	leaves[slot(9)] = rev(seal)
	return rev(o.h(append(append([]byte{}, leaves[0]...), leaves[1]...)))
}

// ---------- scriptSig cases ----------

func scriptCorpus() []string {
	return []string{"empty", "built", "height0", "height5", "height6", "nomagic", "len43", "len45", "op76", "trunc-commit", "no-sigtime", "sigtime3", "extranonce-missing", "cursor-at-end"}
}

func push(b []byte) []byte { return append([]byte{byte(len(b))}, b...) }

func genScriptSig(r *hlib.Rng) []byte {
	height := uint32(r.Next())
	switch r.Pick(2, 2, 2, 2) {
	case 0:
		height = uint32(r.Intn(300))
	case 1:
		height = uint32(r.Intn(1 << 24))
	case 2:
		height = 0x80 << (8 * uint(r.Intn(4)))
	}
	seal := common.BytesToHash(r.Bytes(32))
	ss := types.BuildCoinbaseScriptSigWithNonce(height, uint32(r.Next()), r.Next(), seal, uint32(1+r.Intn(3)), uint32(r.Next()))
	switch r.Pick(8, 4, 6, 3, 3, 2) {
	case 0: // valid
	case 1: // truncated
		ss = ss[:r.Intn(len(ss)+1)]
	case 2: // one byte of some class changed
		pos := r.Intn(len(ss))
		if r.Chance(50) {
			// structural positions: opcodes and magic
			cand := []int{0, 1 + int(ss[0]), 2 + int(ss[0]), 3 + int(ss[0]), 4 + int(ss[0]), 5 + int(ss[0]), 1 + int(ss[0]) + 45, 1 + int(ss[0]) + 45 + 43}
			pos = cand[r.Intn(len(cand))]
			if pos >= len(ss) {
				pos = len(ss) - 1
			}
		}
		ss[pos] ^= byte(1 << uint(r.Intn(8)))
	case 3: // opcode replaced by a boundary value
		pos := []int{0, 1 + int(ss[0])}[r.Intn(2)]
		ss[pos] = []byte{0, 5, 6, 43, 44, 45, 75, 76, 77, 255}[r.Intn(10)]
	case 4: // random bytes
		ss = r.Bytes(r.Intn(120))
	case 5: // custom pushes
		var b []byte
		b = append(b, push(r.Bytes(r.Intn(7)))...)
		pl := append([]byte{0xfa, 0xbe, 0x6d, 0x6d}, r.Bytes(40)...)
		if r.Chance(30) {
			pl = pl[:len(pl)-1+r.Intn(3)]
			pl = append(pl, r.Bytes(3)...)[:43+r.Intn(3)]
		}
		b = append(b, push(pl)...)
		if r.Chance(80) {
			b = append(b, push(r.Bytes(r.Intn(50)))...)
		}
		if r.Chance(80) {
			b = append(b, push(r.Bytes(3+r.Intn(3)))...)
		}
		ss = b
	}
	return ss
}

func caseScript(h *H, r *hlib.Rng, variant string) {
	ss := genScriptSig(r)
	seal := bytes.Repeat([]byte{0xab}, 32)
	commit := append(append([]byte{0xfa, 0xbe, 0x6d, 0x6d}, seal...), 2, 0, 0, 0, 0, 0, 0, 0)
	mk := func(height []byte, pl []byte, rest ...[]byte) []byte {
		b := append(push(height), push(pl)...)
		for _, x := range rest {
			b = append(b, push(x)...)
		}
		return b
	}
	switch variant {
	case "empty":
		ss = []byte{}
	case "built":
		ss = types.BuildCoinbaseScriptSigWithNonce(4206442, 7, 9, common.BytesToHash(seal), 2, 1769111360)
	case "height0":
		ss = mk(nil, commit, make([]byte, 42), []byte{1, 2, 3, 4})
	case "height5":
		ss = mk([]byte{1, 2, 3, 4, 5}, commit, make([]byte, 42), []byte{1, 2, 3, 4})
	case "height6":
		ss = mk([]byte{1, 2, 3, 4, 5, 6}, commit, make([]byte, 42), []byte{1, 2, 3, 4})
	case "nomagic":
		c2 := append([]byte{}, commit...)
		c2[3] = 0x6c
		ss = mk([]byte{1}, c2, make([]byte, 42), []byte{1, 2, 3, 4})
	case "len43":
		ss = mk([]byte{1}, commit[:43], make([]byte, 42), []byte{1, 2, 3, 4})
	case "len45":
		ss = mk([]byte{1}, append(append([]byte{}, commit...), 0), make([]byte, 42), []byte{1, 2, 3, 4})
	case "op76":
		ss = append([]byte{76, 1, 1}, push(commit)...)
	case "trunc-commit":
		ss = mk([]byte{1}, commit)
		ss = ss[:len(ss)-1]
	case "no-sigtime":
		ss = mk([]byte{1}, commit, make([]byte, 42))
	case "sigtime3":
		ss = mk([]byte{1}, commit, make([]byte, 42), []byte{1, 2, 3})
	case "extranonce-missing":
		ss = mk([]byte{1}, commit)
	case "cursor-at-end":
		ss = mk([]byte{1}, commit, []byte{})
	}
	cs := hlib.CoqBytes(ss)
	desc := map[string]any{"scriptSig": hlib.Hex(ss)}

	var sh common.Hash
	var e1, e2, e3, e4 error
	var sz, nn, st, ht uint32
	if p := guard(func() {
		sh, e1 = types.ExtractSealHashFromCoinbase(ss)
		sz, nn, e2 = types.ExtractMerkleSizeAndNonceFromCoinbase(ss)
		st, e3 = types.ExtractSignatureTimeFromCoinbase(ss)
		ht, e4 = types.ExtractHeightFromCoinbase(ss)
	}); p != "" {
		h.fail("panic:coinbase-scriptsig-parser", "a coinbase scriptSig extractor panicked: "+p)
		return
	}
	fp := fmt.Sprintf("%v%v%v%v", e1 == nil, e2 == nil, e3 == nil, e4 == nil)
	nt := ""
	if e4 == nil {
		nt = fp
	}
	h.emit(fmt.Sprintf("CSealHash %s %s", cs, coqOptBytes(sh[:], e1 == nil)), desc, nt)
	o := "None"
	if e2 == nil {
		o = fmt.Sprintf("(Some (%d, %d))", sz, nn)
	}
	h.emit(fmt.Sprintf("CSizeNonce %s %s", cs, o), desc, "")
	o = "None"
	if e3 == nil {
		o = fmt.Sprintf("(Some %d)", st)
	}
	h.emit(fmt.Sprintf("CSigTime %s %s", cs, o), desc, "")
	o = "None"
	if e4 == nil {
		o = fmt.Sprintf("(Some %d)", ht)
	}
	h.emit(fmt.Sprintf("CHeight %s %s", cs, o), desc, "")
	h.rep.Count("script:" + fp)

	// monitors: a reported commitment is literally present in the script at the position fixed by the first push
	if e1 == nil {
		if len(ss) == 0 || int(ss[0]) > 5 {
			h.fail("coinbase-commit-position", "seal hash extracted although the height push is malformed")
		} else {
			off := 1 + int(ss[0])
			want := append([]byte{44, 0xfa, 0xbe, 0x6d, 0x6d}, sh[:]...)
			if off+len(want)+8 > len(ss) || !bytes.Equal(ss[off:off+len(want)], want) {
				h.fail("coinbase-commit-position", "extracted seal hash is not the 32 bytes after OP_PUSH44|fabe6d6d following the height push")
			}
		}
		if e2 != nil {
			h.fail("coinbase-extractors-agree", "seal hash extracted but merkle size/nonce not")
		}
	}
	if e3 == nil && e1 != nil {
		h.fail("coinbase-extractors-agree", "signature time extracted from a scriptSig without a valid commitment")
	}
}

// ---------- coinbase transaction cases ----------

func txCorpus() []string {
	return []string{"empty", "short3", "built-kawpow", "built-btc", "two-inputs", "prev-nonzero", "vout0", "seq0", "scriptlen-fd", "scriptlen-over", "scriptlen-ff-huge", "scriptlen0", "inputs-fd"}
}

var coinbaseOutSample = []byte{1, 0, 162, 148, 26, 29, 0, 0, 0, 25, 118, 169, 20, 220, 42, 100, 53, 52, 137, 33, 19, 150, 164, 154, 51, 91, 132, 233, 135, 63, 25, 200, 189, 136, 172, 0, 0, 0, 0}

func rawTx(version uint32, inputs []byte, prev []byte, vout uint32, scriptLen []byte, script []byte, seq []byte, tail []byte) []byte {
	var b []byte
	v := make([]byte, 4)
	binary.LittleEndian.PutUint32(v, version)
	b = append(b, v...)
	b = append(b, inputs...)
	b = append(b, prev...)
	vo := make([]byte, 4)
	binary.LittleEndian.PutUint32(vo, vout)
	b = append(b, vo...)
	b = append(b, scriptLen...)
	b = append(b, script...)
	b = append(b, seq...)
	b = append(b, tail...)
	return b
}

func genTx(r *hlib.Rng) []byte {
	powid := 1 + r.Intn(4)
	seal := common.BytesToHash(r.Bytes(32))
	tx := types.NewAuxPowCoinbaseTx(types.PowID(powid), uint32(r.Intn(5000000)), coinbaseOutSample, seal, uint32(r.Next()))
	switch r.Pick(6, 4, 8, 3, 3) {
	case 0:
	case 1:
		tx = tx[:r.Intn(len(tx)+1)]
	case 2: // a byte of a chosen class
		ssLen := int(tx[41])
		classes := [][2]int{{0, 4}, {4, 5}, {5, 37}, {37, 41}, {41, 42}, {42, 42 + ssLen}, {42 + ssLen, 46 + ssLen}, {46 + ssLen, len(tx)}}
		c := classes[r.Intn(len(classes))]
		pos := c[0] + r.Intn(c[1]-c[0])
		if r.Chance(50) {
			tx[pos] ^= byte(1 << uint(r.Intn(8)))
		} else {
			tx[pos] = []byte{0, 1, 2, 0xfc, 0xfd, 0xfe, 0xff}[r.Intn(7)]
		}
	case 3:
		tx = r.Bytes(r.Intn(200))
	case 4: // hand-assembled with var-int forms
		script := r.Bytes(r.Intn(300))
		var sl []byte
		switch r.Pick(3, 2, 1, 1) {
		case 0:
			if len(script) >= 0xfd {
				script = script[:0xfc]
			}
			sl = []byte{byte(len(script))}
		case 1:
			sl = []byte{0xfd, byte(len(script)), byte(len(script) >> 8)}
		case 2:
			sl = []byte{0xfe, byte(len(script)), byte(len(script) >> 8), 0, 0}
		default:
			sl = []byte{0xff, byte(len(script)), byte(len(script) >> 8), 0, 0, 0, 0, 0, byte(r.Intn(2) * 128)}
		}
		prev := make([]byte, 32)
		if r.Chance(20) {
			prev[r.Intn(32)] = 1
		}
		seq := []byte{0xff, 0xff, 0xff, 0xff}
		if r.Chance(20) {
			seq = r.Bytes(r.Intn(5))
		}
		vout := uint32(0xffffffff)
		if r.Chance(15) {
			vout = uint32(r.Next())
		}
		inputs := []byte{1}
		if r.Chance(20) {
			inputs = [][]byte{{0}, {2}, {0xfd, 1, 0}, {0xfd, 1}, {0xfe, 1, 0, 0, 0}}[r.Intn(5)]
		}
		tx = rawTx(2, inputs, prev, vout, sl, script, seq, coinbaseOutSample)
	}
	return tx
}

func caseTx(h *H, r *hlib.Rng, variant string) {
	tx := genTx(r)
	zero32 := make([]byte, 32)
	ff := []byte{0xff, 0xff, 0xff, 0xff}
	script := types.BuildCoinbaseScriptSigWithNonce(100, 1, 2, common.Hash{7}, 1, 55)
	switch variant {
	case "empty":
		tx = []byte{}
	case "short3":
		tx = []byte{1, 0, 0}
	case "built-kawpow":
		tx = types.NewAuxPowCoinbaseTx(types.Kawpow, 4206442, coinbaseOutSample, common.Hash{1, 2, 3}, 1769111360)
	case "built-btc":
		tx = types.NewAuxPowCoinbaseTx(types.SHA_BTC, 935013, coinbaseOutSample, common.Hash{1, 2, 3}, 1769111357)
	case "two-inputs":
		tx = rawTx(1, []byte{2}, zero32, 0xffffffff, []byte{byte(len(script))}, script, ff, coinbaseOutSample)
	case "prev-nonzero":
		p := make([]byte, 32)
		p[31] = 1
		tx = rawTx(1, []byte{1}, p, 0xffffffff, []byte{byte(len(script))}, script, ff, coinbaseOutSample)
	case "vout0":
		tx = rawTx(1, []byte{1}, zero32, 0, []byte{byte(len(script))}, script, ff, coinbaseOutSample)
	case "seq0":
		tx = rawTx(1, []byte{1}, zero32, 0xffffffff, []byte{byte(len(script))}, script, []byte{0xfe, 0xff, 0xff, 0xff}, coinbaseOutSample)
	case "scriptlen-fd":
		tx = rawTx(1, []byte{1}, zero32, 0xffffffff, []byte{0xfd, byte(len(script)), 0}, script, ff, coinbaseOutSample)
	case "scriptlen-over":
		tx = rawTx(1, []byte{1}, zero32, 0xffffffff, []byte{200}, script, ff, nil)
	case "scriptlen-ff-huge":
		tx = rawTx(1, []byte{1}, zero32, 0xffffffff, []byte{0xff, 0, 0, 0, 0, 0, 0, 0, 0x80}, script, ff, coinbaseOutSample)
	case "scriptlen0":
		tx = rawTx(1, []byte{1}, zero32, 0xffffffff, []byte{0}, nil, ff, coinbaseOutSample)
	case "inputs-fd":
		tx = rawTx(1, []byte{0xfd, 1, 0}, zero32, 0xffffffff, []byte{byte(len(script))}, script, ff, coinbaseOutSample)
	}
	desc := map[string]any{"tx": hlib.Hex(tx)}
	var ss []byte
	var verr error
	if p := guard(func() {
		ss = types.ExtractScriptSigFromCoinbaseTx(tx)
		verr = types.ValidatePrevOutPointIndexAndSequenceOfCoinbase(tx)
	}); p != "" {
		h.fail("panic:coinbase-tx-parser", "a coinbase transaction parser panicked: "+p)
		return
	}
	nt := ""
	if ss != nil {
		nt = fmt.Sprintf("%v/%d", verr == nil, len(ss)/32)
	}
	h.emit(fmt.Sprintf("CScriptSig %s %s", hlib.CoqBytes(tx), coqOptBytes(ss, ss != nil)), desc, nt)
	h.emit(fmt.Sprintf("CPrevOut %s %s", hlib.CoqBytes(tx), hlib.CoqBool(verr == nil)), desc, "")
	h.rep.Count(fmt.Sprintf("tx:script=%v,prevout=%v", ss != nil, verr == nil))

	// monitors: an independent reading of the Bitcoin wire format (version | varint inputs | outpoint | varint len | script | sequence)
	ref, ok := refParseTx(tx)
	if len(ss) > 0 && (!ref.scriptOK || !bytes.Equal(ss, ref.script)) {
		h.fail("coinbase-scriptsig-position", "extracted scriptSig is not the script of the first input")
	}
	if verr == nil {
		if !ok || ref.inputs != 1 || !bytes.Equal(ref.prev, zero32) || ref.vout != 0xffffffff || ref.seq != 0xffffffff {
			h.fail("coinbase-prevout-shape", "ValidatePrevOutPointIndexAndSequenceOfCoinbase accepted a transaction whose single input is not the null outpoint with final sequence")
		}
		if ss == nil {
			h.fail("coinbase-prevout-shape", "prevout/sequence validated but the scriptSig cannot be extracted")
		}
	}
}

type refTx struct {
	inputs   uint64
	prev     []byte
	vout     uint32
	script   []byte
	seq      uint32
	scriptOK bool
}

func refVarint(b []byte) (uint64, []byte, bool) {
	if len(b) == 0 {
		return 0, nil, false
	}
	n := map[byte]int{0xfd: 2, 0xfe: 4, 0xff: 8}[b[0]]
	if n == 0 {
		return uint64(b[0]), b[1:], true
	}
	if len(b) < 1+n {
		return 0, nil, false
	}
	var v uint64
	for i := n; i >= 1; i-- {
		v = v<<8 | uint64(b[i])
	}
	return v, b[1+n:], true
}

func refParseTx(tx []byte) (refTx, bool) {
	var t refTx
	if len(tx) < 4 {
		return t, false
	}
	var ok bool
	b := tx[4:]
	if t.inputs, b, ok = refVarint(b); !ok || len(b) < 36 {
		return t, false
	}
	t.prev, t.vout, b = b[:32], binary.LittleEndian.Uint32(b[32:36]), b[36:]
	var n uint64
	if n, b, ok = refVarint(b); !ok || n > uint64(len(b)) {
		return t, false
	}
	t.script, b = b[:n], b[n:]
	t.scriptOK = true
	if len(b) < 4 {
		return t, false
	}
	t.seq = binary.LittleEndian.Uint32(b[:4])
	return t, true
}

// ---------- merkle root ----------

func merkleCorpus() []string {
	return []string{"empty-branch", "bch-template", "scrypt-template", "short-sibling", "long-sibling", "powid0", "powid5"}
}

func caseMerkle(h *H, r *hlib.Rng, variant string) {
	powid := []int{1, 2, 3, 4, 0, 5, 9}[r.Pick(4, 4, 4, 4, 1, 1, 1)]
	tx := genTx(r)
	n := r.Intn(12)
	branch := make([][]byte, n)
	for i := range branch {
		l := 32
		if r.Chance(10) {
			l = r.Intn(70)
		}
		branch[i] = r.Bytes(l)
	}
	switch variant {
	case "empty-branch":
		powid, branch = 1, nil
	case "bch-template":
		t := types.DefaultShaBchAuxTemplate()
		powid, branch = 3, t.MerkleBranch()
	case "scrypt-template":
		t := types.DefaultScryptAuxTemplate()
		powid, branch = 4, t.MerkleBranch()
	case "short-sibling":
		powid, branch = 2, [][]byte{{1, 2, 3}, {}}
	case "long-sibling":
		powid, branch = 1, [][]byte{bytes.Repeat([]byte{7}, 40)}
	case "powid0":
		powid = 0
	case "powid5":
		powid = 5
	}
	var got [32]byte
	if p := guard(func() { got = types.CalculateMerkleRoot(types.PowID(powid), tx, branch) }); p != "" {
		h.fail("panic:CalculateMerkleRoot", "CalculateMerkleRoot panicked: "+p)
		return
	}
	o := &oracle{}
	want := merkleRef(o, powid, tx, branch)
	h.emit(fmt.Sprintf("CMerkle %s %d %s %s %s", o.coq(), powid, hlib.CoqBytes(tx), coqBranch(branch), hlib.CoqBytes(got[:])),
		map[string]any{"powid": powid, "tx": hlib.Hex(tx), "branch": len(branch)}, fmt.Sprintf("%d/%d", powid, len(branch)))
	if !bytes.Equal(got[:], want) {
		h.fail("merkle-root-is-left-fold", fmt.Sprintf("CalculateMerkleRoot(powid=%d, %d siblings) differs from sha256d left fold with the coinbase as leftmost leaf", powid, len(branch)))
	}
	// binding: any single change of the leaf or of a sibling changes the root
	if powid >= 1 && powid <= 4 {
		tx2 := append([]byte{}, tx...)
		if len(tx2) == 0 {
			tx2 = []byte{0}
		} else {
			tx2[r.Intn(len(tx2))] ^= byte(1 << uint(r.Intn(8)))
		}
		if types.CalculateMerkleRoot(types.PowID(powid), tx2, branch) == got {
			h.fail("merkle-binds-leaf", "changing one bit of the coinbase transaction left the merkle root unchanged")
		}
		if len(branch) > 0 {
			i := r.Intn(len(branch))
			b2 := make([][]byte, len(branch))
			copy(b2, branch)
			s := norm32(branch[i])
			s[r.Intn(32)] ^= byte(1 << uint(r.Intn(8)))
			b2[i] = s
			if types.CalculateMerkleRoot(types.PowID(powid), tx, b2) == got {
				h.fail("merkle-binds-branch", "changing one bit of a sibling left the merkle root unchanged")
			}
			if types.CalculateMerkleRoot(types.PowID(powid), tx, branch[:len(branch)-1]) == got {
				h.fail("merkle-binds-branch", "dropping the last sibling left the merkle root unchanged")
			}
		}
	}
}

func caseAuxRoot(h *H, r *hlib.Rng, variant string) {
	doge, seal := r.Bytes(32), r.Bytes(32)
	switch variant {
	case "zero":
		doge = make([]byte, 32)
	case "same":
		doge = append([]byte{}, seal...)
	}
	got := types.CreateAuxMerkleRoot(common.BytesToHash(doge), common.BytesToHash(seal))
	o := &oracle{}
	want := auxRootRef(o, doge, seal)
	h.emit(fmt.Sprintf("CAuxRoot %s %s %s %s", o.coq(), hlib.CoqBytes(doge), hlib.CoqBytes(seal), hlib.CoqBytes(got[:])), map[string]any{"doge": hlib.Hex(doge), "seal": hlib.Hex(seal)}, "r")
	chain, nonce := uint32(r.Next()), uint32(r.Next())
	size := uint32(1) << uint(r.Intn(8))
	if r.Chance(30) {
		chain, nonce, size = []uint32{9, 98}[r.Intn(2)], 0, 2
	}
	h.emit(fmt.Sprintf("CSlot %d %d %d %d", chain, nonce, size, types.CalculateMerkleSlot(chain, nonce, size)), map[string]any{"chain": chain, "nonce": nonce, "size": size}, "")
	if !bytes.Equal(got[:], want) {
		h.fail("aux-merkle-root", "CreateAuxMerkleRoot differs from the documented two-leaf merged-mining root")
	}
	s2 := append([]byte{}, seal...)
	s2[r.Intn(32)] ^= byte(1 << uint(r.Intn(8)))
	if types.CreateAuxMerkleRoot(common.BytesToHash(doge), common.BytesToHash(s2)) == got {
		h.fail("aux-merkle-root-binds-seal", "changing one bit of the seal hash left the aux merkle root unchanged")
	}
}

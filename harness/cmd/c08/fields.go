package main

import (
	"fmt"

	"github.com/dominant-strategies/go-quai/common"
	"github.com/dominant-strategies/go-quai/core/types"
	"lukechampine.com/blake3"

	"verifharness/hlib"
)

// caseFields: model-independent monitors on the real types.  Single-field mutation sweep of a work
// object header: SealHash() must change for every field except nonce / mixHash / AuxPow; the block
// identity Hash() must change for every field before the KawPow fork (and during the ProgPoW
// transition), and for every part of the AuxPow afterwards; the pair (Hash, SealHash) must change for
// every consensus field.  Body header: Header.Hash() must change for every field.  No Coq case.
func caseFields(h *H, r *hlib.Rng, variant string) {
	vhSetup()
	if variant == "" {
		variant = []string{"prefork", "transition", "postfork-kawpow", "postfork-sha", "body"}[r.Intn(5)]
	}
	h.rep.Evaluations++
	h.rep.Count("kind:fields/" + variant)
	powid, ptn := -1, uint64(r.Intn(int(fork)))
	switch variant {
	case "transition":
		ptn = fork + uint64(r.Intn(int(trans)))
	case "postfork-kawpow":
		powid, ptn = 1, fork+uint64(r.Intn(int(2*trans)))
	case "postfork-sha":
		powid, ptn = 2+r.Intn(3), fork+uint64(r.Intn(int(2*trans)))
	}
	s := buildSealed(r, powid, ptn, common.BytesToHash(r.Bytes(32)), common.BytesToHash(r.Bytes(32)), 7)
	wh0 := s.wo.WorkObjectHeader()
	hash0, seal0, body0 := wh0.Hash(), wh0.SealHash(), s.wo.Header().Hash()
	h.rep.Nontrivial("fields/" + variant)

	// structure of the identity hash, recomputed with the blake3 package directly
	if powid < 0 {
		var buf []byte
		mix, nonce := wh0.MixHash(), wh0.Nonce()
		buf = append(buf, mix[:]...)
		buf = append(buf, seal0[:]...)
		buf = append(buf, nonce[:]...)
		if want := blake3.Sum256(buf); common.Hash(want) != hash0 {
			h.fail("wo-hash-structure", "WorkObjectHeader.Hash() is not blake3(mixHash | sealHash | nonce) for a header without AuxPow")
		}
	}

	if variant == "body" {
		for _, m := range bodyMutations() {
			if len(m.name) > 7 && m.name[len(m.name)-7:] == "+rehash" {
				continue
			}
			c := &sealed{wo: types.CopyWorkObject(s.wo), tp: s.tp, has: s.has}
			m.apply(c, r)
			if c.wo.Header().Hash() == body0 {
				h.fail("body-header-hash-covers:"+m.name, "Header.Hash() unchanged after changing "+m.name)
			}
			if c.wo.WorkObjectHeader().HeaderHash() == c.wo.Header().Hash() {
				h.fail("body-header-hash-covers:"+m.name, "headerHash still matches the body header after changing "+m.name)
			}
		}
		return
	}
	ms := headerMutations()
	if s.has {
		ms = append(ms, auxMutations()...)
	}
	for _, m := range ms {
		if ptn < fork && (m.name == "wh.shaDiffAndCount" || m.name == "wh.scryptDiffAndCount" || m.name == "wh.shaShareTarget" || m.name == "wh.scryptShareTarget" || m.name == "wh.kawpowDifficulty") {
			continue // these fields do not exist on the wire before the fork
		}
		if m.name == "wh.time<sigtime" || (s.has && voidFor(m.name, wh0.AuxPow().PowID())) {
			continue
		}
		c := &sealed{wo: types.CopyWorkObject(s.wo), tp: s.tp, has: s.has}
		m.apply(c, r)
		wh := c.wo.WorkObjectHeader()
		hash1, seal1 := wh.Hash(), wh.SealHash()
		isAux := len(m.name) > 4 && m.name[:4] == "aux."
		free := m.name == "wh.nonce" || m.name == "wh.mixHash"
		if !isAux && !free && seal1 == seal0 {
			h.fail("seal-hash-covers:"+m.name, fmt.Sprintf("SealHash() unchanged after changing %s (%s)", m.name, variant))
		}
		if powid < 0 && hash1 == hash0 {
			h.fail("wo-hash-covers:"+m.name, fmt.Sprintf("Hash() unchanged after changing %s (%s)", m.name, variant))
		}
		if powid >= 0 && isAux && hash1 == hash0 {
			h.fail("wo-hash-covers:"+classOf(m.name), fmt.Sprintf("Hash() unchanged after changing %s of the AuxPow (%s)", m.name, variant))
		}
		if !free && hash1 == hash0 && seal1 == seal0 {
			h.fail("wo-identity-covers:"+classOf(m.name), fmt.Sprintf("neither Hash() nor SealHash() changed after changing %s (%s)", m.name, variant))
		}
	}
}

// C08 harness: "a block is sealed only by work on exactly its contents".
//
// Drives the REAL go-quai code (core.HeaderChain verifySeal / CheckWorkThreshold /
// CheckIfValidWorkShare / UncleWorkShareClassification / verifyHeader / VerifyUncles through the
// verif hook core/verif_c08_export.go with a stub PoW engine, and the exported donor-coinbase
// helpers of core/types) and writes, per case, the inputs and the observed verdict as a Coq term of
// type C08.case for the model comparison.  Independently of the model it evaluates the property's
// predicates directly (monitors): big.Int acceptance arithmetic in multiplicative form, seal
// monotonicity, per-field mutation sweeps of SealHash()/Hash()/Header.Hash(), coinbase commitment
// and merkle binding with crypto/sha256, and "every single change of a sealed header or of its
// AuxPoW parts is rejected".
package main

import (
	"fmt"
	"math/big"
	"os"
	"strings"

	"verifharness/hlib"
)

type caseJS struct {
	ID      int    `json:"id"`
	Kind    string `json:"kind"`
	Sub     uint64 `json:"sub"`     // sub-seed: the case is regenerated from (kind, sub, variant)
	Variant string `json:"variant"` // corpus variant name ("" = random)
	Desc    any    `json:"desc,omitempty"`
}

type H struct {
	f   *hlib.Flags
	rep *hlib.Report
	cw  *hlib.CaseWriter
	id  int
	cur caseJS
}

var two256 = new(big.Int).Lsh(big.NewInt(1), 256)

// emit records one executed case: Coq body term + description.
func (h *H) emit(body string, desc any, nontrivial string) {
	c := h.cur
	c.ID = h.id
	c.Desc = desc
	h.cw.Add(fmt.Sprintf("(%d%%N, %s)", h.id, body), c)
	h.rep.Evaluations++
	h.rep.TracesValidated++
	h.rep.Count("kind:" + c.Kind)
	if nontrivial != "" {
		h.rep.Nontrivial(c.Kind + "/" + nontrivial)
	}
	if h.id%97 == 0 {
		h.rep.Sample(c)
	}
	h.id++
}

// fail reports a monitor failure for the current case.
func (h *H) fail(sig, what string) {
	c := h.cur
	c.ID = h.id
	h.rep.Fail(sig, what, c)
}

// guard runs f; a panic of the code under test is returned as a string (never crashes the harness).
func guard(f func()) (panicked string) {
	defer func() {
		if r := recover(); r != nil {
			panicked = fmt.Sprint(r)
		}
	}()
	f()
	return ""
}

type gen struct {
	kind   string
	weight int
	run    func(h *H, r *hlib.Rng, variant string)
	corpus []string
}

func gens() []gen {
	return []gen{
		{"seal", 20, caseSeal, sealCorpus()},
		{"thr", 8, caseThr, thrCorpus()},
		{"ws", 12, caseWs, wsCorpus()},
		{"class", 12, caseClass, classCorpus()},
		{"ksd", 6, caseKsd, ksdCorpus()},
		{"script", 12, caseScript, scriptCorpus()},
		{"tx", 10, caseTx, txCorpus()},
		{"merkle", 6, caseMerkle, merkleCorpus()},
		{"auxroot", 3, caseAuxRoot, []string{"zero", "same"}},
		{"vh", 14, caseVH, vhCorpus()},
		{"uncle", 10, caseUncle, uncleCorpus()},
		{"fields", 3, caseFields, []string{"prefork", "transition", "postfork-kawpow", "postfork-sha", "body"}},
		{"engine", 3, caseEngine, engineCorpus()},
		{"tmpl", 5, caseTmpl, tmplCorpus()},
		{"powfilter", 4, casePowFilter, powfilterCorpus()},
	}
}

func (h *H) runOne(g gen, sub uint64, variant string) {
	h.cur = caseJS{Kind: g.kind, Sub: sub, Variant: variant}
	r := hlib.NewRng(sub)
	if p := guard(func() { g.run(h, r, variant) }); p != "" {
		// a panic that a case generator did not attribute to the code under test: harness defect or unexpected crash
		h.fail("harness-panic kind="+g.kind, "unexpected panic while running case: "+p)
	}
}

func main() {
	f := hlib.ParseFlags()
	setup()
	rep := hlib.NewReport("C08", "stub-engine sweep of (difficulty, PoW hash) over boundary values for verifySeal / workshare thresholds / share classification; "+
		"donor coinbase parsers and merkle root on built, truncated and byte-mutated coinbases; verifyHeader and VerifyUncles on fully valid merge-mined "+
		"headers (production-signed default templates and harness-signed ones) and on every single-field / single-byte-class mutation of them. "+
		"Non-trivial = the case reaches the comparison against the target (seal/threshold), a parser gets past the first push, or a header/uncle case "+
		"reaches the AuxPoW section; distinct by (kind, branch fingerprint)")
	header := "From Coq Require Import List ZArith Bool.\nFrom GQ Require Import Model.C08.\nImport ListNotations.\nLocal Open Scope Z_scope.\n"
	h := &H{f: f, rep: rep, cw: hlib.NewCaseWriter(f.Out, header, "C08.case", 100)}
	gs := gens()
	byKind := map[string]gen{}
	for _, g := range gs {
		byKind[g.kind] = g
	}
	if f.Replay != "" {
		var c caseJS
		hlib.ReadReplayCase(f.Replay, &c)
		g, ok := byKind[c.Kind]
		if !ok {
			fmt.Fprintln(os.Stderr, "unknown case kind in replay file:", c.Kind)
			os.Exit(2)
		}
		h.runOne(g, c.Sub, c.Variant)
	} else {
		// fixed corpus first
		for _, g := range gs {
			for i, v := range g.corpus {
				h.runOne(g, uint64(1000+i), v)
			}
		}
		rng := hlib.NewRng(f.Seed).Fork() // Fork: NewRng(s+1) is NewRng(s) shifted by one draw
		weights := make([]int, len(gs))
		for i, g := range gs {
			weights[i] = g.weight
		}
		for i := 0; i < f.N; i++ {
			g := gs[rng.Pick(weights...)]
			h.runOne(g, rng.Next(), "")
		}
	}
	h.cw.Close()
	rep.Write(f.Out)
}

// ---------- Coq printers ----------

func coqZ(x *big.Int) string { return hlib.CoqBig(x) }
func coqI(x int64) string    { return hlib.CoqBig(big.NewInt(x)) }
func coqOptZ(x *big.Int) string {
	if x == nil {
		return "None"
	}
	return "(Some " + coqZ(x) + ")"
}
func coqOptBytes(b []byte, ok bool) string { return hlib.CoqOptBytes(b, ok) }
func coqBranch(br [][]byte) string {
	s := make([]string, len(br))
	for i, b := range br {
		s[i] = hlib.CoqBytes(b)
	}
	return "[" + strings.Join(s, "; ") + "]"
}

package main

import (
	"fmt"
	"math/big"

	"github.com/dominant-strategies/go-quai/common"
	"github.com/dominant-strategies/go-quai/consensus"
	"github.com/dominant-strategies/go-quai/core"
	"github.com/dominant-strategies/go-quai/core/rawdb"
	"github.com/dominant-strategies/go-quai/core/types"
	"github.com/dominant-strategies/go-quai/params"
	"verifharness/hlib"
)

func try(name string, f func()) {
	defer func() {
		if r := recover(); r != nil {
			fmt.Println(name, "PANIC:", r)
		}
	}()
	f()
}

func main() {
	logger := hlib.QuietLogs()
	db := rawdb.NewMemoryDatabase(logger)
	e0 := &core.VerifC08StubEngine{}
	e1 := &core.VerifC08StubEngine{}
	loc := common.Location{0}
	parent := types.EmptyWorkObject(common.REGION_CTX)
	parent.WorkObjectHeader().SetLocation(common.Location{0, 0})
	fmt.Println("parent hash", parent.Hash())
	hc := core.VerifC08NewHeaderChain(db, loc, params.ModeNormal, 4, []consensus.Engine{e0, e1}, []common.Hash{parent.Hash()}, logger)

	h := types.EmptyWorkObject(common.REGION_CTX)
	wh := h.WorkObjectHeader()
	wh.SetDifficulty(big.NewInt(0))
	try("verifySeal d=0", func() { fmt.Println(hc.VerifySeal(wh)) })
	try("thr d=0", func() { fmt.Println(hc.CheckWorkThreshold(wh, 3)) })
	try("ws d=0", func() { fmt.Println(hc.CheckIfValidWorkShare(wh)) })
	wh.SetDifficulty(big.NewInt(1))
	e0.Hash = common.HexToHash("0xffffffffffffffffffffffffffffffffffffffffffffffffffffffffffffffff")
	try("verifySeal d=1", func() { fmt.Println(hc.VerifySeal(wh)) })
	wh.SetPrimeTerminusNumber(new(big.Int).SetUint64(params.KawPowForkBlock))
	try("ws postfork d=1", func() { fmt.Println(hc.CheckIfValidWorkShare(wh)) })
	wh.SetDifficulty(big.NewInt(0))
	try("ws postfork d=0", func() { fmt.Println(hc.CheckIfValidWorkShare(wh)) })
	try("class postfork d=0", func() { fmt.Println(hc.UncleWorkShareClassification(wh)) })

	// verifyHeader: region ctx child of genesis, with kawpow auxpow
	t := types.DefaultKawpowAuxTemplate()
	wh.SetDifficulty(big.NewInt(1000))
	wh.SetLocation(common.Location{0, 0})
	wh.SetTime(uint64(t.SignatureTime()) + 10)
	h.Header().SetNumber(big.NewInt(1), common.REGION_CTX)
	h.Header().SetParentHash(parent.Hash(), common.REGION_CTX)
	wh.SetHeaderHash(h.Body().Header().Hash())
	seal := wh.SealHash()
	tx := types.NewAuxPowCoinbaseTx(t.PowID(), t.Height(), t.CoinbaseOut(), seal, t.SignatureTime())
	root := types.CalculateMerkleRoot(t.PowID(), tx, t.MerkleBranch())
	hdr := types.NewBlockHeader(t.PowID(), int32(t.Version()), t.PrevHash(), root, t.SignatureTime()+5, t.Bits(), 0, t.Height())
	ap := types.NewAuxPow(t.PowID(), hdr, t.AuxPow2(), t.Sigs(), t.MerkleBranch(), tx)
	wh.SetAuxPow(ap)
	fmt.Println("seal unchanged by auxpow:", wh.SealHash() == seal)
	try("verifyHeader", func() { fmt.Println("vh:", hc.VerifC08VerifyHeader(h, parent, false, int64(wh.Time()))) })
	wh.SetTxHash(common.HexToHash("0x01"))
	try("verifyHeader mut", func() { fmt.Println("vh:", hc.VerifC08VerifyHeader(h, parent, false, int64(wh.Time()))) })
}

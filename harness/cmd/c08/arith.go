package main

import (
	"bytes"
	"errors"
	"fmt"
	"math/big"

	"github.com/dominant-strategies/go-quai/common"
	"github.com/dominant-strategies/go-quai/consensus"
	"github.com/dominant-strategies/go-quai/core"
	"github.com/dominant-strategies/go-quai/core/rawdb"
	"github.com/dominant-strategies/go-quai/core/types"
	"github.com/dominant-strategies/go-quai/log"
	"github.com/dominant-strategies/go-quai/params"

	"verifharness/hlib"
)

var (
	logger    *log.Logger
	errEngine = errors.New("verif: engine error")
	fork      = params.KawPowForkBlock
	trans     = params.KawPowTransitionPeriod
)

func setup() { logger = hlib.QuietLogs() }

// ---------- the chain object under test ----------

type envT struct {
	fake       bool
	wsthr      int
	h0, h1     common.Hash
	err0, err1 bool
}

type chain struct {
	hc     *core.HeaderChain
	e0, e1 *core.VerifC08StubEngine
}

var chains = map[string]*chain{}

func chainFor(fake bool, wsthr int) *chain {
	k := fmt.Sprintf("%v/%d", fake, wsthr)
	if c, ok := chains[k]; ok {
		return c
	}
	mode := params.ModeNormal
	if fake {
		mode = params.ModeFake
	}
	c := &chain{e0: &core.VerifC08StubEngine{}, e1: &core.VerifC08StubEngine{}}
	c.hc = core.VerifC08NewHeaderChain(rawdb.NewMemoryDatabase(logger), common.Location{0, 0}, mode, wsthr,
		[]consensus.Engine{c.e0, c.e1}, nil, logger)
	chains[k] = c
	return c
}

func (e envT) chain() *chain {
	c := chainFor(e.fake, e.wsthr)
	c.e0.Hash, c.e1.Hash = e.h0, e.h1
	c.e0.Err, c.e1.Err = nil, nil
	if e.err0 {
		c.e0.Err = errEngine
	}
	if e.err1 {
		c.e1.Err = errEngine
	}
	return c
}

func (e envT) coq() string {
	return fmt.Sprintf("(mkEnv %s %d %s %s %s %s)", hlib.CoqBool(e.fake), e.wsthr, hlib.CoqBytes(e.h0[:]), hlib.CoqBool(e.err0),
		hlib.CoqBytes(e.h1[:]), hlib.CoqBool(e.err1))
}

// ---------- the header fields the arithmetic reads ----------

type hdrT struct {
	ptn, diff        *big.Int
	aux              int // -1: no AuxPow; otherwise the PowID
	shaD, shaC, shaT *big.Int
	scrD, scrC, scrT *big.Int
	kawD             *big.Int
	donorNonce       uint32
}

func donorHeader(powid int, nonce uint32, root [32]byte, time uint32) *types.AuxPowHeader {
	return mkDonor(types.PowID(powid), 0x20000000, [32]byte{1, 2, 3}, root, time, 0x1d00ffff, nonce, 77)
}

// mkDonor builds a donor header with exactly the given fields.  (types.NewBlockHeader cannot be used for the
// Bitcoin-like chains: the btcd/bchd/ltcd constructors it calls ignore the time argument and stamp time.Now().)
func mkDonor(powid types.PowID, version int32, prev [32]byte, root [32]byte, time uint32, bits uint32, nonce uint32, height uint32) *types.AuxPowHeader {
	raw := make([]byte, 0, 80)
	le := func(v uint32) []byte { return []byte{byte(v), byte(v >> 8), byte(v >> 16), byte(v >> 24)} }
	raw = append(raw, le(uint32(version))...)
	raw = append(raw, prev[:]...)
	raw = append(raw, root[:]...)
	raw = append(raw, le(time)...)
	raw = append(raw, le(bits)...)
	raw = append(raw, le(nonce)...)
	var inner types.AuxHeaderData
	switch powid {
	case types.Kawpow:
		h := types.NewRavencoinBlockHeader(version, prev, root, time, bits, height)
		h.SetNonce64(uint64(nonce))
		return types.NewAuxPowHeader(h)
	case types.SHA_BTC:
		inner = &types.BitcoinHeaderWrapper{}
	case types.SHA_BCH:
		inner = &types.BitcoinCashHeaderWrapper{}
	case types.Scrypt:
		inner = &types.LitecoinHeaderWrapper{}
	default:
		return nil
	}
	if err := inner.Deserialize(bytes.NewReader(raw)); err != nil {
		panic(err)
	}
	return types.NewAuxPowHeader(inner)
}

func (x hdrT) build() (*types.WorkObjectHeader, []byte) {
	wo := types.EmptyWorkObject(common.ZONE_CTX)
	wh := wo.WorkObjectHeader()
	wh.SetLocation(common.Location{0, 0})
	wh.SetPrimeTerminusNumber(x.ptn)
	wh.SetDifficulty(x.diff)
	wh.SetShaDiffAndCount(types.NewPowShareDiffAndCount(x.shaD, x.shaC, big.NewInt(0)))
	wh.SetScryptDiffAndCount(types.NewPowShareDiffAndCount(x.scrD, x.scrC, big.NewInt(0)))
	wh.SetShaShareTarget(x.shaT)
	wh.SetScryptShareTarget(x.scrT)
	wh.SetKawpowDifficulty(x.kawD)
	var donorPow []byte
	if x.aux >= 0 {
		dh := donorHeader(x.aux, x.donorNonce, [32]byte{9}, 1700000000)
		ap := types.NewAuxPow(types.PowID(x.aux), dh, []byte{}, []byte{}, [][]byte{}, []byte{})
		wh.SetAuxPow(ap)
		if dh != nil && x.aux >= int(types.SHA_BTC) {
			p := dh.PowHash()
			donorPow = p[:]
		}
	}
	return wh, donorPow
}

func (x hdrT) coq(donorPow []byte) string {
	aux := "None"
	if x.aux >= 0 {
		aux = fmt.Sprintf("(Some %d)", x.aux)
	}
	return fmt.Sprintf("(mkHdr %s %s %s %s %s %s %s %s %s %s %s)", coqZ(x.ptn), coqZ(x.diff), aux,
		coqOptZ(x.shaD), coqZ(x.shaC), coqZ(x.shaT), coqOptZ(x.scrD), coqZ(x.scrC), coqZ(x.scrT), coqOptZ(x.kawD), hlib.CoqBytes(donorPow))
}

func (x hdrT) desc() map[string]string {
	s := func(b *big.Int) string {
		if b == nil {
			return "nil"
		}
		return b.String()
	}
	return map[string]string{"ptn": s(x.ptn), "diff": s(x.diff), "aux": fmt.Sprint(x.aux), "shaD": s(x.shaD), "shaC": s(x.shaC), "shaT": s(x.shaT),
		"scrD": s(x.scrD), "scrC": s(x.scrC), "scrT": s(x.scrT), "kawD": s(x.kawD)}
}

// ---------- value generators ----------

func bigPow2(k uint) *big.Int { return new(big.Int).Lsh(big.NewInt(1), k) }

func hashOf(x *big.Int) common.Hash {
	var h common.Hash
	if x.Sign() < 0 {
		return h
	}
	b := x.Bytes()
	if len(b) > 32 {
		b = b[len(b)-32:]
	}
	copy(h[32-len(b):], b)
	return h
}

func randBig(r *hlib.Rng, maxBits int) *big.Int {
	bits := 1 + r.Intn(maxBits)
	b := r.Bytes((bits + 7) / 8)
	x := new(big.Int).SetBytes(b)
	return x.Rsh(x, uint(len(b)*8-bits))
}

// a difficulty: boundary values and random magnitudes
func genDiff(r *hlib.Rng) *big.Int {
	switch r.Pick(3, 3, 3, 8, 8, 2, 2, 1) {
	case 0:
		return big.NewInt(int64(r.Intn(3))) // 0,1,2
	case 1:
		return new(big.Int).Add(bigPow2(uint(1+r.Intn(256))), big.NewInt(int64(r.Intn(3)-1)))
	case 2:
		return new(big.Int).Add(two256, big.NewInt(int64(r.Intn(5)-2)))
	case 3:
		return randBig(r, 64)
	case 4:
		return randBig(r, 200)
	case 5:
		return randBig(r, 300)
	case 6:
		return big.NewInt(int64(1 + r.Intn(20)))
	default:
		return big.NewInt(-int64(1 + r.Intn(5)))
	}
}

// a PoW hash relative to a target t: t-1, t, t+1, extremes, random
func genHashNear(r *hlib.Rng, t *big.Int) common.Hash {
	max := new(big.Int).Sub(two256, big.NewInt(1))
	clamp := func(x *big.Int) *big.Int {
		if x.Sign() < 0 {
			return big.NewInt(0)
		}
		if x.Cmp(max) > 0 {
			return max
		}
		return x
	}
	switch r.Pick(6, 6, 6, 2, 2, 2, 2, 4, 2) {
	case 0:
		return hashOf(clamp(new(big.Int).Sub(t, big.NewInt(1))))
	case 1:
		return hashOf(clamp(new(big.Int).Set(t)))
	case 2:
		return hashOf(clamp(new(big.Int).Add(t, big.NewInt(1))))
	case 3:
		return hashOf(big.NewInt(int64(r.Intn(3))))
	case 4:
		return hashOf(max)
	case 5:
		return hashOf(bigPow2(255))
	case 6:
		return hashOf(clamp(new(big.Int).Sub(max, big.NewInt(int64(r.Intn(3))))))
	case 7:
		return common.BytesToHash(r.Bytes(32))
	default:
		return hashOf(clamp(new(big.Int).Add(t, big.NewInt(int64(r.Intn(9)-4)))))
	}
}

func safeTarget(d *big.Int) *big.Int {
	if d.Sign() == 0 {
		return big.NewInt(0)
	}
	return new(big.Int).Div(two256, d)
}

func genPtn(r *hlib.Rng) *big.Int {
	f := new(big.Int).SetUint64(fork)
	switch r.Pick(6, 2, 3, 3, 3, 2, 1) {
	case 0:
		return big.NewInt(int64(r.Intn(int(fork))))
	case 1:
		return new(big.Int).Add(f, big.NewInt(int64(r.Intn(3)-1)))
	case 2:
		return new(big.Int).Add(f, big.NewInt(int64(r.Intn(int(trans)))))
	case 3:
		return new(big.Int).Add(f, big.NewInt(int64(trans)+int64(r.Intn(3)-1)))
	case 4:
		return new(big.Int).Add(f, big.NewInt(int64(trans)+int64(r.Intn(1000000))))
	case 5:
		return big.NewInt(0)
	default:
		// Uint64() wraps: 2^64 + small reads as pre-fork
		return new(big.Int).Add(bigPow2(64), big.NewInt(int64(r.Intn(5))))
	}
}

func genEnv(r *hlib.Rng, t *big.Int) envT {
	e := envT{wsthr: []int{4, 7, 1, 0, 9, 12}[r.Pick(6, 3, 1, 1, 2, 1)]}
	e.fake = r.Chance(4)
	e.h0 = genHashNear(r, t)
	e.h1 = genHashNear(r, t)
	e.err0 = r.Chance(4)
	e.err1 = r.Chance(4)
	return e
}

func genHdr(r *hlib.Rng) hdrT {
	x := hdrT{ptn: genPtn(r), diff: genDiff(r), aux: -1, donorNonce: uint32(r.Next())}
	if r.Chance(55) {
		x.aux = r.Pick(1, 8, 3, 3, 4, 1)
	}
	share := func() *big.Int {
		switch r.Pick(3, 3, 2, 2) {
		case 0:
			return big.NewInt(0)
		case 1:
			return new(big.Int).Mul(big.NewInt(int64(r.Intn(10))), bigPow2(32))
		case 2:
			return randBig(r, 36)
		default:
			return new(big.Int).Add(new(big.Int).Mul(big.NewInt(int64(r.Intn(5))), bigPow2(32)), big.NewInt(int64(r.Intn(3)-1)+1))
		}
	}
	x.shaC, x.shaT, x.scrC, x.scrT = share(), share(), share(), share()
	x.shaD, x.scrD = genDiff(r), genDiff(r)
	if r.Chance(5) {
		x.shaD = nil
	}
	if r.Chance(5) {
		x.scrD = nil
	}
	// kawpow (Ravencoin) difficulty relative to the block difficulty: the 75% / 90% cut-offs
	switch r.Pick(2, 1, 5, 3) {
	case 0:
		x.kawD = big.NewInt(0)
	case 1:
		x.kawD = nil
	case 2:
		pct := int64([]int{1000, 7499, 7500, 7501, 8000, 8999, 9000, 9001, 20000}[r.Intn(9)])
		if x.diff.Sign() > 0 {
			x.kawD = new(big.Int).Div(new(big.Int).Mul(x.diff, big.NewInt(10000)), big.NewInt(pct))
			x.kawD.Add(x.kawD, big.NewInt(int64(r.Intn(3)-1)))
		} else {
			x.kawD = big.NewInt(5)
		}
	default:
		x.kawD = randBig(r, 80)
	}
	return x
}

// ---------- observed verdict classes ----------

func sealClass(fake bool, err error) string {
	switch {
	case err == nil && fake:
		return "SealFake"
	case err == nil:
		return "SealOk"
	case errors.Is(err, consensus.ErrInvalidDifficulty):
		return "SealBadDiff"
	case errors.Is(err, consensus.ErrInvalidPoW):
		return "SealBadPow"
	case errors.Is(err, errEngine):
		return "SealEngineErr"
	}
	return "SealUnknown"
}

func wsClass(v types.WorkShareValidity) string {
	switch v {
	case types.Valid:
		return "WsValid"
	case types.Sub:
		return "WsSub"
	case types.Invalid:
		return "WsInvalid"
	case types.Block:
		return "WsBlock"
	}
	return "WsUnknown"
}

func engineIsKawpow(x hdrT) bool {
	return x.aux >= 0 && x.ptn.Uint64() >= fork
}

func engHash(e envT, x hdrT) (common.Hash, bool) {
	if engineIsKawpow(x) {
		return e.h1, e.err1
	}
	return e.h0, e.err0
}

// ---------- seal ----------

func sealCorpus() []string {
	return []string{"d0", "d1-max", "d1-zero", "d2-half", "d2-half+1", "d2^255", "d2^256", "d2^256-hash1", "d2^256-hash2", "d2^256+1-hash0", "d2^256+1-hash1",
		"dneg", "fake", "engine-err", "kawpow-engine", "ptn-wrap"}
}

func caseSeal(h *H, r *hlib.Rng, variant string) {
	x := genHdr(r)
	// most seal cases exercise plain blocks: sane share fields are irrelevant here
	t := safeTarget(x.diff)
	e := genEnv(r, t)
	max := new(big.Int).Sub(two256, big.NewInt(1))
	set := func(d *big.Int, hash *big.Int) {
		x.diff = d
		x.aux = -1
		x.ptn = big.NewInt(100)
		e.fake, e.err0, e.err1 = false, false, false
		e.h0 = hashOf(hash)
	}
	switch variant {
	case "d0":
		set(big.NewInt(0), big.NewInt(0))
	case "d1-max":
		set(big.NewInt(1), max)
	case "d1-zero":
		set(big.NewInt(1), big.NewInt(0))
	case "d2-half":
		set(big.NewInt(2), bigPow2(255))
	case "d2-half+1":
		set(big.NewInt(2), new(big.Int).Add(bigPow2(255), big.NewInt(1)))
	case "d2^255":
		set(bigPow2(255), big.NewInt(2))
	case "d2^256":
		set(two256, big.NewInt(1))
	case "d2^256-hash1":
		set(new(big.Int).Sub(two256, big.NewInt(1)), big.NewInt(1))
	case "d2^256-hash2":
		set(two256, big.NewInt(2))
	case "d2^256+1-hash0":
		set(new(big.Int).Add(two256, big.NewInt(1)), big.NewInt(0))
	case "d2^256+1-hash1":
		set(new(big.Int).Add(two256, big.NewInt(1)), big.NewInt(1))
	case "dneg":
		set(big.NewInt(-3), big.NewInt(0))
	case "fake":
		set(big.NewInt(0), max)
		e.fake = true
	case "engine-err":
		set(big.NewInt(5), big.NewInt(0))
		e.err0 = true
	case "kawpow-engine":
		set(big.NewInt(2), bigPow2(255))
		x.aux, x.ptn = 1, new(big.Int).SetUint64(fork)
		e.h0, e.h1 = hashOf(max), hashOf(bigPow2(255))
	case "ptn-wrap":
		set(big.NewInt(2), bigPow2(255))
		x.aux, x.ptn = 1, new(big.Int).Add(bigPow2(64), big.NewInt(3))
		e.h0, e.h1 = hashOf(bigPow2(255)), hashOf(max)
	}
	wh, donorPow := x.build()
	c := e.chain()
	var got common.Hash
	var err error
	if p := guard(func() { got, err = c.hc.VerifySeal(wh) }); p != "" {
		h.fail("panic:verifySeal", "verifySeal panicked: "+p)
		return
	}
	cls := sealClass(e.fake, err)
	nt := ""
	if cls == "SealOk" || cls == "SealBadPow" {
		nt = cls + fmt.Sprint(x.diff.BitLen()/32)
	}
	h.emit(fmt.Sprintf("CSeal %s %s %s", e.coq(), x.coq(donorPow), cls), map[string]any{"hdr": x.desc(), "h0": e.h0.Hex(), "h1": e.h1.Hex(), "got": cls}, nt)
	h.rep.Count("seal:" + cls)

	// monitor (independent of the model): acceptance in multiplicative form
	eh, eerr := engHash(e, x)
	hv := new(big.Int).SetBytes(eh[:])
	if !e.fake {
		want := x.diff.Sign() > 0 && !eerr && new(big.Int).Mul(hv, x.diff).Cmp(two256) <= 0
		if (err == nil) != want {
			h.fail("seal-accept-iff-le-target", fmt.Sprintf("verifySeal(difficulty=%s, hash=%s) accepted=%v but hash*difficulty<=2^256 and difficulty>0 is %v", x.diff, hv, err == nil, want))
		}
		if x.diff.Sign() <= 0 && cls != "SealBadDiff" {
			h.fail("seal-nonpositive-difficulty", fmt.Sprintf("difficulty %s not rejected as invalid difficulty (got %s)", x.diff, cls))
		}
		if (cls == "SealOk" || cls == "SealBadPow") && got != eh {
			h.fail("seal-returns-pow-hash", "verifySeal did not return the engine's PoW hash")
		}
		// monotonicity probes on the real code: a smaller hash / a smaller difficulty stays accepted
		if err == nil && hv.Sign() > 0 {
			lower := hashOf(new(big.Int).Sub(hv, big.NewInt(int64(1+r.Intn(3)))))
			if engineIsKawpow(x) {
				c.e1.Hash = lower
			} else {
				c.e0.Hash = lower
			}
			if _, err2 := c.hc.VerifySeal(wh); err2 != nil {
				h.fail("seal-monotone-hash", fmt.Sprintf("hash %s accepted at difficulty %s but smaller hash rejected", hv, x.diff))
			}
		}
		if err == nil && x.diff.Cmp(big.NewInt(1)) > 0 {
			c2 := e.chain()
			wh.SetDifficulty(new(big.Int).Sub(x.diff, big.NewInt(1)))
			if _, err2 := c2.hc.VerifySeal(wh); err2 != nil {
				h.fail("seal-antitone-difficulty", fmt.Sprintf("hash %s accepted at difficulty %s but rejected at difficulty-1", hv, x.diff))
			}
			wh.SetDifficulty(x.diff)
		}
	}
}

// ---------- CheckWorkThreshold ----------

func thrCorpus() []string {
	return []string{"d0-k3", "d0-k0", "d1-k7", "d3-exact", "d3-exact+1", "kneg"}
}

// independent formulation: hash <= floor(2^256/d) * 2^k  <=>  ceil(hash / 2^k) * d <= 2^256   (d > 0)
func thrHolds(hv, d *big.Int, k int) bool {
	q := new(big.Int).Add(hv, new(big.Int).Sub(bigPow2(uint(k)), big.NewInt(1)))
	q.Rsh(q, uint(k))
	return new(big.Int).Mul(q, d).Cmp(two256) <= 0
}

func caseThr(h *H, r *hlib.Rng, variant string) {
	x := genHdr(r)
	k := []int{3, 7, 4, 1, 0, -1, 12, 40}[r.Pick(5, 4, 3, 2, 1, 1, 1, 1)]
	t := safeTarget(x.diff)
	if k > 0 {
		t = new(big.Int).Lsh(t, uint(k))
	}
	e := genEnv(r, t)
	e.fake = false
	plain := func(d int64, kk int, hash *big.Int) {
		x.diff, x.aux, x.ptn, k = big.NewInt(d), -1, big.NewInt(5), kk
		e.err0, e.err1, e.h0 = false, false, hashOf(hash)
	}
	switch variant {
	case "d0-k3":
		plain(0, 3, big.NewInt(1))
	case "d0-k0":
		plain(0, 0, big.NewInt(1))
	case "d1-k7":
		plain(1, 7, new(big.Int).Sub(two256, big.NewInt(1)))
	case "d3-exact":
		plain(3, 2, new(big.Int).Lsh(new(big.Int).Div(two256, big.NewInt(3)), 2))
	case "d3-exact+1":
		plain(3, 2, new(big.Int).Add(new(big.Int).Lsh(new(big.Int).Div(two256, big.NewInt(3)), 2), big.NewInt(1)))
	case "kneg":
		plain(0, -2, big.NewInt(0))
	}
	wh, donorPow := x.build()
	c := e.chain()
	var got bool
	p := guard(func() { got = c.hc.CheckWorkThreshold(wh, k) })
	obs := "(WBool " + hlib.CoqBool(got) + ")"
	if p != "" {
		obs = "WPanic"
	}
	nt := ""
	if p == "" && k > 0 {
		nt = fmt.Sprintf("k%d/%v/%d", k, got, x.diff.BitLen()/64)
	}
	h.emit(fmt.Sprintf("CThr %s %s %s %s", e.coq(), x.coq(donorPow), coqI(int64(k)), obs), map[string]any{"hdr": x.desc(), "k": k, "h0": e.h0.Hex(), "h1": e.h1.Hex(), "got": obs}, nt)
	h.rep.Count("thr:" + obs)
	if p != "" {
		h.fail(panicSig("CheckWorkThreshold", p, x), fmt.Sprintf("CheckWorkThreshold(difficulty=%s, thresholdDiff=%d) panicked: %s", x.diff, k, p))
		return
	}
	eh, eerr := engHash(e, x)
	hv := new(big.Int).SetBytes(eh[:])
	if x.diff.Sign() > 0 {
		want := k > 0 && !eerr && thrHolds(hv, x.diff, k)
		if got != want {
			h.fail("workshare-threshold-arith", fmt.Sprintf("CheckWorkThreshold(difficulty=%s, k=%d, hash=%s) = %v, independent evaluation %v", x.diff, k, hv, got, want))
		}
		// a sealed block always meets every workshare threshold
		if k > 0 && !eerr && new(big.Int).Mul(hv, x.diff).Cmp(two256) <= 0 && !got {
			h.fail("seal-implies-workshare", "hash meets the block target but not the (easier) workshare threshold")
		}
		// monotone in k
		if got && k > 0 && !c.hc.CheckWorkThreshold(wh, k+1) {
			h.fail("workshare-threshold-monotone", fmt.Sprintf("threshold met for k=%d but not for k=%d", k, k+1))
		}
	}
}

// panicSig: the two recorded division-by-zero input classes get their own signature; any other panic is "panic:<fn>"
func panicSig(fn string, p string, x hdrT) string {
	if containsDivZero(p) {
		if x.diff.Sign() == 0 {
			return "workshare-div-by-zero:difficulty=0:" + fn
		}
		var sd *big.Int
		wh, _ := x.build()
		guard(func() { sd = core.CalculateKawpowShareDiff(wh) })
		if x.ptn.Uint64() >= fork && sd != nil && sd.Sign() == 0 && x.diff.Cmp(big.NewInt(int64(params.ExpectedWorksharesPerBlock))) <= 0 {
			return "workshare-div-by-zero:kawpow-share-diff=0:" + fn
		}
	}
	return "panic:" + fn
}

// ---------- CheckIfValidWorkShare ----------

func wsCorpus() []string {
	return []string{"pre-d0", "post-d0", "post-sharediff-rounds-to-0", "post-block", "pre-valid", "pre-sub", "pre-invalid", "post-cutoff90",
		"post-engine-err-zero-hash", "post-engine-err-low-hash", "pre-engine-err-zero-hash", "post-aux-engine-err-zero-hash"}
}

func caseWs(h *H, r *hlib.Rng, variant string) {
	x := genHdr(r)
	if r.Chance(60) && x.diff.Sign() <= 0 {
		x.diff = randBig(r, 120)
	}
	// choose the hash around the relevant target
	var t *big.Int
	preFork := x.ptn.Uint64() < fork
	if preFork {
		t = new(big.Int).Lsh(safeTarget(x.diff), uint(params.WorkSharesThresholdDiff))
		if r.Chance(40) {
			t = new(big.Int).Lsh(safeTarget(x.diff), 4)
		}
	} else {
		var sd *big.Int
		wh0, _ := x.build()
		guard(func() { sd = core.CalculateKawpowShareDiff(wh0) })
		if sd == nil || sd.Sign() == 0 {
			t = big.NewInt(0)
		} else {
			t = new(big.Int).Div(two256, sd)
		}
		if r.Chance(30) {
			t = new(big.Int).Lsh(safeTarget(x.diff), 4)
		}
	}
	e := genEnv(r, t)
	e.fake = false
	if r.Chance(12) {
		// the engine cannot produce a PoW hash (e.g. ErrInvalidMixHash); the real engines answer (zero hash, error)
		e.err0, e.err1 = true, true
		if r.Chance(60) {
			e.h0, e.h1 = common.Hash{}, common.Hash{}
		}
	}
	base := func(ptn uint64, d int64) {
		x.ptn, x.diff, x.aux = new(big.Int).SetUint64(ptn), big.NewInt(d), -1
		x.shaC, x.shaT, x.scrC, x.scrT, x.kawD = big.NewInt(0), big.NewInt(0), big.NewInt(0), big.NewInt(0), big.NewInt(0)
		e.err0, e.err1, e.wsthr = false, false, 4
	}
	switch variant {
	case "pre-d0":
		base(10, 0)
	case "post-d0":
		base(fork, 0)
	case "post-sharediff-rounds-to-0":
		// difficulty 5, nothing else mined: share diff = 5*2^32/(9*2^32) = 0 -> Div(2^256, 0)
		base(fork+5, 5)
		x.kawD = bigPow2(60)
	case "post-block":
		base(fork+5, 1000)
		x.kawD = bigPow2(60)
		e.h0 = hashOf(new(big.Int).Div(two256, big.NewInt(1000)))
	case "pre-valid":
		base(10, 1000)
		e.h0 = hashOf(new(big.Int).Lsh(new(big.Int).Div(two256, big.NewInt(1000)), 3))
	case "pre-sub":
		base(10, 1000)
		e.h0 = hashOf(new(big.Int).Add(new(big.Int).Lsh(new(big.Int).Div(two256, big.NewInt(1000)), 3), big.NewInt(1)))
	case "pre-invalid":
		base(10, 1000)
		e.h0 = hashOf(new(big.Int).Add(new(big.Int).Lsh(new(big.Int).Div(two256, big.NewInt(1000)), 4), big.NewInt(1)))
	case "post-cutoff90":
		base(fork+5, 9000000)
		x.kawD = big.NewInt(10000000)
		e.h0 = hashOf(new(big.Int).Div(two256, big.NewInt(9000000)))
	case "post-engine-err-zero-hash", "post-engine-err-low-hash", "pre-engine-err-zero-hash", "post-aux-engine-err-zero-hash":
		base(fork+5, 1000)
		x.kawD = bigPow2(60)
		if variant == "pre-engine-err-zero-hash" {
			x.ptn = big.NewInt(10)
		}
		if variant == "post-aux-engine-err-zero-hash" {
			x.aux, x.ptn = 1, new(big.Int).SetUint64(fork+trans+5)
		}
		e.err0, e.err1, e.h0, e.h1 = true, true, common.Hash{}, common.Hash{}
		if variant == "post-engine-err-low-hash" {
			e.h0, e.h1 = hashOf(big.NewInt(7)), hashOf(big.NewInt(7))
		}
	}
	wh, donorPow := x.build()
	c := e.chain()
	var got types.WorkShareValidity
	p := guard(func() { got = c.hc.CheckIfValidWorkShare(wh) })
	obs := wsClass(got)
	if p != "" {
		obs = "WsPanic"
	}
	h.emit(fmt.Sprintf("CWs %s %s %s", e.coq(), x.coq(donorPow), obs), map[string]any{"hdr": x.desc(), "wsthr": e.wsthr, "h0": e.h0.Hex(), "h1": e.h1.Hex(), "got": obs},
		fmt.Sprintf("%v/%s", preFork, obs))
	h.rep.Count("ws:" + obs)
	if p != "" {
		h.fail(panicSig("CheckIfValidWorkShare", p, x), fmt.Sprintf("CheckIfValidWorkShare(difficulty=%s, primeTerminus=%s) panicked: %s", x.diff, x.ptn, p))
		return
	}
	// monitors
	eh, eerr := engHash(e, x)
	hv := new(big.Int).SetBytes(eh[:])
	if eerr && got != types.Invalid {
		h.fail("engine-error-accepted:stub:CheckIfValidWorkShare", fmt.Sprintf("the engine answers an error (no PoW hash; returned bytes %s) and the header is classified %s as a workshare (difficulty %s, primeTerminus %s)", hv, obs, x.diff, x.ptn))
	}
	if x.diff.Sign() > 0 && !eerr {
		sealed := new(big.Int).Mul(hv, x.diff).Cmp(two256) <= 0
		if sealed && got != types.Valid {
			h.fail("block-is-valid-workshare", fmt.Sprintf("hash %s meets the block target of difficulty %s but the header is classified %s as a workshare", hv, x.diff, obs))
		}
		if got == types.Valid && preFork && !thrHolds(hv, x.diff, params.WorkSharesThresholdDiff) {
			h.fail("workshare-valid-needs-threshold", "classified Valid although the hash misses 2^256/difficulty * 2^WorkSharesThresholdDiff")
		}
		if got == types.Valid && !preFork {
			// after the fork a valid kawpow share needs at least 1/(ExpectedWorksharesPerBlock+1) of the block's work
			lim := new(big.Int).Mul(two256, big.NewInt(int64(params.ExpectedWorksharesPerBlock+1)))
			if new(big.Int).Mul(hv, x.diff).Cmp(new(big.Int).Add(lim, new(big.Int).Mul(hv, big.NewInt(int64(params.ExpectedWorksharesPerBlock+1))))) > 0 {
				h.fail("workshare-valid-needs-ninth", fmt.Sprintf("classified Valid with hash %s at difficulty %s: less than 1/%d of the block's work", hv, x.diff, params.ExpectedWorksharesPerBlock+1))
			}
		}
		if got == types.Sub && e.wsthr > 0 && !thrHolds(hv, x.diff, e.wsthr) {
			h.fail("workshare-sub-needs-threshold", "classified Sub although the hash misses the configured workshare threshold")
		}
	}
}

// ---------- UncleWorkShareClassification ----------

func classCorpus() []string {
	return []string{"sha-eq-target", "sha-below", "scrypt-d0", "sha-dnil", "post-noaux", "transition-progpow-block", "kawpow-block", "kawpow-share", "powid5", "pre-aux",
		"kawpow-engine-err-zero-hash", "transition-engine-err-zero-hash", "pre-engine-err-zero-hash"}
}

func caseClass(h *H, r *hlib.Rng, variant string) {
	x := genHdr(r)
	if r.Chance(50) || (x.aux >= 2 && r.Chance(80)) {
		x.ptn = new(big.Int).SetUint64(fork + uint64(r.Intn(int(2*trans))))
	}
	if r.Chance(50) && x.diff.Sign() <= 0 {
		x.diff = randBig(r, 100)
	}
	e := genEnv(r, safeTarget(x.diff))
	if r.Chance(10) {
		e.err0, e.err1 = true, true
		if r.Chance(60) {
			e.h0, e.h1 = common.Hash{}, common.Hash{}
		}
	}
	// for donor-hash shares put the share difficulty next to 2^256 / donorPow
	tune := func(which string) {
		wh0, dp := x.build()
		_ = wh0
		if len(dp) == 32 {
			pv := new(big.Int).SetBytes(dp)
			if pv.Sign() > 0 {
				d := new(big.Int).Div(two256, pv)
				d.Add(d, big.NewInt(int64(r.Intn(5)-2)))
				if r.Chance(20) {
					d = big.NewInt(1)
				}
				if which == "sha" {
					x.shaD = d
				} else {
					x.scrD = d
				}
			}
		}
	}
	if x.aux == 2 || x.aux == 3 {
		if r.Chance(80) {
			tune("sha")
		}
	}
	if x.aux == 4 && r.Chance(80) {
		tune("scr")
	}
	// the other donor chain's share difficulty is trivial half of the time: reading the wrong one becomes visible
	if x.aux == 4 && r.Chance(50) {
		x.shaD = big.NewInt(1)
	}
	if (x.aux == 2 || x.aux == 3) && r.Chance(50) {
		x.scrD = big.NewInt(1)
	}
	post := func(aux int) {
		x.ptn, x.aux, x.diff = new(big.Int).SetUint64(fork+trans+9), aux, big.NewInt(1000)
		x.shaC, x.shaT, x.scrC, x.scrT, x.kawD = big.NewInt(0), big.NewInt(0), big.NewInt(0), big.NewInt(0), bigPow2(60)
		e.fake, e.err0, e.err1, e.wsthr = false, false, false, 4
	}
	switch variant {
	case "sha-eq-target", "sha-below":
		post(2)
		_, dp := x.build()
		pv := new(big.Int).SetBytes(dp)
		// find d with floor(2^256/d) == pv exactly is rarely possible; use d = floor(2^256/pv) (target >= pv) and its successor
		x.shaD = new(big.Int).Div(two256, pv)
		if variant == "sha-below" {
			x.shaD = new(big.Int).Sub(x.shaD, big.NewInt(1))
		}
	case "scrypt-d0":
		post(4)
		x.scrD = big.NewInt(0)
	case "sha-dnil":
		post(3)
		x.shaD = nil
	case "post-noaux":
		post(-1)
	case "transition-progpow-block":
		post(-1)
		x.ptn = new(big.Int).SetUint64(fork + 3)
		e.h0 = hashOf(big.NewInt(1))
	case "kawpow-block":
		post(1)
		e.h1, e.h0 = hashOf(big.NewInt(1)), hashOf(new(big.Int).Sub(two256, big.NewInt(1)))
	case "kawpow-share":
		post(1)
		e.h1 = hashOf(new(big.Int).Div(two256, big.NewInt(200)))
		e.h0 = hashOf(big.NewInt(1))
	case "powid5":
		post(5)
	case "pre-aux":
		post(1)
		x.ptn = big.NewInt(100)
		e.h0 = hashOf(big.NewInt(1))
	case "kawpow-engine-err-zero-hash", "transition-engine-err-zero-hash", "pre-engine-err-zero-hash":
		post(1)
		if variant != "kawpow-engine-err-zero-hash" {
			x.aux, x.ptn = -1, new(big.Int).SetUint64(fork+3)
		}
		if variant == "pre-engine-err-zero-hash" {
			x.ptn = big.NewInt(100)
		}
		e.err0, e.err1, e.h0, e.h1 = true, true, common.Hash{}, common.Hash{}
	}
	wh, donorPow := x.build()
	c := e.chain()
	var got types.WorkShareValidity
	p := guard(func() { got = c.hc.UncleWorkShareClassification(wh) })
	obs := wsClass(got)
	if p != "" {
		obs = "WsPanic"
	}
	h.emit(fmt.Sprintf("CClass %s %s %s", e.coq(), x.coq(donorPow), obs), map[string]any{"hdr": x.desc(), "wsthr": e.wsthr, "fake": e.fake, "h0": e.h0.Hex(), "h1": e.h1.Hex(), "got": obs},
		fmt.Sprintf("%d/%v/%s", x.aux, x.ptn.Uint64() >= fork, obs))
	h.rep.Count("class:" + obs)
	if p != "" {
		h.fail(panicSig("UncleWorkShareClassification", p, x), fmt.Sprintf("UncleWorkShareClassification(difficulty=%s, primeTerminus=%s, powid=%d) panicked: %s", x.diff, x.ptn, x.aux, p))
		return
	}
	// monitors: a share of a donor chain counts only with donor hash strictly-or-equal below its declared target
	if x.ptn.Uint64() >= fork && x.aux >= 2 && x.aux <= 4 && got == types.Valid {
		d := x.shaD
		if x.aux == 4 {
			d = x.scrD
		}
		pv := new(big.Int).SetBytes(donorPow)
		if d == nil || d.Sign() <= 0 || new(big.Int).Mul(pv, d).Cmp(two256) > 0 {
			h.fail("donor-share-needs-target", fmt.Sprintf("powid %d share classified Valid with donor hash %s and share difficulty %v", x.aux, pv, d))
		}
	}
	if _, eerr := engHash(e, x); eerr && !e.fake && got != types.Invalid && !(x.ptn.Uint64() >= fork && x.aux >= 2 && x.aux <= 4) {
		h.fail("engine-error-accepted:stub:UncleWorkShareClassification", fmt.Sprintf("the engine answers an error (no PoW hash) and the header is classified %s (difficulty %s, primeTerminus %s, powid %d)", obs, x.diff, x.ptn, x.aux))
	}
	if !e.fake && got == types.Block {
		eh, eerr := engHash(e, x)
		hv := new(big.Int).SetBytes(eh[:])
		if x.diff.Sign() <= 0 || eerr || new(big.Int).Mul(hv, x.diff).Cmp(two256) > 0 {
			h.fail("block-class-needs-seal", fmt.Sprintf("classified Block with hash %s at difficulty %s", hv, x.diff))
		}
	}
}

// ---------- CalculateKawpowShareDiff ----------

func ksdCorpus() []string { return []string{"pre", "maxed", "kaw0", "pct7500", "pct9000", "plain"} }

func caseKsd(h *H, r *hlib.Rng, variant string) {
	x := genHdr(r)
	if r.Chance(70) {
		x.ptn = new(big.Int).SetUint64(fork + uint64(r.Intn(1000000)))
	}
	if x.diff.Sign() < 0 {
		x.diff = randBig(r, 90)
	}
	post := func() {
		x.ptn, x.diff = new(big.Int).SetUint64(fork+77), big.NewInt(90000000)
		x.shaC, x.shaT, x.scrC, x.scrT, x.kawD = bigPow2(32), bigPow2(33), bigPow2(33), bigPow2(32), bigPow2(40)
	}
	switch variant {
	case "pre":
		post()
		x.ptn = big.NewInt(3)
	case "maxed":
		post()
		x.shaC, x.shaT, x.scrC, x.scrT = bigPow2(34), bigPow2(34), bigPow2(34), bigPow2(34)
	case "kaw0":
		post()
		x.kawD = big.NewInt(0)
	case "pct7500":
		post()
		x.kawD = big.NewInt(120000000)
	case "pct9000":
		post()
		x.kawD = big.NewInt(100000000)
	case "plain":
		post()
	}
	wh, donorPow := x.build()
	var got *big.Int
	if p := guard(func() { got = core.CalculateKawpowShareDiff(wh) }); p != "" {
		h.fail("panic:CalculateKawpowShareDiff", "CalculateKawpowShareDiff panicked: "+p)
		return
	}
	h.emit(fmt.Sprintf("CKsd %s %s", x.coq(donorPow), coqZ(got)), map[string]any{"hdr": x.desc(), "got": got.String()}, fmt.Sprintf("%v/%d", got.Cmp(x.diff) == 0, got.BitLen()/32))
	// monitor: the share difficulty never exceeds the block difficulty and (post-fork, non-negative inputs) is at least a ninth of it
	if x.ptn.Uint64() >= fork && x.diff.Sign() >= 0 {
		if got.Cmp(x.diff) > 0 {
			h.fail("kawpow-share-diff-le-block", fmt.Sprintf("kawpow share difficulty %s exceeds block difficulty %s", got, x.diff))
		}
		n := big.NewInt(int64(params.ExpectedWorksharesPerBlock + 1))
		if new(big.Int).Mul(got, n).Cmp(new(big.Int).Sub(x.diff, new(big.Int).Sub(n, big.NewInt(1)))) < 0 {
			h.fail("kawpow-share-diff-ge-ninth", fmt.Sprintf("kawpow share difficulty %s is below floor(%s/%s)", got, x.diff, n))
		}
	}
}

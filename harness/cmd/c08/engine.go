package main

// caseEngine: the REAL proof-of-work engines (consensus/kawpow, consensus/progpow, consensus/blake3pow in their
// test mode: tiny epoch cache, full kernel) wired into a HeaderChain, instead of the stub engine of the
// arithmetic cases.  The property clause checked here is the one the stub cannot see: "the proof-of-work hash
// depends on every consensus field ... no accepted seal can be reused for different content" must hold for
// every HISTORY of verifications in one process, i.e. whatever the engines memoise between calls.
//
// Per case: an honestly sealed header / share is mined at a small difficulty; then for single-field mutations
// of the sealed content - every work-object-header field, and in particular nonce, mix hash, and every field of
// the AuxPoW donor header including the donor nonce (64-bit for KawPow) and the donor mix hash, plus the
// targeted forgery "another nonce carrying the honest mix hash" -
//   * cold verdict  = what a chain with brand-new engine instances answers for the mutated object,
//   * warm verdict  = what a chain answers that has verified the honest object (and the earlier mutants) before,
//   * order B       = a third chain sees all mutants first and the honest object last,
// over every call kind that reaches the engine (VerifySeal, ComputePowHash, UncleWorkShareClassification,
// CheckIfValidWorkShare, CheckWorkThreshold).  Warm and cold must agree (cache transparency); a mutant accepted
// warm but refused cold is reported as a reused seal.  Every verified object is freshly decoded from its wire
// encoding (what a node receives), so per-object memo fields start empty.
// In addition the kernel input coverage is probed on the real kernels (the PoW hash must change with every field
// that is supposed to feed it), and a random history of ComputePowHash calls on one engine instance
// ({donor / header variants} x {nonces} x {own mix, another nonce's mix, zero mix}, with repeats) is recorded as a
// Coq case (C08.CEngine) and replayed against the memoising engine model.

import (
	"fmt"
	"math/big"
	"strings"

	"github.com/dominant-strategies/go-quai/common"
	"github.com/dominant-strategies/go-quai/consensus"
	"github.com/dominant-strategies/go-quai/consensus/blake3pow"
	"github.com/dominant-strategies/go-quai/consensus/kawpow"
	"github.com/dominant-strategies/go-quai/consensus/progpow"
	"github.com/dominant-strategies/go-quai/core"
	"github.com/dominant-strategies/go-quai/core/rawdb"
	"github.com/dominant-strategies/go-quai/core/types"
	"github.com/dominant-strategies/go-quai/params"
	"google.golang.org/protobuf/proto"

	"verifharness/hlib"
)

func engineCorpus() []string {
	return []string{"kawpow", "kawpow-default-template", "progpow-prefork", "progpow-transition", "blake3-prefork", "donor-sha", "donor-scrypt"}
}

// ---------- chains with real engines ----------

type realChain struct {
	hc  *core.HeaderChain
	kaw *kawpow.Kawpow
}

func newRealChain(e0kind string) *realChain {
	cfg := params.PowConfig{PowMode: params.ModeTest}
	var e0 consensus.Engine
	if e0kind == "blake3" {
		e0 = blake3pow.New(cfg, nil, false, logger)
	} else {
		e0 = progpow.New(cfg, nil, false, logger)
	}
	k := kawpow.New(cfg, nil, false, logger)
	hc := core.VerifC08NewHeaderChain(rawdb.NewMemoryDatabase(logger), common.Location{0, 0}, params.ModeNormal, 4,
		[]consensus.Engine{e0, k}, nil, logger)
	return &realChain{hc: hc, kaw: k}
}

// the kernel oracle for KawPow: VerifyKawpowShare evaluates kawpowLight without touching the result cache
var kawOracle *kawpow.Kawpow

func kawEval(donor *types.AuxPowHeader) (mix, pow common.Hash) {
	if kawOracle == nil {
		kawOracle = kawpow.New(params.PowConfig{PowMode: params.ModeTest}, nil, false, logger)
	}
	mix, pow, _ = kawOracle.VerifyKawpowShare(donor.SealHash().Reverse(), donor.Nonce64(), uint64(donor.Height()))
	return
}

// fresh: the header as a node receives it (wire encoding decoded into a new object)
func fresh(wh *types.WorkObjectHeader) *types.WorkObjectHeader {
	p, err := wh.ProtoEncode()
	if err != nil {
		panic("harness: ProtoEncode: " + err.Error())
	}
	raw, err := proto.Marshal(p)
	if err != nil {
		panic("harness: Marshal: " + err.Error())
	}
	q := new(types.ProtoWorkObjectHeader)
	if err := proto.Unmarshal(raw, q); err != nil {
		panic("harness: Unmarshal: " + err.Error())
	}
	out := new(types.WorkObjectHeader)
	if err := out.ProtoDecode(q, wh.Location()); err != nil {
		panic("harness: ProtoDecode: " + err.Error())
	}
	return out
}

// ---------- observation ----------

type engObs struct {
	seal, pow, cph, class, share, thr string
}

func (o engObs) String() string {
	return fmt.Sprintf("seal=%s pow=%s cph=%s class=%s share=%s thr=%s", o.seal, o.pow, o.cph, o.class, o.share, o.thr)
}

func sealErrClass(err error) string {
	switch err {
	case nil:
		return "ok"
	case consensus.ErrInvalidPoW:
		return "badpow"
	case consensus.ErrInvalidMixHash:
		return "mix"
	case consensus.ErrInvalidDifficulty:
		return "baddiff"
	}
	return "err"
}

var engCalls = []string{"VerifySeal", "ComputePowHash", "UncleWorkShareClassification", "CheckIfValidWorkShare", "CheckWorkThreshold"}

// observeEngine runs every call kind that reaches the engine, each on its own freshly decoded copy.
func observeEngine(c *realChain, wh *types.WorkObjectHeader) engObs {
	var o engObs
	if p := guard(func() {
		ph, err := c.hc.VerifySeal(fresh(wh))
		o.seal, o.pow = sealErrClass(err), hlib.Hex(ph[:])
	}); p != "" {
		o.seal = "panic"
	}
	if p := guard(func() {
		ph, err := c.hc.ComputePowHash(fresh(wh))
		if err != nil {
			o.cph = "err:" + sealErrClass(err)
		} else {
			o.cph = hlib.Hex(ph[:])
		}
	}); p != "" {
		o.cph = "panic"
	}
	if p := guard(func() { o.class = wsClass(c.hc.UncleWorkShareClassification(fresh(wh))) }); p != "" {
		o.class = "panic"
	}
	if p := guard(func() { o.share = wsClass(c.hc.CheckIfValidWorkShare(fresh(wh))) }); p != "" {
		o.share = "panic"
	}
	if p := guard(func() { o.thr = fmt.Sprint(c.hc.CheckWorkThreshold(fresh(wh), 4)) }); p != "" {
		o.thr = "panic"
	}
	return o
}

// engineErrorAccepted: when the engine cannot produce a PoW hash for the object (ComputePowHash answers an error, e.g. the
// mix hash does not belong to the nonce) no call may treat the object as carrying work.  Not for the donor-hash chains,
// whose classification does not go through the engine.
func engineErrorAccepted(h *H, kind, variant, what string, o engObs) {
	if kind == "donor" || !strings.HasPrefix(o.cph, "err:") {
		return
	}
	bad := func(call, got string) {
		h.fail("engine-error-accepted:"+kind+":"+call, fmt.Sprintf("%s: the %s engine answers %s for the object (%s) - it has no proof-of-work hash - and %s answers %s {%s}", variant, kind, o.cph, what, call, got, o))
	}
	if o.seal == "ok" {
		bad("VerifySeal", o.seal)
	}
	if o.class != "WsInvalid" && o.class != "panic" {
		bad("UncleWorkShareClassification", o.class)
	}
	if o.share != "WsInvalid" && o.share != "panic" {
		bad("CheckIfValidWorkShare", o.share)
	}
	if o.thr == "true" {
		bad("CheckWorkThreshold", o.thr)
	}
}

func (o engObs) field(i int) string {
	return []string{o.seal + "/" + o.pow, o.cph, o.class, o.share, o.thr}[i]
}

// ---------- donor header surgery (keeps nonce and mix hash, unlike rebuildDonor) ----------

type donorF struct {
	version int32
	prev    [32]byte
	root    [32]byte
	time    uint32
	bits    uint32
	height  uint32
	nonce   uint64
	mix     common.Hash
}

func donorFields(d *types.AuxPowHeader, powid types.PowID) donorF {
	f := donorF{version: d.Version(), prev: d.PrevBlock(), root: d.MerkleRoot(), time: d.Timestamp(), bits: d.Bits(), height: d.Height()}
	if powid == types.Kawpow {
		f.nonce, f.mix = d.Nonce64(), d.MixHash()
	} else {
		f.nonce = uint64(d.Nonce())
	}
	return f
}

func (f donorF) build(powid types.PowID) *types.AuxPowHeader {
	if powid == types.Kawpow {
		return types.NewAuxPowHeader(&types.RavencoinBlockHeader{Version: f.version, HashPrevBlock: common.BytesToHash(f.prev[:]),
			HashMerkleRoot: common.BytesToHash(f.root[:]), Time: f.time, Bits: f.bits, Height: f.height, Nonce64: f.nonce, MixHash: f.mix})
	}
	return mkDonor(powid, f.version, f.prev, f.root, f.time, f.bits, uint32(f.nonce), f.height)
}

func modDonor(s *sealed, mod func(f *donorF)) {
	ap := s.wo.WorkObjectHeader().AuxPow()
	f := donorFields(ap.Header(), ap.PowID())
	mod(&f)
	ap.SetHeader(f.build(ap.PowID()))
}

// ---------- the mutations of the engine sweep ----------

type engMut struct {
	mutation
	kernelInput bool // the change must change the PoW hash the engine computes
	always      bool // part of every case (the others are sampled)
}

// engMutations: kind = "kawpow" | "progpow" | "blake3" | "donor".  forged: (nonce, mix) = another nonce whose own work is
// above the target, carrying the honest mix hash (nil when the kind has no mix hash).
func engMutations(kind string, postFork bool, badNonce uint64, haveBad bool) []engMut {
	var ms []engMut
	for _, m := range headerMutations() {
		if !postFork && (m.name == "wh.shaDiffAndCount" || m.name == "wh.scryptDiffAndCount" || m.name == "wh.shaShareTarget" || m.name == "wh.scryptShareTarget" || m.name == "wh.kawpowDifficulty") {
			continue // not on the wire before the fork
		}
		ki := kind == "progpow" || kind == "blake3"
		if kind == "progpow" && m.name == "wh.mixHash" {
			ki = false // the mix hash is an output of progpowLight
		}
		always := m.name == "wh.nonce" || m.name == "wh.mixHash" || m.name == "wh.difficulty"
		ms = append(ms, engMut{m, ki, always})
	}
	wh := func(s *sealed) *types.WorkObjectHeader { return s.wo.WorkObjectHeader() }
	if kind == "progpow" || kind == "blake3" {
		ms = append(ms,
			engMut{mutation{"wh.nonce.hi32", true, func(s *sealed, r *hlib.Rng) {
				wh(s).SetNonce(types.EncodeNonce(wh(s).NonceU64() ^ (1 << uint(32+r.Intn(32)))))
			}}, true, true},
			engMut{mutation{"wh.nonce.lo32", true, func(s *sealed, r *hlib.Rng) {
				wh(s).SetNonce(types.EncodeNonce(wh(s).NonceU64() ^ (1 << uint(r.Intn(32)))))
			}}, true, true},
			engMut{mutation{"wh.mixHash=0", true, func(s *sealed, r *hlib.Rng) { wh(s).SetMixHash(common.Hash{}) }}, kind == "blake3", true},
		)
		if haveBad {
			ms = append(ms, engMut{mutation{"wh.nonce=other+honest-mix", true, func(s *sealed, r *hlib.Rng) {
				wh(s).SetNonce(types.EncodeNonce(badNonce))
			}}, true, true})
		}
		return ms
	}
	// AuxPoW donor header
	isKaw := kind == "kawpow"
	d := func(name string, ki bool, mod func(f *donorF, r *hlib.Rng)) engMut {
		return engMut{mutation{name, true, func(s *sealed, r *hlib.Rng) { modDonor(s, func(f *donorF) { mod(f, r) }) }}, ki, true}
	}
	ms = append(ms,
		d("aux.donor.version", true, func(f *donorF, r *hlib.Rng) { f.version ^= 1 << uint(r.Intn(28)) }),
		d("aux.donor.prevHash", true, func(f *donorF, r *hlib.Rng) { f.prev[r.Intn(32)] ^= byte(1 << uint(r.Intn(8))) }),
		d("aux.donor.root", true, func(f *donorF, r *hlib.Rng) { f.root[r.Intn(32)] ^= byte(1 << uint(r.Intn(8))) }),
		d("aux.donor.time", true, func(f *donorF, r *hlib.Rng) { f.time++ }),
		d("aux.donor.bits", true, func(f *donorF, r *hlib.Rng) { f.bits ^= 1 << uint(r.Intn(32)) }),
		d("aux.donor.nonce+1", true, func(f *donorF, r *hlib.Rng) { f.nonce++ }),
		d("aux.donor.nonce.lo32", true, func(f *donorF, r *hlib.Rng) { f.nonce ^= 1 << uint(r.Intn(32)) }),
	)
	if isKaw {
		ms = append(ms,
			d("aux.donor.height", true, func(f *donorF, r *hlib.Rng) { f.height ^= 1 << uint(r.Intn(20)) }),
			d("aux.donor.height.epoch", true, func(f *donorF, r *hlib.Rng) { f.height += 7500 * uint32(1+r.Intn(3)) }),
			d("aux.donor.nonce.hi32", true, func(f *donorF, r *hlib.Rng) { f.nonce ^= 1 << uint(32+r.Intn(32)) }),
			d("aux.donor.mixHash", false, func(f *donorF, r *hlib.Rng) { f.mix = flipHash(f.mix, r) }),
			d("aux.donor.mixHash=0", false, func(f *donorF, r *hlib.Rng) { f.mix = common.Hash{} }),
		)
	}
	if haveBad {
		ms = append(ms, d("aux.donor.nonce=other+honest-mix", true, func(f *donorF, r *hlib.Rng) { f.nonce = badNonce }))
	}
	// changes of the other AuxPoW parts (sampled): they do not reach the kernel unless the donor root is recomputed
	for _, m := range auxMutations() {
		if strings.HasPrefix(m.name, "aux.tx.") || strings.HasPrefix(m.name, "aux.branch.") || strings.HasPrefix(m.name, "aux.signature.") {
			ms = append(ms, engMut{m, false, false})
		}
	}
	return ms
}

// ---------- the case ----------

func caseEngine(h *H, r *hlib.Rng, variant string) {
	vhSetup()
	if variant == "" {
		variant = engineCorpus()[r.Pick(5, 1, 3, 2, 2, 1, 1)]
	}
	h.rep.Count("kind:engine/" + variant)
	kind, e0kind, powid := "kawpow", "progpow", 1
	ptn := fork + trans + uint64(r.Intn(100000))
	switch variant {
	case "kawpow", "kawpow-default-template":
		if r.Chance(30) {
			ptn = fork + uint64(r.Intn(int(trans))) // KawPow blocks are also valid during the ProgPoW grace period
		}
	case "progpow-prefork":
		kind, powid, ptn = "progpow", -1, uint64(r.Intn(int(fork)))
	case "progpow-transition":
		kind, powid, ptn = "progpow", -1, fork+uint64(r.Intn(int(trans)))
	case "blake3-prefork":
		kind, e0kind, powid, ptn = "blake3", "blake3", -1, uint64(r.Intn(int(fork)))
	case "donor-sha":
		kind, powid = "donor", 2+r.Intn(2)
	case "donor-scrypt":
		kind, powid = "donor", 4
	}
	postFork := ptn >= fork

	// ---- the honest sealed object
	sealZeroShares = kind == "kawpow" && r.Chance(50)
	var s *sealed
	for {
		s = buildSealed(r, powid, ptn, common.BytesToHash(r.Bytes(32)), common.BytesToHash(r.Bytes(32)), 7)
		if variant == "kawpow-default-template" && s.tp.own {
			continue
		}
		break
	}
	sealZeroShares = false
	wh := s.wo.WorkObjectHeader()
	diff := big.NewInt(int64(16 + r.Intn(113))) // 16..128: mining takes a few dozen kernel evaluations
	shareDiff := big.NewInt(int64(8 + r.Intn(25)))
	wh.SetDifficulty(diff)
	if kind == "donor" {
		// the donor chains' shares are measured against the sealed share difficulty
		if powid == 4 {
			wh.SetScryptDiffAndCount(types.NewPowShareDiffAndCount(shareDiff, wh.ScryptDiffAndCount().Count(), wh.ScryptDiffAndCount().Uncled()))
		} else {
			wh.SetShaDiffAndCount(types.NewPowShareDiffAndCount(shareDiff, wh.ShaDiffAndCount().Count(), wh.ShaDiffAndCount().Uncled()))
		}
	}
	if s.has {
		ap := wh.AuxPow()
		wh.SetAuxPow(nil)
		wh.SetAuxPow(buildAux(s.tp.t, wh.SealHash(), ap.Header().Timestamp()))
	}
	target := new(big.Int).Div(two256, diff)
	below := func(pow common.Hash, t *big.Int) bool { return new(big.Int).SetBytes(pow[:]).Cmp(t) <= 0 }

	// mining with an engine instance of its own
	miner := newRealChain(e0kind)
	var badNonce, honestNonce uint64
	var honestMix, prevPow common.Hash
	haveGood, haveBad := false, false
	start := r.Next()
	if kind == "donor" {
		start &= 0xffffffff
	}
	for i := uint64(0); i < 20000 && !(haveGood && haveBad); i++ {
		n := start + i
		var good bool
		switch kind {
		case "kawpow":
			modDonor(s, func(f *donorF) { f.nonce, f.mix = n, common.Hash{} })
			mix, pow := kawEval(wh.AuxPow().Header())
			good = below(pow, target)
			if good && !haveGood {
				modDonor(s, func(f *donorF) { f.mix = mix })
			}
		case "progpow":
			wh.SetNonce(types.EncodeNonce(n))
			mix, pow := miner.hc.GetEngineForHeader(wh).ComputePowLight(fresh(wh))
			if i > 0 && pow == prevPow {
				h.fail("engine-cache-transparency:"+kind+":ComputePowLight", fmt.Sprintf("%s: one engine instance answers the same PoW hash %x for nonce %d and nonce %d of the same header", variant, pow, n-1, n))
				return
			}
			prevPow = pow
			good = below(pow, target)
			if good && !haveGood {
				wh.SetMixHash(mix)
			}
		case "blake3":
			wh.SetNonce(types.EncodeNonce(n))
			good = below(wh.Hash(), target)
		case "donor":
			n &= 0xffffffff
			modDonor(s, func(f *donorF) { f.nonce = n })
			pw := wh.AuxPow().Header().PowHash()
			// UncleWorkShareClassification wants the donor hash strictly below 2^256 / shareDiff
			good = new(big.Int).SetBytes(pw[:]).Cmp(new(big.Int).Div(two256, shareDiff)) < 0
		}
		if good && !haveGood {
			haveGood = true
			honestNonce = n
			if kind == "kawpow" {
				honestMix = wh.AuxPow().Header().MixHash()
			} else if kind == "progpow" {
				honestMix = wh.MixHash()
			}
		}
		if !good && !haveBad {
			haveBad, badNonce = true, n
		}
	}
	if !haveGood {
		h.fail("harness-engine-mining", "no nonce under the target in 20000 tries ("+variant+")")
		return
	}
	// restore the honest solution (the search may have gone on for a bad nonce)
	switch kind {
	case "kawpow":
		modDonor(s, func(f *donorF) { f.nonce, f.mix = honestNonce, honestMix })
	case "progpow":
		wh.SetNonce(types.EncodeNonce(honestNonce))
		wh.SetMixHash(honestMix)
	case "blake3":
		wh.SetNonce(types.EncodeNonce(honestNonce))
	case "donor":
		modDonor(s, func(f *donorF) { f.nonce = honestNonce })
	}
	if f := fresh(wh); f.Hash() != wh.Hash() || f.SealHash() != wh.SealHash() {
		h.fail("harness-engine-roundtrip", "the wire round trip of the honest header changes Hash()/SealHash() ("+variant+")")
		return
	}
	h.rep.Evaluations++
	h.rep.Nontrivial("engine/" + variant)

	// ---- honest object: accepted cold
	coldHonest := observeEngine(newRealChain(e0kind), wh)
	if kind != "donor" && coldHonest.seal != "ok" {
		h.fail("engine-honest-seal-rejected:"+kind, fmt.Sprintf("an honestly mined %s header (difficulty %v) is refused by VerifySeal on a fresh chain: %s", variant, diff, coldHonest))
		return
	}
	if kind == "donor" && coldHonest.class != "WsValid" {
		h.fail("engine-honest-seal-rejected:"+kind, fmt.Sprintf("an honestly mined powid-%d share (share difficulty %v) is not classified Valid on a fresh chain: %s", powid, shareDiff, coldHonest))
		return
	}
	coldLight := func(x *types.WorkObjectHeader) string {
		c := newRealChain(e0kind)
		var out string
		if p := guard(func() {
			if kind == "blake3" {
				ph, _ := c.hc.ComputePowHash(fresh(x))
				out = hlib.Hex(ph[:])
			} else if kind == "donor" {
				ph := x.AuxPow().Header().PowHash()
				out = hlib.Hex(ph[:])
			} else {
				_, ph := c.hc.GetEngineForHeader(x).ComputePowLight(fresh(x))
				out = hlib.Hex(ph[:])
			}
		}); p != "" {
			out = "panic"
		}
		return out
	}
	honestLight := coldLight(wh)

	// ---- mutants
	all := engMutations(kind, postFork, badNonce, haveBad)
	var ms []engMut
	var rest []engMut
	for _, m := range all {
		if m.always {
			ms = append(ms, m)
		} else {
			rest = append(rest, m)
		}
	}
	for i := 0; i < 7 && len(rest) > 0; i++ {
		j := r.Intn(len(rest))
		ms = append(ms, rest[j])
		rest = append(rest[:j], rest[j+1:]...)
	}
	type mutant struct {
		m    engMut
		wh   *types.WorkObjectHeader
		cold engObs
	}
	var muts []mutant
	for _, m := range ms {
		if m.name == "wh.time<sigtime" {
			continue
		}
		c := &sealed{wo: types.CopyWorkObject(s.wo), tp: s.tp, has: s.has}
		m.apply(c, r)
		x := c.wo.WorkObjectHeader()
		if p := guard(func() { x = fresh(x) }); p != "" {
			continue // not encodable: cannot arrive over the wire
		}
		mu := mutant{m: m, wh: x, cold: observeEngine(newRealChain(e0kind), x)}
		muts = append(muts, mu)
		h.rep.Count("engine-mutant:" + kind + "/" + m.name + "/" + mu.cold.seal)
		engineErrorAccepted(h, kind, variant, "honest header with "+m.name+" changed, fresh engine", mu.cold)
		if strings.HasPrefix(mu.cold.cph, "err:") {
			h.rep.Count("engine-error-object:" + kind + "/" + m.name)
		}
		if m.kernelInput {
			if l := coldLight(x); l == honestLight {
				h.fail("engine-pow-covers:"+kind+":"+m.name, fmt.Sprintf("the %s PoW hash does not change after changing %s (%s)", kind, m.name, variant))
			}
		}
	}
	compare := func(order string, m string, warm, cold engObs) {
		engineErrorAccepted(h, kind, variant, "honest header with "+m+" changed, "+order, warm)
		for i, call := range engCalls {
			if warm.field(i) == cold.field(i) {
				continue
			}
			if i == 0 && warm.seal == "ok" && cold.seal != "ok" {
				h.fail("engine-seal-reused:"+kind+":"+m, fmt.Sprintf("%s (%s): VerifySeal accepts the object obtained by changing %s of an honestly sealed header after other objects were verified (%s), "+
					"although by recomputation on a fresh engine it is refused: warm {%s} cold {%s}", variant, order, m, order, warm, cold))
				continue
			}
			h.fail("engine-cache-transparency:"+kind+":"+call, fmt.Sprintf("%s (%s): %s answers differently on a chain that verified other objects before and on a fresh chain, object = honest header with %s changed: warm {%s} cold {%s}",
				variant, order, call, m, warm, cold))
		}
	}
	// order A: honest first, then every mutant, then honest again
	a := newRealChain(e0kind)
	compare("honest first", "nothing", observeEngine(a, wh), coldHonest)
	for _, mu := range muts {
		compare("honest first", mu.m.name, observeEngine(a, mu.wh), mu.cold)
	}
	compare("honest last", "nothing", observeEngine(a, wh), coldHonest)
	// order B: mutants first (in reverse), honest last
	b := newRealChain(e0kind)
	for i := len(muts) - 1; i >= 0; i-- {
		compare("mutants first", muts[i].m.name, observeEngine(b, muts[i].wh), muts[i].cold)
	}
	compare("mutants first", "nothing", observeEngine(b, wh), coldHonest)

	// ---- a history of ComputePowHash calls on one engine instance, replayed against the model
	if kind == "kawpow" || kind == "progpow" {
		engineTrace(h, r, variant, kind, e0kind, s, honestNonce, honestMix, badNonce)
	}
}

type traceQ struct {
	hash  common.Hash
	nonce uint64
	num   uint64
	mix   common.Hash
}

func (q traceQ) coq() string {
	return fmt.Sprintf("(mkPq %s %s %d %s)", hlib.CoqBytes(q.hash[:]), coqZ(new(big.Int).SetUint64(q.nonce)), q.num, hlib.CoqBytes(q.mix[:]))
}

func engineTrace(h *H, r *hlib.Rng, variant, kind, e0kind string, s *sealed, goodNonce uint64, goodMix common.Hash, badNonce uint64) {
	// object variants: different kernel inputs besides the nonce
	variants := []func(c *sealed){
		func(c *sealed) {},
		func(c *sealed) {
			if kind == "kawpow" {
				modDonor(c, func(f *donorF) { f.time++ })
			} else {
				c.wo.WorkObjectHeader().SetTxHash(flipHash(c.wo.WorkObjectHeader().TxHash(), r))
			}
		},
		func(c *sealed) {
			if kind == "kawpow" {
				modDonor(c, func(f *donorF) { f.height += 7500 })
			} else {
				c.wo.WorkObjectHeader().SetTime(c.wo.WorkObjectHeader().Time() + 1)
			}
		},
	}
	objs := make([]*sealed, len(variants))
	for i, v := range variants {
		objs[i] = &sealed{wo: types.CopyWorkObject(s.wo), tp: s.tp, has: s.has}
		v(objs[i])
	}
	nonces := []uint64{goodNonce, badNonce, goodNonce ^ (1 << uint(32+r.Intn(32))), goodNonce + 1}
	type kin struct {
		hash  common.Hash
		nonce uint64
		num   uint64
	}
	kernel := map[kin][2]common.Hash{}
	var korder []kin
	input := func(x *types.WorkObjectHeader) kin {
		if kind == "kawpow" {
			d := x.AuxPow().Header()
			return kin{d.SealHash(), d.Nonce64(), uint64(d.Height())}
		}
		return kin{x.SealHash(), x.NonceU64(), x.PrimeTerminusNumber().Uint64()}
	}
	oracle := func(x *types.WorkObjectHeader) [2]common.Hash {
		k := input(x)
		if v, ok := kernel[k]; ok {
			return v
		}
		var v [2]common.Hash
		if kind == "kawpow" {
			v[0], v[1] = kawEval(x.AuxPow().Header())
		} else {
			// a brand-new engine per input: no result cache in the path
			c := newRealChain(e0kind)
			v[0], v[1] = c.hc.GetEngineForHeader(x).ComputePowLight(fresh(x))
		}
		kernel[k] = v
		korder = append(korder, k)
		return v
	}
	setSolution := func(c *sealed, n uint64, mix common.Hash) {
		if kind == "kawpow" {
			modDonor(c, func(f *donorF) { f.nonce, f.mix = n, mix })
		} else {
			c.wo.WorkObjectHeader().SetNonce(types.EncodeNonce(n))
			c.wo.WorkObjectHeader().SetMixHash(mix)
		}
	}
	eng := newRealChain(e0kind)
	n := 10 + r.Intn(6)
	var qs, outs []string
	accepted, refused := 0, 0
	for i := 0; i < n; i++ {
		c := &sealed{wo: types.CopyWorkObject(objs[r.Pick(5, 2, 2)].wo), tp: s.tp, has: s.has}
		nonce := nonces[r.Pick(4, 4, 1, 1)]
		setSolution(c, nonce, common.Hash{})
		own := oracle(c.wo.WorkObjectHeader())
		mix := own[0]
		switch r.Pick(6, 3, 1) {
		case 1:
			mix = goodMix // another nonce's mix hash (or, for the good nonce on the honest object, its own)
		case 2:
			mix = common.Hash{}
		}
		setSolution(c, nonce, mix)
		x := c.wo.WorkObjectHeader()
		k := input(x)
		q := traceQ{k.hash, k.nonce, k.num, mix}
		var got common.Hash
		var err error
		if p := guard(func() { got, err = eng.hc.ComputePowHash(fresh(x)) }); p != "" {
			h.fail("panic:ComputePowHash:"+kind, "ComputePowHash panicked on a "+variant+" header: "+p)
			return
		}
		want := mix == own[0]
		if (err == nil) != want || (err == nil && got != own[1]) {
			h.fail("engine-trace-answer:"+kind, fmt.Sprintf("%s: call %d of a history on one engine: ComputePowHash answers (%x, err=%v) for (hash %x, nonce %d, number %d, mix %x); the kernel says mix %x pow %x",
				variant, i, got, err, k.hash, k.nonce, k.num, mix, own[0], own[1]))
		}
		qs = append(qs, q.coq())
		if err == nil {
			outs = append(outs, "Some "+hlib.CoqBytes(got[:]))
			accepted++
		} else {
			outs = append(outs, "None")
			refused++
		}
	}
	var kt []string
	for _, k := range korder {
		v := kernel[k]
		kt = append(kt, fmt.Sprintf("((%s, %s, %d), (%s, %s))", hlib.CoqBytes(k.hash[:]), coqZ(new(big.Int).SetUint64(k.nonce)), k.num, hlib.CoqBytes(v[0][:]), hlib.CoqBytes(v[1][:])))
	}
	kindN := 1
	if kind == "progpow" {
		kindN = 0
	}
	body := fmt.Sprintf("CEngine %d [%s] [%s] [%s]", kindN, strings.Join(kt, "; "), strings.Join(qs, "; "), strings.Join(outs, "; "))
	h.emit(body, map[string]any{"variant": variant, "calls": n, "accepted": accepted, "refused": refused, "kernelInputs": len(korder)},
		fmt.Sprintf("%s/acc%v/ref%v", variant, accepted > 0, refused > 0))
}

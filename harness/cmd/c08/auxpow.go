package main

import (
	"bytes"
	"encoding/hex"
	"fmt"
	"math/big"
	"strings"

	"github.com/btcsuite/btcd/btcec/v2"
	"github.com/dominant-strategies/go-quai/common"
	"github.com/dominant-strategies/go-quai/consensus"
	"github.com/dominant-strategies/go-quai/core"
	"github.com/dominant-strategies/go-quai/core/rawdb"
	"github.com/dominant-strategies/go-quai/core/types"
	"github.com/dominant-strategies/go-quai/crypto/musig2"
	"github.com/dominant-strategies/go-quai/params"

	"verifharness/hlib"
)

// ---------- template signing keys ----------
//
// The three default templates compiled into core/types/auxpow.go carry signatures that verify under the
// production MuSig2 keys (params.MuSig2PublicKeys): they are the "recorded" vectors.  For breadth
// (SHA_BTC, arbitrary merkle branches / heights / payouts) the harness also signs templates with its own
// deterministic keys and swaps params.MuSig2PublicKeys for exactly the duration of those cases; the
// signature scheme itself is a trusted primitive.

var (
	prodKeys []string
	ownPriv  [3]*btcec.PrivateKey
	ownPub   []string
)

func initKeys() {
	if prodKeys != nil {
		return
	}
	prodKeys = append([]string{}, params.MuSig2PublicKeys...)
	for i := range ownPriv {
		k := make([]byte, 32)
		k[0], k[31] = 0x42, byte(i+1)
		copy(k[1:], []byte("verif-c08-template-signer"))
		ownPriv[i], _ = btcec.PrivKeyFromBytes(k)
		ownPub = append(ownPub, hex.EncodeToString(ownPriv[i].PubKey().SerializeCompressed()))
	}
}

func useKeys(own bool) {
	initKeys()
	if own {
		params.MuSig2PublicKeys = ownPub
	} else {
		params.MuSig2PublicKeys = prodKeys
	}
}

func signTemplate(t *types.AuxTemplate) []byte {
	useKeys(true)
	msg := t.Hash()
	m0, err := musig2.NewManager(ownPriv[0])
	if err != nil {
		panic(err)
	}
	m1, err := musig2.NewManager(ownPriv[1])
	if err != nil {
		panic(err)
	}
	s0, err := m0.NewSigningSession(msg[:], 1)
	if err != nil {
		panic(err)
	}
	s1, err := m1.NewSigningSession(msg[:], 0)
	if err != nil {
		panic(err)
	}
	if err := s0.RegisterOtherNonce(s1.GetPublicNonce()); err != nil {
		panic(err)
	}
	if err := s1.RegisterOtherNonce(s0.GetPublicNonce()); err != nil {
		panic(err)
	}
	p0, err := s0.CreatePartialSignature()
	if err != nil {
		panic(err)
	}
	p1, err := s1.CreatePartialSignature()
	if err != nil {
		panic(err)
	}
	sig, err := musig2.CombinePartialSignatures(s0.(*musig2.SigningSession), p0, p1)
	if err != nil {
		panic(err)
	}
	return sig
}

type tmpl struct {
	t   *types.AuxTemplate
	own bool
}

func genCoinbaseOut(r *hlib.Rng) []byte {
	n := 1 + r.Intn(2)
	out := []byte{byte(n)}
	for i := 0; i < n; i++ {
		out = append(out, r.Bytes(8)...)
		s := r.Bytes(20 + r.Intn(10))
		out = append(out, byte(len(s)))
		out = append(out, s...)
	}
	return append(out, 0, 0, 0, 0)
}

func pickTemplate(r *hlib.Rng, powid int) tmpl {
	if r.Chance(35) {
		switch powid {
		case 1:
			return tmpl{types.DefaultKawpowAuxTemplate(), false}
		case 3:
			return tmpl{types.DefaultShaBchAuxTemplate(), false}
		case 4:
			return tmpl{types.DefaultScryptAuxTemplate(), false}
		}
	}
	t := types.NewAuxTemplate()
	t.SetPowID(types.PowID(powid))
	var prev [32]byte
	copy(prev[:], r.Bytes(32))
	t.SetPrevHash(prev)
	t.SetAuxPow2([]byte{})
	if powid == 4 {
		a := r.Bytes(32)
		a[0] |= 1
		t.SetAuxPow2(a)
	}
	t.SetVersion(0x20000000 | uint32(r.Intn(1<<12)))
	t.SetNBits(uint32(r.Next()))
	t.SetSignatureTime(1700000000 + uint32(r.Intn(100000000)))
	t.SetHeight(uint32(1 + r.Intn(1<<23)))
	t.SetCoinbaseOut(genCoinbaseOut(r))
	k := []int{0, 1, 2, 3, 7, 11}[r.Intn(6)]
	br := make([][]byte, k)
	for i := range br {
		br[i] = r.Bytes(32)
	}
	t.SetMerkleBranch(br)
	t.SetSigs(signTemplate(t))
	return tmpl{t, true}
}

// buildAux: the AuxPow a miner would submit for template t and seal hash `seal`.
func buildAux(t *types.AuxTemplate, seal common.Hash, donorTime uint32) *types.AuxPow {
	commit := seal
	if t.PowID() == types.Scrypt && len(t.AuxPow2()) >= 32 {
		commit = types.CreateAuxMerkleRoot(common.BytesToHash(t.AuxPow2()[:32]), seal)
	}
	tx := types.NewAuxPowCoinbaseTx(t.PowID(), t.Height(), t.CoinbaseOut(), commit, t.SignatureTime())
	root := types.CalculateMerkleRoot(t.PowID(), tx, t.MerkleBranch())
	hdr := mkDonor(t.PowID(), int32(t.Version()), t.PrevHash(), root, donorTime, t.Bits(), 12345, t.Height())
	br := make([][]byte, len(t.MerkleBranch()))
	for i, s := range t.MerkleBranch() {
		br[i] = append([]byte{}, s...)
	}
	return types.NewAuxPow(t.PowID(), hdr, append([]byte{}, t.AuxPow2()...), append([]byte{}, t.Sigs()...), br, tx)
}

// rebuildDonor replaces the donor header keeping everything but the given fields.
func rebuildDonor(ap *types.AuxPow, mod func(version *int32, prev *[32]byte, root *[32]byte, time *uint32, bits *uint32, height *uint32)) {
	d := ap.Header()
	version, prev, root, time, bits, height := d.Version(), d.PrevBlock(), d.MerkleRoot(), d.Timestamp(), d.Bits(), d.Height()
	mod(&version, &prev, &root, &time, &bits, &height)
	ap.SetHeader(mkDonor(ap.PowID(), version, prev, root, time, bits, 12345, height))
}

// ---------- the sealed header under test ----------

var (
	vhChain   *chain
	vhParent  *types.WorkObject
	unChain   *chain
	unAnc     []*types.WorkObject
	regionLoc = common.Location{0}
)

func vhSetup() {
	if vhChain != nil {
		return
	}
	vhParent = types.EmptyWorkObject(common.REGION_CTX)
	vhParent.WorkObjectHeader().SetLocation(common.Location{0, 0})
	c := &chain{e0: &core.VerifC08StubEngine{}, e1: &core.VerifC08StubEngine{}}
	c.hc = core.VerifC08NewHeaderChain(rawdb.NewMemoryDatabase(logger), regionLoc, params.ModeNormal, 4,
		[]consensus.Engine{c.e0, c.e1}, []common.Hash{vhParent.Hash()}, logger)
	vhChain = c

	u := &chain{e0: &core.VerifC08StubEngine{}, e1: &core.VerifC08StubEngine{}}
	u.hc = core.VerifC08NewHeaderChain(rawdb.NewMemoryDatabase(logger), regionLoc, params.ModeNormal, 4,
		[]consensus.Engine{u.e0, u.e1}, nil, logger)
	prev := common.Hash{}
	for i := 0; i < 6; i++ {
		a := types.EmptyWorkObject(common.REGION_CTX)
		a.WorkObjectHeader().SetLocation(common.Location{0, 0})
		a.WorkObjectHeader().SetNumber(big.NewInt(int64(i)))
		a.WorkObjectHeader().SetParentHash(prev)
		a.Header().SetNumber(big.NewInt(int64(i)), common.REGION_CTX)
		a.Header().SetParentHash(prev, common.REGION_CTX)
		u.hc.VerifC08SeedBlock(a)
		unAnc = append(unAnc, a)
		prev = a.Hash()
	}
	unChain = u
}

func grindAddr(r *hlib.Rng, loc common.Location, internal bool) common.Address {
	for {
		a := common.BytesToAddress(r.Bytes(20), loc)
		_, err := a.InternalAddress()
		if (err == nil) == internal && !a.IsInQiLedgerScope() {
			return a
		}
	}
}

// sealZeroShares: build headers whose sha/scrypt share counters are zero (so the kawpow share target is 9x the block target)
var sealZeroShares bool

type sealed struct {
	wo  *types.WorkObject
	tp  tmpl
	has bool // has AuxPow
}

// buildSealed: a work object whose header is (for the C08 rules) fully valid: header hash = hash of the body header,
// and, when powid >= 0, an AuxPow whose coinbase commits to the seal hash, lies under the donor merkle root and
// carries a valid template signature.
func buildSealed(r *hlib.Rng, powid int, ptn uint64, parentRegion common.Hash, parentZone common.Hash, numRegion int64) *sealed {
	s := &sealed{}
	wo := types.EmptyWorkObject(common.REGION_CTX)
	wh := wo.WorkObjectHeader()
	wh.SetParentHash(parentZone)
	wh.SetNumber(new(big.Int).SetUint64(2*params.BlocksPerMonth + uint64(r.Intn(100000))))
	wh.SetDifficulty(new(big.Int).Add(randBig(r, 70), big.NewInt(1000)))
	wh.SetPrimeTerminusNumber(new(big.Int).SetUint64(ptn))
	wh.SetTxHash(common.BytesToHash(r.Bytes(32)))
	wh.SetLocation(common.Location{0, byte(r.Intn(3))})
	wh.SetLock(byte(r.Intn(4)))
	wh.SetPrimaryCoinbase(grindAddr(r, wh.Location(), true))
	wh.SetData(append([]byte{byte(r.Intn(4))}, r.Bytes(r.Intn(12))...))
	wh.SetNonce(types.EncodeNonce(r.Next()))
	wh.SetMixHash(common.BytesToHash(r.Bytes(32)))
	wh.SetShaDiffAndCount(types.NewPowShareDiffAndCount(big.NewInt(1), randBig(r, 34), randBig(r, 20)))
	wh.SetScryptDiffAndCount(types.NewPowShareDiffAndCount(big.NewInt(1), randBig(r, 34), randBig(r, 20)))
	if sealZeroShares || r.Chance(50) {
		wh.SetShaDiffAndCount(types.NewPowShareDiffAndCount(big.NewInt(1), big.NewInt(0), big.NewInt(0)))
		wh.SetScryptDiffAndCount(types.NewPowShareDiffAndCount(big.NewInt(1), big.NewInt(0), big.NewInt(0)))
	}
	wh.SetShaShareTarget(randBig(r, 34))
	wh.SetScryptShareTarget(randBig(r, 34))
	wh.SetKawpowDifficulty(randBig(r, 80))
	if sealZeroShares || r.Chance(50) {
		wh.SetKawpowDifficulty(new(big.Int).Mul(wh.Difficulty(), big.NewInt(int64(2+r.Intn(1000)))))
	}
	b := wo.Header()
	b.SetNumber(big.NewInt(numRegion), common.REGION_CTX)
	b.SetParentHash(parentRegion, common.REGION_CTX)
	b.SetEVMRoot(common.BytesToHash(r.Bytes(32)))
	b.SetTxHash(common.BytesToHash(r.Bytes(32)))
	b.SetGasLimit(r.Next() >> 8)
	b.SetExtra(r.Bytes(r.Intn(20)))
	b.SetBaseFee(randBig(r, 40))
	wh.SetHeaderHash(b.Hash())
	wh.SetTime(1600000000 + uint64(r.Intn(1000)))
	if powid >= 0 {
		s.tp = pickTemplate(r, powid)
		s.has = true
		t := s.tp.t
		wh.SetTime(uint64(t.SignatureTime()) + uint64(r.Intn(600)))
		wh.SetAuxPow(buildAux(t, wh.SealHash(), t.SignatureTime()+uint32(r.Intn(600))))
	}
	s.wo = wo
	return s
}

// ---------- mutations ----------

type mutation struct {
	name       string
	mustReject bool // the property demands rejection of the mutated object (starting from an accepted one)
	apply      func(s *sealed, r *hlib.Rng)
}

func flipHash(h common.Hash, r *hlib.Rng) common.Hash {
	h[r.Intn(32)] ^= byte(1 << uint(r.Intn(8)))
	return h
}
func bump(x *big.Int) *big.Int { return new(big.Int).Add(x, big.NewInt(1)) }

func headerMutations() []mutation {
	wh := func(s *sealed) *types.WorkObjectHeader { return s.wo.WorkObjectHeader() }
	dc := func(p *types.PowShareDiffAndCount, i int) *types.PowShareDiffAndCount {
		d, c, u := p.Difficulty(), p.Count(), p.Uncled()
		switch i {
		case 0:
			d = bump(d)
		case 1:
			c = bump(c)
		default:
			u = bump(u)
		}
		return types.NewPowShareDiffAndCount(d, c, u)
	}
	return []mutation{
		{"wh.headerHash", true, func(s *sealed, r *hlib.Rng) { wh(s).SetHeaderHash(flipHash(wh(s).HeaderHash(), r)) }},
		{"wh.parentHash", true, func(s *sealed, r *hlib.Rng) { wh(s).SetParentHash(flipHash(wh(s).ParentHash(), r)) }},
		{"wh.number", true, func(s *sealed, r *hlib.Rng) { wh(s).SetNumber(bump(wh(s).Number())) }},
		{"wh.difficulty", true, func(s *sealed, r *hlib.Rng) { wh(s).SetDifficulty(bump(wh(s).Difficulty())) }},
		{"wh.txHash", true, func(s *sealed, r *hlib.Rng) { wh(s).SetTxHash(flipHash(wh(s).TxHash(), r)) }},
		{"wh.location", true, func(s *sealed, r *hlib.Rng) {
			l := wh(s).Location()
			wh(s).SetLocation(common.Location{l[0], (l[1] + 1) % 3})
		}},
		{"wh.time", true, func(s *sealed, r *hlib.Rng) { wh(s).SetTime(wh(s).Time() + 1) }},
		{"wh.lock", true, func(s *sealed, r *hlib.Rng) { wh(s).SetLock((wh(s).Lock() + 1) % 4) }},
		{"wh.primaryCoinbase", true, func(s *sealed, r *hlib.Rng) {
			old := wh(s).PrimaryCoinbase()
			for {
				a := grindAddr(r, wh(s).Location(), true)
				if !a.Equal(old) {
					wh(s).SetPrimaryCoinbase(a)
					return
				}
			}
		}},
		{"wh.data", true, func(s *sealed, r *hlib.Rng) {
			d := append([]byte{}, wh(s).Data()...)
			if r.Chance(50) {
				d = append(d, 0)
			} else {
				d[0] = (d[0] + 1) % 4
			}
			wh(s).SetData(d)
		}},
		{"wh.shaDiffAndCount", true, func(s *sealed, r *hlib.Rng) { wh(s).SetShaDiffAndCount(dc(wh(s).ShaDiffAndCount(), r.Intn(3))) }},
		{"wh.scryptDiffAndCount", true, func(s *sealed, r *hlib.Rng) { wh(s).SetScryptDiffAndCount(dc(wh(s).ScryptDiffAndCount(), r.Intn(3))) }},
		{"wh.shaShareTarget", true, func(s *sealed, r *hlib.Rng) { wh(s).SetShaShareTarget(bump(wh(s).ShaShareTarget())) }},
		{"wh.scryptShareTarget", true, func(s *sealed, r *hlib.Rng) { wh(s).SetScryptShareTarget(bump(wh(s).ScryptShareTarget())) }},
		{"wh.kawpowDifficulty", true, func(s *sealed, r *hlib.Rng) { wh(s).SetKawpowDifficulty(bump(wh(s).KawpowDifficulty())) }},
		// not part of the seal by design (nonce / mix are the PoW solution of pre-fork blocks, unused afterwards)
		{"wh.nonce", false, func(s *sealed, r *hlib.Rng) { wh(s).SetNonce(types.EncodeNonce(wh(s).NonceU64() + 1)) }},
		{"wh.mixHash", false, func(s *sealed, r *hlib.Rng) { wh(s).SetMixHash(flipHash(wh(s).MixHash(), r)) }},
	}
}

func bodyMutations() []mutation {
	b := func(s *sealed) *types.Header { return s.wo.Header() }
	ms := []mutation{
		{"body.evmRoot", true, func(s *sealed, r *hlib.Rng) { b(s).SetEVMRoot(flipHash(b(s).EVMRoot(), r)) }},
		{"body.txHash", true, func(s *sealed, r *hlib.Rng) { b(s).SetTxHash(flipHash(b(s).TxHash(), r)) }},
		{"body.uncleHash", true, func(s *sealed, r *hlib.Rng) { b(s).SetUncleHash(flipHash(b(s).UncleHash(), r)) }},
		{"body.outboundEtxHash", true, func(s *sealed, r *hlib.Rng) { b(s).SetOutboundEtxHash(flipHash(b(s).OutboundEtxHash(), r)) }},
		{"body.manifestHash", true, func(s *sealed, r *hlib.Rng) { b(s).SetManifestHash(flipHash(b(s).ManifestHash(2), r), 2) }},
		{"body.receiptHash", true, func(s *sealed, r *hlib.Rng) { b(s).SetReceiptHash(flipHash(b(s).ReceiptHash(), r)) }},
		{"body.utxoRoot", true, func(s *sealed, r *hlib.Rng) { b(s).SetUTXORoot(flipHash(b(s).UTXORoot(), r)) }},
		{"body.primeNumber", true, func(s *sealed, r *hlib.Rng) { b(s).SetNumber(bump(b(s).Number(0)), 0) }},
		{"body.primeParentHash", true, func(s *sealed, r *hlib.Rng) { b(s).SetParentHash(flipHash(b(s).ParentHash(0), r), 0) }},
		{"body.gasLimit", true, func(s *sealed, r *hlib.Rng) { b(s).SetGasLimit(b(s).GasLimit() + 1) }},
		{"body.gasUsed", true, func(s *sealed, r *hlib.Rng) { b(s).SetGasUsed(b(s).GasUsed() + 1) }},
		{"body.baseFee", true, func(s *sealed, r *hlib.Rng) { b(s).SetBaseFee(bump(b(s).BaseFee())) }},
		{"body.extra", true, func(s *sealed, r *hlib.Rng) { b(s).SetExtra(append(append([]byte{}, b(s).Extra()...), 1)) }},
		{"body.stateUsed", true, func(s *sealed, r *hlib.Rng) { b(s).SetStateUsed(b(s).StateUsed() + 1) }},
		{"body.exchangeRate", true, func(s *sealed, r *hlib.Rng) { b(s).SetExchangeRate(bump(b(s).ExchangeRate())) }},
		{"body.etxSetRoot", true, func(s *sealed, r *hlib.Rng) { b(s).SetEtxSetRoot(flipHash(b(s).EtxSetRoot(), r)) }},
	}
	// the same body changes with the header hash re-pointed at the new body: then the seal no longer matches the coinbase
	n := len(ms)
	for i := 0; i < n; i++ {
		m := ms[i]
		ms = append(ms, mutation{m.name + "+rehash", true, func(s *sealed, r *hlib.Rng) {
			m.apply(s, r)
			s.wo.WorkObjectHeader().SetHeaderHash(s.wo.Header().Hash())
		}})
	}
	return ms
}

// byte classes of the built coinbase transaction: [start,end) offsets
func txClasses(tx []byte) map[string][2]int {
	ssLen := int(tx[41])
	hl := int(tx[42])
	c := 42 + 1 + hl // OP_PUSH44 opcode position
	return map[string][2]int{
		"version":    {0, 4},
		"inputs":     {4, 5},
		"prevtxid":   {5, 37},
		"prevvout":   {37, 41},
		"scriptlen":  {41, 42},
		"heightpush": {42, c},
		"commitop":   {c, c + 1},
		"magic":      {c + 1, c + 5},
		"sealhash":   {c + 5, c + 37},
		"sizenonce":  {c + 37, c + 45},
		"extranonce": {c + 45, c + 88},
		"sigtime":    {c + 88, c + 93},
		"sequence":   {42 + ssLen, 46 + ssLen},
		"outputs":    {46 + ssLen, len(tx)},
	}
}

var txClassNames = []string{"version", "inputs", "prevtxid", "prevvout", "scriptlen", "heightpush", "commitop", "magic", "sealhash", "sizenonce", "extranonce", "sigtime", "sequence", "outputs"}

// classes whose content is covered by the template signature, the seal commitment or the coinbase sanity rule
// (so even with the donor merkle root recomputed the share must be refused); the others are the miner's free bytes
var txBoundClasses = map[string]bool{"inputs": true, "prevtxid": true, "prevvout": true, "magic": true, "commitop": true, "sealhash": true, "sigtime": true, "sequence": true, "outputs": true}

func auxMutations() []mutation {
	ap := func(s *sealed) *types.AuxPow { return s.wo.WorkObjectHeader().AuxPow() }
	reroot := func(s *sealed) {
		a := ap(s)
		root := types.CalculateMerkleRoot(a.PowID(), a.Transaction(), a.MerkleBranch())
		rebuildDonor(a, func(_ *int32, _ *[32]byte, rt *[32]byte, _ *uint32, _ *uint32, _ *uint32) { *rt = root })
	}
	var ms []mutation
	for _, cn := range txClassNames {
		cn := cn
		mut := func(s *sealed, r *hlib.Rng) {
			tx := append([]byte{}, ap(s).Transaction()...)
			c := txClasses(tx)[cn]
			tx[c[0]+r.Intn(c[1]-c[0])] ^= byte(1 << uint(r.Intn(8)))
			ap(s).SetTransaction(tx)
		}
		ms = append(ms, mutation{"aux.tx." + cn, true, mut})
		ms = append(ms, mutation{"aux.tx." + cn + "+reroot", txBoundClasses[cn], func(s *sealed, r *hlib.Rng) { mut(s, r); reroot(s) }})
	}
	branchBit := func(s *sealed, r *hlib.Rng) {
		br := ap(s).MerkleBranch()
		if len(br) == 0 {
			ap(s).SetMerkleBranch([][]byte{r.Bytes(32)})
			return
		}
		i := r.Intn(len(br))
		b2 := append([]byte{}, br[i]...)
		b2[r.Intn(len(b2))] ^= byte(1 << uint(r.Intn(8)))
		br[i] = b2
		ap(s).SetMerkleBranch(br)
	}
	branchDrop := func(s *sealed, r *hlib.Rng) {
		br := ap(s).MerkleBranch()
		if len(br) == 0 {
			ap(s).SetMerkleBranch([][]byte{r.Bytes(32)})
			return
		}
		ap(s).SetMerkleBranch(br[:len(br)-1])
	}
	ms = append(ms,
		mutation{"aux.branch.bit", true, branchBit},
		mutation{"aux.branch.bit+reroot", true, func(s *sealed, r *hlib.Rng) { branchBit(s, r); reroot(s) }},
		mutation{"aux.branch.drop", true, branchDrop},
		mutation{"aux.branch.drop+reroot", true, func(s *sealed, r *hlib.Rng) { branchDrop(s, r); reroot(s) }},
		mutation{"aux.branch.add+reroot", true, func(s *sealed, r *hlib.Rng) {
			ap(s).SetMerkleBranch(append(ap(s).MerkleBranch(), r.Bytes(32)))
			reroot(s)
		}},
		mutation{"aux.donor.root", true, func(s *sealed, r *hlib.Rng) {
			rebuildDonor(ap(s), func(_ *int32, _ *[32]byte, rt *[32]byte, _ *uint32, _ *uint32, _ *uint32) {
				rt[r.Intn(32)] ^= byte(1 << uint(r.Intn(8)))
			})
		}},
		mutation{"aux.donor.time<sigtime", true, func(s *sealed, r *hlib.Rng) {
			st := s.tp.t.SignatureTime()
			rebuildDonor(ap(s), func(_ *int32, _ *[32]byte, _ *[32]byte, tm *uint32, _ *uint32, _ *uint32) {
				*tm = st - 1 - uint32(r.Intn(3))
			})
		}},
		mutation{"aux.donor.prevHash", true, func(s *sealed, r *hlib.Rng) {
			rebuildDonor(ap(s), func(_ *int32, p *[32]byte, _ *[32]byte, _ *uint32, _ *uint32, _ *uint32) { p[r.Intn(32)] ^= 1 })
		}},
		mutation{"aux.donor.bits", true, func(s *sealed, r *hlib.Rng) {
			rebuildDonor(ap(s), func(_ *int32, _ *[32]byte, _ *[32]byte, _ *uint32, b *uint32, _ *uint32) { *b ^= 1 << uint(r.Intn(32)) })
		}},
		mutation{"aux.donor.time+1", false, func(s *sealed, r *hlib.Rng) {
			rebuildDonor(ap(s), func(_ *int32, _ *[32]byte, _ *[32]byte, tm *uint32, _ *uint32, _ *uint32) { *tm++ })
		}},
		mutation{"aux.signature.bit", true, func(s *sealed, r *hlib.Rng) {
			sg := append([]byte{}, ap(s).Signature()...)
			sg[r.Intn(len(sg))] ^= byte(1 << uint(r.Intn(8)))
			ap(s).SetSignature(sg)
		}},
		mutation{"aux.signature.empty", true, func(s *sealed, r *hlib.Rng) { ap(s).SetSignature([]byte{}) }},
		mutation{"wh.time<sigtime", true, func(s *sealed, r *hlib.Rng) {
			s.wo.WorkObjectHeader().SetTime(uint64(s.tp.t.SignatureTime()) - 1)
		}},
	)
	return append(ms, extraAuxMutations()...)
}

// ---------- observation of the model inputs from the (mutated) real objects ----------

func coqAux(o *oracle, wh *types.WorkObjectHeader, own bool) (string, bool) {
	ap := wh.AuxPow()
	if ap == nil {
		return "None", false
	}
	useKeys(own)
	sigOK := false
	guard(func() { sigOK = ap.ConvertToTemplate().VerifySignature() })
	root := ap.Header().MerkleRoot()
	// oracle entries for everything the verdict may need
	merkleRef(o, int(ap.PowID()), ap.Transaction(), ap.MerkleBranch())
	if ap.PowID() == types.Scrypt && len(ap.AuxPow2()) >= 32 {
		sh := wh.SealHash()
		auxRootRef(o, ap.AuxPow2()[:32], sh[:])
	}
	return fmt.Sprintf("(Some (mkAux %d %s %d %s %s %s %s))", ap.PowID(), hlib.CoqBytes(ap.Transaction()), ap.Header().Timestamp(),
		hlib.CoqBytes(root[:]), hlib.CoqBytes(ap.AuxPow2()), coqBranch(ap.MerkleBranch()), hlib.CoqBool(sigOK)), sigOK
}

func verdictOf(err error, p string) string {
	if p != "" {
		return "Panic"
	}
	if err != nil {
		return "Reject"
	}
	return "Accept"
}

// ---------- verifyHeader ----------

func vhCorpus() []string {
	v := []string{"kawpow-default", "kawpow-own", "prefork-noaux", "prefork-aux", "transition-noaux", "posttransition-noaux", "fork-exact", "sha-in-block", "scrypt-in-block", "ptn-wrap-aux"}
	return append(v, extraCorpus(1)...)
}

type vhPlan struct {
	powid int
	ptn   uint64
	mut   *mutation
}

func caseVH(h *H, r *hlib.Rng, variant string) {
	vhSetup()
	var all []mutation
	all = append(all, headerMutations()...)
	all = append(all, bodyMutations()...)
	all = append(all, auxMutations()...)
	plan := vhPlan{powid: 1, ptn: fork + uint64(r.Intn(int(3*trans)))}
	forceDefault := false
	switch variant {
	case "":
		switch r.Pick(70, 6, 6, 6, 6, 3, 3) {
		case 0:
			if r.Chance(85) {
				m := all[r.Intn(len(all))]
				plan.mut = &m
			}
		case 1:
			plan.powid, plan.ptn = -1, uint64(r.Intn(int(fork)))
		case 2:
			plan.powid, plan.ptn = 1, uint64(r.Intn(int(fork)))
		case 3:
			plan.powid, plan.ptn = -1, fork+uint64(r.Intn(int(trans)))
		case 4:
			plan.powid, plan.ptn = -1, fork+trans+uint64(r.Intn(3))
		case 5:
			plan.powid = 2 + r.Intn(3)
		case 6:
			plan.powid, plan.ptn = 1, fork
		}
	case "kawpow-default":
		forceDefault = true
	case "kawpow-own":
	case "prefork-noaux":
		plan.powid, plan.ptn = -1, 1000
	case "prefork-aux":
		plan.ptn = fork - 1
	case "transition-noaux":
		plan.powid, plan.ptn = -1, fork+5
	case "posttransition-noaux":
		plan.powid, plan.ptn = -1, fork+trans+1
	case "fork-exact":
		plan.ptn = fork
	case "sha-in-block":
		plan.powid = 3
	case "scrypt-in-block":
		plan.powid = 4
	case "ptn-wrap-aux":
		plan.ptn = fork + 7
	default:
		if _, m, ok := parseExtra(variant); ok {
			plan.mut = m
		}
	}
	s := buildSealed(r, plan.powid, plan.ptn, vhParent.Hash(), common.BytesToHash(r.Bytes(32)), 1)
	if forceDefault {
		// rebuild deterministically on the production-signed kawpow template
		wh := s.wo.WorkObjectHeader()
		t := types.DefaultKawpowAuxTemplate()
		s.tp = tmpl{t, false}
		wh.SetAuxPow(nil)
		wh.SetTime(uint64(t.SignatureTime()) + 9)
		wh.SetAuxPow(buildAux(t, wh.SealHash(), t.SignatureTime()+3))
	}
	mname := "none"
	if plan.mut != nil {
		if !s.has && (len(plan.mut.name) > 3 && plan.mut.name[:3] == "aux" || plan.mut.name == "wh.time<sigtime") {
			plan.mut = nil
		} else {
			mname = plan.mut.name
		}
	}
	wh := s.wo.WorkObjectHeader()
	// baseline verdict (before the mutation) for the "every single change is refused" monitor
	useKeys(s.tp.own)
	var baseErr error
	basePanic := guard(func() { baseErr = vhChain.hc.VerifC08VerifyHeader(s.wo, vhParent, false, 1<<62) })
	h.rep.Count(fmt.Sprintf("vh-baseline-accepted:%v", baseErr == nil && basePanic == ""))
	snap0 := snapAux(wh)
	required := false
	if plan.mut != nil {
		required = plan.mut.required(s)
		plan.mut.apply(s, r)
	}
	if variant == "ptn-wrap-aux" {
		// 2^64 + n: Uint64() reads a pre-fork number, so the AuxPow is refused by the pow-id rule
		wh.SetPrimeTerminusNumber(new(big.Int).Add(bigPow2(64), big.NewInt(int64(r.Intn(1000)))))
	}
	o := &oracle{}
	auxTerm, sigOK := coqAux(o, wh, s.tp.own)
	hh := wh.HeaderHash()
	bh := s.wo.Body().Header().Hash()
	seal := wh.SealHash()
	useKeys(s.tp.own)
	var err error
	p := guard(func() { err = vhChain.hc.VerifC08VerifyHeader(s.wo, vhParent, false, 1<<62) })
	obs := verdictOf(err, p)
	in := fmt.Sprintf("(mkVh %s %s %s %d %s %s)", hlib.CoqBytes(hh[:]), hlib.CoqBytes(bh[:]), coqZ(wh.PrimeTerminusNumber()), wh.Time(), hlib.CoqBytes(seal[:]), auxTerm)
	nt := ""
	if s.has && wh.PrimeTerminusNumber().Uint64() >= fork {
		nt = fmt.Sprintf("%s/%s/%v", mname, obs, s.tp.own)
	}
	h.emit(fmt.Sprintf("CVH %s %s %s", o.coq(), in, obs), map[string]any{"powid": plan.powid, "ptn": wh.PrimeTerminusNumber().String(), "mutation": mname, "ownKeys": s.tp.own, "got": obs}, nt)
	h.rep.Count("vh:" + mname)
	h.rep.Count("vh-verdict:" + obs)
	if p != "" {
		h.fail("panic:verifyHeader", "verifyHeader panicked: "+p)
		return
	}
	// ---- monitors (independent of the model) ----
	if err == nil {
		if hh != bh {
			h.fail("header-hash-binds-body", "verifyHeader accepted a work object whose headerHash differs from the hash of its body header")
		}
		if ap := wh.AuxPow(); ap != nil && wh.PrimeTerminusNumber().Uint64() >= fork {
			monitorAuxAccepted(h, "verifyHeader", wh, sigOK, false)
		}
	}
	if plan.mut != nil && required && basePanic == "" && baseErr == nil && err == nil {
		h.fail("sealed-header-change-accepted:"+classOf(mname), fmt.Sprintf("a header accepted by verifyHeader is still accepted after changing %s", mname))
	}
	if plan.mut != nil && strings.HasPrefix(mname, "aux.") && basePanic == "" && baseErr == nil && err == nil && wh.AuxPow() != nil {
		monitorUnbound(h, "verifyHeader", mname, wh, snap0, snapAux(wh), false)
	}
	monitorTemplate(h, "verifyHeader", wh.AuxPow())
	if plan.mut == nil && variant == "kawpow-default" && err != nil {
		h.fail("valid-merge-mined-header-rejected", "verifyHeader rejects a header merge-mined on the production-signed default kawpow template: "+err.Error())
	}
}

// classOf: the mutation names are already stable classes (no random values in them)
func classOf(m string) string { return m }

// monitorAuxAccepted: what the property promises about an accepted merge-mined header, checked on the real
// objects with crypto/sha256 and plain byte search.
func monitorAuxAccepted(h *H, site string, wh *types.WorkObjectHeader, sigOK bool, sigException bool) {
	ap := wh.AuxPow()
	seal := wh.SealHash()
	commit := seal[:]
	if ap.PowID() == types.Scrypt {
		o := &oracle{}
		if len(ap.AuxPow2()) < 32 {
			h.fail("accepted-auxpow-commits-to-seal:"+site, "scrypt share accepted without a 32-byte auxpow2")
			return
		}
		commit = auxRootRef(o, ap.AuxPow2()[:32], seal[:])
	}
	ref, ok := refParseTx(ap.Transaction())
	want := append([]byte{44, 0xfa, 0xbe, 0x6d, 0x6d}, commit...)
	if !ok || len(ref.script) == 0 || int(ref.script[0]) > 5 || len(ref.script) < 1+int(ref.script[0])+len(want) ||
		!bytes.Equal(ref.script[1+int(ref.script[0]):1+int(ref.script[0])+len(want)], want) {
		h.fail("accepted-auxpow-commits-to-seal:"+site, "accepted AuxPoW whose coinbase scriptSig does not carry fabe6d6d|commitment(seal hash) after the height push")
	}
	if !ok || ref.inputs != 1 || !bytes.Equal(ref.prev, make([]byte, 32)) || ref.vout != 0xffffffff || ref.seq != 0xffffffff {
		h.fail("accepted-auxpow-coinbase-shape:"+site, "accepted AuxPoW whose coinbase is not a single null-outpoint input with final sequence")
	}
	o := &oracle{}
	root := ap.Header().MerkleRoot()
	if !bytes.Equal(merkleRef(o, int(ap.PowID()), ap.Transaction(), ap.MerkleBranch()), root[:]) {
		h.fail("accepted-auxpow-under-donor-root:"+site, "accepted AuxPoW whose coinbase does not hash up to the donor header's merkle root")
	}
	if !sigOK {
		sig := "accepted-auxpow-unsigned:" + site
		if sigException && wh.IsShaOrScryptShareWithInvalidAddress() {
			sig = "accepted-auxpow-unsigned-invalid-address:" + site
		}
		h.fail(sig, "accepted AuxPoW whose template signature does not verify")
	}
}

// ---------- VerifyUncles ----------

func uncleCorpus() []string {
	return append([]string{"kawpow-share", "bch-default", "scrypt-default", "btc-own", "scrypt-auxpow2-short", "scrypt-auxpow2-empty", "sha-unsigned-invalid-address", "sha-unsigned-valid-address",
		"scrypt-zero-doge", "kawpow-block-sibling", "share-diff-0",
		"steal:1:wh.primaryCoinbase", "steal:2:wh.primaryCoinbase", "steal:3:wh.primaryCoinbase", "steal:4:wh.primaryCoinbase",
		"steal:1:wh.lock", "steal:2:wh.lock", "steal:3:wh.lock", "steal:4:wh.lock",
		"steal:1:wh.time", "steal:2:wh.time", "steal:3:wh.time", "steal:4:wh.time",
		"steal:1:wh.shaShareTarget", "steal:2:wh.shaShareTarget", "steal:3:wh.shaShareTarget", "steal:4:wh.shaShareTarget"}, extraCorpus(1, 2, 3, 4)...)
}

func caseUncle(h *H, r *hlib.Rng, variant string) {
	vhSetup()
	var all []mutation
	all = append(all, headerMutations()...)
	all = append(all, auxMutations()...)
	powid := 1 + r.Intn(4)
	var mut *mutation
	if r.Chance(80) {
		m := all[r.Intn(len(all))]
		mut = &m
	}
	uptn := fork + uint64(r.Intn(int(trans+20000)))
	invalidAddr := r.Chance(12)
	forceDefault := false
	xmut := false
	e := envT{wsthr: 4}
	post := func(s *sealed) {}
	switch variant {
	case "kawpow-share":
		powid, mut, invalidAddr = 1, nil, false
	case "bch-default":
		powid, mut, invalidAddr, forceDefault = 3, nil, false, true
	case "scrypt-default":
		powid, mut, invalidAddr, forceDefault = 4, nil, false, true
	case "btc-own":
		powid, mut, invalidAddr = 2, nil, false
	case "scrypt-auxpow2-short", "scrypt-auxpow2-empty":
		powid, mut, invalidAddr = 4, nil, false
		post = func(s *sealed) {
			a := s.wo.WorkObjectHeader().AuxPow()
			if variant == "scrypt-auxpow2-empty" {
				a.SetAuxPow2([]byte{})
			} else {
				a.SetAuxPow2(a.AuxPow2()[:31])
			}
		}
	case "sha-unsigned-invalid-address", "sha-unsigned-valid-address":
		powid, invalidAddr = 2, variant == "sha-unsigned-invalid-address"
		m := mutation{"aux.signature.bit", true, func(s *sealed, r *hlib.Rng) {
			a := s.wo.WorkObjectHeader().AuxPow()
			sg := append([]byte{}, a.Signature()...)
			sg[5] ^= 4
			a.SetSignature(sg)
		}}
		mut = &m
	case "scrypt-zero-doge":
		powid, mut, invalidAddr = 4, nil, false
		post = func(s *sealed) { s.wo.WorkObjectHeader().AuxPow().SetAuxPow2(make([]byte, 32)) }
	case "kawpow-block-sibling":
		powid, mut, invalidAddr = 1, nil, false
	case "share-diff-0":
		powid, mut, invalidAddr = 3, nil, false
	default:
		if p, m, ok := parseExtra(variant); ok {
			powid, mut, invalidAddr, xmut = p, m, false, true
		} else if strings.HasPrefix(variant, "steal:") {
			// "steal:<powid>:<header field>": a valid share of every donor chain whose sealed Quai content is changed while the
			// AuxPoW (donor header, coinbase, signature) is kept as it is - the donor work is re-used for other content
			var name string
			fmt.Sscanf(strings.TrimPrefix(variant, "steal:"), "%d", &powid)
			name = variant[len("steal:")+2:]
			for _, m := range headerMutations() {
				if m.name == name {
					mm := m
					mut = &mm
				}
			}
			invalidAddr, xmut = false, true
		}
	}
	parent := unAnc[len(unAnc)-1]
	sealZeroShares = variant == "kawpow-share" || xmut || (powid == 1 && r.Chance(80)) // a kawpow share needs share target > block target
	s := buildSealed(r, powid, uptn, parent.Hash(), parent.Hash(), 0)
	sealZeroShares = false
	wh := s.wo.WorkObjectHeader()
	if forceDefault {
		t := map[int]*types.AuxTemplate{3: types.DefaultShaBchAuxTemplate(), 4: types.DefaultScryptAuxTemplate()}[powid]
		s.tp = tmpl{t, false}
		wh.SetAuxPow(nil)
		wh.SetTime(uint64(t.SignatureTime()) + 9)
		wh.SetAuxPow(buildAux(t, wh.SealHash(), t.SignatureTime()+3))
	}
	if invalidAddr {
		// an out-of-scope primary coinbase; re-seal so that only the address class differs
		wh.SetPrimaryCoinbase(grindAddr(r, wh.Location(), false))
		ap := wh.AuxPow()
		wh.SetAuxPow(nil)
		wh.SetAuxPow(buildAux(s.tp.t, wh.SealHash(), ap.Header().Timestamp()))
	}
	// make the share count: kawpow -> the stub kawpow engine answers a hash between the block target and the share target;
	// donor chains -> share difficulty next to 2^256 / donor hash
	tgt := new(big.Int).Div(two256, wh.Difficulty())
	e.h0 = hashOf(big.NewInt(1))
	switch {
	case powid == 1:
		sd := core.CalculateKawpowShareDiff(wh)
		st := new(big.Int).Div(two256, sd)
		switch r.Pick(6, 1, 1) {
		case 0:
			e.h1 = hashOf(new(big.Int).Add(tgt, big.NewInt(int64(1+r.Intn(5)))))
			if new(big.Int).SetBytes(e.h1[:]).Cmp(st) > 0 {
				e.h1 = hashOf(st)
			}
		case 1:
			e.h1 = hashOf(new(big.Int).Sub(tgt, big.NewInt(int64(r.Intn(5))))) // block grade -> sibling rule
		default:
			e.h1 = hashOf(new(big.Int).Add(st, big.NewInt(int64(r.Intn(3)))))
		}
		if variant == "kawpow-share" || xmut {
			e.h1 = hashOf(new(big.Int).Add(tgt, big.NewInt(1)))
		}
		if variant == "kawpow-block-sibling" {
			e.h1 = hashOf(tgt)
		}
	default:
		pw := wh.AuxPow().Header().PowHash()
		d := new(big.Int).Div(two256, new(big.Int).SetBytes(pw[:]))
		d.Sub(d, big.NewInt(int64(r.Intn(3))))
		if r.Chance(70) {
			d = big.NewInt(int64(1 + r.Intn(3)))
		}
		if variant != "" {
			d = big.NewInt(1) // target 2^256: every donor hash counts
		}
		if variant == "share-diff-0" {
			d = big.NewInt(0)
		}
		// share difficulties are sealed fields: set them, then re-seal
		if powid == 4 {
			wh.SetScryptDiffAndCount(types.NewPowShareDiffAndCount(d, wh.ScryptDiffAndCount().Count(), wh.ScryptDiffAndCount().Uncled()))
		} else {
			wh.SetShaDiffAndCount(types.NewPowShareDiffAndCount(d, wh.ShaDiffAndCount().Count(), wh.ShaDiffAndCount().Uncled()))
		}
		ap := wh.AuxPow()
		wh.SetAuxPow(nil)
		wh.SetAuxPow(buildAux(s.tp.t, wh.SealHash(), ap.Header().Timestamp()))
	}
	post(s)
	mname := "none"
	// the block that includes the share
	blk := types.EmptyWorkObject(common.REGION_CTX)
	blk.WorkObjectHeader().SetLocation(common.Location{0, 0})
	blk.WorkObjectHeader().SetParentHash(parent.Hash())
	blk.WorkObjectHeader().SetNumber(big.NewInt(int64(len(unAnc))))
	blk.WorkObjectHeader().SetPrimeTerminusNumber(new(big.Int).SetUint64(fork + 50))
	blk.Header().SetParentHash(parent.Hash(), common.REGION_CTX)
	blk.Header().SetNumber(big.NewInt(int64(len(unAnc))), common.REGION_CTX)
	blk.Body().SetUncles([]*types.WorkObjectHeader{wh})
	run := func() (error, string) {
		c := unChain
		c.e0.Hash, c.e1.Hash, c.e0.Err, c.e1.Err = e.h0, e.h1, nil, nil
		useKeys(s.tp.own)
		var err error
		p := guard(func() { err = c.hc.VerifyUncles(blk) })
		return err, p
	}
	baseErr, basePanic := run()
	h.rep.Count(fmt.Sprintf("uncle-baseline-accepted:%v", baseErr == nil && basePanic == ""))
	snap0 := snapAux(wh)
	required := false
	if mut != nil {
		required = mut.required(s)
		mut.apply(s, r)
		mname = mut.name
	}
	// observed model inputs
	x := hdrT{ptn: wh.PrimeTerminusNumber(), diff: wh.Difficulty(), aux: -1,
		shaD: wh.ShaDiffAndCount().Difficulty(), shaC: wh.ShaDiffAndCount().Count(), shaT: wh.ShaShareTarget(),
		scrD: wh.ScryptDiffAndCount().Difficulty(), scrC: wh.ScryptDiffAndCount().Count(), scrT: wh.ScryptShareTarget(), kawD: wh.KawpowDifficulty()}
	var donorPow []byte
	if ap := wh.AuxPow(); ap != nil {
		x.aux = int(ap.PowID())
		if x.aux >= 2 {
			pw := ap.Header().PowHash()
			donorPow = pw[:]
		}
	}
	o := &oracle{}
	auxTerm, sigOK := coqAux(o, wh, s.tp.own)
	seal := wh.SealHash()
	_, ierr := wh.PrimaryCoinbase().InternalAddress()
	err, p := run()
	obs := verdictOf(err, p)
	body := fmt.Sprintf("CUncle %s %s %s true %s %d %s %s %s", o.coq(), e.coq(), x.coq(donorPow), hlib.CoqBool(ierr != nil), wh.Time(), hlib.CoqBytes(seal[:]), auxTerm, obs)
	h.emit(body, map[string]any{"powid": powid, "ptn": uptn, "mutation": mname, "ownKeys": s.tp.own, "invalidAddr": ierr != nil, "got": obs},
		fmt.Sprintf("%d/%s/%s/%v", powid, mname, obs, ierr != nil))
	h.rep.Count("uncle:" + mname)
	h.rep.Count(fmt.Sprintf("uncle-verdict:%s/powid%d", obs, powid))
	if p != "" {
		sig := "panic:VerifyUncles"
		if x.aux == int(types.Scrypt) && len(wh.AuxPow().AuxPow2()) < 32 {
			sig = "panic:auxpow-section:scrypt-auxpow2-shorter-than-32"
		} else if containsDivZero(p) {
			sig = panicSig("VerifyUncles", p, x)
		}
		h.fail(sig, fmt.Sprintf("VerifyUncles panicked on a powid-%d share (mutation %s): %s", powid, mname, p))
		return
	}
	if err == nil && wh.AuxPow() != nil {
		monitorAuxAccepted(h, "VerifyUncles", wh, sigOK, true)
	}
	if mut != nil && strings.HasPrefix(mname, "aux.") && basePanic == "" && baseErr == nil && err == nil && wh.AuxPow() != nil {
		monitorUnbound(h, "VerifyUncles", mname, wh, snap0, snapAux(wh), !sigOK && ierr != nil && x.aux >= 2)
	}
	monitorTemplate(h, "VerifyUncles", wh.AuxPow())
	if mut != nil && required && basePanic == "" && baseErr == nil && err == nil {
		// a change that only invalidates the template signature of an out-of-scope SHA/Scrypt share is accepted because
		// of the signature waiver: monitorAuxAccepted reports that root cause under its own signature
		waived := !sigOK && ierr != nil && x.aux >= 2
		if !waived {
			h.fail("sealed-share-change-accepted:"+classOf(mname), fmt.Sprintf("a powid-%d share accepted by VerifyUncles is still accepted after changing %s", powid, mname))
		}
	}
	if variant == "bch-default" || variant == "scrypt-default" || variant == "kawpow-share" || variant == "btc-own" {
		if err != nil {
			h.fail("valid-merge-mined-share-rejected", "VerifyUncles rejects a valid "+variant+" share: "+err.Error())
		}
	}
}

func containsDivZero(p string) bool { return bytes.Contains([]byte(p), []byte("division by zero")) }

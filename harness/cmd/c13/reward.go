// Post-fork share reward amounts: the time discount of a merged-mined share.
// Real code: core.HeaderChain.CalculateTimeDiscountedShareReward (called by StateProcessor.Process and by the worker for
// every share with AuxPow once PrimeTerminusNumber >= InclusionDepthChangeBlock), fed the way Process feeds it: the
// signature time is extracted from the scriptSig of the share's aux coinbase transaction with
// types.ExtractScriptSigFromCoinbaseTx / types.ExtractSignatureTimeFromCoinbase, the elapsed time is taken against the
// timestamp of the aux block header. Compared in Coq with C13.time_discount; monitors below are independent of the model.
package main

import (
	"fmt"
	"math/big"
	"os"
	"time"

	"github.com/dominant-strategies/go-quai/core"
	"github.com/dominant-strategies/go-quai/core/types"
	"github.com/dominant-strategies/go-quai/common"
	"github.com/dominant-strategies/go-quai/params"

	"verifharness/hlib"
)

type DiscIn struct {
	Pid    uint32 `json:"pid"` // types.PowID: 1 Kawpow 2 SHA_BTC 3 SHA_BCH 4 Scrypt
	Ts     uint32 `json:"ts"`  // timestamp of the aux block header
	Sig    uint32 `json:"sig"` // signature time in the aux coinbase scriptSig
	Reward string `json:"reward"`
}

func discLive(pid uint32) uint32 {
	if types.PowID(pid) == types.SHA_BTC || types.PowID(pid) == types.SHA_BCH {
		return params.NewShareLivenessTimeForSha
	}
	return params.ShareLivenessTime
}

// discClass: where the elapsed time (as the protocol defines it: uint32 difference) lies
func discClass(d *DiscIn) string {
	el := d.Ts - d.Sig // uint32, wraps
	live := discLive(d.Pid)
	post := ""
	if d.Sig > d.Ts {
		post = "postdated-"
	}
	switch {
	case el <= params.NoPenaltyTimeThreshold:
		return post + "fresh"
	case el >= live:
		return post + "stale"
	}
	return post + "mid"
}

func auxShare(pid types.PowID, ts, sig uint32) *types.WorkObjectHeader {
	share := types.EmptyWorkObject(common.ZONE_CTX).WorkObjectHeader()
	ap := &types.AuxPow{}
	ap.SetPowID(pid)
	ap.SetSignature([]byte{})
	ap.SetMerkleBranch([][]byte{})
	coinbaseOut := []byte{0x76, 0xa9, 0x14, 0x89, 0xab, 0xcd, 0xef, 0x88, 0xac}
	switch pid {
	case types.SHA_BTC:
		h := types.NewBitcoinBlockHeader(10, types.EmptyRootHash, types.EmptyRootHash, ts, 0x1d00ffff, 0)
		h.BlockHeader.Timestamp = time.Unix(int64(ts), 0) // the constructor stamps the wall clock
		ap.SetHeader(types.NewAuxPowHeader(h))
	case types.SHA_BCH:
		h := types.NewBitcoinCashBlockHeader(10, types.EmptyRootHash, types.EmptyRootHash, ts, 0x1d00ffff, 0)
		h.BlockHeader.Timestamp = time.Unix(int64(ts), 0)
		ap.SetHeader(types.NewAuxPowHeader(h))
	case types.Scrypt:
		h := types.NewLitecoinBlockHeader(10, types.EmptyRootHash, types.EmptyRootHash, ts, 0x1d00ffff, 0)
		h.BlockHeader.Timestamp = time.Unix(int64(ts), 0)
		ap.SetHeader(types.NewAuxPowHeader(h))
	default:
		ap.SetHeader(types.NewAuxPowHeader(&types.RavencoinBlockHeader{Version: 10, HashPrevBlock: types.EmptyRootHash, HashMerkleRoot: types.EmptyRootHash,
			Time: ts, Bits: 0x1d00ffff, Nonce64: 367899, Height: 298899, MixHash: types.EmptyRootHash}))
	}
	ap.SetTransaction(types.NewAuxPowCoinbaseTx(pid, 100, coinbaseOut, types.EmptyRootHash, sig))
	share.SetAuxPow(ap)
	return share
}

func discountOnce(d *DiscIn) (cls int, got *big.Int, sigSeen uint32, tsSeen uint32) {
	cls, got = 0, new(big.Int)
	defer func() {
		if r := recover(); r != nil {
			cls, got = 2, new(big.Int)
		}
	}()
	share := auxShare(types.PowID(d.Pid), d.Ts, d.Sig)
	tsSeen = share.AuxPow().Header().Timestamp()
	scriptSig := types.ExtractScriptSigFromCoinbaseTx(share.AuxPow().Transaction())
	sigSeen, _ = types.ExtractSignatureTimeFromCoinbase(scriptSig) // Process goes on with the value when err != nil
	rw, _ := new(big.Int).SetString(d.Reward, 10)
	var hc *core.HeaderChain // the method reads nothing of the chain
	got = new(big.Int).Set(hc.CalculateTimeDiscountedShareReward(share, new(big.Int).Set(rw), sigSeen))
	return
}

// runDiscount returns the verdict class, the amount and the inputs the real function actually received (aux header
// timestamp as read back from the header, signature time as extracted from the coinbase scriptSig).
func runDiscount(c *Case, rep *hlib.Report) (int, *big.Int, *DiscIn) {
	cls, got, sigSeen, tsSeen := discountOnce(c.Disc)
	if sigSeen != c.Disc.Sig || tsSeen != c.Disc.Ts {
		rep.Count("discount/input-not-carried") // e.g. a pow id without a coinbase layout: no signature time -> 0
		if os.Getenv("C13_DEBUG") != "" {
			fmt.Fprintf(os.Stderr, "DBG pid=%d sig=%d seen=%d ts=%d seen=%d\n", c.Disc.Pid, c.Disc.Sig, sigSeen, c.Disc.Ts, tsSeen)
		}
	}
	d := &DiscIn{Pid: c.Disc.Pid, Ts: tsSeen, Sig: sigSeen, Reward: c.Disc.Reward}
	rep.Count("discount/" + discClass(d))
	rep.Count(fmt.Sprintf("discount_pid/%d", d.Pid))
	if cls != 0 {
		rep.Fail("C13/reward/time-discount/panic", "CalculateTimeDiscountedShareReward panicked", c)
		return cls, got, d
	}
	rw, _ := new(big.Int).SetString(d.Reward, 10)
	pen, div := params.UnlivelySharePenalty, params.ShareRewardPenaltyDivisor
	maxPen := new(big.Int).Div(new(big.Int).Mul(rw, pen), div)
	live, thr := discLive(d.Pid), params.NoPenaltyTimeThreshold
	el := d.Ts - d.Sig // the protocol's elapsed time: uint32 difference (a post-dated signature wraps to a huge value)
	cl := discClass(d)
	// "no more" and never below the maximum penalty
	if got.Cmp(rw) > 0 {
		rep.Fail("C13/reward/time-discount/more-than-share-reward/"+cl, fmt.Sprintf("discounted %s > reward %s", got, rw), c)
	}
	if got.Cmp(maxPen) < 0 {
		rep.Fail("C13/reward/time-discount/below-max-penalty/"+cl, fmt.Sprintf("discounted %s < %s", got, maxPen), c)
	}
	// the protocol formula, computed exactly on rationals reduced to one integer division
	e := el
	if e > live {
		e = live
	}
	if e < thr {
		e = thr
	}
	num := new(big.Int).Add(new(big.Int).Mul(pen, big.NewInt(int64(live-thr))), new(big.Int).Mul(new(big.Int).Sub(div, pen), big.NewInt(int64(live-e))))
	den := new(big.Int).Mul(div, big.NewInt(int64(live-thr)))
	want := new(big.Int).Div(new(big.Int).Mul(rw, num), den)
	if got.Cmp(want) != 0 {
		rep.Fail("C13/reward/time-discount/not-the-formula/"+cl, fmt.Sprintf("pow %d ts-sig=%d: amount %s, protocol formula %s", d.Pid, int64(d.Ts)-int64(d.Sig), got, want), c)
	}
	// an older share is never paid more: same share one second staler
	if d.Sig != 0 {
		d2 := *d
		d2.Sig = d.Sig - 1
		if d2.Ts-d2.Sig > el { // no wrap of the elapsed time itself
			if cls2, got2, s2, t2 := discountOnce(&d2); cls2 == 0 && s2 == d2.Sig && t2 == d2.Ts && got2.Cmp(got) > 0 {
				rep.Fail("C13/reward/time-discount/staler-share-paid-more/"+cl, fmt.Sprintf("elapsed %d pays %s, elapsed %d pays %s", el, got, el+1, got2), c)
			}
		}
	}
	return cls, got, d
}

func discountCases(r *hlib.Rng, n int) []Case {
	var cs []Case
	rewards := []string{"0", "1", "3", "1000", "1234567000000000000", "999999999999999999999", new(big.Int).Lsh(big.NewInt(1), 200).String()}
	mk := func(pid, ts, sig uint32, rw string) {
		cs = append(cs, Case{Kind: "discount", Disc: &DiscIn{Pid: pid, Ts: ts, Sig: sig, Reward: rw}})
	}
	// corpus: every algorithm x every boundary of the elapsed time, on both sides of the wrap
	for pid := uint32(1); pid <= 4; pid++ {
		live := discLive(pid)
		els := []int64{0, 1, 2, 3, 4, int64(live) / 2, int64(live) - 1, int64(live), int64(live) + 1, 2 * int64(live), 1 << 31, 1<<32 - 1 - int64(live),
			-1, -2, -3, -4, -40, -int64(live), -int64(live) - 1, -3600}
		for i, el := range els {
			for k, ts := range []uint32{1700000000, 100, 1<<32 - 1} {
				if k > 0 && i%3 != int(pid)%3 {
					continue
				}
				sig := uint32(int64(ts) - el) // wraps like the chain's uint32
				mk(pid, ts, sig, rewards[(i+k+int(pid))%len(rewards)])
			}
		}
	}
	mk(1, 100, 140, "1234567000000000000") // post-dated by 40 s
	mk(0, 110, 100, "1000")               // AuxPow carrying the Progpow id: default liveness
	mk(7, 110, 100, "1000")
	// generated
	for i := 0; i < n; i++ {
		pid := uint32(1 + r.Intn(4))
		live := discLive(pid)
		ts := uint32(1600000000 + r.Intn(200000000))
		if r.Chance(10) {
			ts = uint32(r.Intn(1 << 16))
		}
		var el int64
		switch r.Pick(40, 25, 20, 15) {
		case 0:
			el = int64(r.Intn(int(live) + 3))
		case 1:
			el = -int64(r.Intn(120)) - 1
		case 2:
			el = int64(live) + int64(r.Intn(100000))
		default:
			el = int64(r.Intn(1<<31)) - 1<<30
		}
		rw := new(big.Int).SetUint64(uint64(r.Intn(1 << 30)))
		rw.Mul(rw, big.NewInt(int64(1+r.Intn(1<<30))))
		if r.Chance(20) {
			rw = big.NewInt(int64(r.Intn(200)))
		}
		mk(pid, ts, uint32(int64(ts)-el), rw.String())
	}
	return cs
}

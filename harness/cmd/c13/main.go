// C13 harness: mining rewards and lockups pay out exactly once, no earlier, no more.
//
// Drives the REAL go-quai code:
//   - ledger histories: vm.AddNewLock / vm.RunLockupContract (ClaimCoinbaseLockup,
//     GetLockupData, GetLatestLockupData) on real batches (SetPending(true)) over
//     memorydb and leveldb, claims directly, with the failed-transaction undo
//     (evm.UndoCoinbasesDeleted) and through real EVM bytecode (A -> B -> lockup
//     precompile, with and without a revert of B's frame);
//   - params.CalculateCoinbaseValueWithLockup on boundary values;
//   - core.RedeemLockedQuai on fabricated canonical blocks (leveldb) and a real StateDB.
// Every case is written as a Coq term (input + observed output) for the model
// comparison; the monitors below evaluate the property on the observed behaviour
// without the Coq model.
package main

import (
	"encoding/binary"
	"fmt"
	"math/big"
	"os"
	"sort"
	"strings"

	"github.com/dominant-strategies/go-quai/common"
	"github.com/dominant-strategies/go-quai/core"
	"github.com/dominant-strategies/go-quai/core/rawdb"
	"github.com/dominant-strategies/go-quai/core/state"
	"github.com/dominant-strategies/go-quai/core/types"
	"github.com/dominant-strategies/go-quai/core/vm"
	"github.com/dominant-strategies/go-quai/ethdb"
	"github.com/dominant-strategies/go-quai/ethdb/leveldb"
	"github.com/dominant-strategies/go-quai/log"
	"github.com/dominant-strategies/go-quai/params"

	"verifharness/hlib"
)

var (
	loc    = common.Location{0, 0}
	logger *log.Logger
	E      uint64
	depths [4]uint64
	big0   = big.NewInt(0)
	two256 = new(big.Int).Lsh(big.NewInt(1), 256)
)

// ---------------------------------------------------------------- case description (JSON, replayable)

type AddA struct {
	Owner    []byte `json:"owner"`
	Miner    []byte `json:"miner"`
	Deleg    []byte `json:"deleg"`
	SenderOk bool   `json:"sender_ok"`
	Lb       uint8  `json:"lb"`
	Unlock   uint64 `json:"unlock"`
	Epoch    uint32 `json:"epoch"`
	Value    string `json:"value"`
}
type ClaimA struct {
	Mode   int    `json:"mode"` // 0 TxOk 1 TxFailed 2 EvmOk 3 EvmInnerRevert
	Caller []byte `json:"caller"`
	Miner  []byte `json:"miner"`
	To     []byte `json:"to"`
	Lb     uint8  `json:"lb"`
	Epoch  uint32 `json:"epoch"`
	Height uint64 `json:"height"`
	Gas    uint64 `json:"gas"`
	EtxGas uint64 `json:"etxgas"`
}
type GetA struct {
	Owner  []byte `json:"owner"`
	Miner  []byte `json:"miner"`
	Lb     uint8  `json:"lb"`
	Epoch  uint32 `json:"epoch"`
	Height uint64 `json:"height"`
}
type LOp struct {
	K     string  `json:"k"` // add addn claim get getlatest commit
	Add   *AddA   `json:"add,omitempty"`
	N     int     `json:"n,omitempty"`
	Claim *ClaimA `json:"claim,omitempty"`
	Get   *GetA   `json:"get,omitempty"`
}
type Rec struct {
	Bal    *big.Int
	Unlock uint32
	Elems  uint16
	Deleg  []byte
}
type Paid struct {
	Value  *big.Int
	To     []byte
	Sender []byte
	Gas    uint64
}
type LOut struct {
	Kind    string
	Ok      bool
	Deleted bool
	Old     *Rec
	Post    Rec
	Gas     uint64
	Paid    *Paid
	Oks     int
}

type REtx struct {
	Kind  int    `json:"kind"` // 0 coinbase 1 conversion 2 other
	To    []byte `json:"to"`
	Data  []byte `json:"data"`
	Value string `json:"value"`
}
type RBlock struct {
	Number uint64 `json:"number"`
	Etxs   []REtx `json:"etxs"`
}
type RAcct struct {
	Addr []byte `json:"addr"`
	Bal  string `json:"bal"`
}
type RedeemIn struct {
	Height    uint64   `json:"height"`
	StateSize string   `json:"state_size"`
	Blocks    []RBlock `json:"blocks"`
	Pre       []RAcct  `json:"pre"`
}
type ValueIn struct {
	V  string `json:"v"`
	Lb uint8  `json:"lb"`
	H  uint64 `json:"h"`
}
type Case struct {
	ID      int       `json:"id"`
	Kind    string    `json:"kind"` // ledger value redeem
	Backend string    `json:"backend,omitempty"`
	Tag     string    `json:"tag,omitempty"`
	Ops     []LOp     `json:"ops,omitempty"`
	Value   *ValueIn  `json:"value,omitempty"`
	Redeem  *RedeemIn `json:"redeem,omitempty"`
	Uncles  *UnclesIn `json:"uncles,omitempty"`
	Disc    *DiscIn   `json:"disc,omitempty"`
}

// ---------------------------------------------------------------- Coq printing

func cz(x *big.Int) string { return "(" + x.String() + ")%Z" }

// caddr prints a 20-byte address compactly (the case-file header defines ad and z20).
func caddr(b []byte) string {
	if len(b) == 20 {
		z := true
		for i := 3; i < 19; i++ {
			z = z && b[i] == 0
		}
		if z && b[19] == b[2] {
			if b[0] == 0 && b[1] == 0 && b[2] == 0 {
				return "z20"
			}
			return fmt.Sprintf("(ad %d %d %d)", b[0], b[1], b[2])
		}
	}
	return hlib.CoqBytes(b)
}
func crec(r Rec) string {
	return fmt.Sprintf("(mkRec %s %d %d %s)", cz(r.Bal), r.Unlock, r.Elems, caddr(r.Deleg))
}
func cadd(a *AddA) string {
	v, _ := new(big.Int).SetString(a.Value, 10)
	return fmt.Sprintf("(mkAdd %s %s %s %s %d %d %d %s)", caddr(a.Owner), caddr(a.Miner), caddr(a.Deleg),
		hlib.CoqBool(a.SenderOk), a.Lb, a.Unlock, a.Epoch, cz(v))
}
func (o LOp) Coq() string {
	switch o.K {
	case "add":
		return "CPrim (OAdd " + cadd(o.Add) + ")"
	case "addn":
		return fmt.Sprintf("CAddN %d %s", o.N, cadd(o.Add))
	case "claim":
		c := o.Claim
		m := []string{"TxOk", "TxFailed", "EvmOk", "EvmInnerRevert"}[c.Mode]
		return fmt.Sprintf("CPrim (OClaim %s (mkClaim %s %s %s %d %d %d %d %d))", m, caddr(c.Caller), caddr(c.Miner),
			caddr(c.To), c.Lb, c.Epoch, c.Height, c.Gas, c.EtxGas)
	case "get":
		g := o.Get
		return fmt.Sprintf("CPrim (OGet %s %s %d %d)", caddr(g.Owner), caddr(g.Miner), g.Lb, g.Epoch)
	case "getlatest":
		g := o.Get
		return fmt.Sprintf("CPrim (OGetLatest %s %s %d %d)", caddr(g.Owner), caddr(g.Miner), g.Lb, g.Height)
	case "commit":
		return "CPrim OCommit"
	case "blockend":
		return "CBlockEnd"
	case "rollback":
		return fmt.Sprintf("CRollback %d", o.N)
	}
	panic("op " + o.K)
}
func (r LOut) Coq() string {
	switch r.Kind {
	case "add":
		old := "None"
		if r.Old != nil {
			old = "(Some " + crec(*r.Old) + ")"
		}
		return fmt.Sprintf("RAdd %s %s %s %s", hlib.CoqBool(r.Ok), hlib.CoqBool(r.Deleted), old, crec(r.Post))
	case "addn":
		return fmt.Sprintf("RAddN %d %s", r.Oks, crec(r.Post))
	case "claim":
		p := "None"
		if r.Paid != nil {
			p = fmt.Sprintf("(Some (mkPaid %s %s %s %d))", cz(r.Paid.Value), caddr(r.Paid.To), caddr(r.Paid.Sender), r.Paid.Gas)
		}
		return fmt.Sprintf("RClaim %s %d %s %s", hlib.CoqBool(r.Ok), r.Gas, p, crec(r.Post))
	case "get":
		return fmt.Sprintf("RGet %s %s", hlib.CoqBool(r.Ok), crec(r.Post))
	case "none":
		return "RNone"
	}
	panic("out " + r.Kind)
}
func (r LOut) Short() string {
	s := r.Kind
	if r.Ok {
		s += "+"
	} else {
		s += "-"
	}
	if r.Paid != nil {
		s += "$"
	}
	return s
}

// ---------------------------------------------------------------- addresses

func ad(b0, b1, tag byte) []byte {
	a := make([]byte, 20)
	a[0], a[1], a[2], a[19] = b0, b1, tag, tag
	return a
}
func A(b []byte) common.Address { return common.BytesToAddress(b, loc) }

var (
	zero20     = make([]byte, 20)
	ownersOK   = [][]byte{ad(0, 0x01, 1), ad(0, 0x01, 2), ad(0, 0x7f, 3)}
	ownersBad  = [][]byte{ad(0, 0x81, 1), ad(1, 0x01, 1)}
	minersQuai = [][]byte{ad(0, 0x10, 1), ad(0, 0x10, 2)}
	minerQi    = ad(0, 0x90, 1)
	minerExt   = ad(2, 0x10, 1)
	toQuai     = [][]byte{ad(0, 0x20, 1), ad(0, 0x20, 2)}
	toQi       = ad(0, 0xa0, 1)
	toExtQuai  = ad(1, 0x20, 1)
	toExtQi    = ad(1, 0xa0, 1)
	delegs     = [][]byte{zero20, ad(0, 0x30, 1), ad(0, 0x30, 2)}
	origin     = ad(0, 0x09, 9)
)

func frontOf(owner []byte) []byte { // contract A_i that calls owner contract B_i
	a := append([]byte{}, owner...)
	a[3] = 0x41
	return a
}

// ---------------------------------------------------------------- the real world

type world struct {
	blockSalt int
	path  string // leveldb directory ("" for memorydb)
	db    ethdb.Database
	sdb   *state.StateDB
	batch ethdb.Batch
	close func()
	// block structure (histories with "blockend"/"rollback" ops): canonical chain of empty blocks whose
	// lockup undo records are the ones StateProcessor.Process would write for the ops of the block
	hc      *core.HeaderChain
	chain   []*types.WorkObject
	created [][]byte
	deleted []rawdb.DeletedCoinbaseLockup
}

// startChain stores the first canonical block and builds the HeaderChain SetCurrentHeader runs on.
func (w *world) startChain() {
	w.hc = core.VerifC13NewReorgChain(w.db, &params.ChainConfig{ChainID: big.NewInt(1), Location: loc}, logger)
	w.pushBlock()
}

func (w *world) pushBlock() {
	wo := types.EmptyWorkObject(common.ZONE_CTX)
	n := uint64(1)
	if len(w.chain) > 0 {
		p := w.chain[len(w.chain)-1]
		n = p.NumberU64(common.ZONE_CTX) + 1
		wo.WorkObjectHeader().SetParentHash(p.Hash())
	} else {
		wo.WorkObjectHeader().SetParentHash(common.Hash{0xc1, 0x3, 0xba, 0x5e})
	}
	wo.WorkObjectHeader().SetNumber(new(big.Int).SetUint64(n))
	wo.WorkObjectHeader().SetLocation(loc)
	wo.WorkObjectHeader().SetTime(1000 + 5*n)
	w.blockSalt++
	wo.WorkObjectHeader().SetTxHash(common.Hash{0x13, byte(w.blockSalt), byte(w.blockSalt >> 8)})
	// every field the database encoding normalises must be set, or the block read back has another hash
	wo.WorkObjectHeader().SetDifficulty(big.NewInt(1000))
	wo.WorkObjectHeader().SetPrimeTerminusNumber(big.NewInt(0))
	wo.WorkObjectHeader().SetLock(0)
	wo.WorkObjectHeader().SetData([]byte{0})
	wo.WorkObjectHeader().SetPrimaryCoinbase(A(minersQuai[0]))
	wo.WorkObjectHeader().SetHeaderHash(wo.Header().Hash())
	h := wo.Hash()
	// the undo records go into the block's batch, as in StateProcessor.Process
	if err := rawdb.WriteCreatedCoinbaseLockupKeys(w.batch, h, w.created); err != nil {
		panic(err)
	}
	if err := rawdb.WriteDeletedCoinbaseLockups(w.batch, h, w.deleted); err != nil {
		panic(err)
	}
	w.created, w.deleted = nil, nil
	if err := w.batch.Write(); err != nil {
		panic(err)
	}
	w.batch = w.db.NewBatch()
	w.batch.SetPending(true)
	rawdb.WriteTermini(w.db, h, types.EmptyTermini())
	rawdb.WriteWorkObject(w.db, h, wo, types.BlockObject, common.ZONE_CTX)
	rawdb.WriteCanonicalHash(w.db, h, n)
	rawdb.WriteHeadBlockHash(w.db, h)
	w.chain = append(w.chain, wo)
	w.hc.VerifC13SetHead(wo)
}

// rollback makes the k-th ancestor of the head the head again (HeaderChain.SetCurrentHeader).
func (w *world) rollback(k int) error {
	if k >= len(w.chain) {
		k = len(w.chain) - 1
	}
	target := w.chain[len(w.chain)-1-k]
	w.created, w.deleted = nil, nil
	w.batch = w.db.NewBatch() // what the orphaned pending block did is dropped
	w.batch.SetPending(true)
	err := w.hc.SetCurrentHeader(target)
	w.chain = w.chain[:len(w.chain)-k]
	return err
}

// lockupImage: every lockup record of the committed database.
func (w *world) lockupImage() map[string]Rec {
	im := map[string]Rec{}
	it := w.db.NewIterator(rawdb.CoinbaseLockupPrefix, nil)
	for it.Next() {
		if len(it.Key()) == rawdb.CoinbaseLockupKeyLength {
			if r := parseRecBytes(it.Value()); r != nil {
				im[string(it.Key())] = *r
			}
		}
	}
	it.Release()
	return im
}

func newWorld(backend, dir string) *world {
	w := &world{}
	switch backend {
	case "memorydb":
		w.db = rawdb.NewMemoryDatabase(logger)
		w.close = func() { w.db.Close() }
	case "leveldb":
		p, err := os.MkdirTemp(dir, "lv")
		if err != nil {
			panic(err)
		}
		w.path = p
		w.openLevel()
		w.close = func() { w.db.Close(); os.RemoveAll(p) }
	default:
		panic("backend " + backend)
	}
	w.openState()
	return w
}

func (w *world) openLevel() {
	d, err := leveldb.New(w.path, 16, 16, "", false, logger, loc)
	if err != nil {
		panic(err)
	}
	w.db = rawdb.NewDatabase(d)
}

// restart = what a node restart does to the lockup store: the block batch is flushed, the database is
// closed and opened again from its files (leveldb only; nothing to reopen for memorydb or once a
// HeaderChain holds the handle), and a fresh StateDB / pending batch are built over the new handle.
func (w *world) restart() bool {
	if err := w.batch.Write(); err != nil {
		panic(err)
	}
	if w.path == "" || w.hc != nil {
		w.batch = w.db.NewBatch()
		w.batch.SetPending(true)
		return false
	}
	if err := w.db.Close(); err != nil {
		panic(err)
	}
	w.openLevel()
	w.openState()
	return true
}

func (w *world) openState() {
	sdb, err := state.New(types.EmptyRootHash, types.EmptyRootHash, big.NewInt(0), state.NewDatabase(w.db), state.NewDatabase(w.db), nil, loc, logger)
	if err != nil {
		panic(err)
	}
	sdb.ConfigureAccessListChecks(false)
	w.sdb = sdb
	w.batch = w.db.NewBatch()
	w.batch.SetPending(true) // as StateProcessor.Process and the worker do
	// owner contracts B_i (call the lockup precompile with calldata[0:53], revert if calldata[53] != 0)
	// and front contracts A_i (call B_i with the whole calldata, ignore the result)
	lock := vm.LockupContractAddresses[[2]byte{loc[0], loc[1]}]
	for _, o := range ownersOK {
		codeB := []byte{0x36, 0x60, 0, 0x60, 0, 0x37, 0x60, 0, 0x60, 0, 0x60, 0x35, 0x60, 0, 0x60, 0, 0x73}
		codeB = append(codeB, lock.Bytes()...)
		codeB = append(codeB, 0x5a, 0xf1, 0x50, 0x60, 0x35, 0x35, 0x60, 0xf8, 0x1c)
		dest := byte(len(codeB) + 4)
		codeB = append(codeB, 0x60, dest, 0x57, 0x00, 0x5b, 0x60, 0, 0x60, 0, 0xfd)
		codeA := []byte{0x36, 0x60, 0, 0x60, 0, 0x37, 0x60, 0, 0x60, 0, 0x36, 0x60, 0, 0x60, 0, 0x73}
		codeA = append(codeA, o...)
		codeA = append(codeA, 0x5a, 0xf1, 0x50, 0x00)
		bi, err := A(o).InternalAndQuaiAddress()
		if err != nil {
			panic(err)
		}
		ai, err := A(frontOf(o)).InternalAndQuaiAddress()
		if err != nil {
			panic(err)
		}
		sdb.SetCode(bi, codeB)
		sdb.SetCode(ai, codeA)
	}
}

func (w *world) read(owner, miner []byte, lb uint8, epoch uint32) Rec {
	b, h, e, d := rawdb.ReadCoinbaseLockup(w.sdb.UnderlyingDatabase(), w.batch, A(owner), A(miner), lb, epoch)
	return Rec{Bal: new(big.Int).Set(b), Unlock: h, Elems: e, Deleg: d.Bytes()}
}

func parseRecBytes(data []byte) *Rec {
	if len(data) < 38 {
		return nil
	}
	r := &Rec{Bal: new(big.Int).SetBytes(data[:32]), Unlock: binary.BigEndian.Uint32(data[32:36]), Elems: binary.BigEndian.Uint16(data[36:38]), Deleg: zero20}
	if len(data) == 58 {
		r.Deleg = append([]byte{}, data[38:]...)
	}
	return r
}

func (w *world) evm(height uint64) *vm.EVM {
	bc := vm.BlockContext{CanTransfer: core.CanTransfer, Transfer: core.Transfer, BlockNumber: new(big.Int).SetUint64(height),
		GasLimit: 30000000, Time: big.NewInt(1), Difficulty: big.NewInt(1), BaseFee: big.NewInt(1), QuaiStateSize: big.NewInt(0),
		GetHash: func(uint64) common.Hash { return common.Hash{} }}
	return vm.NewEVM(bc, vm.TxContext{Origin: A(origin), GasPrice: big.NewInt(1), Hash: common.Hash{0xc1, 0x3}}, w.sdb,
		&params.ChainConfig{ChainID: big.NewInt(1), Location: loc}, vm.Config{}, w.batch)
}

func (w *world) add(a *AddA) (bool, bool, []byte) {
	sender := common.OneInternal(loc)
	if !a.SenderOk {
		sender = common.ZeroInternal(loc)
	}
	v, _ := new(big.Int).SetString(a.Value, 10)
	del, old, key, _, newHash, err := vm.AddNewLock(w.sdb, w.batch, A(a.Owner), A(a.Miner), A(a.Deleg), sender, a.Lb, a.Unlock, a.Epoch, v, loc, logger, common.Hash{}, true)
	if err == nil && w.hc != nil && newHash != (common.Hash{}) {
		// StateProcessor.Process, coinbase paid into a lockup contract
		if del {
			w.deleted = append(w.deleted, rawdb.DeletedCoinbaseLockup{Key: key, Value: old})
		} else {
			w.created = append(w.created, key)
		}
	}
	return err == nil, del, old
}

// noteClaim: applyTransaction / Process: receipt.CoinbaseLockupsDeleted = evm.CoinbasesDeleted of a successful transaction
func (w *world) noteClaim(evm *vm.EVM) {
	if w.hc == nil {
		return
	}
	keys := make([]string, 0, len(evm.CoinbasesDeleted))
	for k := range evm.CoinbasesDeleted {
		keys = append(keys, string(k[:]))
	}
	sort.Strings(keys)
	for _, k := range keys {
		var kk [47]byte
		copy(kk[:], k)
		w.deleted = append(w.deleted, rawdb.DeletedCoinbaseLockup{Key: []byte(k), Value: evm.CoinbasesDeleted[kk]})
	}
}

func claimInput(c *ClaimA) []byte {
	in := append(append([]byte{}, c.Miner...), c.To...)
	in = append(in, c.Lb)
	in = binary.BigEndian.AppendUint32(in, c.Epoch)
	in = binary.BigEndian.AppendUint64(in, c.EtxGas)
	return in
}

func paidOf(evm *vm.EVM) *Paid {
	if len(evm.ETXCache) == 0 {
		return nil
	}
	x := evm.ETXCache[len(evm.ETXCache)-1]
	if x.EtxType() != types.CoinbaseLockupType || len(evm.ETXCache) != 1 {
		return &Paid{Value: big.NewInt(-1), To: zero20, Sender: zero20}
	}
	return &Paid{Value: x.Value(), To: x.To().Bytes(), Sender: x.ETXSender().Bytes(), Gas: x.Gas()}
}

func (w *world) step(o LOp) LOut {
	switch o.K {
	case "add":
		a := o.Add
		ok, del, old := w.add(a)
		r := LOut{Kind: "add", Ok: ok, Post: w.read(a.Owner, a.Miner, a.Lb, a.Epoch)}
		if ok {
			r.Deleted = del
			if del {
				r.Old = parseRecBytes(old)
			}
		}
		return r
	case "addn":
		a := o.Add
		oks := 0
		for i := 0; i < o.N; i++ {
			if ok, _, _ := w.add(a); ok {
				oks++
			}
		}
		return LOut{Kind: "addn", Oks: oks, Post: w.read(a.Owner, a.Miner, a.Lb, a.Epoch)}
	case "claim":
		c := o.Claim
		evm := w.evm(c.Height)
		in := claimInput(c)
		r := LOut{Kind: "claim"}
		switch c.Mode {
		case 0, 1:
			gas := c.Gas
			_, err := vm.RunLockupContract(evm, A(c.Caller), &gas, in)
			r.Ok, r.Gas = err == nil, gas
			if c.Mode == 1 {
				// applyTransaction on a failed transaction: undo the deletions, no outbound ETXs
				evm.UndoCoinbasesDeleted()
			} else if err == nil {
				r.Paid = paidOf(evm)
				w.noteClaim(evm)
			} else if len(evm.ETXCache) != 0 {
				r.Paid = paidOf(evm)
			}
		case 2, 3:
			flag := byte(0)
			if c.Mode == 3 {
				flag = 1
			}
			_, _, _, err := evm.Call(vm.AccountRef(A(origin)), A(frontOf(c.Caller)), append(in, flag), 8000000, big.NewInt(0))
			r.Ok, r.Gas = err == nil, 0
			r.Paid = paidOf(evm)
			if err == nil {
				w.noteClaim(evm)
			}
		}
		r.Post = w.read(c.Caller, c.Miner, c.Lb, c.Epoch)
		return r
	case "get", "getlatest":
		g := o.Get
		h := g.Height
		evm := w.evm(h)
		in := append(append([]byte{}, g.Miner...), g.Lb)
		if o.K == "get" {
			in = binary.BigEndian.AppendUint32(in, g.Epoch)
		}
		gas := uint64(100000)
		ret, err := vm.RunLockupContract(evm, A(g.Owner), &gas, in)
		r := LOut{Kind: "get", Ok: err == nil, Post: Rec{Bal: big.NewInt(0), Deleg: zero20}}
		if err == nil && len(ret) == 128 {
			r.Post = Rec{Bal: new(big.Int).SetBytes(ret[32:64]), Unlock: binary.BigEndian.Uint32(ret[28:32]),
				Elems: binary.BigEndian.Uint16(ret[94:96]), Deleg: append([]byte{}, ret[108:128]...)}
		} else if err == nil {
			r.Ok = false
		}
		return r
	case "commit":
		if o.N == 1 { // commit + node restart (printed as OCommit: the model's ledger is the durable view)
			w.restart()
			return LOut{Kind: "none"}
		}
		if err := w.batch.Write(); err != nil {
			panic(err)
		}
		w.batch = w.db.NewBatch()
		w.batch.SetPending(true)
		return LOut{Kind: "none"}
	case "blockend":
		w.pushBlock()
		return LOut{Kind: "none"}
	case "rollback":
		if err := w.rollback(o.N); err != nil {
			return LOut{Kind: "none", Ok: false, Oks: -1}
		}
		return LOut{Kind: "none"}
	}
	panic("op " + o.K)
}

// ---------------------------------------------------------------- ledger monitor (independent of the Coq model)

type refT struct {
	owner, miner []byte
	lb           uint8
	epoch        uint32
	bal          *big.Int // accumulated and not yet paid out
}

func keyStr(owner, miner []byte, lb uint8, epoch uint32) string {
	return fmt.Sprintf("%x/%x/%d/%d", owner, miner, lb, epoch)
}
func recEq(a, b Rec) bool {
	return a.Bal.Cmp(b.Bal) == 0 && a.Unlock == b.Unlock && a.Elems == b.Elems && string(a.Deleg) == string(b.Deleg)
}
func validOwner(a []byte) bool { return a[0] == 0 && a[1] <= 127 }

// runLedger executes a history on the real code, returns the observed outputs and feeds the monitors.
func runLedger(c *Case, dir string, rep *hlib.Report) []LOut {
	w := newWorld(c.Backend, dir)
	defer w.close()
	outs := make([]LOut, 0, len(c.Ops))
	ref := map[string]*refT{}
	inDomain := true // property monitors only for inputs Process can produce: E <= unlock < 2^32, balances < 2^256
	added, paid := new(big.Int), new(big.Int)
	failed := false
	fail := func(sig, what string) {
		failed = true
		rep.Fail(sig, what, c)
	}
	// block-structured histories: the monitor keeps, per canonical block, its own accounting and an
	// image of the committed lockup records; a rollback must bring both back
	type snapT struct {
		ref         map[string]*refT
		added, paid *big.Int
		image       map[string]Rec
	}
	var snaps []snapT
	snapshot := func() snapT {
		cp := map[string]*refT{}
		for k, v := range ref {
			cp[k] = &refT{v.owner, v.miner, v.lb, v.epoch, new(big.Int).Set(v.bal)}
		}
		return snapT{cp, new(big.Int).Set(added), new(big.Int).Set(paid), w.lockupImage()}
	}
	for _, o := range c.Ops {
		if o.K == "blockend" || o.K == "rollback" {
			w.startChain()
			snaps = append(snaps, snapshot())
			break
		}
	}
	for i, o := range c.Ops {
		var pre Rec
		switch o.K {
		case "add", "addn":
			pre = w.read(o.Add.Owner, o.Add.Miner, o.Add.Lb, o.Add.Epoch)
			if o.Add.Unlock < E || o.Add.Unlock >= 1<<32 {
				inDomain = false
			}
		case "claim":
			pre = w.read(o.Claim.Caller, o.Claim.Miner, o.Claim.Lb, o.Claim.Epoch)
			if o.Claim.Height >= 1<<32 {
				inDomain = false
			}
		}
		var r LOut
		func() {
			defer func() {
				if e := recover(); e != nil {
					r = LOut{Kind: "none"}
					fail("C13/ledger/panic/"+o.K, fmt.Sprintf("op %d panicked: %v", i, e))
				}
			}()
			r = w.step(o)
		}()
		outs = append(outs, r)
		rep.Count("ledger_op/" + o.K + "/" + map[bool]string{true: "ok", false: "refused"}[r.Ok || r.Oks > 0 || r.Kind == "none"])
		switch o.K {
		case "blockend":
			snaps = append(snaps, snapshot())
			rep.Count("ledger_reorg/block")
		case "rollback":
			k := o.N
			if k >= len(snaps) {
				k = len(snaps) - 1
			}
			rep.Count(fmt.Sprintf("ledger_reorg/rollback-%d-blocks", k))
			snaps = snaps[:len(snaps)-k]
			sn := snaps[len(snaps)-1]
			snaps[len(snaps)-1] = snapT{sn.ref, sn.added, sn.paid, sn.image}
			ref = map[string]*refT{}
			for kk, v := range sn.ref {
				ref[kk] = &refT{v.owner, v.miner, v.lb, v.epoch, new(big.Int).Set(v.bal)}
			}
			added, paid = new(big.Int).Set(sn.added), new(big.Int).Set(sn.paid)
			if r.Oks < 0 {
				fail("C13/reorg/rollback-failed", fmt.Sprintf("op %d: SetCurrentHeader refused to roll %d block(s) back", i, k))
				break
			}
			if !inDomain {
				break
			}
			got := w.lockupImage()
			for _, kk := range hlib.SortedKeys(sn.image) {
				want := sn.image[kk]
				g, ok := got[kk]
				switch {
				case !ok:
					fail("C13/reorg/lockup-lost", fmt.Sprintf("op %d: after rolling %d block(s) back the lockup %x (balance %v) of the surviving chain is gone", i, k, kk, want.Bal))
				case g.Bal.Cmp(want.Bal) != 0 || g.Unlock != want.Unlock || g.Elems != want.Elems:
					fail("C13/reorg/lockup-not-restored", fmt.Sprintf("op %d: after rolling %d block(s) back the lockup %x holds (%v, unlock %d, %d rewards), the surviving chain had (%v, %d, %d)", i, k, kk, g.Bal, g.Unlock, g.Elems, want.Bal, want.Unlock, want.Elems))
				case string(g.Deleg) != string(want.Deleg):
					fail("C13/reorg/lockup-delegate-not-restored", fmt.Sprintf("op %d: lockup %x: delegate %x, the surviving chain had %x", i, kk, g.Deleg, want.Deleg))
				}
			}
			for _, kk := range hlib.SortedKeys(got) {
				if _, ok := sn.image[kk]; !ok {
					fail("C13/reorg/orphaned-reward-survives", fmt.Sprintf("op %d: after rolling %d block(s) back the lockup %x (balance %v) created by an orphaned block is still there: it would be paid out", i, k, kk, got[kk].Bal))
				}
			}
		}
		if !inDomain {
			continue
		}
		switch o.K {
		case "add", "addn":
			a := o.Add
			n := 1
			if o.K == "addn" {
				n = r.Oks
			} else if !r.Ok {
				n = 0
			}
			v, _ := new(big.Int).SetString(a.Value, 10)
			k := keyStr(a.Owner, a.Miner, a.Lb, a.Epoch)
			if n > 0 {
				tot := new(big.Int).Mul(v, big.NewInt(int64(n)))
				added.Add(added, tot)
				if ref[k] == nil {
					ref[k] = &refT{a.Owner, a.Miner, a.Lb, a.Epoch, new(big.Int)}
				}
				ref[k].bal.Add(ref[k].bal, tot)
				// accumulates: balance grows by exactly the reward; an existing tranche keeps its unlock height;
				// a new tranche unlocks at the epoch floor of the nominal unlock height
				want := new(big.Int).Add(pre.Bal, tot)
				if pre.Unlock == 0 {
					want = tot
				}
				if r.Post.Bal.Cmp(want) != 0 {
					fail("C13/ledger/add/balance-not-accumulated", fmt.Sprintf("op %d: balance %v, want %v", i, r.Post.Bal, want))
				}
				if pre.Unlock != 0 && r.Post.Unlock != pre.Unlock {
					fail("C13/ledger/add/unlock-height-changed", fmt.Sprintf("op %d: tranche unlock %d -> %d", i, pre.Unlock, r.Post.Unlock))
				}
				if pre.Unlock == 0 && uint64(r.Post.Unlock) != a.Unlock-a.Unlock%E {
					fail("C13/ledger/add/unlock-height-not-epoch-floor", fmt.Sprintf("op %d: tranche unlock %d for nominal %d", i, r.Post.Unlock, a.Unlock))
				}
				if o.K == "add" && r.Deleted && r.Old != nil && string(pre.Deleg) != string(a.Deleg) {
					if string(r.Old.Deleg) != string(pre.Deleg) {
						rep.Count("F6_undo_record_carries_new_delegate")
					} else {
						rep.Count("F6_not_observed_undo_record_has_old_delegate")
					}
				}
			} else if !recEq(pre, r.Post) {
				fail("C13/ledger/add/refused-but-changed", fmt.Sprintf("op %d: refused add changed the record", i))
			}
		case "claim":
			cl := o.Claim
			k := keyStr(cl.Caller, cl.Miner, cl.Lb, cl.Epoch)
			latest := uint32(cl.Height/E + 1)
			if r.Paid != nil {
				paid.Add(paid, r.Paid.Value)
				rf := ref[k]
				switch {
				case cl.Mode == 1:
					fail("C13/ledger/claim/failed-tx-emitted-etx", fmt.Sprintf("op %d", i))
				case string(r.Paid.Sender) != string(cl.Caller):
					fail("C13/ledger/claim/sender-not-owner", fmt.Sprintf("op %d: ETX sender %x, caller %x", i, r.Paid.Sender, cl.Caller))
				case rf == nil || rf.bal.Sign() == 0:
					fail("C13/ledger/claim/paid-twice-or-from-nothing", fmt.Sprintf("op %d: paid %v with nothing accumulated", i, r.Paid.Value))
				case r.Paid.Value.Cmp(rf.bal) != 0:
					fail("C13/ledger/claim/paid-not-accumulated", fmt.Sprintf("op %d: paid %v, accumulated %v", i, r.Paid.Value, rf.bal))
				case uint64(pre.Unlock) > cl.Height || pre.Unlock == 0:
					fail("C13/ledger/claim/before-unlock", fmt.Sprintf("op %d: height %d, tranche unlock %d", i, cl.Height, pre.Unlock))
				case cl.Epoch >= latest:
					fail("C13/ledger/claim/epoch-not-finished", fmt.Sprintf("op %d: epoch %d latest %d", i, cl.Epoch, latest))
				case r.Post.Unlock != 0 || r.Post.Bal.Sign() != 0:
					fail("C13/ledger/claim/record-not-deleted", fmt.Sprintf("op %d", i))
				case string(r.Paid.To) != string(cl.To) || r.Paid.Gas != cl.EtxGas:
					fail("C13/ledger/claim/etx-fields", fmt.Sprintf("op %d", i))
				}
				if rf != nil {
					rf.bal = new(big.Int)
				}
			} else {
				if !recEq(pre, r.Post) {
					if cl.Mode == 3 {
						fail("C13/ledger/claim-in-reverted-frame/lockup-deleted-without-etx",
							fmt.Sprintf("op %d: the owner contract's frame reverted after a successful claim: lockup of %v deleted, no ETX emitted, transaction succeeded", i, pre.Bal))
					} else {
						fail("C13/ledger/claim/no-payout-but-changed", fmt.Sprintf("op %d mode %d", i, cl.Mode))
					}
					if rf := ref[k]; rf != nil { // keep the reference in step with reality so later ops are judged on their own
						rf.bal = new(big.Int).Set(r.Post.Bal)
					}
				}
				// a due claim by the owner must succeed
				if rf := ref[k]; (cl.Mode == 0 || cl.Mode == 2) && rf != nil && rf.bal.Sign() > 0 && cl.Gas >= cl.EtxGas && validOwner(cl.Caller) &&
					cl.Miner[0] == 0 && (cl.Miner[1] > 127) == (cl.To[1] > 127) && pre.Unlock != 0 && uint64(pre.Unlock) <= cl.Height && cl.Epoch < latest {
					if pre.Elems == 0 {
						fail("C13/ledger/due-claim-refused/elements-counter-wrapped",
							fmt.Sprintf("op %d: tranche with balance %v is unlocked but its uint16 element counter wrapped to 0, claim refused", i, pre.Bal))
					} else {
						fail("C13/ledger/due-claim-refused", fmt.Sprintf("op %d", i))
					}
				}
			}
		}
		// nothing else moved: every tranche ever touched still holds exactly its accumulated balance
		if !failed {
			for _, k := range hlib.SortedKeys(ref) {
				rf := ref[k]
				got := w.read(rf.owner, rf.miner, rf.lb, rf.epoch)
				if got.Bal.Cmp(rf.bal) != 0 {
					fail("C13/ledger/foreign-lockup-changed", fmt.Sprintf("after op %d (%s): tranche %s holds %v, accumulated %v", i, o.K, k, got.Bal, rf.bal))
					break
				}
			}
		}
	}
	if inDomain && !failed {
		// conservation on the committed database: sum(added) = sum(paid) + sum(still locked)
		if err := w.batch.Write(); err != nil {
			panic(err)
		}
		locked := new(big.Int)
		it := w.db.NewIterator(rawdb.CoinbaseLockupPrefix, nil)
		for it.Next() {
			if len(it.Key()) == rawdb.CoinbaseLockupKeyLength && len(it.Value()) >= 38 {
				locked.Add(locked, new(big.Int).SetBytes(it.Value()[:32]))
			}
		}
		it.Release()
		if new(big.Int).Add(paid, locked).Cmp(added) != 0 {
			fail("C13/ledger/conservation", fmt.Sprintf("added %v != paid %v + locked %v", added, paid, locked))
		}
	}
	if !inDomain {
		rep.Count("ledger_history/out_of_domain(monitor_skipped)")
	} else {
		rep.Count("ledger_history/in_domain")
	}
	return outs
}

// ---------------------------------------------------------------- ledger generators

func bigS(x uint64) string { return new(big.Int).SetUint64(x).String() }

func mkAdd(owner, miner, deleg []byte, lb uint8, block uint64, value string) LOp {
	return LOp{K: "add", Add: &AddA{Owner: owner, Miner: miner, Deleg: deleg, SenderOk: true, Lb: lb,
		Unlock: block + depths[lb%4], Epoch: uint32(block/E + 1), Value: value}}
}
func mkClaim(mode int, caller, miner, to []byte, lb uint8, epoch uint32, height uint64) LOp {
	return LOp{K: "claim", Claim: &ClaimA{Mode: mode, Caller: caller, Miner: miner, To: to, Lb: lb, Epoch: epoch, Height: height, Gas: 100000, EtxGas: 21000}}
}
func mkGet(owner, miner []byte, lb uint8, epoch uint32) LOp {
	return LOp{K: "get", Get: &GetA{Owner: owner, Miner: miner, Lb: lb, Epoch: epoch, Height: 1}}
}
func floorE(x uint64) uint64 { return x - x%E }

func corpus() []Case {
	o1, o2, o3 := ownersOK[0], ownersOK[1], ownersOK[2]
	m1, m2 := minersQuai[0], minersQuai[1]
	t1 := toQuai[0]
	d0 := depths[0]
	var cs []Case
	both := func(tag string, ops []LOp) {
		cs = append(cs, Case{Kind: "ledger", Backend: "memorydb", Tag: tag, Ops: ops})
		cs = append(cs, Case{Kind: "ledger", Backend: "leveldb", Tag: tag, Ops: ops})
	}
	th := floorE(100 + d0)
	// accumulate, delegate change (F6 observation), claim before / at unlock, second claim, get
	both("basic", []LOp{
		mkAdd(o1, m1, delegs[1], 0, 100, "100"), mkAdd(o1, m1, delegs[2], 0, 101, "50"), mkGet(o1, m1, 0, 1),
		mkClaim(0, o1, m1, t1, 0, 1, th-1), mkClaim(0, o1, m1, t1, 0, 1, th), mkClaim(0, o1, m1, t1, 0, 1, th+1), mkGet(o1, m1, 0, 1),
	})
	// every lock byte, two epochs, several rewards per block, claims across epochs
	var ops []LOp
	for lb := uint8(0); lb < 4; lb++ {
		ops = append(ops, mkAdd(o1, m1, zero20, lb, 700000, "1000000000000000000"), mkAdd(o1, m1, zero20, lb, 700000, "7"),
			mkAdd(o1, m1, zero20, lb, 700000+E, "11"), mkAdd(o1, m2, zero20, lb, 700001, "13"))
	}
	for lb := uint8(0); lb < 4; lb++ {
		e1 := uint32(700000/E + 1)
		u := floorE(700000 + depths[lb])
		ops = append(ops, mkClaim(0, o1, m1, t1, lb, e1, u-1), mkClaim(0, o1, m1, t1, lb, e1, u), mkClaim(0, o1, m1, t1, lb, e1+1, u),
			mkClaim(0, o1, m1, t1, lb, e1+1, floorE(700000+E+depths[lb])), mkClaim(0, o1, m2, t1, lb, e1, u+E))
	}
	both("lockbytes-epochs", ops)
	// only the owner in the key can claim
	both("non-owner", []LOp{
		mkAdd(o1, m1, zero20, 1, 100, "500"), mkClaim(0, o2, m1, t1, 1, 1, floorE(100+depths[1])), mkClaim(0, ownersBad[0], m1, t1, 1, 1, floorE(100+depths[1])),
		mkClaim(0, ownersBad[1], m1, t1, 1, 1, floorE(100+depths[1])), mkClaim(2, o3, m1, t1, 1, 1, floorE(100+depths[1])),
		mkGet(o1, m1, 1, 1), mkClaim(0, o1, m1, t1, 1, 1, floorE(100+depths[1])),
	})
	// node restarts in between (leveldb: closed and reopened from its files): rewards accumulated before and
	// after a restart land in one tranche, a claim made before the restart stays made, a failed-transaction undo
	// and an unflushed add survive as what the flushed batch said, a claimed key can start a new tranche later
	re := LOp{K: "commit", N: 1}
	both("restart", []LOp{
		mkAdd(o1, m1, delegs[1], 0, 100, "100"), mkAdd(o2, m2, zero20, 1, 100, "40"), re, mkAdd(o1, m1, delegs[2], 0, 101, "50"), mkGet(o1, m1, 0, 1),
		mkClaim(0, o1, m1, t1, 0, 1, th-1), re, mkClaim(1, o1, m1, t1, 0, 1, th), re, mkGet(o1, m1, 0, 1), mkClaim(2, o1, m1, t1, 0, 1, th), re,
		mkClaim(0, o1, m1, t1, 0, 1, th+1), mkGet(o1, m1, 0, 1), mkAdd(o1, m1, zero20, 0, 102, "9"), re, mkGet(o1, m1, 0, 1),
		mkClaim(2, o2, m2, t1, 1, 1, floorE(100+depths[1])), re, mkClaim(0, o2, m2, t1, 1, 1, floorE(100+depths[1])), mkClaim(0, o1, m1, t1, 0, 1, th+2),
	})
	// failed transaction: the deletion is undone, nothing is paid; then a good claim pays everything
	both("failed-tx-undo", []LOp{
		mkAdd(o2, m1, delegs[1], 0, 100, "321"), mkClaim(1, o2, m1, t1, 0, 1, th), mkGet(o2, m1, 0, 1), {K: "commit"},
		mkClaim(0, o2, m1, t1, 0, 1, th), mkClaim(1, o2, m1, t1, 0, 1, th),
	})
	// through the EVM: the caller of the precompile is the owner
	both("evm-ok", []LOp{
		mkAdd(o3, m1, zero20, 0, 100, "900"), mkClaim(2, o1, m1, t1, 0, 1, th), mkClaim(2, o3, m1, t1, 0, 1, th-1), mkClaim(2, o3, m1, t1, 0, 1, th), mkClaim(2, o3, m1, t1, 0, 1, th),
	})
	// owner contract's frame reverts after the claim, outer transaction succeeds (model: record stays deleted, no ETX)
	both("evm-inner-revert", []LOp{
		mkAdd(o1, m1, zero20, 0, 100, "4242"), mkClaim(3, o1, m1, t1, 0, 1, th-1), mkGet(o1, m1, 0, 1), mkClaim(3, o1, m1, t1, 0, 1, th), mkGet(o1, m1, 0, 1), mkClaim(0, o1, m1, t1, 0, 1, th),
	})
	// uint16 element counter: 65536 rewards in one tranche -> counter 0 -> due claim refused; one more reward makes it claimable again
	a := mkAdd(o1, m1, zero20, 0, 100, "3")
	cs = append(cs, Case{Kind: "ledger", Backend: "memorydb", Tag: "elements-wrap", Ops: []LOp{
		{K: "addn", N: 65535, Add: a.Add}, mkClaim(1, o1, m1, t1, 0, 1, th), a, mkGet(o1, m1, 0, 1), mkClaim(0, o1, m1, t1, 0, 1, th), a, mkClaim(0, o1, m1, t1, 0, 1, th),
	}})
	// unreachable with the shipped parameters (depth >= epoch): nominal unlock below one epoch -> tranche height 0 -> next add overwrites
	low := LOp{K: "add", Add: &AddA{Owner: o1, Miner: m1, Deleg: zero20, SenderOk: true, Lb: 0, Unlock: E - 1, Epoch: 1, Value: "10"}}
	both("unlock-below-epoch", []LOp{low, low, mkGet(o1, m1, 0, 1), mkClaim(0, o1, m1, t1, 0, 1, 3*E)})
	// amount limits, value sign, sender, epoch 0, unlock going backwards
	max := new(big.Int).Sub(two256, big.NewInt(1)).String()
	bad := func(f func(a *AddA)) LOp { x := mkAdd(o1, m1, zero20, 0, 100, "5"); f(x.Add); return x }
	both("guards", []LOp{
		bad(func(a *AddA) { a.Value = "0" }), bad(func(a *AddA) { a.Value = "-5" }), bad(func(a *AddA) { a.SenderOk = false }),
		bad(func(a *AddA) { a.Owner = ownersBad[0] }), bad(func(a *AddA) { a.Owner = ownersBad[1] }), bad(func(a *AddA) { a.Miner = minerExt }),
		bad(func(a *AddA) { a.Epoch = 0 }), bad(func(a *AddA) { a.Epoch = 0 }), mkAdd(o1, m1, zero20, 0, 100, max), mkAdd(o1, m1, zero20, 0, 100, "1"),
		mkAdd(o1, m1, zero20, 0, 100+2*E, "1"), bad(func(a *AddA) { a.Unlock = th - 1 }), bad(func(a *AddA) { a.Unlock = th }),
		mkAdd(o1, minerQi, zero20, 0, 100, "77"), mkClaim(0, o1, minerQi, t1, 0, 1, th), mkClaim(0, o1, minerQi, toExtQuai, 0, 1, th), mkClaim(0, o1, minerQi, toExtQi, 0, 1, th),
		mkAdd(o1, m2, zero20, 0, 100, "78"), mkClaim(0, o1, m2, toQi, 0, 1, th), mkClaim(0, o1, m2, toExtQuai, 0, 1, th),
	})
	// epoch boundary and gas
	g := mkClaim(0, o1, m1, t1, 0, 6, th+10*E)
	g.Claim.Gas, g.Claim.EtxGas = 20999, 21000
	both("epoch-boundary", []LOp{
		mkAdd(o1, m1, zero20, 0, 5*E+1, "60"), mkClaim(0, o1, m1, t1, 0, 6, 6*E-1), mkClaim(0, o1, m1, t1, 0, 6, 6*E),
		mkClaim(0, o1, m1, t1, 0, 6, floorE(5*E+1+d0)-1), g, {K: "getlatest", Get: &GetA{Owner: o1, Miner: m1, Lb: 0, Height: 5*E + 7}},
		{K: "getlatest", Get: &GetA{Owner: ownersBad[1], Miner: minerExt, Lb: 0, Height: 5*E + 7}}, mkClaim(0, o1, m1, t1, 0, 6, floorE(5*E+1+d0)),
	})
	// the epoch guard on its own: a tranche whose unlock height lies before the end of its epoch (never produced by
	// Process, where depth >= epoch makes the unlock guard imply the epoch guard) is refused while the epoch runs
	ahead := LOp{K: "add", Add: &AddA{Owner: o1, Miner: m1, Deleg: zero20, SenderOk: true, Lb: 0, Unlock: 2*E + 5, Epoch: 9, Value: "640"}}
	both("epoch-guard-alone", []LOp{ahead, mkClaim(0, o1, m1, t1, 0, 9, 2*E), mkClaim(0, o1, m1, t1, 0, 9, 8*E+3), mkClaim(2, o1, m1, t1, 0, 9, 9*E-1),
		mkClaim(0, o1, m1, t1, 0, 9, 9*E), mkClaim(0, o1, m1, t1, 0, 9, 9*E)})
	// uint32 truncation of the tranche height (out of the monitors' domain)
	hi := LOp{K: "add", Add: &AddA{Owner: o1, Miner: m1, Deleg: zero20, SenderOk: true, Lb: 0, Unlock: 1<<32 + 5*E + 17, Epoch: 9, Value: "10"}}
	both("uint32-truncation", []LOp{hi, mkGet(o1, m1, 0, 9), mkClaim(0, o1, m1, t1, 0, 9, 1<<32+5*E), mkClaim(0, o1, m1, t1, 0, 9, 1<<32)})
	// ---- reorgs: blocks of rewards/claims with the undo records Process writes, rolled back by SetCurrentHeader
	be, rb := LOp{K: "blockend"}, func(k int) LOp { return LOp{K: "rollback", N: k} }
	// a block creates a tranche AND adds to it again, is orphaned; the new chain's reward must be alone in the tranche
	both("reorg-create-and-add-in-one-block", []LOp{
		be, mkAdd(o1, m1, zero20, 0, 100, "100"), mkAdd(o1, m1, delegs[1], 0, 100, "50"), mkAdd(o1, m1, delegs[1], 0, 100, "25"), be, rb(1), mkGet(o1, m1, 0, 1),
		mkAdd(o1, m1, zero20, 0, 101, "7"), be, mkGet(o1, m1, 0, 1), mkClaim(0, o1, m1, t1, 0, 1, th), mkGet(o1, m1, 0, 1),
	})
	// an existing tranche is added to twice (delegate changes) in the orphaned block
	both("reorg-existing-tranche-twice", []LOp{
		mkAdd(o1, m1, delegs[1], 0, 100, "100"), mkAdd(o2, m1, zero20, 1, 100, "11"), be, mkAdd(o1, m1, delegs[2], 0, 101, "50"), mkAdd(o1, m1, zero20, 0, 101, "25"), mkAdd(o1, m2, zero20, 0, 101, "5"), be,
		rb(1), mkGet(o1, m1, 0, 1), mkGet(o1, m2, 0, 1), mkClaim(0, o1, m1, t1, 0, 1, th), mkClaim(0, o1, m2, t1, 0, 1, th), mkGet(o2, m1, 1, 1),
	})
	// a claim is orphaned: the lockup is back and can be claimed on the new chain; claim + new reward in one block
	both("reorg-claim-rolled-back", []LOp{
		mkAdd(o1, m1, zero20, 0, 100, "100"), be, mkClaim(0, o1, m1, t1, 0, 1, th), mkAdd(o2, m2, zero20, 0, th, "9"), be, rb(1), mkGet(o1, m1, 0, 1), mkGet(o2, m2, 0, uint32(th/E+1)),
		mkClaim(2, o1, m1, t1, 0, 1, th), be, rb(1), mkClaim(1, o1, m1, t1, 0, 1, th), mkClaim(0, o1, m1, t1, 0, 1, th), be, mkClaim(0, o1, m1, t1, 0, 1, th),
	})
	// several blocks at once, then growing again
	both("reorg-three-blocks", []LOp{
		mkAdd(o1, m1, zero20, 0, 100, "1"), be, mkAdd(o1, m1, zero20, 0, 101, "2"), mkAdd(o3, m1, zero20, 2, 101, "20"), be, mkAdd(o1, m1, zero20, 0, 102, "4"), mkAdd(o3, m1, zero20, 2, 102, "40"), be,
		mkAdd(o1, m1, zero20, 0, 103, "8"), mkAdd(o3, m2, zero20, 3, 103, "80"), mkAdd(o3, m2, zero20, 3, 103, "80"), be, rb(3), mkGet(o1, m1, 0, 1), mkGet(o3, m1, 2, 1), mkGet(o3, m2, 3, 1),
		mkAdd(o1, m1, zero20, 0, 101, "16"), be, mkAdd(o3, m2, zero20, 3, 102, "3"), be, rb(1), mkClaim(0, o1, m1, t1, 0, 1, th), mkGet(o3, m2, 3, 1), rb(5), mkGet(o1, m1, 0, 1),
	})
	// a LARGE orphaned block (up to 33 coinbase ETXs fit in one block with 32 workshares; more through claims): the undo
	// record of a block keeps one (key, replaced value) entry per credit in chronological order, and several entries share
	// a key; the rollback must bring every tranche back to its PRE-block value whatever the number / interleaving of entries
	type trT struct {
		o, m []byte
		lb   uint8
	}
	trs := []trT{{o1, m1, 0}, {o1, m2, 0}, {o2, m1, 1}, {o2, m2, 1}, {o3, m1, 2}, {o3, m2, 3}, {o2, m1, 0}}
	for si, size := range []int{12, 13, 17, 24, 33, 48} {
		var ops []LOp
		pre := 5 // tranches that exist before the big block; the others are created inside it
		if si%2 == 1 {
			pre = 7
		}
		for i := 0; i < pre; i++ {
			ops = append(ops, mkAdd(trs[i].o, trs[i].m, delegs[i%3], trs[i].lb, 100, fmt.Sprint(1000+i)))
		}
		ops = append(ops, be)
		x := uint32(size)*2654435761 + 12345
		for i := 0; i < size; i++ {
			j := i % len(trs)
			if si >= 2 { // pseudo-random interleaving
				x = x*1664525 + 1013904223
				j = int(x>>16) % len(trs)
			}
			ops = append(ops, mkAdd(trs[j].o, trs[j].m, delegs[(i+j)%3], trs[j].lb, 101, fmt.Sprint(1000000*(i+1))))
		}
		ops = append(ops, be, rb(1))
		for _, t := range trs {
			ops = append(ops, mkGet(t.o, t.m, t.lb, 1))
		}
		ops = append(ops, mkAdd(o1, m1, zero20, 0, 101, "3"), be)
		for _, t := range trs {
			ops = append(ops, mkClaim(0, t.o, t.m, t1, t.lb, 1, floorE(100+depths[t.lb])))
		}
		backend := "memorydb"
		if si%2 == 0 {
			backend = "leveldb"
		}
		cs = append(cs, Case{Kind: "ledger", Backend: backend, Tag: fmt.Sprintf("reorg-large-block-%d", size), Ops: ops})
	}
	return cs
}

// genReorgHistory: a generated history cut into blocks; some blocks (1-3 at a time) are orphaned right after they end.
func genReorgHistory(r *hlib.Rng) []LOp {
	base := genHistory(r)
	var ops []LOp
	blocks := 0
	left := 1 + r.Intn(3)
	for _, o := range base {
		if o.K == "claim" && o.Claim.Mode == 3 {
			// a claim in a reverted frame burns the lockup without an undo record (finding 1); its effect on reorgs is the same burn
			c := *o.Claim
			c.Mode = 2
			o = LOp{K: "claim", Claim: &c}
		}
		ops = append(ops, o)
		left--
		if left <= 0 {
			ops = append(ops, LOp{K: "blockend"})
			blocks++
			left = 1 + r.Intn(4)
			if r.Chance(35) {
				k := 1 + r.Pick(70, 20, 10)
				ops = append(ops, LOp{K: "rollback", N: k})
			}
		}
	}
	ops = append(ops, LOp{K: "blockend"})
	if r.Chance(25) {
		// one large block crediting the history's tranches again and again (13..40 undo entries, shared keys), orphaned below
		var adds []LOp
		for _, o := range base {
			if o.K == "add" && o.Add.SenderOk {
				adds = append(adds, o)
			}
		}
		if len(adds) > 0 {
			size := 13 + r.Intn(28)
			for i := 0; i < size; i++ {
				a := *adds[r.Intn(len(adds))].Add
				a.Value = fmt.Sprint(1000 + 17*i)
				ops = append(ops, LOp{K: "add", Add: &a})
			}
			ops = append(ops, LOp{K: "blockend"})
		}
	}
	if r.Chance(50) {
		ops = append(ops, LOp{K: "rollback", N: 1 + r.Intn(2)})
		for _, o := range base {
			if o.K == "get" || (o.K == "claim" && o.Claim.Mode == 0) {
				ops = append(ops, o)
			}
		}
	}
	return ops
}

type tranche struct {
	owner, miner []byte
	lb           uint8
	epoch        uint32
	th           uint64
}

func genHistory(r *hlib.Rng) []LOp {
	n := 6 + r.Intn(20)
	b := 1 + uint64(r.Intn(int(3*E)))
	if r.Chance(50) {
		b += params.CoinbaseLockupPrecompileKickInHeight
	}
	var ops []LOp
	var ts []tranche
	pick := func(xs [][]byte) []byte { return xs[r.Intn(len(xs))] }
	for len(ops) < n {
		switch r.Pick(42, 38, 8, 4, 8) {
		case 0:
			owner := pick(ownersOK)
			if r.Chance(6) {
				owner = pick(ownersBad)
			}
			miner := pick(minersQuai)
			if r.Chance(8) {
				miner = minerQi
			} else if r.Chance(4) {
				miner = minerExt
			}
			lb := uint8(r.Intn(4))
			val := new(big.Int).Mul(big.NewInt(int64(1+r.Intn(1000000))), big.NewInt([]int64{1, 1000000000, 1000000000000000000}[r.Intn(3)]))
			o := mkAdd(owner, miner, pick(delegs), lb, b, val.String())
			if r.Chance(5) {
				o.Add.Lb = uint8(4 + r.Intn(252)) // the ledger key takes any byte; the depth comes from lb%4 here
			}
			if r.Chance(10) {
				switch r.Intn(9) {
				case 7, 8:
					o.Add.Epoch += uint32(4 + r.Intn(6)) // epoch ahead of the unlock height: exercises the epoch guard alone
				case 0:
					o.Add.Unlock = uint64(r.Intn(int(E)))
				case 1:
					if len(ts) > 0 {
						t := ts[r.Intn(len(ts))]
						o = LOp{K: "add", Add: &AddA{Owner: t.owner, Miner: t.miner, Deleg: zero20, SenderOk: true, Lb: t.lb, Epoch: t.epoch, Unlock: t.th - 1, Value: "9"}}
					}
				case 2:
					o.Add.Epoch = 0
				case 3:
					o.Add.Value = []string{"0", "-1", "-1000000000000000000000"}[r.Intn(3)]
				case 4:
					o.Add.Value = new(big.Int).Sub(two256, big.NewInt(int64(r.Intn(3)))).String()
				case 5:
					o.Add.SenderOk = false
				case 6:
					o.Add.Unlock += 1 << 32
				}
			}
			ops = append(ops, o)
			ts = append(ts, tranche{o.Add.Owner, o.Add.Miner, o.Add.Lb, o.Add.Epoch, floorE(o.Add.Unlock)})
			if r.Chance(45) {
				b += uint64(r.Intn(int(E / 3)))
			} else if r.Chance(10) {
				b += E
			}
		case 1:
			var t tranche
			if len(ts) > 0 && r.Chance(90) {
				t = ts[r.Intn(len(ts))]
			} else {
				t = tranche{pick(ownersOK), pick(minersQuai), uint8(r.Intn(4)), uint32(1 + r.Intn(20)), b + depths[0]}
			}
			due := t.th
			if uint64(t.epoch)*E > due {
				due = uint64(t.epoch) * E
			}
			var h uint64
			switch r.Pick(10, 14, 8, 8, 6, 6, 30, 10, 8) {
			case 0:
				h = t.th - 1
			case 1:
				h = t.th
			case 2:
				h = t.th + 1
			case 3:
				h = t.th + E
			case 4:
				h = uint64(t.epoch)*E - 1
			case 5:
				h = uint64(t.epoch) * E
			case 6:
				h = due
			case 7:
				h = due + uint64(r.Intn(int(2*E)))
			case 8:
				h = b
			}
			if t.th == 0 && (h > 1<<40) {
				h = b
			}
			caller := t.owner
			if r.Chance(12) {
				caller = pick(ownersOK)
			} else if r.Chance(4) {
				caller = pick(ownersBad)
			}
			mode := r.Pick(52, 14, 14, 20)
			if !validOwner(caller) && mode >= 2 {
				mode = 0
			}
			to := pick(toQuai)
			if t.miner[1] > 127 {
				to = toQi
			}
			if r.Chance(8) {
				to = [][]byte{toQi, toExtQuai, toExtQi, toQuai[0]}[r.Intn(4)]
			}
			o := mkClaim(mode, caller, t.miner, to, t.lb, t.epoch, h)
			if r.Chance(5) {
				o.Claim.Epoch += uint32(r.Intn(3))
			}
			if r.Chance(5) && mode < 2 {
				o.Claim.Gas = uint64(r.Intn(30000))
			}
			ops = append(ops, o)
			if r.Chance(30) {
				o2 := o
				c2 := *o.Claim
				o2.Claim = &c2
				if r.Chance(50) {
					c2.Mode = 0
				}
				ops = append(ops, o2)
			}
		case 2:
			if len(ts) > 0 {
				t := ts[r.Intn(len(ts))]
				ops = append(ops, mkGet(t.owner, t.miner, t.lb, t.epoch))
			}
		case 3:
			if len(ts) > 0 {
				t := ts[r.Intn(len(ts))]
				ops = append(ops, LOp{K: "getlatest", Get: &GetA{Owner: t.owner, Miner: t.miner, Lb: t.lb, Height: b}})
			}
		case 4:
			if r.Chance(40) {
				ops = append(ops, LOp{K: "commit", N: 1}) // with a restart (effective on leveldb)
			} else {
				ops = append(ops, LOp{K: "commit"})
			}
		}
	}
	return ops
}

// ---------------------------------------------------------------- CalculateCoinbaseValueWithLockup

func valueCases(r *hlib.Rng, n int) []Case {
	bpm, bpy := params.BlocksPerMonth, params.BlocksPerYear
	hs := []uint64{0, 1, 2*bpm - 1, 2 * bpm, 2*bpm + 1, bpy - 1, bpy, bpy + 1, 2 * bpy, 3*bpy + 12345, 5*bpy - 1, 5 * bpy, 5*bpy + 1, 10 * bpy}
	vs := []string{"0", "1", "99999", "100000", "100001", "1000000000000000000", new(big.Int).Lsh(big.NewInt(1), 255).String()}
	var cs []Case
	for _, h := range hs {
		for lb := uint8(0); lb < 4; lb++ {
			cs = append(cs, Case{Kind: "value", Value: &ValueIn{V: vs[(int(h%7)+int(lb))%len(vs)], Lb: lb, H: h}})
		}
	}
	for i := 0; i < n; i++ {
		h := uint64(r.Intn(int(7 * bpy)))
		v := new(big.Int).SetUint64(r.Next() >> uint(r.Intn(60)))
		if r.Chance(20) {
			v.Mul(v, new(big.Int).SetUint64(r.Next()))
		}
		cs = append(cs, Case{Kind: "value", Value: &ValueIn{V: v.String(), Lb: uint8(r.Intn(4)), H: h}})
	}
	return cs
}

func runValue(c *Case, rep *hlib.Report) *big.Int {
	v, _ := new(big.Int).SetString(c.Value.V, 10)
	got := params.CalculateCoinbaseValueWithLockup(new(big.Int).Set(v), c.Value.Lb, c.Value.H)
	// monitor: never less than the plain value, never more than the first-year multiple; lock byte 0 unchanged
	if c.Value.Lb == 0 && got.Cmp(v) != 0 {
		rep.Fail("C13/value/lock0-changed", "lock byte 0 must not change the value", c)
	}
	if c.Value.Lb > 0 {
		hi := new(big.Int).Mul(v, new(big.Int).SetUint64(params.LockupByteToRewardsMultiple[c.Value.Lb][0]))
		hi.Div(hi, big.NewInt(100000))
		if got.Cmp(v) < 0 || got.Cmp(hi) > 0 {
			rep.Fail("C13/value/out-of-bounds", fmt.Sprintf("lockup value %v outside [%v,%v]", got, v, hi), c)
		}
	}
	rep.Count(fmt.Sprintf("value/lb%d", c.Value.Lb))
	return got
}

// ---------------------------------------------------------------- RedeemLockedQuai

type redeemOut struct {
	cls     int
	credits []RAcct
	post    []struct {
		addr  []byte
		exist bool
		bal   *big.Int
	}
}

func mkEtx(x REtx, idx int) *types.Transaction {
	to := A(x.To)
	v, _ := new(big.Int).SetString(x.Value, 10)
	t := []uint64{types.CoinbaseType, types.ConversionType, types.DefaultType}[x.Kind]
	return types.NewTx(&types.ExternalTx{To: &to, Sender: to, Value: v, EtxType: t, Data: x.Data, Gas: 21000, OriginatingTxHash: common.Hash{0x13, byte(idx)}, ETXIndex: uint16(idx)})
}

func writeBlock(db ethdb.Database, n uint64, etxs []REtx) {
	wo := types.EmptyWorkObject(common.ZONE_CTX)
	wo.WorkObjectHeader().SetNumber(new(big.Int).SetUint64(n))
	wo.WorkObjectHeader().SetLocation(loc)
	txs := make([]*types.Transaction, len(etxs))
	for i, x := range etxs {
		txs[i] = mkEtx(x, i)
	}
	wo.Body().SetTransactions(txs)
	wo.WorkObjectHeader().SetTxHash(common.Hash{byte(n), byte(n >> 8), byte(len(etxs)), 0x13})
	h := wo.Hash()
	rawdb.WriteTermini(db, h, types.EmptyTermini())
	rawdb.WriteWorkObject(db, h, wo, types.BlockObject, common.ZONE_CTX)
	rawdb.WriteCanonicalHash(db, h, n)
}

func mentioned(in *RedeemIn) [][]byte {
	seen := map[string]bool{}
	var out [][]byte
	for _, b := range in.Blocks {
		for _, x := range b.Etxs {
			if x.To[0] == 0 && !seen[string(x.To)] {
				seen[string(x.To)] = true
				out = append(out, x.To)
			}
		}
	}
	sort.Slice(out, func(i, j int) bool { return string(out[i]) < string(out[j]) })
	return out
}

// runRedeem runs RedeemLockedQuai for one height on a fresh leveldb holding the case's blocks.
func runRedeem(c *Case, dir string, rep *hlib.Report) redeemOut {
	in := c.Redeem
	w := newWorld("leveldb", dir)
	defer w.close()
	for _, b := range in.Blocks {
		writeBlock(w.db, b.Number, b.Etxs)
	}
	for _, a := range in.Pre {
		ia, err := A(a.Addr).InternalAddress()
		if err != nil {
			panic(err)
		}
		v, _ := new(big.Int).SetString(a.Bal, 10)
		w.sdb.AddBalance(ia, v)
	}
	hc := core.VerifC13NewHeaderChain(w.db, &params.ChainConfig{ChainID: big.NewInt(1), Location: loc}, logger)
	hdr := types.EmptyWorkObject(common.ZONE_CTX)
	hdr.WorkObjectHeader().SetNumber(new(big.Int).SetUint64(in.Height))
	parent := types.EmptyWorkObject(common.ZONE_CTX)
	parent.WorkObjectHeader().SetNumber(new(big.Int).SetUint64(in.Height - 1))
	ss, _ := new(big.Int).SetString(in.StateSize, 10)
	parent.Header().SetQuaiStateSize(ss)
	addrs := mentioned(in)
	preBal := map[string]*big.Int{}
	preExist := map[string]bool{}
	for _, a := range addrs {
		ia, _ := A(a).InternalAddress()
		preExist[string(a)] = w.sdb.Exist(ia)
		preBal[string(a)] = new(big.Int).Set(w.sdb.GetBalance(ia))
	}
	var out redeemOut
	var unlocks []common.Unlock
	func() {
		defer func() {
			if e := recover(); e != nil {
				out.cls = 2
			}
		}()
		u, err := core.RedeemLockedQuai(hc, hdr, parent, w.sdb, nil)
		if err != nil {
			out.cls = 1
		}
		unlocks = u
	}()
	rep.Count(fmt.Sprintf("redeem/class%d", out.cls))
	if out.cls != 0 {
		// monitor: with every target block present and only in-zone recipients / valid lock bytes the scan must succeed
		clean := true
		have := map[uint64]bool{}
		for _, b := range in.Blocks {
			have[b.Number] = true
			for _, x := range b.Etxs {
				if x.To[1] <= 127 && (x.To[0] != 0 || (x.Kind == 0 && len(x.Data) == 33 && x.Data[0] > 3)) {
					clean = false
				}
			}
		}
		for _, d := range params.LockupByteToBlockDepth {
			if in.Height > d && !have[in.Height-d] {
				clean = false
			}
		}
		if clean {
			rep.Fail("C13/redeem/refused-on-complete-chain", fmt.Sprintf("height %d: RedeemLockedQuai failed (class %d) although every block at height-depth is present and well formed", in.Height, out.cls), c)
		}
		return out
	}
	for _, u := range unlocks {
		out.credits = append(out.credits, RAcct{Addr: u.Addr.Bytes(), Bal: u.Amt.String()})
	}
	for _, a := range addrs {
		ia, _ := A(a).InternalAddress()
		out.post = append(out.post, struct {
			addr  []byte
			exist bool
			bal   *big.Int
		}{a, w.sdb.Exist(ia), new(big.Int).Set(w.sdb.GetBalance(ia))})
	}
	// ---- monitor: exactly the ETXs of block h-depth(lock byte) are credited, with the adjusted amount, once
	fee := new(big.Int).Mul(new(big.Int).SetUint64(params.CallNewAccountGas(ss)), big.NewInt(params.InitialBaseFee))
	exist := map[string]bool{}
	for k, v := range preExist {
		exist[k] = v
	}
	var want []RAcct
	seenDepth := map[uint64]bool{}
	for _, d := range params.LockupByteToBlockDepth {
		if seenDepth[d] { // each ETX has ONE unlock height: a depth listed twice must not pay twice
			continue
		}
		seenDepth[d] = true
		for _, b := range in.Blocks {
			if b.Number+d != in.Height {
				continue
			}
			for _, x := range b.Etxs {
				if x.To[0] != 0 || x.To[1] > 127 {
					continue
				}
				var amt *big.Int
				v, _ := new(big.Int).SetString(x.Value, 10)
				switch {
				case x.Kind == 0 && len(x.Data) == 33 && x.Data[0] <= 3 && params.LockupByteToBlockDepth[x.Data[0]] == d:
					amt = params.CalculateCoinbaseValueWithLockup(v, x.Data[0], in.Height)
				case x.Kind == 1 && d == params.ConversionLockPeriod:
					amt = v
				default:
					continue
				}
				if !exist[string(x.To)] {
					if amt.Cmp(fee) < 0 {
						continue
					}
					amt = new(big.Int).Sub(amt, fee)
					exist[string(x.To)] = true
				}
				want = append(want, RAcct{Addr: x.To, Bal: amt.String()})
			}
		}
	}
	okc := len(want) == len(out.credits)
	for i := 0; okc && i < len(want); i++ {
		okc = string(want[i].Addr) == string(out.credits[i].Addr) && want[i].Bal == out.credits[i].Bal
	}
	if !okc {
		rep.Fail("C13/redeem/credits", fmt.Sprintf("height %d: credited %v, the ETXs unlocking at this height give %v", in.Height, out.credits, want), c)
	}
	sum := map[string]*big.Int{}
	for _, cr := range out.credits {
		if sum[string(cr.Addr)] == nil {
			sum[string(cr.Addr)] = new(big.Int)
		}
		v, _ := new(big.Int).SetString(cr.Bal, 10)
		sum[string(cr.Addr)].Add(sum[string(cr.Addr)], v)
	}
	for _, p := range out.post {
		d := new(big.Int).Sub(p.bal, preBal[string(p.addr)])
		s := sum[string(p.addr)]
		if s == nil {
			s = big0
		}
		if d.Cmp(s) != 0 {
			rep.Fail("C13/redeem/balance-delta", fmt.Sprintf("address %x balance moved by %v, credits say %v", p.addr, d, s), c)
		}
	}
	return out
}

func genRedeemWindow(r *hlib.Rng) []Case {
	bpy, bpm := params.BlocksPerYear, params.BlocksPerMonth
	var h0 uint64
	switch r.Pick(6, 20, 15, 15, 30, 14) {
	case 0:
		h0 = 1 + uint64(r.Intn(int(depths[0])))
	case 1:
		h0 = depths[0] + 1 + uint64(r.Intn(int(depths[1]-depths[0])))
	case 2:
		h0 = 2*bpm - 2 + uint64(r.Intn(4))
	case 3:
		h0 = depths[[]int{0, 1, 2, 3}[r.Intn(4)]] - 1 + uint64(r.Intn(3))
	case 4:
		h0 = depths[3] + 1 + uint64(r.Intn(int(5*bpy)))
	case 5:
		h0 = []uint64{bpy, 2 * bpy, 5 * bpy, 5*bpy + 1}[r.Intn(4)] + uint64(r.Intn(3))
	}
	tos := [][]byte{ad(0, 0x20, 1), ad(0, 0x20, 2), ad(0, 0x21, 3), ad(0, 0x22, 4)}
	ssz := []string{"0", "1000000", "4000000000", "1000000000000000"}[r.Intn(4)]
	ss, _ := new(big.Int).SetString(ssz, 10)
	fee := new(big.Int).Mul(new(big.Int).SetUint64(params.CallNewAccountGas(ss)), big.NewInt(params.InitialBaseFee))
	existing := map[string]*big.Int{}
	for _, a := range tos {
		if r.Chance(35) {
			existing[string(a)] = big.NewInt(int64(r.Intn(3)) * 1000)
		}
	}
	var cs []Case
	nh := 2 + r.Intn(3)
	for i := 0; i < nh; i++ {
		h := h0 + uint64(i)
		in := &RedeemIn{Height: h, StateSize: ssz}
		missing := r.Chance(4)
		for di, d := range depths {
			if h <= d {
				continue
			}
			if missing && r.Chance(50) {
				missing = false
				continue
			}
			var etxs []REtx
			for j := r.Intn(5); j > 0; j-- {
				x := REtx{To: tos[r.Intn(len(tos))]}
				switch r.Pick(70, 20, 10) {
				case 0:
					x.Kind = 0
					lb := byte(di)
					if r.Chance(25) {
						lb = byte(r.Intn(4))
					}
					dl := []int{33, 33, 33, 33, 53, 73, 1, 34, 0}[r.Intn(9)]
					x.Data = make([]byte, dl)
					if dl > 0 {
						x.Data[0] = lb
					}
				case 1:
					x.Kind = 1
					x.Data = []byte{byte(r.Intn(4))}
				case 2:
					x.Kind = 2
					x.Data = append([]byte{byte(di)}, make([]byte, 32)...)
				}
				switch r.Pick(50, 20, 15, 15) {
				case 0:
					x.Value = new(big.Int).Mul(big.NewInt(int64(1+r.Intn(100000))), big.NewInt(1000000000000)).String()
				case 1:
					x.Value = new(big.Int).Add(fee, big.NewInt(int64(r.Intn(3))-1)).String()
				case 2:
					x.Value = big.NewInt(int64(r.Intn(100000))).String()
				case 3:
					x.Value = "0"
				}
				if x.Value[0] == '-' {
					x.Value = "0"
				}
				if r.Chance(6) {
					x.To = toQi
				} else if r.Chance(2) {
					x.To = toExtQuai
				}
				etxs = append(etxs, x)
			}
			in.Blocks = append(in.Blocks, RBlock{Number: h - d, Etxs: etxs})
			// decoys right next to the target block: they would pay if the scan were off by one
			for _, off := range []uint64{0, 2} {
				if nb := h - d - 1 + off; r.Chance(25) && nb >= 1 {
					data := make([]byte, 33)
					data[0] = byte(di)
					in.Blocks = append(in.Blocks, RBlock{Number: nb, Etxs: []REtx{
						{Kind: 0, To: tos[r.Intn(len(tos))], Data: data, Value: "31337000000000000"},
						{Kind: 1, To: tos[r.Intn(len(tos))], Data: []byte{0}, Value: "4242000000000000"}}})
				}
			}
		}
		for _, a := range tos {
			if b, ok := existing[string(a)]; ok {
				in.Pre = append(in.Pre, RAcct{Addr: a, Bal: b.String()})
			}
		}
		cs = append(cs, Case{Kind: "redeem", Redeem: in})
		// carry existence/balances to the next height the way a chain would: credited accounts exist afterwards
		for _, b := range in.Blocks {
			for _, x := range b.Etxs {
				if x.To[0] == 0 && x.To[1] <= 127 && r.Chance(40) {
					if _, ok := existing[string(x.To)]; !ok {
						existing[string(x.To)] = big.NewInt(int64(r.Intn(2)) * 5)
					}
				}
			}
		}
	}
	return cs
}

func redeemCorpus() []Case {
	d := depths
	t1, t2 := ad(0, 0x20, 1), ad(0, 0x20, 2)
	cb := func(to []byte, lb byte, dl int, v string) REtx {
		x := REtx{Kind: 0, To: to, Data: make([]byte, dl), Value: v}
		if dl > 0 {
			x.Data[0] = lb
		}
		return x
	}
	h := d[3] + 1000
	all := func(hh uint64, f func(i int) []REtx) []RBlock {
		var bs []RBlock
		for i, dd := range d {
			if hh > dd {
				bs = append(bs, RBlock{Number: hh - dd, Etxs: f(i)})
			}
		}
		return bs
	}
	var cs []Case
	// every lock byte credited from its own block only; wrong lock bytes in the other blocks are ignored
	cs = append(cs, Case{Kind: "redeem", Tag: "each-lockbyte", Redeem: &RedeemIn{Height: h, StateSize: "0", Blocks: all(h, func(i int) []REtx {
		return []REtx{cb(t1, byte(i), 33, "1000000000000000000"), cb(t2, byte((i+1)%4), 33, "5"), cb(t1, byte(i), 53, "7"), cb(t1, byte(i), 73, "7"),
			{Kind: 1, To: t2, Data: []byte{0}, Value: "900"}}
	})}})
	// account creation fee: new account pays once, second credit in the same scan does not; too-small reward skipped; exact fee -> zero credit
	ss := "1000000000000000"
	ssb, _ := new(big.Int).SetString(ss, 10)
	fee := new(big.Int).SetUint64(params.CallNewAccountGas(ssb))
	f1 := new(big.Int).Sub(fee, big.NewInt(1)).String()
	cs = append(cs, Case{Kind: "redeem", Tag: "creation-fee", Redeem: &RedeemIn{Height: d[0] + 5, StateSize: ss, Blocks: []RBlock{{Number: 5, Etxs: []REtx{
		cb(t1, 0, 33, f1), cb(t1, 0, 33, fee.String()), cb(t1, 0, 33, f1), cb(t2, 0, 33, new(big.Int).Mul(fee, big.NewInt(3)).String()), cb(t2, 0, 33, "1"),
		{Kind: 1, To: ad(0, 0x21, 3), Data: nil, Value: f1}, {Kind: 1, To: ad(0, 0x21, 3), Data: nil, Value: new(big.Int).Add(fee, big.NewInt(9)).String()},
	}}}, Pre: nil}})
	// height exactly at a depth: not looked at; one above: block 1
	cs = append(cs, Case{Kind: "redeem", Tag: "at-depth", Redeem: &RedeemIn{Height: d[0], StateSize: "0", Blocks: nil}})
	cs = append(cs, Case{Kind: "redeem", Tag: "depth+1", Redeem: &RedeemIn{Height: d[0] + 1, StateSize: "0", Blocks: []RBlock{{Number: 1, Etxs: []REtx{cb(t1, 0, 33, "88"), cb(t1, 1, 33, "99")}}}}})
	// missing target block -> error; external recipient -> error; lock byte out of range -> index panic (Process rejects such blocks earlier)
	cs = append(cs, Case{Kind: "redeem", Tag: "missing-block", Redeem: &RedeemIn{Height: d[1] + 9, StateSize: "0", Blocks: []RBlock{{Number: d[1] + 9 - d[0], Etxs: nil}}}})
	cs = append(cs, Case{Kind: "redeem", Tag: "external-to", Redeem: &RedeemIn{Height: d[0] + 9, StateSize: "0", Blocks: []RBlock{{Number: 9, Etxs: []REtx{cb(t1, 0, 33, "5"), cb(toExtQuai, 0, 33, "5")}}}}})
	cs = append(cs, Case{Kind: "redeem", Tag: "lockbyte-out-of-range", Redeem: &RedeemIn{Height: d[0] + 9, StateSize: "0", Blocks: []RBlock{{Number: 9, Etxs: []REtx{cb(t1, 4, 33, "5")}}}}})
	// multiplier uses the redeeming height: year 0 / year 3 / year 6
	for _, hh := range []uint64{2*params.BlocksPerMonth + d[1], 3*params.BlocksPerYear + 77 + d[3], 6*params.BlocksPerYear + d[3]} {
		hh := hh
		cs = append(cs, Case{Kind: "redeem", Tag: "multiplier", Redeem: &RedeemIn{Height: hh, StateSize: "0", Pre: []RAcct{{Addr: t1, Bal: "1"}}, Blocks: all(hh, func(i int) []REtx {
			return []REtx{cb(t1, byte(i), 33, "123456789012345678901")}
		})}})
	}
	return cs
}

func (c *Case) redeemCoq(out redeemOut) string {
	in := c.Redeem
	var bl []string
	for _, b := range in.Blocks {
		var xs []string
		for _, x := range b.Etxs {
			v, _ := new(big.Int).SetString(x.Value, 10)
			lk := 0
			if len(x.Data) > 0 {
				lk = int(x.Data[0])
			}
			xs = append(xs, fmt.Sprintf("mkRetx %s %s %d %d %s", []string{"KCoinbase", "KConversion", "KOther"}[x.Kind], caddr(x.To), len(x.Data), lk, cz(v)))
		}
		bl = append(bl, fmt.Sprintf("(%d, %s)", b.Number, hlib.CoqList(xs)))
	}
	ss, _ := new(big.Int).SetString(in.StateSize, 10)
	fee := new(big.Int).Mul(new(big.Int).SetUint64(params.CallNewAccountGas(ss)), big.NewInt(params.InitialBaseFee))
	var pre, cr, post []string
	for _, a := range in.Pre {
		v, _ := new(big.Int).SetString(a.Bal, 10)
		pre = append(pre, hlib.CoqPair(caddr(a.Addr), cz(v)))
	}
	for _, a := range out.credits {
		v, _ := new(big.Int).SetString(a.Bal, 10)
		cr = append(cr, hlib.CoqPair(caddr(a.Addr), cz(v)))
	}
	for _, p := range out.post {
		if p.exist {
			post = append(post, hlib.CoqPair(caddr(p.addr), "Some "+cz(p.bal)))
		} else {
			post = append(post, hlib.CoqPair(caddr(p.addr), "None"))
		}
	}
	return fmt.Sprintf("CRedeem %s %d %s %s %d %s %s", hlib.CoqList(bl), in.Height, cz(fee), hlib.CoqList(pre), out.cls, hlib.CoqList(cr), hlib.CoqList(post))
}

// ---------------------------------------------------------------- main

const header = `From Coq Require Import List NArith ZArith.
From GQ Require Import Model.C13.
Import ListNotations.
Local Open Scope N_scope.
Definition ad (a b c : N) : list N := [a;b;c;0;0;0;0;0;0;0;0;0;0;0;0;0;0;0;0;c].
Definition z20 : list N := [0;0;0;0;0;0;0;0;0;0;0;0;0;0;0;0;0;0;0;0].
`

func main() {
	f := hlib.ParseFlags()
	logger = hlib.QuietLogs()
	logger.SetLevel(0) // panic level only: AddNewLock logs every call at Info
	vm.InitializePrecompiles(loc)
	E = params.CoinbaseEpochBlocks
	depths = params.LockupByteToBlockDepth
	rep := hlib.NewReport("C13", "non-trivial = a ledger history in which at least one claim pays a positive accumulated balance or a tranche accumulates >= 2 rewards (fingerprint: op kinds + verdicts), or a redemption that credits at least one account (fingerprint: height class + credit count + classes), or a block tree in which VerifyUncles accepts at least one block with shares and refuses at least one re-listing as duplicate (fingerprint: verdict sequence)")
	cw := hlib.NewCaseWriter(f.Out, header, "C13.case", 40)
	tmp, err := os.MkdirTemp("", "c13_")
	if err != nil {
		panic(err)
	}
	defer os.RemoveAll(tmp)

	runCase := func(c *Case) {
		rep.Evaluations++
		var body, fp string
		nontriv := false
		switch c.Kind {
		case "ledger":
			outs := runLedger(c, tmp, rep)
			items := make([]string, len(outs))
			var sb strings.Builder
			acc := 0
			for i, o := range c.Ops {
				items[i] = "(" + o.Coq() + ", " + outs[i].Coq() + ")"
				sb.WriteString(o.K[:1] + outs[i].Short())
				if o.K == "claim" {
					sb.WriteString(fmt.Sprint(o.Claim.Mode))
				}
				if outs[i].Paid != nil && outs[i].Paid.Value.Sign() > 0 {
					nontriv = true
				}
				if outs[i].Kind == "add" && outs[i].Deleted {
					acc++
				}
			}
			nontriv = nontriv || acc > 0
			body = "CLedger " + hlib.CoqList(items)
			fp = "L:" + sb.String()
			rep.Count("case/ledger/" + c.Backend)
			rep.Count(fmt.Sprintf("ledger_len/%02d-%02d", len(c.Ops)/8*8, len(c.Ops)/8*8+7))
		case "value":
			got := runValue(c, rep)
			v, _ := new(big.Int).SetString(c.Value.V, 10)
			body = fmt.Sprintf("CValue %s %d %d %s", cz(v), c.Value.Lb, c.Value.H, cz(got))
			nontriv = got.Cmp(v) != 0
			fp = fmt.Sprintf("V:%d:%d:%v", c.Value.Lb, c.Value.H/params.BlocksPerMonth, got.Cmp(v))
			rep.Count("case/value")
		case "redeem":
			out := runRedeem(c, tmp, rep)
			body = c.redeemCoq(out)
			nontriv = len(out.credits) > 0
			fp = fmt.Sprintf("R:%d:%d:%d", c.Redeem.Height/params.BlocksPerMonth, len(out.credits), out.cls)
			rep.Count("case/redeem")
			rep.Count(fmt.Sprintf("redeem_credits/%d", len(out.credits)))
		case "uncles":
			out := runUncles(c, rep)
			body = "CUncles " + hlib.CoqList(out.steps)
			nontriv = out.accepted > 0 && out.dupRej > 0
			fp = "U:" + fmt.Sprint(out.verdicts)
			rep.Count("case/uncles")
		case "discount":
			cls, got, eff := runDiscount(c, rep)
			rw, _ := new(big.Int).SetString(c.Disc.Reward, 10)
			body = fmt.Sprintf("CDiscount %d %d %d %s %d %s", eff.Pid, eff.Ts, eff.Sig, cz(rw), cls, cz(got))
			nontriv = cls == 0 && got.Sign() > 0 && got.Cmp(rw) < 0
			fp = fmt.Sprintf("D:%d:%s", eff.Pid, discClass(eff))
			rep.Count("case/discount")
		default:
			panic("kind " + c.Kind)
		}
		if nontriv {
			rep.Nontrivial(fp)
		}
		rep.Sample(c)
		rep.TracesValidated++
		cw.Add(fmt.Sprintf("(%d, %s)", c.ID, body), c)
	}

	if f.Replay != "" {
		var c Case
		hlib.ReadReplayCase(f.Replay, &c)
		runCase(&c)
		cw.Close()
		rep.Write(f.Out)
		return
	}

	r := hlib.NewRng(f.Seed)
	id := 0
	next := func(c Case) {
		id++
		c.ID = id
		runCase(&c)
	}
	for _, c := range corpus() {
		next(c)
	}
	for _, c := range redeemCorpus() {
		next(c)
	}
	for _, c := range valueCases(r.Fork(), f.N/2) {
		next(c)
	}
	for _, c := range unclesCorpus() {
		next(c)
	}
	rl := r.Fork()
	for i := 0; i < f.N; i++ {
		be := "memorydb"
		if rl.Chance(35) {
			be = "leveldb"
		}
		if rl.Chance(30) {
			next(Case{Kind: "ledger", Backend: be, Tag: "blocks", Ops: genReorgHistory(rl)})
		} else {
			next(Case{Kind: "ledger", Backend: be, Ops: genHistory(rl)})
		}
	}
	rr := r.Fork()
	for i := 0; i < f.N/3; i++ {
		for _, c := range genRedeemWindow(rr) {
			next(c)
		}
	}
	ru := r.Fork()
	for i := 0; i < f.N/2; i++ {
		next(genUncles(ru))
	}
	for _, c := range discountCases(r.Fork(), f.N) { // forked last: the streams of the older generators are unchanged
		next(c)
	}
	cw.Close()
	rep.Note(fmt.Sprintf("params: depths=%v epoch=%d conversionLock=%d", depths, E, params.ConversionLockPeriod))
	rep.Write(f.Out)
}

// C13 harness, workshare inclusion: "a workshare can be included - and so rewarded - at most once
// on any chain".
//
// Drives the REAL core.HeaderChain.VerifyUncles (with WorkShareDistance, CalcDifficulty,
// VerifySeal / UncleWorkShareClassification, CheckPowIdValidity*) on a zone HeaderChain built by the
// hook core.VerifC08NewHeaderChain over a memory database, with a stub proof-of-work engine whose
// hash is the header's mix hash (so that every share carries its own PoW grade).  Blocks are real
// WorkObjects written with hc.WriteBlock and read back by the code under test through
// GetHeaderByHash / GetWorkObjectWithWorkShares / GetBlockByHash.
//
// A case is a tree of blocks grown step by step: every step offers a candidate block (parent = one
// of the blocks stored so far, uncle list = fresh shares mined on one of its ancestors, shares
// listed before - by the parent, the grandparent, an older ancestor inside or outside the inclusion
// window, another branch, the same block -, headers of ancestor blocks, malformed shares) to
// VerifyUncles; an accepted candidate is stored and can be built upon.  The same candidate is also
// offered with the prime terminus number of every later fork regime (KawPow classification,
// inclusion depth 4, Singularity share count) as probes that are never stored.
package main

import (
	"errors"
	"fmt"
	"math/big"
	"strings"

	"github.com/dominant-strategies/go-quai/common"
	"github.com/dominant-strategies/go-quai/consensus"
	"github.com/dominant-strategies/go-quai/core"
	"github.com/dominant-strategies/go-quai/core/rawdb"
	"github.com/dominant-strategies/go-quai/core/types"
	"github.com/dominant-strategies/go-quai/params"

	"verifharness/hlib"
)

// ---------------------------------------------------------------- case description

type UShareSpec struct {
	Kind string `json:"kind"`          // fresh | dup | anc
	Up   int    `json:"up,omitempty"`  // fresh: mined on the Up-th ancestor of the candidate (1 = its parent); anc: header of the Up-th ancestor
	Pow  int    `json:"pow,omitempty"` // fresh: 0 block grade, 1 share grade, 2 below the share threshold, 3 no work
	Mut  string `json:"mut,omitempty"` // fresh: one malformed field
	Ref  int    `json:"ref,omitempty"` // dup: index (mod count) into the fresh shares created so far in this case
}
type UStep struct {
	Back   int          `json:"back"` // parent = the Back-th most recently stored block (0 = tip)
	Shares []UShareSpec `json:"shares"`
}
type UnclesIn struct {
	BaseLen int      `json:"base_len"` // plain blocks stored before the first step
	BaseNum uint64   `json:"base_num"` // number of the first base block
	Ptn     uint64   `json:"ptn"`      // prime terminus number of all stored blocks and of their shares
	Probes  []uint64 `json:"probes"`   // further prime terminus numbers every candidate is offered with
	Steps   []UStep  `json:"steps"`
}

// ---------------------------------------------------------------- the world

type uEngine struct{}

func (uEngine) Seal(*types.WorkObject, chan<- *types.WorkObject, <-chan struct{}) error { return nil }
func (uEngine) ComputePowHash(h *types.WorkObjectHeader) (common.Hash, error) {
	return h.MixHash(), nil
}
func (uEngine) ComputePowLight(h *types.WorkObjectHeader) (common.Hash, common.Hash) {
	return common.Hash{}, h.MixHash()
}
func (uEngine) SetThreads(int) {}

type ublock struct {
	wo     *types.WorkObject
	parent *ublock // nil for the first base block
	shares []*types.WorkObjectHeader
}

type uworld struct {
	hc     *core.HeaderChain
	ids    map[common.Hash]uint64
	stored []*ublock
	fresh  []*types.WorkObjectHeader
	salt   uint64
}

const uShareThreshold = 5 // powConfig.WorkShareThreshold: sub-shares reach 2^5 targets

func (w *uworld) id(h common.Hash) uint64 {
	if x, ok := w.ids[h]; ok {
		return x
	}
	x := uint64(len(w.ids) + 1)
	w.ids[h] = x
	return x
}

func uCoinbase(qi bool) common.Address {
	b := make([]byte, 20)
	b[19] = 0x11
	if qi {
		b[1] = 0x80
	}
	return common.BytesToAddress(b, loc)
}

func gradeHash(diff *big.Int, grade int) common.Hash {
	t := new(big.Int).Div(two256, diff)
	var x *big.Int
	switch grade {
	case 0:
		x = new(big.Int).Rsh(t, 1)
	case 1:
		x = new(big.Int).Mul(t, big.NewInt(4)) // <= target * 2^WorkSharesThresholdDiff
	case 2:
		x = new(big.Int).Mul(t, big.NewInt(20)) // <= target * 2^uShareThreshold
	default:
		x = new(big.Int).Mul(t, big.NewInt(1000))
	}
	return common.BytesToHash(x.Bytes())
}

// mkHeader: a zone work object header on top of `parent` (nil: unknown parent hash).
func (w *uworld) mkHeader(parent *types.WorkObject, unknownParent common.Hash, num uint64, ptn uint64, grade int, uncles []*types.WorkObjectHeader) *types.WorkObject {
	w.salt++
	wo := types.EmptyWorkObject(common.ZONE_CTX)
	wo.Header().SetExtra([]byte{byte(w.salt), byte(w.salt >> 8)})
	if len(uncles) > 0 {
		wo.Header().SetUncleHash(types.CalcUncleHash(uncles))
	} else {
		wo.Header().SetUncleHash(types.EmptyUncleHash)
	}
	wo.Body().SetUncles(uncles)
	h := wo.WorkObjectHeader()
	diff := big.NewInt(1000000)
	tm := uint64(1000)
	if parent != nil {
		h.SetParentHash(parent.Hash())
		diff = w.hc.CalcDifficulty(parent.WorkObjectHeader(), parent.ExpansionNumber())
		tm = parent.Time() + 4 + w.salt%3
	} else {
		h.SetParentHash(unknownParent)
	}
	h.SetNumber(new(big.Int).SetUint64(num))
	h.SetDifficulty(diff)
	h.SetPrimeTerminusNumber(new(big.Int).SetUint64(ptn))
	h.SetLocation(loc)
	h.SetTime(tm)
	h.SetLock(0)
	h.SetData([]byte{0})
	h.SetPrimaryCoinbase(uCoinbase(false))
	h.SetNonce(types.EncodeNonce(w.salt))
	h.SetMixHash(gradeHash(diff, grade))
	h.SetHeaderHash(wo.Header().Hash())
	return wo
}

func (w *uworld) store(b *ublock) {
	rawdb.WriteTermini(w.hc.Database(), b.wo.Hash(), types.EmptyTermini())
	w.hc.WriteBlock(b.wo)
	w.stored = append(w.stored, b)
	w.id(b.wo.Hash())
}

// ancestor k of a candidate whose parent is p (k = 1: p itself)
func ancestorOf(p *ublock, k int) *ublock {
	for ; p != nil && k > 1; k-- {
		p = p.parent
	}
	return p
}

func (w *uworld) mutate(h *types.WorkObjectHeader, mut string, diff *big.Int) {
	ext := make([]byte, 20)
	ext[0] = 0x10
	ext[19] = 7
	intl := make([]byte, 20)
	intl[19] = 9
	qiA := make([]byte, 20)
	qiA[1] = 0x90
	switch mut {
	case "lock1":
		h.SetLock(1)
	case "data-empty":
		h.SetData([]byte{})
	case "data-lock9":
		h.SetData([]byte{9})
	case "data-lock3":
		h.SetData([]byte{3})
	case "contract-ok":
		h.SetData(append([]byte{1}, intl...))
	case "contract-ext":
		h.SetData(append([]byte{1}, ext...))
	case "contract-qi":
		h.SetData(append([]byte{1}, qiA...))
	case "benef-ok":
		h.SetData(append(append([]byte{2}, intl...), intl...))
	case "benef-ext":
		h.SetData(append(append([]byte{2}, intl...), ext...))
	case "data-33":
		h.SetData(append(append([]byte{0}, intl...), make([]byte, 12)...))
	case "qi":
		h.SetPrimaryCoinbase(uCoinbase(true))
	case "diff+1":
		h.SetDifficulty(new(big.Int).Add(diff, big.NewInt(1)))
	case "num+1":
		h.SetNumber(new(big.Int).Add(h.Number(), big.NewInt(1)))
	case "num-1":
		h.SetNumber(new(big.Int).Sub(h.Number(), big.NewInt(1)))
	case "ptn+1":
		h.SetPrimeTerminusNumber(new(big.Int).Add(h.PrimeTerminusNumber(), big.NewInt(1)))
	case "ptn-late":
		h.SetPrimeTerminusNumber(new(big.Int).SetUint64(params.KawPowForkBlock + params.KawPowTransitionPeriod + 5))
	}
}

var uMuts = []string{"lock1", "data-empty", "data-lock9", "data-lock3", "contract-ok", "contract-ext", "contract-qi", "benef-ok", "benef-ext", "data-33", "qi", "diff+1", "num+1", "num-1", "ptn+1", "ptn-late"}

// harmless mutations: the share stays valid in every regime the harness uses
func mutHarmless(m string, shareNum uint64) bool {
	switch m {
	case "", "data-lock3", "contract-ok", "benef-ok", "data-33":
		return true
	case "lock1":
		return shareNum >= 2*params.BlocksPerMonth
	}
	return false
}

func uDepth(ptn uint64) int {
	if ptn >= params.InclusionDepthChangeBlock {
		return params.NewWorkSharesInclusionDepth
	}
	return params.WorkSharesInclusionDepth
}
func uMaxCount(ptn uint64) int {
	if ptn >= params.SingularityForkBlock {
		return params.NewMaxWorkShareCount
	}
	return params.MaxWorkShareCount
}

func uVerdict(err error, panicked string) int {
	switch {
	case panicked != "":
		return 7
	case err == nil:
		return 0
	case errors.Is(err, consensus.ErrTooManyUncles):
		return 1
	case errors.Is(err, consensus.ErrDuplicateUncle):
		return 2
	case errors.Is(err, consensus.ErrUncleIsAncestor):
		return 3
	case errors.Is(err, consensus.ErrDanglingUncle):
		return 4
	case errors.Is(err, consensus.ErrInvalidNumber):
		return 5
	}
	return 6
}

var uVerdictName = []string{"ok", "too-many", "duplicate", "is-ancestor", "dangling", "number", "other", "panic"}

func (w *uworld) coqShare(s *types.WorkObjectHeader) string {
	seal := false
	cls := types.Invalid
	diffOK := false
	func() {
		defer func() { recover() }()
		_, err := w.hc.VerifySeal(s)
		seal = err == nil
		cls = w.hc.UncleWorkShareClassification(s)
		if p := w.hc.GetBlockByHash(s.ParentHash()); p != nil {
			diffOK = w.hc.CalcDifficulty(p.WorkObjectHeader(), p.ExpansionNumber()).Cmp(s.Difficulty()) == 0
		}
	}()
	c := "PInvalid"
	switch cls {
	case types.Block:
		c = "PBlock"
	case types.Valid:
		c = "PValid"
	case types.Sub:
		c = "PSub"
	}
	return fmt.Sprintf("mkShare %d %d %d %d %s %s %d %s %s %s", w.id(s.Hash()), w.id(s.ParentHash()), s.NumberU64(), s.PrimeTerminusNumber().Uint64(),
		hlib.CoqBool(s.PrimaryCoinbase().IsInQiLedgerScope()), hlib.CoqBytes(s.Data()), s.Lock(), hlib.CoqBool(seal), c, hlib.CoqBool(diffOK))
}

func (w *uworld) coqBlk(b *types.WorkObject, shares []string) string {
	return fmt.Sprintf("mkBlk %d %d %d %d %s", w.id(b.Hash()), w.id(b.ParentHash(common.ZONE_CTX)), b.NumberU64(common.ZONE_CTX), b.PrimeTerminusNumber().Uint64(), hlib.CoqList(shares))
}

type unclesOut struct {
	steps    []string
	verdicts []int // of the main variants
	accepted int
	dupRej   int
}

func runUncles(c *Case, rep *hlib.Report) unclesOut {
	in := c.Uncles
	var out unclesOut
	w := &uworld{ids: map[common.Hash]uint64{}}
	w.hc = core.VerifC08NewHeaderChain(rawdb.NewMemoryDatabase(logger), loc, params.ModeNormal, uShareThreshold,
		[]consensus.Engine{uEngine{}, uEngine{}}, nil, logger)
	fail := func(sig, what string) { rep.Fail(sig, what, c) }

	// base chain: plain blocks; the parent of the first one is unknown to the database
	var prev *ublock
	for i := 0; i < in.BaseLen; i++ {
		var wo *types.WorkObject
		if prev == nil {
			wo = w.mkHeader(nil, common.Hash{0xba, 0x5e}, in.BaseNum, in.Ptn, 1, nil)
		} else {
			wo = w.mkHeader(prev.wo, common.Hash{}, prev.wo.NumberU64(common.ZONE_CTX)+1, in.Ptn, 1, nil)
		}
		b := &ublock{wo: wo, parent: prev}
		w.store(b)
		out.steps = append(out.steps, fmt.Sprintf("(%s, 0, true)", w.coqBlk(wo, nil)))
		prev = b
	}
	if len(w.stored) == 0 {
		return out
	}

	for si, st := range in.Steps {
		back := st.Back
		if back < 0 {
			back = 0
		}
		if back >= len(w.stored) {
			back = len(w.stored) - 1
		}
		parent := w.stored[len(w.stored)-1-back]
		num := parent.wo.NumberU64(common.ZONE_CTX) + 1

		// the uncle list
		var uncles []*types.WorkObjectHeader
		var kinds []string
		clean := true // every share is, by construction, fresh on this chain, well formed and mined inside the smallest window
		maxUp := 0
		for _, sp := range st.Shares {
			switch sp.Kind {
			case "fresh":
				up := sp.Up
				if up < 1 {
					up = 1
				}
				anc := ancestorOf(parent, up)
				var s *types.WorkObject
				if anc != nil {
					s = w.mkHeader(anc.wo, common.Hash{}, anc.wo.NumberU64(common.ZONE_CTX)+1, anc.wo.PrimeTerminusNumber().Uint64(), sp.Pow, nil)
				} else {
					s = w.mkHeader(nil, common.Hash{0xde, 0xad, byte(si), byte(up)}, num, in.Ptn, sp.Pow, nil)
				}
				h := types.CopyWorkObjectHeader(s.WorkObjectHeader())
				w.mutate(h, sp.Mut, s.Difficulty())
				if !mutHarmless(sp.Mut, h.NumberU64()) || anc == nil {
					clean = false
				}
				if sp.Pow >= 2 || (sp.Pow == 0 && up == 1) {
					clean = false // below the share threshold (refused after the KawPow fork) / a sibling BLOCK (refused)
				}
				if up > maxUp {
					maxUp = up
				}
				w.fresh = append(w.fresh, h)
				uncles = append(uncles, h)
				kinds = append(kinds, "fresh")
				rep.Count(fmt.Sprintf("uncles/share/fresh/up%d", up))
				if sp.Mut != "" {
					rep.Count("uncles/share/mut/" + sp.Mut)
				}
			case "dup":
				clean = false
				if len(w.fresh) == 0 {
					continue
				}
				r := sp.Ref % len(w.fresh)
				if r < 0 {
					r += len(w.fresh)
				}
				uncles = append(uncles, types.CopyWorkObjectHeader(w.fresh[r]))
				kinds = append(kinds, "dup")
			case "anc":
				clean = false
				if a := ancestorOf(parent, sp.Up); a != nil {
					uncles = append(uncles, types.CopyWorkObjectHeader(a.wo.WorkObjectHeader()))
					kinds = append(kinds, "anc")
					rep.Count(fmt.Sprintf("uncles/share/ancestor-header/up%d", sp.Up))
				}
			}
		}

		// where was each share listed before (the harness's own bookkeeping of the tree)?
		pathLen := 0
		for a := parent; a != nil; a = a.parent {
			pathLen++
		}
		type prior struct {
			dist    int  // 0: not on this chain
			inBlock bool // listed twice in this block
			isBlock int  // hash of the ancestor at this distance (0: none)
			parentK int  // the share's parent is the k-th ancestor (0: not an ancestor of the candidate)
		}
		pri := make([]prior, len(uncles))
		seen := map[common.Hash]bool{}
		for i, u := range uncles {
			hsh := u.Hash()
			if seen[hsh] {
				pri[i].inBlock = true
			}
			seen[hsh] = true
			k := 1
			for a := parent; a != nil; a, k = a.parent, k+1 {
				if pri[i].dist == 0 {
					for _, x := range a.shares {
						if x.Hash() == hsh {
							pri[i].dist = k
						}
					}
				}
				if a.wo.Hash() == hsh && pri[i].isBlock == 0 {
					pri[i].isBlock = k
				}
				if a.wo.Hash() == u.ParentHash() && pri[i].parentK == 0 {
					pri[i].parentK = k
				}
			}
			switch {
			case pri[i].inBlock:
				rep.Count("uncles/share/relisted/in-the-same-block")
			case pri[i].dist > 0:
				rep.Count(fmt.Sprintf("uncles/share/relisted/by-ancestor-%d", pri[i].dist))
			case kinds[i] == "dup":
				rep.Count("uncles/share/relisted/from-another-branch-or-never-stored")
			}
		}

		shareTerms := make([]string, len(uncles))
		for i, u := range uncles {
			shareTerms[i] = w.coqShare(u)
		}

		ptns := append([]uint64{in.Ptn}, in.Probes...)
		for vi, ptn := range ptns {
			cand := w.mkHeader(parent.wo, common.Hash{}, num, ptn, 1, uncles)
			var err error
			pan := ""
			func() {
				defer func() {
					if r := recover(); r != nil {
						pan = fmt.Sprint(r)
					}
				}()
				err = w.hc.VerifyUncles(cand)
			}()
			v := uVerdict(err, pan)
			depth, maxc := uDepth(ptn), uMaxCount(ptn)
			regime := fmt.Sprintf("depth%d-max%d-kawpow%v", depth, maxc, ptn >= params.KawPowForkBlock)
			rep.Count("uncles/verdict/" + regime + "/" + uVerdictName[v])
			main := vi == 0
			storeIt := main && v == 0
			out.steps = append(out.steps, fmt.Sprintf("(%s, %d, %s)", w.coqBlk(cand, shareTerms), v, hlib.CoqBool(storeIt)))
			if main {
				out.verdicts = append(out.verdicts, v)
				if v == 2 {
					out.dupRej++
				}
			}
			where := fmt.Sprintf("step %d (%s, block %d with %d shares)", si, regime, num, len(uncles))
			if pan != "" {
				fail("C13/uncles/panic", where+": VerifyUncles panicked: "+strings.SplitN(pan, "\n", 2)[0])
				continue
			}
			// ---- monitors: the property itself, from the harness's bookkeeping of the tree
			if v == 0 {
				if len(uncles) > maxc {
					fail("C13/uncles/too-many-shares-accepted", fmt.Sprintf("%s: %d shares accepted, limit %d", where, len(uncles), maxc))
				}
				for i, u := range uncles {
					p := pri[i]
					if p.inBlock {
						fail("C13/uncles/share-listed-twice/in-one-block", fmt.Sprintf("%s: share %x is listed twice in the block and the block is accepted: it would be paid twice", where, u.Hash().Bytes()[:6]))
					}
					if p.dist > 0 {
						k := p.dist
						cls := "beyond-the-window"
						if k <= depth {
							cls = []string{"", "parent", "grandparent", "ancestor-3", "ancestor-4"}[k]
						}
						fail("C13/uncles/share-listed-twice/by-"+cls, fmt.Sprintf("%s: share %x was already listed by ancestor %d of this block (block %d) and is accepted again: it would be paid twice", where, u.Hash().Bytes()[:6], k, num-uint64(k)))
					}
					if p.isBlock > 0 {
						fail("C13/uncles/chain-block-listed-as-share", fmt.Sprintf("%s: the header of ancestor %d is accepted as a share of its own chain", where, p.isBlock))
					}
					if p.parentK == 0 || p.parentK > depth {
						fail("C13/uncles/stale-share-accepted", fmt.Sprintf("%s: accepted share %x was not mined on one of the last %d ancestors (parent = ancestor %d; 0 = none)", where, u.Hash().Bytes()[:6], depth, p.parentK))
					}
				}
			} else if clean && len(uncles) > 0 && len(uncles) <= maxc && pathLen >= depth && maxUp <= depth {
				fail("C13/uncles/valid-share-refused", fmt.Sprintf("%s: every share is new on this chain, well formed and mined on one of the last %d ancestors, yet the block is refused (%s: %v)", where, depth, uVerdictName[v], err))
			}
			if storeIt {
				b := &ublock{wo: cand, parent: parent, shares: uncles}
				w.store(b)
				if len(uncles) > 0 {
					out.accepted++
				}
			}
		}
	}
	return out
}

// ---------------------------------------------------------------- corpus and generator

func probesAll() []uint64 {
	return []uint64{params.KawPowForkBlock + 50, params.InclusionDepthChangeBlock + 7, params.SingularityForkBlock + 3}
}

func fresh(up, pow int) UShareSpec { return UShareSpec{Kind: "fresh", Up: up, Pow: pow} }
func freshM(up int, mut string) UShareSpec {
	return UShareSpec{Kind: "fresh", Up: up, Pow: 1, Mut: mut}
}
func dupOf(ref int) UShareSpec { return UShareSpec{Kind: "dup", Ref: ref} }

func unclesCorpus() []Case {
	var cs []Case
	add := func(tag string, in UnclesIn) {
		if in.Probes == nil {
			in.Probes = probesAll()
		}
		cs = append(cs, Case{Kind: "uncles", Tag: tag, Uncles: &in})
	}
	late := 2*params.BlocksPerMonth + 100
	// a share listed by block X is listed again k blocks later (k = 1: by the child of X), with plain
	// blocks in between and with blocks that carry their own shares in between
	for k := 1; k <= 6; k++ {
		for fill := 0; fill < 3; fill++ {
			steps := []UStep{{Shares: []UShareSpec{fresh(1, 1)}}}
			for j := 1; j < k; j++ {
				switch {
				case fill == 1, fill == 2 && j%2 == 1:
					steps = append(steps, UStep{Shares: []UShareSpec{fresh(1, 1)}})
				default:
					steps = append(steps, UStep{})
				}
			}
			steps = append(steps, UStep{Shares: []UShareSpec{dupOf(0)}})
			// and once more next to a new share
			steps = append(steps, UStep{Shares: []UShareSpec{fresh(1, 1), dupOf(0)}})
			add(fmt.Sprintf("relist-after-%d-fill%d", k, fill), UnclesIn{BaseLen: 6, BaseNum: 10, Ptn: 300000, Steps: steps})
		}
	}
	// a share mined on an older ancestor, listed late, then listed again by the next blocks
	for up := 1; up <= 5; up++ {
		add(fmt.Sprintf("late-listing-up%d", up), UnclesIn{BaseLen: 7, BaseNum: late, Ptn: 300000, Steps: []UStep{
			{Shares: []UShareSpec{fresh(up, 1)}}, {Shares: []UShareSpec{dupOf(0)}}, {}, {Shares: []UShareSpec{dupOf(0)}}, {Shares: []UShareSpec{fresh(2, 1), dupOf(0)}}}})
	}
	add("twice-in-one-block", UnclesIn{BaseLen: 6, BaseNum: 10, Ptn: 300000, Steps: []UStep{{Shares: []UShareSpec{fresh(1, 1), dupOf(0)}}, {Shares: []UShareSpec{fresh(2, 1), fresh(1, 1), dupOf(2)}}}})
	for up := 1; up <= 6; up++ {
		add(fmt.Sprintf("ancestor-header-as-share-up%d", up), UnclesIn{BaseLen: 8, BaseNum: 10, Ptn: 300000, Steps: []UStep{{Shares: []UShareSpec{{Kind: "anc", Up: up}}}, {Shares: []UShareSpec{fresh(1, 1), {Kind: "anc", Up: up}}}}})
	}
	// uncles (block grade): a sibling is refused, a nephew is fine; sub-shares and no work after the KawPow fork
	add("pow-grades", UnclesIn{BaseLen: 6, BaseNum: 10, Ptn: 300000, Steps: []UStep{
		{Shares: []UShareSpec{fresh(1, 0)}}, {Shares: []UShareSpec{fresh(2, 0)}}, {Shares: []UShareSpec{fresh(1, 2)}}, {Shares: []UShareSpec{fresh(1, 3)}}, {Shares: []UShareSpec{fresh(3, 0), fresh(2, 1), fresh(1, 1)}}}})
	// the other branch may list the same share; then neither branch may list it again
	add("two-branches", UnclesIn{BaseLen: 6, BaseNum: 10, Ptn: 300000, Steps: []UStep{
		{Shares: []UShareSpec{fresh(1, 1)}}, {Back: 1, Shares: []UShareSpec{dupOf(0)}}, {Shares: []UShareSpec{dupOf(0)}}, {Back: 2, Shares: []UShareSpec{dupOf(0)}}, {Back: 1, Shares: []UShareSpec{fresh(2, 1)}}}})
	// too old / unknown parent / short chains (WorkShareDistance needs `depth` ancestors)
	add("too-old", UnclesIn{BaseLen: 8, BaseNum: 10, Ptn: 300000, Steps: []UStep{{Shares: []UShareSpec{fresh(3, 1)}}, {Shares: []UShareSpec{fresh(4, 1)}}, {Shares: []UShareSpec{fresh(5, 1)}}, {Shares: []UShareSpec{fresh(9, 1)}}, {Shares: []UShareSpec{fresh(20, 1)}}}})
	for bl := 1; bl <= 5; bl++ {
		add(fmt.Sprintf("short-chain-%d", bl), UnclesIn{BaseLen: bl, BaseNum: 1, Ptn: 300000, Steps: []UStep{{Shares: []UShareSpec{fresh(1, 1)}}, {Shares: []UShareSpec{fresh(1, 1)}}, {Shares: []UShareSpec{fresh(2, 1), dupOf(0)}}}})
	}
	// count limits: 16 / 17 shares before, 32 / 33 after the Singularity fork
	for _, n := range []int{16, 17, 32, 33} {
		sh := make([]UShareSpec, n)
		for i := range sh {
			sh[i] = fresh(1+i%3, 1)
		}
		add(fmt.Sprintf("count-%d", n), UnclesIn{BaseLen: 6, BaseNum: 10, Ptn: 300000, Steps: []UStep{{Shares: sh}, {Shares: append(append([]UShareSpec{}, sh[:3]...), dupOf(n-1))}}})
	}
	// every malformed field, before and after the first two months, before the Qi kick-in
	for _, bn := range []uint64{10, late} {
		var steps []UStep
		for _, m := range uMuts {
			steps = append(steps, UStep{Shares: []UShareSpec{fresh(1, 1), freshM(2, m)}})
		}
		add(fmt.Sprintf("malformed-at-%d", bn), UnclesIn{BaseLen: 6, BaseNum: bn, Ptn: 300000, Steps: steps})
	}
	add("before-qi-kick-in", UnclesIn{BaseLen: 6, BaseNum: 10, Ptn: 0, Probes: []uint64{params.ControllerKickInBlock}, Steps: []UStep{{Shares: []UShareSpec{freshM(1, "qi")}}, {Shares: []UShareSpec{fresh(1, 1)}}, {Shares: []UShareSpec{dupOf(1)}}, {Shares: []UShareSpec{fresh(1, 1), freshM(1, "qi")}}}})
	return cs
}

func genUncles(r *hlib.Rng) Case {
	in := UnclesIn{BaseLen: 6, BaseNum: 10, Ptn: 300000, Probes: probesAll()}
	switch r.Pick(70, 15, 15) {
	case 1:
		in.BaseLen = 1 + r.Intn(7)
	case 2:
		in.BaseLen = 4 + r.Intn(5)
	}
	if r.Chance(40) {
		in.BaseNum = 2*params.BlocksPerMonth - 3 + uint64(r.Intn(8))
	}
	if r.Chance(10) {
		in.Ptn = uint64(r.Intn(int(params.ControllerKickInBlock)))
	}
	nsteps := 4 + r.Intn(7)
	nfresh := 0
	for i := 0; i < nsteps; i++ {
		st := UStep{}
		if r.Chance(15) {
			st.Back = 1 + r.Intn(3)
		}
		n := r.Pick(20, 30, 25, 15, 8, 2)
		if n == 5 {
			n = 15 + r.Intn(4)
		}
		for j := 0; j < n; j++ {
			k := r.Pick(55, 30, 8)
			if nfresh == 0 && k == 1 {
				k = 0
			}
			switch k {
			case 0:
				sp := fresh(1+r.Pick(40, 25, 15, 10, 6, 4), r.Pick(8, 80, 6, 6))
				if r.Chance(12) {
					sp.Mut = uMuts[r.Intn(len(uMuts))]
				}
				st.Shares = append(st.Shares, sp)
				nfresh++
			case 1:
				// mostly a recent share: the ones listed by the nearest ancestors
				ref := nfresh - 1 - r.Pick(30, 25, 15, 10, 8, 6, 6)
				if ref < 0 || r.Chance(10) {
					ref = r.Intn(nfresh)
				}
				st.Shares = append(st.Shares, dupOf(ref))
			default:
				st.Shares = append(st.Shares, UShareSpec{Kind: "anc", Up: 1 + r.Intn(6)})
			}
		}
		in.Steps = append(in.Steps, st)
	}
	return Case{Kind: "uncles", Uncles: &in}
}

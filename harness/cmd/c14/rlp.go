package main

import (
	"bytes"
	"fmt"
	"strings"

	"github.com/dominant-strategies/go-quai/rlp"

	"verifharness/hlib"
)

// item mirrors Lib/C14_RLP.item
type item struct {
	IsList bool
	Str    []byte
	List   []item
}

func (t item) coq() string {
	if !t.IsList {
		return "(Str " + hlib.CoqBytes(t.Str) + ")"
	}
	xs := make([]string, len(t.List))
	for i, x := range t.List {
		xs[i] = x.coq()
	}
	return "(Lst [" + strings.Join(xs, ";") + "])"
}

func (t item) iface() interface{} {
	if !t.IsList {
		return t.Str
	}
	xs := make([]interface{}, len(t.List))
	for i, x := range t.List {
		xs[i] = x.iface()
	}
	return xs
}

func itemOf(v interface{}) item {
	switch x := v.(type) {
	case []byte:
		return item{Str: x}
	case []interface{}:
		t := item{IsList: true}
		for _, y := range x {
			t.List = append(t.List, itemOf(y))
		}
		return t
	}
	panic(fmt.Sprintf("rlp decoded to %T", v))
}

func itemEq(a, b item) bool {
	if a.IsList != b.IsList {
		return false
	}
	if !a.IsList {
		return bytes.Equal(a.Str, b.Str)
	}
	if len(a.List) != len(b.List) {
		return false
	}
	for i := range a.List {
		if !itemEq(a.List[i], b.List[i]) {
			return false
		}
	}
	return true
}

func genItem(r *hlib.Rng, depth int, flags *[4]bool) item {
	if depth < 3 && r.Chance(60) {
		// inside lists mostly small strings, so that a whole tree stays within a few KB
		return item{Str: r.Bytes(r.Intn(6))}
	}
	if depth > 0 && r.Chance(40) {
		n := r.Pick(15, 20, 25, 20, 10, 10)
		if n == 5 {
			n = 8 + r.Intn(30) // payload above 55 bytes: long list header
			flags[1] = true
		}
		t := item{IsList: true}
		for i := 0; i < n; i++ {
			t.List = append(t.List, genItem(r, depth-1, flags))
		}
		return t
	}
	switch r.Pick(10, 15, 15, 25, 8, 8, 12, 5, 2) {
	case 0:
		return item{Str: []byte{}}
	case 1:
		flags[0] = true
		return item{Str: []byte{byte(r.Intn(128))}} // its own encoding
	case 2:
		flags[0] = true
		return item{Str: []byte{byte(128 + r.Intn(128))}} // needs the 0x81 header
	case 3:
		return item{Str: r.Bytes(2 + r.Intn(30))}
	case 4:
		flags[2] = true
		return item{Str: r.Bytes(55)}
	case 5:
		flags[2] = true
		return item{Str: r.Bytes(56)} // first long-form length
	case 6:
		flags[2] = true
		return item{Str: r.Bytes(57 + r.Intn(200))}
	case 7:
		flags[3] = true
		return item{Str: r.Bytes(256 + r.Intn(300))} // two length bytes
	default:
		flags[3] = true
		return item{Str: r.Bytes(600 + r.Intn(100))}
	}
}

func rlpDecode(b []byte) (item, error) {
	var v interface{}
	if err := rlp.DecodeBytes(b, &v); err != nil {
		return item{}, err
	}
	return itemOf(v), nil
}

func genRlp(c *ctx) *gen {
	return &gen{kind: "rlp", names: []string{"tree"}, run: func(c *ctx, name string, r *hlib.Rng) {
		var flags [4]bool
		t := genItem(r, 3, &flags)
		b, err := rlp.EncodeToBytes(t.iface())
		if err != nil {
			c.fail("rlp/encode-error", err.Error())
			return
		}
		back, err := rlpDecode(b)
		if err != nil {
			c.fail("rlp/decode-own-bytes", fmt.Sprintf("%v on %x", err, b))
		} else {
			if !itemEq(back, t) {
				c.fail("rlp/decode-differs", fmt.Sprintf("decode(encode t) != t for %x", b))
			}
			rb, _ := rlp.EncodeToBytes(back.iface())
			if !bytes.Equal(rb, b) {
				c.fail("rlp/reencode-differs", fmt.Sprintf("encode(decode b) = %x, b = %x", rb, b))
			}
		}
		c.rep.Count(fmt.Sprintf("rlp-size:%d", len(b)/64*64))
		c.rep.Nontrivial(fmt.Sprintf("rlp/%v/%d", flags, len(b)/8))
		c.emit(func(id int) string { return fmt.Sprintf("CRlp %d %s %s", id, t.coq(), hlib.CoqBytes(b)) })
	}}
}

// be returns the minimal big-endian bytes of n
func be(n int) []byte {
	var b []byte
	for n > 0 {
		b = append([]byte{byte(n)}, b...)
		n >>= 8
	}
	return b
}

func genRlpAdv(c *ctx) *gen {
	names := []string{"wrapped-single", "long-form-short-string", "long-form-short-list", "leading-zero-length", "truncated",
		"trailing", "list-payload-short", "list-payload-long", "random", "nested-noncanonical", "zero-length-of-length"}
	return &gen{kind: "rlpadv", names: names, run: func(c *ctx, name string, r *hlib.Rng) {
		var flags [4]bool
		t := genItem(r, 2, &flags)
		good, _ := rlp.EncodeToBytes(t.iface())
		var b []byte
		switch name {
		case "wrapped-single":
			b = []byte{0x81, byte(r.Intn(128))}
		case "long-form-short-string":
			s := r.Bytes(r.Intn(56))
			b = append([]byte{0xb8, byte(len(s))}, s...)
		case "long-form-short-list":
			inner, _ := rlp.EncodeToBytes(item{Str: r.Bytes(r.Intn(20))}.iface())
			b = append([]byte{0xf8, byte(len(inner))}, inner...)
		case "leading-zero-length":
			s := r.Bytes(56 + r.Intn(100))
			b = append([]byte{0xb9, 0x00, byte(len(s))}, s...)
		case "truncated":
			if len(good) > 1 {
				b = good[:1+r.Intn(len(good)-1)]
			} else {
				b = []byte{0x83, 1}
			}
		case "trailing":
			b = append(append([]byte{}, good...), r.Bytes(1+r.Intn(3))...)
		case "list-payload-short", "list-payload-long":
			inner, _ := rlp.EncodeToBytes(item{Str: r.Bytes(2 + r.Intn(20))}.iface())
			n := len(inner)
			if name == "list-payload-short" {
				n -= 1 + r.Intn(2)
			} else {
				n += 1 + r.Intn(3)
			}
			b = append([]byte{byte(0xc0 + n)}, inner...)
		case "random":
			b = r.Bytes(1 + r.Intn(12))
		case "nested-noncanonical":
			inner := []byte{0x81, byte(r.Intn(128))}
			if r.Bool() {
				inner = []byte{0xb8, 0x01, 0x99}
			}
			b = append([]byte{byte(0xc0 + len(inner))}, inner...)
		case "zero-length-of-length":
			s := r.Bytes(60)
			b = append(append([]byte{0xba}, append([]byte{0, 0}, be(len(s))...)...), s...)
		}
		back, err := rlpDecode(b)
		res, verdict := "None", "reject"
		if err == nil {
			res, verdict = "(Some "+back.coq()+")", "accept"
			// monitor: the decoder is strict, so whatever it accepts re-encodes to the same bytes
			rb, _ := rlp.EncodeToBytes(back.iface())
			if !bytes.Equal(rb, b) {
				c.fail("rlp/accepts-noncanonical", fmt.Sprintf("decoder accepted %x which re-encodes to %x", b, rb))
			}
		}
		c.rep.Count("rlpadv:" + name + ":" + verdict)
		c.rep.Nontrivial("rlpadv/" + name + "/" + verdict)
		c.emit(func(id int) string { return fmt.Sprintf("CRlpDec %d %s %s", id, hlib.CoqBytes(b), res) })
	}}
}

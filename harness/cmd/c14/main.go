// C14 harness: encode/decode round trips of go-quai consensus objects.
//
//  1. proto tie: for every message type of the repository's schemas, random
//     well-formed messages (every presence combination, zero/empty vs absent,
//     maximum-width integers) through the real proto.Marshal / proto.Unmarshal;
//     bytes and the decoded field tree are compared with the Coq model
//     (Lib/C14_ProtoWire) inside Coq; plus mutated bytes (reordered, duplicated,
//     non-minimal varints, unknown fields, truncations) for the decoder model.
//  2. RLP tie: random item trees through rlp.EncodeToBytes / rlp.DecodeBytes.
//  3. small consensus objects (TxOut, UtxoEntry, OutPoint, OutpointAndDenomination,
//     Termini) through ProtoEncode -> Marshal -> Unmarshal -> ProtoDecode against
//     their hand-written models.
//  4. model-independent monitors on the real object types (Transaction of each
//     type, Header, WorkObject in each view, receipts, pending ETXs, termini,
//     p2p envelopes, RLP and JSON of transactions, rawdb write/read):
//     x == decode(encode x), encode(decode b) == b, Hash() before == after,
//     single-field mutation => different hash.
package main

import (
	"fmt"
	"runtime/debug"

	"verifharness/cmd/c14/c14schema"
	"verifharness/hlib"
)

// caseJS is the replayable description of a case: the generator kind, its
// sub-kind and the seed of the private PRNG the case was generated from.
type caseJS struct {
	ID   int    `json:"id"`
	Kind string `json:"kind"`
	Name string `json:"name"`
	Seed uint64 `json:"seed"`
	Base int    `json:"base"` // id of the first case the generator invocation emitted
	Note string `json:"note,omitempty"`
}

type ctx struct {
	rep  *hlib.Report
	cw   *hlib.CaseWriter
	msgs []*c14schema.Message
	id   int
	cur  caseJS
}

// emit writes one Coq case for the current generator invocation. A generator may
// emit several cases; they share the replay description (id differs).
func (c *ctx) emit(coq func(id int) string) {
	js := c.cur
	js.ID = c.id
	c.cw.Add(coq(c.id), js)
	c.id++
	c.rep.TracesValidated++
}

func (c *ctx) fail(sig, what string) {
	js := c.cur
	js.ID = c.id
	c.rep.Fail(sig, what, js)
}

type gen struct {
	kind string
	// names lists the sub-kinds; run executes one case
	names []string
	run   func(c *ctx, name string, r *hlib.Rng)
	// times is the number of cases per random round (0 = 1); the monitor-only generators emit no Coq
	// case and cost milliseconds, so they can afford more
	times int
}

func (c *ctx) runOne(g *gen, name string, seed uint64) {
	c.cur = caseJS{Kind: g.kind, Name: name, Seed: seed, Base: c.id}
	c.rep.Evaluations++
	c.rep.Count("kind:" + g.kind)
	defer func() {
		if e := recover(); e != nil {
			c.fail("panic/"+g.kind+"/"+name, fmt.Sprintf("panic in %s/%s: %v\n%s", g.kind, name, e, debug.Stack()))
		}
	}()
	g.run(c, name, hlib.NewRng(seed))
}

func main() {
	f := hlib.ParseFlags()
	hlib.QuietLogs()
	rng := hlib.NewRng(f.Seed)
	rep := hlib.NewReport("C14", "generated well-formed objects/messages and mutated encodings through the real encoders and decoders; "+
		"non-trivial = the object has at least one optional field present-and-zero/empty, a repeated field with >1 element, a nested message, or a boundary integer (distinct by kind/name/shape fingerprint)")
	cw := hlib.NewCaseWriter(f.Out, "From Coq Require Import List NArith Bool.\nFrom GQ Require Import Lib.Key Lib.C14_Varint Lib.C14_ProtoWire Lib.C14_RLP Model.C14.\nImport ListNotations.\nLocal Open Scope N_scope.\n", "C14.case", 60)
	c := &ctx{rep: rep, cw: cw, msgs: c14schema.Load()}
	gens := allGens(c)
	byKind := map[string]*gen{}
	for _, g := range gens {
		byKind[g.kind] = g
	}

	if f.Replay != "" {
		var cj caseJS
		hlib.ReadReplayCase(f.Replay, &cj)
		g := byKind[cj.Kind]
		if g == nil {
			panic("unknown case kind " + cj.Kind)
		}
		c.id = cj.Base
		c.runOne(g, cj.Name, cj.Seed)
		cw.Close()
		rep.Write(f.Out)
		return
	}

	// fixed corpus first: every sub-kind of every generator once with a fixed seed
	for _, g := range gens {
		for _, name := range g.names {
			c.runOne(g, name, 0xC14)
		}
	}
	// random part: N rounds; in each round one case of every generator, sub-kind chosen at random
	for i := 0; i < f.N; i++ {
		for _, g := range gens {
			for k := 0; k < 1 || k < g.times; k++ {
				name := g.names[rng.Intn(len(g.names))]
				c.runOne(g, name, rng.Next())
			}
		}
	}
	cw.Close()
	rep.Write(f.Out)
}

package main

// Tie of the field-by-field Gallina model of Transaction.ProtoEncode / ProtoDecode
// (coq/Model/C14.v section 3b: tx_encode / tx_decode, all three transaction types) to the real code:
// cases CTx (object -> bytes -> object) and CTxDec (arbitrary ProtoTransaction -> verdict and object).
// The curve operations on Qi public keys (compression on encode, decompression on decode) are
// parameters of the model; the tables recorded here are what crypto.* computed for the keys of the case.

import (
	"bytes"
	"fmt"
	"math/big"
	"strings"

	"github.com/btcsuite/btcd/btcec/v2"
	"github.com/btcsuite/btcd/btcec/v2/schnorr"
	"google.golang.org/protobuf/proto"

	"github.com/dominant-strategies/go-quai/common"
	"github.com/dominant-strategies/go-quai/core/types"
	"github.com/dominant-strategies/go-quai/crypto"

	"verifharness/hlib"
)

func coqOptHash(h *common.Hash) string {
	if h == nil {
		return "None"
	}
	return "(Some " + hlib.CoqBytes(h[:]) + ")"
}

func coqWork(tx *types.Transaction) string {
	wn := "None"
	if tx.WorkNonce() != nil {
		wn = fmt.Sprintf("(Some %d)", tx.WorkNonce().Uint64())
	}
	return fmt.Sprintf("(mkWork %s %s %s)", coqOptHash(tx.ParentHash()), coqOptHash(tx.MixHash()), wn)
}

func coqAccessList(al types.AccessList) string {
	ts := make([]string, len(al))
	for i, t := range al {
		ts[i] = fmt.Sprintf("(mkAT %s %s)", hlib.CoqBytes(t.Address.Bytes()), coqHashes(t.StorageKeys))
	}
	return hlib.CoqList(ts)
}

func coqBigN(x *big.Int) string {
	if x == nil {
		return "0"
	}
	return x.String()
}

// coqTx projects a transaction through its exported getters onto the record of the model.
func coqTx(tx *types.Transaction) string {
	switch tx.Type() {
	case types.QuaiTxType:
		to := "None"
		if tx.To() != nil {
			to = "(Some " + hlib.CoqBytes(tx.To().Bytes()) + ")"
		}
		v, r, s := tx.GetEcdsaSignatureValues()
		return fmt.Sprintf("(TQuai (mkQuai %s %d %s %d %s %s %s %s %s %s %s %s))", to, tx.Nonce(), coqBigN(tx.Value()), tx.Gas(),
			hlib.CoqBytes(tx.Data()), coqBigN(tx.ChainId()), coqBigN(tx.GasPrice()), coqAccessList(tx.AccessList()),
			coqBigN(v), coqBigN(r), coqBigN(s), coqWork(tx))
	case types.ExternalTxType:
		oth := tx.OriginatingTxHash()
		return fmt.Sprintf("(TExt (mkExt %s %s %d %s %s %s %d %s %d))", hlib.CoqBytes(tx.To().Bytes()), coqBigN(tx.Value()), tx.Gas(),
			hlib.CoqBytes(tx.Data()), coqAccessList(tx.AccessList()), hlib.CoqBytes(oth[:]), tx.ETXIndex(),
			hlib.CoqBytes(tx.ETXSender().Bytes()), tx.EtxType())
	}
	var ins, outs []string
	for _, in := range tx.TxIn() {
		ins = append(ins, fmt.Sprintf("(mkTxIn %s %s)", coqOutPoint(in.PreviousOutPoint.TxHash, in.PreviousOutPoint.Index), hlib.CoqBytes(in.PubKey)))
	}
	for _, o := range tx.TxOut() {
		outs = append(outs, coqTxOut(o.Denomination, o.Address, o.Lock))
	}
	return fmt.Sprintf("(TQi (mkQi %s %s %s %s %s %s))", coqBigN(tx.ChainId()), hlib.CoqList(ins), hlib.CoqList(outs),
		hlib.CoqBytes(tx.GetSchnorrSignature().Serialize()), hlib.CoqBytes(tx.Data()), coqWork(tx))
}

// what the real code computes for a public key on the way out (65 -> 33) and on the way in (33 -> 65)
func compress65(pk []byte) []byte {
	p, err := crypto.UnmarshalPubkey(pk)
	if err != nil {
		return nil
	}
	return crypto.CompressPubkey(p)
}
func decompress33(w []byte) []byte {
	p, err := crypto.DecompressPubkey(w)
	if err != nil {
		return nil
	}
	return crypto.FromECDSAPub(p)
}
func coqTable(keys [][]byte, f func([]byte) []byte) string {
	var es []string
	seen := map[string]bool{}
	for _, k := range keys {
		if seen[string(k)] {
			continue
		}
		seen[string(k)] = true
		es = append(es, "("+hlib.CoqBytes(k)+", "+coqOptBytes(f(k))+")")
	}
	return hlib.CoqList(es)
}

func wirePubs(pd *types.ProtoTransaction) [][]byte {
	var ks [][]byte
	for _, in := range pd.GetTxIns().GetTxIns() {
		if len(in.GetPubKey()) == 33 {
			ks = append(ks, in.GetPubKey())
		}
	}
	return ks
}

var (
	curveN     = btcec.S256().N
	curveHalfN = new(big.Int).Rsh(btcec.S256().N, 1)
	curveP     = btcec.S256().P
)

func plus(x *big.Int, d int64) *big.Int { return new(big.Int).Add(x, big.NewInt(d)) }

// boundary values of the ECDSA sanity check of Transaction.ProtoDecode (v, r, s)
func genVRS(r *hlib.Rng) (v, rr, s *big.Int) {
	bound := []*big.Int{big.NewInt(0), big.NewInt(1), plus(curveHalfN, 0), plus(curveHalfN, 1), plus(curveN, -1), plus(curveN, 0), plus(curveN, 1),
		new(big.Int).Lsh(big.NewInt(1), 256), new(big.Int).SetBytes(r.Bytes(31))}
	vs := []*big.Int{big.NewInt(0), big.NewInt(1), big.NewInt(2), big.NewInt(27), big.NewInt(255), big.NewInt(256), big.NewInt(257),
		new(big.Int).Lsh(big.NewInt(1), 64), plus(new(big.Int).Lsh(big.NewInt(1), 64), 1)}
	return vs[r.Intn(len(vs))], bound[r.Intn(len(bound))], bound[r.Intn(len(bound))]
}

func be32(x *big.Int) []byte {
	b := x.Bytes()
	if len(b) > 32 {
		b = b[len(b)-32:]
	}
	return append(make([]byte, 32-len(b)), b...)
}

// a transaction for the model tie: the ordinary distribution of genTx plus the shapes the quantifier names
// (every presence combination of the work fields, unsigned and boundary signatures, wide locks, compressed /
// invalid / odd public keys, no outputs, empty access tuples)
func genTxForModel(r *hlib.Rng, kind string, loc common.Location) (*types.Transaction, string) {
	switch kind {
	case "Quai":
		switch r.Pick(5, 2, 3) {
		case 0:
			return genTx(r, "Quai", loc), "signed"
		case 1:
			return types.NewTx(genQuaiInner(r, loc)), "unsigned"
		}
		in := genQuaiInner(r, loc)
		in.V, in.R, in.S = genVRS(r)
		if r.Chance(30) {
			in.ChainID = genBig(r)
		}
		return types.NewTx(in), "vrs-boundary"
	case "External":
		in := genEtxInner(r, loc)
		if r.Chance(30) {
			in.EtxType = genU64(r)
		}
		return types.NewTx(in), "etx"
	}
	in := genQiInner(r, loc)
	shape := "qi"
	switch r.Pick(5, 2, 1, 1, 1, 2) {
	case 1: // a key that is already compressed: passes the encoder unchecked, comes back uncompressed
		i := r.Intn(len(in.TxIn))
		in.TxIn[i].PubKey = compress65(in.TxIn[i].PubKey)
		shape = "qi-compressed-key"
	case 2: // 65 bytes that are not a curve point: ProtoEncode fails
		i := r.Intn(len(in.TxIn))
		k := r.Bytes(65)
		k[0] = 4
		in.TxIn[i].PubKey = k
		shape = "qi-invalid-key65"
	case 3: // 33 bytes, possibly not a curve point: passes the encoder, the decoder decides
		i := r.Intn(len(in.TxIn))
		k := r.Bytes(33)
		k[0] = byte(2 + r.Intn(2))
		in.TxIn[i].PubKey = k
		shape = "qi-random-key33"
	case 4:
		i := r.Intn(len(in.TxIn))
		in.TxIn[i].PubKey = r.Bytes([]int{0, 32, 34, 64, 66}[r.Intn(5)])
		shape = "qi-key-length"
	case 5: // maximum-width locks, nil locks, nil / empty / odd addresses in the outputs
		for i, n := 0, 1+r.Intn(3); i < n; i++ {
			var lock *big.Int
			switch r.Pick(2, 2, 2, 2, 1) {
			case 0:
				lock = nil
			case 1:
				lock = new(big.Int).Lsh(big.NewInt(1), 64)
			case 2:
				lock = plus(new(big.Int).Lsh(big.NewInt(1), uint(64+r.Intn(150))), int64(r.Intn(9)))
			case 3:
				lock = new(big.Int).SetUint64(^uint64(0))
			default:
				lock = genLock(r)
			}
			var addr []byte
			switch r.Pick(6, 1, 1, 1) {
			case 0:
				addr = genAddrBytes(r, loc, r.Bool(), true)
			case 1:
				addr = nil
			case 2:
				addr = []byte{}
			default:
				addr = r.Bytes(1 + r.Intn(40))
			}
			in.TxOut = append(in.TxOut, types.TxOut{Denomination: genDenom(r), Address: addr, Lock: lock})
		}
		shape = "qi-wide-outputs"
	}
	if r.Chance(20) {
		in.ChainID = genBig(r)
	}
	return types.NewTx(in), shape
}

func presence(tx *types.Transaction) string {
	if tx.Type() == types.ExternalTxType {
		return "n/a"
	}
	f := func(b bool) byte {
		if b {
			return '1'
		}
		return '0'
	}
	return string([]byte{f(tx.ParentHash() != nil), f(tx.MixHash() != nil), f(tx.WorkNonce() != nil)})
}

func oddBytes(r *hlib.Rng, n int) []byte {
	switch r.Pick(2, 2, 1, 1, 1) {
	case 0:
		return r.Bytes(n - 1)
	case 1:
		return r.Bytes(n + 1 + r.Intn(4))
	case 2:
		return []byte{}
	case 3:
		return nil
	}
	return r.Bytes(n)
}

// mutateProtoTx edits a ProtoTransaction in place into something the encoder cannot produce; returns the kind of edit
const nTxMutations, nDropFields = 22, 20

// forceKind / forceSub >= 0 select the mutation (the fixed corpus walks through all of them), -1 = random
func mutateProtoTx(r *hlib.Rng, p *types.ProtoTransaction, forceKind, forceSub int) string {
	u64 := func(v uint64) *uint64 { return &v }
	u32 := func(v uint32) *uint32 { return &v }
	kind, sub := r.Intn(nTxMutations), r.Intn(nDropFields)
	if forceKind >= 0 {
		kind = forceKind
	}
	if forceSub >= 0 {
		sub = forceSub
	}
	switch kind {
	case 0:
		p.Type = nil
		return "drop-type"
	case 1:
		p.Type = u64([]uint64{3, 4, 255, 256, 1 << 32, 1<<64 - 1}[r.Intn(6)])
		return "bad-type"
	case 2:
		p.Type = u64(uint64(r.Intn(3)))
		return "other-type"
	case 3:
		// drop one singular field
		switch sub {
		case 0:
			p.To = nil
		case 1:
			p.Nonce = nil
		case 2:
			p.Value = nil
		case 3:
			p.Gas = nil
		case 4:
			p.Data = nil
		case 5:
			p.ChainId = nil
		case 6:
			p.GasPrice = nil
		case 7:
			p.AccessList = nil
		case 8:
			p.V = nil
		case 9:
			p.R = nil
		case 10:
			p.S = nil
		case 11:
			p.OriginatingTxHash = nil
		case 12:
			p.EtxIndex = nil
		case 13:
			p.TxIns = nil
		case 14:
			p.TxOuts = nil
		case 15:
			p.Signature = nil
		case 16:
			p.EtxSender = nil
		case 17:
			p.ParentHash = nil
		case 18:
			p.WorkNonce = nil
		default:
			p.EtxType = nil
		}
		return fmt.Sprintf("drop-field-%d", sub)
	case 4:
		p.To = oddBytes(r, 20)
		return "to-width"
	case 5:
		p.EtxSender = oddBytes(r, 20)
		return "sender-width"
	case 6:
		p.EtxIndex = u32([]uint32{65535, 65536, 65537, 1<<32 - 1, uint32(r.Next())}[r.Intn(5)])
		return "etx-index-width"
	case 7:
		h := &common.ProtoHash{Value: oddBytes(r, 32)}
		switch r.Intn(3) {
		case 0:
			p.ParentHash = h
		case 1:
			p.MixHash = h
		default:
			p.OriginatingTxHash = h
		}
		return "hash-width"
	case 8:
		v, rr, s := genVRS(r)
		p.V, p.R, p.S = v.Bytes(), rr.Bytes(), s.Bytes()
		return "vrs"
	case 9:
		// non-minimal big integers (leading zero bytes) are accepted by SetBytes
		p.Value = append([]byte{0, 0}, p.Value...)
		p.ChainId = append([]byte{0}, p.ChainId...)
		p.GasPrice = append([]byte{0}, p.GasPrice...)
		return "leading-zeros"
	case 10:
		switch r.Intn(6) {
		case 0:
			p.Signature = r.Bytes(63)
		case 1:
			p.Signature = r.Bytes(65)
		case 2:
			p.Signature = append(be32(curveP), be32(big.NewInt(1))...)
		case 3:
			p.Signature = append(be32(plus(curveP, -1)), be32(plus(curveN, -1))...)
		case 4:
			p.Signature = append(be32(big.NewInt(1)), be32(curveN)...)
		default:
			p.Signature = []byte{}
		}
		return "schnorr-sig"
	case 11:
		if ins := p.GetTxIns().GetTxIns(); len(ins) > 0 {
			in := ins[r.Intn(len(ins))]
			switch r.Intn(5) {
			case 0:
				in.PubKey = decompress33(in.PubKey) // 65 bytes on the wire: accepted unchecked
			case 1:
				k := r.Bytes(65)
				in.PubKey = k
			case 2:
				k := r.Bytes(33)
				k[0] = byte(2 + r.Intn(2))
				in.PubKey = k
			case 3:
				in.PubKey = nil
			default:
				in.PubKey = r.Bytes(32)
			}
		}
		return "wire-pubkey"
	case 12:
		if ins := p.GetTxIns().GetTxIns(); len(ins) > 0 {
			in := ins[r.Intn(len(ins))]
			if in.PreviousOutPoint == nil {
				return "outpoint"
			}
			switch r.Intn(4) {
			case 0:
				in.PreviousOutPoint = nil
			case 1:
				in.PreviousOutPoint.Hash = nil
			case 2:
				in.PreviousOutPoint.Index = nil
			default:
				in.PreviousOutPoint.Index = u32(uint32(65536 + r.Intn(1<<20)))
			}
		}
		return "outpoint"
	case 13:
		if p.TxIns != nil {
			p.TxIns.TxIns = nil
		}
		return "no-inputs"
	case 14:
		if outs := p.GetTxOuts().GetTxOuts(); len(outs) > 0 {
			o := outs[r.Intn(len(outs))]
			switch r.Intn(4) {
			case 0:
				o.Denomination = nil
			case 1:
				o.Denomination = u32(uint32(256 + r.Intn(1<<16)))
			case 2:
				o.Lock = nil
			default:
				o.Address = nil
			}
		}
		return "txout"
	case 15:
		if ts := p.GetAccessList().GetAccessTuples(); len(ts) > 0 {
			t := ts[r.Intn(len(ts))]
			if r.Bool() {
				t.Address = oddBytes(r, 20)
			} else {
				t.StorageKey = append(t.StorageKey, &common.ProtoHash{Value: oddBytes(r, 32)})
			}
		} else if p.AccessList != nil {
			p.AccessList.AccessTuples = append(p.AccessList.AccessTuples, &types.ProtoAccessTuple{})
		}
		return "access-list"
	case 16:
		p.WorkNonce = u64([]uint64{0, 1, 1<<64 - 1, r.Next()}[r.Intn(4)])
		p.ParentHash, p.MixHash = nil, nil
		return "work-nonce-only"
	case 17:
		p.WorkNonce = nil
		return "no-work-nonce"
	case 18:
		// fields of another transaction type are ignored by the decoder
		p.EtxType = u64(r.Next())
		p.Nonce = u64(r.Next())
		p.Signature = r.Bytes(10)
		return "foreign-fields"
	case 19:
		p.Data = []byte{}
		p.Value = []byte{}
		return "empty-present"
	case 20:
		p.Gas = u64(1<<64 - 1)
		p.Nonce = u64(1<<64 - 1)
		p.EtxType = u64(1<<64 - 1)
		return "max-u64"
	}
	return "none"
}

func genTxModel(c *ctx) *gen {
	names := []string{"Quai", "External", "Qi", "Quai-dec", "External-dec", "Qi-dec"}
	return &gen{kind: "txmodel", names: names, times: 2, run: func(c *ctx, name string, r *hlib.Rng) {
		loc := genLoc(r)
		kind := strings.TrimSuffix(name, "-dec")
		tx, shape := genTxForModel(r, kind, loc)
		if !strings.HasSuffix(name, "-dec") {
			if c.cur.Seed == corpusSeed && kind != "External" {
				// fixed corpus: every presence combination of the three work fields, with and without a recipient
				for bits := 0; bits < 8; bits++ {
					c.txModelEncode(r, kind, withWork(r, kind, loc, bits), fmt.Sprintf("work-%03b", bits), loc)
				}
			}
			c.txModelEncode(r, kind, tx, shape, loc)
			return
		}
		// decoder side: a ProtoTransaction the encoder cannot produce. The fixed corpus (seed 0xC14) walks through every
		// mutation kind and every droppable field for each transaction type; random rounds apply one or two at random.
		one := func(forceKind, forceSub int) {
			pe, err := tx.ProtoEncode()
			if err != nil {
				tx = genTx(r, kind, loc)
				pe, _ = tx.ProtoEncode()
			}
			var muts []string
			n := 1
			if forceKind < 0 {
				n += r.Intn(2)
			}
			for i := 0; i < n; i++ {
				muts = append(muts, mutateProtoTx(r, pe, forceKind, forceSub))
			}
			b, err := proto.Marshal(pe)
			if err != nil {
				c.fail("txmodel/marshal-mutated", err.Error())
				return
			}
			pd := new(types.ProtoTransaction)
			if err := proto.Unmarshal(b, pd); err != nil {
				c.fail("txmodel/unmarshal-mutated", err.Error())
				return
			}
			y := new(types.Transaction)
			derr := y.ProtoDecode(pd, loc)
			back := "DErr"
			if derr == nil {
				back = "(DOk " + coqTx(y) + ")"
			}
			for _, m := range muts {
				c.rep.Count(fmt.Sprintf("txmodel-dec:%s:%v", m, derr == nil))
			}
			c.rep.Nontrivial(fmt.Sprintf("txmodel-dec/%s/%s/%v", kind, strings.Join(muts, "+"), derr == nil))
			dtbl := coqTable(wirePubs(pd), decompress33)
			c.emit(func(id int) string { return fmt.Sprintf("CTxDec %d %s %s %s", id, dtbl, hlib.CoqBytes(b), back) })
		}
		if c.cur.Seed != corpusSeed {
			one(-1, -1)
			return
		}
		for k := 0; k < nTxMutations; k++ {
			if k == 3 {
				for sub := 0; sub < nDropFields; sub++ {
					one(k, sub)
				}
				continue
			}
			one(k, -1)
		}
	}}
}

const corpusSeed = 0xC14

// withWork builds a Quai / Qi transaction whose ParentHash / MixHash / WorkNonce presence is given by bits
func withWork(r *hlib.Rng, kind string, loc common.Location, bits int) *types.Transaction {
	var ph, mh *common.Hash
	var wn *types.BlockNonce
	if bits&4 != 0 {
		h := genHash(r)
		ph = &h
	}
	if bits&2 != 0 {
		h := genHash(r)
		mh = &h
	}
	if bits&1 != 0 {
		n := types.EncodeNonce(genU64(r))
		wn = &n
	}
	if kind == "Quai" {
		in := genQuaiInner(r, loc)
		in.ParentHash, in.MixHash, in.WorkNonce = ph, mh, wn
		if bits%2 == 0 {
			in.To = nil
		}
		return types.NewTx(in)
	}
	in := genQiInner(r, loc)
	in.ParentHash, in.MixHash, in.WorkNonce = ph, mh, wn
	return types.NewTx(in)
}

func (c *ctx) txModelEncode(r *hlib.Rng, kind string, tx *types.Transaction, shape string, loc common.Location) {
	c.rep.Count("txmodel:" + shape)
	c.rep.Count("txmodel:work-presence:" + presence(tx))
	pe, err := tx.ProtoEncode()
	var pubs65 [][]byte
	if tx.Type() == types.QiTxType {
		for _, in := range tx.TxIn() {
			if len(in.PubKey) == 65 {
				pubs65 = append(pubs65, in.PubKey)
			}
		}
	}
	ctbl := coqTable(pubs65, compress65)
	if err != nil {
		c.rep.Count("txmodel:encode-error")
		c.emit(func(id int) string { return fmt.Sprintf("CTx %d %s [] %s DErr DErr", id, ctbl, coqTx(tx)) })
		return
	}
	b, err := proto.Marshal(pe)
	if err != nil {
		c.fail("txmodel/marshal", err.Error())
		return
	}
	pd := new(types.ProtoTransaction)
	if err := proto.Unmarshal(b, pd); err != nil {
		c.fail("txmodel/unmarshal-own-bytes", err.Error())
		return
	}
	y := new(types.Transaction)
	derr := y.ProtoDecode(pd, loc)
	back := "DErr"
	if derr == nil {
		back = "(DOk " + coqTx(y) + ")"
		// model-independent: the model's claim of identity stability, on the real code
		if b2, _ := marshalTx(y); !bytes.Equal(b, b2) {
			c.fail("txmodel/"+kind+"/reencode-differs", fmt.Sprintf("%x\n%x", b, b2))
		}
		if y.Hash() != tx.Hash() {
			c.fail("txmodel/"+kind+"/hash-differs", fmt.Sprintf("%s vs %s (%s)", tx.Hash().Hex(), y.Hash().Hex(), shape))
		}
	}
	c.rep.Count(fmt.Sprintf("txmodel:decode-own:%v", derr == nil))
	c.rep.Nontrivial(fmt.Sprintf("txmodel/%s/%s/%s/%d", kind, shape, presence(tx), len(b)/16))
	dtbl := coqTable(wirePubs(pd), decompress33)
	c.emit(func(id int) string {
		return fmt.Sprintf("CTx %d %s %s %s (DOk %s) %s", id, ctbl, dtbl, coqTx(tx), hlib.CoqBytes(b), back)
	})
}

var _ = schnorr.SignatureSize

package main

import (
	"bytes"
	"fmt"
	"math/big"
	"strings"

	"google.golang.org/protobuf/proto"

	"github.com/dominant-strategies/go-quai/common"
	"github.com/dominant-strategies/go-quai/core/rawdb"
	"github.com/dominant-strategies/go-quai/core/types"
	"github.com/dominant-strategies/go-quai/log"
	"github.com/dominant-strategies/go-quai/p2p/pb"
	"github.com/dominant-strategies/go-quai/params"

	"verifharness/hlib"
)

// ---------- work object headers ----------

func genAuxPow(r *hlib.Rng) *types.AuxPow {
	hdr := &types.RavencoinBlockHeader{Version: int32(r.Intn(1 << 20)), HashPrevBlock: genHash(r), HashMerkleRoot: genHash(r),
		Time: uint32(r.Next()), Bits: uint32(r.Next()), Nonce64: r.Next(), Height: uint32(r.Intn(1 << 24)), MixHash: genHash(r)}
	cb := types.NewAuxPowCoinbaseTx(types.Kawpow, uint32(1+r.Intn(1<<20)), r.Bytes(9+r.Intn(10)), genHash(r), uint32(r.Next()))
	var branch [][]byte
	for i, n := 0, r.Intn(4); i < n; i++ {
		branch = append(branch, r.Bytes(32))
	}
	if branch == nil {
		branch = [][]byte{}
	}
	// auxpow2, signature and transaction are `optional bytes` of a hashed message: absent (nil), present and empty, and
	// non-empty are three different encodings and three different block hashes; every one of them is generated on purpose
	// (the KawPow / SHA templates of the miner carry a present-and-empty auxpow2)
	// (normal form: header and transaction are required -- WorkObjectHeader.ProtoDecode drops an AuxPow whose coinbase
	// transaction is absent -- so the transaction is never nil here, only empty or set)
	tx := cb
	if r.Chance(15) {
		tx = r.Bytes(r.Intn(60))
	}
	// nil is left to the work-object-header generator (genWoHeaderMon): CopyAuxPow turns a nil byte string into an empty
	// one (finding woheader/kawpow/copy/...), which would otherwise surface under the generic signatures of every monitor
	// that copies a header
	return types.NewAuxPow(types.Kawpow, types.NewAuxPowHeader(hdr), genPresentBytes(r, 40), genPresentBytes(r, 70), branch, tx)
}

// genPresentBytes: present-and-empty or non-empty
func genPresentBytes(r *hlib.Rng, max int) []byte {
	if r.Chance(35) {
		return []byte{}
	}
	return r.Bytes(1 + r.Intn(max))
}

// genOptBytes: nil / empty-but-present / non-empty, the three states of an optional bytes field
func genOptBytes(r *hlib.Rng, max int) []byte {
	switch r.Pick(2, 3, 5) {
	case 0:
		return nil
	case 1:
		return []byte{}
	}
	return r.Bytes(1 + r.Intn(max))
}

// optState names the state of an optional bytes field; nil and empty are different states
func optState(b []byte) string {
	if b == nil {
		return "nil"
	}
	if len(b) == 0 {
		return "empty"
	}
	return "set"
}

func genPowShare(r *hlib.Rng) *types.PowShareDiffAndCount {
	return types.NewPowShareDiffAndCount(genBig(r), genBig(r), genBig(r))
}

// genWoHeader builds a header in one of three regimes: before the KawPow fork, after it without
// AuxPow (transition), after it with a KawPow AuxPow.
func genWoHeader(r *hlib.Rng, loc common.Location, regime string) *types.WorkObjectHeader {
	wh := &types.WorkObjectHeader{}
	wh.SetHeaderHash(genHash(r))
	wh.SetParentHash(genHash(r))
	wh.SetNumber(genBig(r))
	wh.SetDifficulty(genBig(r))
	wh.SetTxHash(genHash(r))
	wh.SetLocation(loc)
	wh.SetMixHash(genHash(r))
	wh.SetPrimaryCoinbase(genAddress(r, loc))
	wh.SetTime(genU64(r))
	wh.SetNonce(types.EncodeNonce(genU64(r)))
	wh.SetLock(genDenom(r))
	if d := genData(r); d != nil {
		wh.SetData(d)
	}
	switch regime {
	case "pre":
		wh.SetPrimeTerminusNumber(new(big.Int).SetUint64(uint64(r.Intn(int(params.KawPowForkBlock)))))
	default:
		wh.SetPrimeTerminusNumber(new(big.Int).SetUint64(params.KawPowForkBlock + uint64(r.Intn(1000))))
		wh.SetScryptDiffAndCount(genPowShare(r))
		wh.SetShaDiffAndCount(genPowShare(r))
		wh.SetShaShareTarget(genBig(r))
		wh.SetScryptShareTarget(genBig(r))
		wh.SetKawpowDifficulty(genBig(r))
		if regime == "kawpow" {
			wh.SetAuxPow(genAuxPow(r))
		}
	}
	return wh
}

func marshalWh(wh *types.WorkObjectHeader) ([]byte, *types.ProtoWorkObjectHeader) {
	pe, err := wh.ProtoEncode()
	if err != nil {
		panic(err)
	}
	b, _ := proto.Marshal(pe)
	return b, pe
}

type whMut struct {
	name string
	f    func(wh *types.WorkObjectHeader, r *hlib.Rng, loc common.Location)
}

func whMuts(regime string) []whMut {
	inc := func(x *big.Int) *big.Int { return new(big.Int).Add(x, big.NewInt(1)) }
	fh := func(h common.Hash, r *hlib.Rng) common.Hash { h[r.Intn(32)] ^= 1 << uint(r.Intn(8)); return h }
	ms := []whMut{
		{"headerHash", func(wh *types.WorkObjectHeader, r *hlib.Rng, _ common.Location) {
			wh.SetHeaderHash(fh(wh.HeaderHash(), r))
		}},
		{"parentHash", func(wh *types.WorkObjectHeader, r *hlib.Rng, _ common.Location) {
			wh.SetParentHash(fh(wh.ParentHash(), r))
		}},
		{"number", func(wh *types.WorkObjectHeader, r *hlib.Rng, _ common.Location) { wh.SetNumber(inc(wh.Number())) }},
		{"difficulty", func(wh *types.WorkObjectHeader, r *hlib.Rng, _ common.Location) {
			wh.SetDifficulty(inc(wh.Difficulty()))
		}},
		{"txHash", func(wh *types.WorkObjectHeader, r *hlib.Rng, _ common.Location) { wh.SetTxHash(fh(wh.TxHash(), r)) }},
		{"time", func(wh *types.WorkObjectHeader, r *hlib.Rng, _ common.Location) { wh.SetTime(wh.Time() + 1) }},
		{"lock", func(wh *types.WorkObjectHeader, r *hlib.Rng, _ common.Location) { wh.SetLock(wh.Lock() + 1) }},
		{"data", func(wh *types.WorkObjectHeader, r *hlib.Rng, _ common.Location) {
			wh.SetData(append(append([]byte{}, wh.Data()...), 7))
		}},
		{"primaryCoinbase", func(wh *types.WorkObjectHeader, r *hlib.Rng, loc common.Location) {
			b := append([]byte{}, wh.PrimaryCoinbase().Bytes()...)
			b[5+r.Intn(15)] ^= 1
			wh.SetPrimaryCoinbase(common.BytesToAddress(b, loc))
		}},
		{"location", func(wh *types.WorkObjectHeader, r *hlib.Rng, _ common.Location) {
			l := wh.Location()
			wh.SetLocation(common.Location{l[0], l[1] ^ 1})
		}},
	}
	if regime == "pre" {
		// before the fork the identity is blake3(mixHash || sealHash || nonce)
		ms = append(ms,
			whMut{"mixHash", func(wh *types.WorkObjectHeader, r *hlib.Rng, _ common.Location) { wh.SetMixHash(fh(wh.MixHash(), r)) }},
			whMut{"nonce", func(wh *types.WorkObjectHeader, r *hlib.Rng, _ common.Location) {
				wh.SetNonce(types.EncodeNonce(wh.Nonce().Uint64() + 1))
			}},
			whMut{"primeTerminusNumber", func(wh *types.WorkObjectHeader, r *hlib.Rng, _ common.Location) {
				if wh.PrimeTerminusNumber().Sign() > 0 {
					wh.SetPrimeTerminusNumber(new(big.Int).Sub(wh.PrimeTerminusNumber(), big.NewInt(1)))
				} else {
					wh.SetPrimeTerminusNumber(big.NewInt(1))
				}
			}})
	} else {
		ms = append(ms,
			whMut{"shaShareTarget", func(wh *types.WorkObjectHeader, r *hlib.Rng, _ common.Location) {
				wh.SetShaShareTarget(inc(wh.ShaShareTarget()))
			}},
			whMut{"scryptShareTarget", func(wh *types.WorkObjectHeader, r *hlib.Rng, _ common.Location) {
				wh.SetScryptShareTarget(inc(wh.ScryptShareTarget()))
			}},
			whMut{"kawpowDifficulty", func(wh *types.WorkObjectHeader, r *hlib.Rng, _ common.Location) {
				wh.SetKawpowDifficulty(inc(wh.KawpowDifficulty()))
			}},
			whMut{"shaDiffAndCount", func(wh *types.WorkObjectHeader, r *hlib.Rng, _ common.Location) {
				p := wh.ShaDiffAndCount().Clone()
				p.SetCount(inc(p.Count()))
				wh.SetShaDiffAndCount(p)
			}},
			whMut{"scryptDiffAndCount", func(wh *types.WorkObjectHeader, r *hlib.Rng, _ common.Location) {
				p := wh.ScryptDiffAndCount().Clone()
				p.SetUncled(inc(p.Uncled()))
				wh.SetScryptDiffAndCount(p)
			}})
	}
	return ms
}

func genWoHeaderMon(c *ctx) *gen {
	return &gen{kind: "woheader", names: []string{"pre", "transition", "kawpow"}, run: func(c *ctx, name string, r *hlib.Rng) {
		loc := genLoc(r)
		wh := genWoHeader(r, loc, name)
		if name == "kawpow" && c.cur.Seed == corpusSeed {
			// fixed corpus: every state (absent / present-and-empty / set) of the optional byte strings of the AuxPow
			states := [][]byte{nil, {}, {0xab, 0xcd}}
			for _, a2 := range states {
				for _, sg := range states {
					for _, tx := range [][]byte{{}, wh.AuxPow().Transaction()} { // nil: outside the normal form (required field)
						w := types.CopyWorkObjectHeader(wh)
						ap := wh.AuxPow()
						w.SetAuxPow(types.NewAuxPow(ap.PowID(), ap.Header(), a2, sg, ap.MerkleBranch(), tx))
						c.checkWoHeader(name, r, loc, w)
					}
				}
			}
		}
		if name == "kawpow" && c.cur.Seed != corpusSeed && r.Chance(40) {
			ap := wh.AuxPow()
			wh.SetAuxPow(types.NewAuxPow(ap.PowID(), ap.Header(), genOptBytes(r, 40), genOptBytes(r, 70), ap.MerkleBranch(), ap.Transaction()))
		}
		c.checkWoHeader(name, r, loc, wh)
	}}
}

func (c *ctx) checkWoHeader(name string, r *hlib.Rng, loc common.Location, wh *types.WorkObjectHeader) {
	{
		hash, seal := wh.Hash(), wh.SealHash()
		view := jsonOf(wh.RPCMarshalWorkObjectHeader("v2"))
		b, pe := marshalWh(wh)
		sig := "woheader/" + name + "/"
		c.rep.Nontrivial(fmt.Sprintf("woheader/%s/%d", name, len(b)/8))
		pd := new(types.ProtoWorkObjectHeader)
		if err := proto.Unmarshal(b, pd); err != nil {
			c.fail(sig+"proto/unmarshal", err.Error())
			return
		}
		y := new(types.WorkObjectHeader)
		if err := y.ProtoDecode(pd, loc); err != nil {
			c.fail(sig+"proto/decode-own-bytes", err.Error())
		} else {
			if y.Hash() != hash || y.SealHash() != seal {
				c.fail(sig+"proto/hash-differs", fmt.Sprintf("hash %s vs %s, seal %s vs %s", hash.Hex(), y.Hash().Hex(), seal.Hex(), y.SealHash().Hex()))
			}
			if v := jsonOf(y.RPCMarshalWorkObjectHeader("v2")); v != view {
				c.fail(sig+"proto/object-differs", fmt.Sprintf("before %s\nafter  %s", view, v))
			}
			if b2, _ := marshalWh(y); !bytes.Equal(b, b2) {
				c.fail(sig+"proto/reencode-differs", fmt.Sprintf("%x\n%x", b, b2))
			}
			// optional byte strings: absent and present-and-empty are different encodings (and hashes); the state must survive
			if a, d := wh.AuxPow(), y.AuxPow(); a != nil && d != nil {
				for _, f := range []struct {
					n    string
					x, y []byte
				}{{"auxpow2", a.AuxPow2(), d.AuxPow2()}, {"signature", a.Signature(), d.Signature()}, {"transaction", a.Transaction(), d.Transaction()}} {
					c.rep.Count("auxpow-opt:" + f.n + ":" + optState(f.x))
					if optState(f.x) != optState(f.y) {
						c.fail(sig+"proto/optional-bytes-state-differs/"+f.n, fmt.Sprintf("%s was %s, decoded as %s", f.n, optState(f.x), optState(f.y)))
					}
				}
			} else if (a == nil) != (d == nil) {
				c.fail(sig+"proto/auxpow-presence-differs", "AuxPow present on one side only")
			}
		}
		// an in-memory copy is the same object: same encoding, same identity
		if cp := types.CopyWorkObjectHeader(wh); cp.Hash() != hash || cp.SealHash() != seal {
			cls := ""
			if a, d := wh.AuxPow(), cp.AuxPow(); a != nil && d != nil &&
				(optState(a.AuxPow2()) != optState(d.AuxPow2()) || optState(a.Signature()) != optState(d.Signature()) || optState(a.Transaction()) != optState(d.Transaction())) {
				cls = "/auxpow-nil-bytes-become-empty"
			}
			c.fail(sig+"copy/hash-differs"+cls, fmt.Sprintf("CopyWorkObjectHeader changes the identity: hash %s vs %s, seal %s vs %s", hash.Hex(), cp.Hash().Hex(), seal.Hex(), cp.SealHash().Hex()))
		} else if cb, _ := marshalWh(cp); !bytes.Equal(cb, b) {
			c.fail(sig+"copy/encoding-differs", "CopyWorkObjectHeader changes the encoding")
		}
		c.protoCheck(c.msgByGo(pe), pe.ProtoReflect(), "woheader "+name)
		// identity: (Hash, SealHash) -- after the fork Hash() is the hash of the AuxPow alone, which commits to
		// SealHash() through its coinbase; a field mutation must change at least the seal hash, and the bytes
		muts := whMuts(name)
		for k := range muts {
			m := types.CopyWorkObjectHeader(wh)
			muts[k].f(m, r, loc)
			mb, _ := marshalWh(m)
			if bytes.Equal(mb, b) {
				c.fail(sig+"mutation/same-bytes/"+muts[k].name, "changing "+muts[k].name+" leaves the encoding unchanged")
			}
			if m.Hash() == hash && m.SealHash() == seal {
				c.fail(sig+"mutation/same-hash/"+muts[k].name, "changing "+muts[k].name+" leaves Hash and SealHash unchanged")
			}
			c.rep.Count("mutation:woheader." + muts[k].name)
		}
	}
}

// ---------- work objects in each view ----------

func genTxs(r *hlib.Rng, loc common.Location, max int, kinds ...string) types.Transactions {
	txs := types.Transactions{}
	for i, n := 0, r.Intn(max+1); i < n; i++ {
		txs = append(txs, genTx(r, kinds[r.Intn(len(kinds))], loc))
	}
	return txs
}

func genWorkObject(r *hlib.Rng, loc common.Location) *types.WorkObject {
	regime := []string{"pre", "pre", "transition", "kawpow"}[r.Intn(4)]
	wh := genWoHeader(r, loc, regime)
	var uncles []*types.WorkObjectHeader
	for i, n := 0, r.Intn(3); i < n; i++ {
		uncles = append(uncles, genWoHeader(r, loc, []string{"pre", "transition", "kawpow"}[r.Intn(3)]))
	}
	manifest := types.BlockManifest{}
	for i, n := 0, r.Intn(3); i < n; i++ {
		manifest = append(manifest, genHash(r))
	}
	interlink := common.Hashes{}
	for i, n := 0, r.Intn(3); i < n; i++ {
		interlink = append(interlink, genHash(r))
	}
	body := types.NewWoBody(genHeader(r), genTxs(r, loc, 3, "Quai", "Qi", "External"), genTxs(r, loc, 2, "External"), uncles, manifest, interlink)
	var tx *types.Transaction
	if r.Chance(40) {
		tx = genTx(r, "Quai", loc)
	}
	return types.NewWorkObject(wh, body, tx)
}

func marshalWo(wo *types.WorkObject, view types.WorkObjectView) ([]byte, *types.ProtoWorkObject) {
	pe, err := wo.ProtoEncode(view)
	if err != nil {
		panic(err)
	}
	b, _ := proto.Marshal(pe)
	return b, pe
}

func genWorkObjectMon(c *ctx) *gen {
	names := []string{"block", "header", "petx", "share", "p2p-block", "p2p-header", "p2p-share", "rawdb"}
	return &gen{kind: "workobject", names: names, run: func(c *ctx, name string, r *hlib.Rng) {
		loc := genLoc(r)
		full := genWorkObject(r, loc)
		sig := "workobject/" + name + "/"
		var x *types.WorkObject
		var view types.WorkObjectView
		switch name {
		case "block", "p2p-block", "rawdb":
			x, view = full, types.BlockObject
		case "header", "p2p-header":
			x, view = full.ConvertToHeaderView().WorkObject, types.HeaderObject
		case "petx":
			// the PEtx view carries the work object header and the body header only (no wo.tx)
			pv := full.ConvertToPEtxView()
			x, view = types.NewWorkObject(pv.WorkObjectHeader(), pv.Body(), nil), types.PEtxObject
		case "share", "p2p-share":
			x, view = full.ConvertToWorkObjectShareView(full.Transactions()).WorkObject, types.WorkShareTxObject
		}
		hash := x.Hash()
		b, pe := marshalWo(x, view)
		c.rep.Nontrivial(fmt.Sprintf("workobject/%s/%d", name, len(b)/64))
		c.rep.Count(fmt.Sprintf("wo-size:%d", len(b)/512*512))
		check := func(y *types.WorkObject, how string) {
			if y.Hash() != hash {
				c.fail(sig+how+"/hash-differs", fmt.Sprintf("%s vs %s", hash.Hex(), y.Hash().Hex()))
			}
			if y.Body() != nil && y.Body().Header() != nil && x.Body().Header() != nil && y.Body().Header().Hash() != x.Body().Header().Hash() {
				c.fail(sig+how+"/body-header-hash-differs", "Header().Hash() changed")
			}
			if b2, _ := marshalWo(y, view); !bytes.Equal(b, b2) {
				c.fail(sig+how+"/reencode-differs", fmt.Sprintf("encode(decode b) != b (%d vs %d bytes)", len(b), len(b2)))
			}
			if v, w := bodyView(x), bodyView(y); v != w {
				c.fail(sig+how+"/body-differs", fmt.Sprintf("before %s\nafter  %s", v, w))
			}
			if len(y.Transactions()) != len(x.Transactions()) {
				c.fail(sig+how+"/tx-count-differs", fmt.Sprintf("%d vs %d", len(x.Transactions()), len(y.Transactions())))
			} else {
				for i := range x.Transactions() {
					if x.Transactions()[i].Hash() != y.Transactions()[i].Hash() {
						c.fail(sig+how+"/tx-hash-differs", fmt.Sprintf("tx %d", i))
					}
				}
			}
		}
		switch name {
		case "block", "header", "petx", "share":
			pd := new(types.ProtoWorkObject)
			if err := proto.Unmarshal(b, pd); err != nil {
				c.fail(sig+"proto/unmarshal", err.Error())
				return
			}
			y := new(types.WorkObject)
			if err := y.ProtoDecode(pd, loc, view); err != nil {
				c.fail(sig+"proto/decode-own-bytes", err.Error())
			} else {
				check(y, "proto")
			}
			if len(b) < 1500 {
				c.protoCheck(c.msgByGo(pe), pe.ProtoReflect(), "workobject "+name)
			}
		case "p2p-block", "p2p-header", "p2p-share":
			var data, typ interface{}
			switch name {
			case "p2p-block":
				data, typ = x.ConvertToBlockView(), &types.WorkObjectBlockView{}
			case "p2p-header":
				data, typ = &types.WorkObjectHeaderView{WorkObject: x}, &types.WorkObjectHeaderView{}
			default:
				data, typ = &types.WorkObjectShareView{WorkObject: x}, &types.WorkObjectShareView{}
			}
			wire, err := pb.ConvertAndMarshal(data)
			if err != nil {
				c.fail(sig+"encode-error", err.Error())
				return
			}
			var out interface{}
			if err := pb.UnmarshalAndConvert(wire, loc, &out, typ); err != nil {
				c.fail(sig+"decode-own-bytes", err.Error())
				return
			}
			var y *types.WorkObject
			switch v := out.(type) {
			case types.WorkObjectBlockView:
				y = v.WorkObject
			case types.WorkObjectHeaderView:
				y = v.WorkObject
			case types.WorkObjectShareView:
				y = v.WorkObject
			}
			check(y, "p2p")
			wire2, _ := pb.ConvertAndMarshal(data)
			if !bytes.Equal(wire, wire2) {
				c.fail(sig+"nondeterministic", "two ConvertAndMarshal differ")
			}
		case "rawdb":
			db := rawdb.NewMemoryDatabase(log.Global)
			// zone number is what the key is built from
			rawdb.WriteWorkObject(db, hash, x, types.BlockObject, common.ZONE_CTX)
			y := rawdb.ReadWorkObject(db, x.NumberU64(common.ZONE_CTX), hash, types.BlockObject)
			if y == nil {
				c.fail(sig+"read-nil", "ReadWorkObject returns nil for what WriteWorkObject stored")
				return
			}
			// the stored form has no wo.tx; compare header and body
			if y.Hash() != hash {
				c.fail(sig+"hash-differs", fmt.Sprintf("%s vs %s", hash.Hex(), y.Hash().Hex()))
			}
			x2 := types.NewWorkObject(x.WorkObjectHeader(), x.Body(), nil)
			if v, w := bodyView(x2), bodyView(y); v != w {
				c.fail(sig+"body-view-differs", fmt.Sprintf("before %s\nafter  %s", v, w))
			}
			bb, _ := proto.Marshal(mustBody(x.Body(), types.BlockObject))
			bb2, _ := proto.Marshal(mustBody(y.Body(), types.BlockObject))
			if !bytes.Equal(bb, bb2) {
				c.fail(sig+"body-differs", "body read back encodes differently")
			}
			hb, _ := marshalWh(x.WorkObjectHeader())
			hb2, _ := marshalWh(y.WorkObjectHeader())
			if !bytes.Equal(hb, hb2) {
				c.fail(sig+"header-differs", "header read back encodes differently")
			}
		}
	}}
}

// bodyView projects the parts of a work object body that are lists of identities
func bodyView(wo *types.WorkObject) string {
	if wo.Body() == nil {
		return "nil"
	}
	var sb strings.Builder
	for _, t := range wo.Body().Transactions() {
		sb.WriteString(" tx:" + t.Hash().Hex())
	}
	for _, t := range wo.Body().OutboundEtxs() {
		sb.WriteString(" etx:" + t.Hash().Hex())
	}
	for _, u := range wo.Body().Uncles() {
		sb.WriteString(" uncle:" + u.Hash().Hex() + "/" + u.SealHash().Hex())
	}
	for _, h := range wo.Body().Manifest() {
		sb.WriteString(" manifest:" + h.Hex())
	}
	for _, h := range wo.Body().InterlinkHashes() {
		sb.WriteString(" interlink:" + h.Hex())
	}
	if wo.Tx() != nil {
		sb.WriteString(" wotx:" + wo.Tx().Hash().Hex())
	}
	return sb.String()
}

func mustBody(b *types.WorkObjectBody, v types.WorkObjectView) *types.ProtoWorkObjectBody {
	pe, err := b.ProtoEncode(v)
	if err != nil {
		panic(err)
	}
	return pe
}

// ---------- receipts, pending ETXs, termini through rawdb ----------

func genReceipt(r *hlib.Rng, loc common.Location) *types.Receipt {
	rc := &types.Receipt{CumulativeGasUsed: genU64(r), GasUsed: genU64(r), TxHash: genHash(r), Status: uint64(r.Intn(3))}
	if r.Chance(30) {
		rc.ContractAddress = genAddress(r, loc)
	}
	for i, n := 0, r.Intn(3); i < n; i++ {
		l := &types.Log{Address: genAddress(r, loc), Data: genData(r)}
		for j, m := 0, r.Intn(4); j < m; j++ {
			l.Topics = append(l.Topics, genHash(r))
		}
		rc.Logs = append(rc.Logs, l)
	}
	rc.OutboundEtxs = genTxs(r, loc, 2, "External")
	return rc
}

func genStorageMon(c *ctx) *gen {
	return &gen{kind: "storage", names: []string{"receipts", "pendingEtxs", "pendingEtxsRollup", "termini", "manifest", "interlink"}, run: func(c *ctx, name string, r *hlib.Rng) {
		loc := genLoc(r)
		db := rawdb.NewMemoryDatabase(log.Global)
		sig := "storage/" + name + "/"
		c.rep.Nontrivial(fmt.Sprintf("storage/%s/%d", name, r.Intn(1<<20)))
		switch name {
		case "receipts":
			var rs types.ReceiptsForStorage
			for i, n := 0, r.Intn(4); i < n; i++ {
				rs = append(rs, (*types.ReceiptForStorage)(genReceipt(r, loc)))
			}
			pe, err := rs.ProtoEncode()
			if err != nil {
				c.fail(sig+"encode-error", err.Error())
				return
			}
			b, _ := proto.Marshal(pe)
			pd := new(types.ProtoReceiptsForStorage)
			proto.Unmarshal(b, pd)
			var back types.ReceiptsForStorage
			if err := back.ProtoDecode(pd, loc); err != nil {
				c.fail(sig+"decode-own-bytes", err.Error())
				return
			}
			pe2, _ := back.ProtoEncode()
			if b2, _ := proto.Marshal(pe2); !bytes.Equal(b, b2) {
				c.fail(sig+"reencode-differs", fmt.Sprintf("%x\n%x", b, b2))
			}
			if len(back) != len(rs) {
				c.fail(sig+"count-differs", "")
			} else {
				for i := range rs {
					a, z := (*types.Receipt)(rs[i]), (*types.Receipt)(back[i])
					if a.CumulativeGasUsed != z.CumulativeGasUsed || a.GasUsed != z.GasUsed || a.TxHash != z.TxHash ||
						!bytes.Equal(a.ContractAddress.Bytes(), z.ContractAddress.Bytes()) || len(a.Logs) != len(z.Logs) || len(a.OutboundEtxs) != len(z.OutboundEtxs) {
						c.fail(sig+"object-differs", fmt.Sprintf("receipt %d: %+v vs %+v", i, a, z))
					}
					if a.Status != z.Status {
						cls := ""
						if a.Status == types.ReceiptStatusLocked && z.Status == types.ReceiptStatusSuccessful {
							cls = "/locked-read-back-as-successful"
						}
						c.fail(sig+"status-differs"+cls, fmt.Sprintf("receipt %d: status %d stored, %d read back", i, a.Status, z.Status))
					}
				}
			}
			if len(b) < 1500 {
				c.protoCheck(c.msgByGo(pe), pe.ProtoReflect(), "receipts")
			}
			// rawdb
			blockHash, number := genHash(r), uint64(r.Intn(1000))
			var plain types.Receipts
			for _, x := range rs {
				plain = append(plain, (*types.Receipt)(x))
			}
			rawdb.WriteReceipts(db, blockHash, number, plain)
			got := rawdb.ReadRawReceipts(db, blockHash, number)
			if len(got) != len(plain) {
				c.fail(sig+"rawdb/count-differs", fmt.Sprintf("%d vs %d", len(plain), len(got)))
			} else {
				for i := range got {
					if got[i].TxHash != plain[i].TxHash || got[i].GasUsed != plain[i].GasUsed || len(got[i].Logs) != len(plain[i].Logs) {
						c.fail(sig+"rawdb/object-differs", fmt.Sprintf("receipt %d", i))
					}
					if got[i].Status != plain[i].Status {
						cls := ""
						if plain[i].Status == types.ReceiptStatusLocked && got[i].Status == types.ReceiptStatusSuccessful {
							cls = "/locked-read-back-as-successful"
						}
						c.fail(sig+"rawdb/status-differs"+cls, fmt.Sprintf("receipt %d: status %d written, %d read", i, plain[i].Status, got[i].Status))
					}
				}
			}
		case "pendingEtxs", "pendingEtxsRollup":
			wo := genWorkObject(r, loc).ConvertToPEtxView()
			etxs := genTxs(r, loc, 3, "External")
			var b, b2 []byte
			var hashBefore, hashAfter common.Hash
			if name == "pendingEtxs" {
				p := types.PendingEtxs{Header: wo, OutboundEtxs: etxs}
				pe, err := p.ProtoEncode()
				if err != nil {
					c.fail(sig+"encode-error", err.Error())
					return
				}
				b, _ = proto.Marshal(pe)
				rawdb.WritePendingEtxs(db, p)
				got := rawdb.ReadPendingEtxs(db, wo.Hash())
				if got == nil {
					c.fail(sig+"rawdb/read-nil", "ReadPendingEtxs returns nil for what WritePendingEtxs stored")
					return
				}
				pe2, _ := got.ProtoEncode()
				b2, _ = proto.Marshal(pe2)
				hashBefore, hashAfter = wo.Hash(), got.Header.Hash()
				if len(b) < 1500 {
					c.protoCheck(c.msgByGo(pe), pe.ProtoReflect(), name)
				}
			} else {
				p := types.PendingEtxsRollup{Header: wo, EtxsRollup: etxs}
				pe, err := p.ProtoEncode()
				if err != nil {
					c.fail(sig+"encode-error", err.Error())
					return
				}
				b, _ = proto.Marshal(pe)
				rawdb.WritePendingEtxsRollup(db, p)
				got := rawdb.ReadPendingEtxsRollup(db, wo.Hash())
				if got == nil {
					c.fail(sig+"rawdb/read-nil", "ReadPendingEtxsRollup returns nil for what WritePendingEtxsRollup stored")
					return
				}
				pe2, _ := got.ProtoEncode()
				b2, _ = proto.Marshal(pe2)
				hashBefore, hashAfter = wo.Hash(), got.Header.Hash()
			}
			if !bytes.Equal(b, b2) {
				c.fail(sig+"rawdb/reencode-differs", "what is read back encodes differently")
			}
			if hashBefore != hashAfter {
				c.fail(sig+"rawdb/hash-differs", "")
			}
		case "termini":
			t := types.EmptyTermini()
			for i := 0; i < common.MaxWidth; i++ {
				t.SetDomTerminiAtIndex(genHash(r), i)
				t.SetSubTerminiAtIndex(genHash(r), i)
			}
			key := genHash(r)
			rawdb.WriteTermini(db, key, t)
			got := rawdb.ReadTermini(db, key)
			if got == nil || !hashesEq(got.DomTermini(), t.DomTermini()) || !hashesEq(got.SubTermini(), t.SubTermini()) {
				c.fail(sig+"rawdb/object-differs", "")
			}
		case "manifest":
			m := types.BlockManifest{}
			for i, n := 0, r.Intn(5); i < n; i++ {
				m = append(m, genHash(r))
			}
			key := genHash(r)
			rawdb.WriteManifest(db, key, m)
			got := rawdb.ReadManifest(db, key)
			if len(m) > 0 && !hashesEq(got, m) {
				c.fail(sig+"rawdb/object-differs", fmt.Sprintf("%v vs %v", m, got))
			}
		case "interlink":
			m := common.Hashes{}
			for i, n := 0, r.Intn(5); i < n; i++ {
				m = append(m, genHash(r))
			}
			key := genHash(r)
			rawdb.WriteInterlinkHashes(db, key, m)
			got := rawdb.ReadInterlinkHashes(db, key)
			if len(m) > 0 && !hashesEq(got, m) {
				c.fail(sig+"rawdb/object-differs", fmt.Sprintf("%v vs %v", m, got))
			}
		}
	}}
}

// ---------- p2p envelopes ----------

func genP2PMon(c *ctx) *gen {
	return &gen{kind: "p2p", names: []string{"request-hash", "request-number", "response-hash", "response-header", "response-block", "response-blocks"}, run: func(c *ctx, name string, r *hlib.Rng) {
		loc := genLoc(r)
		id := uint32(r.Next())
		sig := "p2p/" + name + "/"
		c.rep.Nontrivial(fmt.Sprintf("p2p/%s/%d", name, id%64))
		switch name {
		case "response-block", "response-blocks":
			c.p2pBlocks(name, r, loc, id)
		case "request-hash", "request-number":
			var req interface{}
			h := genHash(r)
			n := genBig(r)
			if name == "request-hash" {
				req = h
			} else {
				req = n
			}
			var typ interface{} = &types.WorkObjectHeaderView{}
			if r.Bool() {
				typ = &types.WorkObjectBlockView{}
			}
			wire, err := pb.EncodeQuaiRequest(id, loc, req, typ)
			if err != nil {
				c.fail(sig+"encode-error", err.Error())
				return
			}
			msg, err := pb.DecodeQuaiMessage(wire)
			if err != nil {
				c.fail(sig+"decode-own-bytes", err.Error())
				return
			}
			gid, gtyp, gloc, gdata, err := pb.DecodeQuaiRequest(msg.GetRequest())
			if err != nil {
				c.fail(sig+"decode-request", err.Error())
				return
			}
			ok := gid == id && gloc.Equal(loc) && fmt.Sprintf("%T", gtyp) == fmt.Sprintf("%T", typ)
			switch v := gdata.(type) {
			case *common.Hash:
				ok = ok && name == "request-hash" && *v == h
			case common.Hash:
				ok = ok && name == "request-hash" && v == h
			case *big.Int:
				ok = ok && name == "request-number" && v.Cmp(n) == 0
			default:
				ok = false
			}
			if !ok {
				c.fail(sig+"object-differs", fmt.Sprintf("id %d/%d loc %v/%v data %v (%T) type %T/%T", id, gid, loc, gloc, gdata, gdata, typ, gtyp))
			}
			c.protoCheck(c.msgByGo(msg), msg.ProtoReflect(), name)
		default:
			var data interface{}
			var typ interface{}
			h := genHash(r)
			var wo *types.WorkObject
			if name == "response-hash" {
				data, typ = h, &common.Hash{}
			} else {
				wo = genWorkObject(r, loc).ConvertToHeaderView().WorkObject
				data, typ = &types.WorkObjectHeaderView{WorkObject: wo}, &types.WorkObjectHeaderView{}
			}
			wire, err := pb.EncodeQuaiResponse(id, loc, typ, data)
			if err != nil {
				c.fail(sig+"encode-error", err.Error())
				return
			}
			msg, err := pb.DecodeQuaiMessage(wire)
			if err != nil {
				c.fail(sig+"decode-own-bytes", err.Error())
				return
			}
			gid, gdata, err := pb.DecodeQuaiResponse(msg.GetResponse())
			if err != nil {
				c.fail(sig+"decode-response", err.Error())
				return
			}
			ok := gid == id
			switch v := gdata.(type) {
			case *common.Hash:
				ok = ok && name == "response-hash" && *v == h
			case common.Hash:
				ok = ok && name == "response-hash" && v == h
			case *types.WorkObjectHeaderView:
				ok = ok && wo != nil && v.WorkObject.Hash() == wo.Hash()
			default:
				ok = false
			}
			if !ok {
				c.fail(sig+"object-differs", fmt.Sprintf("id %d/%d data %T", id, gid, gdata))
			}
			if len(wire) < 1500 {
				c.protoCheck(c.msgByGo(msg), msg.ProtoReflect(), name)
			}
		}
	}}
}

// p2pBlocks: the block-carrying responses (a single WorkObjectBlockView, and the block-range answer
// []*WorkObjectBlockView with 0..4 DISTINCT blocks; the fixed corpus uses 3). Every element must come back as itself
// (hash, body, re-encoding), in order, the decoded response must re-encode to the bytes that were sent, and the decoded
// elements must be distinct objects that share no memory (a decoder that reuses one element object for the whole list
// returns n aliases of the last block).
func (c *ctx) p2pBlocks(name string, r *hlib.Rng, loc common.Location, id uint32) {
	sig := "p2p/" + name + "/"
	n := 1
	if name == "response-blocks" {
		n = r.Intn(5)
		if c.cur.Seed == corpusSeed {
			n = 3
		}
	}
	var sent []*types.WorkObjectBlockView
	for i := 0; i < n; i++ {
		sent = append(sent, &types.WorkObjectBlockView{WorkObject: genWorkObject(r, loc)})
	}
	c.rep.Count(fmt.Sprintf("p2p-blocks:%d", n))
	var data, typ interface{}
	if name == "response-block" {
		data, typ = sent[0], &types.WorkObjectBlockView{}
	} else {
		data, typ = sent, []*types.WorkObjectBlockView{}
	}
	wire, err := pb.EncodeQuaiResponse(id, loc, typ, data)
	if err != nil {
		c.fail(sig+"encode-error", err.Error())
		return
	}
	msg, err := pb.DecodeQuaiMessage(wire)
	if err != nil {
		c.fail(sig+"decode-own-bytes", err.Error())
		return
	}
	gid, gdata, err := pb.DecodeQuaiResponse(msg.GetResponse())
	if err != nil {
		if n == 0 {
			return // an empty range is answered with EmptyResponse
		}
		c.fail(sig+"decode-response", err.Error())
		return
	}
	var got []*types.WorkObjectBlockView
	switch v := gdata.(type) {
	case *types.WorkObjectBlockView:
		got = []*types.WorkObjectBlockView{v}
	case []*types.WorkObjectBlockView:
		got = v
	default:
		c.fail(sig+"object-differs", fmt.Sprintf("decoded as %T", gdata))
		return
	}
	if gid != id || len(got) != len(sent) {
		c.fail(sig+"object-differs", fmt.Sprintf("id %d/%d, %d elements sent, %d decoded", id, gid, len(sent), len(got)))
		return
	}
	for i := range sent {
		if got[i] == nil || got[i].WorkObject == nil {
			c.fail(sig+"element-missing", fmt.Sprintf("element %d of %d is nil", i, n))
			return
		}
		if got[i].WorkObject.Hash() != sent[i].WorkObject.Hash() {
			c.fail(sig+"element-hash-differs", fmt.Sprintf("element %d of %d: sent %s decoded %s", i, n, sent[i].WorkObject.Hash().Hex(), got[i].WorkObject.Hash().Hex()))
		}
		if a, b := woFullView(sent[i].WorkObject, types.BlockObject), woFullView(got[i].WorkObject, types.BlockObject); a != b {
			c.fail(sig+"element-differs", fmt.Sprintf("element %d of %d:\nsent    %s\ndecoded %s", i, n, clip(a), clip(b)))
		}
	}
	// the decoded elements are distinct objects with disjoint memory
	for i := range got {
		for j := i + 1; j < len(got); j++ {
			if got[i] == got[j] || got[i].WorkObject == got[j].WorkObject {
				c.fail(sig+"elements-are-one-object", fmt.Sprintf("elements %d and %d of the decoded list are the same object", i, j))
				continue
			}
			var o []overlap
			for _, x := range overlaps(regionsOf(got[i]).regs, regionsOf(got[j]).regs) {
				if !strings.Contains(x.label, "->") { // a package-level value reached from both: the alias monitors' business (known finding QuaiTx.Value->common.Big0)
					o = append(o, x)
				}
			}
			if len(o) > 0 {
				c.fail(sig+"elements-share-memory/"+o[0].label, fmt.Sprintf("elements %d and %d share %d regions, first %s", i, j, len(o), o[0].label))
			}
		}
	}
	// re-encoding what was decoded gives the bytes that were sent
	var data2 interface{} = got
	if name == "response-block" {
		data2 = got[0]
	}
	if wire2, err := pb.EncodeQuaiResponse(id, loc, typ, data2); err != nil || !bytes.Equal(wire, wire2) {
		c.fail(sig+"reencode-differs", fmt.Sprintf("re-encoding the decoded response: err %v, %d vs %d bytes", err, len(wire), len(wire2)))
	}
	c.guardGlobals("p2p/" + name)
}

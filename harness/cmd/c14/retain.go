package main

// Retention of encodings ("retain" generator).
//
// "Encoding is deterministic" and decode(encode x) == x are statements about the byte string a
// caller HOLDS, not only about the instant the encoder returns: the bytes obtained for object A
// must stay A's bytes while the node encodes B, C, ... (a JSON-RPC batch of raw transactions, a
// list of values handed to a trie, a database batch). For every encode API that returns bytes:
//
//	r[i] := encode(x_i) for a batch of different objects, every result kept (no copy), a private
//	snapshot taken at once; then "churn": every other user of the encoder's scratch state runs
//	(MarshalBinary, Transaction.EncodeRLP, Receipt.EncodeRLP, DeriveSha of transactions and of
//	receipts, Hash, protobuf, JSON) on other objects; then
//	(a) r[i] still equals its snapshot,
//	(b) r[i] still decodes to x_i (projection / hash), and encode(x_i) again gives the snapshot,
//	(c) the results do not share memory with each other (graph.go),
//	(d) overwriting every r[i] in place does not change a later encode(x_i).
//
// The same for byte strings built by the key constructors of rawdb and for objects read back
// from the database after further writes.

import (
	"bytes"
	"fmt"
	"math/big"

	"google.golang.org/protobuf/proto"

	"github.com/dominant-strategies/go-quai/common"
	"github.com/dominant-strategies/go-quai/core/rawdb"
	"github.com/dominant-strategies/go-quai/core/types"
	"github.com/dominant-strategies/go-quai/log"
	"github.com/dominant-strategies/go-quai/p2p/pb"
	"github.com/dominant-strategies/go-quai/rlp"
	"github.com/dominant-strategies/go-quai/trie"

	"verifharness/hlib"
)

type retItem struct {
	what   string
	enc    func() ([]byte, error)
	verify func(b []byte) string // "" when b is (still) a correct encoding of the item's own object
}

// churn runs every user of the encoders' shared scratch state on objects unrelated to the batch
func churn(r *hlib.Rng, loc common.Location) {
	txs := types.Transactions{genTx(r, "External", loc), genTx(r, "Quai", loc), genTx(r, "Qi", loc), genTx(r, "External", loc)}
	var rcs types.Receipts
	for i := 0; i < 3; i++ {
		rc := genReceipt(r, loc)
		rc.Type = types.QuaiTxType
		rcs = append(rcs, rc)
	}
	for _, t := range txs {
		t.MarshalBinary()
		rlp.EncodeToBytes(t)
		marshalTx(t)
		safeJSON(t)
		t.Hash()
	}
	for _, rc := range rcs {
		rlp.EncodeToBytes(rc)
	}
	rlp.EncodeToBytes(txs)
	types.DeriveSha(txs, trie.NewStackTrie(nil))
	types.DeriveSha(rcs, trie.NewStackTrie(nil))
	h := genHeader(r)
	marshalHeader(h)
	h.Hash()
	wh := genWoHeader(r, loc, "kawpow")
	marshalWh(wh)
	wh.Hash()
	wh.SealHash()
}

func (c *ctx) retain(api string, items []retItem, r *hlib.Rng, loc common.Location) {
	sig := "retain/" + api + "/"
	c.rep.Count("retain:" + api)
	res := make([][]byte, len(items))
	snap := make([][]byte, len(items))
	ok := make([]bool, len(items))
	for i, it := range items {
		b, err := it.enc()
		if err != nil {
			continue // the round-trip monitors own encode errors
		}
		res[i], snap[i], ok[i] = b, cloneBytes(b), true
		if i == 0 {
			// the shortest history: one other encode between obtaining and using the bytes
			churn(r, loc)
		}
	}
	churn(r, loc)
	for i, it := range items {
		if !ok[i] {
			continue
		}
		if !bytes.Equal(res[i], snap[i]) {
			c.fail(sig+"bytes-changed-after-later-encodes", fmt.Sprintf("%s (item %d of %d): the byte string returned by %s changed while other objects were being encoded (the result aliases encoder scratch memory)\nreturned %x\nnow      %x", it.what, i, len(items), api, clipB(snap[i]), clipB(res[i])))
		}
		if it.verify != nil {
			if msg := it.verify(res[i]); msg != "" {
				c.fail(sig+"retained-bytes-no-longer-own-object", fmt.Sprintf("%s (item %d of %d): %s", it.what, i, len(items), msg))
			}
		}
		if again, err := it.enc(); err != nil || !bytes.Equal(again, snap[i]) {
			c.fail(sig+"later-encoding-differs", fmt.Sprintf("%s (item %d): encoding the same object again after other encodes gives different bytes (err=%v)", it.what, i, err))
		}
	}
	// (c) results are separate memory
	for i := range items {
		for j := i + 1; j < len(items); j++ {
			if ok[i] && ok[j] && len(overlaps(bytesRegion(res[i], "a"), bytesRegion(res[j], "b"))) > 0 {
				c.fail(sig+"results-share-memory", fmt.Sprintf("%s: the byte strings returned for item %d and item %d overlap in memory", items[i].what, i, j))
				break
			}
		}
	}
	// (d) the caller owns what it got
	for i := range items {
		if ok[i] {
			for k := range res[i] {
				res[i][k] ^= 0xA5
			}
		}
	}
	for i, it := range items {
		if !ok[i] {
			continue
		}
		if again, err := it.enc(); err != nil || !bytes.Equal(again, snap[i]) {
			c.fail(sig+"writing-result-changes-later-encoding", fmt.Sprintf("%s (item %d): after the caller overwrote the returned bytes, encoding the same object gives different bytes (err=%v)", it.what, i, err))
		}
	}
}

func clipB(b []byte) []byte {
	if len(b) > 96 {
		return b[:96]
	}
	return b
}

func genTxBatch(r *hlib.Rng, loc common.Location, kinds ...string) types.Transactions {
	var txs types.Transactions
	for i, n := 0, 4+r.Intn(4); i < n; i++ {
		txs = append(txs, genTx(r, kinds[(i+r.Intn(2))%len(kinds)], loc))
	}
	return txs
}

func genRetainMon(c *ctx) *gen {
	names := []string{"tx", "receipt", "header", "woheader", "workobject", "p2p", "keys", "rawdb", "decoded"}
	return &gen{kind: "retain", names: names, times: 3, run: func(c *ctx, name string, r *hlib.Rng) {
		loc := genLoc(r)
		c.rep.Nontrivial(fmt.Sprintf("retain/%s/%d", name, r.Intn(1<<20)))
		switch name {
		case "tx":
			txs := genTxBatch(r, loc, "External", "Quai", "Qi")
			var bin, stream, pbuf, js []retItem
			for _, tx := range txs {
				tx := tx
				want, hash := rlpView(tx), tx.Hash()
				full := txView(tx)
				what := fmt.Sprintf("type-%d transaction", tx.Type())
				bin = append(bin, retItem{what, tx.MarshalBinary, func(b []byte) string {
					w := new(types.Transaction)
					if err := w.UnmarshalBinary(b); err != nil {
						if rlpClass(tx) != "" {
							return "" // recorded finding of the round-trip monitor
						}
						return "retained MarshalBinary bytes no longer decode: " + err.Error()
					}
					if v := rlpView(w); v != want {
						return "retained MarshalBinary bytes decode to another transaction\nown   " + clip(want) + "\nfound " + clip(v)
					}
					if tx.Type() == types.ExternalTxType && w.Hash() != hash {
						return "retained MarshalBinary bytes decode to a transaction with another hash"
					}
					return ""
				}})
				stream = append(stream, retItem{what, func() ([]byte, error) { return rlp.EncodeToBytes(tx) }, func(b []byte) string {
					w := new(types.Transaction)
					if err := rlp.DecodeBytes(b, w); err != nil {
						if rlpClass(tx) != "" {
							return ""
						}
						return "retained rlp.EncodeToBytes bytes no longer decode: " + err.Error()
					}
					if v := rlpView(w); v != want {
						return "retained rlp.EncodeToBytes bytes decode to another transaction\nown   " + clip(want) + "\nfound " + clip(v)
					}
					return ""
				}})
				pbuf = append(pbuf, retItem{what, func() ([]byte, error) { b, _ := marshalTx(tx); return b, nil }, func(b []byte) string {
					pd := new(types.ProtoTransaction)
					w := new(types.Transaction)
					if err := proto.Unmarshal(b, pd); err != nil {
						return err.Error()
					}
					if err := w.ProtoDecode(pd, loc); err != nil {
						return err.Error()
					}
					if w.Hash() != hash || txView(w) != full {
						return "retained protobuf bytes decode to another transaction"
					}
					return ""
				}})
				js = append(js, retItem{what, func() ([]byte, error) { return safeJSON(tx) }, func(b []byte) string {
					w := new(types.Transaction)
					if err := w.UnmarshalJSON(b); err != nil {
						return "" // JSON decode failures are recorded findings of the round-trip monitor
					}
					if w.Hash() != hash {
						return "retained JSON decodes to a transaction with another hash"
					}
					return ""
				}})
			}
			c.retain("Transaction.MarshalBinary", bin, r, loc)
			c.retain("rlp.EncodeToBytes(Transaction)", stream, r, loc)
			c.retain("Transaction.ProtoEncode+Marshal", pbuf, r, loc)
			c.retain("Transaction.MarshalJSON", js, r, loc)
			// the list form: what the state's ETX queue and the trie derive from
			c.retain("rlp.EncodeToBytes(Transactions)", []retItem{
				{"list", func() ([]byte, error) { return rlp.EncodeToBytes(txs) }, nil},
				{"list tail", func() ([]byte, error) { return rlp.EncodeToBytes(txs[1:]) }, nil}}, r, loc)
		case "receipt":
			var its, store []retItem
			for i, n := 0, 4+r.Intn(3); i < n; i++ {
				rc := genReceipt(r, loc)
				rc.Type = types.QuaiTxType
				if rc.Status == types.ReceiptStatusLocked {
					rc.Status = types.ReceiptStatusFailed
				}
				its = append(its, retItem{"receipt", func() ([]byte, error) { return rlp.EncodeToBytes(rc) }, func(b []byte) string {
					w := new(types.Receipt)
					if err := rlp.DecodeBytes(b, w); err != nil {
						return "retained Receipt RLP no longer decodes: " + err.Error()
					}
					if w.Status != rc.Status || w.CumulativeGasUsed != rc.CumulativeGasUsed || len(w.Logs) != len(rc.Logs) {
						return "retained Receipt RLP decodes to another receipt"
					}
					return ""
				}})
				rs := types.ReceiptsForStorage{(*types.ReceiptForStorage)(rc)}
				store = append(store, retItem{"receipts for storage", func() ([]byte, error) {
					pe, err := rs.ProtoEncode()
					if err != nil {
						return nil, err
					}
					return proto.Marshal(pe)
				}, func(b []byte) string {
					pd := new(types.ProtoReceiptsForStorage)
					var back types.ReceiptsForStorage
					if err := proto.Unmarshal(b, pd); err != nil {
						return err.Error()
					}
					if err := back.ProtoDecode(pd, loc); err != nil {
						return err.Error()
					}
					if len(back) != 1 || back[0].TxHash != rc.TxHash || back[0].GasUsed != rc.GasUsed {
						return "retained storage receipt bytes decode to another receipt"
					}
					return ""
				}})
			}
			c.retain("rlp.EncodeToBytes(Receipt)", its, r, loc)
			c.retain("ReceiptsForStorage.ProtoEncode+Marshal", store, r, loc)
		case "header":
			var pbuf, js []retItem
			for i, n := 0, 3+r.Intn(3); i < n; i++ {
				h := genHeader(r)
				hash := h.Hash()
				pbuf = append(pbuf, retItem{"header", func() ([]byte, error) { b, _ := marshalHeader(h); return b, nil }, func(b []byte) string {
					pd := new(types.ProtoHeader)
					y := new(types.Header)
					if err := proto.Unmarshal(b, pd); err != nil {
						return err.Error()
					}
					if err := y.ProtoDecode(pd, loc); err != nil {
						return err.Error()
					}
					if y.Hash() != hash {
						return "retained header bytes decode to a header with another hash"
					}
					return ""
				}})
				js = append(js, retItem{"header", h.MarshalJSON, func(b []byte) string {
					y := new(types.Header)
					if err := y.UnmarshalJSON(b); err != nil {
						return "" // recorded finding of the round-trip monitor
					}
					if y.Hash() != hash {
						return "retained header JSON decodes to a header with another hash"
					}
					return ""
				}})
			}
			c.retain("Header.ProtoEncode+Marshal", pbuf, r, loc)
			c.retain("Header.MarshalJSON", js, r, loc)
		case "woheader":
			var its []retItem
			for _, regime := range []string{"pre", "transition", "kawpow", "kawpow"} {
				wh := genWoHeader(r, loc, regime)
				hash, seal := wh.Hash(), wh.SealHash()
				its = append(its, retItem{"work object header (" + regime + ")", func() ([]byte, error) { b, _ := marshalWh(wh); return b, nil }, func(b []byte) string {
					pd := new(types.ProtoWorkObjectHeader)
					y := new(types.WorkObjectHeader)
					if err := proto.Unmarshal(b, pd); err != nil {
						return err.Error()
					}
					if err := y.ProtoDecode(pd, loc); err != nil {
						return err.Error()
					}
					if y.Hash() != hash || y.SealHash() != seal {
						return "retained work object header bytes decode to another header"
					}
					return ""
				}})
			}
			c.retain("WorkObjectHeader.ProtoEncode+Marshal", its, r, loc)
		case "workobject":
			var its, wire []retItem
			for i := 0; i < 3; i++ {
				x := genWorkObject(r, loc)
				hash := x.Hash()
				body := bodyView(x)
				its = append(its, retItem{"work object (block view)", func() ([]byte, error) { b, _ := marshalWo(x, types.BlockObject); return b, nil }, func(b []byte) string {
					pd := new(types.ProtoWorkObject)
					y := new(types.WorkObject)
					if err := proto.Unmarshal(b, pd); err != nil {
						return err.Error()
					}
					if err := y.ProtoDecode(pd, loc, types.BlockObject); err != nil {
						return err.Error()
					}
					if y.Hash() != hash || bodyView(y) != body {
						return "retained work object bytes decode to another work object"
					}
					return ""
				}})
				wire = append(wire, retItem{"work object block view on the wire", func() ([]byte, error) { return pb.ConvertAndMarshal(x.ConvertToBlockView()) }, func(b []byte) string {
					var out interface{}
					if err := pb.UnmarshalAndConvert(b, loc, &out, &types.WorkObjectBlockView{}); err != nil {
						return err.Error()
					}
					if v, ok := out.(types.WorkObjectBlockView); !ok || v.WorkObject.Hash() != hash {
						return "retained wire bytes decode to another work object"
					}
					return ""
				}})
			}
			c.retain("WorkObject.ProtoEncode+Marshal", its, r, loc)
			c.retain("pb.ConvertAndMarshal", wire, r, loc)
		case "p2p":
			var its []retItem
			for i := 0; i < 5; i++ {
				id, h, n := uint32(r.Next()), genHash(r), genBig(r)
				var req interface{} = h
				if i%2 == 1 {
					req = n
				}
				its = append(its, retItem{"request envelope", func() ([]byte, error) { return pb.EncodeQuaiRequest(id, loc, req, &types.WorkObjectHeaderView{}) }, func(b []byte) string {
					msg, err := pb.DecodeQuaiMessage(b)
					if err != nil {
						return err.Error()
					}
					gid, _, _, d, err := pb.DecodeQuaiRequest(msg.GetRequest())
					if err != nil {
						return err.Error()
					}
					same := gid == id
					switch v := d.(type) {
					case *common.Hash:
						same = same && *v == h && i%2 == 0
					case common.Hash:
						same = same && v == h && i%2 == 0
					case *big.Int:
						same = same && v.Cmp(n) == 0 && i%2 == 1
					default:
						same = false
					}
					if !same {
						return "retained request envelope decodes to another request"
					}
					return ""
				}})
				its = append(its, retItem{"response envelope", func() ([]byte, error) { return pb.EncodeQuaiResponse(id, loc, &common.Hash{}, h) }, func(b []byte) string {
					msg, err := pb.DecodeQuaiMessage(b)
					if err != nil {
						return err.Error()
					}
					gid, d, err := pb.DecodeQuaiResponse(msg.GetResponse())
					if err != nil {
						return err.Error()
					}
					same := gid == id
					switch v := d.(type) {
					case *common.Hash:
						same = same && *v == h
					case common.Hash:
						same = same && v == h
					default:
						same = false
					}
					if !same {
						return "retained response envelope decodes to another response"
					}
					return ""
				}})
			}
			c.retain("pb.EncodeQuaiRequest/Response", its, r, loc)
		case "keys":
			// key constructors append to package-level prefixes: two keys must never share a backing array
			var its []retItem
			for i := 0; i < 6; i++ {
				h, idx, den := genHash(r), genIndex16(r), genDenom(r)
				owner, ben := genAddress(r, loc), genAddress(r, loc)
				lb, epoch := byte(r.Intn(256)), uint32(r.Next())
				its = append(its,
					retItem{"UtxoKey", func() ([]byte, error) { return rawdb.UtxoKey(h, idx), nil }, func(b []byte) string {
						rh, ri, err := rawdb.ReverseUtxoKey(b)
						if err != nil || rh != h || ri != idx {
							return "retained UtxoKey no longer names its own outpoint"
						}
						return ""
					}},
					retItem{"UtxoKeyWithDenomination", func() ([]byte, error) { return rawdb.UtxoKeyWithDenomination(h, idx, den), nil }, func(b []byte) string {
						if len(b) != rawdb.UtxoKeyWithDenominationLength || !bytes.Equal(b[len(b)-35:len(b)-3], h[:]) || b[len(b)-1] != den {
							return "retained UtxoKeyWithDenomination no longer names its own outpoint"
						}
						return ""
					}},
					retItem{"CoinbaseLockupKey", func() ([]byte, error) { return rawdb.CoinbaseLockupKey(owner, ben, lb, epoch), nil }, func(b []byte) string {
						o2, b2, l2, e2, err := rawdb.ReverseCoinbaseLockupKey(b, loc)
						if err != nil || !bytes.Equal(o2.Bytes(), owner.Bytes()) || !bytes.Equal(b2.Bytes(), ben.Bytes()) || l2 != lb || e2 != epoch {
							return "retained CoinbaseLockupKey no longer names its own lockup"
						}
						return ""
					}})
			}
			c.retain("rawdb key constructors", its, r, loc)
		case "rawdb":
			// write a batch of different objects under different keys, keep writing, then read everything back
			db := rawdb.NewMemoryDatabase(log.Global)
			type stored struct {
				key  common.Hash
				etxs types.Transactions
				wo   *types.WorkObject
			}
			var all []stored
			for i := 0; i < 4; i++ {
				s := stored{key: common.BytesToHash(r.Bytes(32)), etxs: genTxs(r, loc, 3, "External"), wo: genWorkObject(r, loc)}
				rawdb.WriteInboundEtxs(db, s.key, s.etxs)
				rawdb.WriteWorkObject(db, s.wo.Hash(), s.wo, types.BlockObject, common.ZONE_CTX)
				rawdb.WritePendingEtxs(db, types.PendingEtxs{Header: s.wo.ConvertToPEtxView(), OutboundEtxs: s.etxs})
				all = append(all, s)
				churn(r, loc)
			}
			for i, s := range all {
				got := rawdb.ReadInboundEtxs(db, s.key)
				if len(got) != len(s.etxs) {
					c.fail("retain/rawdb/inbound-etxs/count-differs", fmt.Sprintf("entry %d: %d written, %d read", i, len(s.etxs), len(got)))
				} else {
					for k := range got {
						if got[k].Hash() != s.etxs[k].Hash() || txView(got[k]) != txView(s.etxs[k]) {
							c.fail("retain/rawdb/inbound-etxs/object-differs", fmt.Sprintf("entry %d etx %d read back after further writes differs\nwritten %s\nread    %s", i, k, txView(s.etxs[k]), txView(got[k])))
						}
					}
				}
				y := rawdb.ReadWorkObject(db, s.wo.NumberU64(common.ZONE_CTX), s.wo.Hash(), types.BlockObject)
				if y == nil || y.Hash() != s.wo.Hash() || bodyView(y) != bodyView(types.NewWorkObject(s.wo.WorkObjectHeader(), s.wo.Body(), nil)) {
					c.fail("retain/rawdb/workobject/object-differs", fmt.Sprintf("entry %d read back after further writes differs", i))
				}
				p := rawdb.ReadPendingEtxs(db, s.wo.Hash())
				if p == nil || p.Header.Hash() != s.wo.Hash() || txsView(p.OutboundEtxs) != txsView(s.etxs) {
					why := "not found"
					if p == nil {
						// say why: re-do the decoding step by step
						pe, err := (&types.PendingEtxs{Header: s.wo.ConvertToPEtxView(), OutboundEtxs: s.etxs}).ProtoEncode()
						if err != nil {
							why = "ProtoEncode: " + err.Error()
						} else {
							pb2, _ := proto.Marshal(pe)
							pd := new(types.ProtoPendingEtxs)
							proto.Unmarshal(pb2, pd)
							if err := new(types.PendingEtxs).ProtoDecode(pd, loc); err != nil {
								why = "ProtoDecode of its own encoding: " + err.Error()
							}
						}
					}
					if p != nil {
						why = fmt.Sprintf("header hash %s vs %s, etxs equal %v", p.Header.Hash().Hex(), s.wo.Hash().Hex(), txsView(p.OutboundEtxs) == txsView(s.etxs))
					}
					c.fail("retain/rawdb/pending-etxs/object-differs", fmt.Sprintf("entry %d read back after further writes differs: %s", i, why))
				}
			}
		case "decoded":
			// objects decoded earlier keep their identity while the node decodes, mutates and encodes others
			txs := genTxBatch(r, loc, "External", "External", "Quai", "Qi")
			if r.Chance(50) {
				// zero-valued transactions: the values for which a decoder might return a shared object
				shapeMode = "zero"
				txs = append(txs, genTx(r, "External", loc), genTx(r, "Quai", loc), genTx(r, "External", loc))
				shapeMode = ""
			}
			var held []*types.Transaction
			var want []string
			for _, tx := range txs {
				b, _ := marshalTx(tx)
				pd := new(types.ProtoTransaction)
				y := new(types.Transaction)
				if proto.Unmarshal(b, pd) != nil || y.ProtoDecode(pd, loc) != nil {
					continue
				}
				held = append(held, y) // no getter called yet: nothing cached
				want = append(want, txFullView(tx))
			}
			// the node works on other decoded objects
			for _, tx := range txs {
				b, _ := marshalTx(tx)
				pd := new(types.ProtoTransaction)
				o := new(types.Transaction)
				if proto.Unmarshal(b, pd) == nil && o.ProtoDecode(pd, loc) == nil {
					txPublicMutate(o, loc)
				}
			}
			churn(r, loc)
			for i, y := range held {
				if v := txFullView(y); v != want[i] {
					c.fail("retain/decoded/tx/object-changed-while-held", fmt.Sprintf("a transaction decoded earlier changed while other decoded transactions were mutated\nown   %s\nfound %s", clip(want[i]), clip(v)))
				}
			}
			c.guardGlobals("mutating other decoded transactions")
		}
	}}
}

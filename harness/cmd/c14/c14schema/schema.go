// Package c14schema walks the compiled protobuf descriptors of the repository
// (common, core/types, core/rawdb, p2p/pb) and numbers their messages. It is
// shared by the generator (coq/Generated/C14Schemas.v) and the C14 harness so
// that both agree on message ids and on the marshal order of fields.
package c14schema

import (
	"sort"
	"strings"

	"github.com/dominant-strategies/go-quai/common"
	"github.com/dominant-strategies/go-quai/core/rawdb"
	"github.com/dominant-strategies/go-quai/core/types"
	"github.com/dominant-strategies/go-quai/p2p/pb"
	"google.golang.org/protobuf/reflect/protoreflect"
)

type Field struct {
	Num   int
	Kind  string // u32 u64 bytes msg other
	Ref   int    // message id for Kind == msg
	Label string // opt imp rep
	Oneof int    // 0 = none, else 1 + index of the real oneof
	Why   string // for Kind == other: what it is
	FD    protoreflect.FieldDescriptor
}

type Message struct {
	ID       int
	FullName string
	Fields   []Field // in marshal order
	MD       protoreflect.MessageDescriptor
}

func (m *Message) CoqName() string { return "id_" + strings.ReplaceAll(m.FullName, ".", "_") }
func (m *Message) UsesOther() bool {
	for _, f := range m.Fields {
		if f.Kind == "other" {
			return true
		}
	}
	return false
}

// Files returns the descriptors in a fixed order.
func Files() []protoreflect.FileDescriptor {
	return []protoreflect.FileDescriptor{
		common.File_common_proto_common_proto,
		types.File_core_types_proto_block_proto,
		rawdb.File_core_rawdb_db_proto,
		pb.File_p2p_pb_quai_messages_proto,
	}
}

func collect(mds protoreflect.MessageDescriptors, out *[]protoreflect.MessageDescriptor) {
	for i := 0; i < mds.Len(); i++ {
		md := mds.Get(i)
		if md.IsMapEntry() {
			continue
		}
		*out = append(*out, md)
		collect(md.Messages(), out)
	}
}

// marshalLess is google.golang.org/protobuf/internal/order.LegacyFieldOrder (the
// order impl.MessageInfo.marshal emits fields in as soon as the message has any
// oneof, synthetic ones included; otherwise plain field-number order, which is the
// same thing when there is no real oneof).
func marshalLess(x, y protoreflect.FieldDescriptor) bool {
	in := func(fd protoreflect.FieldDescriptor) bool {
		od := fd.ContainingOneof()
		return od != nil && !od.IsSynthetic()
	}
	if in(x) != in(y) {
		return !in(x) && in(y)
	}
	if in(x) && in(y) && x.ContainingOneof() != y.ContainingOneof() {
		return x.ContainingOneof().Index() < y.ContainingOneof().Index()
	}
	return x.Number() < y.Number()
}

func Load() []*Message {
	var mds []protoreflect.MessageDescriptor
	for _, f := range Files() {
		collect(f.Messages(), &mds)
	}
	ids := map[protoreflect.FullName]int{}
	for i, md := range mds {
		ids[md.FullName()] = i
	}
	var out []*Message
	for i, md := range mds {
		m := &Message{ID: i, FullName: string(md.FullName()), MD: md}
		var fds []protoreflect.FieldDescriptor
		for j := 0; j < md.Fields().Len(); j++ {
			fds = append(fds, md.Fields().Get(j))
		}
		sort.SliceStable(fds, func(a, b int) bool { return marshalLess(fds[a], fds[b]) })
		for _, fd := range fds {
			f := Field{Num: int(fd.Number()), FD: fd}
			switch {
			case fd.IsMap():
				f.Kind, f.Why = "other", "map"
			case fd.Kind() == protoreflect.Uint32Kind:
				f.Kind = "u32"
			case fd.Kind() == protoreflect.Uint64Kind:
				f.Kind = "u64"
			case fd.Kind() == protoreflect.BytesKind:
				f.Kind = "bytes"
			case fd.Kind() == protoreflect.MessageKind:
				if id, ok := ids[fd.Message().FullName()]; ok {
					f.Kind, f.Ref = "msg", id
				} else {
					f.Kind, f.Why = "other", "foreign message "+string(fd.Message().FullName())
				}
			default:
				f.Kind, f.Why = "other", fd.Kind().String()
			}
			switch {
			case fd.IsList():
				f.Label = "rep"
			case fd.HasPresence():
				f.Label = "opt"
			default:
				f.Label = "imp"
			}
			if od := fd.ContainingOneof(); od != nil && !od.IsSynthetic() {
				f.Oneof = od.Index() + 1
			}
			m.Fields = append(m.Fields, f)
		}
		out = append(out, m)
	}
	return out
}

func ByName(ms []*Message, full string) *Message {
	for _, m := range ms {
		if m.FullName == full {
			return m
		}
	}
	return nil
}

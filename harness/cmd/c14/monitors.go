package main

import (
	"bytes"
	"crypto/ecdsa"
	"encoding/json"
	"fmt"
	"math/big"
	"strings"

	"github.com/btcsuite/btcd/btcec/v2"
	"github.com/btcsuite/btcd/btcec/v2/schnorr"
	"google.golang.org/protobuf/proto"

	"github.com/dominant-strategies/go-quai/common"
	"github.com/dominant-strategies/go-quai/core/types"
	"github.com/dominant-strategies/go-quai/crypto"
	"github.com/dominant-strategies/go-quai/params"
	"github.com/dominant-strategies/go-quai/rlp"

	"verifharness/hlib"
)

var locations = []common.Location{{0, 0}, {0, 1}, {1, 0}, {2, 2}}

func genLoc(r *hlib.Rng) common.Location { return locations[r.Intn(len(locations))] }

// 20-byte address: in the scope of loc or of another zone, Quai or Qi ledger (second byte < / >= 0x80)
func genAddrBytes(r *hlib.Rng, loc common.Location, internal, qi bool) []byte {
	b := r.Bytes(common.AddressLength)
	if internal {
		b[0] = loc.BytePrefix()
	} else if b[0] == loc.BytePrefix() {
		b[0] ^= 0x10
	}
	if qi {
		b[1] |= 0x80
	} else {
		b[1] &= 0x7f
	}
	return b
}
func genAddress(r *hlib.Rng, loc common.Location) common.Address {
	return common.BytesToAddress(genAddrBytes(r, loc, r.Chance(60), r.Chance(40)), loc)
}

// shapeMode biases every generated big integer / byte string of the objects built while it is set
// (used by the ownership monitors): "zero" = every big integer 0 and every byte string empty (the
// values for which a decoder is tempted to return a shared constant), "small" = the values of the
// common.BigN constants, "" = the ordinary distribution.
var shapeMode string

var smallBigs = []int64{0, 1, 2, 3, 4, 7, 8, 10, 16, 32, 64, 96, 99, 100, 101, 256, 257, 480, 1024, 3072, 199680}

func genBig(r *hlib.Rng) *big.Int {
	switch shapeMode {
	case "zero":
		r.Next()
		return big.NewInt(0)
	case "small":
		return big.NewInt(smallBigs[r.Intn(len(smallBigs))])
	}
	switch r.Pick(3, 3, 3, 2, 1) {
	case 0:
		return big.NewInt(0)
	case 1:
		return big.NewInt(int64(1 + r.Intn(1000)))
	case 2:
		return new(big.Int).SetUint64(r.Next())
	case 3:
		return new(big.Int).SetBytes(r.Bytes(32))
	}
	return new(big.Int).Lsh(big.NewInt(1), uint(8*(1+r.Intn(30))))
}

func genU64(r *hlib.Rng) uint64 {
	switch r.Pick(2, 3, 3, 1) {
	case 0:
		return 0
	case 1:
		return uint64(r.Intn(100000))
	case 2:
		return r.Next()
	}
	return ^uint64(0)
}

func genData(r *hlib.Rng) []byte {
	if shapeMode == "zero" {
		if r.Bool() {
			return nil
		}
		return []byte{}
	}
	switch r.Pick(2, 2, 5, 1) {
	case 0:
		return nil
	case 1:
		return []byte{}
	case 2:
		return r.Bytes(1 + r.Intn(40))
	}
	return r.Bytes(130 + r.Intn(100))
}

func genKey(r *hlib.Rng) *ecdsa.PrivateKey {
	for {
		k, err := crypto.ToECDSA(r.Bytes(32))
		if err == nil {
			return k
		}
	}
}

func genAccessList(r *hlib.Rng, loc common.Location) types.AccessList {
	switch r.Pick(3, 2, 5) {
	case 0:
		return nil
	case 1:
		return types.AccessList{}
	}
	var al types.AccessList
	for i, n := 0, 1+r.Intn(3); i < n; i++ {
		// normal form: StorageKeys is an empty slice, not nil (what ProtoDecode and NewEmptyQuaiTx build);
		// gen_access_tuple.go UnmarshalJSON rejects the "storageKeys": null that a nil slice marshals to
		t := types.AccessTuple{Address: genAddress(r, loc), StorageKeys: []common.Hash{}}
		for j, m := 0, r.Intn(3); j < m; j++ {
			t.StorageKeys = append(t.StorageKeys, genHash(r))
		}
		al = append(al, t)
	}
	return al
}

func optHash(r *hlib.Rng) *common.Hash {
	if r.Chance(50) {
		return nil
	}
	h := genHash(r)
	return &h
}
func optNonce(r *hlib.Rng) *types.BlockNonce {
	if r.Chance(50) {
		return nil
	}
	n := types.EncodeNonce(genU64(r))
	if r.Chance(30) {
		n = types.EncodeNonce(0)
	}
	return &n
}

// ---------- transactions ----------

const chainID = 9000

func genQuaiInner(r *hlib.Rng, loc common.Location) *types.QuaiTx {
	in := &types.QuaiTx{
		ChainID: big.NewInt(chainID), Nonce: genU64(r), GasPrice: genBig(r), Gas: genU64(r), Value: genBig(r),
		Data: genData(r), AccessList: genAccessList(r, loc),
		ParentHash: optHash(r), MixHash: optHash(r), WorkNonce: optNonce(r),
	}
	if r.Chance(80) {
		a := genAddress(r, loc)
		in.To = &a
	}
	return in
}

func genQiInner(r *hlib.Rng, loc common.Location) *types.QiTx {
	in := &types.QiTx{ChainID: big.NewInt(chainID), Data: genData(r), ParentHash: optHash(r), MixHash: optHash(r), WorkNonce: optNonce(r)}
	for i, n := 0, 1+r.Intn(3); i < n; i++ {
		k := genKey(r)
		in.TxIn = append(in.TxIn, types.TxIn{PreviousOutPoint: types.OutPoint{TxHash: genHash(r), Index: genIndex16(r)}, PubKey: crypto.FromECDSAPub(&k.PublicKey)})
	}
	for i, n := 0, r.Intn(4); i < n; i++ {
		lock := genLock(r)
		if lock == nil {
			lock = big.NewInt(0) // nil is exercised separately (json-nil-lock)
		}
		in.TxOut = append(in.TxOut, types.TxOut{Denomination: uint8(r.Intn(types.MaxDenomination + 1)), Address: genAddrBytes(r, loc, r.Chance(70), true), Lock: lock})
	}
	priv, _ := btcec.PrivKeyFromBytes(crypto.FromECDSA(genKey(r)))
	sig, err := schnorr.Sign(priv, r.Bytes(32))
	if err != nil {
		panic(err)
	}
	in.Signature = sig
	return in
}

func genEtxInner(r *hlib.Rng, loc common.Location) *types.ExternalTx {
	to := genAddress(r, loc)
	return &types.ExternalTx{OriginatingTxHash: genHash(r), ETXIndex: genIndex16(r), Gas: genU64(r), To: &to, Value: genBig(r),
		Data: genData(r), AccessList: genAccessList(r, loc), Sender: genAddress(r, loc), EtxType: uint64(r.Intn(4))}
}

func genTx(r *hlib.Rng, kind string, loc common.Location) *types.Transaction {
	switch kind {
	case "Quai":
		tx, err := types.SignNewTx(genKey(r), types.NewSigner(big.NewInt(chainID), loc), genQuaiInner(r, loc))
		if err != nil {
			panic(err)
		}
		return tx
	case "Qi":
		return types.NewTx(genQiInner(r, loc))
	}
	return types.NewTx(genEtxInner(r, loc))
}

func bs(b []byte) string { return fmt.Sprintf("%x", b) }
func hp(h *common.Hash) string {
	if h == nil {
		return "nil"
	}
	return h.Hex()
}
func bi(x *big.Int) string {
	if x == nil {
		return "0" // documented normal form: nil big integers read back as 0
	}
	return x.String()
}

// txView is the projection of a transaction to its consensus fields through the exported getters,
// modulo the documented normal forms (nil data == empty data, nil access list == empty list, nil lock == 0).
func txView(tx *types.Transaction) string {
	var sb strings.Builder
	fmt.Fprintf(&sb, "type=%d", tx.Type())
	if tx.Type() != types.ExternalTxType {
		fmt.Fprintf(&sb, " chain=%s", bi(tx.ChainId()))
	}
	al := func() {
		for _, t := range tx.AccessList() {
			fmt.Fprintf(&sb, " al[%x", t.Address.Bytes())
			for _, k := range t.StorageKeys {
				fmt.Fprintf(&sb, ",%x", k[:])
			}
			sb.WriteString("]")
		}
	}
	work := func() {
		fmt.Fprintf(&sb, " ph=%s mh=%s", hp(tx.ParentHash()), hp(tx.MixHash()))
		if tx.WorkNonce() == nil {
			sb.WriteString(" wn=nil")
		} else {
			fmt.Fprintf(&sb, " wn=%d", tx.WorkNonce().Uint64())
		}
	}
	switch tx.Type() {
	case types.QuaiTxType:
		to := "nil"
		if tx.To() != nil {
			to = bs(tx.To().Bytes())
		}
		v, r, s := tx.GetEcdsaSignatureValues()
		fmt.Fprintf(&sb, " nonce=%d gp=%s gas=%d to=%s val=%s data=%x v=%s r=%s s=%s", tx.Nonce(), bi(tx.GasPrice()), tx.Gas(), to, bi(tx.Value()), tx.Data(), bi(v), bi(r), bi(s))
		al()
		work()
	case types.ExternalTxType:
		fmt.Fprintf(&sb, " oth=%x idx=%d gas=%d to=%x val=%s data=%x sender=%x etxtype=%d", tx.OriginatingTxHash().Bytes(), tx.ETXIndex(), tx.Gas(), tx.To().Bytes(), bi(tx.Value()), tx.Data(), tx.ETXSender().Bytes(), tx.EtxType())
		al()
	case types.QiTxType:
		for _, in := range tx.TxIn() {
			fmt.Fprintf(&sb, " in[%x,%d,%x]", in.PreviousOutPoint.TxHash[:], in.PreviousOutPoint.Index, in.PubKey)
		}
		for _, out := range tx.TxOut() {
			fmt.Fprintf(&sb, " out[%d,%x,%s]", out.Denomination, out.Address, bi(out.Lock))
		}
		fmt.Fprintf(&sb, " sig=%x data=%x", tx.GetSchnorrSignature().Serialize(), tx.Data())
		work()
	}
	return sb.String()
}

func marshalTx(tx *types.Transaction) ([]byte, *types.ProtoTransaction) {
	pe, err := tx.ProtoEncode()
	if err != nil {
		panic(err)
	}
	b, err := proto.Marshal(pe)
	if err != nil {
		panic(err)
	}
	return b, pe
}

// mutations of the consensus fields of a transaction: name -> mutated inner (nil when not applicable)
func txMutants(r *hlib.Rng, tx *types.Transaction, loc common.Location) map[string]types.TxData {
	out := map[string]types.TxData{}
	flip := func(b []byte) []byte {
		c := append([]byte{}, b...)
		if len(c) == 0 {
			return []byte{1}
		}
		c[r.Intn(len(c))] ^= 1 << uint(r.Intn(8))
		return c
	}
	inc := func(x *big.Int) *big.Int { return new(big.Int).Add(x, big.NewInt(1)) }
	fh := func(h common.Hash) common.Hash { return common.BytesToHash(flip(h[:])) }
	fa := func(a common.Address) common.Address { return common.BytesToAddress(flip(a.Bytes()), loc) }
	switch in := tx.Inner().(type) {
	case *types.QuaiTx:
		cp := func() *types.QuaiTx { c := *in; return &c }
		m := cp()
		m.ChainID = inc(in.ChainID)
		out["chainId"] = m
		m = cp()
		m.Nonce++
		out["nonce"] = m
		m = cp()
		m.GasPrice = inc(in.GasPrice)
		out["gasPrice"] = m
		m = cp()
		m.Gas++
		out["gas"] = m
		m = cp()
		m.Value = inc(in.Value)
		out["value"] = m
		m = cp()
		m.Data = flip(in.Data)
		out["data"] = m
		m = cp()
		if in.To == nil {
			a := genAddress(r, loc)
			m.To = &a
		} else if r.Bool() {
			m.To = nil
		} else {
			a := fa(*in.To)
			m.To = &a
		}
		out["to"] = m
		m = cp()
		m.AccessList = append(append(types.AccessList{}, in.AccessList...), types.AccessTuple{Address: genAddress(r, loc), StorageKeys: []common.Hash{}})
		out["accessList"] = m
		m = cp()
		m.V = inc(in.V)
		out["v"] = m
		m = cp()
		m.R = inc(in.R)
		out["r"] = m
		m = cp()
		m.S = inc(in.S)
		out["s"] = m
		m = cp()
		if in.ParentHash == nil {
			h := genHash(r)
			m.ParentHash = &h
		} else if r.Bool() {
			m.ParentHash = nil
		} else {
			h := fh(*in.ParentHash)
			m.ParentHash = &h
		}
		out["parentHash"] = m
		m = cp()
		if in.MixHash == nil {
			h := genHash(r)
			m.MixHash = &h
		} else if r.Bool() {
			m.MixHash = nil
		} else {
			h := fh(*in.MixHash)
			m.MixHash = &h
		}
		out["mixHash"] = m
		m = cp()
		if in.WorkNonce == nil {
			n := types.EncodeNonce(genU64(r))
			m.WorkNonce = &n
		} else if r.Bool() {
			m.WorkNonce = nil
		} else {
			n := types.EncodeNonce(in.WorkNonce.Uint64() + 1)
			m.WorkNonce = &n
		}
		out["workNonce"] = m
	case *types.ExternalTx:
		cp := func() *types.ExternalTx { c := *in; return &c }
		m := cp()
		m.OriginatingTxHash = fh(in.OriginatingTxHash)
		out["originatingTxHash"] = m
		m = cp()
		m.ETXIndex++
		out["etxIndex"] = m
		m = cp()
		m.Gas++
		out["gas"] = m
		m = cp()
		a := fa(*in.To)
		m.To = &a
		out["to"] = m
		m = cp()
		m.Value = inc(in.Value)
		out["value"] = m
		m = cp()
		m.Data = flip(in.Data)
		out["data"] = m
		m = cp()
		m.AccessList = append(append(types.AccessList{}, in.AccessList...), types.AccessTuple{Address: genAddress(r, loc), StorageKeys: []common.Hash{}})
		out["accessList"] = m
		m = cp()
		m.Sender = fa(in.Sender)
		out["sender"] = m
		m = cp()
		m.EtxType++
		out["etxType"] = m
	case *types.QiTx:
		cp := func() *types.QiTx {
			c := *in
			c.TxIn = append(types.TxIns{}, in.TxIn...)
			c.TxOut = append(types.TxOuts{}, in.TxOut...)
			return &c
		}
		m := cp()
		m.ChainID = inc(in.ChainID)
		out["chainId"] = m
		m = cp()
		m.TxIn[0].PreviousOutPoint.TxHash = fh(in.TxIn[0].PreviousOutPoint.TxHash)
		out["in.hash"] = m
		m = cp()
		m.TxIn[0].PreviousOutPoint.Index++
		out["in.index"] = m
		m = cp()
		k := genKey(r)
		m.TxIn[0].PubKey = crypto.FromECDSAPub(&k.PublicKey)
		out["in.pubkey"] = m
		m = cp()
		m.TxIn = append(m.TxIn, in.TxIn[0])
		out["in.count"] = m
		if len(in.TxOut) > 0 {
			m = cp()
			m.TxOut[0].Denomination++
			out["out.denomination"] = m
			m = cp()
			m.TxOut[0].Address = flip(in.TxOut[0].Address)
			out["out.address"] = m
			m = cp()
			m.TxOut[0].Lock = inc(in.TxOut[0].Lock)
			out["out.lock"] = m
		}
		m = cp()
		m.TxOut = append(m.TxOut, types.TxOut{Denomination: 1, Address: genAddrBytes(r, loc, true, true), Lock: big.NewInt(0)})
		out["out.count"] = m
		m = cp()
		m.Data = flip(in.Data)
		out["data"] = m
		m = cp()
		priv, _ := btcec.PrivKeyFromBytes(crypto.FromECDSA(genKey(r)))
		m.Signature, _ = schnorr.Sign(priv, r.Bytes(32))
		out["signature"] = m
		m = cp()
		if in.ParentHash == nil {
			h := genHash(r)
			m.ParentHash = &h
		} else {
			m.ParentHash = nil
		}
		out["parentHash"] = m
		m = cp()
		if in.MixHash == nil {
			h := genHash(r)
			m.MixHash = &h
		} else {
			m.MixHash = nil
		}
		out["mixHash"] = m
		m = cp()
		if in.WorkNonce == nil {
			n := types.EncodeNonce(genU64(r))
			m.WorkNonce = &n
		} else {
			m.WorkNonce = nil
		}
		out["workNonce"] = m
	}
	return out
}

func genTxMon(c *ctx) *gen {
	return &gen{kind: "tx", names: []string{"Quai", "Qi", "External", "Qi-nil-lock"}, run: func(c *ctx, name string, r *hlib.Rng) {
		loc := genLoc(r)
		if name == "Qi-nil-lock" {
			// TxOut.Lock == nil is a documented value ("0 or nil = unlocked", ProtoEncode handles it)
			in := genQiInner(r, loc)
			in.TxOut = append(in.TxOut, types.TxOut{Denomination: 3, Address: genAddrBytes(r, loc, true, true), Lock: nil})
			tx := types.NewTx(in)
			if _, err := safeJSON(tx); err != nil {
				c.fail("tx/Qi/json/nil-lock", "MarshalJSON of a Qi transaction with a nil TxOut.Lock: "+err.Error())
			}
			b, pe := marshalTx(tx)
			pd := new(types.ProtoTransaction)
			proto.Unmarshal(b, pd)
			y := new(types.Transaction)
			if err := y.ProtoDecode(pd, loc); err != nil || y.Hash() != tx.Hash() || txView(y) != txView(tx) {
				c.fail("tx/Qi/proto/nil-lock", fmt.Sprintf("nil lock does not round trip: %v", err))
			}
			c.protoCheck(c.msgByGo(pe), pe.ProtoReflect(), "tx Qi nil lock")
			return
		}
		tx := genTx(r, name, loc)
		sig := "tx/" + name + "/"
		view := txView(tx)
		hash := tx.Hash()
		b, pe := marshalTx(tx)
		c.rep.Nontrivial(fmt.Sprintf("tx/%s/%d/%v", name, len(b)/8, loc))

		// --- protobuf: ProtoEncode -> Marshal -> Unmarshal -> ProtoDecode
		pd := new(types.ProtoTransaction)
		if err := proto.Unmarshal(b, pd); err != nil {
			c.fail(sig+"proto/unmarshal", err.Error())
			return
		}
		y := new(types.Transaction)
		if err := y.ProtoDecode(pd, loc); err != nil {
			c.fail(sig+"proto/decode-own-bytes", fmt.Sprintf("%v for %s", err, view))
		} else {
			if v := txView(y); v != view {
				c.fail(sig+"proto/object-differs", fmt.Sprintf("before %s\nafter  %s", view, v))
			}
			if b2, _ := marshalTx(y); !bytes.Equal(b, b2) {
				c.fail(sig+"proto/reencode-differs", fmt.Sprintf("%x\n%x", b, b2))
			}
			if y.Hash() != hash {
				c.fail(sig+"proto/hash-differs", fmt.Sprintf("%s vs %s for %s", hash.Hex(), y.Hash().Hex(), view))
			}
			// decoding under another node location only reclassifies addresses (internal/external): bytes and hash stay
			other := locations[(r.Intn(len(locations)-1)+1+locIndex(loc))%len(locations)]
			z := new(types.Transaction)
			if err := z.ProtoDecode(pd, other); err != nil {
				c.fail(sig+"proto/decode-other-location", err.Error())
			} else if b3, _ := marshalTx(z); !bytes.Equal(b, b3) || z.Hash() != hash {
				c.fail(sig+"proto/location-changes-identity", fmt.Sprintf("decoded at %v vs %v", loc, other))
			}
		}
		c.protoCheck(c.msgByGo(pe), pe.ProtoReflect(), "tx "+name)

		// --- RLP typed envelope (tx root, Size): MarshalBinary / UnmarshalBinary
		rb, err := tx.MarshalBinary()
		if err != nil {
			c.fail(sig+"rlp/encode-error", err.Error())
		} else {
			rb2, _ := tx.MarshalBinary()
			if !bytes.Equal(rb, rb2) {
				c.fail(sig+"rlp/nondeterministic", "two MarshalBinary differ")
			}
			c.rep.Count("tx-rlp:" + name)
			w := new(types.Transaction)
			if err := w.UnmarshalBinary(rb); err != nil {
				c.fail(sig+"rlp/decode-own-bytes"+rlpClass(tx), fmt.Sprintf("%v for %s", err, view))
			} else {
				if rb3, _ := w.MarshalBinary(); !bytes.Equal(rb, rb3) {
					c.fail(sig+"rlp/reencode-differs", fmt.Sprintf("%x\n%x", rb, rb3))
				}
				if rlpView(w) != rlpView(tx) {
					c.fail(sig+"rlp/object-differs", fmt.Sprintf("before %s\nafter  %s", rlpView(tx), rlpView(w)))
				}
			}
		}

		// --- RLP as a stream value (the ETX queue of the state: StateDB.PushETX / PopETX)
		if sb, err := rlp.EncodeToBytes(tx); err != nil {
			c.fail(sig+"rlpstream/encode-error", err.Error())
		} else {
			w := new(types.Transaction)
			if err := rlp.DecodeBytes(sb, w); err != nil {
				c.fail(sig+"rlpstream/decode-own-bytes"+rlpClass(tx), fmt.Sprintf("%v for %s", err, view))
			} else {
				if sb2, _ := rlp.EncodeToBytes(w); !bytes.Equal(sb, sb2) {
					c.fail(sig+"rlpstream/reencode-differs", fmt.Sprintf("%x\n%x", sb, sb2))
				}
				if rlpView(w) != rlpView(tx) {
					c.fail(sig+"rlpstream/object-differs", fmt.Sprintf("before %s\nafter  %s", rlpView(tx), rlpView(w)))
				}
				if name == "External" && w.Hash() != hash {
					c.fail(sig+"rlpstream/hash-differs", fmt.Sprintf("%s vs %s", hash.Hex(), w.Hash().Hex()))
				}
			}
		}

		// --- JSON (RPC)
		jb, jerr := safeJSON(tx)
		if jerr != nil {
			c.fail(sig+"json/encode-error", jerr.Error())
		} else {
			w := new(types.Transaction)
			if err := w.UnmarshalJSON(jb); err != nil {
				c.fail(sig+"json/decode-own-output"+jsonClass(tx), fmt.Sprintf("%v for %s", err, view))
			} else {
				if w.Hash() != hash {
					c.fail(sig+"json/hash-differs", fmt.Sprintf("%s vs %s", hash.Hex(), w.Hash().Hex()))
				}
				if v := txView(w); v != view {
					c.fail(sig+"json/object-differs"+jsonClass(tx), fmt.Sprintf("before %s\nafter  %s", view, v))
				}
			}
		}

		// --- single-field mutation => different bytes and different hash
		muts := txMutants(r, tx, loc)
		for _, field := range hlib.SortedKeys(muts) {
			m := types.NewTx(muts[field])
			mb, _ := marshalTx(m)
			if bytes.Equal(mb, b) {
				c.fail(sig+"mutation/same-bytes/"+field, fmt.Sprintf("changing %s leaves the encoding unchanged: %s", field, view))
			}
			if m.Hash() == hash {
				c.fail(sig+"mutation/same-hash/"+field, fmt.Sprintf("changing %s leaves the hash unchanged: %s", field, view))
			}
			c.rep.Count("mutation:tx." + field)
		}
	}}
}

func locIndex(l common.Location) int {
	for i, x := range locations {
		if x.Equal(l) {
			return i
		}
	}
	return 0
}

// the RLP envelope does not carry the work fields of a Qi transaction (WireQiTx); compare what it carries
func rlpView(tx *types.Transaction) string {
	v := txView(tx)
	if tx.Type() == types.QiTxType {
		if i := strings.Index(v, " ph="); i >= 0 {
			v = v[:i]
		}
	}
	return v
}

// classes of transactions on which the JSON codec is known to lose information (see design/C14.md)
func jsonClass(tx *types.Transaction) string {
	if tx.Type() == types.QiTxType && (tx.ParentHash() != nil || tx.MixHash() != nil || tx.WorkNonce() != nil) {
		return "/qi-work-fields"
	}
	if tx.Type() == types.QuaiTxType && tx.WorkNonce() != nil && tx.WorkNonce().Uint64() != 0 {
		return "/work-nonce"
	}
	return ""
}

// the RLP form of a QuaiTx whose optional work fields are nil cannot be decoded
func rlpClass(tx *types.Transaction) string {
	if tx.Type() == types.QuaiTxType && (tx.ParentHash() == nil || tx.MixHash() == nil || tx.WorkNonce() == nil) {
		return "/nil-work-field"
	}
	return ""
}

func safeJSON(tx *types.Transaction) (b []byte, err error) {
	defer func() {
		if e := recover(); e != nil {
			err = fmt.Errorf("panic: %v", e)
		}
	}()
	return tx.MarshalJSON()
}

// ---------- headers ----------

func genHeader(r *hlib.Rng) *types.Header {
	h := types.EmptyHeader()
	for i := 0; i < common.HierarchyDepth; i++ {
		h.SetManifestHash(genHash(r), i)
		h.SetParentEntropy(genBig(r), i)
		h.SetParentDeltaEntropy(genBig(r), i)
		h.SetParentUncledDeltaEntropy(genBig(r), i)
	}
	for i := 0; i < common.HierarchyDepth-1; i++ {
		h.SetParentHash(genHash(r), i)
		h.SetNumber(genBig(r), i)
	}
	h.SetUncleHash(genHash(r))
	h.SetEVMRoot(genHash(r))
	h.SetUTXORoot(genHash(r))
	h.SetTxHash(genHash(r))
	h.SetOutboundEtxHash(genHash(r))
	h.SetEtxSetRoot(genHash(r))
	h.SetEtxRollupHash(genHash(r))
	h.SetReceiptHash(genHash(r))
	h.SetPrimeTerminusHash(genHash(r))
	h.SetInterlinkRootHash(genHash(r))
	h.SetEtxEligibleSlices(genHash(r))
	h.SetPrimeStateRoot(genHash(r))
	h.SetRegionStateRoot(genHash(r))
	h.SetQuaiStateSize(genBig(r))
	h.SetUncledEntropy(genBig(r))
	h.SetBaseFee(genBig(r))
	h.SetExchangeRate(genBig(r))
	h.SetAvgTxFees(genBig(r))
	h.SetTotalFees(genBig(r))
	h.SetKQuaiDiscount(genBig(r))
	h.SetConversionFlowAmount(genBig(r))
	h.SetMinerDifficulty(genBig(r))
	h.SetGasLimit(genU64(r))
	h.SetGasUsed(genU64(r))
	h.SetStateLimit(genU64(r))
	h.SetStateUsed(genU64(r))
	h.SetEfficiencyScore(genIndex16(r))
	h.SetThresholdCount(genIndex16(r))
	h.SetExpansionNumber(genDenom(r))
	if d := genData(r); d != nil {
		h.SetExtra(d)
	}
	return h
}

type headerMut struct {
	name string
	f    func(h *types.Header, r *hlib.Rng)
}

func headerMuts() []headerMut {
	inc := func(x *big.Int) *big.Int { return new(big.Int).Add(x, big.NewInt(1)) }
	fh := func(h common.Hash, r *hlib.Rng) common.Hash { h[r.Intn(32)] ^= 1 << uint(r.Intn(8)); return h }
	ms := []headerMut{
		{"uncleHash", func(h *types.Header, r *hlib.Rng) { h.SetUncleHash(fh(h.UncleHash(), r)) }},
		{"evmRoot", func(h *types.Header, r *hlib.Rng) { h.SetEVMRoot(fh(h.EVMRoot(), r)) }},
		{"utxoRoot", func(h *types.Header, r *hlib.Rng) { h.SetUTXORoot(fh(h.UTXORoot(), r)) }},
		{"txHash", func(h *types.Header, r *hlib.Rng) { h.SetTxHash(fh(h.TxHash(), r)) }},
		{"outboundEtxHash", func(h *types.Header, r *hlib.Rng) { h.SetOutboundEtxHash(fh(h.OutboundEtxHash(), r)) }},
		{"etxSetRoot", func(h *types.Header, r *hlib.Rng) { h.SetEtxSetRoot(fh(h.EtxSetRoot(), r)) }},
		{"etxRollupHash", func(h *types.Header, r *hlib.Rng) { h.SetEtxRollupHash(fh(h.EtxRollupHash(), r)) }},
		{"receiptHash", func(h *types.Header, r *hlib.Rng) { h.SetReceiptHash(fh(h.ReceiptHash(), r)) }},
		{"primeTerminusHash", func(h *types.Header, r *hlib.Rng) { h.SetPrimeTerminusHash(fh(h.PrimeTerminusHash(), r)) }},
		{"interlinkRootHash", func(h *types.Header, r *hlib.Rng) { h.SetInterlinkRootHash(fh(h.InterlinkRootHash(), r)) }},
		{"etxEligibleSlices", func(h *types.Header, r *hlib.Rng) { h.SetEtxEligibleSlices(fh(h.EtxEligibleSlices(), r)) }},
		{"primeStateRoot", func(h *types.Header, r *hlib.Rng) { h.SetPrimeStateRoot(fh(h.PrimeStateRoot(), r)) }},
		{"regionStateRoot", func(h *types.Header, r *hlib.Rng) { h.SetRegionStateRoot(fh(h.RegionStateRoot(), r)) }},
		{"quaiStateSize", func(h *types.Header, r *hlib.Rng) { h.SetQuaiStateSize(inc(h.QuaiStateSize())) }},
		{"uncledEntropy", func(h *types.Header, r *hlib.Rng) { h.SetUncledEntropy(inc(h.UncledEntropy())) }},
		{"baseFee", func(h *types.Header, r *hlib.Rng) { h.SetBaseFee(inc(h.BaseFee())) }},
		{"exchangeRate", func(h *types.Header, r *hlib.Rng) { h.SetExchangeRate(inc(h.ExchangeRate())) }},
		{"avgTxFees", func(h *types.Header, r *hlib.Rng) { h.SetAvgTxFees(inc(h.AvgTxFees())) }},
		{"totalFees", func(h *types.Header, r *hlib.Rng) { h.SetTotalFees(inc(h.TotalFees())) }},
		{"kQuaiDiscount", func(h *types.Header, r *hlib.Rng) { h.SetKQuaiDiscount(inc(h.KQuaiDiscount())) }},
		{"conversionFlowAmount", func(h *types.Header, r *hlib.Rng) { h.SetConversionFlowAmount(inc(h.ConversionFlowAmount())) }},
		{"minerDifficulty", func(h *types.Header, r *hlib.Rng) { h.SetMinerDifficulty(inc(h.MinerDifficulty())) }},
		{"gasLimit", func(h *types.Header, r *hlib.Rng) { h.SetGasLimit(h.GasLimit() + 1) }},
		{"gasUsed", func(h *types.Header, r *hlib.Rng) { h.SetGasUsed(h.GasUsed() + 1) }},
		{"stateLimit", func(h *types.Header, r *hlib.Rng) { h.SetStateLimit(h.StateLimit() + 1) }},
		{"stateUsed", func(h *types.Header, r *hlib.Rng) { h.SetStateUsed(h.StateUsed() + 1) }},
		{"efficiencyScore", func(h *types.Header, r *hlib.Rng) { h.SetEfficiencyScore(h.EfficiencyScore() + 1) }},
		{"thresholdCount", func(h *types.Header, r *hlib.Rng) { h.SetThresholdCount(h.ThresholdCount() + 1) }},
		{"expansionNumber", func(h *types.Header, r *hlib.Rng) { h.SetExpansionNumber(h.ExpansionNumber() + 1) }},
		{"extra", func(h *types.Header, r *hlib.Rng) { h.SetExtra(append(append([]byte{}, h.Extra()...), 1)) }},
	}
	for i := 0; i < common.HierarchyDepth; i++ {
		i := i
		ms = append(ms,
			headerMut{fmt.Sprintf("manifestHash[%d]", i), func(h *types.Header, r *hlib.Rng) { h.SetManifestHash(fh(h.ManifestHash(i), r), i) }},
			headerMut{fmt.Sprintf("parentEntropy[%d]", i), func(h *types.Header, r *hlib.Rng) { h.SetParentEntropy(inc(h.ParentEntropy(i)), i) }},
			headerMut{fmt.Sprintf("parentDeltaEntropy[%d]", i), func(h *types.Header, r *hlib.Rng) { h.SetParentDeltaEntropy(inc(h.ParentDeltaEntropy(i)), i) }},
			headerMut{fmt.Sprintf("parentUncledDeltaEntropy[%d]", i), func(h *types.Header, r *hlib.Rng) {
				h.SetParentUncledDeltaEntropy(inc(h.ParentUncledDeltaEntropy(i)), i)
			}})
	}
	for i := 0; i < common.HierarchyDepth-1; i++ {
		i := i
		ms = append(ms,
			headerMut{fmt.Sprintf("parentHash[%d]", i), func(h *types.Header, r *hlib.Rng) { h.SetParentHash(fh(h.ParentHash(i), r), i) }},
			headerMut{fmt.Sprintf("number[%d]", i), func(h *types.Header, r *hlib.Rng) { h.SetNumber(inc(h.Number(i)), i) }})
	}
	return ms
}

func marshalHeader(h *types.Header) ([]byte, *types.ProtoHeader) {
	pe, err := h.ProtoEncode()
	if err != nil {
		panic(err)
	}
	b, _ := proto.Marshal(pe)
	return b, pe
}

func jsonOf(v interface{}) string {
	b, err := json.Marshal(v)
	if err != nil {
		return "json error: " + err.Error()
	}
	return string(b)
}

func genHeaderMon(c *ctx) *gen {
	return &gen{kind: "header", names: []string{"Header"}, run: func(c *ctx, name string, r *hlib.Rng) {
		loc := genLoc(r)
		h := genHeader(r)
		hash := h.Hash()
		view := jsonOf(h.RPCMarshalHeader())
		b, pe := marshalHeader(h)
		c.rep.Nontrivial(fmt.Sprintf("header/%d", len(b)/8))
		pd := new(types.ProtoHeader)
		if err := proto.Unmarshal(b, pd); err != nil {
			c.fail("header/proto/unmarshal", err.Error())
			return
		}
		y := new(types.Header)
		if err := y.ProtoDecode(pd, loc); err != nil {
			c.fail("header/proto/decode-own-bytes", err.Error())
		} else {
			if y.Hash() != hash {
				c.fail("header/proto/hash-differs", fmt.Sprintf("%s vs %s", hash.Hex(), y.Hash().Hex()))
			}
			if v := jsonOf(y.RPCMarshalHeader()); v != view {
				c.fail("header/proto/object-differs", fmt.Sprintf("before %s\nafter  %s", view, v))
			}
			if b2, _ := marshalHeader(y); !bytes.Equal(b, b2) {
				c.fail("header/proto/reencode-differs", fmt.Sprintf("%x\n%x", b, b2))
			}
		}
		c.protoCheck(c.msgByGo(pe), pe.ProtoReflect(), "header")
		// JSON
		jb, err := h.MarshalJSON()
		if err != nil {
			c.fail("header/json/encode-error", err.Error())
		} else {
			w := new(types.Header)
			if err := w.UnmarshalJSON(jb); err != nil {
				c.fail("header/json/decode-own-output", err.Error())
			} else if w.Hash() != hash {
				c.fail("header/json/hash-differs", fmt.Sprintf("%s vs %s: %s", hash.Hex(), w.Hash().Hex(), jb))
			}
		}
		// JSON-RPC path: the server renders RPCMarshalHeader, the client parses with UnmarshalJSON
		{
			w := new(types.Header)
			if err := w.UnmarshalJSON([]byte(view)); err != nil {
				c.fail("header/rpcjson/decode", err.Error())
			} else if w.Hash() != hash {
				c.fail("header/rpcjson/hash-differs", fmt.Sprintf("%s vs %s: %s", hash.Hex(), w.Hash().Hex(), view))
			}
		}
		// every field is part of the identity
		muts := headerMuts()
		for k := range muts {
			m := types.CopyHeader(h)
			muts[k].f(m, r)
			mb, _ := marshalHeader(m)
			if bytes.Equal(mb, b) {
				c.fail("header/mutation/same-bytes/"+muts[k].name, "changing "+muts[k].name+" leaves the encoding unchanged")
			}
			if m.Hash() == hash {
				c.fail("header/mutation/same-hash/"+muts[k].name, "changing "+muts[k].name+" leaves Header.Hash unchanged")
			}
			c.rep.Count("mutation:header." + muts[k].name)
		}
	}}
}

var _ = params.KawPowForkBlock

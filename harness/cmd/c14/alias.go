package main

// Ownership of decoded objects ("alias" generator).
//
// decode(encode x) == x has to stay true after the node has done something with ANOTHER
// decoded object. For every codec that produces an object from bytes (protobuf, the RLP
// envelope, the RLP stream form, JSON, the rawdb readers, the p2p envelopes) and every
// object family, in three value shapes (ordinary, every big integer 0 / every byte string
// empty, the values of the common.BigN constants):
//
//	y1, y2 := decode(b), decode(b)
//	(a) structural: the memory owned by y1 and y2 is disjoint (graph.go) - a region in both is
//	    a package-level value, a cache or a pooled scratch object the decoder handed out;
//	    and y1 does not point into the input buffer;
//	(b) behavioural: apply the public in-place mutators to y1 (Transaction.SetValue / SetTo /
//	    SetEtxType - what core/slice.go and core/worker.go do to inbound ETXs), then - when (a)
//	    found nothing - overwrite in place every big integer and byte string y1 owns;
//	    y2 must still have the original projection and hash, and a third decode of the original
//	    bytes must too;
//	(c) no package-level big integer changed its value (checked and repaired after each case).

import (
	"crypto/sha256"
	"fmt"
	"math/big"
	"strings"

	"google.golang.org/protobuf/proto"

	"github.com/dominant-strategies/go-quai/common"
	"github.com/dominant-strategies/go-quai/core/rawdb"
	"github.com/dominant-strategies/go-quai/core/types"
	"github.com/dominant-strategies/go-quai/log"
	"github.com/dominant-strategies/go-quai/p2p/pb"
	"github.com/dominant-strategies/go-quai/rlp"

	"verifharness/hlib"
)

type aliasSpec struct {
	family string // tx/External, header, ...
	codec  string // proto, rlp, rlpstream, json, rawdb, p2p
	input  []byte // the encoding, when the codec consumes bytes we own (nil for database readers)
	// decode decodes the original encoding afresh; b is a private copy of input (nil when input is nil)
	decode func(b []byte) (interface{}, error)
	view   func(y interface{}) string // projection + hash + re-encoding digest
	mutate func(y interface{})        // public in-place mutators (optional)
}

func digest(b []byte) string { return fmt.Sprintf("%x", sha256.Sum256(b)) }

func try(f func()) {
	defer func() { recover() }()
	f()
}

func cloneBytes(b []byte) []byte {
	if b == nil {
		return nil
	}
	return append(make([]byte, 0, len(b)), b...)
}

func (c *ctx) aliasCheck(s aliasSpec) {
	what := s.family + " via " + s.codec + " (" + shapeName() + " values)"
	c.rep.Count("alias:" + s.family + "/" + s.codec)
	b1, b2 := cloneBytes(s.input), cloneBytes(s.input)
	y1, err := s.decode(b1)
	if err != nil {
		// an encoding the codec cannot read back is the business of the round-trip monitors
		c.rep.Count("alias-undecodable:" + s.family + "/" + s.codec)
		return
	}
	y2, err := s.decode(b2)
	if err != nil {
		c.fail("alias/second-decode-fails/"+s.family+"/"+s.codec, fmt.Sprintf("%s: the same bytes decoded once and were rejected the second time: %v", what, err))
		return
	}
	g1, g2 := regionsOf(y1), regionsOf(y2)
	shared := overlaps(g1.regs, g2.regs)
	for _, o := range shared {
		c.fail("alias/shared-between-decodes/"+o.label, fmt.Sprintf("%s: two independent decodes of the same bytes share memory at %s (second object: %s): an in-place write to one decoded object changes every other object decoded from such bytes", what, o.a.path, o.b.path))
	}
	for _, d := range g1.dupes {
		c.fail("alias/one-bigint-two-fields/"+d, fmt.Sprintf("%s: one *big.Int is installed in two fields of the decoded object (%s)", what, d))
	}
	if b1 != nil {
		for _, o := range overlaps(g1.regs, bytesRegion(b1, "input")) {
			c.fail("alias/decoded-points-into-input/"+o.label, fmt.Sprintf("%s: the decoded object keeps a pointer into the caller's input buffer at %s", what, o.a.path))
		}
	}
	v1 := s.view(y1)
	if s.mutate != nil {
		s.mutate(y1)
	}
	if len(shared) == 0 {
		g1.scribble()
	}
	if v2 := s.view(y2); v2 != v1 {
		c.fail("alias/mutation-leaks-to-other-decode/"+s.family+"/"+s.codec, fmt.Sprintf("%s: after in-place mutation of one decoded object, a second object decoded earlier from the same bytes changed\nbefore %s\nafter  %s", what, clip(v1), clip(v2)))
	}
	y3, err := s.decode(cloneBytes(s.input))
	if err != nil {
		c.fail("alias/decode-after-mutation-fails/"+s.family+"/"+s.codec, fmt.Sprintf("%s: %v", what, err))
	} else if v3 := s.view(y3); v3 != v1 {
		c.fail("alias/decode-after-mutation-differs/"+s.family+"/"+s.codec, fmt.Sprintf("%s: after in-place mutation of a decoded object, decoding the original bytes again gives another object (decode(encode x) != x, hash not stable)\nbefore %s\nafter  %s", what, clip(v1), clip(v3)))
	}
	if s.input != nil && (string(b1) != string(s.input) || string(b2) != string(s.input)) {
		c.fail("alias/decoder-or-mutation-writes-input/"+s.family+"/"+s.codec, what+": the input buffer changed")
	}
	c.guardGlobals(what)
}

func clip(s string) string {
	if len(s) > 600 {
		return s[:600] + "..."
	}
	return s
}

func shapeName() string {
	if shapeMode == "" {
		return "ordinary"
	}
	return shapeMode
}

// every alias case is run in the three value shapes
func withShapes(r *hlib.Rng, f func(r *hlib.Rng)) {
	defer func() { shapeMode = "" }()
	for _, m := range []string{"zero", "small", ""} {
		shapeMode = m
		f(r.Fork())
	}
	shapeMode = ""
}

func txFullView(tx *types.Transaction) string {
	b, _ := marshalTx(tx)
	return txView(tx) + " hash=" + tx.Hash().Hex() + " enc=" + digest(b)
}

// the public mutators of a transaction (core/slice.go: etx.SetValue / SetEtxType on inbound
// conversion ETXs; core/worker.go: SetTo); those a type does not support panic
func txPublicMutate(tx *types.Transaction, loc common.Location) {
	try(func() { tx.SetValue(big.NewInt(123456789)) })
	try(func() { tx.SetEtxType(uint64(types.ConversionRevertType)) })
	try(func() {
		a := make([]byte, 20)
		a[0], a[19] = loc.BytePrefix(), 0x77
		tx.SetTo(common.BytesToAddress(a, loc))
	})
}

func txsView(txs types.Transactions) string {
	var sb strings.Builder
	for _, t := range txs {
		sb.WriteString(txFullView(t) + "\n")
	}
	return sb.String()
}

func headerFullView(h *types.Header) string {
	b, _ := marshalHeader(h)
	return h.Hash().Hex() + " " + jsonOf(h.RPCMarshalHeader()) + " enc=" + digest(b)
}

func whFullView(wh *types.WorkObjectHeader) string {
	b, _ := marshalWh(wh)
	return wh.Hash().Hex() + "/" + wh.SealHash().Hex() + " enc=" + digest(b)
}

func woFullView(wo *types.WorkObject, view types.WorkObjectView) string {
	b, _ := marshalWo(wo, view)
	return wo.Hash().Hex() + " " + bodyView(wo) + " enc=" + digest(b)
}

func receiptsView(rs types.ReceiptsForStorage) string {
	pe, err := rs.ProtoEncode()
	if err != nil {
		return "encode error " + err.Error()
	}
	b, _ := proto.Marshal(pe)
	var sb strings.Builder
	for _, r := range rs {
		fmt.Fprintf(&sb, "[%d %d %d %x %d]", r.Status, r.CumulativeGasUsed, r.GasUsed, r.TxHash[:], len(r.Logs))
		sb.WriteString(txsView(r.OutboundEtxs))
	}
	return sb.String() + " enc=" + digest(b)
}

func genAliasMon(c *ctx) *gen {
	names := []string{"tx-Quai", "tx-Qi", "tx-External", "etxs-rawdb", "header", "woheader", "workobject", "workobject-p2p", "workobject-rawdb",
		"receipts", "pendingEtxs", "utxo", "p2p-request", "lockup"}
	return &gen{kind: "alias", names: names, times: 3, run: func(c *ctx, name string, r *hlib.Rng) {
		c.rep.Nontrivial(fmt.Sprintf("alias/%s/%d", name, r.Intn(1<<20)))
		withShapes(r, func(r *hlib.Rng) { c.aliasOne(name, r) })
	}}
}

func locCopy(l common.Location) common.Location { return append(common.Location{}, l...) }

func (c *ctx) aliasOne(name string, r *hlib.Rng) {
	loc := genLoc(r)
	switch name {
	case "tx-Quai", "tx-Qi", "tx-External":
		kind := strings.TrimPrefix(name, "tx-")
		tx := genTx(r, kind, loc)
		fam := "tx/" + kind
		mut := func(y interface{}) { txPublicMutate(y.(*types.Transaction), loc) }
		view := func(y interface{}) string { return txFullView(y.(*types.Transaction)) }
		ptb, _ := marshalTx(tx)
		c.aliasCheck(aliasSpec{family: fam, codec: "proto", input: ptb, view: view, mutate: mut, decode: func(b []byte) (interface{}, error) {
			pd := new(types.ProtoTransaction)
			if err := proto.Unmarshal(b, pd); err != nil {
				return nil, err
			}
			y := new(types.Transaction)
			return y, y.ProtoDecode(pd, locCopy(loc))
		}})
		// the RLP forms do not carry the work fields of a Qi transaction: compare what they carry
		rview := func(y interface{}) string {
			t := y.(*types.Transaction)
			bb, _ := t.MarshalBinary()
			return rlpView(t) + " enc=" + digest(bb)
		}
		if rb, err := tx.MarshalBinary(); err == nil {
			c.aliasCheck(aliasSpec{family: fam, codec: "rlp", input: rb, view: rview, mutate: mut, decode: func(b []byte) (interface{}, error) {
				y := new(types.Transaction)
				return y, y.UnmarshalBinary(b)
			}})
		}
		if sb, err := rlp.EncodeToBytes(tx); err == nil {
			c.aliasCheck(aliasSpec{family: fam, codec: "rlpstream", input: sb, view: rview, mutate: mut, decode: func(b []byte) (interface{}, error) {
				y := new(types.Transaction)
				return y, rlp.DecodeBytes(b, y)
			}})
		}
		if jb, err := safeJSON(tx); err == nil {
			c.aliasCheck(aliasSpec{family: fam, codec: "json", input: jb, view: view, mutate: mut, decode: func(b []byte) (interface{}, error) {
				y := new(types.Transaction)
				return y, y.UnmarshalJSON(b)
			}})
		}
	case "etxs-rawdb":
		// rawdb.WriteInboundEtxs / ReadInboundEtxs: what core/slice.go reads, reverts in place and reads again
		db := rawdb.NewMemoryDatabase(log.Global)
		etxs := types.Transactions{}
		for i, n := 0, 1+r.Intn(3); i < n; i++ {
			etxs = append(etxs, genTx(r, "External", loc))
		}
		key := genHash(r)
		rawdb.WriteInboundEtxs(db, key, etxs)
		c.aliasCheck(aliasSpec{family: "etxs", codec: "rawdb", view: func(y interface{}) string { return txsView(y.(types.Transactions)) },
			mutate: func(y interface{}) {
				for _, t := range y.(types.Transactions) {
					txPublicMutate(t, loc)
				}
			},
			decode: func([]byte) (interface{}, error) {
				got := rawdb.ReadInboundEtxs(db, key)
				if len(got) != len(etxs) {
					return nil, fmt.Errorf("ReadInboundEtxs returned %d of %d", len(got), len(etxs))
				}
				return got, nil
			}})
	case "header":
		h := genHeader(r)
		hb, _ := marshalHeader(h)
		view := func(y interface{}) string { return headerFullView(y.(*types.Header)) }
		c.aliasCheck(aliasSpec{family: "header", codec: "proto", input: hb, view: view, decode: func(b []byte) (interface{}, error) {
			pd := new(types.ProtoHeader)
			if err := proto.Unmarshal(b, pd); err != nil {
				return nil, err
			}
			y := new(types.Header)
			return y, y.ProtoDecode(pd, locCopy(loc))
		}})
		c.aliasCheck(aliasSpec{family: "header", codec: "rpcjson", input: []byte(jsonOf(h.RPCMarshalHeader())), view: view, decode: func(b []byte) (interface{}, error) {
			y := new(types.Header)
			return y, y.UnmarshalJSON(b)
		}})
	case "woheader":
		for _, regime := range []string{"pre", "transition", "kawpow"} {
			wh := genWoHeader(r, loc, regime)
			wb, _ := marshalWh(wh)
			c.aliasCheck(aliasSpec{family: "woheader/" + regime, codec: "proto", input: wb,
				view: func(y interface{}) string { return whFullView(y.(*types.WorkObjectHeader)) },
				decode: func(b []byte) (interface{}, error) {
					pd := new(types.ProtoWorkObjectHeader)
					if err := proto.Unmarshal(b, pd); err != nil {
						return nil, err
					}
					y := new(types.WorkObjectHeader)
					return y, y.ProtoDecode(pd, locCopy(loc))
				}})
		}
	case "workobject":
		full := genWorkObject(r, loc)
		pv := full.ConvertToPEtxView()
		views := []struct {
			n string
			x *types.WorkObject
			v types.WorkObjectView
		}{
			{"block", full, types.BlockObject},
			{"header", full.ConvertToHeaderView().WorkObject, types.HeaderObject},
			{"petx", types.NewWorkObject(pv.WorkObjectHeader(), pv.Body(), nil), types.PEtxObject},
			{"share", full.ConvertToWorkObjectShareView(full.Transactions()).WorkObject, types.WorkShareTxObject},
		}
		for _, w := range views {
			w := w
			wb, _ := marshalWo(w.x, w.v)
			c.aliasCheck(aliasSpec{family: "workobject/" + w.n, codec: "proto", input: wb,
				view: func(y interface{}) string { return woFullView(y.(*types.WorkObject), w.v) },
				mutate: func(y interface{}) {
					for _, t := range y.(*types.WorkObject).Body().OutboundEtxs() {
						txPublicMutate(t, loc)
					}
				},
				decode: func(b []byte) (interface{}, error) {
					pd := new(types.ProtoWorkObject)
					if err := proto.Unmarshal(b, pd); err != nil {
						return nil, err
					}
					y := new(types.WorkObject)
					return y, y.ProtoDecode(pd, locCopy(loc), w.v)
				}})
		}
	case "workobject-p2p":
		full := genWorkObject(r, loc)
		var data, typ interface{}
		view := types.BlockObject
		switch r.Intn(3) {
		case 0:
			data, typ = full.ConvertToBlockView(), &types.WorkObjectBlockView{}
		case 1:
			data, typ, view = &types.WorkObjectHeaderView{WorkObject: full.ConvertToHeaderView().WorkObject}, &types.WorkObjectHeaderView{}, types.HeaderObject
		default:
			data, typ, view = &types.WorkObjectShareView{WorkObject: full.ConvertToWorkObjectShareView(full.Transactions()).WorkObject}, &types.WorkObjectShareView{}, types.WorkShareTxObject
		}
		wire, err := pb.ConvertAndMarshal(data)
		if err != nil {
			return
		}
		c.aliasCheck(aliasSpec{family: "workobject", codec: "p2p", input: wire,
			view: func(y interface{}) string { return woFullView(y.(*types.WorkObject), view) },
			decode: func(b []byte) (interface{}, error) {
				var out interface{}
				if err := pb.UnmarshalAndConvert(b, locCopy(loc), &out, typ); err != nil {
					return nil, err
				}
				switch v := out.(type) {
				case types.WorkObjectBlockView:
					return v.WorkObject, nil
				case types.WorkObjectHeaderView:
					return v.WorkObject, nil
				case types.WorkObjectShareView:
					return v.WorkObject, nil
				}
				return nil, fmt.Errorf("unexpected %T", out)
			}})
	case "workobject-rawdb":
		db := rawdb.NewMemoryDatabase(log.Global)
		x := genWorkObject(r, loc)
		hash := x.Hash()
		rawdb.WriteWorkObject(db, hash, x, types.BlockObject, common.ZONE_CTX)
		num := x.NumberU64(common.ZONE_CTX)
		c.aliasCheck(aliasSpec{family: "workobject", codec: "rawdb",
			view: func(y interface{}) string { return woFullView(y.(*types.WorkObject), types.BlockObject) },
			mutate: func(y interface{}) {
				for _, t := range y.(*types.WorkObject).Body().OutboundEtxs() {
					txPublicMutate(t, loc)
				}
			},
			decode: func([]byte) (interface{}, error) {
				y := rawdb.ReadWorkObject(db, num, hash, types.BlockObject)
				if y == nil {
					return nil, fmt.Errorf("ReadWorkObject returned nil")
				}
				return y, nil
			}})
	case "receipts":
		var rs types.ReceiptsForStorage
		var plain types.Receipts
		for i, n := 0, 1+r.Intn(3); i < n; i++ {
			rc := genReceipt(r, loc)
			if rc.Status == types.ReceiptStatusLocked {
				rc.Status = types.ReceiptStatusSuccessful // the locked status is a recorded finding of the round-trip monitor
			}
			rs = append(rs, (*types.ReceiptForStorage)(rc))
			plain = append(plain, rc)
		}
		pe, err := rs.ProtoEncode()
		if err != nil {
			return
		}
		rb, _ := proto.Marshal(pe)
		mut := func(rs []*types.Receipt) {
			for _, rc := range rs {
				for _, t := range rc.OutboundEtxs {
					txPublicMutate(t, loc)
				}
			}
		}
		c.aliasCheck(aliasSpec{family: "receipts", codec: "proto", input: rb,
			view: func(y interface{}) string { return receiptsView(*y.(*types.ReceiptsForStorage)) },
			mutate: func(y interface{}) {
				for _, rc := range *y.(*types.ReceiptsForStorage) {
					for _, t := range rc.OutboundEtxs {
						txPublicMutate(t, loc)
					}
				}
			},
			decode: func(b []byte) (interface{}, error) {
				pd := new(types.ProtoReceiptsForStorage)
				if err := proto.Unmarshal(b, pd); err != nil {
					return nil, err
				}
				y := new(types.ReceiptsForStorage)
				return y, y.ProtoDecode(pd, locCopy(loc))
			}})
		db := rawdb.NewMemoryDatabase(log.Global)
		bh, num := genHash(r), uint64(r.Intn(1000))
		rawdb.WriteReceipts(db, bh, num, plain)
		c.aliasCheck(aliasSpec{family: "receipts", codec: "rawdb",
			view: func(y interface{}) string {
				var s types.ReceiptsForStorage
				for _, rc := range y.(types.Receipts) {
					s = append(s, (*types.ReceiptForStorage)(rc))
				}
				return receiptsView(s)
			},
			mutate: func(y interface{}) { mut(y.(types.Receipts)) },
			decode: func([]byte) (interface{}, error) {
				got := rawdb.ReadRawReceipts(db, bh, num)
				if len(got) != len(plain) {
					return nil, fmt.Errorf("ReadRawReceipts returned %d of %d", len(got), len(plain))
				}
				return got, nil
			}})
	case "pendingEtxs":
		db := rawdb.NewMemoryDatabase(log.Global)
		wo := genWorkObject(r, loc).ConvertToPEtxView()
		etxs := genTxs(r, loc, 3, "External")
		rawdb.WritePendingEtxs(db, types.PendingEtxs{Header: wo, OutboundEtxs: etxs})
		rawdb.WritePendingEtxsRollup(db, types.PendingEtxsRollup{Header: wo, EtxsRollup: etxs})
		c.aliasCheck(aliasSpec{family: "pendingEtxs", codec: "rawdb",
			view: func(y interface{}) string {
				p := y.(*types.PendingEtxs)
				return p.Header.Hash().Hex() + " " + txsView(p.OutboundEtxs)
			},
			mutate: func(y interface{}) {
				for _, t := range y.(*types.PendingEtxs).OutboundEtxs {
					txPublicMutate(t, loc)
				}
			},
			decode: func([]byte) (interface{}, error) {
				got := rawdb.ReadPendingEtxs(db, wo.Hash())
				if got == nil {
					return nil, fmt.Errorf("ReadPendingEtxs returned nil")
				}
				return got, nil
			}})
		c.aliasCheck(aliasSpec{family: "pendingEtxsRollup", codec: "rawdb",
			view: func(y interface{}) string {
				p := y.(*types.PendingEtxsRollup)
				return p.Header.Hash().Hex() + " " + txsView(p.EtxsRollup)
			},
			mutate: func(y interface{}) {
				for _, t := range y.(*types.PendingEtxsRollup).EtxsRollup {
					txPublicMutate(t, loc)
				}
			},
			decode: func([]byte) (interface{}, error) {
				got := rawdb.ReadPendingEtxsRollup(db, wo.Hash())
				if got == nil {
					return nil, fmt.Errorf("ReadPendingEtxsRollup returned nil")
				}
				return got, nil
			}})
	case "utxo":
		db := rawdb.NewMemoryDatabase(log.Global)
		u := &types.UtxoEntry{Denomination: uint8(r.Intn(types.MaxDenomination + 1)), Address: genAddrBytes(r, loc, true, true), Lock: genLock(r)}
		h, i := genHash(r), genIndex16(r)
		if err := rawdb.CreateUTXO(db, h, i, u); err != nil {
			return
		}
		uview := func(y interface{}) string {
			e := y.(*types.UtxoEntry)
			return fmt.Sprintf("%d %x %s", e.Denomination, e.Address, bi(e.Lock))
		}
		c.aliasCheck(aliasSpec{family: "utxo", codec: "rawdb", view: uview, decode: func([]byte) (interface{}, error) {
			got := rawdb.GetUTXO(db, h, i)
			if got == nil {
				return nil, fmt.Errorf("GetUTXO returned nil")
			}
			return got, nil
		}})
		pe, err := u.ProtoEncode()
		if err != nil {
			return
		}
		ub, _ := proto.Marshal(pe)
		c.aliasCheck(aliasSpec{family: "utxo", codec: "proto", input: ub, view: uview, decode: func(b []byte) (interface{}, error) {
			pd := new(types.ProtoTxOut)
			if err := proto.Unmarshal(b, pd); err != nil {
				return nil, err
			}
			y := new(types.UtxoEntry)
			return y, y.ProtoDecode(pd)
		}})
	case "p2p-request":
		n := genBig(r)
		wire, err := pb.EncodeQuaiRequest(uint32(r.Next()), loc, n, &types.WorkObjectHeaderView{})
		if err != nil {
			return
		}
		c.aliasCheck(aliasSpec{family: "p2p-request-number", codec: "p2p", input: wire,
			view: func(y interface{}) string { return y.(*big.Int).String() },
			decode: func(b []byte) (interface{}, error) {
				msg, err := pb.DecodeQuaiMessage(b)
				if err != nil {
					return nil, err
				}
				_, _, _, d, err := pb.DecodeQuaiRequest(msg.GetRequest())
				if err != nil {
					return nil, err
				}
				x, ok := d.(*big.Int)
				if !ok {
					return nil, fmt.Errorf("unexpected %T", d)
				}
				return x, nil
			}})
	case "lockup":
		db := rawdb.NewMemoryDatabase(log.Global)
		owner, ben := genAddress(r, loc), genAddress(r, loc)
		lb, epoch := byte(r.Intn(4)), uint32(r.Next())
		amount := genBig(r)
		if amount.BitLen() > 256 {
			amount = big.NewInt(0)
		}
		if _, err := rawdb.WriteCoinbaseLockup(db, owner, ben, lb, epoch, amount, uint32(r.Next()), genIndex16(r), genAddress(r, loc)); err != nil {
			return
		}
		c.aliasCheck(aliasSpec{family: "lockup-amount", codec: "rawdb",
			view: func(y interface{}) string { return y.(*big.Int).String() },
			decode: func([]byte) (interface{}, error) {
				a, _, _, _ := rawdb.ReadCoinbaseLockup(db, db.NewBatch(), owner, ben, lb, epoch)
				return a, nil
			}})
	}
}

package main

func allGens(c *ctx) []*gen {
	return []*gen{genProto(c), genProtoAdv(c), genRlp(c), genRlpAdv(c), genTxOutObj(c), genOutPointObj(c), genTerminiObj(c), genTxModel(c),
		genTxMon(c), genHeaderMon(c), genWoHeaderMon(c), genWorkObjectMon(c), genStorageMon(c), genP2PMon(c), genRawKeys(c), genAliasMon(c), genRetainMon(c)}
}

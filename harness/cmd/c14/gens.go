package main

func allGens(c *ctx) []*gen {
	return []*gen{genProto(c), genProtoAdv(c)}
}

package main

import (
	"bytes"
	"fmt"
	"math/big"

	"google.golang.org/protobuf/proto"

	"github.com/dominant-strategies/go-quai/common"
	"github.com/dominant-strategies/go-quai/core/types"

	"verifharness/hlib"
)

// ---------- printers for the object models of Model/C14.v ----------

func coqOptBytes(b []byte) string {
	if b == nil {
		return "None"
	}
	return "(Some " + hlib.CoqBytes(b) + ")"
}
func coqOptBig(x *big.Int) string {
	if x == nil {
		return "None"
	}
	return "(Some " + x.String() + ")"
}
func coqTxOut(d uint8, a []byte, l *big.Int) string {
	return fmt.Sprintf("(mkTxOut %d %s %s)", d, coqOptBytes(a), coqOptBig(l))
}
func dres(ok bool, s string) string {
	if !ok {
		return "DErr"
	}
	return "(DOk " + s + ")"
}

func genLock(r *hlib.Rng) *big.Int {
	switch shapeMode {
	case "zero":
		if r.Bool() {
			return nil
		}
		return big.NewInt(0)
	case "small":
		return big.NewInt(smallBigs[r.Intn(len(smallBigs))])
	}
	switch r.Pick(25, 20, 20, 15, 10, 10) {
	case 0:
		return nil
	case 1:
		return big.NewInt(0)
	case 2:
		return big.NewInt(int64(1 + r.Intn(300)))
	case 3:
		return new(big.Int).SetUint64(r.Next())
	case 4:
		return new(big.Int).SetBytes(r.Bytes(32))
	}
	return new(big.Int).Lsh(big.NewInt(1), uint(8*(1+r.Intn(20)))) // trailing zero bytes
}

func genAddr20(r *hlib.Rng) []byte { return r.Bytes(common.AddressLength) }

func genDenom(r *hlib.Rng) uint8 {
	switch r.Pick(2, 5, 2, 1) {
	case 0:
		return 0
	case 1:
		return uint8(r.Intn(types.MaxDenomination + 1))
	case 2:
		return 255
	}
	return uint8(r.Intn(256))
}

func genHash(r *hlib.Rng) common.Hash {
	switch r.Pick(1, 6, 1) {
	case 0:
		return common.Hash{}
	case 1:
		return common.BytesToHash(r.Bytes(32))
	}
	var h common.Hash
	for i := range h {
		h[i] = 0xff
	}
	return h
}

func genIndex16(r *hlib.Rng) uint16 {
	switch r.Pick(2, 4, 2, 2) {
	case 0:
		return 0
	case 1:
		return uint16(r.Intn(300))
	case 2:
		return 65535
	}
	return uint16(r.Next())
}

func bigEq(a, b *big.Int) bool {
	if a == nil || b == nil {
		return a == nil && b == nil
	}
	return a.Cmp(b) == 0
}

// ---------- TxOut / UtxoEntry ----------

func genTxOutObj(c *ctx) *gen {
	return &gen{kind: "txout", names: []string{"TxOut", "UtxoEntry"}, run: func(c *ctx, name string, r *hlib.Rng) {
		d := genDenom(r)
		var addr []byte
		switch r.Pick(8, 1, 1) {
		case 0:
			addr = genAddr20(r)
		case 1:
			addr = nil
		case 2:
			addr = []byte{}
		}
		lock := genLock(r)
		var pe *types.ProtoTxOut
		var err error
		if name == "TxOut" {
			pe, err = types.TxOut{Denomination: d, Address: addr, Lock: lock}.ProtoEncode()
		} else {
			pe, err = (&types.UtxoEntry{Denomination: d, Address: addr, Lock: lock}).ProtoEncode()
		}
		if err != nil {
			c.fail("obj/"+name+"/encode-error", err.Error())
			return
		}
		b, _ := proto.Marshal(pe)
		pd := new(types.ProtoTxOut)
		if err := proto.Unmarshal(b, pd); err != nil {
			c.fail("obj/"+name+"/unmarshal-own-bytes", err.Error())
			return
		}
		var bd uint8
		var ba []byte
		var bl *big.Int
		var derr error
		var pe2 *types.ProtoTxOut
		if name == "TxOut" {
			var o types.TxOut
			derr = o.ProtoDecode(pd)
			bd, ba, bl = o.Denomination, o.Address, o.Lock
			pe2, _ = o.ProtoEncode()
		} else {
			var o types.UtxoEntry
			derr = o.ProtoDecode(pd)
			bd, ba, bl = o.Denomination, o.Address, o.Lock
			pe2, _ = (&o).ProtoEncode()
		}
		if derr != nil {
			c.fail("obj/"+name+"/decode-own-bytes", derr.Error())
		} else {
			// monitors: same object up to the documented normal form (nil lock == 0, nil/empty address kept)
			wantLock := lock
			if wantLock == nil {
				wantLock = big.NewInt(0)
			}
			if bd != d || !bytes.Equal(ba, addr) || (ba == nil) != (addr == nil) || !bigEq(bl, wantLock) {
				c.fail("obj/"+name+"/roundtrip-differs", fmt.Sprintf("in (%d,%x,%v) out (%d,%x,%v)", d, addr, lock, bd, ba, bl))
			}
			b2, _ := proto.Marshal(pe2)
			if !bytes.Equal(b, b2) {
				c.fail("obj/"+name+"/reencode-differs", fmt.Sprintf("%x vs %x", b, b2))
			}
		}
		cons := "CTxOut"
		if name == "UtxoEntry" {
			cons = "CUtxo"
		}
		c.rep.Nontrivial(fmt.Sprintf("obj/%s/%v/%v/%d", name, addr == nil, lock == nil, len(b)))
		c.emit(func(id int) string {
			return fmt.Sprintf("%s %d %s %s %s", cons, id, coqTxOut(d, addr, lock), hlib.CoqBytes(b), dres(derr == nil, coqTxOut(bd, ba, bl)))
		})
		// the bytes that were produced are also an instance of the generic wire model
		c.protoCheck(c.msgByGo(pe), pe.ProtoReflect(), name)

		// decoder side: an arbitrary ProtoTxOut (wide denomination, absent fields)
		q := &types.ProtoTxOut{}
		if r.Chance(85) {
			v := uint32(r.Intn(256))
			if r.Chance(40) {
				v = uint32(256 + r.Intn(1<<20))
			}
			if r.Chance(10) {
				v = 0xFFFFFFFF
			}
			q.Denomination = &v
		}
		if r.Chance(80) {
			q.Address = genAddr20(r)
		}
		if r.Chance(70) {
			q.Lock = r.Bytes(r.Intn(10))
		}
		qb, _ := proto.Marshal(q)
		qd := new(types.ProtoTxOut)
		proto.Unmarshal(qb, qd)
		cons2 := "CTxOutDec"
		if name == "TxOut" {
			var o types.TxOut
			e := o.ProtoDecode(qd)
			c.emit(func(id int) string {
				return fmt.Sprintf("%s %d %s %s", cons2, id, hlib.CoqBytes(qb), dres(e == nil, coqTxOut(o.Denomination, o.Address, o.Lock)))
			})
			c.rep.Count(fmt.Sprintf("txout-dec:%v", e == nil))
			if e == nil && qd.Denomination != nil && *qd.Denomination > 255 {
				c.fail("obj/TxOut/accepts-wide-denomination", fmt.Sprintf("wire denomination %d decoded as %d", *qd.Denomination, o.Denomination))
			}
		} else {
			cons2 = "CUtxoDec"
			var o types.UtxoEntry
			e := o.ProtoDecode(qd)
			c.emit(func(id int) string {
				return fmt.Sprintf("%s %d %s %s", cons2, id, hlib.CoqBytes(qb), dres(e == nil, coqTxOut(o.Denomination, o.Address, o.Lock)))
			})
			c.rep.Count(fmt.Sprintf("utxo-dec:%v", e == nil))
			if e == nil && qd.Denomination != nil && *qd.Denomination > 255 {
				c.fail("obj/UtxoEntry/accepts-wide-denomination", fmt.Sprintf("wire denomination %d decoded as %d", *qd.Denomination, o.Denomination))
			}
		}
	}}
}

// ---------- OutPoint / OutpointAndDenomination ----------

func coqOutPoint(h common.Hash, i uint16) string {
	return fmt.Sprintf("(mkOutPoint %s %d)", hlib.CoqBytes(h[:]), i)
}
func coqOpd(h common.Hash, i uint16, d uint8, l *big.Int) string {
	return fmt.Sprintf("(mkOpd %s %d %d %s)", hlib.CoqBytes(h[:]), i, d, coqOptBig(l))
}

func genHashBytesAnyLen(r *hlib.Rng) []byte {
	switch r.Pick(5, 2, 2, 1) {
	case 0:
		return r.Bytes(32)
	case 1:
		return r.Bytes(1 + r.Intn(31)) // left padded
	case 2:
		return r.Bytes(33 + r.Intn(8)) // cropped from the left
	}
	return nil
}

func genOutPointObj(c *ctx) *gen {
	return &gen{kind: "outpoint", names: []string{"OutPoint", "OutpointAndDenomination"}, run: func(c *ctx, name string, r *hlib.Rng) {
		h, idx := genHash(r), genIndex16(r)
		if name == "OutPoint" {
			x := types.OutPoint{TxHash: h, Index: idx}
			pe, _ := x.ProtoEncode()
			b, _ := proto.Marshal(pe)
			pd := new(types.ProtoOutPoint)
			proto.Unmarshal(b, pd)
			var y types.OutPoint
			derr := y.ProtoDecode(pd)
			if derr != nil || y != x {
				c.fail("obj/OutPoint/roundtrip-differs", fmt.Sprintf("in %v out %v err %v", x, y, derr))
			}
			pe2, _ := y.ProtoEncode()
			if b2, _ := proto.Marshal(pe2); !bytes.Equal(b, b2) {
				c.fail("obj/OutPoint/reencode-differs", fmt.Sprintf("%x vs %x", b, b2))
			}
			c.rep.Nontrivial(fmt.Sprintf("obj/OutPoint/%d", len(b)))
			c.emit(func(id int) string {
				return fmt.Sprintf("COutPoint %d %s %s %s", id, coqOutPoint(h, idx), hlib.CoqBytes(b), dres(derr == nil, coqOutPoint(y.TxHash, y.Index)))
			})
			c.protoCheck(c.msgByGo(pe), pe.ProtoReflect(), name)
			// decoder side: wide index, odd hash lengths, absent fields
			q := &types.ProtoOutPoint{}
			if r.Chance(90) {
				q.Hash = &common.ProtoHash{Value: genHashBytesAnyLen(r)}
			}
			if r.Chance(90) {
				v := uint32(r.Next())
				if r.Chance(50) {
					v = uint32(65536 + r.Intn(70000))
				}
				q.Index = &v
			}
			qb, _ := proto.Marshal(q)
			qd := new(types.ProtoOutPoint)
			proto.Unmarshal(qb, qd)
			var z types.OutPoint
			e := z.ProtoDecode(qd)
			c.rep.Count(fmt.Sprintf("outpoint-dec:%v", e == nil))
			c.emit(func(id int) string {
				return fmt.Sprintf("COutPointDec %d %s %s", id, hlib.CoqBytes(qb), dres(e == nil, coqOutPoint(z.TxHash, z.Index)))
			})
			return
		}
		d, lock := genDenom(r), genLock(r)
		x := types.OutpointAndDenomination{TxHash: h, Index: idx, Denomination: d, Lock: lock}
		pe, _ := x.ProtoEncode()
		b, _ := proto.Marshal(pe)
		pd := new(types.ProtoOutPointAndDenomination)
		proto.Unmarshal(b, pd)
		var y types.OutpointAndDenomination
		derr := y.ProtoDecode(pd)
		wantLock := lock
		if wantLock == nil {
			wantLock = big.NewInt(0)
		}
		if derr != nil || y.TxHash != h || y.Index != idx || y.Denomination != d || !bigEq(y.Lock, wantLock) {
			c.fail("obj/OutpointAndDenomination/roundtrip-differs", fmt.Sprintf("in %v out %v err %v", x, y, derr))
		}
		c.rep.Nontrivial(fmt.Sprintf("obj/Opd/%v/%d", lock == nil, len(b)))
		c.emit(func(id int) string {
			return fmt.Sprintf("COpd %d %s %s %s", id, coqOpd(h, idx, d, lock), hlib.CoqBytes(b), dres(derr == nil, coqOpd(y.TxHash, y.Index, y.Denomination, y.Lock)))
		})
		c.protoCheck(c.msgByGo(pe), pe.ProtoReflect(), name)
		q := &types.ProtoOutPointAndDenomination{}
		if r.Chance(90) {
			q.Hash = &common.ProtoHash{Value: genHashBytesAnyLen(r)}
		}
		if r.Chance(90) {
			v := uint32(r.Next())
			q.Index = &v
		}
		if r.Chance(90) {
			v := uint32(r.Intn(1 << 12))
			q.Denomination = &v
		}
		if r.Chance(60) {
			q.Lock = r.Bytes(r.Intn(9))
		}
		qb, _ := proto.Marshal(q)
		qd := new(types.ProtoOutPointAndDenomination)
		proto.Unmarshal(qb, qd)
		var z types.OutpointAndDenomination
		e := z.ProtoDecode(qd)
		c.rep.Count(fmt.Sprintf("opd-dec:%v", e == nil))
		c.emit(func(id int) string {
			return fmt.Sprintf("COpdDec %d %s %s", id, hlib.CoqBytes(qb), dres(e == nil, coqOpd(z.TxHash, z.Index, z.Denomination, z.Lock)))
		})
	}}
}

// ---------- Termini ----------

func coqHashes(hs []common.Hash) string {
	xs := make([]string, len(hs))
	for i, h := range hs {
		xs[i] = hlib.CoqBytes(h[:])
	}
	return hlib.CoqList(xs)
}

func genTerminiObj(c *ctx) *gen {
	return &gen{kind: "termini", names: []string{"full", "short"}, run: func(c *ctx, name string, r *hlib.Rng) {
		nd, ns := common.MaxWidth, common.MaxWidth
		if name == "short" {
			nd, ns = r.Intn(common.MaxWidth+1), r.Intn(common.MaxWidth+1)
		}
		mk := func(n int) []common.Hash {
			hs := make([]common.Hash, n)
			for i := range hs {
				hs[i] = genHash(r)
			}
			return hs
		}
		dom, sub := mk(nd), mk(ns)
		t := types.EmptyTermini()
		// SetDomTermini/SetSubTermini always allocate MaxWidth slots; the short shape is only
		// reachable through ProtoDecode of a short message, which is how it is built here
		if name == "full" {
			t.SetDomTermini(dom)
			t.SetSubTermini(sub)
		} else {
			pt := &types.ProtoTermini{}
			for _, h := range dom {
				pt.DomTermini = append(pt.DomTermini, h.ProtoEncode())
			}
			for _, h := range sub {
				pt.SubTermini = append(pt.SubTermini, h.ProtoEncode())
			}
			if len(dom) == 0 || len(sub) == 0 {
				return // ProtoDecode rejects nil slices; nothing to round-trip
			}
			if err := t.ProtoDecode(pt); err != nil {
				c.fail("obj/Termini/short-build", err.Error())
				return
			}
		}
		pe := t.ProtoEncode()
		b, _ := proto.Marshal(pe)
		pd := new(types.ProtoTermini)
		proto.Unmarshal(b, pd)
		var y types.Termini
		derr := y.ProtoDecode(pd)
		if derr != nil {
			c.fail("obj/Termini/decode-own-bytes", derr.Error())
			return
		}
		if name == "full" {
			if !hashesEq(y.DomTermini(), dom) || !hashesEq(y.SubTermini(), sub) {
				c.fail("obj/Termini/roundtrip-differs", fmt.Sprintf("%v -> %v", t, y))
			}
		}
		if name == "full" {
			if b2, _ := proto.Marshal(y.ProtoEncode()); !bytes.Equal(b, b2) {
				c.fail("obj/Termini/reencode-differs", fmt.Sprintf("%x vs %x", b, b2))
			}
		} else {
			// outside the normal form (Termini.IsValid: MaxWidth entries): padded with zero hashes
			pad := func(hs []common.Hash) []common.Hash {
				out := append([]common.Hash{}, hs...)
				for len(out) < common.MaxWidth {
					out = append(out, common.Hash{})
				}
				return out
			}
			if !hashesEq(y.DomTermini(), pad(dom)) || !hashesEq(y.SubTermini(), pad(sub)) {
				c.fail("obj/Termini/short-not-padded", fmt.Sprintf("%v -> %v", t, y))
			}
		}
		c.rep.Nontrivial(fmt.Sprintf("obj/Termini/%s/%d/%d", name, nd, ns))
		c.emit(func(id int) string {
			return fmt.Sprintf("CTermini %d (mkTermini %s %s) %s %s", id, coqHashes(dom), coqHashes(sub), hlib.CoqBytes(b),
				dres(true, fmt.Sprintf("(mkTermini %s %s)", coqHashes(y.DomTermini()), coqHashes(y.SubTermini()))))
		})
		c.protoCheck(c.msgByGo(pe), pe.ProtoReflect(), "Termini")
	}}
}

func hashesEq(a, b []common.Hash) bool {
	if len(a) != len(b) {
		return false
	}
	for i := range a {
		if a[i] != b[i] {
			return false
		}
	}
	return true
}

package main

// Object-graph utilities for the ownership monitors (alias.go, retain.go).
//
// regionsOf walks everything reachable from a value (through exported and unexported
// fields, pointers, slices, interfaces, maps) and returns the mutable memory it owns:
// the target of every pointer and the backing array of every slice. Two independently
// produced objects (two decodes of the same bytes, two encode results) must own disjoint
// memory; a region that occurs in both is shared state - a package-level "constant"
// such as common.Big0, a pooled scratch buffer, a decode cache - through which an
// in-place write on one object silently changes the other.

import (
	"fmt"
	"math/big"
	"reflect"
	"sort"
	"strings"
	"unsafe"

	"github.com/dominant-strategies/go-quai/common"
	qmath "github.com/dominant-strategies/go-quai/common/math"
	"github.com/dominant-strategies/go-quai/params"
)

type region struct {
	lo, hi uintptr
	label  string // <nearest go-quai struct type>.<field>[.abs|[]] : stable, no indices
	path   string // full path with indices, for the message
}

type graph struct {
	regs  []region
	bigs  []*big.Int
	bytes [][]byte
	seen  map[[2]uintptr]bool
	dupes []string // one big.Int reached through two different labels inside one object
	bigAt map[uintptr]string
}

var bigIntType = reflect.TypeOf(big.Int{})

// types whose interior is either immutable, a cache, or shared by design
func opaqueType(t reflect.Type) bool {
	p := t.PkgPath()
	switch {
	case p == "time", p == "sync", p == "sync/atomic", p == "reflect", p == "crypto/elliptic":
		return true
	case strings.HasPrefix(p, "google.golang.org/protobuf"):
		return true
	}
	return false
}

func hasPointers(t reflect.Type) bool {
	switch t.Kind() {
	case reflect.Ptr, reflect.Slice, reflect.Interface, reflect.Map, reflect.UnsafePointer:
		return true
	case reflect.Array:
		return t.Len() > 0 && hasPointers(t.Elem())
	case reflect.Struct:
		for i := 0; i < t.NumField(); i++ {
			if hasPointers(t.Field(i).Type) {
				return true
			}
		}
	}
	return false
}

func regionsOf(v interface{}) *graph {
	g := &graph{seen: map[[2]uintptr]bool{}, bigAt: map[uintptr]string{}}
	g.walk(reflect.ValueOf(v), "", "", 0)
	return g
}

func typeID(t reflect.Type) uintptr {
	// the *rtype behind the interface: identity of the type
	return (*[2]uintptr)(unsafe.Pointer(&t))[1]
}

func (g *graph) walk(v reflect.Value, label, path string, depth int) {
	if !v.IsValid() || depth > 64 {
		return
	}
	t := v.Type()
	switch v.Kind() {
	case reflect.Ptr:
		if v.IsNil() {
			return
		}
		et := t.Elem()
		if opaqueType(et) {
			return
		}
		p := v.Pointer()
		if et == bigIntType {
			x := (*big.Int)(unsafe.Pointer(p))
			if prev, ok := g.bigAt[p]; ok {
				if prev != label {
					g.dupes = append(g.dupes, prev+" = "+label)
				}
				return
			}
			g.bigAt[p] = label
			g.regs = append(g.regs, region{p, p + et.Size(), label, path})
			g.bigs = append(g.bigs, x)
			if w := x.Bits(); cap(w) > 0 {
				w = w[:cap(w)]
				q := uintptr(unsafe.Pointer(&w[0]))
				g.regs = append(g.regs, region{q, q + uintptr(cap(w))*unsafe.Sizeof(w[0]), label + ".abs", path + ".abs"})
			}
			return
		}
		key := [2]uintptr{p, typeID(et)}
		if g.seen[key] {
			return
		}
		g.seen[key] = true
		if et.Size() > 0 {
			g.regs = append(g.regs, region{p, p + et.Size(), label, path})
		}
		g.walk(v.Elem(), label, path, depth+1)
	case reflect.Slice:
		if v.IsNil() || v.Cap() == 0 {
			return
		}
		et := t.Elem()
		p := v.Pointer()
		key := [2]uintptr{p, typeID(t)}
		if !g.seen[key] && et.Size() > 0 {
			g.regs = append(g.regs, region{p, p + uintptr(v.Cap())*et.Size(), label + "[]", path + "[]"})
		}
		if et.Kind() == reflect.Uint8 {
			if !g.seen[key] && v.Len() > 0 {
				g.bytes = append(g.bytes, unsafe.Slice((*byte)(unsafe.Pointer(p)), v.Len()))
			}
			g.seen[key] = true
			return
		}
		if g.seen[key] {
			return
		}
		g.seen[key] = true
		if !hasPointers(et) {
			return
		}
		for i := 0; i < v.Len(); i++ {
			g.walk(v.Index(i), label, fmt.Sprintf("%s[%d]", path, i), depth+1)
		}
	case reflect.Interface:
		if v.IsNil() {
			return
		}
		g.walk(v.Elem(), label, path, depth+1)
	case reflect.Struct:
		if opaqueType(t) || !hasPointers(t) {
			return
		}
		owner := ""
		if strings.Contains(t.PkgPath(), "go-quai") && t.Name() != "" {
			owner = t.Name()
		}
		for i := 0; i < t.NumField(); i++ {
			f := t.Field(i)
			if !hasPointers(f.Type) {
				continue
			}
			l := label + "." + f.Name
			if owner != "" {
				l = owner + "." + f.Name
			}
			g.walk(v.Field(i), l, path+"."+f.Name, depth+1)
		}
	case reflect.Array:
		if !hasPointers(t.Elem()) {
			return
		}
		for i := 0; i < v.Len(); i++ {
			g.walk(v.Index(i), label, fmt.Sprintf("%s[%d]", path, i), depth+1)
		}
	case reflect.Map:
		if v.IsNil() {
			return
		}
		it := v.MapRange()
		for it.Next() {
			g.walk(it.Key(), label+"{key}", path+"{key}", depth+1)
			g.walk(it.Value(), label+"{}", path+"{}", depth+1)
		}
	}
}

type overlap struct {
	label string
	a, b  region
}

// overlaps lists the regions of a that intersect a region of b, one entry per label.
func overlaps(a, b []region) []overlap {
	bs := append([]region{}, b...)
	sort.Slice(bs, func(i, j int) bool { return bs[i].lo < bs[j].lo })
	seen := map[string]bool{}
	var out []overlap
	for _, x := range a {
		// regions are few (hundreds): a linear scan with early exit is enough
		for _, y := range bs {
			if y.lo >= x.hi {
				break
			}
			if y.hi > x.lo {
				l := x.label
				if g := globalName(x.lo); g != "" {
					l += "->" + g
				}
				if !seen[l] {
					seen[l] = true
					out = append(out, overlap{l, x, y})
				}
			}
		}
	}
	sort.Slice(out, func(i, j int) bool { return out[i].label < out[j].label })
	return out
}

func bytesRegion(b []byte, label string) []region {
	if cap(b) == 0 {
		return nil
	}
	f := b[:cap(b)]
	p := uintptr(unsafe.Pointer(&f[0]))
	return []region{{p, p + uintptr(cap(b)), label, label}}
}

// scribble changes, in place, every big integer and every byte string the object owns.
func (g *graph) scribble() {
	one := big.NewInt(1)
	for _, x := range g.bigs {
		x.Add(x, one)
	}
	for _, b := range g.bytes {
		for i := range b {
			b[i] ^= 0xA5
		}
	}
}

// ---------- package-level big integers of the repository (names for the report, values guarded) ----------

type globalBig struct {
	name string
	ptr  *big.Int
	want *big.Int
}

var globalBigs = func() []globalBig {
	l := []globalBig{
		{"common.Big0", common.Big0, nil}, {"common.Big1", common.Big1, nil}, {"common.Big2", common.Big2, nil}, {"common.Big3", common.Big3, nil},
		{"common.Big4", common.Big4, nil}, {"common.Big7", common.Big7, nil}, {"common.Big8", common.Big8, nil}, {"common.Big10", common.Big10, nil},
		{"common.Big16", common.Big16, nil}, {"common.Big32", common.Big32, nil}, {"common.Big64", common.Big64, nil}, {"common.Big96", common.Big96, nil},
		{"common.Big99", common.Big99, nil}, {"common.Big100", common.Big100, nil}, {"common.Big101", common.Big101, nil}, {"common.Big256", common.Big256, nil},
		{"common.Big257", common.Big257, nil}, {"common.Big480", common.Big480, nil}, {"common.Big1024", common.Big1024, nil}, {"common.Big3072", common.Big3072, nil},
		{"common.Big199680", common.Big199680, nil}, {"common.Big2e32", common.Big2e32, nil}, {"common.Big2e64", common.Big2e64, nil},
		{"common.Big2e256", common.Big2e256, nil}, {"common.Big10e18", common.Big10e18, nil},
		{"math.MaxBig256", qmath.MaxBig256, nil}, {"math.MaxBig63", qmath.MaxBig63, nil},
		{"params.BigEther", params.BigEther, nil}, {"params.ExchangeRate", params.ExchangeRate, nil},
		{"params.StartingKQuaiDiscount", params.StartingKQuaiDiscount, nil}, {"params.StartingConversionFlowAmount", params.StartingConversionFlowAmount, nil},
	}
	out := l[:0]
	for _, g := range l {
		if g.ptr != nil {
			g.want = new(big.Int).Set(g.ptr)
			out = append(out, g)
		}
	}
	return out
}()

func globalName(p uintptr) string {
	for _, g := range globalBigs {
		q := uintptr(unsafe.Pointer(g.ptr))
		if p >= q && p < q+bigIntType.Size() {
			return g.name
		}
	}
	return ""
}

// guardGlobals reports (and repairs, so that one failure does not cascade) every package-level
// big integer whose value is no longer the one it had when the harness started.
func (c *ctx) guardGlobals(where string) {
	for _, g := range globalBigs {
		if g.ptr.Cmp(g.want) != 0 {
			c.fail("alias/global-changed/"+g.name, fmt.Sprintf("%s is now %v (was %v) after %s: a codec handed out a pointer to the package-level value and an in-place write went through it", g.name, g.ptr, g.want, where))
			g.ptr.Set(g.want)
		}
	}
}

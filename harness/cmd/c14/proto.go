package main

import (
	"bytes"
	"fmt"
	"sort"
	"strings"

	"google.golang.org/protobuf/encoding/protowire"
	"google.golang.org/protobuf/proto"
	"google.golang.org/protobuf/reflect/protoreflect"
	"google.golang.org/protobuf/reflect/protoregistry"

	"verifharness/cmd/c14/c14schema"
	"verifharness/hlib"
)

// ---------- generic field tree (mirrors Lib/C14_ProtoWire.fval) ----------

type entry struct {
	Num int
	Val fv
}
type fv struct {
	Kind  byte // 'i' int, 'b' bytes, 'm' message
	Int   uint64
	Bytes []byte
	Msg   []entry
}

func coqTree(es []entry) string {
	var sb strings.Builder
	sb.WriteByte('[')
	for i, e := range es {
		if i > 0 {
			sb.WriteByte(';')
		}
		fmt.Fprintf(&sb, "(%d,", e.Num)
		switch e.Val.Kind {
		case 'i':
			fmt.Fprintf(&sb, "FInt %d", e.Val.Int)
		case 'b':
			sb.WriteString("FBytes " + hlib.CoqBytes(e.Val.Bytes))
		case 'm':
			sb.WriteString("FMsg " + coqTree(e.Val.Msg))
		}
		sb.WriteByte(')')
	}
	sb.WriteByte(']')
	return sb.String()
}

func (c *ctx) msgOf(md protoreflect.MessageDescriptor) *c14schema.Message {
	return c14schema.ByName(c.msgs, string(md.FullName()))
}

// treeOf projects a protobuf message to the generic field tree, fields in marshal order.
func (c *ctx) treeOf(m protoreflect.Message) []entry {
	sm := c.msgOf(m.Descriptor())
	var out []entry
	val := func(fd protoreflect.FieldDescriptor, v protoreflect.Value) fv {
		switch fd.Kind() {
		case protoreflect.Uint32Kind, protoreflect.Uint64Kind:
			return fv{Kind: 'i', Int: v.Uint()}
		case protoreflect.BytesKind:
			return fv{Kind: 'b', Bytes: v.Bytes()}
		case protoreflect.MessageKind:
			return fv{Kind: 'm', Msg: c.treeOf(v.Message())}
		}
		panic("kind outside the fragment: " + fd.Kind().String())
	}
	for _, f := range sm.Fields {
		if f.Kind == "other" {
			continue
		}
		if f.Label == "rep" {
			l := m.Get(f.FD).List()
			for i := 0; i < l.Len(); i++ {
				out = append(out, entry{f.Num, val(f.FD, l.Get(i))})
			}
		} else if m.Has(f.FD) {
			out = append(out, entry{f.Num, val(f.FD, m.Get(f.FD))})
		}
	}
	return out
}

func hasUnknown(m protoreflect.Message) bool {
	if len(m.GetUnknown()) > 0 {
		return true
	}
	u := false
	m.Range(func(fd protoreflect.FieldDescriptor, v protoreflect.Value) bool {
		if fd.Kind() == protoreflect.MessageKind && !fd.IsMap() {
			if fd.IsList() {
				l := v.List()
				for i := 0; i < l.Len(); i++ {
					if hasUnknown(l.Get(i).Message()) {
						u = true
					}
				}
			} else if hasUnknown(v.Message()) {
				u = true
			}
		}
		return !u
	})
	return u
}

func newMsg(sm *c14schema.Message) protoreflect.Message {
	mt, err := protoregistry.GlobalTypes.FindMessageByName(sm.MD.FullName())
	if err != nil {
		panic(err)
	}
	return mt.New()
}

// ---------- generator of well-formed messages ----------

type shape struct {
	zeroPresent, multi, nested, boundary bool
	budget                               int
}

func genInt(r *hlib.Rng, bits int, sh *shape) uint64 {
	max := ^uint64(0)
	if bits == 32 {
		max = 0xFFFFFFFF
	}
	switch r.Pick(3, 2, 2, 4) {
	case 0:
		return 0
	case 1:
		sh.boundary = true
		return max
	case 2:
		sh.boundary = true
		b := []uint64{1, 127, 128, 255, 256, 16383, 16384, 65535, 65536, 1 << 21, 1<<28 - 1, 1 << 28, 0xFFFFFFFF, 1 << 32, 1<<35 - 1, 1 << 56, 1 << 63}
		return b[r.Intn(len(b))] & max
	}
	return r.Next() >> uint(r.Intn(64)) & max
}

func genBytes(r *hlib.Rng, allowEmpty bool) []byte {
	switch r.Pick(3, 3, 4, 3, 1) {
	case 0:
		if allowEmpty {
			return []byte{}
		}
		return []byte{0}
	case 1:
		return r.Bytes(1 + r.Intn(3))
	case 2:
		return r.Bytes(32)
	case 3:
		return r.Bytes(20)
	}
	return r.Bytes(100 + r.Intn(80)) // length needs a 2-byte varint
}

func (c *ctx) genMsg(r *hlib.Rng, sm *c14schema.Message, depth int, sh *shape) protoreflect.Message {
	m := newMsg(sm)
	// at most one member per real oneof
	chosen := map[int]int{}
	for _, f := range sm.Fields {
		if f.Oneof != 0 {
			if _, ok := chosen[f.Oneof]; !ok {
				chosen[f.Oneof] = -1
			}
		}
	}
	var oneofs []int
	for o := range chosen {
		oneofs = append(oneofs, o)
	}
	sort.Ints(oneofs)
	for _, o := range oneofs {
		var members []int
		for _, f := range sm.Fields {
			if f.Oneof == o {
				members = append(members, f.Num)
			}
		}
		if r.Chance(80) {
			chosen[o] = members[r.Intn(len(members))]
		}
	}
	deep := depth <= 0 || sh.budget <= 0
	for _, f := range sm.Fields {
		if f.Kind == "other" {
			continue
		}
		if f.Oneof != 0 && chosen[f.Oneof] != f.Num {
			continue
		}
		sh.budget--
		one := func() (protoreflect.Value, bool) {
			switch f.Kind {
			case "u32":
				v := genInt(r, 32, sh)
				return protoreflect.ValueOfUint32(uint32(v)), v == 0
			case "u64":
				v := genInt(r, 64, sh)
				return protoreflect.ValueOfUint64(v), v == 0
			case "bytes":
				b := genBytes(r, true)
				return protoreflect.ValueOfBytes(b), len(b) == 0
			default:
				sub := c.genMsg(r, c.msgs[f.Ref], depth-1, sh)
				sh.nested = true
				return protoreflect.ValueOfMessage(sub), !sub.IsValid() || proto.Size(sub.Interface()) == 0
			}
		}
		switch f.Label {
		case "rep":
			n := r.Pick(30, 30, 25, 15)
			if deep && f.Kind == "msg" && n > 1 {
				n = 1
			}
			if n == 0 {
				continue
			}
			if n > 1 {
				sh.multi = true
			}
			l := m.Mutable(f.FD).List()
			for i := 0; i < n; i++ {
				v, _ := one()
				l.Append(v)
			}
		case "opt":
			p := 60
			if f.Kind == "msg" && deep {
				p = 15
			}
			if f.Oneof != 0 {
				p = 100
			}
			if !r.Chance(p) {
				continue
			}
			v, zero := one()
			if zero {
				sh.zeroPresent = true
			}
			m.Set(f.FD, v)
		case "imp":
			v, _ := one()
			m.Set(f.FD, v) // a zero value leaves the field unset (implicit presence)
		}
	}
	return m
}

func shapeFP(kind, name string, sh *shape, size int) string {
	return fmt.Sprintf("%s/%s/%v%v%v%v/%d", kind, name, sh.zeroPresent, sh.multi, sh.nested, sh.boundary, size/16)
}

// protoCheck runs the model-independent monitors on message m of type sm and emits the CProto case.
func (c *ctx) protoCheck(sm *c14schema.Message, m protoreflect.Message, origin string) []byte {
	b, err := proto.Marshal(m.Interface())
	if err != nil {
		c.fail("proto/"+sm.FullName+"/marshal-error", err.Error())
		return nil
	}
	b2, _ := proto.Marshal(m.Interface())
	b3, _ := proto.MarshalOptions{Deterministic: true}.Marshal(m.Interface())
	if !bytes.Equal(b, b2) || !bytes.Equal(b, b3) {
		c.fail("proto/"+sm.FullName+"/nondeterministic", fmt.Sprintf("%s: two marshals of the same message differ: %x / %x / %x", origin, b, b2, b3))
	}
	back := newMsg(sm)
	if err := proto.Unmarshal(b, back.Interface()); err != nil {
		c.fail("proto/"+sm.FullName+"/unmarshal-own-bytes", fmt.Sprintf("%s: %v on %x", origin, err, b))
		return b
	}
	if !proto.Equal(m.Interface(), back.Interface()) {
		c.fail("proto/"+sm.FullName+"/decode-differs", fmt.Sprintf("%s: Unmarshal(Marshal(m)) != m for bytes %x", origin, b))
	}
	rb, _ := proto.Marshal(back.Interface())
	if !bytes.Equal(rb, b) {
		c.fail("proto/"+sm.FullName+"/reencode-differs", fmt.Sprintf("%s: Marshal(Unmarshal(b)) = %x, b = %x", origin, rb, b))
	}
	tree := c.treeOf(back)
	c.emit(func(id int) string {
		return fmt.Sprintf("CProto %d %d %s %s", id, sm.ID, hlib.CoqBytes(b), coqTree(tree))
	})
	return b
}

func (c *ctx) covered() []string {
	var names []string
	for _, m := range c.msgs {
		if !m.UsesOther() {
			names = append(names, m.FullName)
		}
	}
	return names
}

func genProto(c *ctx) *gen {
	return &gen{kind: "proto", names: c.covered(), run: func(c *ctx, name string, r *hlib.Rng) {
		sm := c14schema.ByName(c.msgs, name)
		sh := &shape{budget: 60}
		m := c.genMsg(r, sm, 3, sh)
		b := c.protoCheck(sm, m, "generated "+name)
		c.rep.Count("proto:" + name)
		c.rep.Count(fmt.Sprintf("proto-size:%d", len(b)/64*64))
		if sh.zeroPresent || sh.multi || sh.nested || sh.boundary {
			c.rep.Nontrivial(shapeFP("proto", name, sh, len(b)))
		}
		c.rep.Sample(map[string]any{"kind": "proto", "message": name, "bytes": hlib.Hex(b)})
	}}
}

// ---------- mutated encodings (decoder model) ----------

type rec struct {
	num protowire.Number
	typ protowire.Type
	raw []byte // whole record
	val []byte // payload for BytesType
}

func splitRecords(b []byte) ([]rec, bool) {
	var out []rec
	for len(b) > 0 {
		num, typ, n := protowire.ConsumeTag(b)
		if n < 0 {
			return nil, false
		}
		m := protowire.ConsumeFieldValue(num, typ, b[n:])
		if m < 0 {
			return nil, false
		}
		r := rec{num: num, typ: typ, raw: b[:n+m]}
		if typ == protowire.BytesType {
			v, _ := protowire.ConsumeBytes(b[n:])
			r.val = v
		}
		out = append(out, r)
		b = b[n+m:]
	}
	return out, true
}

func joinRecords(rs []rec) []byte {
	var b []byte
	for _, r := range rs {
		b = append(b, r.raw...)
	}
	return b
}

// padVarint re-encodes v with extra continuation groups (non-minimal), total length n <= 10.
func padVarint(v uint64, n int) []byte {
	b := protowire.AppendVarint(nil, v)
	for len(b) < n {
		b[len(b)-1] |= 0x80
		b = append(b, 0)
	}
	return b
}

func (c *ctx) mutate(r *hlib.Rng, sm *c14schema.Message, b []byte, depth int) ([]byte, string) {
	rs, ok := splitRecords(b)
	if !ok {
		return b, "unsplittable"
	}
	known := map[int]c14schema.Field{}
	for _, f := range sm.Fields {
		known[f.Num] = f
	}
	// descend into a nested message with some probability
	if depth > 0 && r.Chance(35) {
		var idx []int
		for i, x := range rs {
			if f, ok := known[int(x.num)]; ok && f.Kind == "msg" && x.typ == protowire.BytesType {
				idx = append(idx, i)
			}
		}
		if len(idx) > 0 {
			i := idx[r.Intn(len(idx))]
			sub, what := c.mutate(r, c.msgs[known[int(rs[i].num)].Ref], rs[i].val, depth-1)
			raw := protowire.AppendTag(nil, rs[i].num, protowire.BytesType)
			raw = protowire.AppendBytes(raw, sub)
			rs[i] = rec{num: rs[i].num, typ: rs[i].typ, raw: raw, val: sub}
			return joinRecords(rs), "nested:" + what
		}
	}
	unknownNum := func() protowire.Number {
		for {
			n := protowire.Number(1 + r.Intn(60))
			if r.Chance(20) {
				n = protowire.Number(1000 + r.Intn(1<<20))
			}
			if _, ok := known[int(n)]; !ok {
				return n
			}
		}
	}
	insert := func(x []byte) []byte {
		pos := r.Intn(len(rs) + 1)
		var out []byte
		for i, y := range rs {
			if i == pos {
				out = append(out, x...)
			}
			out = append(out, y.raw...)
		}
		if pos == len(rs) {
			out = append(out, x...)
		}
		return out
	}
	switch k := r.Pick(12, 12, 10, 12, 8, 8, 6, 6, 6, 6, 8, 6); k {
	case 0: // permute the records
		for i := len(rs) - 1; i > 0; i-- {
			j := r.Intn(i + 1)
			rs[i], rs[j] = rs[j], rs[i]
		}
		return joinRecords(rs), "permute"
	case 1: // duplicate one record somewhere
		if len(rs) == 0 {
			return b, "identity"
		}
		return insert(rs[r.Intn(len(rs))].raw), "duplicate"
	case 2: // non-minimal tag varint
		if len(rs) == 0 {
			return b, "identity"
		}
		i := r.Intn(len(rs))
		_, _, n := protowire.ConsumeTag(rs[i].raw)
		tag := protowire.EncodeTag(rs[i].num, rs[i].typ)
		raw := append(padVarint(tag, n+1+r.Intn(3)), rs[i].raw[n:]...)
		rs[i].raw = raw
		return joinRecords(rs), "pad-tag"
	case 3: // non-minimal value / length varint
		var idx []int
		for i, x := range rs {
			if x.typ == protowire.VarintType || x.typ == protowire.BytesType {
				idx = append(idx, i)
			}
		}
		if len(idx) == 0 {
			return b, "identity"
		}
		i := idx[r.Intn(len(idx))]
		_, _, n := protowire.ConsumeTag(rs[i].raw)
		v, m := protowire.ConsumeVarint(rs[i].raw[n:])
		total := m + 1 + r.Intn(3)
		if total > 10 {
			total = 10
		}
		raw := append([]byte{}, rs[i].raw[:n]...)
		raw = append(raw, padVarint(v, total)...)
		raw = append(raw, rs[i].raw[n+m:]...)
		rs[i].raw = raw
		return joinRecords(rs), "pad-value"
	case 4: // unknown field number, each wire type the model knows
		num := unknownNum()
		var x []byte
		switch r.Intn(4) {
		case 0:
			x = protowire.AppendVarint(protowire.AppendTag(nil, num, protowire.VarintType), r.Next())
		case 1:
			x = protowire.AppendFixed64(protowire.AppendTag(nil, num, protowire.Fixed64Type), r.Next())
		case 2:
			x = protowire.AppendBytes(protowire.AppendTag(nil, num, protowire.BytesType), r.Bytes(r.Intn(5)))
		case 3:
			x = protowire.AppendFixed32(protowire.AppendTag(nil, num, protowire.Fixed32Type), uint32(r.Next()))
		}
		return insert(x), "unknown-field"
	case 5: // known number, wrong wire type
		if len(sm.Fields) == 0 {
			return b, "identity"
		}
		f := sm.Fields[r.Intn(len(sm.Fields))]
		num := protowire.Number(f.Num)
		var x []byte
		if f.Kind == "u32" || f.Kind == "u64" {
			x = protowire.AppendBytes(protowire.AppendTag(nil, num, protowire.BytesType), r.Bytes(r.Intn(4)))
		} else if r.Bool() {
			x = protowire.AppendVarint(protowire.AppendTag(nil, num, protowire.VarintType), r.Next()>>uint(r.Intn(64)))
		} else {
			x = protowire.AppendFixed32(protowire.AppendTag(nil, num, protowire.Fixed32Type), uint32(r.Next()))
		}
		return insert(x), "wrong-wiretype"
	case 6: // truncate
		if len(b) == 0 {
			return b, "identity"
		}
		return append([]byte{}, b[:r.Intn(len(b))]...), "truncate"
	case 7: // varint beyond the field width
		var cand []c14schema.Field
		for _, f := range sm.Fields {
			if (f.Kind == "u32" || f.Kind == "u64") && f.Label != "rep" {
				cand = append(cand, f)
			}
		}
		if len(cand) == 0 {
			return b, "identity"
		}
		f := cand[r.Intn(len(cand))]
		v := r.Next() | 1<<32
		if r.Chance(30) {
			v = 1 << 32 // truncates to 0
		}
		x := protowire.AppendVarint(protowire.AppendTag(nil, protowire.Number(f.Num), protowire.VarintType), v)
		return insert(x), "wide-varint"
	case 8: // invalid field number 0 or above 2^29-1
		var tag uint64
		if r.Bool() {
			tag = uint64(r.Intn(3)) // number 0, wire type 0..2
		} else {
			tag = (uint64(1<<29)+uint64(r.Intn(1000)))<<3 | uint64(r.Intn(3))
		}
		x := protowire.AppendVarint(protowire.AppendVarint(nil, tag), 1)
		return insert(x), "bad-number"
	case 9: // reserved / group-end wire types
		num := protowire.Number(1 + r.Intn(30))
		wt := []uint64{4, 6, 7}[r.Intn(3)]
		x := protowire.AppendVarint(protowire.AppendVarint(nil, uint64(num)<<3|wt), 0)
		return insert(x), "bad-wiretype"
	case 10: // an overlong varint (11 bytes, or a 10th byte above 1)
		num := unknownNum()
		x := protowire.AppendTag(nil, num, protowire.VarintType)
		if r.Bool() {
			x = append(x, 0xff, 0xff, 0xff, 0xff, 0xff, 0xff, 0xff, 0xff, 0xff, 0x02)
		} else {
			x = append(x, 0x80, 0x80, 0x80, 0x80, 0x80, 0x80, 0x80, 0x80, 0x80, 0x80, 0x01)
		}
		return insert(x), "overlong-varint"
	default: // length prefix longer than the rest
		num := unknownNum()
		x := protowire.AppendVarint(protowire.AppendTag(nil, num, protowire.BytesType), uint64(len(b)+1+r.Intn(1000)))
		return append(append([]byte{}, b...), x...), "length-overrun"
	}
}

func genProtoAdv(c *ctx) *gen {
	return &gen{kind: "protoadv", names: c.covered(), run: func(c *ctx, name string, r *hlib.Rng) {
		sm := c14schema.ByName(c.msgs, name)
		sh := &shape{budget: 30}
		m := c.genMsg(r, sm, 2, sh)
		b, _ := proto.Marshal(m.Interface())
		what := ""
		for i, n := 0, 1+r.Intn(2); i < n; i++ {
			var w string
			b, w = c.mutate(r, sm, b, 2)
			what += w + "+"
		}
		back := newMsg(sm)
		err := proto.Unmarshal(b, back.Interface())
		res := "None"
		verdict := "reject"
		if err == nil {
			res = "(Some " + coqTree(c.treeOf(back)) + ")"
			verdict = "accept"
			// monitor: what the decoder accepted re-encodes to something it decodes to the same message
			rb, _ := proto.Marshal(back.Interface())
			again := newMsg(sm)
			if e2 := proto.Unmarshal(rb, again.Interface()); e2 != nil || !proto.Equal(back.Interface(), again.Interface()) {
				c.fail("proto/"+name+"/normalisation-not-idempotent", fmt.Sprintf("decode(encode(decode b)) != decode b for b=%x", b))
			}
			if !hasUnknown(back) {
				// without unknown fields the re-encoding is the canonical form: encoding it again is stable
				rb2, _ := proto.Marshal(again.Interface())
				if !bytes.Equal(rb, rb2) {
					c.fail("proto/"+name+"/canonical-unstable", fmt.Sprintf("re-encoding is not a fixed point for b=%x", b))
				}
			}
		}
		c.rep.Count("protoadv:" + strings.TrimSuffix(what, "+") + ":" + verdict)
		c.rep.Nontrivial("protoadv/" + name + "/" + what + verdict)
		c.emit(func(id int) string {
			return fmt.Sprintf("CProtoDec %d %d %s %s", id, sm.ID, hlib.CoqBytes(b), res)
		})
	}}
}

// msgByGo finds the schema entry of a generated Go message.
func (c *ctx) msgByGo(m proto.Message) *c14schema.Message {
	return c.msgOf(m.ProtoReflect().Descriptor())
}

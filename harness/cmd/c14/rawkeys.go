package main

import (
	"bytes"
	"fmt"
	"math/big"

	"github.com/dominant-strategies/go-quai/common"
	"github.com/dominant-strategies/go-quai/core/rawdb"
	"github.com/dominant-strategies/go-quai/log"

	"verifharness/hlib"
)

// rawdb keys and records with fixed-width big-endian fields: UtxoKey / ReverseUtxoKey,
// CoinbaseLockupKey / ReverseCoinbaseLockupKey, the 38/58-byte coinbase lockup record.
func genRawKeys(c *ctx) *gen {
	return &gen{kind: "rawkeys", names: []string{"utxokey", "utxokey-dec", "lockup", "lockupkey"}, run: func(c *ctx, name string, r *hlib.Rng) {
		switch name {
		case "utxokey":
			h, i := genHash(r), genIndex16(r)
			key := rawdb.UtxoKey(h, i)
			rh, ri, err := rawdb.ReverseUtxoKey(key)
			if err != nil || rh != h || ri != i {
				c.fail("rawkeys/utxokey/roundtrip-differs", fmt.Sprintf("(%x,%d) -> %x -> (%x,%d,%v)", h, i, key, rh, ri, err))
			}
			if key2 := rawdb.UtxoKey(h, i+1); bytes.Equal(key, key2) {
				c.fail("rawkeys/utxokey/not-injective", "index")
			}
			c.rep.Nontrivial(fmt.Sprintf("rawkeys/utxokey/%d", i%7))
			c.emit(func(id int) string {
				return fmt.Sprintf("CUtxoKey %d %s %d %s %s", id, hlib.CoqBytes(h[:]), i, hlib.CoqBytes(key), dres(err == nil, fmt.Sprintf("(%s, %d)", hlib.CoqBytes(rh[:]), ri)))
			})
		case "utxokey-dec":
			n := 36
			if r.Chance(40) {
				n = r.Intn(45)
			}
			key := r.Bytes(n)
			if n >= 2 && r.Chance(60) {
				copy(key, rawdb.UtxoPrefix)
			}
			rh, ri, err := rawdb.ReverseUtxoKey(key)
			c.rep.Count(fmt.Sprintf("utxokey-dec:%v", err == nil))
			c.rep.Nontrivial(fmt.Sprintf("rawkeys/utxokey-dec/%d", n))
			c.emit(func(id int) string {
				return fmt.Sprintf("CUtxoKeyDec %d %s %s", id, hlib.CoqBytes(key), dres(err == nil, fmt.Sprintf("(%s, %d)", hlib.CoqBytes(rh[:]), ri)))
			})
		case "lockup":
			loc := genLoc(r)
			var amount *big.Int
			switch r.Pick(2, 3, 3, 2, 1, 1) {
			case 0:
				amount = big.NewInt(0)
			case 1:
				amount = new(big.Int).SetUint64(r.Next())
			case 2:
				amount = new(big.Int).SetBytes(r.Bytes(1 + r.Intn(32)))
			case 3:
				amount = new(big.Int).Sub(new(big.Int).Lsh(big.NewInt(1), 256), big.NewInt(1)) // largest that fits
			case 4:
				amount = new(big.Int).Lsh(big.NewInt(1), 256) // one too many
			default:
				amount = new(big.Int).SetBytes(r.Bytes(33 + r.Intn(4)))
			}
			height, elements := uint32(r.Next()), genIndex16(r)
			if r.Chance(20) {
				height = 0xFFFFFFFF
			}
			var delegate common.Address
			var dmodel string
			switch r.Pick(3, 5, 2) {
			case 0:
				delegate, dmodel = common.Zero, "None"
			case 1:
				delegate = genAddress(r, loc)
				dmodel = "(Some " + hlib.CoqBytes(delegate.Bytes()) + ")"
			default:
				delegate = common.BytesToAddress(make([]byte, 20), loc) // all-zero internal/external address
				dmodel = "(Some " + hlib.CoqBytes(delegate.Bytes()) + ")"
			}
			rec, err := rawdb.WriteCoinbaseLockupToSlice(amount, height, elements, delegate)
			lmodel := fmt.Sprintf("(mkLockup %s %d %d %s)", amount.String(), height, elements, dmodel)
			fits := amount.BitLen() <= 256
			if (err == nil) != fits {
				c.fail("rawkeys/lockup/amount-bound", fmt.Sprintf("amount of %d bits: err=%v", amount.BitLen(), err))
			}
			c.rep.Count(fmt.Sprintf("lockup:%v", err == nil))
			if err != nil {
				c.emit(func(id int) string { return fmt.Sprintf("CLockup %d %s DErr (mkLockup 0 0 0 None)", id, lmodel) })
				return
			}
			// through the database
			db := rawdb.NewMemoryDatabase(log.Global)
			owner, ben := genAddress(r, loc), genAddress(r, loc)
			lb, epoch := byte(r.Intn(4)), uint32(r.Next())
			key, werr := rawdb.WriteCoinbaseLockup(db, owner, ben, lb, epoch, amount, height, elements, delegate)
			if werr != nil {
				c.fail("rawkeys/lockup/write-error", werr.Error())
				return
			}
			stored, _ := db.Get(key)
			if !bytes.Equal(stored, rec) {
				c.fail("rawkeys/lockup/two-writers-differ", fmt.Sprintf("WriteCoinbaseLockup stored %x, WriteCoinbaseLockupToSlice gives %x", stored, rec))
			}
			ga, gh, ge, gd := rawdb.ReadCoinbaseLockup(db, db.NewBatch(), owner, ben, lb, epoch)
			wantDelegate := delegate.Bytes()
			zero := true
			for _, x := range wantDelegate {
				if x != 0 {
					zero = false
				}
			}
			if ga.Cmp(amount) != 0 || gh != height || ge != elements || (!zero && !bytes.Equal(gd.Bytes(), wantDelegate)) || (zero && !gd.Equal(common.Zero)) {
				c.fail("rawkeys/lockup/roundtrip-differs", fmt.Sprintf("wrote (%v,%d,%d,%x) read (%v,%d,%d,%x)", amount, height, elements, wantDelegate, ga, gh, ge, gd.Bytes()))
			}
			back := "None"
			if len(stored) == 58 {
				back = "(Some " + hlib.CoqBytes(gd.Bytes()) + ")"
			}
			c.rep.Nontrivial(fmt.Sprintf("rawkeys/lockup/%d/%d", len(rec), amount.BitLen()/32))
			c.emit(func(id int) string {
				return fmt.Sprintf("CLockup %d %s (DOk %s) (mkLockup %s %d %d %s)", id, lmodel, hlib.CoqBytes(rec), ga.String(), gh, ge, back)
			})
		case "lockupkey":
			loc := genLoc(r)
			owner, ben := genAddress(r, loc), genAddress(r, loc)
			lb, epoch := byte(r.Intn(256)), uint32(r.Next())
			key := rawdb.CoinbaseLockupKey(owner, ben, lb, epoch)
			o2, b2, l2, e2, err := rawdb.ReverseCoinbaseLockupKey(key, loc)
			if err != nil || !bytes.Equal(o2.Bytes(), owner.Bytes()) || !bytes.Equal(b2.Bytes(), ben.Bytes()) || l2 != lb || e2 != epoch {
				c.fail("rawkeys/lockupkey/roundtrip-differs", fmt.Sprintf("%x -> %v", key, err))
			}
			if len(key) != rawdb.CoinbaseLockupKeyLength {
				c.fail("rawkeys/lockupkey/length", fmt.Sprintf("%d", len(key)))
			}
			c.rep.Nontrivial(fmt.Sprintf("rawkeys/lockupkey/%d", lb%8))
		}
	}}
}

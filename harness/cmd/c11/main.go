// C11 — a crash at any point leaves a database the node can restart and continue from.
//
// (Second strengthening round: scenarios with LARGE blocks - thousands of UTXO creations, several
// times ethdb.IdealBatchSize queued in the block batch - and a structural write-log monitor that is
// evaluated on every logged append / reorg, see scenario.go:checkLog.)
//
// The harness drives the REAL block path of go-quai (worker, StateProcessor, BodyDb.Append,
// HeaderChain.SetCurrentHeader, NewHeaderChain/loadLastState) through the zone mini node
// over a logging database, records the top-level write sequence of every append and of a
// reorg, and then, for EVERY prefix of that sequence (a batch commit is one all-or-nothing
// operation), rebuilds the surviving database image, restarts a node on it and evaluates the
// property's monitors. The same observations are written as Coq cases and compared with the
// model (coq/Model/C11.v) inside Coq.
package main

import (
	"fmt"
	"io"
	"os"
	"path/filepath"
	"sort"
	"strings"

	"github.com/dominant-strategies/go-quai/common"
	"github.com/dominant-strategies/go-quai/core"
	"github.com/dominant-strategies/go-quai/core/rawdb"
	"github.com/dominant-strategies/go-quai/core/types"
	"github.com/dominant-strategies/go-quai/ethdb"
	"github.com/dominant-strategies/go-quai/log"
	"github.com/dominant-strategies/go-quai/params"
	"verifharness/hlib"
)

type caseJSON struct {
	ID     int       `json:"id"`
	Params scnParams `json:"params"`
	Action int       `json:"action"`
	K      int       `json:"k,omitempty"`
	Phase  string    `json:"phase,omitempty"`
}

// observation at one crash point
type contObs struct {
	Target int
	Head   int
	Flat   [][2]int
}
type kObs struct {
	K       int
	Head    int
	Flat    [][2]int
	StateOK bool
	Conts   []contObs
}

var rep *hlib.Report

func main() {
	logger = hlib.QuietLogs()
	if os.Getenv("VLOG") != "" {
		log.Global.SetOutput(os.Stderr)
	}
	// test-network schedule: transactions allowed from block 0, Qi coinbases allowed at once
	params.TimeToStartTx = 0
	params.ControllerKickInBlock = 0
	f := hlib.ParseFlags()
	scratchDir = filepath.Join(f.Out, "c11_scratch")
	defer os.RemoveAll(scratchDir)
	rep = hlib.NewReport("C11", "non-trivial = a crash point (prefix of the logged top-level write sequence of a real append/reorg) whose block(s) change the flat UTXO key space; fingerprint = action kind, phase, recovered head position, consistency verdict, continuation verdicts")
	cw := hlib.NewCaseWriter(f.Out, "From Coq Require Import List NArith Bool.\nFrom GQ Require Import Model.C11 Generated.C11Gen.\nImport ListNotations.\nLocal Open Scope N_scope.\n", "C11.case", 4)
	defer func() {
		cw.Close()
		rep.Exhaustive = true
		rep.Note("crash points are enumerated exhaustively (every prefix of every logged write sequence: restart + consistency monitors) per scenario; scenarios (chains) are sampled; for actions that involve a large block the continuations (re-append / sibling / complete / return) are evaluated at the first and last crash point and after every write that changes the recovered head or the flat key space; the small appends of the large corpus scenario are covered by the structural write-log monitor only")
		rep.Write(f.Out)
	}()

	if f.Replay != "" {
		var ec evmCase
		hlib.ReadReplayCase(f.Replay, &ec)
		if ec.IsEvm {
			runEvm(ec.Evm, false, "")
			return
		}
		var c caseJSON
		hlib.ReadReplayCase(f.Replay, &c)
		runScenario(cw, c.ID/100, c.Params, c.Action)
		return
	}
	r := hlib.NewRng(f.Seed)
	idx := 0
	if v := os.Getenv("C11_ONLY"); v != "" { // development aid: a single corpus scenario
		if v == "evm" {
			for i := 0; i < nEvmCorpus; i++ {
				runEvm(evmCorpus(i), false, "")
			}
			return
		}
		var i int
		fmt.Sscan(v, &i)
		runScenario(cw, i, corpusParams(i), -1)
		return
	}
	for i := 0; i < nCorpus; i++ {
		runScenario(cw, idx, corpusParams(i), -1)
		idx++
	}
	// the same targeted scenario with every database (reference run and every crash image) on the
	// real engines: leveldb in quick, leveldb + pebble in thorough (monitors only; the write class
	// sequence must equal the memorydb run's)
	backends := []string{"leveldb"}
	if f.Tier == "thorough" {
		backends = append(backends, "pebble")
	}
	for _, be := range backends {
		runOnEngine(be, corpusParams(0), f.Tier == "thorough")
		// the large-block scenario on the real engine (whose Batch.ValueSize feeds any size-triggered
		// write path): structural write-log monitor on every append / the reorg; crash points of the
		// large append and of the reorg in thorough
		runOnEngine(be, corpusParams(3), f.Tier == "thorough")
	}
	// round 3: blocks that write contract storage and code (evm.go); every crash point of the creating
	// and of the calling append on memorydb, first and last crash point on the real engines
	for i := 0; i < nEvmCorpus; i++ {
		runEvm(evmCorpus(i), false, "")
	}
	for _, be := range backends {
		imgBackend = be
		runEvm(evmCorpus(0), f.Tier != "thorough", "backend:")
		imgBackend = "mem"
	}
	n := f.N
	for i := 0; i < n; i++ {
		runScenario(cw, idx, randomParams(r), -1)
		idx++
	}
}

// runOnEngine repeats a scenario with all databases on leveldb / pebble and evaluates the monitors
// at every crash point (no Coq cases: the model comparison is done on the memorydb run).
func runOnEngine(be string, p scnParams, all bool) {
	ref, err := buildScenario(p)
	if err != nil {
		return // reported by the memorydb run
	}
	imgBackend = be
	defer func() { imgBackend = "mem" }()
	s, err := buildScenario(p)
	if err != nil {
		rep.Fail("backend:"+be+":build-failed", err.Error(), caseJSON{ID: 0, Params: p})
		return
	}
	rep.Count("scenario-on-" + be)
	reportLogFails(s, 0, be+":")
	for ai, a := range s.Actions {
		if ai < len(ref.Actions) && strings.Join(classSeq(a.Ops), ",") != strings.Join(classSeq(ref.Actions[ai].Ops), ",") {
			rep.Fail("backend:write-sequence-differs", "top-level write class sequence on "+be+" differs from memorydb", caseJSON{ID: ai, Params: p, Action: ai})
		}
		// quick tier: the append of the first spending block and the reorg (small scenario; the large
		// one is checked structurally only); thorough: every action
		if all || (p.Big == 0 && (ai == 2 || a.Kind == "reorg")) {
			enumerate(s, a, ai, ai)
		}
	}
}

func runScenario(cw *hlib.CaseWriter, idx int, p scnParams, only int) {
	s, err := buildScenario(p)
	if err != nil {
		// the uncrashed history must build; if it does not, the code under test rejected a valid
		// block or the harness is wrong: report (never silently skip)
		rep.Fail("scenario:build-failed", err.Error(), caseJSON{ID: idx * 100, Params: p})
		rep.Count("scenario:build-failed")
		return
	}
	rep.Count("scenario")
	for _, n := range s.Notes {
		rep.Fail("scenario:"+n, n, caseJSON{ID: idx * 100, Params: p})
	}
	reportLogFails(s, idx, "")
	for ai, a := range s.Actions {
		if only >= 0 && ai != only {
			continue
		}
		// large-block scenario: the crash points of the large append and of the reorg across the
		// large blocks are enumerated; its small appends are the same shapes as in the other scenarios
		if p.OnlyBig && !s.isBigAction(a) {
			rep.Count("action-not-enumerated(small block of the large scenario)")
			continue
		}
		cid := idx*100 + ai
		obs := enumerate(s, a, cid, ai)
		cw.Add(coqCase(s, a, cid, obs), caseJSON{ID: cid, Params: p, Action: ai})
		rep.TracesValidated++
		if len(rep.Samples) < 3 && a.Kind == "reorg" {
			rep.Sample(map[string]any{"id": cid, "params": p, "action": a.Kind, "write_sequence": classSeq(a.Ops), "crash_points": len(a.Ops) + 1})
		}
	}
}

// reportLogFails reports the failures of the structural write-log monitor (scenario.checkLog).
func reportLogFails(s *scenario, idx int, prefix string) {
	rep.Evaluations += s.NLogs
	for i := 0; i < s.NLogs; i++ {
		rep.Count("write-log-checked")
	}
	for _, lf := range s.LogFails {
		sig := lf.Sig
		if prefix != "" {
			sig = "backend:" + sig
		}
		rep.Fail(sig, prefix+lf.What, caseJSON{ID: idx*100 + lf.Action, Params: s.P, Action: lf.Action})
	}
}

// ---------- phases ----------

// phaseOf names the crash point "after the first k top-level writes" of an action by the
// structure of the logged sequence (never by content).
func phaseOf(a *action, k int) string {
	if k == len(a.Ops) {
		return "complete"
	}
	if k == 0 {
		return "nothing-written"
	}
	// position relative to block batches (those with the processed-state marker), rollback
	// batches (batches with a head-hash put and no marker) and direct head puts
	seg := "store"
	nRoll, nFwd := 0, 0
	for i := 0; i < k; i++ {
		t := a.Ops[i]
		switch {
		case t.Batch && effectsBatchIndex([]topOp{t}) == 0:
			seg = "after-block-batch-before-head"
		case t.Batch && hasKeyClass(t.Ops, kHead):
			nRoll++
			seg = fmt.Sprintf("after-rollback-batch")
		case t.Batch:
			if seg != "after-block-batch-before-head" {
				seg = "after-trie-commit"
			}
		case classOf(t.Ops[0].K) == kHead:
			nFwd++
			seg = "after-head"
		case classOf(t.Ops[0].K) == kCanon:
			seg = "after-canonical-before-block-batch"
		}
	}
	_ = nRoll
	_ = nFwd
	if a.Kind == "reorg" {
		return "reorg:" + seg
	}
	return seg
}

func classSeq(ops []topOp) []string {
	var out []string
	for _, t := range ops {
		out = append(out, opClass(t))
	}
	return out
}

// opClass: the observable class of one top-level write (what the model's write sequences are
// compared on): direct put/delete with key class, or batch with the set of key classes in it.
func opClass(t topOp) string {
	if !t.Batch {
		c := className[classOf(t.Ops[0].K)]
		if t.Ops[0].Del {
			return "del:" + c
		}
		return "put:" + c
	}
	switch {
	case effectsBatchIndex([]topOp{t}) == 0:
		s := "batch:block"
		if hasKeyClass(t.Ops, kHead) {
			s += "+head"
		}
		if hasKeyClass(t.Ops, kCanon) {
			s += "+canon"
		}
		return s
	case hasKeyClass(t.Ops, kHead) || hasKeyClass(t.Ops, kCanon):
		s := "batch:rollback"
		if hasKeyClass(t.Ops, kHead) {
			s += "+head"
		}
		if hasKeyClass(t.Ops, kCanon) {
			s += "+canon"
		}
		return s
	}
	for _, x := range t.Ops {
		if c := classOf(x.K); c != kTrie && c != kCode {
			return "batch:other"
		}
	}
	return "batch:trie"
}

// ---------- crash enumeration ----------

func (s *scenario) idOfHash(h common.Hash) int {
	ids := make([]int, 0, len(s.Blocks))
	for id := range s.Blocks {
		ids = append(ids, id)
	}
	sort.Ints(ids)
	for _, id := range ids {
		if s.Blocks[id].Wo.Hash() == h {
			return id
		}
	}
	return -1
}

func (s *scenario) flatIDs(f map[string]string) [][2]int {
	var out [][2]int
	for _, k := range sortedKeys(f) {
		out = append(out, [2]int{s.kid(k), s.vid(f[k])})
	}
	sort.Slice(out, func(i, j int) bool { return out[i][0] < out[j][0] })
	return out
}

func touchesFlat(s *scenario, a *action) bool {
	ids := []int{a.Target}
	ids = append(ids, a.Back...)
	ids = append(ids, a.Fwd...)
	for _, id := range ids {
		if len(s.Blocks[id].Created)+len(s.Blocks[id].Spent) > 0 {
			return true
		}
	}
	return false
}

func enumerate(s *scenario, a *action, cid, ai int) []kObs {
	var out []kObs
	nontriv := touchesFlat(s, a)
	// large blocks: every crash point is restarted and checked for consistency; the (expensive:
	// re-execution of a large block) continuations are evaluated at the first and last crash point
	// and at every crash point whose surviving image differs from the previous one in the reported
	// head or the flat key space (i.e. right after every write that changes either, whatever it is)
	big := s.isBigAction(a)
	if big {
		rep.Count("action-with-large-block")
	}
	prevHead, prevFlat := -2, map[string]string(nil)
	for k := 0; k <= len(a.Ops); k++ {
		phase := phaseOf(a, k)
		cj := caseJSON{ID: cid, Params: s.P, Action: ai, K: k, Phase: phase}
		// signature = crash phase + monitor; in the phase "block batch committed, head hash not yet
		// written" all consistency/continuation monitors share ONE signature (they are facets of the
		// same state: effects of the child under the parent's head), structural monitors keep theirs
		fail := func(mon, what string) {
			sig := "crash:" + phase + ":" + mon
			if strings.HasSuffix(phase, "after-block-batch-before-head") && mon != "open" && mon != "head" && mon != "state-missing" && mon != "canonical-index" {
				sig = "crash:" + phase
			}
			rep.Fail(sig, fmt.Sprintf("%s [%s] (action %s, crash after %d of %d top-level writes)", what, mon, a.Kind, k, len(a.Ops)), cj)
		}
		rep.Evaluations++
		rep.Count("phase:" + phase)
		img := a.Pre.apply(a.Ops, k)
		o := kObs{K: k, Head: -1}
		verdicts := []string{}

		// (1) restart on the surviving image
		db := img.open()
		z, err := openZone(db, 1)
		if err != nil {
			db.release()
			fail("open", "node does not open on the surviving image: "+errClass(err))
			out = append(out, o)
			continue
		}
		head := z.Hc.CurrentHeader()
		o.Head = s.idOfHash(head.Hash())
		allowed := false
		for _, id := range a.Allowed {
			if id == o.Head {
				allowed = true
			}
		}
		if !allowed {
			fail("head", fmt.Sprintf("restarted node reports head %d, not a block of the interrupted operation", o.Head))
		}
		// (2) consistency of the flat key space with the reported head
		fl := img.flat()
		o.Flat = s.flatIDs(fl)
		cons := true
		if ref, ok := s.RefFlat[o.Head]; ok && !flatEq(fl, ref) {
			cons = false
			fail("flat-mismatch", "flat UTXO/lockup key space differs from the content implied by the chain up to the reported head")
		}
		if o.Head > 0 {
			root, cnt, err := utxoCommitment(db)
			if err != nil || root != head.UTXORoot() || cnt != rawdb.ReadUTXOSetSize(db, head.Hash()) {
				cons = false
				fail("commitment-mismatch", "multiset hash / size recomputed from the 'ut' key space differ from the reported head's UTXORoot / stored set size")
			}
		}
		// (2b) the number->hash index: the reported head and every ancestor of it must be found by
		// number (dangling entries ABOVE the head are harmless and not constrained); block processing
		// looks blocks up by number (lockup redemption, trimming), a hole makes later blocks unprocessable
		if o.Head >= 0 {
			if n, bad := s.canonHole(db, o.Head); bad {
				cons = false
				fail("canonical-index", fmt.Sprintf("the reported head's chain is not on the number->hash index: the canonical hash at height %d is missing or names another block", n))
			}
		}
		// (3) state of the reported head fully present
		o.StateOK = true
		if o.Head > 0 {
			// deep walk: account trie, every referenced storage trie, every referenced contract code
			if _, _, _, err := statePresentDeep(db, head.EVMRoot()); err != nil {
				o.StateOK = false
			}
			if err := triePresent(db, head.EtxSetRoot()); err != nil {
				o.StateOK = false
			}
			if _, err := z.StateAt(head); err != nil {
				o.StateOK = false
			}
			if rawdb.ReadMultiSet(db, head.Hash()) == nil {
				o.StateOK = false
			}
			if !o.StateOK {
				fail("state-missing", "state tries / multiset of the reported head are not (fully) present")
			}
		}
		z.Close()
		db.release()
		verdicts = append(verdicts, fmt.Sprintf("cons=%v", cons), fmt.Sprintf("state=%v", o.StateOK))
		changed := o.Head != prevHead || prevFlat == nil || !flatEq(prevFlat, fl)
		prevHead, prevFlat = o.Head, fl
		conts := a.Conts
		if big && !(k == 0 || k == len(a.Ops) || changed) {
			conts = nil
			rep.Count("continuations-skipped(large block, image unchanged in head and flat space)")
		}

		// (4) continue: append the interrupted block again / another valid successor
		for ci, tgt := range conts {
			co := continueTo(s, a, img, tgt)
			o.Conts = append(o.Conts, co.contObs)
			name := []string{"redo", "alternative"}[ci]
			switch {
			case co.err != "":
				fail(name+"-rejected", "after restart the node cannot "+contWhat(a, ci)+": "+co.err)
				verdicts = append(verdicts, name+"=rejected")
			case co.Head != tgt:
				fail(name+"-rejected", "after restart the node cannot "+contWhat(a, ci)+": head did not reach the target")
				verdicts = append(verdicts, name+"=stuck")
			case !co.canonOK:
				fail(name+"-canonical-index", "after restart and "+contWhat(a, ci)+" the new head's chain is not on the number->hash index (a canonical hash at or below the head is missing or names another block)")
				verdicts = append(verdicts, name+"=canon-hole")
			case !co.flatOK || !co.commitOK:
				fail(name+"-inconsistent", "after restart and "+contWhat(a, ci)+" the flat key space does not match the new head (effects applied twice or orphaned)")
				verdicts = append(verdicts, name+"=inconsistent")
			default:
				verdicts = append(verdicts, name+"=ok")
			}
		}
		if nontriv {
			hp := "other"
			if len(a.Allowed) > 0 && o.Head == a.Allowed[0] {
				hp = "old"
			} else if o.Head == a.Target {
				hp = "new"
			}
			rep.Nontrivial(a.Kind + "|" + phase + "|" + hp + "|" + strings.Join(verdicts, ","))
		}
		out = append(out, o)
	}
	return out
}

func contWhat(a *action, ci int) string {
	if a.Kind == "append" {
		return []string{"append the interrupted block again", "append another valid child of the same parent"}[ci]
	}
	return []string{"complete the interrupted reorg", "return to the previous canonical tip"}[ci]
}

type contRes struct {
	contObs
	err      string
	flatOK   bool
	commitOK bool
	canonOK  bool
}

// canonHole walks the chain of block id back to genesis and reports the first height whose canonical
// hash in the database is not that ancestor (model-independent: parent links of the scenario's blocks).
func (s *scenario) canonHole(db ethdb.Database, id int) (uint64, bool) {
	for guard := 0; id >= 0 && guard < 64; guard++ {
		b, ok := s.Blocks[id]
		if !ok {
			return 0, false
		}
		n := uint64(0)
		if id != 0 {
			n = b.Num
		}
		if rawdb.ReadCanonicalHash(db, n) != b.Wo.Hash() {
			return n, true
		}
		id = b.Parent
	}
	return 0, false
}

// continueTo restarts a node on a fresh copy of the image and moves it to the target block the
// way Slice.Append would (store the block, SetCurrentHeader).
func continueTo(s *scenario, a *action, img image, tgt int) (res contRes) {
	res.Target = tgt
	res.Head = -1
	db := img.open()
	defer db.release()
	z, err := openZone(db, 1)
	if err != nil {
		res.err = "open: " + errClass(err)
		return
	}
	defer z.Close()
	func() {
		defer func() {
			if e := recover(); e != nil {
				res.err = "panic"
			}
		}()
		// under hc.headermu like Slice.Append (the worker's ticker takes the same lock)
		z.Locked(func() {
			b := s.Blocks[tgt]
			if a.Kind == "append" {
				z.Store(b.Wo)
			}
			if os.Getenv("C11_DEBUG") != "" {
				log.Global.SetOutput(os.Stderr)
				defer log.Global.SetOutput(io.Discard)
			}
			if err := z.Hc.SetCurrentHeader(b.Wo); err != nil {
				res.err = errClass(err)
				if os.Getenv("C11_DEBUG") != "" {
					fmt.Fprintln(os.Stderr, "C11_DEBUG continue error:", err)
				}
			}
		})
	}()
	head := z.Hc.CurrentHeader()
	res.Head = s.idOfHash(head.Hash())
	fl := snapshot(db).flat()
	res.Flat = s.flatIDs(fl)
	if ref, ok := s.RefFlat[res.Head]; ok {
		res.flatOK = flatEq(fl, ref)
	}
	res.commitOK = true
	if res.Head > 0 {
		root, cnt, err := utxoCommitment(db)
		res.commitOK = err == nil && root == head.UTXORoot() && cnt == rawdb.ReadUTXOSetSize(db, head.Hash())
	}
	res.canonOK = true
	if res.Head >= 0 {
		_, bad := s.canonHole(db, res.Head)
		res.canonOK = !bad
	}
	// the persisted head must agree with the in-memory one
	if rawdb.ReadHeadBlockHash(db) != head.Hash() {
		res.flatOK = false
	}
	return
}

// errClass projects an error to a stable class (never the full string).
func errClass(err error) string {
	m := err.Error()
	switch {
	case strings.Contains(m, "non-existent") || strings.Contains(m, "does not exist") || strings.Contains(m, "not found"):
		return "input-missing"
	case strings.Contains(m, "panic"):
		return "panic"
	}
	return "error"
}

// ---------- Coq terms ----------

func coqKVs(l []kv) string {
	items := make([]string, len(l))
	for i, x := range l {
		items[i] = fmt.Sprintf("(%d,%d)", x.U, x.V)
	}
	return hlib.CoqList(items)
}

func coqFlat(f [][2]int) string {
	items := make([]string, len(f))
	for i, x := range f {
		items[i] = fmt.Sprintf("(%d,%d)", x[0], x[1])
	}
	return hlib.CoqList(items)
}

func coqIDs(ids []int) string {
	items := make([]string, len(ids))
	for i, x := range ids {
		items[i] = fmt.Sprintf("%d", x)
	}
	return hlib.CoqList(items)
}

// projection of a scenario with large blocks onto a subset of the flat keys for the Coq case: every
// key some block spends, and of every block's created keys at most 12 evenly spaced ones (first and
// last included). Entries of the flat key space are independent of each other in the model (content,
// check and exec are pointwise in the key), so the model run on the projected blocks must equal the
// projection of the observations; the harness monitors always use the full key space.
func (s *scenario) projection() map[int]bool {
	if len(s.keyID) <= 80 {
		return nil
	}
	keep := map[int]bool{}
	for _, b := range s.Blocks {
		for _, x := range b.Spent {
			keep[x.U] = true
		}
		n := len(b.Created)
		if n <= 12 {
			for _, x := range b.Created {
				keep[x.U] = true
			}
			continue
		}
		for j := 0; j < 12; j++ {
			keep[b.Created[j*(n-1)/11].U] = true
		}
	}
	return keep
}

func projKVs(l []kv, keep map[int]bool) []kv {
	if keep == nil {
		return l
	}
	var out []kv
	for _, x := range l {
		if keep[x.U] {
			out = append(out, x)
		}
	}
	return out
}

func projFlat(f [][2]int, keep map[int]bool) [][2]int {
	if keep == nil {
		return f
	}
	var out [][2]int
	for _, x := range f {
		if keep[x[0]] {
			out = append(out, x)
		}
	}
	return out
}

func coqCase(s *scenario, a *action, cid int, obs []kObs) string {
	keep := s.projection()
	ids := make([]int, 0, len(s.Blocks))
	for id := range s.Blocks {
		if id != 0 {
			ids = append(ids, id)
		}
	}
	sort.Ints(ids)
	var bl []string
	for _, id := range ids {
		b := s.Blocks[id]
		bl = append(bl, fmt.Sprintf("mkB %d %d %d %s %s", b.ID, b.Parent, b.Num, coqKVs(projKVs(b.Created, keep)), coqKVs(projKVs(b.Spent, keep))))
	}
	var seq []string
	for _, t := range a.Ops {
		seq = append(seq, coqOpClass(opClass(t)))
	}
	// table of distinct flat contents
	var table []string
	tidx := map[string]int{}
	flatIdx := func(f [][2]int) int {
		t := coqFlat(projFlat(f, keep))
		if i, ok := tidx[t]; ok {
			return i
		}
		tidx[t] = len(table)
		table = append(table, t)
		return len(table) - 1
	}
	var ko []string
	for _, o := range obs {
		var cs []string
		for _, c := range o.Conts {
			cs = append(cs, fmt.Sprintf("(%d,%s,%d)", c.Target, coqHead(c.Head), flatIdx(c.Flat)))
		}
		ko = append(ko, fmt.Sprintf("mkObs %d %s %d %s %s", o.K, coqHead(o.Head), flatIdx(o.Flat), hlib.CoqBool(o.StateOK), hlib.CoqList(cs)))
	}
	kind := "AAppend"
	if a.Kind == "reorg" {
		kind = "AReorg"
	}
	return fmt.Sprintf("mkCase %d head_in_batch\n %s\n %s (%s %d)\n %s\n %s\n %s", cid, hlib.CoqList(bl), coqIDs(a.Base), kind, a.Target, hlib.CoqList(seq),
		"["+strings.Join(table, ";\n  ")+"]", "["+strings.Join(ko, ";\n  ")+"]")
}

func coqHead(h int) string {
	if h < 0 {
		return "999999"
	}
	return fmt.Sprintf("%d", h)
}

func coqOpClass(c string) string {
	switch c {
	case "put:block":
		return "CPutBlock"
	case "put:canon":
		return "CPutCanon"
	case "del:canon":
		return "CDelCanon"
	case "put:head":
		return "CPutHead"
	case "batch:trie":
		return "CBatchTrie"
	case "batch:block":
		return "CBatchBlock false"
	case "batch:block+head":
		return "CBatchBlock true"
	case "batch:rollback+head+canon":
		return "CBatchRollback"
	}
	return "COther"
}

var _ = types.EmptyRootHash
var _ core.VerifZoneOptions

package main

// A scenario = one chain of <= 5 blocks with Qi activity (UTXO creation by inbound ETXs,
// Qi spends) appended with the real worker / state processor / HeaderChain.SetCurrentHeader,
// one valid sibling per block, a side branch and one reorg onto it. Every top-level database
// write of every append and of the reorg is logged; main.go enumerates the crash points.

import (
	"fmt"
	"math/big"

	"github.com/dominant-strategies/go-quai/common"
	"github.com/dominant-strategies/go-quai/core"
	"github.com/dominant-strategies/go-quai/core/rawdb"
	"github.com/dominant-strategies/go-quai/core/types"
	"github.com/dominant-strategies/go-quai/params"
	"verifharness/hlib"
)

// scenario parameters (replayable)
type scnParams struct {
	Seed      uint64 `json:"seed"`
	NBlocks   int    `json:"nblocks"`   // length of the main chain
	Deliver   int    `json:"deliver"`   // inbound foreign ETXs are stored for the child of this block (1-based)
	NFund     int    `json:"nfund"`     // number of foreign Qi ETXs (UTXOs created for wallet 1)
	Coinbase  bool   `json:"coinbase"`  // additionally one foreign Qi coinbase ETX (several locked UTXOs)
	Spend     []bool `json:"spend"`     // Spend[i]: block i+1 carries a Qi spend (if an outpoint is available)
	Fork      int    `json:"fork"`      // the side branch leaves the main chain after this block (1-based, < NBlocks)
	BranchLen int    `json:"branchlen"` // 1 or 2
	// large block: Big > 0 stores Big inbound Qi coinbase ETXs (small denominations: ~60 UTXOs each)
	// for the child of block BigAt, i.e. block BigAt+1 (and its sibling) creates thousands of UTXOs and
	// queues far more than ethdb.IdealBatchSize bytes in its block batch
	Big   int `json:"big,omitempty"`
	BigAt int `json:"bigat,omitempty"`
	// OnlyBig: enumerate the crash points of the actions that involve a large block only (corpus
	// scenario 3: its small appends have the shapes of the other corpus scenarios)
	OnlyBig bool `json:"onlybig,omitempty"`
}

// kv: one entry of the flat key space, by dictionary ids (key id, value id)
type kv struct {
	U int
	V int
}

type blk struct {
	Wo     *types.WorkObject
	ID     int
	Parent int
	Num    uint64
	// effect on the flat key space, from the block batch of the uncrashed append: entries created and
	// entries deleted (with the value they had: what the undo record keeps)
	Created []kv
	Spent   []kv
}

type action struct {
	Kind    string // "append" | "reorg"
	Target  int    // block id
	Base    []int  // ids appended (completely) before, in order, i.e. the canonical chain
	Pre     image
	Ops     []topOp
	Allowed []int // heads a restarted node may report
	Conts   []int // continuation targets evaluated after restart
	// for reorg: blocks rolled back / forwarded
	Back []int
	Fwd  []int
}

type scenario struct {
	P       scnParams
	Blocks  map[int]*blk
	RefFlat map[int]map[string]string // flat key space after the block, from complete (uncrashed) runs
	Actions []*action
	keyID   map[string]int
	valID   map[string]int
	Keys    []string
	Notes   []string
	// failures of the structural write-log monitor (checkLog), reported by the caller
	LogFails []logFail
	NLogs    int
}

type logFail struct {
	Sig    string
	What   string
	Action int
}

// checkLog is the structural, size-independent write-log monitor, evaluated on EVERY logged
// top-level write sequence (main appends, siblings, branch blocks, the reorg) whether or not its
// crash points are enumerated: the keys a block owns in the unversioned part of the database -
// flat 'ut'/'cl' entries, undo records, multiset / set size / processed marker - may only be
// written by batch commits, and only by (a) THE block batch of a (re-)appended block (the one that
// carries the processed-state marker), exactly one per appended block, or (b) THE rollback batch of
// a rolled-back block (head hash + canonical hash inside), exactly one per rolled-back block.
// Any other top-level write touching them (a direct put/delete, an additional batch commit: an
// early/partial flush of the block batch) creates a crash point with block effects half applied.
func (s *scenario) checkLog(kind string, ai int, ops []topOp, nBack, nFwd int) {
	s.NLogs++
	owned := func(t topOp) (string, bool) {
		for _, x := range t.Ops {
			switch c := classOf(x.K); c {
			case kUtxo, kLockup, kUndo, kCommit:
				return className[c], true
			}
		}
		return "", false
	}
	nBlock, nRoll := 0, 0
	seen := map[string]bool{}
	fail := func(sig, what string) {
		if !seen[sig] {
			seen[sig] = true
			s.LogFails = append(s.LogFails, logFail{Sig: "writelog:" + kind + ":" + sig, What: what, Action: ai})
		}
	}
	for i, t := range ops {
		// the two legitimate carriers, recognised by structure (a rollback batch of a block without
		// flat effects touches no owned key: it is still counted)
		if t.Batch && effectsBatchIndex([]topOp{t}) == 0 {
			nBlock++
			continue
		}
		if t.Batch && hasKeyClass(t.Ops, kHead) && hasKeyClass(t.Ops, kCanon) {
			nRoll++
			continue
		}
		cls, ok := owned(t)
		if !ok {
			continue
		}
		if t.Batch && hasKeyClass(t.Ops, kCanon) {
			fail("rollback-batch-without-head", fmt.Sprintf("top-level write %d of %d is a batch commit that changes a canonical hash and %s keys but does not carry the head block hash: undo of a block is not atomic with the head moving back", i+1, len(ops), cls))
			continue
		}
		if !t.Batch {
			fail("direct-write", fmt.Sprintf("top-level write %d of %d is a direct (non-batch) put/delete of a %s key: not atomic with the block batch / head pointer", i+1, len(ops), cls))
		} else {
			fail("partial-batch", fmt.Sprintf("top-level write %d of %d is a batch commit (%d operations) that touches %s keys but is neither the block batch (processed-state marker) nor a rollback batch (head + canonical hash): block effects are committed in more than one piece", i+1, len(ops), len(t.Ops), cls))
		}
	}
	if nBlock != nFwd {
		fail("block-batch-count", fmt.Sprintf("%d block batches (batch with the processed-state marker) for %d appended blocks", nBlock, nFwd))
	}
	if nRoll != nBack {
		fail("rollback-batch-count", fmt.Sprintf("%d rollback batches for %d rolled-back blocks", nRoll, nBack))
	}
}

func (s *scenario) kid(k string) int {
	if id, ok := s.keyID[k]; ok {
		return id
	}
	id := len(s.keyID) + 1
	s.keyID[k] = id
	s.Keys = append(s.Keys, k)
	return id
}
func (s *scenario) vid(v string) int {
	if id, ok := s.valID[v]; ok {
		return id
	}
	id := len(s.valID) + 1
	s.valID[v] = id
	return id
}

// effectsOf extracts the flat-key-space operations of the block batch (the batch that carries
// the processed-state marker): created entries and deleted entries with the value they had
// (from the pending view of the batch, else from the flat space before the append).
func (s *scenario) effectsOf(ops []topOp, pre map[string]string) (created, spent []kv, err error) {
	idx := effectsBatchIndex(ops)
	if idx < 0 {
		return nil, nil, fmt.Errorf("no block batch (processed-state marker) in the write log")
	}
	pending := map[string]string{}
	for _, x := range ops[idx].Ops {
		c := classOf(x.K)
		if c != kUtxo && c != kLockup {
			continue
		}
		k := string(x.K)
		if x.Del {
			v, ok := pending[k]
			if !ok {
				v, ok = pre[k]
			}
			if !ok {
				return nil, nil, fmt.Errorf("block batch deletes a flat key that does not exist")
			}
			spent = append(spent, kv{s.kid(k), s.vid(v)})
			delete(pending, k)
		} else {
			created = append(created, kv{s.kid(k), s.vid(string(x.V))})
			pending[k] = string(x.V)
		}
	}
	return created, spent, nil
}

func effectsBatchIndex(ops []topOp) int {
	for i, t := range ops {
		if !t.Batch {
			continue
		}
		for _, x := range t.Ops {
			if isPS(x.K) {
				return i
			}
		}
	}
	return -1
}

func randomParams(r *hlib.Rng) scnParams {
	p := scnParams{Seed: r.Next()}
	p.NBlocks = 3 + r.Intn(3)
	p.Deliver = 1
	p.NFund = 2 + r.Intn(3)
	p.Coinbase = r.Chance(50)
	p.Spend = make([]bool, p.NBlocks)
	for i := p.Deliver + 1; i < p.NBlocks; i++ {
		p.Spend[i] = r.Chance(70)
	}
	// the fork point is at height >= 2: rawdb.FindCommonAncestor reports the genesis block for two
	// branches whose common ancestor is block 1 (it tests the parents for genesis before re-testing
	// equality), i.e. such a reorg rolls back to genesis and re-appends block 1; harmless but outside
	// the model's common-prefix computation (see design/C11.md)
	p.Fork = 2 + r.Intn(p.NBlocks-2)
	p.BranchLen = 1 + r.Intn(2)
	// one scenario in eight carries a large block of random size (30..130 Qi coinbase ETXs = 1800..7000
	// UTXO creations, i.e. from below to several times ethdb.IdealBatchSize in the block batch) at a
	// random height >= 2; drawn last so that the other parameters of a seed do not depend on it
	if r.Chance(12) {
		p.Big = 30 + r.Intn(101)
		p.BigAt = 1 + r.Intn(p.NBlocks-1)
	}
	return p
}

// corpusParams: the targeted cases. 0: the F7 witness shape (UTXO creation in block 2, spends
// in blocks 3..5, reorg across spending blocks); 1: a chain without any Qi activity (the crash
// window is harmless there); 2: creation only.
func corpusParams(i int) scnParams {
	switch i {
	case 0:
		return scnParams{Seed: 11, NBlocks: 5, Deliver: 1, NFund: 4, Coinbase: true, Spend: []bool{false, false, true, true, true}, Fork: 2, BranchLen: 2}
	case 1:
		return scnParams{Seed: 12, NBlocks: 3, Deliver: 1, NFund: 0, Coinbase: false, Spend: []bool{false, false, false}, Fork: 2, BranchLen: 1}
	case 2:
		return scnParams{Seed: 13, NBlocks: 3, Deliver: 1, NFund: 2, Coinbase: true, Spend: []bool{false, false, false}, Fork: 2, BranchLen: 1}
	default:
		// 3: a LARGE block (block 3 and its sibling: ~7000 UTXO creations + one spend, several times
		// ethdb.IdealBatchSize queued in the block batch), a small block on top, and a reorg that rolls
		// the large block back and re-appends its large sibling
		return scnParams{Seed: 14, NBlocks: 4, Deliver: 1, NFund: 2, Coinbase: false, Spend: []bool{false, false, true, true}, Fork: 2, BranchLen: 1, Big: bigEtxCount, BigAt: 2, OnlyBig: true}
	}
}

const nCorpus = 4

// number of Qi coinbase ETXs delivered for the large block (the worker includes ETXs until the
// minimum ETX gas share of the block is used: ~115 of them fit into one block)
const bigEtxCount = 120

// bigThreshold: a block with more flat-key-space effects than this is "large" (sparse continuation
// schedule, projected Coq case)
const bigThreshold = 500

func (s *scenario) isBigBlock(id int) bool {
	b := s.Blocks[id]
	return b != nil && len(b.Created)+len(b.Spent) > bigThreshold
}

func (s *scenario) isBigAction(a *action) bool {
	ids := append([]int{a.Target}, a.Back...)
	ids = append(ids, a.Fwd...)
	for _, id := range ids {
		if s.isBigBlock(id) {
			return true
		}
	}
	return false
}

type builder struct {
	s       *scenario
	r       *hlib.Rng
	w1, w2  wallet
	w3      wallet
	origin  common.Hash
	unspent []outpoint // funded outpoints of wallet 1 not yet spent on the branch being built
}

func foreignAddr() common.Address {
	return common.HexToAddress("0x0100000000000000000000000000000000000007", common.Location{0, 1})
}

func (b *builder) fundingEtxs() types.Transactions {
	var out types.Transactions
	p := b.s.P
	for j := 0; j < p.NFund; j++ {
		to := b.w1.a
		out = append(out, types.NewTx(&types.ExternalTx{To: &to, Gas: params.TxGas, Value: big.NewInt(8), EtxType: types.DefaultType,
			OriginatingTxHash: b.origin, ETXIndex: uint16(j), Sender: foreignAddr()}))
	}
	if p.Coinbase {
		to := b.w1.a
		data := append([]byte{0}, common.BytesToHash(b.r.Bytes(32)).Bytes()...)
		out = append(out, types.NewTx(&types.ExternalTx{To: &to, Gas: params.TxGas, Value: big.NewInt(2_345_678), EtxType: types.CoinbaseType,
			OriginatingTxHash: common.BytesToHash(b.r.Bytes(32)), ETXIndex: 0, Sender: b.w1.a, Data: data}))
	}
	return out
}

// bigEtxs: n Qi coinbase ETXs (lockup byte 0) of 999999.999 Qi to n distinct Qi addresses, as the
// dominant chain delivers them for work shares; each is paid out in ~60 UTXOs of all denominations.
func (b *builder) bigEtxs(n int) types.Transactions {
	var out types.Transactions
	for i := 0; i < n; i++ {
		to := common.BytesToAddress(append([]byte{0x00, 0x80, byte(i), byte(i >> 8)}, make([]byte, 16)...), loc)
		data := append([]byte{0}, common.BytesToHash(b.r.Bytes(32)).Bytes()...)
		out = append(out, types.NewTx(&types.ExternalTx{To: &to, Gas: params.TxGas, Value: big.NewInt(999_999_999), EtxType: types.CoinbaseType,
			OriginatingTxHash: common.BytesToHash(b.r.Bytes(32)), ETXIndex: uint16(i), Sender: to, Data: data}))
	}
	return out
}

func qiHashes(txs ...*types.Transaction) []*common.Hash {
	var hs []*common.Hash
	for _, tx := range txs {
		h := tx.Hash()
		hs = append(hs, &h)
	}
	return hs
}

// assembleWith adds the given Qi transactions to the pool, asks the real worker for a block on
// the current head and removes them from the pool again.
func assembleWith(z *core.VerifZone, txs ...*types.Transaction) (*types.WorkObject, error) {
	for _, tx := range txs {
		if err := z.Pool.AddLocal(tx); err != nil {
			return nil, fmt.Errorf("pool rejected a harness transaction: %v", err)
		}
	}
	// under hc.headermu, like Slice.GeneratePendingHeader: the worker's one-second ticker
	// (asyncStateLoop) takes the same lock
	wo, err := z.LockedAssemble(true)
	if len(txs) > 0 {
		z.Pool.RemoveQiTxs(qiHashes(txs...))
	}
	if err != nil {
		return nil, err
	}
	nq := 0
	for _, tx := range wo.Transactions() {
		if tx.Type() == types.QiTxType {
			nq++
		}
	}
	if nq != len(txs) {
		return nil, fmt.Errorf("worker included %d of %d Qi transactions", nq, len(txs))
	}
	return wo, nil
}

// buildScenario runs the complete (uncrashed) history on a logging memory database.
func buildScenario(p scnParams) (s *scenario, err error) {
	defer func() {
		if e := recover(); e != nil {
			err = fmt.Errorf("panic building scenario: %v", e)
		}
	}()
	s = &scenario{P: p, Blocks: map[int]*blk{}, RefFlat: map[int]map[string]string{}, keyID: map[string]int{}, valID: map[string]int{}}
	r := hlib.NewRng(p.Seed)
	b := &builder{s: s, r: r}
	b.w1, b.w2, b.w3 = grind(r), grind(r), grind(r)
	b.origin = common.BytesToHash(r.Bytes(32))

	db := image{}.open() // empty database on the selected backend
	defer db.release()
	z, err := openZone(db, 1)
	if err != nil {
		return nil, err
	}
	defer z.Close()
	chainID := z.Config.ChainID
	s.Blocks[0] = &blk{Wo: z.Genesis, ID: 0, Parent: -1}
	s.RefFlat[0] = snapshot(db).flat()

	var pendingOut types.Transactions
	var base []int
	preImg := map[int]image{}      // image before main block i
	spentAt := map[int]*outpoint{} // outpoint spent by main block i
	for i := 1; i <= p.NBlocks; i++ {
		pre := snapshot(db)
		preImg[i] = pre
		var tx, alt *types.Transaction
		if p.Spend[i-1] && len(b.unspent) > 0 {
			op := b.unspent[0]
			b.unspent = b.unspent[1:]
			spentAt[i] = &op
			tx = qiSpend(chainID, b.w1, op, b.w2.a, 7)
			alt = qiSpend(chainID, b.w1, op, b.w3.a, 6)
		}
		// valid sibling of block i (same parent, same input spent differently), assembled and
		// appended on a copy of the pre-image by a second node
		sib, sibOps, sibFlat, err := buildSibling(pre, alt)
		if err != nil {
			return nil, fmt.Errorf("sibling of block %d: %v", i, err)
		}
		var txs []*types.Transaction
		if tx != nil {
			txs = append(txs, tx)
		}
		wo, err := assembleWith(z, txs...)
		if err != nil {
			return nil, fmt.Errorf("assemble block %d: %v", i, err)
		}
		// the logged window runs under hc.headermu (as in production), so the worker's ticker
		// cannot interleave; the pre-image is taken inside the same critical section
		var ops []topOp
		z.Locked(func() {
			pre = snapshot(db)
			db.start()
			err = z.Append(wo)
			ops = db.stop()
		})
		if err != nil {
			return nil, fmt.Errorf("append block %d: %v", i, err)
		}
		z.ResetPool()
		s.checkLog("append", i-1, ops, 0, 1)
		s.checkLog("append", i-1, sibOps, 0, 1)
		cr, sp, err := s.effectsOf(ops, pre.flat())
		if err != nil {
			return nil, err
		}
		s.Blocks[i] = &blk{Wo: wo, ID: i, Parent: i - 1, Num: num(wo), Created: cr, Spent: sp}
		s.RefFlat[i] = snapshot(db).flat()
		sid := 100 + i
		scr, ssp, err := s.effectsOf(sibOps, pre.flat())
		if err != nil {
			return nil, err
		}
		s.Blocks[sid] = &blk{Wo: sib, ID: sid, Parent: i - 1, Num: num(sib), Created: scr, Spent: ssp}
		s.RefFlat[sid] = sibFlat
		s.Actions = append(s.Actions, &action{Kind: "append", Target: i, Base: append([]int{}, base...), Pre: pre, Ops: ops,
			Allowed: []int{i - 1, i}, Conts: []int{i, sid}})
		base = append(base, i)
		// dominant chain: every block is coincident; it delivers what was emitted plus the funding
		pendingOut = append(pendingOut, wo.OutboundEtxs()...)
		if i == p.Deliver {
			pendingOut = append(pendingOut, b.fundingEtxs()...)
			for j := 0; j < p.NFund; j++ {
				b.unspent = append(b.unspent, outpoint{b.origin, uint16(j)})
			}
		}
		if p.Big > 0 && i == p.BigAt {
			pendingOut = append(pendingOut, b.bigEtxs(p.Big)...)
		}
		rawdb.WriteInboundEtxs(db, wo.Hash(), pendingOut)
		pendingOut = nil
	}

	// ---- side branch: sibling of block Fork+1, optionally one more block on top of it ----
	f := p.Fork
	branch := []int{100 + f + 1}
	if p.BranchLen >= 2 {
		// unspent outpoints on the branch: those not spent by main blocks <= f, nor by the sibling
		var avail []outpoint
		for j := 0; j < p.NFund; j++ {
			op := outpoint{b.origin, uint16(j)}
			used := false
			for i := 1; i <= f+1; i++ {
				if spentAt[i] != nil && *spentAt[i] == op {
					used = true
				}
			}
			if !used {
				avail = append(avail, op)
			}
		}
		created := f+1 > p.Deliver+0 && f >= p.Deliver // funding UTXOs exist once the child of Deliver is appended
		var tx *types.Transaction
		if created && f+1 > p.Deliver && len(avail) > 0 {
			tx = qiSpend(chainID, b.w1, avail[0], b.w3.a, 5)
		}
		wo2, ops2, flat2, err := extendBranch(preImg[f+1], s.Blocks[100+f+1].Wo, tx)
		if err != nil {
			return nil, fmt.Errorf("branch block: %v", err)
		}
		s.checkLog("append", f, ops2, 0, 1)
		cr2, sp2, err := s.effectsOf(ops2, s.RefFlat[100+f+1])
		if err != nil {
			return nil, err
		}
		s.Blocks[200] = &blk{Wo: wo2, ID: 200, Parent: 100 + f + 1, Num: num(wo2), Created: cr2, Spent: sp2}
		s.RefFlat[200] = flat2
		branch = append(branch, 200)
	}
	tip := branch[len(branch)-1]
	var pre image
	var ops []topOp
	z.Locked(func() {
		for _, id := range branch {
			z.Store(s.Blocks[id].Wo) // what Slice.Append stores for a side-chain block
		}
		pre = snapshot(db)
		db.start()
		err = z.Hc.SetCurrentHeader(s.Blocks[tip].Wo)
		ops = db.stop()
	})
	if err != nil {
		return nil, fmt.Errorf("reorg: %v", err)
	}
	if z.Hc.CurrentHeader().Hash() != s.Blocks[tip].Wo.Hash() {
		return nil, fmt.Errorf("reorg did not reach the branch tip")
	}
	if !flatEq(snapshot(db).flat(), s.RefFlat[tip]) {
		s.Notes = append(s.Notes, "reorg-final-flat-differs-from-branch-reference")
	}
	var back []int
	for i := p.NBlocks; i > f; i-- {
		back = append(back, i)
	}
	s.checkLog("reorg", len(s.Actions), ops, len(back), len(branch))
	allowed := append([]int{f}, back...)
	allowed = append(allowed, branch...)
	s.Actions = append(s.Actions, &action{Kind: "reorg", Target: tip, Base: append([]int{}, base...), Pre: pre, Ops: ops,
		Allowed: allowed, Conts: []int{tip, p.NBlocks}, Back: back, Fwd: branch})
	return s, nil
}

// buildSibling assembles, on a copy of the image, a different valid child of the image's head
// (other coinbase, the alternative spend) with a second node and appends it there.
func buildSibling(pre image, alt *types.Transaction) (*types.WorkObject, []topOp, map[string]string, error) {
	db := pre.open()
	defer db.release()
	z, err := openZone(db, 2)
	if err != nil {
		return nil, nil, nil, err
	}
	defer z.Close()
	var txs []*types.Transaction
	if alt != nil {
		txs = append(txs, alt)
	}
	wo, err := assembleWith(z, txs...)
	if err != nil {
		return nil, nil, nil, err
	}
	var ops []topOp
	z.Locked(func() {
		db.start()
		err = z.Append(wo)
		ops = db.stop()
	})
	if err != nil {
		return nil, nil, nil, err
	}
	return wo, ops, snapshot(db).flat(), nil
}

// extendBranch: on a copy of the image append `first` and assemble + append one more block.
func extendBranch(pre image, first *types.WorkObject, tx *types.Transaction) (*types.WorkObject, []topOp, map[string]string, error) {
	db := pre.open()
	defer db.release()
	z, err := openZone(db, 3)
	if err != nil {
		return nil, nil, nil, err
	}
	defer z.Close()
	if err := z.LockedAppend(first); err != nil {
		return nil, nil, nil, err
	}
	z.ResetPool()
	var txs []*types.Transaction
	if tx != nil {
		txs = append(txs, tx)
	}
	wo, err := assembleWith(z, txs...)
	if err != nil {
		return nil, nil, nil, err
	}
	var ops []topOp
	z.Locked(func() {
		db.start()
		err = z.Append(wo)
		ops = db.stop()
	})
	if err != nil {
		return nil, nil, nil, err
	}
	return wo, ops, snapshot(db).flat(), nil
}

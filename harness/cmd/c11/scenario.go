package main

// A scenario = one chain of <= 5 blocks with Qi activity (UTXO creation by inbound ETXs,
// Qi spends) appended with the real worker / state processor / HeaderChain.SetCurrentHeader,
// one valid sibling per block, a side branch and one reorg onto it. Every top-level database
// write of every append and of the reorg is logged; main.go enumerates the crash points.

import (
	"fmt"
	"math/big"

	"github.com/dominant-strategies/go-quai/common"
	"github.com/dominant-strategies/go-quai/core"
	"github.com/dominant-strategies/go-quai/core/rawdb"
	"github.com/dominant-strategies/go-quai/core/types"
	"github.com/dominant-strategies/go-quai/params"
	"verifharness/hlib"
)

// scenario parameters (replayable)
type scnParams struct {
	Seed      uint64 `json:"seed"`
	NBlocks   int    `json:"nblocks"`   // length of the main chain
	Deliver   int    `json:"deliver"`   // inbound foreign ETXs are stored for the child of this block (1-based)
	NFund     int    `json:"nfund"`     // number of foreign Qi ETXs (UTXOs created for wallet 1)
	Coinbase  bool   `json:"coinbase"`  // additionally one foreign Qi coinbase ETX (several locked UTXOs)
	Spend     []bool `json:"spend"`     // Spend[i]: block i+1 carries a Qi spend (if an outpoint is available)
	Fork      int    `json:"fork"`      // the side branch leaves the main chain after this block (1-based, < NBlocks)
	BranchLen int    `json:"branchlen"` // 1 or 2
}

// kv: one entry of the flat key space, by dictionary ids (key id, value id)
type kv struct {
	U int
	V int
}

type blk struct {
	Wo     *types.WorkObject
	ID     int
	Parent int
	Num    uint64
	// effect on the flat key space, from the block batch of the uncrashed append: entries created and
	// entries deleted (with the value they had: what the undo record keeps)
	Created []kv
	Spent   []kv
}

type action struct {
	Kind    string // "append" | "reorg"
	Target  int    // block id
	Base    []int  // ids appended (completely) before, in order, i.e. the canonical chain
	Pre     image
	Ops     []topOp
	Allowed []int // heads a restarted node may report
	Conts   []int // continuation targets evaluated after restart
	// for reorg: blocks rolled back / forwarded
	Back []int
	Fwd  []int
}

type scenario struct {
	P       scnParams
	Blocks  map[int]*blk
	RefFlat map[int]map[string]string // flat key space after the block, from complete (uncrashed) runs
	Actions []*action
	keyID   map[string]int
	valID   map[string]int
	Keys    []string
	Notes   []string
}

func (s *scenario) kid(k string) int {
	if id, ok := s.keyID[k]; ok {
		return id
	}
	id := len(s.keyID) + 1
	s.keyID[k] = id
	s.Keys = append(s.Keys, k)
	return id
}
func (s *scenario) vid(v string) int {
	if id, ok := s.valID[v]; ok {
		return id
	}
	id := len(s.valID) + 1
	s.valID[v] = id
	return id
}

// effectsOf extracts the flat-key-space operations of the block batch (the batch that carries
// the processed-state marker): created entries and deleted entries with the value they had
// (from the pending view of the batch, else from the flat space before the append).
func (s *scenario) effectsOf(ops []topOp, pre map[string]string) (created, spent []kv, err error) {
	idx := effectsBatchIndex(ops)
	if idx < 0 {
		return nil, nil, fmt.Errorf("no block batch (processed-state marker) in the write log")
	}
	pending := map[string]string{}
	for _, x := range ops[idx].Ops {
		c := classOf(x.K)
		if c != kUtxo && c != kLockup {
			continue
		}
		k := string(x.K)
		if x.Del {
			v, ok := pending[k]
			if !ok {
				v, ok = pre[k]
			}
			if !ok {
				return nil, nil, fmt.Errorf("block batch deletes a flat key that does not exist")
			}
			spent = append(spent, kv{s.kid(k), s.vid(v)})
			delete(pending, k)
		} else {
			created = append(created, kv{s.kid(k), s.vid(string(x.V))})
			pending[k] = string(x.V)
		}
	}
	return created, spent, nil
}

func effectsBatchIndex(ops []topOp) int {
	for i, t := range ops {
		if !t.Batch {
			continue
		}
		for _, x := range t.Ops {
			if isPS(x.K) {
				return i
			}
		}
	}
	return -1
}

func randomParams(r *hlib.Rng) scnParams {
	p := scnParams{Seed: r.Next()}
	p.NBlocks = 3 + r.Intn(3)
	p.Deliver = 1
	p.NFund = 2 + r.Intn(3)
	p.Coinbase = r.Chance(50)
	p.Spend = make([]bool, p.NBlocks)
	for i := p.Deliver + 1; i < p.NBlocks; i++ {
		p.Spend[i] = r.Chance(70)
	}
	// the fork point is at height >= 2: rawdb.FindCommonAncestor reports the genesis block for two
	// branches whose common ancestor is block 1 (it tests the parents for genesis before re-testing
	// equality), i.e. such a reorg rolls back to genesis and re-appends block 1; harmless but outside
	// the model's common-prefix computation (see design/C11.md)
	p.Fork = 2 + r.Intn(p.NBlocks-2)
	p.BranchLen = 1 + r.Intn(2)
	return p
}

// corpusParams: the targeted cases. 0: the F7 witness shape (UTXO creation in block 2, spends
// in blocks 3..5, reorg across spending blocks); 1: a chain without any Qi activity (the crash
// window is harmless there); 2: creation only.
func corpusParams(i int) scnParams {
	switch i {
	case 0:
		return scnParams{Seed: 11, NBlocks: 5, Deliver: 1, NFund: 4, Coinbase: true, Spend: []bool{false, false, true, true, true}, Fork: 2, BranchLen: 2}
	case 1:
		return scnParams{Seed: 12, NBlocks: 3, Deliver: 1, NFund: 0, Coinbase: false, Spend: []bool{false, false, false}, Fork: 2, BranchLen: 1}
	default:
		return scnParams{Seed: 13, NBlocks: 3, Deliver: 1, NFund: 2, Coinbase: true, Spend: []bool{false, false, false}, Fork: 2, BranchLen: 1}
	}
}

const nCorpus = 3

type builder struct {
	s       *scenario
	r       *hlib.Rng
	w1, w2  wallet
	w3      wallet
	origin  common.Hash
	unspent []outpoint // funded outpoints of wallet 1 not yet spent on the branch being built
}

func foreignAddr() common.Address {
	return common.HexToAddress("0x0100000000000000000000000000000000000007", common.Location{0, 1})
}

func (b *builder) fundingEtxs() types.Transactions {
	var out types.Transactions
	p := b.s.P
	for j := 0; j < p.NFund; j++ {
		to := b.w1.a
		out = append(out, types.NewTx(&types.ExternalTx{To: &to, Gas: params.TxGas, Value: big.NewInt(8), EtxType: types.DefaultType,
			OriginatingTxHash: b.origin, ETXIndex: uint16(j), Sender: foreignAddr()}))
	}
	if p.Coinbase {
		to := b.w1.a
		data := append([]byte{0}, common.BytesToHash(b.r.Bytes(32)).Bytes()...)
		out = append(out, types.NewTx(&types.ExternalTx{To: &to, Gas: params.TxGas, Value: big.NewInt(2_345_678), EtxType: types.CoinbaseType,
			OriginatingTxHash: common.BytesToHash(b.r.Bytes(32)), ETXIndex: 0, Sender: b.w1.a, Data: data}))
	}
	return out
}

func qiHashes(txs ...*types.Transaction) []*common.Hash {
	var hs []*common.Hash
	for _, tx := range txs {
		h := tx.Hash()
		hs = append(hs, &h)
	}
	return hs
}

// assembleWith adds the given Qi transactions to the pool, asks the real worker for a block on
// the current head and removes them from the pool again.
func assembleWith(z *core.VerifZone, txs ...*types.Transaction) (*types.WorkObject, error) {
	for _, tx := range txs {
		if err := z.Pool.AddLocal(tx); err != nil {
			return nil, fmt.Errorf("pool rejected a harness transaction: %v", err)
		}
	}
	// under hc.headermu, like Slice.GeneratePendingHeader: the worker's one-second ticker
	// (asyncStateLoop) takes the same lock
	wo, err := z.LockedAssemble(true)
	if len(txs) > 0 {
		z.Pool.RemoveQiTxs(qiHashes(txs...))
	}
	if err != nil {
		return nil, err
	}
	nq := 0
	for _, tx := range wo.Transactions() {
		if tx.Type() == types.QiTxType {
			nq++
		}
	}
	if nq != len(txs) {
		return nil, fmt.Errorf("worker included %d of %d Qi transactions", nq, len(txs))
	}
	return wo, nil
}

// buildScenario runs the complete (uncrashed) history on a logging memory database.
func buildScenario(p scnParams) (s *scenario, err error) {
	defer func() {
		if e := recover(); e != nil {
			err = fmt.Errorf("panic building scenario: %v", e)
		}
	}()
	s = &scenario{P: p, Blocks: map[int]*blk{}, RefFlat: map[int]map[string]string{}, keyID: map[string]int{}, valID: map[string]int{}}
	r := hlib.NewRng(p.Seed)
	b := &builder{s: s, r: r}
	b.w1, b.w2, b.w3 = grind(r), grind(r), grind(r)
	b.origin = common.BytesToHash(r.Bytes(32))

	db := image{}.open() // empty database on the selected backend
	defer db.release()
	z, err := openZone(db, 1)
	if err != nil {
		return nil, err
	}
	defer z.Close()
	chainID := z.Config.ChainID
	s.Blocks[0] = &blk{Wo: z.Genesis, ID: 0, Parent: -1}
	s.RefFlat[0] = snapshot(db).flat()

	var pendingOut types.Transactions
	var base []int
	preImg := map[int]image{}      // image before main block i
	spentAt := map[int]*outpoint{} // outpoint spent by main block i
	for i := 1; i <= p.NBlocks; i++ {
		pre := snapshot(db)
		preImg[i] = pre
		var tx, alt *types.Transaction
		if p.Spend[i-1] && len(b.unspent) > 0 {
			op := b.unspent[0]
			b.unspent = b.unspent[1:]
			spentAt[i] = &op
			tx = qiSpend(chainID, b.w1, op, b.w2.a, 7)
			alt = qiSpend(chainID, b.w1, op, b.w3.a, 6)
		}
		// valid sibling of block i (same parent, same input spent differently), assembled and
		// appended on a copy of the pre-image by a second node
		sib, sibOps, sibFlat, err := buildSibling(pre, alt)
		if err != nil {
			return nil, fmt.Errorf("sibling of block %d: %v", i, err)
		}
		var txs []*types.Transaction
		if tx != nil {
			txs = append(txs, tx)
		}
		wo, err := assembleWith(z, txs...)
		if err != nil {
			return nil, fmt.Errorf("assemble block %d: %v", i, err)
		}
		// the logged window runs under hc.headermu (as in production), so the worker's ticker
		// cannot interleave; the pre-image is taken inside the same critical section
		var ops []topOp
		z.Locked(func() {
			pre = snapshot(db)
			db.start()
			err = z.Append(wo)
			ops = db.stop()
		})
		if err != nil {
			return nil, fmt.Errorf("append block %d: %v", i, err)
		}
		z.ResetPool()
		cr, sp, err := s.effectsOf(ops, pre.flat())
		if err != nil {
			return nil, err
		}
		s.Blocks[i] = &blk{Wo: wo, ID: i, Parent: i - 1, Num: num(wo), Created: cr, Spent: sp}
		s.RefFlat[i] = snapshot(db).flat()
		sid := 100 + i
		scr, ssp, err := s.effectsOf(sibOps, pre.flat())
		if err != nil {
			return nil, err
		}
		s.Blocks[sid] = &blk{Wo: sib, ID: sid, Parent: i - 1, Num: num(sib), Created: scr, Spent: ssp}
		s.RefFlat[sid] = sibFlat
		s.Actions = append(s.Actions, &action{Kind: "append", Target: i, Base: append([]int{}, base...), Pre: pre, Ops: ops,
			Allowed: []int{i - 1, i}, Conts: []int{i, sid}})
		base = append(base, i)
		// dominant chain: every block is coincident; it delivers what was emitted plus the funding
		pendingOut = append(pendingOut, wo.OutboundEtxs()...)
		if i == p.Deliver {
			pendingOut = append(pendingOut, b.fundingEtxs()...)
			for j := 0; j < p.NFund; j++ {
				b.unspent = append(b.unspent, outpoint{b.origin, uint16(j)})
			}
		}
		rawdb.WriteInboundEtxs(db, wo.Hash(), pendingOut)
		pendingOut = nil
	}

	// ---- side branch: sibling of block Fork+1, optionally one more block on top of it ----
	f := p.Fork
	branch := []int{100 + f + 1}
	if p.BranchLen >= 2 {
		// unspent outpoints on the branch: those not spent by main blocks <= f, nor by the sibling
		var avail []outpoint
		for j := 0; j < p.NFund; j++ {
			op := outpoint{b.origin, uint16(j)}
			used := false
			for i := 1; i <= f+1; i++ {
				if spentAt[i] != nil && *spentAt[i] == op {
					used = true
				}
			}
			if !used {
				avail = append(avail, op)
			}
		}
		created := f+1 > p.Deliver+0 && f >= p.Deliver // funding UTXOs exist once the child of Deliver is appended
		var tx *types.Transaction
		if created && f+1 > p.Deliver && len(avail) > 0 {
			tx = qiSpend(chainID, b.w1, avail[0], b.w3.a, 5)
		}
		wo2, ops2, flat2, err := extendBranch(preImg[f+1], s.Blocks[100+f+1].Wo, tx)
		if err != nil {
			return nil, fmt.Errorf("branch block: %v", err)
		}
		cr2, sp2, err := s.effectsOf(ops2, s.RefFlat[100+f+1])
		if err != nil {
			return nil, err
		}
		s.Blocks[200] = &blk{Wo: wo2, ID: 200, Parent: 100 + f + 1, Num: num(wo2), Created: cr2, Spent: sp2}
		s.RefFlat[200] = flat2
		branch = append(branch, 200)
	}
	tip := branch[len(branch)-1]
	var pre image
	var ops []topOp
	z.Locked(func() {
		for _, id := range branch {
			z.Store(s.Blocks[id].Wo) // what Slice.Append stores for a side-chain block
		}
		pre = snapshot(db)
		db.start()
		err = z.Hc.SetCurrentHeader(s.Blocks[tip].Wo)
		ops = db.stop()
	})
	if err != nil {
		return nil, fmt.Errorf("reorg: %v", err)
	}
	if z.Hc.CurrentHeader().Hash() != s.Blocks[tip].Wo.Hash() {
		return nil, fmt.Errorf("reorg did not reach the branch tip")
	}
	if !flatEq(snapshot(db).flat(), s.RefFlat[tip]) {
		s.Notes = append(s.Notes, "reorg-final-flat-differs-from-branch-reference")
	}
	var back []int
	for i := p.NBlocks; i > f; i-- {
		back = append(back, i)
	}
	allowed := append([]int{f}, back...)
	allowed = append(allowed, branch...)
	s.Actions = append(s.Actions, &action{Kind: "reorg", Target: tip, Base: append([]int{}, base...), Pre: pre, Ops: ops,
		Allowed: allowed, Conts: []int{tip, p.NBlocks}, Back: back, Fwd: branch})
	return s, nil
}

// buildSibling assembles, on a copy of the image, a different valid child of the image's head
// (other coinbase, the alternative spend) with a second node and appends it there.
func buildSibling(pre image, alt *types.Transaction) (*types.WorkObject, []topOp, map[string]string, error) {
	db := pre.open()
	defer db.release()
	z, err := openZone(db, 2)
	if err != nil {
		return nil, nil, nil, err
	}
	defer z.Close()
	var txs []*types.Transaction
	if alt != nil {
		txs = append(txs, alt)
	}
	wo, err := assembleWith(z, txs...)
	if err != nil {
		return nil, nil, nil, err
	}
	var ops []topOp
	z.Locked(func() {
		db.start()
		err = z.Append(wo)
		ops = db.stop()
	})
	if err != nil {
		return nil, nil, nil, err
	}
	return wo, ops, snapshot(db).flat(), nil
}

// extendBranch: on a copy of the image append `first` and assemble + append one more block.
func extendBranch(pre image, first *types.WorkObject, tx *types.Transaction) (*types.WorkObject, []topOp, map[string]string, error) {
	db := pre.open()
	defer db.release()
	z, err := openZone(db, 3)
	if err != nil {
		return nil, nil, nil, err
	}
	defer z.Close()
	if err := z.LockedAppend(first); err != nil {
		return nil, nil, nil, err
	}
	z.ResetPool()
	var txs []*types.Transaction
	if tx != nil {
		txs = append(txs, tx)
	}
	wo, err := assembleWith(z, txs...)
	if err != nil {
		return nil, nil, nil, err
	}
	var ops []topOp
	z.Locked(func() {
		db.start()
		err = z.Append(wo)
		ops = db.stop()
	})
	if err != nil {
		return nil, nil, nil, err
	}
	return wo, ops, snapshot(db).flat(), nil
}

package main

// Round 3: blocks that write CONTRACT STORAGE and CODE (a contract creation whose constructor
// stores n slots, then calls that update a slot), appended by the real worker / StateProcessor on a
// zone mini node whose Quai sender is funded by a genesis allocation (hook core/verif_c11_zone.go).
// The top-level write sequence of the creating and of the calling append is logged; at EVERY prefix
// the surviving image is rebuilt, a node is restarted on it and the property's monitors are evaluated:
// the state of the reported head is FULLY present in the key-value store - account trie, every
// storage trie referenced by an account, every contract code referenced by a code hash (deep walk
// through a trie database with nothing but the store behind it) -, the contract's slots read from the
// store have the values of the uncrashed run, the interrupted block and the following valid block can
// be appended. Monitor-only (no Coq case: the model abstracts state to a presence bit per block).

import (
	"bytes"
	"crypto/ecdsa"
	"fmt"
	"math/big"
	"time"

	orderedmap "github.com/wk8/go-ordered-map/v2"

	"github.com/dominant-strategies/go-quai/common"
	"github.com/dominant-strategies/go-quai/core"
	"github.com/dominant-strategies/go-quai/core/rawdb"
	"github.com/dominant-strategies/go-quai/core/state"
	"github.com/dominant-strategies/go-quai/core/types"
	"github.com/dominant-strategies/go-quai/crypto"
	"github.com/dominant-strategies/go-quai/ethdb"
	"github.com/dominant-strategies/go-quai/params"
	"github.com/dominant-strategies/go-quai/rlp"
	"github.com/dominant-strategies/go-quai/trie"
)

var emptyCode = crypto.Keccak256(nil)

// statePresentDeep reads every node of the account trie at root, of every storage trie an account
// references and every referenced contract code, through a trie database that has nothing but the
// key-value store behind it.
func statePresentDeep(db ethdb.Database, root common.Hash) (accounts, slots, codes int, err error) {
	defer func() {
		if e := recover(); e != nil {
			err = fmt.Errorf("panic walking state: %v", e)
		}
	}()
	if root == types.EmptyRootHash || root == (common.Hash{}) {
		return 0, 0, 0, nil
	}
	sdb := state.NewDatabaseWithConfig(db, &trie.Config{})
	tr, err := sdb.OpenTrie(root)
	if err != nil {
		return 0, 0, 0, err
	}
	it := trie.NewIterator(tr.NodeIterator(nil))
	for it.Next() {
		accounts++
		var acc state.Account
		if err := rlp.DecodeBytes(it.Value, &acc); err != nil {
			return accounts, slots, codes, fmt.Errorf("undecodable account")
		}
		if acc.Root != types.EmptyRootHash && acc.Root != (common.Hash{}) {
			str, err := sdb.OpenStorageTrie(common.BytesToHash(it.Key), acc.Root)
			if err != nil {
				return accounts, slots, codes, err
			}
			sit := trie.NewIterator(str.NodeIterator(nil))
			for sit.Next() {
				slots++
			}
			if sit.Err != nil {
				return accounts, slots, codes, sit.Err
			}
		}
		if len(acc.CodeHash) == 32 && !bytes.Equal(acc.CodeHash, emptyCode) {
			if len(rawdb.ReadCode(db, common.BytesToHash(acc.CodeHash))) == 0 {
				return accounts, slots, codes, fmt.Errorf("contract code missing")
			}
			codes++
		}
	}
	return accounts, slots, codes, it.Err
}

type evmParams struct {
	Variant int  `json:"variant"`
	NSlots  int  `json:"nslots"`  // slots written by the constructor
	Restart bool `json:"restart"` // the building node is closed and re-opened on its database after every block
}

func evmCorpus(i int) evmParams {
	switch i {
	case 0:
		return evmParams{Variant: 0, NSlots: 1}
	default:
		return evmParams{Variant: 1, NSlots: 5, Restart: true}
	}
}

const nEvmCorpus = 2

func evmKey() (*ecdsa.PrivateKey, common.Address) {
	for i := 1; i < 1<<20; i++ {
		k, err := crypto.ToECDSA(common.BigToHash(big.NewInt(int64(i) + 0x1234567)).Bytes())
		if err != nil {
			continue
		}
		a := crypto.PubkeyToAddress(k.PublicKey, loc)
		if _, err := a.InternalAndQuaiAddress(); err == nil {
			return k, a
		}
	}
	panic("no key")
}

func evmAllocs(sender common.Address) []params.GenesisAccount {
	sched := orderedmap.New[uint64, *big.Int]()
	sched.Set(0, new(big.Int).Mul(big.NewInt(1e18), big.NewInt(1e9)))
	return []params.GenesisAccount{{Address: sender, BalanceSchedule: sched}}
}

func openZoneAllocs(db ethdb.Database, coinbaseByte byte, allocs []params.GenesisAccount) (z *core.VerifZone, err error) {
	defer func() {
		if e := recover(); e != nil {
			err = fmt.Errorf("panic opening node: %v", e)
		}
	}()
	cb := common.HexToAddress(fmt.Sprintf("0x00000000000000000000000000000000000000%02x", coinbaseByte), loc)
	qi := common.HexToAddress(fmt.Sprintf("0x00800000000000000000000000000000000000%02x", coinbaseByte), loc)
	return core.VerifC11NewZoneAllocs(db, core.VerifZoneOptions{Location: loc, QuaiCoinbase: cb, QiCoinbase: qi, GenesisTime: genesisTime}, allocs, logger)
}

// evmAssemble waits until the pool reports n pending transactions, then assembles a block on the head.
func evmAssemble(z *core.VerifZone, n int) (*types.WorkObject, error) {
	for i := 0; i < 300; i++ {
		if pend, _, _ := z.Pool.Stats(); pend >= n {
			break
		}
		time.Sleep(100 * time.Millisecond)
	}
	b, err := z.LockedAssemble(n > 0)
	if err != nil {
		return nil, err
	}
	if len(b.Transactions()) != n {
		return nil, fmt.Errorf("assembled block %d carries %d transactions, want %d", num(b), len(b.Transactions()), n)
	}
	return b, nil
}

type evmCase struct {
	ID    int       `json:"id"`
	Evm   evmParams `json:"evmparams"`
	IsEvm bool      `json:"isevm"`
	Block int       `json:"block,omitempty"`
	K     int       `json:"k,omitempty"`
	Phase string    `json:"phase,omitempty"`
}

type evmBlock struct {
	wo    *types.WorkObject
	pre   image
	ops   []topOp
	slots []common.Hash // values of slots 1..NSlots after the block (uncrashed run, read from the running node)
}

// runEvm builds the chain genesis -> 1 (allocation) -> 2 (contract creation) -> 3 (call) -> 4 (call)
// and enumerates the crash points of the appends of blocks 2 and 3. sparse: crash points k = 0 and
// k = last only (used for the repetition on a real engine in the quick tier).
func runEvm(p evmParams, sparse bool, sigPrefix string) {
	cid := 9000 + p.Variant
	failS := func(sig, what string) {
		rep.Fail(sigPrefix+"evm:"+sig, what, evmCase{ID: cid, Evm: p, IsEvm: true})
	}
	blocks, contract, allocs, err := buildEvm(p)
	if err != nil {
		failS("scenario:build-failed", "the uncrashed history with a contract creation and calls does not build: "+err.Error())
		rep.Count("evm-scenario:build-failed")
		return
	}
	rep.Count("evm-scenario")
	byHash := map[common.Hash]int{}
	for i, b := range blocks {
		if b != nil {
			byHash[b.wo.Hash()] = i
		}
	}
	ci, _ := contract.InternalAndQuaiAddress()
	slotVals := func(z *core.VerifZone, head *types.WorkObject) ([]common.Hash, error) {
		st, err := z.StateAt(head)
		if err != nil {
			return nil, err
		}
		var out []common.Hash
		for s := 1; s <= p.NSlots; s++ {
			out = append(out, st.GetState(ci, common.BigToHash(big.NewInt(int64(s)))))
		}
		return out, st.Error()
	}
	eqVals := func(a, b []common.Hash) bool {
		if len(a) != len(b) {
			return false
		}
		for i := range a {
			if a[i] != b[i] {
				return false
			}
		}
		return true
	}
	for bi := 2; bi <= 3; bi++ {
		b := blocks[bi]
		a := &action{Kind: "append", Ops: b.ops}
		for k := 0; k <= len(b.ops); k++ {
			if sparse && k != 0 && k != len(b.ops) {
				continue
			}
			phase := phaseOf(a, k)
			cj := evmCase{ID: cid, Evm: p, IsEvm: true, Block: bi, K: k, Phase: phase}
			fail := func(mon, what string) {
				rep.Fail(sigPrefix+"evm:crash:"+phase+":"+mon, fmt.Sprintf("%s [%s] (append of block %d (%s), crash after %d of %d top-level writes)", what, mon, bi, []string{"", "", "contract creation", "contract call"}[bi], k, len(b.ops)), cj)
			}
			rep.Evaluations++
			rep.Count("evm-phase:" + phase)
			img := b.pre.apply(b.ops, k)
			db := img.open()
			z, err := openZoneAllocs(db, 1, allocs)
			if err != nil {
				db.release()
				fail("open", "node does not open on the surviving image: "+errClass(err))
				continue
			}
			head := z.Hc.CurrentHeader()
			hi, ok := byHash[head.Hash()]
			if !ok || (hi != bi-1 && hi != bi) {
				fail("head", "restarted node reports a head that is neither the parent nor the interrupted block")
			}
			stateOK := true
			_, nslots, ncodes, werr := statePresentDeep(db, head.EVMRoot())
			if werr != nil {
				stateOK = false
			}
			if err := triePresent(db, head.EtxSetRoot()); err != nil {
				stateOK = false
			}
			if ok && hi >= 2 {
				// the head is at or after the creating block: its state must hold the contract
				if nslots < p.NSlots || ncodes < 1 {
					stateOK = false
				}
				vals, err := slotVals(z, head)
				if err != nil || !eqVals(vals, blocks[hi].slots) {
					fail("storage-value", "contract storage read from the store at the reported head differs from the uncrashed run (or cannot be read)")
				}
			}
			if !stateOK {
				fail("state-missing", "state of the reported head (account trie, storage tries, contract code) is not fully present in the store")
			}
			z.Close()
			db.release()
			verdict := fmt.Sprintf("state=%v", stateOK)
			// continue: the interrupted block, then the next valid block
			func() {
				db := img.open()
				defer db.release()
				z, err := openZoneAllocs(db, 1, allocs)
				if err != nil {
					return
				}
				defer z.Close()
				step := func(t int) (e string) {
					defer func() {
						if r := recover(); r != nil {
							e = "panic"
						}
					}()
					z.Locked(func() {
						z.Store(blocks[t].wo)
						if err := z.Hc.SetCurrentHeader(blocks[t].wo); err != nil {
							e = errClass(err)
						}
					})
					if e == "" && z.Hc.CurrentHeader().Hash() != blocks[t].wo.Hash() {
						e = "head did not reach the target"
					}
					return
				}
				for _, t := range []int{bi, bi + 1} {
					name := "redo"
					if t != bi {
						name = "successor"
					}
					if e := step(t); e != "" {
						fail(name+"-rejected", fmt.Sprintf("after restart the node cannot append block %d: %s", t, e))
						verdict += "," + name + "=rejected"
						return
					}
					vals, err := slotVals(z, z.Hc.CurrentHeader())
					if err != nil || !eqVals(vals, blocks[t].slots) {
						fail(name+"-inconsistent", fmt.Sprintf("after restart and append of block %d the contract storage differs from the uncrashed run", t))
						verdict += "," + name + "=inconsistent"
						return
					}
					if _, _, _, err := statePresentDeep(db, z.Hc.CurrentHeader().EVMRoot()); err != nil {
						fail(name+"-state-missing", fmt.Sprintf("after restart and append of block %d the state of the new head is not fully present in the store", t))
						return
					}
				}
				verdict += ",cont=ok"
			}()
			rep.Nontrivial(fmt.Sprintf("evm|%d|%s|%s", bi, phase, verdict))
		}
	}
}

func buildEvm(p evmParams) (blocks []*evmBlock, contract common.Address, allocs []params.GenesisAccount, err error) {
	defer func() {
		if e := recover(); e != nil {
			err = fmt.Errorf("panic building evm scenario: %v", e)
		}
	}()
	key, sender := evmKey()
	allocs = evmAllocs(sender)
	db := image{}.open()
	defer db.release()
	z, err := openZoneAllocs(db, 1, allocs)
	if err != nil {
		return nil, contract, nil, err
	}
	defer func() { z.Close() }()
	// constructor: sstore(i, 0x29+i) for i = 1..NSlots; runtime: sstore(1, sload(1)+1)
	var ctor []byte
	al := types.AccessList{{}}
	for s := 1; s <= p.NSlots; s++ {
		ctor = append(ctor, 0x60, byte(0x29+s), 0x60, byte(s), 0x55)
		al[0].StorageKeys = append(al[0].StorageKeys, common.BigToHash(big.NewInt(int64(s))))
	}
	runtime := common.FromHex("60015460010160015500")
	ctor = append(ctor, 0x60, byte(len(runtime)), 0x60, byte(len(ctor)+12), 0x60, 0x00, 0x39, 0x60, byte(len(runtime)), 0x60, 0x00, 0xf3)
	initcode := append(ctor, runtime...)
	for i := 0; ; i++ { // trailing salt so that the created address is a Quai address of this zone
		code := append(append([]byte{}, initcode...), byte(i>>16), byte(i>>8), byte(i))
		contract = crypto.CreateAddress(sender, 0, code, loc)
		if _, err := contract.InternalAndQuaiAddress(); err == nil {
			initcode = code
			break
		}
	}
	al[0].Address = contract
	ci, _ := contract.InternalAndQuaiAddress()
	signer := types.LatestSigner(z.Config)
	blocks = make([]*evmBlock, 5)
	var price *big.Int
	for i := 1; i <= 4; i++ {
		n := 0
		if i >= 2 {
			if price == nil {
				probe, err := z.LockedAssemble(false)
				if err != nil {
					return nil, contract, nil, err
				}
				price = new(big.Int).Mul(probe.BaseFee(), big.NewInt(4))
			}
			var tx *types.Transaction
			if i == 2 {
				tx, err = types.SignNewTx(key, signer, &types.QuaiTx{ChainID: z.Config.ChainID, Nonce: 0, GasPrice: price, Gas: 800000, Value: big.NewInt(0), Data: initcode, AccessList: al})
			} else {
				to := contract
				tx, err = types.SignNewTx(key, signer, &types.QuaiTx{ChainID: z.Config.ChainID, Nonce: uint64(i - 2), GasPrice: price, Gas: 200000, To: &to, Value: big.NewInt(0), AccessList: al})
			}
			if err != nil {
				return nil, contract, nil, err
			}
			if err := z.Pool.AddLocal(tx); err != nil {
				return nil, contract, nil, fmt.Errorf("pool rejected the transaction of block %d: %v", i, err)
			}
			n = 1
		}
		wo, err := evmAssemble(z, n)
		if err != nil {
			return nil, contract, nil, fmt.Errorf("assemble block %d: %v", i, err)
		}
		eb := &evmBlock{wo: wo}
		z.Locked(func() {
			eb.pre = snapshot(db)
			db.start()
			err = z.Append(wo)
			eb.ops = db.stop()
		})
		if err != nil {
			return nil, contract, nil, fmt.Errorf("append block %d: %v", i, err)
		}
		z.ResetPool()
		if n == 1 {
			if r := z.Processor().GetReceiptsByHash(wo.Hash()); len(r) != 1 || r[0].Status != types.ReceiptStatusSuccessful {
				return nil, contract, nil, fmt.Errorf("transaction of block %d did not succeed", i)
			}
		}
		if p.Restart {
			// a real stop / start of the building node on its own database: nothing may live in memory only
			z.Close()
			z, err = openZoneAllocs(db, 1, allocs)
			if err != nil {
				return nil, contract, nil, fmt.Errorf("re-open after block %d: %v", i, err)
			}
			if z.Hc.CurrentHeader().Hash() != wo.Hash() {
				return nil, contract, nil, fmt.Errorf("re-open after block %d: head is not block %d", i, i)
			}
		}
		st, err := z.StateAt(z.Hc.CurrentHeader())
		if err != nil {
			return nil, contract, nil, fmt.Errorf("state after block %d: %v", i, err)
		}
		for s := 1; s <= p.NSlots; s++ {
			eb.slots = append(eb.slots, st.GetState(ci, common.BigToHash(big.NewInt(int64(s)))))
		}
		if st.Error() != nil {
			return nil, contract, nil, fmt.Errorf("state after block %d: %v", i, st.Error())
		}
		if i >= 2 {
			want := common.BigToHash(big.NewInt(int64(0x2a + i - 2)))
			if eb.slots[0] != want {
				return nil, contract, nil, fmt.Errorf("slot 1 after block %d is %x, want %x", i, eb.slots[0], want)
			}
		}
		blocks[i] = eb
	}
	return blocks, contract, allocs, nil
}

package main

// Logging wrapper around ethdb.Database / ethdb.Batch: records the sequence of
// TOP-LEVEL write operations (direct Put / Delete on the database, and batch
// commits with the batch's operations) issued by the real go-quai code. A crash
// point is "after the first k top-level operations"; a batch commit is one
// operation (all-or-nothing: trusted engine property, see design/C11.md).

import (
	"bytes"
	"sync"

	"github.com/dominant-strategies/go-quai/common"
	"github.com/dominant-strategies/go-quai/ethdb"
)

type kvop struct {
	Del bool
	K   []byte
	V   []byte
}

// topOp: one top-level write. Batch == false: a single direct put/delete (Ops has one element).
type topOp struct {
	Batch bool
	Ops   []kvop
}

type logDB struct {
	ethdb.Database
	mu      sync.Mutex
	on      bool
	log     []topOp
	cleanup func() // closes the engine and removes its directory (leveldb / pebble images)
}

// release frees the resources of an image database.
func (l *logDB) release() {
	if l.cleanup != nil {
		l.cleanup()
		l.cleanup = nil
	}
}

func newLogDB(inner ethdb.Database) *logDB { return &logDB{Database: inner} }

// Location: memorydb reports no location (production leveldb/pebble databases are created with the
// node's location, which rawdb uses to decode addresses of stored blocks); report the zone's.
func (l *logDB) Location() common.Location { return common.Location{0, 0} }

func (l *logDB) start() {
	l.mu.Lock()
	l.on = true
	l.log = nil
	l.mu.Unlock()
}

func (l *logDB) stop() []topOp {
	l.mu.Lock()
	defer l.mu.Unlock()
	l.on = false
	r := l.log
	l.log = nil
	return r
}

func cp(b []byte) []byte { return append([]byte{}, b...) }

func (l *logDB) Put(k, v []byte) error {
	l.mu.Lock()
	if l.on {
		l.log = append(l.log, topOp{Ops: []kvop{{K: cp(k), V: cp(v)}}})
	}
	l.mu.Unlock()
	return l.Database.Put(k, v)
}

func (l *logDB) Delete(k []byte) error {
	l.mu.Lock()
	if l.on {
		l.log = append(l.log, topOp{Ops: []kvop{{Del: true, K: cp(k)}}})
	}
	l.mu.Unlock()
	return l.Database.Delete(k)
}

func (l *logDB) NewBatch() ethdb.Batch {
	return &logBatch{Batch: l.Database.NewBatch(), db: l}
}

type logBatch struct {
	ethdb.Batch // SetPending / GetPending / ValueSize / Logger are forwarded to the real batch
	db          *logDB
	ops         []kvop
}

func (b *logBatch) Put(k, v []byte) error {
	b.ops = append(b.ops, kvop{K: cp(k), V: cp(v)})
	return b.Batch.Put(k, v)
}

func (b *logBatch) Delete(k []byte) error {
	b.ops = append(b.ops, kvop{Del: true, K: cp(k)})
	return b.Batch.Delete(k)
}

func (b *logBatch) Write() error {
	b.db.mu.Lock()
	if b.db.on {
		b.db.log = append(b.db.log, topOp{Batch: true, Ops: append([]kvop{}, b.ops...)})
	}
	b.db.mu.Unlock()
	return b.Batch.Write()
}

func (b *logBatch) Reset() {
	b.ops = nil
	b.Batch.Reset()
}

// Replay onto a writer: if the writer is the logging database the puts are logged there
// as direct (non-atomic) writes, which is what a replay onto a database is.
func (b *logBatch) Replay(w ethdb.KeyValueWriter) error { return b.Batch.Replay(w) }

// ---------- key classes (by rawdb/schema.go prefixes) ----------

const (
	kCanon  = iota // "h"+num+"n"  canonical hash
	kHead          // "LastWorkObject" head block hash
	kTrie          // 32-byte hash key: trie node
	kCode          // "c"+hash
	kUtxo          // "ut"+hash+idx (36 bytes): flat UTXO space
	kLockup        // "cl"+... (47 bytes): flat coinbase lockup space
	kUndo          // sutxo/tutxo/cutxo/ccl/dcl + hash: undo records
	kCommit        // ms/us/ps + hash: multiset, set size, processed marker
	kBlock         // header, body, termini, manifest, number index ...
	kOther
)

var className = []string{"canon", "head", "trie", "code", "utxo", "lockup", "undo", "commit", "block", "other"}

func hasPfx(k []byte, p string, total int) bool {
	return len(k) == total && bytes.HasPrefix(k, []byte(p))
}

func classOf(k []byte) int {
	switch {
	case bytes.Equal(k, []byte("LastWorkObject")):
		return kHead
	case len(k) == 10 && k[0] == 'h' && k[9] == 'n':
		return kCanon
	case hasPfx(k, "ut", 36):
		return kUtxo
	case hasPfx(k, "cl", 47):
		return kLockup
	case hasPfx(k, "sutxo", 37), hasPfx(k, "tutxo", 37), hasPfx(k, "cutxo", 37), hasPfx(k, "ccl", 35), hasPfx(k, "dcl", 35):
		return kUndo
	case hasPfx(k, "ms", 34), hasPfx(k, "us", 34), hasPfx(k, "ps", 34):
		return kCommit
	case len(k) == 32:
		return kTrie
	case hasPfx(k, "c", 33):
		return kCode
	case hasPfx(k, "h", 41), hasPfx(k, "H", 33), hasPfx(k, "tk", 34), hasPfx(k, "wb", 34), hasPfx(k, "ma", 34), hasPfx(k, "il", 34), hasPfx(k, "bl", 34):
		return kBlock
	}
	return kOther
}

package main

// Helpers: database images (snapshot / restore / replay of a logged prefix), the zone
// mini node over an image, model-independent scans of the flat UTXO / lockup key space
// and of the state tries.

import (
	"bytes"
	"fmt"
	"math/big"
	"os"
	"path/filepath"
	"sort"

	"github.com/btcsuite/btcd/btcec/v2"
	"github.com/btcsuite/btcd/btcec/v2/schnorr"
	"github.com/dominant-strategies/go-quai/common"
	"github.com/dominant-strategies/go-quai/core"
	"github.com/dominant-strategies/go-quai/core/rawdb"
	"github.com/dominant-strategies/go-quai/core/state"
	"github.com/dominant-strategies/go-quai/core/types"
	"github.com/dominant-strategies/go-quai/crypto"
	"github.com/dominant-strategies/go-quai/crypto/multiset"
	"github.com/dominant-strategies/go-quai/ethdb"
	"github.com/dominant-strategies/go-quai/ethdb/leveldb"
	"github.com/dominant-strategies/go-quai/ethdb/pebble"
	"github.com/dominant-strategies/go-quai/log"
	"verifharness/hlib"
)

var loc = common.Location{0, 0}
var logger *log.Logger

const genesisTime = 1000

type image map[string][]byte

func snapshot(db ethdb.Database) image {
	img := image{}
	it := db.NewIterator(nil, nil)
	defer it.Release()
	for it.Next() {
		img[string(it.Key())] = cp(it.Value())
	}
	return img
}

func (img image) clone() image {
	o := make(image, len(img))
	for k, v := range img {
		o[k] = v
	}
	return o
}

// apply replays the first k top-level operations of a logged write sequence onto the image.
func (img image) apply(ops []topOp, k int) image {
	o := img.clone()
	for _, t := range ops[:k] {
		for _, x := range t.Ops {
			if x.Del {
				delete(o, string(x.K))
			} else {
				o[string(x.K)] = x.V
			}
		}
	}
	return o
}

// imgBackend selects where database images are materialised: "mem" (memorydb), "leveldb" or
// "pebble" (a fresh directory per image; the engine is closed and re-opened after the image
// has been written, i.e. the node below really starts from what the engine recovers).
var imgBackend = "mem"
var scratchDir string
var scratchSeq int

func newEngine(dir string) (ethdb.KeyValueStore, error) {
	if imgBackend == "pebble" {
		return pebble.New(dir, 16, 16, "", false, logger, loc)
	}
	return leveldb.New(dir, 16, 16, "", false, logger, loc)
}

func (img image) open() *logDB {
	if imgBackend == "mem" {
		db := rawdb.NewMemoryDatabase(logger)
		for k, v := range img {
			db.Put([]byte(k), v)
		}
		return newLogDB(db)
	}
	scratchSeq++
	dir := filepath.Join(scratchDir, fmt.Sprintf("img%d", scratchSeq))
	os.MkdirAll(dir, 0o755)
	kv, err := newEngine(dir)
	if err != nil {
		panic(err)
	}
	for k, v := range img {
		if err := kv.Put([]byte(k), v); err != nil {
			panic(err)
		}
	}
	kv.Close()
	kv, err = newEngine(dir) // restart of the engine
	if err != nil {
		panic(err)
	}
	l := newLogDB(rawdb.NewDatabase(kv))
	l.cleanup = func() {
		kv.Close()
		os.RemoveAll(dir)
	}
	return l
}

// flat returns the content of the unversioned key space ('ut' UTXOs and 'cl' lockups).
func (img image) flat() map[string]string {
	f := map[string]string{}
	for k, v := range img {
		c := classOf([]byte(k))
		if c == kUtxo || c == kLockup {
			f[k] = string(v)
		}
	}
	return f
}

func flatEq(a, b map[string]string) bool {
	if len(a) != len(b) {
		return false
	}
	for k, v := range a {
		if w, ok := b[k]; !ok || w != v {
			return false
		}
	}
	return true
}

func sortedKeys(m map[string]string) []string {
	ks := make([]string, 0, len(m))
	for k := range m {
		ks = append(ks, k)
	}
	sort.Strings(ks)
	return ks
}

// ---------- zone ----------

func openZone(db ethdb.Database, coinbaseByte byte) (z *core.VerifZone, err error) {
	defer func() {
		if e := recover(); e != nil {
			err = fmt.Errorf("panic opening node: %v", e)
		}
	}()
	cb := common.HexToAddress(fmt.Sprintf("0x00000000000000000000000000000000000000%02x", coinbaseByte), loc)
	qi := common.HexToAddress(fmt.Sprintf("0x00800000000000000000000000000000000000%02x", coinbaseByte), loc)
	return core.VerifNewZone(db, core.VerifZoneOptions{Location: loc, QuaiCoinbase: cb, QiCoinbase: qi, GenesisTime: genesisTime}, logger)
}

func num(b *types.WorkObject) uint64 { return b.NumberU64(common.ZONE_CTX) }

// ---------- keys and Qi transactions ----------

type wallet struct {
	k *btcec.PrivateKey
	a common.Address
}

func grind(r *hlib.Rng) wallet {
	for {
		k, _ := btcec.PrivKeyFromBytes(r.Bytes(32))
		a := crypto.PubkeyBytesToAddress(k.PubKey().SerializeUncompressed(), loc)
		if a.Location().Equal(loc) && a.IsInQiLedgerScope() {
			return wallet{k, a}
		}
	}
}

type outpoint struct {
	Tx  common.Hash
	Idx uint16
}

// qiSpend builds and signs a single-input Qi transaction.
func qiSpend(chainID *big.Int, from wallet, in outpoint, to common.Address, denom uint8) *types.Transaction {
	qt := &types.QiTx{ChainID: chainID,
		TxIn:  types.TxIns{{PreviousOutPoint: types.OutPoint{TxHash: in.Tx, Index: in.Idx}, PubKey: from.k.PubKey().SerializeUncompressed()}},
		TxOut: types.TxOuts{{Denomination: denom, Address: to.Bytes(), Lock: big.NewInt(0)}}}
	signer := types.NewSigner(chainID, loc)
	d := signer.Hash(types.NewTx(qt))
	sig, err := schnorr.Sign(from.k, d[:])
	if err != nil {
		panic(err)
	}
	qt.Signature = sig
	return types.NewTx(qt)
}

// ---------- model-independent scans ----------

// utxoCommitment recomputes, from the flat 'ut' key space alone, the multiset hash and the
// number of entries (what core/headerchain_validation.go Finalize commits to in the header's
// UTXORoot and rawdb.WriteUTXOSetSize).
func utxoCommitment(db ethdb.Database) (common.Hash, uint64, error) {
	ms := multiset.New()
	n := uint64(0)
	it := db.NewIterator(rawdb.UtxoPrefix, nil)
	defer it.Release()
	for it.Next() {
		k := it.Key()
		if len(k) != rawdb.UtxoKeyLength {
			continue
		}
		h, idx, err := rawdb.ReverseUtxoKey(k)
		if err != nil {
			return common.Hash{}, 0, err
		}
		u := rawdb.GetUTXO(db, h, idx)
		if u == nil {
			return common.Hash{}, 0, fmt.Errorf("undecodable utxo")
		}
		ms.Add(types.UTXOHash(h, idx, u).Bytes())
		n++
	}
	// coinbase lockups are members of the same multiset (vm.AddNewLock); none are created by
	// the harness chains, a non-empty 'cl' space is reported separately.
	return ms.Hash(), n, nil
}

// triePresent walks every node of the trie with the given root over the raw database.
func triePresent(db ethdb.Database, root common.Hash) (err error) {
	defer func() {
		if e := recover(); e != nil {
			err = fmt.Errorf("panic walking trie: %v", e)
		}
	}()
	if root == types.EmptyRootHash || root == (common.Hash{}) {
		return nil
	}
	tr, err := state.NewDatabase(db).OpenTrie(root)
	if err != nil {
		return err
	}
	it := tr.NodeIterator(nil)
	for it.Next(true) {
	}
	return it.Error()
}

func isGenesis(z *core.VerifZone, h common.Hash) bool { return h == z.Genesis.Hash() }

func hasKeyClass(ops []kvop, class int) bool {
	for _, x := range ops {
		if classOf(x.K) == class {
			return true
		}
	}
	return false
}

func isPS(k []byte) bool { return len(k) == 34 && bytes.HasPrefix(k, []byte("ps")) }

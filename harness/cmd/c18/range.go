// C18 harness, range proofs: trie.VerifyRangeProof must accept a (firstKey, lastKey, keys, values,
// edge proofs) tuple ONLY if the list is exactly the stored pairs of the proven range in strictly
// increasing key order ("proofs prove exactly the contents"), must accept every honest tuple, and
// must never panic. One case = one trie (equal-length keys) plus a list of queries: honest ones in
// the four forms of the verifier (edge proofs, whole trie without proofs, single element, zero
// elements) and, derived from each of them, every malformed shape at the first / a middle / the
// last position of the list.
//
// The oracle (rangeExpected) is computed from the plain content list, independent of the trie and
// of the Coq model. Accepted queries are also handed to Coq (BRange): there the list must be
// strictly increasing and replaying it onto the model's tree (= the dump) must leave it unchanged
// (Props/C18.v: range_strict_pairs_are_stored).
package main

import (
	"bytes"
	"fmt"
	"sort"
	"strings"

	"github.com/dominant-strategies/go-quai/common"
	"github.com/dominant-strategies/go-quai/ethdb/memorydb"
	"github.com/dominant-strategies/go-quai/trie"

	"verifharness/hlib"
)

type RangeQ struct {
	Form    string   `json:"form"`  // edge | whole | single | zero (what the honest ancestor of the query was)
	Shape   string   `json:"shape"` // honest, or the malformation applied
	First   []byte   `json:"first,omitempty"`
	Last    []byte   `json:"last,omitempty"`
	Keys    [][]byte `json:"keys"`
	Vals    [][]byte `json:"vals"`
	NoProof bool     `json:"noproof,omitempty"` // proof == nil: the list claims to be the whole trie
	BadRoot bool     `json:"badroot,omitempty"`
}

func (q RangeQ) clone() RangeQ {
	c := q
	c.First, c.Last = cp(q.First), cp(q.Last)
	c.Keys, c.Vals = nil, nil
	for i := range q.Keys {
		c.Keys = append(c.Keys, cp(q.Keys[i]))
	}
	for i := range q.Vals {
		c.Vals = append(c.Vals, cp(q.Vals[i]))
	}
	return c
}

// what the verifier is entitled to accept, from the content alone. The dispatch on the arguments
// (no proof / no keys / one key with equal bounds / two edges) is part of the interface: it fixes
// what a successful return claims.
func rangeExpected(content []kv, q *RangeQ) (accept bool, more bool) {
	if len(q.Keys) != len(q.Vals) || q.BadRoot {
		return false, false
	}
	for i := 0; i+1 < len(q.Keys); i++ {
		if bytes.Compare(q.Keys[i], q.Keys[i+1]) >= 0 {
			return false, false
		}
	}
	same := func(sub []kv) bool {
		if len(sub) != len(q.Keys) {
			return false
		}
		for i := range sub {
			if !bytes.Equal(sub[i].k, q.Keys[i]) || !bytes.Equal(sub[i].v, q.Vals[i]) {
				return false
			}
		}
		return true
	}
	right := func(k []byte) bool {
		for _, e := range content {
			if bytes.Compare(e.k, k) > 0 {
				return true
			}
		}
		return false
	}
	switch {
	case q.NoProof:
		return same(content), false
	case len(q.Keys) == 0:
		for _, e := range content {
			if bytes.Compare(e.k, q.First) >= 0 {
				return false, false
			}
		}
		return true, false
	case len(q.Keys) == 1 && bytes.Equal(q.First, q.Last):
		if !bytes.Equal(q.Keys[0], q.First) {
			return false, false
		}
		for _, e := range content {
			if bytes.Equal(e.k, q.First) {
				return bytes.Equal(e.v, q.Vals[0]), right(q.First)
			}
		}
		return false, false
	default:
		if bytes.Compare(q.First, q.Last) >= 0 || len(q.First) != len(q.Last) {
			return false, false
		}
		var sub []kv
		for _, e := range content {
			if bytes.Compare(e.k, q.First) >= 0 && bytes.Compare(e.k, q.Last) <= 0 {
				sub = append(sub, e)
			}
		}
		return same(sub), right(q.Keys[len(q.Keys)-1])
	}
}

func verifyRangeNoPanic(root common.Hash, q *RangeQ, proof *memorydb.Database) (more bool, err error, panicked bool) {
	defer func() {
		if r := recover(); r != nil {
			err = fmt.Errorf("panic: %v", r)
			panicked = true
		}
	}()
	if q.NoProof || proof == nil {
		more, err = trie.VerifyRangeProof(root, q.First, q.Last, q.Keys, q.Vals, nil)
	} else {
		more, err = trie.VerifyRangeProof(root, q.First, q.Last, q.Keys, q.Vals, proof)
	}
	return
}

func runRangeCase(rep *hlib.Report, cw *hlib.CaseWriter, c *Case) {
	defer func() {
		if r := recover(); r != nil {
			fail(rep, "panic/range-case", fmt.Sprintf("panic while running a range-proof case: %v", r), c)
		}
	}()
	var content []kv
	for i := range c.Keys {
		content = append(content, kv{c.Keys[i], c.Vals[i]})
	}
	sort.Slice(content, func(i, j int) bool { return bytes.Compare(content[i].k, content[j].k) < 0 })
	u := newTut(false)
	for i := len(content) - 1; i >= 0; i-- {
		u.t.Update(cp(content[i].k), cp(content[i].v))
	}
	root := u.t.Hash()
	var accepted []string
	for qi := range c.Qs {
		q := &c.Qs[qi]
		var proof *memorydb.Database
		if !q.NoProof {
			proof = memorydb.New(logger)
			if err := u.t.Prove(cp(q.First), 0, proof); err != nil {
				fail(rep, "range-proof/prove-error", fmt.Sprintf("Prove(%x) failed: %v", q.First, err), c)
				continue
			}
			if q.Last != nil {
				if err := u.t.Prove(cp(q.Last), 0, proof); err != nil {
					fail(rep, "range-proof/prove-error", fmt.Sprintf("Prove(%x) failed: %v", q.Last, err), c)
					continue
				}
			}
		}
		r := root
		if q.BadRoot {
			r[7] ^= 0x10
		}
		call := q.clone() // the verifier gets private buffers
		more, err, panicked := verifyRangeNoPanic(r, &call, proof)
		want, wantMore := rangeExpected(content, q)
		rep.Count("range:" + q.Form + ":" + q.Shape)
		desc := func() string {
			return fmt.Sprintf("query %d (%s, derived from an honest %s query): first %x last %x, %d keys, trie of %d pairs", qi, q.Shape, q.Form, q.First, q.Last, len(q.Keys), len(content))
		}
		switch {
		case panicked:
			kind := "other"
			switch msg := err.Error(); {
			case strings.Contains(msg, "hashNode: invalid node"):
				kind = "unresolved-hash-node"
			case strings.Contains(msg, "deletion not supported"):
				kind = "stacktrie-deletion"
			}
			fail(rep, "range-proof/panic/"+kind+"/"+q.Shape+"/"+q.Form, fmt.Sprintf("VerifyRangeProof panicked (%v) on %s", err, desc()), c)
		case err == nil && !want:
			fail(rep, "range-proof/accepted-not-exact/"+q.Shape+"/"+q.Form, fmt.Sprintf("VerifyRangeProof returned no error although the key/value list is not exactly the stored pairs of the range in strictly increasing order: %s", desc()), c)
		case err != nil && want:
			fail(rep, "range-proof/honest-rejected/"+q.Shape+"/"+q.Form, fmt.Sprintf("VerifyRangeProof rejected (%v) the exact content of the range: %s", err, desc()), c)
		case err == nil && more != wantMore:
			fail(rep, "range-proof/has-more-wrong/"+q.Form, fmt.Sprintf("VerifyRangeProof reports more=%v, the trie has more=%v entries to the right: %s", more, wantMore, desc()), c)
		}
		if err == nil {
			rep.Count("range-accepted:" + q.Form)
			// lists the oracle rejects are handed to Coq only in the main cases (on the unchanged tree
			// none is accepted there); the "outside" cases hold the known findings F-C18-2/3
			if len(content) <= 14 && len(accepted) < 8 && (want || !strings.HasPrefix(c.Gen, "range-outside:")) {
				var ps []string
				for i := range q.Keys {
					v := []byte{}
					if i < len(q.Vals) {
						v = q.Vals[i]
					}
					ps = append(ps, "("+pack(q.Keys[i])+","+pack(v)+")")
				}
				accepted = append(accepted, hlib.CoqList(ps))
			}
		} else {
			rep.Count("range-rejected:" + q.Form)
		}
	}
	rep.Evaluations++
	rep.TracesValidated++
	rep.Count("gen:" + c.Gen)
	if len(content) >= 2 && len(c.Qs) >= 4 {
		rep.Nontrivial(fmt.Sprintf("range/%d", c.ID))
	}
	if len(accepted) > 0 {
		if d, err := u.dump(); err == nil {
			var sb strings.Builder
			coqNode(d, &sb)
			cw.Add(fmt.Sprintf("(%d%%N, BRange (%s) %s)", c.ID, sb.String(), hlib.CoqList(accepted)), c)
		}
	}
	rep.Sample(c)
}

// ---------- generator ----------

func decKey(k []byte) []byte { // k - 1 (same length), nil on underflow
	o := cp(k)
	for i := len(o) - 1; i >= 0; i-- {
		if o[i] > 0 {
			o[i]--
			return o
		}
		o[i] = 0xff
	}
	return nil
}
func incKey(k []byte) []byte { // k + 1 (same length), nil on overflow
	o := cp(k)
	for i := len(o) - 1; i >= 0; i-- {
		if o[i] < 0xff {
			o[i]++
			return o
		}
		o[i] = 0
	}
	return nil
}

func hasKey(content []kv, k []byte) bool {
	for _, e := range content {
		if bytes.Equal(e.k, k) {
			return true
		}
	}
	return false
}

func bogusVal(r *hlib.Rng, not []byte) []byte {
	for {
		var v []byte
		switch r.Intn(3) {
		case 0:
			v = bytes.Repeat([]byte{0xee}, 40)
		case 1:
			v = []byte{byte(1 + r.Intn(120))}
		default:
			v = r.Bytes(1 + r.Intn(36))
		}
		if !bytes.Equal(v, not) && len(v) > 0 {
			return v
		}
	}
}

var rangeShapes = []string{
	"dup-adjacent-bogus-before", "dup-adjacent-bogus-after", "dup-adjacent-same", "swap-adjacent", "reversed",
	"value-changed", "pair-missing", "pair-extra-absent-key", "key-replaced-by-absent", "deletion-of-present-key",
	"length-mismatch", "bad-root", "bounds-swapped",
}

// shapes the unchanged verifier is known to let through (separate cases: see design/C18.md)
var rangeShapesOutside = []string{"key-below-first-bound", "key-above-last-bound", "deletion-of-absent-key"}

// malform derives a malformed query from an honest one; ok=false if the shape does not apply
func malform(r *hlib.Rng, content []kv, h RangeQ, shape string, pos int) (RangeQ, bool) {
	q := h.clone()
	q.Shape = shape
	n := len(q.Keys)
	ins := func(at int, k, v []byte) {
		q.Keys = append(q.Keys[:at], append([][]byte{cp(k)}, q.Keys[at:]...)...)
		q.Vals = append(q.Vals[:at], append([][]byte{cp(v)}, q.Vals[at:]...)...)
	}
	absentBetween := func(lo, hi []byte) []byte { // an absent key k with lo < k < hi (hi nil = no bound)
		k := incKey(lo)
		for tries := 0; k != nil && tries < 4; tries++ {
			if hi != nil && bytes.Compare(k, hi) >= 0 {
				return nil
			}
			if !hasKey(content, k) {
				return k
			}
			k = incKey(k)
		}
		return nil
	}
	switch shape {
	case "dup-adjacent-bogus-before":
		if n == 0 {
			return q, false
		}
		ins(pos, q.Keys[pos], bogusVal(r, q.Vals[pos]))
	case "dup-adjacent-bogus-after":
		if n == 0 {
			return q, false
		}
		ins(pos+1, q.Keys[pos], bogusVal(r, q.Vals[pos]))
	case "dup-adjacent-same":
		if n == 0 {
			return q, false
		}
		ins(pos, q.Keys[pos], q.Vals[pos])
	case "swap-adjacent":
		if n < 2 {
			return q, false
		}
		p := pos
		if p >= n-1 {
			p = n - 2
		}
		q.Keys[p], q.Keys[p+1] = q.Keys[p+1], q.Keys[p]
		q.Vals[p], q.Vals[p+1] = q.Vals[p+1], q.Vals[p]
	case "reversed":
		if n < 2 || pos != 0 {
			return q, false
		}
		for i, j := 0, n-1; i < j; i, j = i+1, j-1 {
			q.Keys[i], q.Keys[j] = q.Keys[j], q.Keys[i]
			q.Vals[i], q.Vals[j] = q.Vals[j], q.Vals[i]
		}
	case "value-changed":
		if n == 0 {
			return q, false
		}
		q.Vals[pos] = bogusVal(r, q.Vals[pos])
	case "pair-missing":
		if n == 0 {
			return q, false
		}
		q.Keys = append(q.Keys[:pos], q.Keys[pos+1:]...)
		q.Vals = append(q.Vals[:pos], q.Vals[pos+1:]...)
	case "pair-extra-absent-key", "deletion-of-absent-key":
		// an absent key inside the claimed range, after position pos
		if n == 0 {
			return q, false
		}
		var hi []byte
		if pos+1 < n {
			hi = q.Keys[pos+1]
		} else if !q.NoProof && bytes.Compare(q.Last, q.Keys[pos]) > 0 {
			hi = incKey(q.Last)
		} else if !q.NoProof {
			return q, false
		}
		k := absentBetween(q.Keys[pos], hi)
		if k == nil {
			return q, false
		}
		if shape == "deletion-of-absent-key" {
			ins(pos+1, k, []byte{})
		} else {
			ins(pos+1, k, bogusVal(r, nil))
		}
	case "key-replaced-by-absent":
		if n == 0 {
			return q, false
		}
		var hi []byte
		if pos+1 < n {
			hi = q.Keys[pos+1]
		}
		k := absentBetween(q.Keys[pos], hi)
		if k == nil {
			return q, false
		}
		q.Keys[pos] = k
	case "deletion-of-present-key":
		if n == 0 {
			return q, false
		}
		q.Vals[pos] = []byte{}
	case "length-mismatch":
		if n == 0 || pos != 0 {
			return q, false
		}
		q.Vals = q.Vals[:n-1]
	case "bad-root":
		if pos != 0 {
			return q, false
		}
		q.BadRoot = true
	case "bounds-swapped":
		if q.NoProof || pos != 0 || q.Last == nil || bytes.Equal(q.First, q.Last) {
			return q, false
		}
		q.First, q.Last = q.Last, q.First
	case "key-below-first-bound":
		// a pair in front of the proven range: the key is < firstKey (absent, or present with another value)
		if q.NoProof || n == 0 || pos != 0 {
			return q, false
		}
		k := decKey(q.First)
		if r.Bool() { // prefer a key that IS stored to the left of the range, with a foreign value
			for i := len(content) - 1; i >= 0; i-- {
				if bytes.Compare(content[i].k, q.First) < 0 {
					k = content[i].k
					break
				}
			}
		}
		if k == nil || bytes.Compare(k, q.Keys[0]) >= 0 {
			return q, false
		}
		var stored []byte
		for _, e := range content {
			if bytes.Equal(e.k, k) {
				stored = e.v
			}
		}
		ins(0, k, bogusVal(r, stored))
	case "key-above-last-bound":
		if q.NoProof || n == 0 || pos != 0 || q.Last == nil {
			return q, false
		}
		k := incKey(q.Last)
		if r.Bool() {
			for _, e := range content {
				if bytes.Compare(e.k, q.Last) > 0 {
					k = e.k
					break
				}
			}
		}
		if k == nil || bytes.Compare(k, q.Keys[n-1]) <= 0 {
			return q, false
		}
		var stored []byte
		for _, e := range content {
			if bytes.Equal(e.k, k) {
				stored = e.v
			}
		}
		ins(n, k, bogusVal(r, stored))
	default:
		return q, false
	}
	return q, true
}

func rangeContent(r *hlib.Rng, n, l int) []kv {
	set := map[string][]byte{}
	base := r.Bytes(l)
	var prev []byte
	for len(set) < n {
		k := r.Bytes(l)
		switch r.Intn(4) {
		case 0: // dense neighbours: consecutive keys
			if prev != nil {
				if nk := incKey(prev); nk != nil {
					k = nk
				}
			}
		case 1: // shared prefix
			m := r.Intn(l)
			copy(k[:m], base[:m])
		case 2: // share all but the last nibble
			copy(k, base)
			k[l-1] = base[l-1]&0xf0 | byte(r.Intn(16))
		}
		if l == 1 && len(set) >= 200 {
			break
		}
		set[string(k)] = genVal(r)
		prev = k
	}
	return sortedContent(set)
}

// honest queries over the content, in all four forms and with existent / non-existent edge keys
func honestQueries(r *hlib.Rng, content []kv, rich bool) []RangeQ {
	var qs []RangeQ
	n := len(content)
	sub := func(i, j int) (ks, vs [][]byte) { // content[i..j]
		for x := i; x <= j; x++ {
			ks = append(ks, content[x].k)
			vs = append(vs, content[x].v)
		}
		return
	}
	ks, vs := sub(0, n-1)
	qs = append(qs, RangeQ{Form: "whole", Shape: "honest", Keys: ks, Vals: vs, NoProof: true})
	if n == 0 {
		return qs
	}
	l := len(content[0].k)
	edge := func(i, j int, loose int) {
		first, last := content[i].k, content[j].k
		if loose&1 != 0 { // non-existent first edge key
			if d := decKey(first); d != nil && (i == 0 || bytes.Compare(d, content[i-1].k) > 0) {
				first = d
			}
		}
		if loose&2 != 0 {
			if d := incKey(last); d != nil && (j == n-1 || bytes.Compare(d, content[j+1].k) < 0) {
				last = d
			}
		}
		if bytes.Compare(first, last) >= 0 {
			return
		}
		ks, vs := sub(i, j)
		form := "edge"
		if i == j {
			form = "edge-one"
		}
		qs = append(qs, RangeQ{Form: form, Shape: "honest", First: first, Last: last, Keys: ks, Vals: vs})
	}
	zero, ones := bytes.Repeat([]byte{0}, l), bytes.Repeat([]byte{0xff}, l)
	// the whole trie with edge proofs, from 00..00 to ff..ff
	qs = append(qs, RangeQ{Form: "edge-all", Shape: "honest", First: zero, Last: ones, Keys: ks, Vals: vs})
	cnt := 2
	if rich {
		cnt = 5
	}
	for x := 0; x < cnt && n >= 2; x++ {
		i := r.Intn(n - 1)
		j := i + 1 + r.Intn(n-1-i)
		if x == 0 {
			i, j = 0, n-1
		}
		edge(i, j, r.Intn(4))
	}
	// one element between two edges, and the single-element form (both edges the key itself)
	i := r.Intn(n)
	edge(i, i, 1+r.Intn(3))
	for _, i := range []int{0, r.Intn(n), n - 1} {
		qs = append(qs, RangeQ{Form: "single", Shape: "honest", First: content[i].k, Last: content[i].k, Keys: [][]byte{content[i].k}, Vals: [][]byte{content[i].v}})
	}
	// zero elements: nothing at or right of firstKey
	if k := incKey(content[n-1].k); k != nil {
		qs = append(qs, RangeQ{Form: "zero", Shape: "honest", First: k, Last: ones, Keys: [][]byte{}, Vals: [][]byte{}})
	}
	return qs
}

func buildRangeQueries(r *hlib.Rng, content []kv, shapes []string, rich bool) []RangeQ {
	var out []RangeQ
	for _, h := range honestQueries(r, content, rich) {
		out = append(out, h)
		n := len(h.Keys)
		poss := []int{0}
		if n >= 3 {
			poss = append(poss, 1+r.Intn(n-2))
		}
		if n >= 2 {
			poss = append(poss, n-1)
		}
		for _, sh := range shapes {
			for _, p := range poss {
				if q, ok := malform(r, content, h, sh, p); ok {
					out = append(out, q)
				}
			}
		}
		// malformed zero/single forms
		switch h.Form {
		case "zero":
			// claims "nothing from firstKey on" although entries exist at / right of firstKey
			for _, i := range []int{0, len(content) - 1} {
				q := h.clone()
				q.Shape = "zero-elements-but-entries-right"
				q.First = content[i].k
				out = append(out, q)
				if d := decKey(content[i].k); d != nil {
					q2 := q.clone()
					q2.First = d
					out = append(out, q2)
				}
			}
		case "single":
			q := h.clone()
			q.Shape = "single-other-key"
			if k := incKey(h.Keys[0]); k != nil && !hasKey(content, k) {
				q.Keys[0] = k
				out = append(out, q)
				q2 := q.clone() // proof of absence of k offered as a proof of (k, v)
				q2.Shape = "single-absent-key-with-value"
				q2.First, q2.Last = k, k
				out = append(out, q2)
			}
		case "whole":
			if len(content) > 0 {
				q := h.clone()
				q.Shape = "whole-trie-claimed-empty"
				q.Keys, q.Vals = [][]byte{}, [][]byte{}
				out = append(out, q)
			}
		}
	}
	return out
}

func genRangeCases(r *hlib.Rng, id *int, n int, l int, gen string, rich bool) []*Case {
	content := rangeContent(r, n, l)
	mk := func(g string, shapes []string) *Case {
		c := &Case{ID: *id, Kind: "range", Gen: g}
		*id++
		for _, e := range content {
			c.Keys = append(c.Keys, e.k)
			c.Vals = append(c.Vals, e.v)
		}
		c.Qs = buildRangeQueries(r, content, shapes, rich)
		return c
	}
	return []*Case{mk("range:"+gen, rangeShapes), mk("range-outside:"+gen, rangeShapesOutside)}
}

// fixed range-proof corpus: the demo shapes of the blind changes on small tries, every shape at
// every position of a 4-key trie, embedded (tiny) and hashed (large) values
func rangeCorpus(r *hlib.Rng, id *int) []*Case {
	var cs []*Case
	for _, spec := range [][2]int{{0, 2}, {1, 2}, {2, 1}, {4, 2}, {9, 3}, {30, 32}, {70, 2}} {
		cs = append(cs, genRangeCases(r, id, spec[0], spec[1], fmt.Sprintf("corpus-%d-keys-of-%d", spec[0], spec[1]), true)...)
	}
	return cs
}

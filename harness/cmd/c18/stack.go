// StackTrie cases (extension round): a key/value list is fed to a real trie.StackTrie; after the
// insertions the SHAPE of the real StackTrie (hook trie.VerifStackDump: node types, key chunks, leaf
// values, which subtrees are already hashed) and whether the insertion panicked go to Coq, where
// Model/C18.v:st_crun replays the list on the model (st_insert) and requires the same shape, the same
// panic verdict and, at the end, to_node(model) == the dump of the real trie.Trie holding the pairs.
//
// Monitors (model-independent): an ascending prefix-free list never panics; a list that did not panic
// gives StackTrie.Hash() == Trie.Hash() of the same pairs; keyOffset of every open node == its depth;
// the caller's key/value buffers come back unmodified.
package main

import (
	"bytes"
	"fmt"
	"sort"
	"strings"

	"github.com/dominant-strategies/go-quai/common"
	"github.com/dominant-strategies/go-quai/core/types"
	"github.com/dominant-strategies/go-quai/ethdb/memorydb"
	"github.com/dominant-strategies/go-quai/trie"

	"verifharness/hlib"
)

func coqStack(n *trie.VerifStackNode, sb *strings.Builder) {
	switch n.Kind {
	case "empty":
		sb.WriteString("XE")
	case "leaf":
		sb.WriteString("XL " + pack(n.Key) + " " + pack(n.Val))
	case "ext":
		sb.WriteString("XX " + pack(n.Key) + " (")
		coqStack(n.Children[0], sb)
		sb.WriteString(")")
	case "branch":
		sb.WriteString("XB [")
		for i, c := range n.Children {
			if i > 0 {
				sb.WriteString(";")
			}
			coqStack(c, sb)
		}
		sb.WriteString("]")
	case "hashed":
		sb.WriteString("XH")
	default:
		panic("stack kind " + n.Kind)
	}
}

// keyOffset of every node that can still be inserted into == number of nibbles above it
func stackOffsets(n *trie.VerifStackNode, depth int) string {
	switch n.Kind {
	case "hashed":
		return ""
	case "empty":
		if depth == 0 {
			return ""
		}
		return "" // a nil child
	case "leaf":
		if n.KeyOff != depth {
			return fmt.Sprintf("leaf at depth %d has keyOffset %d", depth, n.KeyOff)
		}
	case "ext":
		if n.KeyOff != depth {
			return fmt.Sprintf("ext at depth %d has keyOffset %d", depth, n.KeyOff)
		}
		if len(n.Key) == 0 {
			return fmt.Sprintf("ext at depth %d has an empty key", depth)
		}
		return stackOffsets(n.Children[0], depth+len(n.Key))
	case "branch":
		if n.KeyOff != depth {
			return fmt.Sprintf("branch at depth %d has keyOffset %d", depth, n.KeyOff)
		}
		for _, c := range n.Children {
			if s := stackOffsets(c, depth+1); s != "" {
				return s
			}
		}
	default:
		return "invalid node type"
	}
	return ""
}

func stackUpdateNoPanic(st *trie.StackTrie, k, v []byte) (panicked bool, msg string) {
	defer func() {
		if r := recover(); r != nil {
			panicked = true
			msg = fmt.Sprint(r)
		}
	}()
	st.TryUpdate(k, v)
	return false, ""
}

// ascending (bytes.Compare) and no key is a prefix of its successor (for a sorted list that is
// prefix-freeness of the whole list)
func divergesUp(keys [][]byte) bool {
	for i := 0; i+1 < len(keys); i++ {
		a, b := keys[i], keys[i+1]
		if bytes.Compare(a, b) >= 0 || bytes.HasPrefix(b, a) {
			return false
		}
	}
	return true
}

func runStackCase(rep *hlib.Report, cw *hlib.CaseWriter, c *Case) {
	defer func() {
		if r := recover(); r != nil {
			fail(rep, "panic/stacktrie-case", fmt.Sprintf("panic outside TryUpdate with %d keys: %v", len(c.Keys), r), c)
		}
	}()
	st := trie.NewStackTrie(nil)
	full, _ := trie.New(common.Hash{}, trie.NewDatabase(memorydb.New(logger)))
	var ops []string
	valid := divergesUp(c.Keys)
	for _, v := range c.Vals {
		if len(v) == 0 {
			valid = false
		}
	}
	panicked := false
	dumpAll := len(c.Keys) <= 8
	for i, k := range c.Keys {
		v := c.Vals[i]
		// odd cases: one key buffer rewritten in place for every insertion (what DeriveSha does with
		// indexBuf); even cases: a private copy scrambled after the call
		var kk []byte
		if c.ID%2 == 1 && len(k) <= len(keyArena) {
			copy(keyArena[:], k)
			kk = keyArena[:len(k)]
		} else {
			kk = cp(k)
		}
		vv := cp(v)
		p, msg := stackUpdateNoPanic(st, kk, vv)
		if !bytes.Equal(kk, k) || !bytes.Equal(vv, v) {
			fail(rep, "caller-buffer/stacktrie-update-wrote-into-argument", fmt.Sprintf("StackTrie.TryUpdate(%x, %x) changed its arguments to (%x, %x)", k, v, kk, vv), c)
		}
		if c.ID%2 == 0 { // the key buffer belongs to the caller again
			for j := range kk {
				kk[j] ^= 0xa5
			}
		}
		ops = append(ops, fmt.Sprintf("RSUpd %s %s %v", pack(k), pack(v), p))
		if p {
			panicked = true
			rep.Count("stack-panic:" + abbrevPanic(msg))
			if valid {
				fail(rep, "stacktrie/panic-on-ascending-list", fmt.Sprintf("StackTrie.TryUpdate panicked (%s) at item %d of an ascending prefix-free list of %d keys", msg, i, len(c.Keys)), c)
			}
			break
		}
		full.Update(k, v)
		if dumpAll || i%7 == 3 || i == len(c.Keys)-1 {
			d := trie.VerifStackDump(st)
			if s := stackOffsets(d, 0); s != "" {
				fail(rep, "stacktrie/key-offset", fmt.Sprintf("after item %d of %d: %s", i, len(c.Keys), s), c)
			}
			var sb strings.Builder
			sb.WriteString("RSShape (")
			coqStack(d, &sb)
			sb.WriteString(")")
			ops = append(ops, sb.String())
		}
	}
	if !panicked {
		d, err := trie.VerifDump(full)
		if err != nil {
			fail(rep, "dump/stack-reference-trie", err.Error(), c)
		} else {
			var sb strings.Builder
			sb.WriteString("RSTrie (")
			coqNode(d, &sb)
			sb.WriteString(")")
			ops = append(ops, sb.String())
		}
		hs, hf := st.Hash(), full.Hash()
		if hs != hf {
			sig := "ascending"
			if !valid {
				sig = "accepted-unordered"
			}
			fail(rep, "stacktrie/list-root/"+sig, fmt.Sprintf("%d keys (%s): StackTrie %x, Trie %x", len(c.Keys), c.Gen, hs, hf), c)
		}
	}
	rep.Evaluations++
	rep.TracesValidated++
	rep.Count("stack:" + c.Gen)
	rep.Count("stack-size:" + bucket(len(c.Keys)))
	if len(c.Keys) >= 2 {
		rep.Nontrivial(fmt.Sprintf("stack/%d", c.ID))
	}
	cw.Add(fmt.Sprintf("(%d%%N, BStack [%s])", c.ID, strings.Join(ops, ";")), c)
}

func abbrevPanic(msg string) string {
	switch {
	case strings.Contains(msg, "insert into hash"):
		return "insert-into-hash"
	case strings.Contains(msg, "existing key"):
		return "existing-key"
	case strings.Contains(msg, "deletion"):
		return "deletion"
	case strings.Contains(msg, "index out of range"):
		return "index-out-of-range"
	}
	return "other"
}

// ---------- generators ----------

func sortDedup(keys [][]byte) [][]byte {
	set := map[string]bool{}
	for _, k := range keys {
		set[string(k)] = true
	}
	ks := make([]string, 0, len(set))
	for k := range set {
		ks = append(ks, k)
	}
	sort.Strings(ks)
	out := make([][]byte, 0, len(ks))
	for _, k := range ks {
		out = append(out, []byte(k))
	}
	return out
}

// drop every key that is a prefix of its successor (sorted input): the rest is prefix-free
func prefixFree(keys [][]byte) [][]byte {
	var out [][]byte
	for i, k := range keys {
		if i+1 < len(keys) && bytes.HasPrefix(keys[i+1], k) {
			continue
		}
		out = append(out, k)
	}
	return out
}

func genStackCase(r *hlib.Rng, id int) *Case {
	c := &Case{ID: id, Kind: "stack"}
	var keys [][]byte
	switch r.Pick(30, 25, 20, 25) {
	case 0: // equal length, shared prefixes
		c.Gen = "asc-equal-length"
		keys = genSortedCase(r, id).Keys
		if len(keys) > 30 {
			keys = keys[:30]
		}
		if len(keys) > 12 && len(keys[0]) >= 20 {
			keys = keys[:12]
		}
	case 1: // variable length over a small alphabet, prefix-free
		c.Gen = "asc-variable-length"
		n := 1 + r.Intn(30)
		alpha := []byte{0x00, 0x01, 0x0f, 0x10, 0x11, 0x7f, 0x80, 0xf0, 0xff}
		for i := 0; i < n; i++ {
			l := 1 + r.Intn(4)
			k := make([]byte, l)
			for j := range k {
				k[j] = alpha[r.Intn(len(alpha))]
			}
			keys = append(keys, k)
		}
		keys = prefixFree(sortDedup(keys))
	case 2: // the keys DeriveSha feeds for a list of n items
		c.Gen = "derive-keys"
		n := []int{0, 1, 2, 3, 17, 126, 127, 128, 129, 130, 255, 256, 257, 300}[r.Intn(14)]
		if r.Chance(40) {
			n = r.Intn(40)
		}
		rec := &recHasher{}
		items := make([][]byte, n)
		for i := range items {
			items[i] = []byte{1}
		}
		types.DeriveSha(blobList(items), rec)
		keys = rec.keys
	default: // a list the StackTrie must not be fed: the model has to predict what happens
		c.Gen = "adversarial"
		base := genSortedCase(r, id).Keys
		if len(base) > 16 {
			base = base[:16]
		}
		keys = base
		if len(keys) >= 2 {
			i := r.Intn(len(keys) - 1)
			switch r.Intn(6) {
			case 0:
				c.Gen += "/swap-adjacent"
				keys[i], keys[i+1] = keys[i+1], keys[i]
			case 1:
				c.Gen += "/repeat"
				keys = append(keys[:i+1], append([][]byte{cp(keys[i])}, keys[i+1:]...)...)
			case 2:
				c.Gen += "/extension-of-previous"
				keys = append(keys[:i+1], append([][]byte{append(cp(keys[i]), byte(r.Intn(256)))}, keys[i+1:]...)...)
			case 3:
				c.Gen += "/prefix-of-previous"
				keys = append(keys[:i+1], append([][]byte{cp(keys[i][:len(keys[i])-1])}, keys[i+1:]...)...)
			case 4:
				c.Gen += "/return-to-earlier"
				keys = append(keys, cp(keys[i]))
				j := len(keys) - 1
				keys[j][len(keys[j])-1] ^= byte(1 + r.Intn(255))
			default:
				c.Gen += "/reversed"
				for a, b := 0, len(keys)-1; a < b; a, b = a+1, b-1 {
					keys[a], keys[b] = keys[b], keys[a]
				}
			}
		}
	}
	c.Keys = keys
	for range keys {
		c.Vals = append(c.Vals, genVal(r))
	}
	if strings.HasPrefix(c.Gen, "adversarial") && len(c.Vals) > 0 && r.Chance(12) {
		c.Gen += "+empty-value"
		c.Vals[r.Intn(len(c.Vals))] = nil
	}
	return c
}

func stackCorpus(id *int) []*Case {
	mk := func(gen string, kvs ...string) *Case {
		c := &Case{ID: *id, Kind: "stack", Gen: "corpus:" + gen}
		*id++
		for i := 0; i+1 < len(kvs); i += 2 {
			c.Keys = append(c.Keys, []byte(kvs[i]))
			c.Vals = append(c.Vals, []byte(kvs[i+1]))
		}
		return c
	}
	long := strings.Repeat("v", 40)
	return []*Case{
		mk("empty"),
		mk("single", "\x12", "a"),
		mk("leaf-split-first-nibble", "\x12", "a", "\x22", "b"),
		mk("leaf-split-second-nibble", "\x12", "a", "\x13", "b"),
		mk("leaf-split-long-prefix", "\x12\x34\x56", long, "\x12\x34\x57", long),
		mk("ext-split-first", "\x12\x34", "a", "\x12\x35", "b", "\x22\x00", "c"),
		mk("ext-split-middle", "\x12\x34\x56", "a", "\x12\x34\x57", "b", "\x12\x44\x00", long),
		mk("ext-split-last", "\x12\x34", "a", "\x12\x35", "b", "\x13\x00", long),
		mk("branch-new-child", "\x10", "a", "\x20", long, "\x30", "c", "\xf0", long),
		mk("descend-same-child", "\x10\x00", long, "\x10\x01", long, "\x10\x02", long, "\x10\x10", long),
		mk("variable-length", "\x01", "a", "\x80", "b", "\x81\x80", long, "\x81\x81", "d", "\x82\x01\x00", long),
		// what the StackTrie must not be fed (the model predicts panic / no panic)
		mk("descending-pair-accepted", "\x01", "a", "\x00", "b"),
		mk("return-to-hashed", "\x10", "a", "\x20", "b", "\x11", "c"),
		mk("repeated-key", "\x01", "a", "\x01", "b"),
		mk("extension-of-key", "\x01", "a", "\x01\x00", "b"),
		mk("prefix-of-key", "\x01\x00", "a", "\x01", "b"),
		mk("empty-value", "\x01", "a", "\x02", ""),
		mk("empty-key-then-key", "", "a", "\x01", "b"),
	}
}

// C18 harness: drives the real Merkle Patricia trie of /repo (trie.Trie, trie.SecureTrie,
// trie.StackTrie, trie.Database, Prove/VerifyProof, types.DeriveSha).
//
// Correspondence (evaluated inside Coq against Model/C18.v): after each history the structural dump
// of the real trie (hook trie.VerifDump, hash nodes resolved through the database) must be the
// model's tree, observed Gets must be the model's, and the key sequence DeriveSha feeds to its
// hasher must be the model's derive_order.
//
// Monitors (model-independent): content == a plain Go map; Hash() == Hash() of fresh tries built
// from the final content (sorted / reversed / shuffled), also after Commit and reload from the
// database; the dumped tree is in canonical form; Prove/VerifyProof yields exactly the stored value
// or absence and no single-bit corruption of a proof node verifies to a different value;
// StackTrie == Trie on DeriveSha lists (lengths 0..300) and on sorted key sets.
//
// Persistence (copies): histories run on several handles - copies (SecureTrie.Copy, struct copy of
// Trie = what state.Database.CopyTrie / StateDB.Copy do) taken at random points, mostly of
// uncommitted in-memory tries; every operation addresses one handle. After every operation each
// OTHER handle must still have exactly the node tree it had (persistence/*), and at the end every
// handle must hold exactly what was written through it: content, root == fresh rebuild, canonical
// tree == the model's tree for that handle (Model/C18.v:mcrun), honest proofs (copy/*).
// Caller-owned key buffers are overwritten after each call (keys must not be retained) and
// arguments must come back unmodified (caller-buffer/*).
package main

import (
	"bytes"
	"fmt"
	"sort"
	"strings"

	"github.com/dominant-strategies/go-quai/common"
	"github.com/dominant-strategies/go-quai/core/types"
	"github.com/dominant-strategies/go-quai/crypto"
	"github.com/dominant-strategies/go-quai/ethdb"
	"github.com/dominant-strategies/go-quai/ethdb/memorydb"
	"github.com/dominant-strategies/go-quai/log"
	"github.com/dominant-strategies/go-quai/rlp"
	"github.com/dominant-strategies/go-quai/trie"

	"verifharness/hlib"
)

var logger *log.Logger

var emptyRoot = common.HexToHash("56e81f171bcc55a6ff8345e692c0f86e5b48e01b996cadc001622fb5e363b421")

// fail reports a monitor failure; at most 3 per signature (the report keeps 200 failures in all, a
// frequent known finding must not crowd out anything else)
var failCount = map[string]int{}

func fail(rep *hlib.Report, sig, what string, c any) {
	failCount[sig]++
	if failCount[sig] <= 3 {
		rep.Fail(sig, what, c)
	} else {
		rep.Count("suppressed-repeat:" + sig)
	}
}

// ---------- case description (replayable) ----------

type Op struct {
	K   string `json:"k"`             // upd del get hash commit dump copy
	Key []byte `json:"key,omitempty"` // raw key (hashed by the secure trie)
	Val []byte `json:"val,omitempty"`
	Var int    `json:"var,omitempty"` // commit variant
	H   int    `json:"h,omitempty"`   // handle the operation is applied to (0 = the original trie); for "copy": the handle that is copied, the copy becomes the next handle
}

type Case struct {
	ID     int    `json:"id"`
	Kind   string `json:"kind"` // trie | derive | sorted
	Gen    string `json:"gen,omitempty"`
	Secure bool   `json:"secure,omitempty"`
	// KeyBuf 1: every key argument of the history (update, delete, get, prove; all handles) is handed over
	// in ONE caller-owned buffer that is rewritten in place for the next call (binary.PutUint64(buf, i);
	// tr.Update(buf, v) in a loop); 0: a private copy per call that is scrambled after the call returned
	KeyBuf int `json:"keybuf,omitempty"`
	Ops    []Op   `json:"ops,omitempty"`
	// derive / sorted
	N    int      `json:"n,omitempty"`
	Vals [][]byte `json:"vals,omitempty"`
	Keys [][]byte `json:"keys,omitempty"`
	// range: Keys/Vals = the content of the trie, Qs = the VerifyRangeProof queries
	Qs []RangeQ `json:"qs,omitempty"`
	// db: a history over one trie.Database
	DB []DBOp `json:"db,omitempty"`
}

// ---------- a trie under test (plain or secure) ----------

type tut struct {
	secure bool
	disk   *memorydb.Database
	tdb    *trie.Database
	t      *trie.Trie
	st     *trie.SecureTrie
}

func newTut(secure bool) *tut {
	u := &tut{secure: secure, disk: memorydb.New(logger)}
	u.tdb = trie.NewDatabase(u.disk)
	u.open(common.Hash{})
	return u
}

func (u *tut) open(root common.Hash) {
	var err error
	if u.secure {
		u.st, err = trie.NewSecure(root, u.tdb)
	} else {
		u.t, err = trie.New(root, u.tdb)
	}
	if err != nil {
		panic(fmt.Sprintf("open %x: %v", root, err))
	}
}

// fork is what SecureTrie.Copy / state.Database.CopyTrie (every StateDB.Copy) does: a second handle
// on the very same in-memory nodes. A plain Trie is copied the way SecureTrie.Copy copies the Trie
// it embeds (struct copy).
func (u *tut) fork() *tut {
	c := *u
	if u.secure {
		c.st = u.st.Copy()
	} else {
		t := *u.t
		c.t = &t
	}
	return &c
}

// mkey is the key as stored in the trie proper (what the model sees).
func (u *tut) mkey(k []byte) []byte {
	if u.secure {
		return crypto.Keccak256(k)
	}
	return k
}
func (u *tut) update(k, v []byte) error {
	if u.secure {
		return u.st.TryUpdate(k, v)
	}
	return u.t.TryUpdate(k, v)
}
func (u *tut) del(k []byte) error {
	if u.secure {
		return u.st.TryDelete(k)
	}
	return u.t.TryDelete(k)
}
func (u *tut) get(k []byte) ([]byte, error) {
	if u.secure {
		return u.st.TryGet(k)
	}
	return u.t.TryGet(k)
}
func (u *tut) hash() common.Hash {
	if u.secure {
		return u.st.Hash()
	}
	return u.t.Hash()
}
func (u *tut) dump() (*trie.VerifNode, error) {
	if u.secure {
		return trie.VerifDumpSecure(u.st)
	}
	return trie.VerifDump(u.t)
}
func (u *tut) prove(mk []byte, w ethdb.KeyValueWriter) error {
	if u.secure {
		return u.st.Prove(mk, 0, w)
	}
	return u.t.Prove(mk, 0, w)
}

// commit variants: 0 = Commit into the trie.Database, keep using the same trie object;
// 1 = Commit, flush to disk, reopen from the same trie.Database;
// 2 = Commit, flush to disk, reopen through a brand-new trie.Database over the same disk.
func (u *tut) commit(variant int) (common.Hash, error) {
	var root common.Hash
	var err error
	if u.secure {
		root, err = u.st.Commit(nil)
	} else {
		root, err = u.t.Commit(nil)
	}
	if err != nil {
		return root, err
	}
	if variant >= 1 {
		if root != emptyRoot {
			if err := u.tdb.Commit(root, false, nil); err != nil {
				return root, err
			}
		}
		if variant == 2 {
			u.tdb = trie.NewDatabase(u.disk)
		}
		u.open(root)
	}
	return root, nil
}

// ---------- Coq printers ----------

// pack prints a byte string as a list of primitive 63-bit integers: length, then 7 bytes per
// word (big endian, zero padded); Model/C18.v:unpack is the inverse.
func pack(b []byte) string {
	if len(b) == 0 {
		return "[]"
	}
	var sb strings.Builder
	fmt.Fprintf(&sb, "[%d", len(b))
	for i := 0; i < len(b); i += 7 {
		var w uint64
		for j := 0; j < 7; j++ {
			w <<= 8
			if i+j < len(b) {
				w |= uint64(b[i+j])
			}
		}
		fmt.Fprintf(&sb, ";%d", w)
	}
	sb.WriteByte(']')
	return sb.String()
}

func coqNode(n *trie.VerifNode, sb *strings.Builder) {
	switch n.Kind {
	case "nil":
		sb.WriteString("DN")
	case "value":
		sb.WriteString("DV " + pack(n.Val))
	case "short":
		sb.WriteString("DS " + pack(n.Key) + " (")
		coqNode(n.Children[0], sb)
		sb.WriteString(")")
	case "full":
		sb.WriteString("DF [")
		for i, c := range n.Children {
			if i > 0 {
				sb.WriteString(";")
			}
			coqNode(c, sb)
		}
		sb.WriteString("]")
	default:
		panic("kind " + n.Kind)
	}
}

// ---------- canonical-form monitor on the dump (independent of the model) ----------

func canonical(n *trie.VerifNode, root bool, underShort bool) string {
	switch n.Kind {
	case "nil":
		if !root {
			return "nil-below-root" // only reported by callers for short children
		}
		return ""
	case "value":
		if len(n.Val) == 0 {
			return "empty-value"
		}
		return ""
	case "short":
		if len(n.Key) == 0 {
			return "empty-short-key"
		}
		if underShort {
			return "short-under-short"
		}
		c := n.Children[0]
		if c.Kind == "nil" {
			return "nil-under-short"
		}
		term := n.Key[len(n.Key)-1] == 16
		if term != (c.Kind == "value") {
			return "terminator-mismatch"
		}
		for _, x := range n.Key[:len(n.Key)-1] {
			if x > 15 {
				return "bad-nibble"
			}
		}
		return canonical(c, false, true)
	case "full":
		if len(n.Children) != 17 {
			return "full-arity"
		}
		occ := 0
		for i, c := range n.Children {
			if c.Kind == "nil" {
				continue
			}
			occ++
			if i == 16 && c.Kind != "value" {
				return "slot16-not-value"
			}
			if i < 16 && c.Kind == "value" {
				return "value-in-nibble-slot"
			}
			if s := canonical(c, false, false); s != "" {
				return s
			}
		}
		if occ < 2 {
			return "full-with-less-than-two-children"
		}
		return ""
	}
	return "unknown-kind"
}

// ---------- fresh rebuilds ----------

type kv struct{ k, v []byte }

func sortedContent(m map[string][]byte) []kv {
	ks := make([]string, 0, len(m))
	for k := range m {
		ks = append(ks, k)
	}
	sort.Strings(ks)
	out := make([]kv, len(ks))
	for i, k := range ks {
		out[i] = kv{[]byte(k), m[k]}
	}
	return out
}

func freshRoot(content []kv) common.Hash {
	t, _ := trie.New(common.Hash{}, trie.NewDatabase(memorydb.New(logger)))
	for _, e := range content {
		t.Update(e.k, e.v)
	}
	return t.Hash()
}

// ---------- proof monitor ----------

type proofList [][]byte

func (p *proofList) Put(key, value []byte) error {
	*p = append(*p, common.CopyBytes(value))
	return nil
}
func (p *proofList) Delete(key []byte) error { panic("not supported") }
func (p *proofList) Logger() *log.Logger    { return logger }

// a verifier's view of a transmitted proof: nodes addressed by their own keccak hash
func proofDB(nodes [][]byte) *memorydb.Database {
	db := memorydb.New(logger)
	for _, n := range nodes {
		db.Put(crypto.Keccak256(n), n)
	}
	return db
}

func checkProofs(rep *hlib.Report, c *Case, u *tut, content map[string][]byte, probes [][]byte, rng *hlib.Rng, allBits bool, corrupt bool, pfx string) {
	root := u.hash()
	for _, mk := range probes {
		want, present := content[string(mk)]
		cls := "absent"
		if present {
			cls = "present"
		}
		var pl proofList
		pk := keyArg(mk)
		err := u.prove(pk, &pl)
		if !bytes.Equal(pk, mk) {
			fail(rep, "caller-buffer/prove-wrote-into-argument", fmt.Sprintf("Prove(%x) left its argument as %x", mk, pk), c)
		}
		keyDone(pk)
		if err != nil {
			fail(rep, pfx+"proof/prove-error/"+cls, fmt.Sprintf("Prove(%x) failed: %v", mk, err), c)
			continue
		}
		got, err := trie.VerifyProof(root, mk, proofDB(pl))
		if err != nil {
			if len(content) == 0 && len(pl) == 0 {
				// F-C18-1: Prove on an empty trie emits no node and VerifyProof(emptyRoot, k, {}) errors
				fail(rep, "proof/empty-trie-absence-unprovable", fmt.Sprintf("empty trie: Prove(%x) returns an empty proof and VerifyProof rejects it (%v) instead of proving absence", mk, err), c)
				continue
			}
			fail(rep, pfx+"proof/verify-error/"+cls, fmt.Sprintf("VerifyProof(%x) of an honest proof failed: %v", mk, err), c)
			continue
		}
		if !bytes.Equal(got, want) {
			fail(rep, pfx+"proof/wrong-value/"+cls, fmt.Sprintf("VerifyProof(%x) = %x, trie holds %x", mk, got, want), c)
			continue
		}
		rep.Count("proof:" + cls)
		rep.CountN("proof:nodes", len(pl))
		// every proof node is needed: dropping one must fail (or prove the same thing)
		for i := range pl {
			rest := append(append(proofList{}, pl[:i]...), pl[i+1:]...)
			g2, err2 := trie.VerifyProof(root, mk, proofDB(rest))
			if err2 == nil && !bytes.Equal(g2, want) {
				fail(rep, "proof/dropped-node-different-value/"+cls, fmt.Sprintf("proof of %x without node %d verifies to %x instead of %x", mk, i, g2, want), c)
			}
		}
		// single-bit corruptions of each proof node
		for i := range pl {
			if !corrupt {
				break
			}
			nbits := len(pl[i]) * 8
			step := 1
			if !allBits && nbits > 256 {
				step = 1 + rng.Intn(7)
			}
			for b := rng.Intn(step); b < nbits; b += step {
				mut := make(proofList, len(pl))
				copy(mut, pl)
				x := common.CopyBytes(pl[i])
				x[b/8] ^= 1 << uint(b%8)
				mut[i] = x
				g2, err2 := verifyNoPanic(root, mk, proofDB(mut))
				rep.Count("proof:corruptions")
				if err2 == nil {
					if !bytes.Equal(g2, want) {
						fail(rep, "proof/corruption-different-value/"+cls,
							fmt.Sprintf("proof of %x with bit %d of node %d flipped verifies to %x instead of %x", mk, b, i, g2, want), c)
						break
					}
					rep.Count("proof:corruption-accepted-same-value")
				}
			}
		}
	}
}

func verifyNoPanic(root common.Hash, key []byte, db ethdb.KeyValueReader) (v []byte, err error) {
	defer func() {
		if r := recover(); r != nil {
			err = fmt.Errorf("panic: %v", r)
		}
	}()
	return trie.VerifyProof(root, key, db)
}

// ---------- running a trie history ----------

// one handle on a trie: the original (handle 0) or a copy taken at some point of the history.
// Copies share their in-memory nodes with the handle they were taken from; the property says the
// root and the proofs of each handle are a function of the pairs stored through THAT handle, so an
// operation applied to one handle must leave every other handle exactly as it was.
type handle struct {
	u         *tut
	content   map[string][]byte // model key -> value, maintained by the harness (pristine buffers)
	touched   map[string]bool   // raw keys ever used on this handle or its ancestors
	last      string            // structural dump after the last operation applied to this handle
	lastKinds int
	collapses int
}

func (h *handle) fork() *handle {
	n := &handle{u: h.u.fork(), content: map[string][]byte{}, touched: map[string]bool{}, last: h.last, lastKinds: h.lastKinds}
	for k, v := range h.content {
		n.content[k] = v
	}
	for k := range h.touched {
		n.touched[k] = true
	}
	return n
}

func dumpString(u *tut) (string, *trie.VerifNode, error) {
	d, err := u.dump()
	if err != nil {
		return "", nil, err
	}
	var sb strings.Builder
	coqNode(d, &sb)
	return sb.String(), d, nil
}

// scramble overwrites a buffer the caller owns again after a call returned: the trie must not have
// kept a reference to it (keys are never retained; values are, by the documented contract of Update).
func scramble(b []byte) {
	for i := range b {
		b[i] = ^b[i] ^ 0x5a
	}
}

// How key arguments reach the code under test.  A key buffer belongs to the caller before and after
// each call: the callee must neither keep the slice (its bytes change afterwards) nor compare a later
// key with a slice it kept.  Two disciplines cover both ways a retained slice can show:
// private copy scrambled after the call (a retained key turns into garbage), and one buffer reused
// in place for every call (a retained slice silently becomes the NEXT key).
var keyReuse bool
var keyArena [512]byte

func keyArg(k []byte) []byte {
	if keyReuse && len(k) <= len(keyArena) {
		copy(keyArena[:], k)
		return keyArena[:len(k)]
	}
	return cp(k)
}

func keyDone(kk []byte) {
	if !keyReuse {
		scramble(kk)
	}
}

func runTrieCase(rep *hlib.Report, cw *hlib.CaseWriter, c *Case, rng *hlib.Rng, tier string) {
	defer func() {
		if r := recover(); r != nil {
			fail(rep, "panic/trie-history", fmt.Sprintf("panic while running a history: %v", r), c)
		}
	}()
	keyReuse = c.KeyBuf == 1
	defer func() { keyReuse = false }()
	if keyReuse {
		rep.Count("key-buffer:reused-in-place")
	}
	hs := []*handle{{u: newTut(c.Secure), content: map[string][]byte{}, touched: map[string]bool{}, last: "DN"}}
	multi := false
	for _, o := range c.Ops {
		if o.K == "copy" {
			multi = true
		}
	}
	var cops []string
	emit := func(h int, s string) {
		if multi {
			s = fmt.Sprintf("RM %d%%nat (%s)", h, s)
		}
		cops = append(cops, s)
	}
	nontriv := false
	hname := func(h int) string {
		if h == 0 {
			return "original"
		}
		return "copy"
	}
	// signature prefix: failures seen through a copy are a class of their own
	pfx := func(h int) string {
		if h == 0 {
			return ""
		}
		return "copy/"
	}

	checkHash := func(hi int, phase string) {
		h := hs[hi]
		got := h.u.hash()
		sc := sortedContent(h.content)
		if f := freshRoot(sc); f != got {
			fail(rep, pfx(hi)+"history-independence/"+phase, fmt.Sprintf("Hash() %x of handle %d (%s) after the history differs from %x of a fresh trie with the same %d pairs (sorted insertion)", got, hi, hname(hi), f, len(sc)), c)
			return
		}
		rev := make([]kv, len(sc))
		for i := range sc {
			rev[len(sc)-1-i] = sc[i]
		}
		if f := freshRoot(rev); f != got {
			fail(rep, pfx(hi)+"history-independence/"+phase, fmt.Sprintf("fresh tries with the same content disagree: reversed insertion gives %x, history gives %x", f, got), c)
		}
	}
	checkContent := func(hi int, phase string) {
		h := hs[hi]
		for _, k := range hlib.SortedKeys(h.touched) {
			raw := []byte(k)
			want := h.content[string(h.u.mkey(raw))]
			got, err := h.u.get(raw)
			if err != nil || !bytes.Equal(got, want) {
				fail(rep, pfx(hi)+"content/"+phase, fmt.Sprintf("handle %d (%s): Get(%x) = %x (err %v), last write through this handle was %x", hi, hname(hi), []byte(k), got, err, want), c)
				return
			}
		}
	}
	// refresh recomputes the structural view of a handle after an operation on it
	refresh := func(hi int) (string, bool) {
		h := hs[hi]
		s, d, err := dumpString(h.u)
		if err != nil {
			fail(rep, "dump/live", fmt.Sprintf("trie (handle %d) cannot be traversed: %v", hi, err), c)
			return "", false
		}
		_ = d
		h.last = s
		return s, true
	}
	addDump := func(hi int, phase string) {
		h := hs[hi]
		s, d, err := dumpString(h.u)
		if err != nil {
			fail(rep, "dump/"+phase, fmt.Sprintf("trie (handle %d) cannot be traversed: %v", hi, err), c)
			return
		}
		if e := canonical(d, true, false); e != "" {
			fail(rep, pfx(hi)+"canonical/"+e, fmt.Sprintf("the node tree of handle %d is not in canonical form (%s) %s", hi, e, phase), c)
		}
		emit(hi, "RDump ("+s+")")
		kinds := strings.Count(s, "DF") + strings.Count(s, "DS")
		if kinds < h.lastKinds {
			h.collapses++
		}
		h.lastKinds = kinds
	}
	// persistence: after an operation on handle `on`, every OTHER handle still has exactly the
	// node tree it had (the dump resolves nothing new for in-memory nodes, and reads key bytes
	// and values of every node, so in-place writes into shared nodes show).
	interval := 1
	if len(c.Ops) > 150 {
		interval = 4
	}
	since := map[int]bool{}
	pass := func(after string) {
		for gi, g := range hs {
			if since[gi] {
				refresh(gi)
				continue
			}
			s, _, err := dumpString(g.u)
			if err != nil {
				fail(rep, "persistence/untouched-handle-unreadable/"+after, fmt.Sprintf("handle %d (%s) cannot be traversed any more after a %s on another handle: %v", gi, hname(gi), after, err), c)
				continue
			}
			if s != g.last {
				fail(rep, "persistence/untouched-handle-changed/"+after, fmt.Sprintf("the node tree of handle %d (%s), to which no operation was applied, changed after a %s on another handle: was %s, is %s", gi, hname(gi), after, abbrev(g.last), abbrev(s)), c)
				g.last = s
			}
		}
		since = map[int]bool{}
	}
	mutated := func(hi int, kind string, i int) {
		since[hi] = true
		if len(hs) == 1 {
			return
		}
		if interval == 1 {
			pass(kind)
		} else if i%interval == 0 {
			pass("batch")
		}
	}

	observed := func(kind string) {
		if len(hs) > 1 && interval == 1 {
			pass(kind)
		}
	}

	for i, o := range c.Ops {
		rep.Count("op:" + o.K)
		if o.H < 0 || o.H >= len(hs) {
			continue // malformed replay file
		}
		h := hs[o.H]
		u := h.u
		if o.H > 0 {
			rep.Count("op-on-copy:" + o.K)
		}
		switch o.K {
		case "upd":
			kk, vv := keyArg(o.Key), cp(o.Val)
			err := u.update(kk, vv)
			if err != nil {
				fail(rep, "error/update", fmt.Sprintf("TryUpdate failed: %v", err), c)
				return
			}
			if !bytes.Equal(kk, o.Key) || !bytes.Equal(vv, o.Val) {
				fail(rep, "caller-buffer/update-wrote-into-argument", fmt.Sprintf("TryUpdate(%x, %x) left its arguments as (%x, %x)", o.Key, o.Val, kk, vv), c)
			}
			keyDone(kk) // the key buffer is the caller's again; vv stays with the trie (documented)
			mk := u.mkey(o.Key)
			h.touched[string(o.Key)] = true
			if len(o.Val) == 0 {
				if _, ok := h.content[string(mk)]; ok {
					nontriv = true
				}
				delete(h.content, string(mk))
			} else {
				h.content[string(mk)] = o.Val
			}
			emit(o.H, fmt.Sprintf("RUpd %s %s", pack(mk), pack(o.Val)))
			mutated(o.H, "update", i)
		case "del":
			kk := keyArg(o.Key)
			err := u.del(kk)
			if err != nil {
				fail(rep, "error/delete", fmt.Sprintf("TryDelete failed: %v", err), c)
				return
			}
			if !bytes.Equal(kk, o.Key) {
				fail(rep, "caller-buffer/delete-wrote-into-argument", fmt.Sprintf("TryDelete(%x) left its argument as %x", o.Key, kk), c)
			}
			keyDone(kk)
			mk := u.mkey(o.Key)
			h.touched[string(o.Key)] = true
			if _, ok := h.content[string(mk)]; ok {
				nontriv = true
			}
			delete(h.content, string(mk))
			emit(o.H, "RDel "+pack(mk))
			mutated(o.H, "delete", i)
		case "get":
			kk := keyArg(o.Key)
			v, err := u.get(kk)
			if err != nil {
				fail(rep, "error/get", fmt.Sprintf("TryGet failed: %v", err), c)
				return
			}
			if !bytes.Equal(kk, o.Key) {
				fail(rep, "caller-buffer/get-wrote-into-argument", fmt.Sprintf("TryGet(%x) left its argument as %x", o.Key, kk), c)
			}
			keyDone(kk)
			mk := u.mkey(o.Key)
			if !bytes.Equal(v, h.content[string(mk)]) {
				fail(rep, pfx(o.H)+"content/get", fmt.Sprintf("handle %d: Get(%x) = %x, last write was %x", o.H, o.Key, v, h.content[string(mk)]), c)
			}
			emit(o.H, fmt.Sprintf("RGet %s %s", pack(mk), pack(v)))
			observed("get") // a read may load nodes into its own handle; no node tree changes, its own included
		case "hash":
			checkHash(o.H, "live")
			observed("hash") // Hash() caches hashes in its own handle; no node tree changes
		case "dump":
			addDump(o.H, "mid-history")
		case "copy":
			if len(hs) >= 8 {
				continue
			}
			if since[o.H] { // batched passes: bring the source's reference view up to date first
				refresh(o.H)
				since[o.H] = false
			}
			n := h.fork()
			hs = append(hs, n)
			cops = append(cops, fmt.Sprintf("RCp %d%%nat", o.H))
			// the copy is the source: same node tree
			if s, _, err := dumpString(n.u); err != nil || s != h.last {
				fail(rep, "persistence/copy-differs-from-source", fmt.Sprintf("a fresh copy of handle %d has node tree %s, the source has %s (err %v)", o.H, abbrev(s), abbrev(h.last), err), c)
				n.last = s
			}
			nontriv = true
		case "commit":
			before := u.hash()
			root, err := u.commit(o.Var)
			if err != nil {
				fail(rep, "error/commit", fmt.Sprintf("Commit failed: %v", err), c)
				return
			}
			if root != before {
				fail(rep, "commit/root-changed", fmt.Sprintf("Commit returned %x, Hash() before was %x", root, before), c)
			}
			if g := u.hash(); g != root {
				fail(rep, "commit/reload-root", fmt.Sprintf("Hash() after commit/reload (variant %d) is %x, committed root %x", o.Var, g, root), c)
			}
			phase := fmt.Sprintf("after-commit-%d", o.Var)
			checkHash(o.H, phase)
			checkContent(o.H, phase)
			emit(o.H, "RCommit")
			addDump(o.H, phase)
			nontriv = true
			mutated(o.H, "commit", i)
		}
	}
	if len(hs) > 1 {
		pass("history")
	}
	// every handle, the original and each copy, holds exactly what was written through it:
	// root == root of a fresh trie with that content, Get, canonical node tree (and the model's)
	for hi := range hs {
		checkHash(hi, "final")
		checkContent(hi, "final")
		addDump(hi, "final")
	}
	// ... and none of those read-only checks (Hash caches hashes in the handle it is called on)
	// disturbed another handle
	if len(hs) > 1 {
		for hi := range hs {
			since[hi] = false
		}
		for gi, g := range hs {
			if s, _, err := dumpString(g.u); err != nil || s != g.last {
				fail(rep, "persistence/untouched-handle-changed/final-checks", fmt.Sprintf("the node tree of handle %d changed while the handles were only hashed and read: was %s, is %s (err %v)", gi, abbrev(g.last), abbrev(s), err), c)
			}
		}
		for hi := range hs {
			checkContent(hi, "final-recheck")
		}
	}

	// proofs: a few present keys, a few absent ones (touched-and-deleted, and near misses); for the
	// original with every single-bit corruption, for each copy the honest proofs
	for hi, h := range hs {
		var probes [][]byte
		sc := sortedContent(h.content)
		np := 2
		if tier == "thorough" {
			np = 4
		}
		for i := 0; i < np && len(sc) > 0; i++ {
			probes = append(probes, sc[rng.Intn(len(sc))].k)
		}
		for _, k := range hlib.SortedKeys(h.touched) {
			mk := h.u.mkey([]byte(k))
			if _, ok := h.content[string(mk)]; !ok {
				probes = append(probes, mk)
				break
			}
		}
		if len(sc) == 0 && len(probes) == 0 {
			probes = append(probes, []byte{1})
		}
		if len(sc) > 0 {
			near := common.CopyBytes(sc[rng.Intn(len(sc))].k)
			if len(near) > 0 {
				near[len(near)-1] ^= 1 << uint(rng.Intn(8))
				probes = append(probes, near)
			}
		}
		sort.Slice(probes, func(i, j int) bool { return bytes.Compare(probes[i], probes[j]) < 0 })
		checkProofs(rep, c, h.u, h.content, probes, rng, len(sc) <= 6, hi == 0, pfx(hi))
	}

	rep.Evaluations++
	rep.TracesValidated++
	rep.Count("gen:" + c.Gen)
	rep.Count(fmt.Sprintf("final-size:%s", bucket(len(hs[0].content))))
	rep.Count(fmt.Sprintf("handles:%d", len(hs)))
	shrunk := false
	for _, h := range hs {
		if h.collapses > 0 {
			shrunk = true
		}
	}
	if shrunk {
		rep.Count("histories-with-shrinking-tree")
	}
	if nontriv && (len(hs[0].content) > 0 || len(hs) > 1) {
		rep.Nontrivial(fmt.Sprintf("trie/%d", c.ID))
	}
	if multi {
		cw.Add(fmt.Sprintf("(%d%%N, BMulti %s)", c.ID, hlib.CoqList(cops)), c)
	} else {
		cw.Add(fmt.Sprintf("(%d%%N, BTrie %s)", c.ID, hlib.CoqList(cops)), c)
	}
	rep.Sample(c)
}

func abbrev(s string) string {
	if len(s) > 400 {
		return s[:400] + "..."
	}
	return s
}

func bucket(n int) string {
	switch {
	case n == 0:
		return "0"
	case n <= 2:
		return "1-2"
	case n <= 8:
		return "3-8"
	case n <= 32:
		return "9-32"
	}
	return "33+"
}

// ---------- DeriveSha: StackTrie vs Trie, and the insertion order ----------

type blobList [][]byte

func (l blobList) Len() int                           { return len(l) }
func (l blobList) EncodeIndex(i int, w *bytes.Buffer) { w.Write(l[i]) }

type recHasher struct {
	keys [][]byte
	vals [][]byte
}

func (r *recHasher) Reset()               { r.keys, r.vals = nil, nil }
func (r *recHasher) Update(k, v []byte)   { r.keys = append(r.keys, common.CopyBytes(k)); r.vals = append(r.vals, common.CopyBytes(v)) }
func (r *recHasher) Hash() common.Hash    { return common.Hash{} }

func runDeriveCase(rep *hlib.Report, cw *hlib.CaseWriter, c *Case) {
	defer func() {
		if r := recover(); r != nil {
			fail(rep, "panic/derive-sha", fmt.Sprintf("panic in DeriveSha with %d items: %v", c.N, r), c)
		}
	}()
	list := blobList(c.Vals)
	sig := "n<=127"
	if c.N > 128 {
		sig = "n>128"
	} else if c.N == 128 {
		sig = "n=128"
	}
	hStack := types.DeriveSha(list, trie.NewStackTrie(nil))
	full, _ := trie.New(common.Hash{}, trie.NewDatabase(memorydb.New(logger)))
	hTrie := types.DeriveSha(list, full)
	if hStack != hTrie {
		fail(rep, "stacktrie/derive-sha/"+sig, fmt.Sprintf("DeriveSha over %d items: StackTrie %x, Trie %x", c.N, hStack, hTrie), c)
	}
	// reference: rlp(i) -> item, inserted in plain index order into a fresh trie
	ref, _ := trie.New(common.Hash{}, trie.NewDatabase(memorydb.New(logger)))
	for i := 0; i < c.N; i++ {
		ref.Update(rlp.AppendUint64(nil, uint64(i)), c.Vals[i])
	}
	if h := ref.Hash(); h != hStack {
		fail(rep, "stacktrie/derive-sha-vs-index-map/"+sig, fmt.Sprintf("DeriveSha over %d items gives %x, the trie of {rlp(i): item i} has root %x", c.N, hStack, h), c)
	}
	// the order in which DeriveSha feeds the hasher; every item exactly once, ascending keys
	rec := &recHasher{}
	types.DeriveSha(list, rec)
	seen := map[string]bool{}
	for i, k := range rec.keys {
		if i > 0 && bytes.Compare(rec.keys[i-1], k) >= 0 {
			fail(rep, "derive-sha/order-not-ascending/"+sig, fmt.Sprintf("DeriveSha over %d items feeds key %x after %x", c.N, k, rec.keys[i-1]), c)
			break
		}
		seen[string(k)] = true
	}
	if len(rec.keys) != c.N || len(seen) != c.N {
		fail(rep, "derive-sha/items-missing/"+sig, fmt.Sprintf("DeriveSha over %d items fed %d keys (%d distinct)", c.N, len(rec.keys), len(seen)), c)
	}
	var framed []byte
	for _, k := range rec.keys {
		framed = append(framed, byte(len(k)))
		framed = append(framed, k...)
	}
	c.Keys = rec.keys
	rep.Evaluations++
	rep.TracesValidated++
	rep.Count("derive:" + sig)
	if c.N >= 2 {
		rep.Nontrivial(fmt.Sprintf("derive/%d/%x", c.N, hStack[:4]))
	}
	// the model's derive_order is compared on the boundary lengths and a sample of the others
	if c.N <= 3 || (c.N >= 126 && c.N <= 131) || (c.N >= 254 && c.N <= 258) || c.N%20 == 0 || c.N > 300 {
		cw.Add(fmt.Sprintf("(%d%%N, BOrder %d%%N %s)", c.ID, c.N, pack(framed)), c)
	}
}

// StackTrie vs Trie on an ascending set of equal-length keys
func runSortedCase(rep *hlib.Report, c *Case) {
	defer func() {
		if r := recover(); r != nil {
			fail(rep, "panic/stacktrie", fmt.Sprintf("panic in StackTrie with %d keys: %v", len(c.Keys), r), c)
		}
	}()
	st := trie.NewStackTrie(nil)
	full, _ := trie.New(common.Hash{}, trie.NewDatabase(memorydb.New(logger)))
	for i, k := range c.Keys {
		st.Update(k, c.Vals[i])
	}
	for i := len(c.Keys) - 1; i >= 0; i-- {
		full.Update(c.Keys[i], c.Vals[i])
	}
	if a, b := st.Hash(), full.Hash(); a != b {
		fail(rep, "stacktrie/sorted-set", fmt.Sprintf("%d ascending keys of %d bytes: StackTrie %x, Trie %x", len(c.Keys), len(c.Keys[0]), a, b), c)
	}
	rep.Evaluations++
	rep.Count("sorted-set:" + bucket(len(c.Keys)))
	if len(c.Keys) >= 2 {
		rep.Nontrivial(fmt.Sprintf("sorted/%d", c.ID))
	}
}

// ---------- generators ----------

var tiny = []byte{0x00, 0x01, 0x10, 0x11, 0xff}

func cp(b []byte) []byte { return append([]byte{}, b...) }

// a universe of candidate keys; histories draw from it so that updates and deletes hit
func genUniverse(r *hlib.Rng, gen string) [][]byte {
	var u [][]byte
	add := func(k []byte) { u = append(u, k) }
	switch gen {
	case "tiny": // 0-3 byte keys over a tiny alphabet: prefixes of each other, forced collapses
		n := 3 + r.Intn(14)
		for i := 0; i < n; i++ {
			k := make([]byte, r.Intn(4))
			for j := range k {
				k[j] = tiny[r.Intn(len(tiny))]
			}
			add(k)
		}
	case "prefix-chain": // k, k+x, k+x+y ...
		base := r.Bytes(r.Intn(3))
		n := 3 + r.Intn(8)
		for i := 0; i < n; i++ {
			add(cp(base))
			if r.Chance(70) {
				base = append(cp(base), tiny[r.Intn(len(tiny))])
			} else {
				base = append(cp(base[:len(base)/2]), byte(r.Intn(256)))
			}
		}
	case "shared-prefix": // long common prefix, short differing tail (nibble-level divergence)
		p := r.Bytes(1 + r.Intn(30))
		n := 3 + r.Intn(20)
		for i := 0; i < n; i++ {
			t := r.Bytes(1 + r.Intn(2))
			if r.Chance(50) {
				t[0] &= 0x0f // diverge in the second nibble only
			}
			add(append(cp(p), t...))
		}
	case "hash32": // 32-byte keys with crafted nibble prefixes
		n := 3 + r.Intn(25)
		base := r.Bytes(32)
		for i := 0; i < n; i++ {
			k := r.Bytes(32)
			switch r.Intn(4) {
			case 0: // differ from base only in the last nibble(s)
				k = cp(base)
				k[31] = byte(r.Intn(256))
			case 1: // share a random-length nibble prefix with base
				m := r.Intn(32)
				copy(k[:m], base[:m])
				k[m] = base[m]&0xf0 | k[m]&0x0f
			}
			add(k)
		}
	case "random":
		n := 2 + r.Intn(40)
		l := 1 + r.Intn(6)
		for i := 0; i < n; i++ {
			add(r.Bytes(l))
		}
	case "secure": // raw keys of a secure trie (hashed to 32 bytes by the trie)
		n := 2 + r.Intn(30)
		for i := 0; i < n; i++ {
			add(r.Bytes(1 + r.Intn(20)))
		}
	}
	return u
}

func genVal(r *hlib.Rng) []byte {
	switch r.Pick(5, 3, 3, 1) {
	case 0:
		return r.Bytes(1 + r.Intn(3)) // nodes small enough to be embedded in their parent
	case 1:
		return r.Bytes(24 + r.Intn(10)) // around the 32-byte embedding threshold
	case 2:
		return r.Bytes(33 + r.Intn(8))
	default:
		return []byte{byte(r.Intn(0x80))} // single byte < 0x80: RLP encodes as itself
	}
}

func genTrieCase(r *hlib.Rng, id int) *Case {
	gens := []string{"tiny", "prefix-chain", "shared-prefix", "hash32", "random", "secure"}
	gen := gens[r.Pick(30, 12, 18, 15, 10, 15)]
	c := &Case{ID: id, Kind: "trie", Gen: gen, Secure: gen == "secure", KeyBuf: id % 2}
	uni := genUniverse(r, gen)
	n := 1 + r.Intn(40)
	if r.Chance(10) {
		n = 60 + r.Intn(140)
	}
	// bulk: >= 100 updates before the first Hash (the hasher goes parallel at 100 unhashed
	// updates, trie.go:hashRoot) over a larger universe, then the usual churn
	bulk := 0
	if r.Chance(8) {
		for len(uni) < 60 {
			uni = append(uni, genUniverse(r, gen)...)
		}
		bulk = 100 + r.Intn(60)
		n += bulk
		c.Gen += "+bulk"
	}
	// several handles: copies (SecureTrie.Copy / struct copy) taken at random points, mostly of
	// tries with uncommitted in-memory nodes; every later operation picks one of the handles
	multi := r.Chance(55)
	maxHandles := 4
	lives := []map[string]bool{{}}
	if multi {
		c.Gen += "+copies"
	}
	pick := func() []byte { return cp(uni[r.Intn(len(uni))]) }
	pickLive := func(live map[string]bool) []byte {
		if len(live) == 0 {
			return pick()
		}
		ks := make([]string, 0, len(live))
		for k := range live {
			ks = append(ks, k)
		}
		sort.Strings(ks)
		return []byte(ks[r.Intn(len(ks))])
	}
	// build phase then churn phase, so that deletes meet populated tries
	burst := 0 // operations right after a copy: structural changes on either side of it
	var burstPair [2]int
	for i := 0; i < n; i++ {
		w := []int{40, 12, 4, 22, 5, 8, 4, 5, 1, 0}
		if i < n/3 {
			w = []int{70, 8, 2, 6, 2, 6, 2, 3, 0, 0}
		}
		if i < bulk {
			w = []int{80, 8, 2, 8, 2, 0, 0, 0, 0, 0}
		}
		if multi && len(lives) < maxHandles && i >= 2 {
			w[9] = 7
			if i < bulk {
				w[9] = 1
			}
		}
		inBurst := burst > 0
		if inBurst {
			burst--
			w = []int{30, 4, 0, 50, 4, 4, 4, 4, 0, 0}
		}
		h := 0
		if len(lives) > 1 {
			h = r.Intn(len(lives))
			if inBurst && r.Chance(80) { // the source of the last copy, or that copy
				h = burstPair[r.Intn(2)]
			}
		}
		live := lives[h]
		switch r.Pick(w...) {
		case 0: // insert / overwrite
			k := pick()
			c.Ops = append(c.Ops, Op{K: "upd", Key: k, Val: genVal(r), H: h})
			live[string(k)] = true
		case 1: // overwrite a live key
			k := pickLive(live)
			c.Ops = append(c.Ops, Op{K: "upd", Key: k, Val: genVal(r), H: h})
			live[string(k)] = true
		case 2: // rewrite (possibly) the same value: value chosen from a tiny set
			k := pickLive(live)
			c.Ops = append(c.Ops, Op{K: "upd", Key: k, Val: []byte{7}, H: h})
			live[string(k)] = true
		case 3: // delete a live key, through either API
			k := pickLive(live)
			if r.Bool() {
				c.Ops = append(c.Ops, Op{K: "del", Key: k, H: h})
			} else {
				c.Ops = append(c.Ops, Op{K: "upd", Key: k, Val: []byte{}, H: h})
			}
			delete(live, string(k))
		case 4: // delete something that is probably absent
			k := pick()
			c.Ops = append(c.Ops, Op{K: "del", Key: k, H: h})
			delete(live, string(k))
		case 5:
			c.Ops = append(c.Ops, Op{K: "get", Key: pick(), H: h})
		case 6:
			c.Ops = append(c.Ops, Op{K: "hash", H: h})
		case 7:
			c.Ops = append(c.Ops, Op{K: "commit", Var: r.Intn(3), H: h})
		case 8:
			c.Ops = append(c.Ops, Op{K: "dump", H: h})
		case 9:
			c.Ops = append(c.Ops, Op{K: "copy", H: h})
			nl := map[string]bool{}
			for k := range live {
				nl[k] = true
			}
			lives = append(lives, nl)
			burst = 1 + r.Intn(4)
			burstPair = [2]int{h, len(lives) - 1}
		}
	}
	// sometimes empty a trie completely again, or all but one key
	if r.Chance(12) {
		keep := r.Intn(2)
		h := r.Intn(len(lives))
		ks := make([]string, 0, len(lives[h]))
		for k := range lives[h] {
			ks = append(ks, k)
		}
		sort.Strings(ks)
		for len(ks) > keep {
			i := r.Intn(len(ks))
			c.Ops = append(c.Ops, Op{K: "del", Key: []byte(ks[i]), H: h})
			ks = append(ks[:i], ks[i+1:]...)
		}
	}
	return c
}

// fixed corpus: the shapes named by the property, one by one
func corpus() []*Case {
	b := func(x ...byte) []byte { return x }
	up := func(k, v []byte) Op { return Op{K: "upd", Key: k, Val: v} }
	del := func(k []byte) Op { return Op{K: "del", Key: k} }
	big := bytes.Repeat([]byte{0xab}, 40)
	var cs []*Case
	add := func(gen string, secure bool, ops ...Op) {
		cs = append(cs, &Case{Kind: "trie", Gen: "corpus:" + gen, Secure: secure, Ops: ops})
	}
	add("empty", false)
	add("empty-commit", false, Op{K: "commit", Var: 2})
	add("single", false, up(b(1, 2), b(9)))
	add("empty-key", false, up(b(), b(9)), up(b(0), b(8)), del(b()))
	add("insert-delete-all", false, up(b(1), b(9)), del(b(1)))
	// keys that are prefixes of each other: value slot 16 of a full node
	add("prefix-keys", false, up(b(1), b(1)), up(b(1, 2), b(2)), up(b(1, 2, 3), b(3)), del(b(1, 2)), Op{K: "dump"}, del(b(1)))
	add("prefix-keys-slot16-survives", false, up(b(1), big), up(b(1, 2), b(2)), up(b(1, 3), b(3)), del(b(1, 2)), del(b(1, 3)))
	// collapse of a full node into its remaining short child (key concatenation)
	add("collapse-merge", false, up(b(0x12, 0x34), b(1)), up(b(0x12, 0x35), b(2)), up(b(0x13, 0x00), b(3)), del(b(0x13, 0x00)))
	// collapse where the remaining child is a full node (one-nibble extension)
	add("collapse-ext", false, up(b(0x12, 0x34), b(1)), up(b(0x12, 0x44), b(2)), up(b(0x22, 0x00), b(3)), del(b(0x22, 0x00)))
	// collapse below an extension: short + short merge in the parent
	add("collapse-under-ext", false, up(b(0xaa, 0x10), b(1)), up(b(0xaa, 0x20), b(2)), up(b(0xaa, 0x21), big), del(b(0xaa, 0x10)), Op{K: "dump"}, del(b(0xaa, 0x21)))
	// collapse of a node that has to be loaded from the database first
	add("collapse-after-reload", false, up(b(0x12, 0x34), big), up(b(0x12, 0x35), big), up(b(0x13, 0x00), big), Op{K: "commit", Var: 2}, del(b(0x13, 0x00)), Op{K: "commit", Var: 1}, del(b(0x12, 0x35)))
	add("update-same-value", false, up(b(1, 2), b(9)), up(b(1, 3), b(9)), Op{K: "hash"}, up(b(1, 2), b(9)), up(b(1, 2), b(8)), up(b(1, 2), b(9)))
	add("empty-value-is-delete", false, up(b(1, 2), b(9)), up(b(1, 3), b(9)), up(b(1, 2), b()), up(b(7), b()))
	add("order-a", false, up(b(1, 2), b(1)), up(b(1, 3), b(2)), up(b(2, 0), b(3)), up(b(1), b(4)))
	add("order-b", false, up(b(1), b(4)), up(b(2, 0), b(3)), up(b(1, 3), b(2)), up(b(9), b(9)), up(b(1, 2), b(1)), del(b(9)))
	add("secure-basic", true, up(b(1), big), up(b(2), b(2)), up(b(3), b(3)), Op{K: "commit", Var: 2}, del(b(2)), up(b(4), big), Op{K: "commit", Var: 0}, del(b(1)))
	add("delete-absent", false, up(b(1, 2), b(1)), up(b(1, 3), b(2)), del(b(1)), del(b(1, 2, 3)), del(b(1, 4)), del(b(2)))
	// ---- persistence: copies share in-memory nodes; an operation on one handle must not show in another.
	// keys 1234 / 1567 / 1589: an extension [1] over a branch whose children are leaves with long
	// keys; the extension's key is a prefix slice of the hex buffer of the key inserted second.
	cpy := func(h int) Op { return Op{K: "copy", H: h} }
	on := func(h int, o Op) Op { o.H = h; return o }
	hash := func(h int) Op { return Op{K: "hash", H: h} }
	kA, kB, kC := b(0x12, 0x34), b(0x15, 0x67), b(0x15, 0x89)
	// delete on the original collapses the branch under the extension (short/short merge), the copy keeps both
	add("copy/original-deletes-second-key", false, up(kA, b(1)), up(kB, b(2)), cpy(0), del(kB))
	add("copy/original-deletes-first-key", false, up(kA, b(1)), up(kB, b(2)), cpy(0), del(kA))
	add("copy/copy-deletes-second-key", false, up(kA, b(1)), up(kB, b(2)), cpy(0), on(1, del(kB)))
	add("copy/copy-deletes-first-key", false, up(kA, b(1)), up(kB, b(2)), cpy(0), on(1, del(kA)))
	add("copy/delete-by-empty-value", false, up(kA, big), up(kB, big), cpy(0), up(kB, b()), on(1, up(kA, b())))
	// the same below another branch (merge happens two levels up), and with three keys (collapse into an extension)
	add("copy/collapse-into-extension", false, up(kA, b(1)), up(kB, b(2)), up(kC, b(3)), cpy(0), del(kA), on(1, del(kC)), on(1, del(kB)))
	add("copy/nested", false, up(b(0xaa, 0x12, 0x34), b(1)), up(b(0xaa, 0x15, 0x67), b(2)), up(b(0xbb), b(3)), cpy(0), del(b(0xaa, 0x15, 0x67)), cpy(0), on(2, del(b(0xbb))), on(1, del(b(0xaa, 0x12, 0x34))))
	// cached hashes in shared nodes: hash before the copy, on the copy, on the original
	add("copy/after-hash", false, up(kA, big), up(kB, big), hash(0), cpy(0), del(kB), on(1, up(kC, big)), hash(1), on(1, del(kA)))
	add("copy/hash-on-copy-only", false, up(kA, b(1)), up(kB, b(2)), cpy(0), hash(1), del(kB), up(kC, b(3)))
	// an insert on one side splits an extension / a leaf that the other side still uses
	add("copy/insert-splits-extension", false, up(kA, b(1)), up(kB, b(2)), up(kC, b(3)), cpy(0), on(1, up(b(0x15, 0x60), b(4))), up(b(0x25), b(5)), on(1, del(kB)), del(kC))
	add("copy/insert-splits-leaf", false, up(kA, big), cpy(0), up(b(0x12, 0x35), b(2)), on(1, up(b(0x12, 0x44), b(3))), del(kA), on(1, del(b(0x12, 0x44))))
	// copies of committed tries (hash-node root, nodes loaded on demand into each handle separately)
	for v := 0; v < 3; v++ {
		add(fmt.Sprintf("copy/after-commit-%d", v), false, up(kA, big), up(kB, big), up(kC, big), Op{K: "commit", Var: v}, cpy(0), del(kB), on(1, del(kA)), on(1, Op{K: "commit", Var: v}), del(kC), Op{K: "commit", Var: (v + 1) % 3})
	}
	add("copy/uncommitted-then-both-commit", false, up(kA, big), up(kB, big), cpy(0), del(kB), Op{K: "commit", Var: 1}, on(1, up(kC, big)), on(1, Op{K: "commit", Var: 2}), on(1, del(kA)))
	// copy of a copy, three diverging handles, the original emptied
	add("copy/of-copy", false, up(kA, b(1)), up(kB, b(2)), cpy(0), on(1, up(kC, b(3))), cpy(1), on(2, del(kB)), on(1, del(kA)), del(kA), del(kB))
	// secure trie (what core/state copies): raw keys whose keccak images share leading nibbles
	sa, sb2, sc2 := secureSiblings()
	add("copy/secure-original-deletes", true, up(sa, b(0xaa, 1)), up(sb2, b(0xbb, 2)), cpy(0), del(sb2))
	add("copy/secure-copy-deletes", true, up(sa, b(0xaa, 1)), up(sb2, b(0xbb, 2)), cpy(0), on(1, del(sb2)), del(sa))
	add("copy/secure-three", true, up(sa, big), up(sb2, big), up(sc2, big), cpy(0), del(sc2), on(1, del(sa)), cpy(1), on(2, del(sb2)), on(1, Op{K: "commit", Var: 0}), on(1, del(sc2)))
	// one key buffer rewritten in place between the calls (a callee that keeps the slice of the previous
	// call sees the next key in it): get-then-update, update-update, delete, through copies, after commit
	k32 := func(i byte) []byte { k := bytes.Repeat([]byte{0x11}, 32); k[31] = i; return k }
	get := func(k []byte) Op { return Op{K: "get", Key: k} }
	for _, secure := range []bool{true, false} {
		n0 := len(cs)
		add("keybuf/get-then-update-other-key", secure, up(k32(1), b(1)), get(k32(1)), up(k32(2), b(2)), get(k32(2)), get(k32(1)))
		add("keybuf/updates-in-a-loop", secure, up(k32(1), big), up(k32(2), big), up(k32(3), big), up(k32(4), big), Op{K: "commit", Var: 1}, get(k32(3)))
		add("keybuf/delete-after-get-of-other-key", secure, up(k32(1), b(1)), up(k32(2), b(2)), get(k32(1)), del(k32(2)), get(k32(2)), up(k32(1), b()))
		add("keybuf/through-a-copy", secure, up(k32(1), b(1)), get(k32(1)), cpy(0), on(1, up(k32(2), b(2))), up(k32(3), b(3)), on(1, del(k32(1))), get(k32(1)))
		add("keybuf/short-keys", secure, up(b(1), b(1)), up(b(2), b(2)), get(b(1)), del(b(2)), up(b(3, 4), b(3)), up(b(3, 5), big))
		for _, c := range cs[n0:] {
			c.KeyBuf = 1
		}
	}
	for i, c := range cs {
		c.ID = i
	}
	return cs
}

// three raw 32-byte keys (storage-slot like) whose keccak images share the first nibble, the
// second and third also the second nibble: ext -> branch -> {leaf, ext -> branch -> {leaf, leaf}} or similar
func secureSiblings() (a, b, c []byte) {
	mk := func(i uint64) []byte {
		k := make([]byte, 32)
		for j := 0; j < 8; j++ {
			k[31-j] = byte(i >> (8 * uint(j)))
		}
		return k
	}
	a = mk(1)
	ha := crypto.Keccak256(a)
	for i := uint64(2); ; i++ {
		k := mk(i)
		hk := crypto.Keccak256(k)
		if ha[0]>>4 != hk[0]>>4 {
			continue
		}
		if b == nil {
			b = k
			continue
		}
		if hb := crypto.Keccak256(b); hb[0] == hk[0] {
			c = k
			return
		}
	}
}

func genDeriveCase(r *hlib.Rng, id, n int) *Case {
	c := &Case{ID: id, Kind: "derive", N: n}
	mode := r.Intn(3)
	for i := 0; i < n; i++ {
		switch mode {
		case 0:
			c.Vals = append(c.Vals, r.Bytes(1+r.Intn(8))) // small: embedded nodes
		case 1:
			c.Vals = append(c.Vals, r.Bytes(30+r.Intn(80))) // receipt/tx sized
		default:
			c.Vals = append(c.Vals, genVal(r))
		}
	}
	return c
}

func genSortedCase(r *hlib.Rng, id int) *Case {
	c := &Case{ID: id, Kind: "sorted"}
	l := []int{1, 2, 3, 4, 8, 20, 32}[r.Intn(7)]
	n := 1 + r.Intn(60)
	set := map[string]bool{}
	base := r.Bytes(l)
	for i := 0; i < n; i++ {
		k := r.Bytes(l)
		if r.Chance(50) { // shared prefixes
			m := r.Intn(l)
			copy(k[:m], base[:m])
			if r.Bool() {
				k[m] = base[m]&0xf0 | k[m]&0x0f
			}
		}
		set[string(k)] = true
	}
	ks := make([]string, 0, len(set))
	for k := range set {
		ks = append(ks, k)
	}
	sort.Strings(ks)
	for _, k := range ks {
		c.Keys = append(c.Keys, []byte(k))
		c.Vals = append(c.Vals, genVal(r))
	}
	return c
}

func main() {
	f := hlib.ParseFlags()
	logger = hlib.QuietLogs()
	rng := hlib.NewRng(f.Seed)
	rep := hlib.NewReport("C18", "a case is one trie history (plain or secure trie; inserts, overwrites, deletes through both APIs, empty values, Hash, Commit+reload in 3 variants; in about half of them over up to 4 handles = copies sharing in-memory nodes) "+
		"checked for structure, content, history independence and Merkle proofs, or one DeriveSha list (StackTrie vs Trie), or one ascending key set (StackTrie vs Trie), or one key/value list fed to a StackTrie whose shape after each insertion is compared with the model; "+
		"non-trivial = the history deletes a present key, commits or copies and ends non-empty (or has copies) / the list has >= 2 items; distinct by case")
	cw := hlib.NewCaseWriter(f.Out, "From Coq Require Import List NArith Bool Uint63.\nFrom GQ Require Import Lib.Key Model.C18.\nImport ListNotations.\nLocal Open Scope uint63_scope.\n", "C18.case", 30)

	if f.Replay != "" {
		var c Case
		hlib.ReadReplayCase(f.Replay, &c)
		switch c.Kind {
		case "derive":
			runDeriveCase(rep, cw, &c)
		case "sorted":
			runSortedCase(rep, &c)
		case "range":
			runRangeCase(rep, cw, &c)
		case "db":
			runDBCase(rep, cw, &c)
		case "stack":
			runStackCase(rep, cw, &c)
		default:
			runTrieCase(rep, cw, &c, rng.Fork(), f.Tier)
		}
		cw.Close()
		rep.Write(f.Out)
		return
	}

	id := 0
	for _, c := range corpus() {
		c.ID = id
		id++
		runTrieCase(rep, cw, c, rng.Fork(), f.Tier)
	}
	for i := 0; i < f.N; i++ {
		c := genTrieCase(rng.Fork(), id)
		id++
		runTrieCase(rep, cw, c, rng.Fork(), f.Tier)
	}
	// DeriveSha: every length 0..300 (thorough: also some longer lists)
	maxN := 300
	for n := 0; n <= maxN; n++ {
		c := genDeriveCase(rng.Fork(), id, n)
		id++
		runDeriveCase(rep, cw, c)
	}
	if f.Tier == "thorough" {
		for _, n := range []int{511, 512, 513, 1000, 2000} {
			c := genDeriveCase(rng.Fork(), id, n)
			id++
			runDeriveCase(rep, cw, c)
		}
	}
	for i := 0; i < f.N/2+20; i++ {
		c := genSortedCase(rng.Fork(), id)
		id++
		runSortedCase(rep, c)
	}
	// range proofs: adversarial key/value lists against VerifyRangeProof (corpus + random tries)
	rr := rng.Fork()
	for _, c := range rangeCorpus(rr, &id) {
		runRangeCase(rep, cw, c)
	}
	for i := 0; i < f.N/6+5; i++ {
		r := rr.Fork()
		n := 1 + r.Intn(12)
		if r.Chance(25) {
			n = 20 + r.Intn(120)
		}
		l := []int{1, 2, 3, 4, 32}[r.Pick(10, 30, 15, 15, 30)]
		if l == 1 && n > 40 {
			n = 40
		}
		for _, c := range genRangeCases(r, &id, n, l, "random", false) {
			runRangeCase(rep, cw, c)
		}
	}
	// trie.Database reference counting: histories of commit / Reference / Dereference / Cap / flush
	for _, c := range dbCorpus(&id) {
		runDBCase(rep, cw, c)
	}
	for i := 0; i < f.N/2+10; i++ {
		c := genDBCase(rng.Fork(), id)
		id++
		runDBCase(rep, cw, c)
	}
	// StackTrie: shape after each insertion vs the model, panic verdicts, root vs the full trie
	for _, c := range stackCorpus(&id) {
		runStackCase(rep, cw, c)
	}
	for i := 0; i < f.N/6+15; i++ {
		c := genStackCase(rng.Fork(), id)
		id++
		runStackCase(rep, cw, c)
	}
	cw.Close()
	rep.Write(f.Out)
}

// C18 harness, "survives commit and reload" at the level of trie.Database: histories of
//   build  (open a committed root or start from the empty trie, write, Trie.Commit into the memory
//           layer; several different histories end in the SAME content, hence the same root),
//   ref    Database.Reference(root, common.Hash{})      (a holder of the root: a block / a state)
//   deref  Database.Dereference(root)                   (one holder lets go)
//   cap    Database.Cap(limit)                          (flush the oldest dirty nodes to disk)
//   flush  Database.Commit(root)                        (persist one trie)
//   reopen a brand-new trie.Database over the same disk (everything not persisted is gone)
// optionally on two layers: values of a trie may be links to other committed tries, referenced from
// the leaf's parent node by the Commit callback exactly like core/state/statedb.go does for
// account -> storage roots.
//
// Monitor (model-independent): a multiset of holders per root is kept by the harness; after every
// operation every root that still has a holder (or was persisted, or is linked from such a root)
// must be openable from the Database, fully walkable (every node resolvable), hold exactly its
// content and hash to itself. Link-free histories are also replayed in Coq (Model/C18.v: db_run).
package main

import (
	"bytes"
	"fmt"
	"sort"
	"strings"

	"github.com/dominant-strategies/go-quai/common"
	"github.com/dominant-strategies/go-quai/ethdb/memorydb"
	"github.com/dominant-strategies/go-quai/trie"

	"verifharness/hlib"
)

type DBOp struct {
	K     string `json:"k"`               // build | ref | deref | cap | flush | reopen
	S     int    `json:"s"`               // build: the state to start from (-1 = empty trie); ref/deref/flush: the state
	Fresh bool   `json:"fresh,omitempty"` // build: rebuild the content of S from the EMPTY trie in shuffled order (another history, same content)
	Seed  int    `json:"seed,omitempty"`  // shuffle seed of a fresh build
	W     []Op   `json:"w,omitempty"`     // build: the writes (upd/del); Var = j+1 makes the value a link to state j
	Ref   bool   `json:"ref,omitempty"`   // build: Reference(root, {}) right after the commit
	Limit int    `json:"limit,omitempty"` // cap
}

const linkTag = 0xA5

type dbEnv struct {
	rep       *hlib.Report
	c         *Case
	disk      *memorydb.Database
	tdb       *trie.Database
	roots     []common.Hash // per state
	contents  map[common.Hash]map[string][]byte
	refs      map[common.Hash]int
	persisted map[common.Hash]bool
	classes   []common.Hash // distinct roots in order of first appearance
	linked    bool
}

func linkOf(v []byte) (common.Hash, bool) {
	if len(v) == 33 && v[0] == linkTag {
		return common.BytesToHash(v[1:]), true
	}
	return common.Hash{}, false
}

func (e *dbEnv) links(root common.Hash) []common.Hash {
	var out []common.Hash
	for _, k := range hlib.SortedKeys(e.contents[root]) {
		if l, ok := linkOf(e.contents[root][k]); ok {
			out = append(out, l)
		}
	}
	return out
}

// alive: the set of roots somebody is entitled to open
func (e *dbEnv) alive() map[common.Hash]bool {
	al := map[common.Hash]bool{emptyRoot: true}
	var mark func(r common.Hash)
	mark = func(r common.Hash) {
		if al[r] && r != emptyRoot {
			return
		}
		al[r] = true
		for _, l := range e.links(r) {
			mark(l)
		}
	}
	for _, r := range e.classes {
		if e.refs[r] > 0 || e.persisted[r] {
			mark(r)
		}
	}
	return al
}

func (e *dbEnv) classOf(r common.Hash) int {
	for i, x := range e.classes {
		if x == r {
			return i
		}
	}
	e.classes = append(e.classes, r)
	return len(e.classes) - 1
}

// openable: can the trie be opened and every node of it be resolved?
func (e *dbEnv) walk(root common.Hash) (*trie.Trie, int, error) {
	t, err := trie.New(root, e.tdb)
	if err != nil {
		return nil, 0, err
	}
	d, err := trie.VerifDump(t)
	if err != nil {
		return nil, 0, err
	}
	return t, countLeaves(d), nil
}

func countLeaves(n *trie.VerifNode) int {
	if n.Kind == "value" {
		return 1
	}
	s := 0
	for _, c := range n.Children {
		s += countLeaves(c)
	}
	return s
}

func (e *dbEnv) checkRoot(root common.Hash, after string, why string) {
	t, leaves, err := e.walk(root)
	holders := "one-holder"
	if e.refs[root] > 1 {
		holders = "several-holders"
	}
	if e.refs[root] == 0 {
		holders = why
	}
	if err != nil {
		fail(e.rep, "dbrefs/held-root-lost/"+holders+"/after-"+after,
			fmt.Sprintf("root %x (%d holders, persisted=%v, %s) can no longer be opened and walked after a %s: %v", root, e.refs[root], e.persisted[root], why, after, err), e.c)
		return
	}
	want := e.contents[root]
	if leaves != len(want) {
		fail(e.rep, "dbrefs/held-root-wrong-content/after-"+after, fmt.Sprintf("root %x has %d leaves, its content has %d pairs", root, leaves, len(want)), e.c)
		return
	}
	for _, k := range hlib.SortedKeys(want) {
		got, err := t.TryGet([]byte(k))
		if err != nil || !bytes.Equal(got, want[k]) {
			fail(e.rep, "dbrefs/held-root-wrong-content/after-"+after, fmt.Sprintf("root %x: Get(%x) = %x (err %v), content has %x", root, []byte(k), got, err, want[k]), e.c)
			return
		}
	}
	if h := t.Hash(); h != root {
		fail(e.rep, "dbrefs/held-root-rehash/after-"+after, fmt.Sprintf("trie opened at %x hashes to %x", root, h), e.c)
	}
}

func (e *dbEnv) checkAll(after string, cops *[]string) {
	al := e.alive()
	for _, r := range e.classes {
		if r == emptyRoot {
			continue
		}
		if al[r] {
			why := "held"
			if e.refs[r] == 0 {
				why = "linked-from-held-root"
				if e.persisted[r] {
					why = "persisted"
				}
			}
			e.checkRoot(r, after, why)
		}
	}
	if cops != nil {
		for i, r := range e.classes {
			_, _, err := e.walk(r)
			*cops = append(*cops, fmt.Sprintf("DObs %d%%nat %s", i, hlib.CoqBool(err == nil)))
		}
	}
}

func runDBCase(rep *hlib.Report, cw *hlib.CaseWriter, c *Case) {
	defer func() {
		if r := recover(); r != nil {
			fail(rep, "panic/db-history", fmt.Sprintf("panic while running a trie.Database history: %v", r), c)
		}
	}()
	e := &dbEnv{rep: rep, c: c, disk: memorydb.New(logger), contents: map[common.Hash]map[string][]byte{}, refs: map[common.Hash]int{}, persisted: map[common.Hash]bool{}}
	e.tdb = trie.NewDatabase(e.disk)
	for _, o := range c.DB {
		for _, w := range o.W {
			if w.Var > 0 {
				e.linked = true
			}
		}
	}
	var cops []string
	copsP := &cops
	if e.linked {
		copsP = nil
	}
	emit := func(s string) {
		if !e.linked {
			cops = append(cops, s)
		}
	}
	sameRoot, multi := 0, 0
	for _, o := range c.DB {
		rep.Count("db-op:" + o.K)
		al := e.alive()
		switch o.K {
		case "build":
			content := map[string][]byte{}
			var t *trie.Trie
			var err error
			base := emptyRoot
			if o.S >= 0 && o.S < len(e.roots) {
				base = e.roots[o.S]
			}
			if !al[base] {
				rep.Count("db-op-skipped:build-on-dead-root")
				continue
			}
			for k, v := range e.contents[base] {
				content[k] = v
			}
			if o.Fresh || base == emptyRoot {
				t, err = trie.New(common.Hash{}, e.tdb)
				ks := hlib.SortedKeys(content)
				sh := hlib.NewRng(uint64(o.Seed) + 1)
				for i := len(ks) - 1; i > 0; i-- {
					j := sh.Intn(i + 1)
					ks[i], ks[j] = ks[j], ks[i]
				}
				for _, k := range ks {
					t.Update([]byte(k), cp(content[k]))
				}
			} else {
				t, err = trie.New(base, e.tdb)
			}
			if err != nil {
				fail(rep, "dbrefs/held-root-lost/open-for-build", fmt.Sprintf("root %x (holders %d, persisted %v) cannot be opened: %v", base, e.refs[base], e.persisted[base], err), c)
				continue
			}
			for _, w := range o.W {
				v := w.Val
				if w.Var > 0 {
					if w.Var-1 >= len(e.roots) || !al[e.roots[w.Var-1]] || e.roots[w.Var-1] == emptyRoot {
						continue
					}
					v = append([]byte{linkTag}, e.roots[w.Var-1].Bytes()...)
				}
				if w.K == "del" || len(v) == 0 {
					if err := t.TryDelete(cp(w.Key)); err != nil {
						fail(rep, "dbrefs/error/delete", fmt.Sprintf("TryDelete on a trie opened at a held root failed: %v", err), c)
					}
					delete(content, string(w.Key))
				} else {
					if err := t.TryUpdate(cp(w.Key), cp(v)); err != nil {
						fail(rep, "dbrefs/error/update", fmt.Sprintf("TryUpdate on a trie opened at a held root failed: %v", err), c)
					}
					content[string(w.Key)] = v
				}
			}
			root, err := t.Commit(func(_ [][]byte, _ []byte, leaf []byte, parent common.Hash) error {
				if l, ok := linkOf(leaf); ok && l != emptyRoot {
					e.tdb.Reference(l, parent)
				}
				return nil
			})
			if err != nil {
				fail(rep, "dbrefs/error/commit", fmt.Sprintf("Trie.Commit failed: %v", err), c)
				continue
			}
			if f := freshRoot(sortedContent(content)); f != root {
				fail(rep, "dbrefs/root-differs-from-fresh-rebuild", fmt.Sprintf("committed root %x, a fresh trie with the same %d pairs has root %x", root, len(content), f), c)
			}
			if _, seen := e.contents[root]; seen {
				sameRoot++
				rep.Count("db:same-root-reached-again")
			}
			e.roots = append(e.roots, root)
			e.contents[root] = content
			ci := e.classOf(root)
			emit(fmt.Sprintf("DIns %d%%nat", ci))
			if o.Ref {
				e.tdb.Reference(root, common.Hash{})
				e.refs[root]++
				emit(fmt.Sprintf("DRef %d%%nat", ci))
				if e.refs[root] > 1 {
					multi++
					rep.Count("db:root-with-several-holders")
				}
			}
		case "ref":
			if o.S < 0 || o.S >= len(e.roots) || !al[e.roots[o.S]] {
				rep.Count("db-op-skipped:ref-dead-root")
				continue
			}
			r := e.roots[o.S]
			e.tdb.Reference(r, common.Hash{})
			e.refs[r]++
			emit(fmt.Sprintf("DRef %d%%nat", e.classOf(r)))
			if e.refs[r] > 1 {
				multi++
				rep.Count("db:root-with-several-holders")
			}
		case "deref":
			if o.S < 0 || o.S >= len(e.roots) || e.roots[o.S] == emptyRoot {
				continue
			}
			r := e.roots[o.S]
			if e.refs[r] == 0 && e.linked {
				rep.Count("db-op-skipped:deref-without-holder")
				continue // Dereference is for roots held from the meta root only
			}
			e.tdb.Dereference(r)
			if e.refs[r] > 0 {
				e.refs[r]--
			}
			emit(fmt.Sprintf("DDeref %d%%nat", e.classOf(r)))
		case "cap":
			if err := e.tdb.Cap(common.StorageSize(o.Limit)); err != nil {
				fail(rep, "dbrefs/error/cap", fmt.Sprintf("Cap failed: %v", err), c)
			}
			if o.Limit == 0 { // everything in the memory layer went to disk
				for r := range al {
					e.persisted[r] = true
				}
				emit("DCapAll")
			}
		case "flush":
			if o.S < 0 || o.S >= len(e.roots) || !al[e.roots[o.S]] || e.roots[o.S] == emptyRoot {
				rep.Count("db-op-skipped:flush-dead-root")
				continue
			}
			r := e.roots[o.S]
			if err := e.tdb.Commit(r, false, nil); err != nil {
				fail(rep, "dbrefs/error/flush", fmt.Sprintf("Database.Commit failed: %v", err), c)
			}
			var mark func(x common.Hash)
			mark = func(x common.Hash) {
				if e.persisted[x] {
					return
				}
				e.persisted[x] = true
				for _, l := range e.links(x) {
					mark(l)
				}
			}
			mark(r)
			emit(fmt.Sprintf("DFlush %d%%nat", e.classOf(r)))
		case "reopen":
			e.tdb = trie.NewDatabase(e.disk)
			e.refs = map[common.Hash]int{}
			emit("DReopen")
		default:
			continue
		}
		e.checkAll(o.K, copsP)
	}
	rep.Evaluations++
	rep.TracesValidated++
	rep.Count("gen:" + c.Gen)
	if sameRoot > 0 && multi > 0 {
		rep.Nontrivial(fmt.Sprintf("db/%d", c.ID))
	}
	if !e.linked {
		cw.Add(fmt.Sprintf("(%d%%N, BDb %s)", c.ID, hlib.CoqList(cops)), c)
	}
	rep.Sample(c)
}

// ---------- generator: simulates the same holder model on content classes ----------

type dbSim struct {
	contents  []map[string]string // per state: key -> value or "L<class>"
	class     []int               // per state
	canon     map[string]int
	cContent  []map[string]string // per class
	refs      map[int]int
	persisted map[int]bool
}

func (s *dbSim) canonOf(m map[string]string) string {
	ks := make([]string, 0, len(m))
	for k := range m {
		ks = append(ks, k)
	}
	sort.Strings(ks)
	var sb strings.Builder
	for _, k := range ks {
		fmt.Fprintf(&sb, "%x=%x;", k, m[k])
	}
	return sb.String()
}

func (s *dbSim) alive() map[int]bool {
	al := map[int]bool{}
	var mark func(c int)
	mark = func(c int) {
		if al[c] {
			return
		}
		al[c] = true
		for _, v := range s.cContent[c] {
			if strings.HasPrefix(v, "\x00L") {
				var j int
				fmt.Sscanf(v[2:], "%d", &j)
				mark(j)
			}
		}
	}
	for c := range s.cContent {
		if s.refs[c] > 0 || s.persisted[c] || len(s.cContent[c]) == 0 {
			mark(c)
		}
	}
	return al
}

func (s *dbSim) add(m map[string]string) int {
	k := s.canonOf(m)
	c, ok := s.canon[k]
	if !ok {
		c = len(s.cContent)
		s.canon[k] = c
		s.cContent = append(s.cContent, m)
	}
	s.contents = append(s.contents, m)
	s.class = append(s.class, c)
	return len(s.contents) - 1
}

func genDBCase(r *hlib.Rng, id int) *Case {
	c := &Case{ID: id, Kind: "db"}
	mode := []string{"blocks", "random", "linked"}[r.Pick(40, 35, 25)]
	c.Gen = "db:" + mode
	l := []int{1, 2, 4, 32}[r.Pick(20, 35, 20, 25)]
	nk := 3 + r.Intn(10)
	var uni [][]byte
	base := r.Bytes(l)
	for i := 0; i < nk; i++ {
		k := r.Bytes(l)
		if r.Chance(50) {
			m := r.Intn(l)
			copy(k[:m], base[:m])
		}
		uni = append(uni, k)
	}
	// two candidate values per key: contents recur
	vals := make([][2][]byte, nk)
	for i := range vals {
		vals[i] = [2][]byte{genVal(r), genVal(r)}
		if r.Chance(60) {
			vals[i][0] = r.Bytes(33 + r.Intn(20))
		}
	}
	s := &dbSim{canon: map[string]int{}, refs: map[int]int{}, persisted: map[int]bool{}}
	writes := func(cur map[string]string, kind int) ([]Op, map[string]string) {
		m := map[string]string{}
		for k, v := range cur {
			m[k] = v
		}
		var ws []Op
		switch kind {
		case 0: // a block that changes nothing: insert and remove a transient key
			k := r.Bytes(l)
			if _, ok := m[string(k)]; ok {
				return nil, m
			}
			ws = append(ws, Op{K: "upd", Key: k, Val: r.Bytes(35)}, Op{K: "del", Key: k})
		case 1: // overwrite a key and write the old value back
			for _, k := range hlib.SortedKeys(m) {
				if v := m[k]; !strings.HasPrefix(v, "\x00L") {
					ws = append(ws, Op{K: "upd", Key: []byte(k), Val: r.Bytes(34)}, Op{K: "upd", Key: []byte(k), Val: []byte(v)})
					break
				}
			}
		default:
			n := 1 + r.Intn(4)
			for i := 0; i < n; i++ {
				ki := r.Intn(nk)
				k := uni[ki]
				if _, ok := m[string(k)]; ok && r.Chance(35) {
					ws = append(ws, Op{K: "del", Key: k})
					delete(m, string(k))
					continue
				}
				if mode == "linked" && len(s.contents) > 0 && r.Chance(40) {
					al := s.alive()
					j := r.Intn(len(s.contents))
					if al[s.class[j]] && len(s.contents[j]) > 0 {
						ws = append(ws, Op{K: "upd", Key: k, Var: j + 1})
						m[string(k)] = fmt.Sprintf("\x00L%d", s.class[j])
						continue
					}
				}
				v := vals[ki][r.Intn(2)]
				ws = append(ws, Op{K: "upd", Key: k, Val: v})
				m[string(k)] = string(v)
			}
		}
		return ws, m
	}
	pickAlive := func() int { // a state whose root may be opened, -1 = the empty trie
		al := s.alive()
		var cand []int
		for i := range s.contents {
			if al[s.class[i]] {
				cand = append(cand, i)
			}
		}
		if len(cand) == 0 || r.Chance(8) {
			return -1
		}
		if r.Chance(60) {
			return cand[len(cand)-1]
		}
		return cand[r.Intn(len(cand))]
	}
	build := func(base int, kind int, fresh bool, ref bool) int {
		cur := map[string]string{}
		if base >= 0 {
			cur = s.contents[base]
		}
		// writes are sorted by map iteration in kind 1: make that deterministic
		ws, m := writes(cur, kind)
		c.DB = append(c.DB, DBOp{K: "build", S: base, Fresh: fresh, Seed: r.Intn(1000), W: ws, Ref: ref})
		i := s.add(m)
		if ref {
			s.refs[s.class[i]]++
		}
		return i
	}
	n := 8 + r.Intn(28)
	switch mode {
	case "blocks":
		// what core.StateProcessor.StateAtBlock does per block: commit, Reference(root, {}),
		// Dereference(parent root); blocks that change nothing keep the root
		prev := build(-1, 2, false, true)
		for i := 0; i < 3; i++ { // populate
			nx := build(prev, 2, false, true)
			c.DB = append(c.DB, DBOp{K: "deref", S: prev})
			s.refs[s.class[prev]]--
			prev = nx
		}
		for i := 0; i < n; i++ {
			kind := r.Pick(30, 15, 55)
			nx := build(prev, kind, r.Chance(15), true)
			c.DB = append(c.DB, DBOp{K: "deref", S: prev})
			if s.refs[s.class[prev]] > 0 {
				s.refs[s.class[prev]]--
			}
			prev = nx
			if r.Chance(6) {
				c.DB = append(c.DB, DBOp{K: "cap", Limit: r.Intn(2) * (200 + r.Intn(3000))})
				if c.DB[len(c.DB)-1].Limit == 0 {
					for cl := range s.alive() {
						s.persisted[cl] = true
					}
				}
			}
			if r.Chance(4) {
				c.DB = append(c.DB, DBOp{K: "flush", S: prev})
				s.persisted[s.class[prev]] = true
			}
		}
	default:
		build(-1, 2, false, true)
		for i := 0; i < n; i++ {
			switch r.Pick(38, 18, 26, 6, 6, 3) {
			case 0:
				b := pickAlive()
				kind := r.Pick(25, 15, 60)
				build(b, kind, r.Chance(25), r.Chance(75))
			case 1:
				if b := pickAlive(); b >= 0 {
					c.DB = append(c.DB, DBOp{K: "ref", S: b})
					s.refs[s.class[b]]++
				}
			case 2:
				var cand []int
				for i := range s.contents {
					if s.refs[s.class[i]] > 0 || (mode != "linked" && r.Chance(10)) {
						cand = append(cand, i)
					}
				}
				if len(cand) > 0 {
					b := cand[r.Intn(len(cand))]
					c.DB = append(c.DB, DBOp{K: "deref", S: b})
					if s.refs[s.class[b]] > 0 {
						s.refs[s.class[b]]--
					}
				}
			case 3:
				lim := 0
				if r.Bool() {
					lim = 200 + r.Intn(3000)
				}
				c.DB = append(c.DB, DBOp{K: "cap", Limit: lim})
				if lim == 0 {
					for cl := range s.alive() {
						s.persisted[cl] = true
					}
				}
			case 4:
				if b := pickAlive(); b >= 0 {
					c.DB = append(c.DB, DBOp{K: "flush", S: b})
					var mark func(cl int)
					mark = func(cl int) {
						if s.persisted[cl] {
							return
						}
						s.persisted[cl] = true
						for _, v := range s.cContent[cl] {
							if strings.HasPrefix(v, "\x00L") {
								var j int
								fmt.Sscanf(v[2:], "%d", &j)
								mark(j)
							}
						}
					}
					mark(s.class[b])
				}
			case 5:
				c.DB = append(c.DB, DBOp{K: "reopen"})
				s.refs = map[int]int{}
			}
		}
	}
	return c
}

// fixed corpus: the shapes named by the clause, one by one
func dbCorpus(id *int) []*Case {
	b := func(x ...byte) []byte { return x }
	big := func(x byte) []byte { return bytes.Repeat([]byte{x}, 40) }
	up := func(k, v []byte) Op { return Op{K: "upd", Key: k, Val: v} }
	del := func(k []byte) Op { return Op{K: "del", Key: k} }
	lnk := func(k []byte, j int) Op { return Op{K: "upd", Key: k, Var: j + 1} }
	var cs []*Case
	add := func(gen string, ops ...DBOp) {
		cs = append(cs, &Case{ID: *id, Kind: "db", Gen: "corpus:db/" + gen, DB: ops})
		*id++
	}
	fill := []Op{up(b(0x12, 0x34), big(1)), up(b(0x12, 0x35), big(2)), up(b(0x13, 0x00), big(3)), up(b(0x55, 0x55), big(4))}
	bld := func(s int, ref bool, w ...Op) DBOp { return DBOp{K: "build", S: s, W: w, Ref: ref} }
	fresh := func(s int, seed int) DBOp { return DBOp{K: "build", S: s, Fresh: true, Seed: seed, Ref: true} }
	op := func(k string, s int) DBOp { return DBOp{K: k, S: s} }
	tr := []Op{up(b(0x77, 0x77), big(9)), del(b(0x77, 0x77))}
	// a block that changes nothing: same root held twice, the older holder lets go (StateAtBlock)
	add("noop-block-two-holders-one-released", bld(-1, true, fill...), bld(0, true, tr...), op("deref", 0), bld(1, true, up(b(0x99, 0x00), big(5))), op("deref", 1), op("flush", 2), op("reopen", 0))
	add("same-root-referenced-twice", bld(-1, true, fill...), op("ref", 0), op("deref", 0), op("deref", 0))
	add("fresh-rebuild-same-content", bld(-1, true, fill...), fresh(0, 3), op("deref", 0), fresh(1, 5), op("deref", 1), op("deref", 2))
	add("overwrite-and-restore", bld(-1, true, fill...), bld(0, true, up(b(0x12, 0x34), big(7))), bld(1, true, up(b(0x12, 0x34), big(1))), op("deref", 0), op("deref", 1), op("cap", 0), op("deref", 2))
	add("three-holders", bld(-1, true, fill...), op("ref", 0), op("ref", 0), op("deref", 0), op("deref", 0), bld(0, false, tr...), op("deref", 0))
	add("held-after-partial-cap", bld(-1, true, fill...), bld(0, true, tr...), DBOp{K: "cap", Limit: 300}, op("deref", 0), DBOp{K: "cap", Limit: 0}, op("deref", 1), op("reopen", 0))
	add("tiny-trie-root-only", bld(-1, true, up(b(1), b(1))), bld(0, true, up(b(2), b(2)), del(b(2))), op("deref", 0))
	// two layers: the same storage root under two accounts (same parent node / different parent nodes), account trie held twice
	st := []Op{up(b(0xaa, 0x01), big(1)), up(b(0xaa, 0x02), big(2)), up(b(0xbb, 0x02), big(3))}
	add("linked/two-accounts-same-storage-root", bld(-1, false, st...), bld(-1, true, lnk(b(0x10, 0x01), 0), lnk(b(0x10, 0x02), 0), lnk(b(0x20, 0x02), 0), up(b(0x30, 0x00), big(8))),
		bld(1, true, tr...), op("deref", 1), bld(2, true, del(b(0x10, 0x01))), op("deref", 2), bld(3, true, del(b(0x10, 0x02))), op("deref", 3), op("flush", 4), op("reopen", 0))
	add("linked/storage-root-reached-by-two-histories", bld(-1, false, st...), bld(-1, true, lnk(b(0x10, 0x01), 0), up(b(0x30, 0x00), big(8))), DBOp{K: "build", S: 0, Fresh: true, Seed: 7},
		bld(1, true, lnk(b(0x20, 0x02), 2)), op("deref", 1), bld(3, true, del(b(0x10, 0x01))), op("deref", 3))
	return cs
}

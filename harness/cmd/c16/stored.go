package main

// Addresses handed out from STORED or CACHED bytes (second strengthening round).
//
//   - ISender cases: one history of Sender / SignerV1.Sender / From / SetFrom / Hash / AsMessage /
//     FromChain calls on ONE *types.Transaction object, by signers of several chain ids and of every
//     kind of location; the observed sequence is compared in Coq with Model.C16.run_ops (the cache
//     state machine) and, independently of the model, every returned address object must have the
//     class of its 20 bytes at the location of the signer that ASKED;
//   - senderSweep: monitor-only product filler location x filler API x asking location x asking API
//     over all 273 locations;
//   - storedSite: every decoder of a stored object that hands out Address objects (receipts, logs,
//     outbound ETXs of receipts, work-object header coinbase, transaction lists, access lists, work
//     object bodies, and decode-at-A / re-encode / decode-at-B round trips).

import (
	"bytes"
	"crypto/ecdsa"
	"fmt"
	"math/big"

	"github.com/dominant-strategies/go-quai/common"
	"github.com/dominant-strategies/go-quai/core/types"
	"github.com/dominant-strategies/go-quai/crypto"
	"google.golang.org/protobuf/proto"

	"verifharness/hlib"
)

// ---------------------------------------------------------------- case data

type TxDesc struct {
	Kind   int    `json:"kind"`             // 0 QuaiTx, 1 ExternalTx, 2 QiTx
	Chain  uint64 `json:"chain"`            // tx.ChainId()
	Key    []byte `json:"key,omitempty"`    // private key of the signer (QuaiTx)
	BadSig int    `json:"badsig,omitempty"` // 0 valid; 1 R = 0; 2 S = 0; 3 S in the upper half range
	EtxRaw []byte `json:"etxraw,omitempty"` // ExternalTx: wire bytes of etx_sender
	EtxLoc []byte `json:"etxloc,omitempty"` // ... location the object was decoded at
}

type SOp struct {
	Op    string `json:"op"` // Sender Direct From SetFrom Hash AsMsg FromChain
	Chain uint64 `json:"chain,omitempty"`
	Loc   []byte `json:"loc"`
	A     []byte `json:"a,omitempty"` // SetFrom: bytes of the address
	W     bool   `json:"w,omitempty"` // Hash: with location argument
}

type SObs struct {
	K     string `json:"k"` // addr err nil unit loc
	Class int    `json:"class,omitempty"`
	A     []byte `json:"a,omitempty"`
	IQuai bool   `json:"iquai,omitempty"`
	IQi   bool   `json:"iqi,omitempty"`
}

func (o SObs) Coq() string {
	switch o.K {
	case "addr":
		return fmt.Sprintf("SAddr %d %s %s %s", o.Class, hlib.CoqBytes(o.A), hlib.CoqBool(o.IQuai), hlib.CoqBool(o.IQi))
	case "err":
		return "SErr"
	case "nil":
		return "SNil"
	case "unit":
		return "SUnit"
	case "loc":
		return "SLoc " + hlib.CoqBytes(o.A)
	}
	panic("sobs kind " + o.K)
}

func sobsAddr(a common.Address) SObs {
	_, err := a.InternalAddress()
	if err == common.ErrNilInner {
		return SObs{K: "err"}
	}
	o := SObs{K: "addr", A: cp(a.Bytes())}
	if err != nil {
		o.Class = 1
	}
	_, e1 := a.InternalAndQuaiAddress()
	_, e2 := a.InternalAndQiAddress()
	o.IQuai, o.IQi = e1 == nil, e2 == nil
	return o
}

func (o SOp) Coq() string {
	L := hlib.CoqBytes(o.Loc)
	switch o.Op {
	case "Sender":
		return fmt.Sprintf("SSender %d %s", o.Chain, L)
	case "Direct":
		return fmt.Sprintf("SDirect %d %s", o.Chain, L)
	case "From":
		return "SFrom " + L
	case "SetFrom":
		return fmt.Sprintf("SSetFrom %s %d %s", hlib.CoqBytes(o.A), o.Chain, L)
	case "Hash":
		return "SHash " + hlib.CoqBool(o.W)
	case "AsMsg":
		return fmt.Sprintf("SAsMsg %d %s", o.Chain, L)
	case "FromChain":
		return "SFromChain " + L
	}
	panic("sop " + o.Op)
}

// ---------------------------------------------------------------- building transaction objects

type builtTx struct {
	desc   TxDesc
	inner  types.TxData // template; every run gets a fresh *Transaction (empty caches)
	etx    *types.ProtoTransaction
	digest []byte // Keccak256(pubkey[1:]) computed from the private key, not from the signature
	sender []byte // digest[12:]
}

var secpN, _ = new(big.Int).SetString("fffffffffffffffffffffffffffffffebaaedce6af48a03bbfd25e8cd0364141", 16)

func keyOf(b []byte) *ecdsa.PrivateKey {
	k := new(big.Int).SetBytes(b)
	k.Mod(k, new(big.Int).Sub(secpN, big.NewInt(1)))
	k.Add(k, big.NewInt(1))
	kb := make([]byte, 32)
	k.FillBytes(kb)
	key, err := crypto.ToECDSA(kb)
	if err != nil {
		panic(err)
	}
	return key
}

func buildTx(d TxDesc) *builtTx {
	b := &builtTx{desc: d}
	chain := new(big.Int).SetUint64(d.Chain)
	switch d.Kind {
	case 0:
		key := keyOf(d.Key)
		pub := crypto.FromECDSAPub(&key.PublicKey)
		b.digest = crypto.Keccak256(pub[1:])
		b.sender = cp(b.digest[12:])
		to := common.BytesToAddress(refNormalize([]byte{0x21, 0x05}), common.Location{0, 0})
		signed, err := types.SignNewTx(key, types.NewSigner(chain, common.Location{3, 3}), &types.QuaiTx{
			ChainID: chain, Nonce: uint64(d.Key[0]), GasPrice: big.NewInt(1), Gas: 21000, To: &to, Value: big.NewInt(1)})
		if err != nil {
			panic(err)
		}
		v, r, s := signed.GetEcdsaSignatureValues()
		switch d.BadSig {
		case 1:
			r = new(big.Int)
		case 2:
			s = new(big.Int)
		case 3:
			s = new(big.Int).Sub(secpN, s) // upper half: rejected (malleability)
		}
		b.inner = &types.QuaiTx{ChainID: chain, Nonce: uint64(d.Key[0]), GasPrice: big.NewInt(1), Gas: 21000, To: &to, Value: big.NewInt(1),
			V: new(big.Int).Set(v), R: new(big.Int).Set(r), S: new(big.Int).Set(s)}
	case 1:
		raw := d.EtxRaw
		if raw == nil {
			raw = []byte{}
		}
		b.etx = protoEtx(refNormalize([]byte{0x77}), raw)
	case 2:
		b.inner = &types.QiTx{ChainID: chain}
	}
	return b
}

func (b *builtTx) fresh() *types.Transaction {
	if b.desc.Kind == 1 {
		tx, err := wireDecode(b.etx, common.Location(cp(b.desc.EtxLoc)))
		if err != nil {
			panic(err)
		}
		return tx
	}
	return types.NewTx(b.inner)
}

func (b *builtTx) Coq() string {
	d := b.desc
	kind := []string{"TQuai", "TEtx", "TQi"}[d.Kind]
	dig := "None"
	if d.Kind == 0 && d.BadSig == 0 {
		dig = "(Some " + hlib.CoqBytes(b.digest) + ")"
	}
	return fmt.Sprintf("(mk_tx %s %d %s %s %s)", kind, d.Chain, dig, hlib.CoqBytes(d.EtxRaw), hlib.CoqBytes(d.EtxLoc))
}

// ---------------------------------------------------------------- running one history

func signerOf(chain uint64, loc []byte) types.Signer {
	return types.NewSigner(new(big.Int).SetUint64(chain), common.Location(cp(loc)))
}

func apiName(op string) string {
	switch op {
	case "Direct":
		return "SignerV1.Sender"
	case "AsMsg":
		return "AsMessage"
	}
	return op
}

// execOp runs one call on the real object; panics of the code under test become SErr
func execOp(b *builtTx, tx *types.Transaction, o SOp) (res SObs) {
	defer func() {
		if r := recover(); r != nil {
			res = SObs{K: "err"}
		}
	}()
	loc := common.Location(cp(o.Loc))
	switch o.Op {
	case "Sender":
		a, err := types.Sender(signerOf(o.Chain, o.Loc), tx)
		if err != nil {
			return SObs{K: "err"}
		}
		return sobsAddr(a)
	case "Direct":
		a, err := signerOf(o.Chain, o.Loc).Sender(tx)
		if err != nil {
			return SObs{K: "err"}
		}
		return sobsAddr(a)
	case "From":
		p := tx.From(loc)
		if p == nil {
			return SObs{K: "nil"}
		}
		return sobsAddr(*p)
	case "SetFrom":
		tx.SetFrom(common.BytesToAddress(o.A, common.Location{5, 5}), signerOf(o.Chain, o.Loc))
		return SObs{K: "unit"}
	case "Hash":
		if o.W {
			tx.Hash(o.Loc[0], o.Loc[1])
		} else {
			tx.Hash()
		}
		return SObs{K: "unit"}
	case "AsMsg":
		msg, err := tx.AsMessage(signerOf(o.Chain, o.Loc), nil)
		if err != nil {
			return SObs{K: "err"}
		}
		if b.desc.Kind == 1 {
			return sobsAddr(msg.ETXSender())
		}
		return sobsAddr(msg.From())
	case "FromChain":
		l := tx.FromChain(loc)
		return SObs{K: "loc", A: cp(l)}
	}
	panic("op " + o.Op)
}

// checkAnswer: the property's own predicate on one returned address object.
//   Quai tx (and tx.From on every type): class == (20 bytes lie in the zone of the ASKING location);
//   ETX sender (stored object, the accessor has no location of its own): class at the location the
//   object was decoded at.
func (m *monitorCtx) checkAnswer(b *builtTx, o SOp, x SObs, warm bool, setFrom bool, c any) {
	api := apiName(o.Op)
	cache := "cold"
	if warm {
		cache = "warm"
	}
	if x.K != "addr" {
		return
	}
	passThrough := b.desc.Kind == 1 && o.Op != "From"
	refLoc := o.Loc
	if passThrough {
		refLoc = b.desc.EtxLoc
	}
	inZone := refInZone(x.A, refLoc)
	if (x.Class == 0) != inZone {
		if passThrough {
			m.fail("etx-stored-sender-class api="+api, fmt.Sprintf("%s on an ETX decoded at %v returned %x as %s although the address %s that zone", api, refLoc, x.A, className(x.Class), inStr(inZone)), c)
		} else {
			m.fail(fmt.Sprintf("stored-address-class-vs-asking-location api=%s cache=%s", api, cache),
				fmt.Sprintf("%s asked at location %v (%s sender cache) returned %x as %s although the address %s that zone", api, o.Loc, cache, x.A, className(x.Class), inStr(inZone)), c)
		}
	}
	qi := x.A[1]&0x80 != 0
	if x.IQuai != (x.Class == 0 && !qi) || x.IQi != (x.Class == 0 && qi) {
		m.fail("internal-and-ledger site="+api, fmt.Sprintf("InternalAndQuai=%v InternalAndQi=%v for class %d qi %v", x.IQuai, x.IQi, x.Class, qi), c)
	}
	if passThrough {
		if !bytes.Equal(x.A, refNormalize(b.desc.EtxRaw)) {
			m.fail("etx-stored-sender-bytes api="+api, fmt.Sprintf("%s returned %x, etx_sender on the wire was %x", api, x.A, b.desc.EtxRaw), c)
		}
		return
	}
	if b.desc.Kind == 0 && !setFrom && !bytes.Equal(x.A, b.sender) {
		m.fail("sender-bytes api="+api, fmt.Sprintf("%s returned %x, the signing key's address is %x", api, x.A, b.sender), c)
	}
}

func runSenderCase(c *Case, m *monitorCtx, emit func(*Case, string)) {
	defer func() {
		if r := recover(); r != nil {
			m.fail("panic kind=ISender", fmt.Sprintf("ISender harness panicked: %v", r), c)
		}
	}()
	b := buildTx(*c.Tx)
	tx := b.fresh()
	setFrom := false
	var seq []SObs
	coqOps := make([]string, 0, len(c.Ops))
	for _, o := range c.Ops {
		warm := tx.From(common.Location{0, 0}) != nil
		x := execOp(b, tx, o)
		seq = append(seq, x)
		coqOps = append(coqOps, o.Coq())
		if o.Op == "SetFrom" {
			setFrom = true
		}
		m.checkAnswer(b, o, x, warm, setFrom, c)
		// a signed transaction with a valid signature must be recovered by a signer of its chain, and only by it
		if b.desc.Kind == 0 && !setFrom && (o.Op == "Sender" || o.Op == "Direct" || o.Op == "AsMsg") {
			wantOK := b.desc.BadSig == 0 && o.Chain == b.desc.Chain
			if wantOK != (x.K == "addr") {
				m.fail("sender-verdict api="+apiName(o.Op), fmt.Sprintf("%s with signer chain %d on a tx of chain %d (badsig %d): result %s", apiName(o.Op), o.Chain, b.desc.Chain, b.desc.BadSig, x.K), c)
			}
		}
		if o.Op == "FromChain" && x.K == "loc" && b.desc.Kind == 0 && !setFrom {
			if len(x.A) != 2 || x.A[0] != b.sender[0]>>4 || x.A[1] != b.sender[0]&0x0f {
				m.fail("fromchain-vs-sender-zone", fmt.Sprintf("FromChain = %v for sender %x", x.A, b.sender), c)
			}
		}
		m.rep.Count("sop:" + o.Op + "/" + x.K)
		if x.K == "addr" {
			m.rep.Count(fmt.Sprintf("sender-answer:%s/warm=%v/%s/locctx=%d", apiName(o.Op), warm, className(x.Class), len(o.Loc)))
		}
	}
	c.Obs = Obs{Kind: "seq", Seq: seq}
	emit(c, fmt.Sprintf("ISender %s %s", b.Coq(), hlib.CoqList(coqOps)))
	m.rep.Nontrivial(fmt.Sprintf("ISender/%d/%d/%d", c.Tx.Kind, c.Tx.BadSig, len(c.Ops)))
}

// ---------------------------------------------------------------- generator / corpus

var senderChains = []uint64{9, 1337, 1}

func homeOf(a []byte) []byte { return []byte{a[0] >> 4, a[0] & 0x0f} }

// a location drawn around the sender's own zone
func genAskLoc(r *hlib.Rng, home []byte) []byte {
	switch r.Pick(6, 4, 3, 3, 2, 1, 1) {
	case 0:
		return cp(home)
	case 1:
		return []byte{0, 0}
	case 2:
		return []byte{home[0], (home[1] + 1 + byte(r.Intn(15))) % 16} // sibling zone
	case 3:
		return []byte{byte(r.Intn(16)), byte(r.Intn(16))}
	case 4:
		return []byte{home[1], home[0]} // nibbles swapped
	case 5:
		return []byte{home[0]}
	default:
		return []byte{}
	}
}

func genSenderCase(r *hlib.Rng) *Case {
	d := TxDesc{Chain: senderChains[r.Pick(6, 2, 1)]}
	var home []byte
	switch r.Pick(12, 3, 1) {
	case 0:
		d.Key = r.Bytes(32)
		if r.Chance(12) {
			d.BadSig = 1 + r.Intn(3)
		}
		pub := crypto.FromECDSAPub(&keyOf(d.Key).PublicKey)
		home = homeOf(crypto.Keccak256(pub[1:])[12:])
	case 1:
		d.Kind = 1
		d.EtxLoc = []byte{byte(r.Intn(16)), byte(r.Intn(16))}
		d.EtxRaw = genRaw(r, d.EtxLoc)
		home = homeOf(refNormalize(d.EtxRaw))
	default:
		d.Kind = 2
		home = []byte{byte(r.Intn(16)), byte(r.Intn(16))}
	}
	c := &Case{Kind: "ISender", Tx: &d, Loc: cp(home)}
	n := 3 + r.Intn(8)
	for i := 0; i < n; i++ {
		o := SOp{Chain: d.Chain, Loc: genAskLoc(r, home)}
		if r.Chance(12) {
			o.Chain = senderChains[r.Intn(len(senderChains))]
		}
		switch r.Pick(10, 3, 5, 2, 4, 3, 2) {
		case 0:
			o.Op = "Sender"
		case 1:
			o.Op = "Direct"
		case 2:
			o.Op = "From"
		case 3:
			o.Op = "SetFrom"
			o.A = genRaw(r, home)
			if r.Chance(50) {
				o.A = genAddr(r, home)
			}
		case 4:
			o.Op = "Hash"
			if r.Chance(25) {
				o.W = true
				o.Loc = []byte{byte(r.Intn(16)), byte(r.Intn(16))}
			}
		case 5:
			o.Op = "AsMsg"
		default:
			o.Op = "FromChain"
		}
		if d.Kind == 2 && (o.Op == "Hash" || o.Op == "AsMsg") {
			o.Op = "Sender" // an unsigned QiTx skeleton cannot be hashed
		}
		c.Ops = append(c.Ops, o)
	}
	return c
}

// deterministic key whose address lies in the given zone (searched with the harness' own derivation)
func keyInZone(zone []byte, quai bool, salt byte) []byte {
	for i := 1; i < 200000; i++ {
		k := make([]byte, 32)
		k[0], k[29], k[30], k[31] = salt, byte(i>>16), byte(i>>8), byte(i)
		pub := crypto.FromECDSAPub(&keyOf(k).PublicKey)
		a := crypto.Keccak256(pub[1:])[12:]
		if a[0] == zone[0]<<4|zone[1] && (a[1] < 128) == quai {
			return k
		}
	}
	panic("no key")
}

func senderCorpus() []*Case {
	var cs []*Case
	z00, z01, z10, z21 := []byte{0, 0}, []byte{0, 1}, []byte{1, 0}, []byte{2, 1}
	mk := func(d TxDesc, home []byte, ops ...SOp) { cs = append(cs, &Case{Kind: "ISender", Tx: &d, Loc: home, Ops: ops}) }
	S := func(l []byte) SOp { return SOp{Op: "Sender", Chain: 9, Loc: l} }
	D := func(l []byte) SOp { return SOp{Op: "Direct", Chain: 9, Loc: l} }
	F := func(l []byte) SOp { return SOp{Op: "From", Loc: l} }
	M := func(l []byte) SOp { return SOp{Op: "AsMsg", Chain: 9, Loc: l} }
	FC := func(l []byte) SOp { return SOp{Op: "FromChain", Loc: l} }
	H := SOp{Op: "Hash", Loc: []byte{}}
	for i, home := range [][]byte{z01, z00, z10, z21, {15, 15}} {
		for _, quai := range []bool{true, false} {
			d := TxDesc{Chain: 9, Key: keyInZone(home, quai, byte(i))}
			other := z00
			if bytes.Equal(home, z00) {
				other = z01
			}
			// tx.Hash() first (fills the cache through a signer at Location{0,0}), then the node's own signer
			mk(d, home, H, S(home), F(home), S(other), F(other), S([]byte{home[0]}), S([]byte{}))
			// cold at one location, warm at others, back at the first
			mk(d, home, S(other), S(home), S(z10), S(z21), S(other), D(home), D(other))
			mk(d, home, S(home), S(other), F(other), F(home), M(other), M(home))
			// AsMessage (Hash + Sender) and FromChain as fillers
			mk(d, home, M(other), S(home), F(home))
			mk(d, home, FC(other), S(home), FC(home), F(other))
			mk(d, home, SOp{Op: "Hash", W: true, Loc: other}, F(home), S(home), H, S(other))
			// SetFrom by a signer of another location / of another chain
			mk(d, home, SOp{Op: "SetFrom", A: refNormalize([]byte{home[0]<<4 | home[1], 0x05, 0x07}), Chain: 9, Loc: other}, S(home), S(other), F(home), F(other))
			mk(d, home, SOp{Op: "SetFrom", A: refNormalize([]byte{0x00, 0x85}), Chain: 1337, Loc: home}, S(home), SOp{Op: "Sender", Chain: 1337, Loc: other}, F(other), H, S(home))
			// signer of another chain: error, cache untouched
			mk(d, home, SOp{Op: "Sender", Chain: 1337, Loc: home}, F(home), S(other), SOp{Op: "Sender", Chain: 1337, Loc: home}, S(home))
		}
	}
	for bs := 1; bs <= 3; bs++ {
		d := TxDesc{Chain: 9, Key: keyInZone(z01, true, 0), BadSig: bs}
		mk(d, z01, S(z01), H, F(z01), D(z00), FC(z01), M(z01))
	}
	for _, raw := range [][]byte{refNormalize([]byte{0x01, 0x05, 0x07}), refNormalize([]byte{0x10, 0x85}), append([]byte{0x00, 0x10}, bytes.Repeat([]byte{7}, 19)...), {}} {
		for _, dl := range [][]byte{z01, z10} {
			d := TxDesc{Kind: 1, Chain: 9, EtxRaw: raw, EtxLoc: dl}
			mk(d, dl, S(dl), S(z00), D(z01), F(z01), H, M(dl), M(z00), FC(z00), SOp{Op: "SetFrom", A: raw, Chain: 9, Loc: z00}, F(z01), F(z10), S(z10))
			// AsMessage on an ETX by a prime / region signer panics in ZeroAddress(s.Location()) (modelled: SErr); Sender does not
			mk(d, dl, M([]byte{}), S([]byte{}), M([]byte{1}), S([]byte{1}), D([]byte{}), F([]byte{}))
		}
	}
	mk(TxDesc{Kind: 2, Chain: 9}, z01, S(z01), D(z01), F(z01), SOp{Op: "SetFrom", A: refNormalize([]byte{0x01, 0x99}), Chain: 9, Loc: z00}, F(z01), F(z00), S(z01), FC(z01))
	return cs
}

// ---------------------------------------------------------------- monitor-only sweep: filler x asker over all locations

func senderSweep(r *hlib.Rng, m *monitorCtx, tier string) {
	keys := 4
	if tier == "thorough" {
		keys = 24
	}
	all := allLocations()
	queries := 0
	// a failing query is reported as a replayable two-step ISender case: [filler op; asking op]
	fillOp := func(b *builtTx, filler string, floc common.Location) SOp {
		o := SOp{Op: filler, Chain: b.desc.Chain, Loc: cp(floc)}
		if filler == "SetFrom" {
			o.A = cp(b.sender)
		}
		return o
	}
	ask := func(b *builtTx, tx *types.Transaction, api string, loc common.Location, filler string, floc common.Location) {
		o := SOp{Op: api, Chain: b.desc.Chain, Loc: cp(loc)}
		warm := tx.From(common.Location{0, 0}) != nil
		x := execOp(b, tx, o)
		queries++
		d := b.desc
		cs := &Case{ID: -1, Kind: "ISender", Tx: &d, Loc: homeOf(b.sender), Ops: []SOp{fillOp(b, filler, floc), o}}
		if x.K != "addr" {
			m.fail("sender-verdict api="+apiName(api), fmt.Sprintf("%s at %v after %s at %v: %s", apiName(api), loc, filler, floc, x.K), cs)
			return
		}
		m.checkAnswer(b, o, x, warm, false, cs)
	}
	fillers := []string{"Sender", "AsMsg", "FromChain", "SetFrom", "Hash"}
	for k := 0; k < keys; k++ {
		d := TxDesc{Chain: senderChains[k%2], Key: r.Bytes(32)}
		b := buildTx(d)
		home := common.Location(homeOf(b.sender))
		for fi, f := range all {
			filler := fillers[(fi+k)%len(fillers)]
			tx := b.fresh()
			if x := execOp(b, tx, fillOp(b, filler, f)); x.K == "err" {
				dd := d
				m.fail("sender-verdict api="+apiName(filler), fmt.Sprintf("%s at %v failed on a validly signed transaction", filler, f), &Case{ID: -1, Kind: "ISender", Tx: &dd, Loc: homeOf(b.sender), Ops: []SOp{fillOp(b, filler, f)}})
			}
			askers := []common.Location{f, home, {0, 0}, {home[0]}, {}, all[(fi*7+k*31+1)%len(all)], all[(fi*13+k*17+5)%len(all)]}
			if fi%64 == k%64 {
				askers = all
			}
			for ai, a := range askers {
				ask(b, tx, "Sender", a, filler, f)
				ask(b, tx, "From", a, filler, f)
				if ai%3 == 0 {
					ask(b, tx, "AsMsg", a, filler, f)
				}
			}
		}
	}
	m.rep.CountN("sweep:sender-queries", queries)
}

// ---------------------------------------------------------------- decoders of stored objects that hand out Address objects

// bytes-typed wire fields: model IWire; ProtoAddress-typed fields: model IProto
var storedWireSites = []string{"txs_to", "accesslist_direct", "header_coinbase", "receipt_etx_to", "receipt_etx_sender",
	"redecode_to", "redecode_etx_sender", "redecode_access_list", "wo_tx_to", "wo_etx_sender", "wo_coinbase", "wo_uncle_coinbase"}
var storedProtoSites = []string{"receipt_contract", "receipt_log", "receipts_contract"}

func isStoredSite(s string) bool {
	for _, x := range storedWireSites {
		if x == s {
			return true
		}
	}
	for _, x := range storedProtoSites {
		if x == s {
			return true
		}
	}
	return false
}

func roundTrip[T proto.Message](in T, out T) error {
	raw, err := proto.Marshal(in)
	if err != nil {
		return err
	}
	return proto.Unmarshal(raw, out)
}

func protoReceipt(contract []byte, logAddr []byte, etx *types.ProtoTransaction) *types.ProtoReceiptForStorage {
	p := &types.ProtoReceiptForStorage{PostStateOrStatus: []byte{1}, CumulativeGasUsed: 1, TxHash: &common.ProtoHash{Value: make([]byte, 32)}, GasUsed: 1,
		Logs: &types.ProtoLogsForStorage{}, OutboundEtxs: &types.ProtoTransactions{}}
	if contract != nil {
		p.ContractAddress = &common.ProtoAddress{Value: contract}
	}
	if logAddr != nil {
		p.Logs.Logs = []*types.ProtoLogForStorage{{Address: &common.ProtoAddress{Value: logAddr}, Data: []byte{1}}}
	}
	if etx != nil {
		p.OutboundEtxs.Transactions = []*types.ProtoTransaction{etx}
	}
	return p
}

// the other location used by the decode / re-encode / decode round trips
func otherLoc(loc common.Location, wb []byte) common.Location {
	o := common.Location{byte(len(wb)+3) % 16, byte(len(wb)*5+1) % 16}
	if len(wb) > 0 {
		o = common.Location{wb[0] >> 4, wb[0] & 0x0f} // the zone the raw first byte points at
	}
	if o.Equal(loc) {
		o = common.Location{(loc[0] + 1) % 16, loc[1]}
	}
	return o
}

// storedSite decodes a stored object carrying the raw bytes wb in one address field at location loc
// and returns the observed address plus the bytes the decoder's BytesToAddress call receives.
func storedSite(site string, wb []byte, loc common.Location) (Obs, []byte) {
	errObs := Obs{Kind: "err"}
	in := wb
	switch site {
	case "txs_to":
		var q types.ProtoTransactions
		if err := roundTrip(&types.ProtoTransactions{Transactions: []*types.ProtoTransaction{protoQuaiTx(refNormalize([]byte{1}), nil), protoQuaiTx(wb, nil)}}, &q); err != nil {
			return errObs, in
		}
		var txs types.Transactions
		if err := txs.ProtoDecode(&q, loc); err != nil || len(txs) != 2 || txs[1].To() == nil {
			return errObs, in
		}
		return obsAddr(*txs[1].To()), in
	case "accesslist_direct":
		var q types.ProtoAccessList
		if err := roundTrip(&types.ProtoAccessList{AccessTuples: []*types.ProtoAccessTuple{{Address: wb}}}, &q); err != nil {
			return errObs, in
		}
		var al types.AccessList
		if err := al.ProtoDecode(&q, loc); err != nil || len(al) != 1 {
			return errObs, in
		}
		return obsAddr(al[0].Address), in
	case "header_coinbase", "wo_coinbase", "wo_uncle_coinbase", "wo_tx_to", "wo_etx_sender":
		wo := types.EmptyWorkObject(common.ZONE_CTX)
		wo.WorkObjectHeader().SetLocation(common.Location{0, 0})
		if site == "header_coinbase" {
			p, err := wo.WorkObjectHeader().ProtoEncode()
			if err != nil {
				return errObs, in
			}
			p.PrimaryCoinbase = &common.ProtoAddress{Value: wb}
			var q types.ProtoWorkObjectHeader
			if err := roundTrip(p, &q); err != nil {
				return errObs, in
			}
			wh := new(types.WorkObjectHeader)
			if err := wh.ProtoDecode(&q, loc); err != nil {
				return errObs, in
			}
			return obsAddr(wh.PrimaryCoinbase()), in
		}
		p, err := wo.ProtoEncode(types.BlockObject)
		if err != nil {
			return errObs, in
		}
		switch site {
		case "wo_coinbase":
			p.WoHeader.PrimaryCoinbase = &common.ProtoAddress{Value: wb}
		case "wo_uncle_coinbase":
			u, err := wo.WorkObjectHeader().ProtoEncode()
			if err != nil {
				return errObs, in
			}
			u.PrimaryCoinbase = &common.ProtoAddress{Value: wb}
			p.WoBody.Uncles = &types.ProtoWorkObjectHeaders{WoHeaders: []*types.ProtoWorkObjectHeader{u}}
		case "wo_tx_to":
			p.WoBody.Transactions = &types.ProtoTransactions{Transactions: []*types.ProtoTransaction{protoQuaiTx(wb, nil)}}
		case "wo_etx_sender":
			p.WoBody.OutboundEtxs = &types.ProtoTransactions{Transactions: []*types.ProtoTransaction{protoEtx(refNormalize([]byte{0x77}), wb)}}
		}
		var q types.ProtoWorkObject
		if err := roundTrip(p, &q); err != nil {
			return errObs, in
		}
		out := new(types.WorkObject)
		if err := out.ProtoDecode(&q, loc, types.BlockObject); err != nil {
			return errObs, in
		}
		switch site {
		case "wo_coinbase":
			return obsAddr(out.PrimaryCoinbase()), in
		case "wo_uncle_coinbase":
			if len(out.Uncles()) != 1 {
				return errObs, in
			}
			return obsAddr(out.Uncles()[0].PrimaryCoinbase()), in
		case "wo_tx_to":
			if len(out.Transactions()) != 1 || out.Transactions()[0].To() == nil {
				return errObs, in
			}
			return obsAddr(*out.Transactions()[0].To()), in
		default:
			if len(out.OutboundEtxs()) != 1 {
				return errObs, in
			}
			return obsAddr(out.OutboundEtxs()[0].ETXSender()), in
		}
	case "receipt_etx_to", "receipt_etx_sender", "receipt_contract", "receipt_log", "receipts_contract":
		var p *types.ProtoReceiptForStorage
		switch site {
		case "receipt_etx_to":
			p = protoReceipt(nil, nil, protoEtx(wb, refNormalize([]byte{0x77})))
		case "receipt_etx_sender":
			p = protoReceipt(nil, nil, protoEtx(refNormalize([]byte{0x77}), wb))
		case "receipt_contract", "receipts_contract":
			p = protoReceipt(wb, refNormalize([]byte{0x31}), nil)
		case "receipt_log":
			p = protoReceipt(nil, wb, nil)
		}
		var rc *types.ReceiptForStorage
		if site == "receipts_contract" {
			var q types.ProtoReceiptsForStorage
			if err := roundTrip(&types.ProtoReceiptsForStorage{Receipts: []*types.ProtoReceiptForStorage{protoReceipt(refNormalize([]byte{2}), nil, nil), p}}, &q); err != nil {
				return errObs, in
			}
			var rs types.ReceiptsForStorage
			if err := rs.ProtoDecode(&q, loc); err != nil || len(rs) != 2 {
				return errObs, in
			}
			rc = rs[1]
		} else {
			var q types.ProtoReceiptForStorage
			if err := roundTrip(p, &q); err != nil {
				return errObs, in
			}
			rc = new(types.ReceiptForStorage)
			if err := rc.ProtoDecode(&q, loc); err != nil {
				return errObs, in
			}
		}
		switch site {
		case "receipt_etx_to":
			return obsAddr(*rc.OutboundEtxs[0].To()), in
		case "receipt_etx_sender":
			return obsAddr(rc.OutboundEtxs[0].ETXSender()), in
		case "receipt_log":
			return obsAddr(rc.Logs[0].Address), in
		default:
			return obsAddr(rc.ContractAddress), in
		}
	case "redecode_to", "redecode_etx_sender", "redecode_access_list":
		// decode at another location, re-encode the OBJECT, decode at loc: the class must be the one of loc
		var p *types.ProtoTransaction
		switch site {
		case "redecode_to":
			p = protoQuaiTx(wb, nil)
		case "redecode_etx_sender":
			p = protoEtx(refNormalize([]byte{0x77}), wb)
		default:
			p = protoQuaiTx(refNormalize([]byte{loc.BytePrefix()}), wb)
		}
		first, err := wireDecode(p, otherLoc(loc, wb))
		if err != nil {
			return errObs, in
		}
		p2, err := first.ProtoEncode()
		if err != nil {
			return errObs, in
		}
		tx, err := wireDecode(p2, loc)
		if err != nil {
			return errObs, in
		}
		in = refNormalize(wb) // what the second decoder receives
		switch site {
		case "redecode_to":
			if tx.To() == nil {
				return errObs, in
			}
			return obsAddr(*tx.To()), in
		case "redecode_etx_sender":
			return obsAddr(tx.ETXSender()), in
		default:
			if len(tx.AccessList()) != 1 {
				return errObs, in
			}
			return obsAddr(tx.AccessList()[0].Address), in
		}
	}
	panic("stored site " + site)
}

func storedCorpus() []*Case {
	var cs []*Case
	seven := func(n int) []byte { return bytes.Repeat([]byte{7}, n) }
	inputs := func(loc []byte) [][]byte {
		p := loc[0]<<4 | loc[1]
		return [][]byte{
			append([]byte{p, 0x05}, seven(18)...),      // in zone, Quai
			append([]byte{p, 0x85}, seven(18)...),      // in zone, Qi
			append([]byte{p ^ 0x01, 0x05}, seven(18)...), // sibling zone
			append([]byte{0x00, 0x05}, seven(18)...),   // zone (0,0)
			append([]byte{0x00, p}, seven(19)...),      // 21 bytes: cropped first byte decides wrongly if the raw slice is used
			append([]byte{p}, seven(18)...),            // 19 bytes
			{},
		}
	}
	for _, loc := range [][]byte{{0, 1}, {0, 0}, {2, 1}, {15, 15}} {
		for _, b := range inputs(loc) {
			for _, s := range storedWireSites {
				cs = append(cs, &Case{Kind: "IWire", Site: s, B: b, Loc: loc})
			}
			for _, s := range storedProtoSites {
				cs = append(cs, &Case{Kind: "IProto", Site: s, B: b, Loc: loc})
			}
		}
	}
	return cs
}

func genStoredCase(r *hlib.Rng) *Case {
	loc := genLoc(r)
	if len(loc) < 2 {
		loc = []byte{byte(r.Intn(16)), byte(r.Intn(16))}
	}
	if r.Chance(20) {
		return &Case{Kind: "IProto", Site: storedProtoSites[r.Intn(len(storedProtoSites))], B: genRaw(r, loc), Loc: loc}
	}
	return &Case{Kind: "IWire", Site: storedWireSites[r.Intn(len(storedWireSites))], B: genRaw(r, loc), Loc: loc}
}

// C16 harness: every address has one zone and one ledger, respected by all state.
//
//   - correspondence cases (Coq term = input + observed class/bytes/zone/ledger): every
//     constructor / decoder / predicate of common, crypto, core/types (wire decode of a
//     transaction), vm.GrindContract and EVM.Create address selection, StateDB.createObject
//     guard, ProcessQiTx output branches; targeted corpus first (F10 witnesses, boundary
//     lengths, malformed text), then random structured inputs;
//   - model-independent monitors: an independent Go reference of the partition
//     (class internal <=> zone context and byte0 == region<<4|zone; zone = nibbles of byte 0;
//     ledger = high bit of byte 1) evaluated EXHAUSTIVELY over all 65536 two-byte prefixes x
//     all 273 locations x all constructors, over lengths 0..40, on CREATE/CREATE2 through the
//     real EVM, on the account set of a StateDB and on the UTXOs created by ProcessQiTx.
package main

import (
	"bytes"
	"encoding/hex"
	"encoding/json"
	"fmt"
	"math/big"
	"strings"

	"github.com/dominant-strategies/go-quai/common"
	"github.com/dominant-strategies/go-quai/core/types"
	"github.com/dominant-strategies/go-quai/crypto"
	"github.com/dominant-strategies/go-quai/rlp"
	"google.golang.org/protobuf/proto"

	"verifharness/hlib"
)

// ---------------------------------------------------------------- observations

type Obs struct {
	Kind  string `json:"kind"` // addr err bytes bool grind
	Class int    `json:"class,omitempty"`
	A     []byte `json:"a,omitempty"`
	Zone  []byte `json:"zone,omitempty"`
	Qi    bool   `json:"qi,omitempty"`
	IQuai bool   `json:"iquai,omitempty"`
	IQi   bool   `json:"iqi,omitempty"`
	Bool  bool   `json:"bool,omitempty"`
	OK    bool   `json:"ok,omitempty"`
	Gas   uint64 `json:"gas,omitempty"`
	Seq   []SObs `json:"seq,omitempty"`
	// whole Qi transaction (qitx.go)
	QU []QEv `json:"qu,omitempty"`
	QE []QEv `json:"qe,omitempty"`
}

func (o Obs) Coq() string {
	switch o.Kind {
	case "seq":
		items := make([]string, len(o.Seq))
		for i, x := range o.Seq {
			items[i] = x.Coq()
		}
		return "OSeq " + hlib.CoqList(items)
	case "addr":
		return fmt.Sprintf("OAddr %d %s %s %s %s %s", o.Class, hlib.CoqBytes(o.A), hlib.CoqBytes(o.Zone), hlib.CoqBool(o.Qi), hlib.CoqBool(o.IQuai), hlib.CoqBool(o.IQi))
	case "err":
		return "OErr"
	case "bytes":
		return "OBytes " + hlib.CoqBytes(o.A)
	case "bool":
		return "OBool " + hlib.CoqBool(o.Bool)
	case "qi":
		return "OQi " + string(o.A)
	case "qitx":
		if !o.OK {
			return "OQiTx None"
		}
		return fmt.Sprintf("OQiTx (Some (%s, %s))", coqEvs(o.QU), coqEvs(o.QE))
	case "grind":
		if o.OK {
			return fmt.Sprintf("OGrind (GOk %s %d)", hlib.CoqBytes(o.A), o.Gas)
		}
		return "OGrind GErr"
	}
	panic("obs kind " + o.Kind)
}

func (o Obs) String() string {
	b, _ := json.Marshal(o)
	return string(b)
}

func obsAddr(a common.Address) Obs {
	_, err := a.InternalAddress()
	if err == common.ErrNilInner {
		return Obs{Kind: "err"}
	}
	o := Obs{Kind: "addr", A: cp(a.Bytes()), Zone: cp(*a.Location()), Qi: a.IsInQiLedgerScope()}
	if err != nil {
		o.Class = 1
	}
	_, e1 := a.InternalAndQuaiAddress()
	_, e2 := a.InternalAndQiAddress()
	o.IQuai, o.IQi = e1 == nil, e2 == nil
	return o
}

func cp(b []byte) []byte { return append([]byte{}, b...) }

// ---------------------------------------------------------------- cases

type Case struct {
	ID   int    `json:"id"`
	Kind string `json:"kind"`
	B    []byte `json:"b,omitempty"`
	S    string `json:"s,omitempty"` // text inputs (hex / JSON)
	Nil  bool   `json:"nil,omitempty"`
	Loc  []byte `json:"loc"`
	Site string `json:"site,omitempty"` // IWire: which wire field
	// grinding / create
	Nonce   uint64 `json:"nonce,omitempty"`
	Gas     uint64 `json:"gas,omitempty"`
	GasCost uint64 `json:"gascost,omitempty"`
	Block   uint64 `json:"block,omitempty"`
	Code    []byte `json:"code,omitempty"`
	DataLen int    `json:"datalen,omitempty"`
	// sender-cache histories (stored.go)
	Tx  *TxDesc `json:"tx,omitempty"`
	Ops []SOp   `json:"ops,omitempty"`
	// whole Qi transaction (qitx.go)
	Outs [][]byte `json:"outs,omitempty"`
	Data []byte   `json:"data,omitempty"`
	Ptn  uint64   `json:"ptn,omitempty"`
	Obs  Obs      `json:"obs"`
}

func coqStr(s string) string { return hlib.CoqBytes([]byte(s)) }

// locations: 256 zones, 16 regions, prime
func allLocations() []common.Location {
	ls := []common.Location{{}}
	for r := 0; r < common.MaxRegions; r++ {
		ls = append(ls, common.Location{byte(r)})
	}
	for r := 0; r < common.MaxRegions; r++ {
		for z := 0; z < common.MaxZones; z++ {
			ls = append(ls, common.Location{byte(r), byte(z)})
		}
	}
	return ls
}

// ---------------------------------------------------------------- independent reference

func refPrefix(loc []byte) (byte, bool) {
	if len(loc) < 2 {
		return 0, false
	}
	return loc[0]<<4 | loc[1]&0x0f | (loc[1] & 0xf0), true // valid locations have nibbles < 16
}

// refNormalize: what setBytes stores
func refNormalize(b []byte) []byte {
	out := make([]byte, 20)
	if len(b) > 20 {
		b = b[len(b)-20:]
	}
	copy(out[20-len(b):], b)
	return out
}

func refInZone(a []byte, loc []byte) bool {
	p, ok := refPrefix(loc)
	return ok && len(loc) == 2 && a[0] == p
}

type monitorCtx struct {
	rep  *hlib.Report
	seen map[string]int
}

func (m *monitorCtx) fail(sig, what string, c any) {
	m.seen[sig]++
	if m.seen[sig] <= 2 {
		m.rep.Fail(sig, what, c)
	}
}

func lenClass(n int) string {
	if n == 20 {
		return "len=20"
	}
	return "len!=20"
}

// checkAddr evaluates the partition on one observed address.
//   site: constructor name; in: decoded input bytes (what is handed to setBytes); refLoc: the
//   location the constructor classifies against.
func (m *monitorCtx) checkAddr(site string, in []byte, refLoc []byte, o Obs, c any) {
	if o.Kind != "addr" {
		m.fail("constructor-error site="+site, fmt.Sprintf("%s returned an error/nil address for input %x", site, in), c)
		return
	}
	want := refNormalize(in)
	if !bytes.Equal(o.A, want) {
		m.fail("bytes site="+site, fmt.Sprintf("%s stored %x, expected %x", site, o.A, want), c)
		return
	}
	if len(o.Zone) != 2 || o.Zone[0] != o.A[0]>>4 || o.Zone[1] != o.A[0]&0x0f {
		m.fail("zone-of site="+site, fmt.Sprintf("Location() of %x is %v", o.A, o.Zone), c)
	}
	if o.Qi != (o.A[1]&0x80 != 0) {
		m.fail("ledger-of site="+site, fmt.Sprintf("IsInQiLedgerScope of %x is %v", o.A, o.Qi), c)
	}
	inZone := refInZone(o.A, refLoc)
	if (o.Class == 0) != inZone {
		m.fail(fmt.Sprintf("class-vs-zone %s site=%s", lenClass(len(in)), site),
			fmt.Sprintf("%s(%x, loc %v) is %s but the stored address %x %s zone %v", site, in, refLoc, className(o.Class), o.A, inStr(inZone), refLoc), c)
	}
	if o.IQuai != (o.Class == 0 && !o.Qi) || o.IQi != (o.Class == 0 && o.Qi) {
		m.fail("internal-and-ledger site="+site, fmt.Sprintf("InternalAndQuai=%v InternalAndQi=%v for class %d qi %v", o.IQuai, o.IQi, o.Class, o.Qi), c)
	}
}

func className(c int) string {
	if c == 0 {
		return "INTERNAL"
	}
	return "EXTERNAL"
}
func inStr(b bool) string {
	if b {
		return "is in"
	}
	return "is NOT in"
}

// ---------------------------------------------------------------- running one case on the real code

func protoQuaiTx(to []byte, al []byte) *types.ProtoTransaction {
	t := uint64(types.QuaiTxType)
	n, g := uint64(1), uint64(21000)
	p := &types.ProtoTransaction{Type: &t, Nonce: &n, Gas: &g, Value: []byte{1}, GasPrice: []byte{1}, Data: []byte{},
		ChainId: []byte{9}, V: []byte{}, R: []byte{}, S: []byte{}, AccessList: &types.ProtoAccessList{}}
	if to != nil {
		p.To = to
	}
	if al != nil {
		p.AccessList.AccessTuples = []*types.ProtoAccessTuple{{Address: al}}
	}
	return p
}

func protoEtx(to, sender []byte) *types.ProtoTransaction {
	t := uint64(types.ExternalTxType)
	g := uint64(21000)
	idx := uint32(0)
	et := uint64(0)
	return &types.ProtoTransaction{Type: &t, Gas: &g, Value: []byte{1}, Data: []byte{}, To: to, EtxSender: sender,
		AccessList: &types.ProtoAccessList{}, OriginatingTxHash: &common.ProtoHash{Value: make([]byte, 32)}, EtxIndex: &idx, EtxType: &et}
}

// wireDecode: marshal to protobuf wire bytes, unmarshal, Transaction.ProtoDecode — the network path
func wireDecode(p *types.ProtoTransaction, loc common.Location) (*types.Transaction, error) {
	raw, err := proto.Marshal(p)
	if err != nil {
		return nil, err
	}
	q := new(types.ProtoTransaction)
	if err := proto.Unmarshal(raw, q); err != nil {
		return nil, err
	}
	tx := new(types.Transaction)
	if err := tx.ProtoDecode(q, loc); err != nil {
		return nil, err
	}
	return tx, nil
}

func (c *Case) loc() common.Location { return common.Location(cp(c.Loc)) }

// run executes the case on the real code, fills c.Obs and returns the Coq input term plus
// (site, decoded input bytes, reference location) for the address monitor ("" = no address monitor).
func run(c *Case) (coq string, site string, in []byte, refLoc []byte) {
	loc := c.loc()
	L := hlib.CoqBytes(c.Loc)
	B := hlib.CoqBytes(c.B)
	switch c.Kind {
	case "IBytes":
		c.Obs = obsAddr(common.BytesToAddress(c.B, loc))
		return fmt.Sprintf("IBytes %s %s", B, L), "BytesToAddress", c.B, c.Loc
	case "IBytes20":
		var a [20]byte
		copy(a[:], c.B)
		c.Obs = obsAddr(common.Bytes20ToAddress(a, loc))
		return fmt.Sprintf("IBytes20 %s %s", B, L), "Bytes20ToAddress", c.B, c.Loc
	case "IHex":
		c.Obs = obsAddr(common.HexToAddress(c.S, loc))
		return fmt.Sprintf("IHex %s %s", coqStr(c.S), L), "HexToAddress", common.FromHex(c.S), c.Loc
	case "IHexBytes":
		ab := common.HexToAddressBytes(c.S)
		c.Obs = Obs{Kind: "bytes", A: cp(ab[:])}
		return fmt.Sprintf("IHexBytes %s", coqStr(c.S)), "", nil, nil
	case "IBig":
		c.Obs = obsAddr(common.BigToAddress(new(big.Int).SetBytes(c.B), loc))
		return fmt.Sprintf("IBig %s %s", B, L), "BigToAddress", new(big.Int).SetBytes(c.B).Bytes(), c.Loc
	case "IProto":
		if isStoredSite(c.Site) {
			// ProtoAddress-typed field of a stored object after a protobuf wire round trip: an empty value arrives as nil
			var in []byte
			c.Obs, in = storedSite(c.Site, c.B, loc)
			if len(c.B) == 0 {
				return fmt.Sprintf("IProto None %s", L), "", nil, nil
			}
			return fmt.Sprintf("IProto (Some %s) %s", hlib.CoqBytes(in), L), "stored/" + c.Site, in, c.Loc
		}
		var a common.Address
		var err error
		if c.Nil {
			err = a.ProtoDecode(&common.ProtoAddress{}, loc)
		} else {
			v := c.B
			if v == nil {
				v = []byte{}
			}
			err = a.ProtoDecode(&common.ProtoAddress{Value: v}, loc)
		}
		if err != nil {
			c.Obs = Obs{Kind: "err"}
			if c.Nil {
				return fmt.Sprintf("IProto None %s", L), "", nil, nil
			}
			return fmt.Sprintf("IProto (Some %s) %s", B, L), "Address.ProtoDecode", c.B, c.Loc
		}
		c.Obs = obsAddr(a)
		if c.Nil {
			return fmt.Sprintf("IProto None %s", L), "Address.ProtoDecode", nil, c.Loc
		}
		return fmt.Sprintf("IProto (Some %s) %s", B, L), "Address.ProtoDecode", c.B, c.Loc
	case "IWire":
		var p *types.ProtoTransaction
		wb := c.B
		if wb == nil {
			wb = []byte{} // present but empty on the wire (a replayed case has lost the distinction)
		}
		if isStoredSite(c.Site) {
			var in []byte
			c.Obs, in = storedSite(c.Site, wb, loc)
			return fmt.Sprintf("IWire %s %s", hlib.CoqBytes(in), L), "stored/" + c.Site, in, c.Loc
		}
		switch c.Site {
		case "to":
			p = protoQuaiTx(wb, nil)
		case "access_list":
			p = protoQuaiTx(refNormalize([]byte{loc.BytePrefix()}), wb)
		case "etx_to":
			p = protoEtx(wb, refNormalize([]byte{0x77}))
		case "etx_sender":
			p = protoEtx(refNormalize([]byte{0x77}), wb)
		}
		tx, err := wireDecode(p, loc)
		if err != nil {
			c.Obs = Obs{Kind: "err"}
		} else {
			switch c.Site {
			case "to", "etx_to":
				if tx.To() == nil {
					c.Obs = Obs{Kind: "err"}
				} else {
					c.Obs = obsAddr(*tx.To())
				}
			case "access_list":
				c.Obs = obsAddr(tx.AccessList()[0].Address)
			case "etx_sender":
				c.Obs = obsAddr(tx.ETXSender())
			}
		}
		return fmt.Sprintf("IWire %s %s", B, L), "Transaction.ProtoDecode/" + c.Site, c.B, c.Loc
	case "IRlp":
		enc, _ := rlp.EncodeToBytes(c.B)
		var a common.Address
		if err := rlp.DecodeBytes(enc, &a); err != nil {
			c.Obs = Obs{Kind: "err"}
		} else {
			c.Obs = obsAddr(a)
		}
		return fmt.Sprintf("IRlp %s", B), "Address.DecodeRLP", c.B, []byte{0, 0}
	case "IText":
		var a common.Address
		if err := a.UnmarshalText([]byte(c.S)); err != nil {
			c.Obs = Obs{Kind: "err"}
		} else {
			c.Obs = obsAddr(a)
		}
		return fmt.Sprintf("IText %s", coqStr(c.S)), "Address.UnmarshalText", textBytes(c.S), []byte{0, 0}
	case "IJson":
		var a common.Address
		if err := a.UnmarshalJSON([]byte(c.S)); err != nil {
			c.Obs = Obs{Kind: "err"}
		} else {
			c.Obs = obsAddr(a)
		}
		return fmt.Sprintf("IJson %s", coqStr(c.S)), "Address.UnmarshalJSON", jsonBytes(c.S), []byte{0, 0}
	case "IMixedJson":
		var ma common.MixedcaseAddress
		if err := ma.UnmarshalJSON([]byte(c.S)); err != nil {
			c.Obs = Obs{Kind: "err"}
		} else {
			c.Obs = obsAddr(ma.Address())
		}
		return fmt.Sprintf("IMixedJson %s", coqStr(c.S)), "MixedcaseAddress.UnmarshalJSON", jsonBytes(c.S), []byte{}
	case "IMixedStr":
		ma, err := common.NewMixedcaseAddressFromString(c.S, loc)
		if err != nil {
			c.Obs = Obs{Kind: "err"}
		} else {
			c.Obs = obsAddr(ma.Address())
		}
		return fmt.Sprintf("IMixedStr %s %s", coqStr(c.S), L), "NewMixedcaseAddressFromString", common.FromHex(c.S), c.Loc
	case "IScan":
		var a common.Address
		if err := a.Scan(c.B, loc); err != nil {
			c.Obs = Obs{Kind: "err"}
		} else {
			c.Obs = obsAddr(a)
		}
		return fmt.Sprintf("IScan %s %s", B, L), "Address.Scan", c.B, c.Loc
	case "IDigest":
		// c.B = uncompressed public key (65 bytes) or arbitrary preimage; digest recomputed independently
		d := crypto.Keccak256(c.B[1:])
		c.Obs = obsAddr(crypto.PubkeyBytesToAddress(c.B, loc))
		return fmt.Sprintf("IDigest %s %s", hlib.CoqBytes(d), L), "PubkeyBytesToAddress", d[12:], c.Loc
	case "IScope":
		c.Obs = Obs{Kind: "bool", Bool: common.IsInChainScope(c.B, loc)}
		return fmt.Sprintf("IScope %s %s", B, L), "", nil, nil
	case "ICheckQi":
		c.Obs = Obs{Kind: "bool", Bool: common.CheckIfBytesAreInternalAndQiAddress(c.B, loc) == nil}
		return fmt.Sprintf("ICheckQi %s %s", B, L), "", nil, nil
	case "IConvOut":
		c.Obs = Obs{Kind: "bool", Bool: common.IsConversionOutput(c.B, loc)}
		return fmt.Sprintf("IConvOut %s %s", B, L), "", nil, nil
	}
	panic("kind " + c.Kind)
}

// decoded payload of a 0x text / JSON string when it is well formed (for the address monitor)
func textBytes(s string) []byte {
	if len(s) >= 2 && s[0] == '0' && (s[1] == 'x' || s[1] == 'X') {
		b, err := hex.DecodeString(s[2:])
		if err == nil {
			return b
		}
	}
	return nil
}
func jsonBytes(s string) []byte {
	if len(s) == 0 {
		return make([]byte, 20)
	}
	if len(s) >= 2 && s[0] == '"' && s[len(s)-1] == '"' {
		return textBytes(s[1 : len(s)-1])
	}
	return nil
}

// ---------------------------------------------------------------- generators

func hexOf(b []byte, r *hlib.Rng) string {
	s := hex.EncodeToString(b)
	if r != nil && r.Chance(30) {
		s = strings.ToUpper(s)
	}
	return s
}

// an address whose first byte is the prefix of loc with probability ~1/2
func genAddr(r *hlib.Rng, loc []byte) []byte {
	a := r.Bytes(20)
	switch r.Pick(5, 2, 2, 1) {
	case 0:
		if len(loc) >= 2 {
			a[0] = loc[0]<<4 | loc[1]
		}
	case 1:
		a[0] = 0
	case 2: // neighbour zone
		if len(loc) >= 2 {
			a[0] = (loc[0]<<4 | loc[1]) ^ byte(1<<uint(r.Intn(8)))
		}
	}
	switch r.Pick(3, 1, 1, 1, 1) {
	case 1:
		a[1] = 127
	case 2:
		a[1] = 128
	case 3:
		a[1] = 0
	case 4:
		a[1] = 255
	}
	if r.Chance(5) {
		for i := 1; i < 20; i++ {
			a[i] = 0
		}
	}
	return a
}

func genLoc(r *hlib.Rng) []byte {
	switch r.Pick(3, 2, 8, 1, 1) {
	case 0:
		return []byte{0, 0}
	case 1:
		return []byte{byte(r.Intn(3)), byte(r.Intn(3))}
	case 2:
		return []byte{byte(r.Intn(16)), byte(r.Intn(16))}
	case 3:
		return []byte{byte(r.Intn(16))}
	default:
		return []byte{}
	}
}

// raw input of arbitrary length around an address: crop/pad shapes
func genRaw(r *hlib.Rng, loc []byte) []byte {
	a := genAddr(r, loc)
	p := byte(0)
	if len(loc) >= 2 {
		p = loc[0]<<4 | loc[1]
	}
	switch r.Pick(10, 3, 3, 2, 2, 2, 1) {
	case 0:
		return a
	case 1: // longer: extra leading bytes, first byte often the node prefix
		k := 1 + r.Intn(20)
		pre := r.Bytes(k)
		if r.Chance(50) {
			pre[0] = p
		}
		if r.Chance(30) {
			for i := range pre {
				pre[i] = 0
			}
		}
		return append(pre, a...)
	case 2: // shorter
		k := r.Intn(20)
		b := a[20-k:]
		if k > 0 && r.Chance(50) {
			b[0] = p
		}
		return cp(b)
	case 3: // 32-byte ABI word
		return append(make([]byte, 12), a...)
	case 4: // zero address of the location behind garbage (hash clause of IsInChainScope)
		z := make([]byte, 32)
		z[12] = p
		return append(r.Bytes(r.Intn(3)), z...)
	case 5:
		return []byte{}
	default:
		return r.Bytes(r.Intn(41))
	}
}

func genText(r *hlib.Rng, loc []byte) string {
	a := genAddr(r, loc)
	switch r.Pick(10, 2, 2, 2, 2, 1, 1, 1) {
	case 0:
		return "0x" + hexOf(a, r)
	case 1:
		return hexOf(a, r)
	case 2:
		return "0X" + hexOf(a, r)
	case 3: // odd length
		return "0x" + hexOf(a, r)[1:]
	case 4: // wrong length
		return "0x" + hexOf(genRaw(r, loc), r)
	case 5: // bad character somewhere
		s := []byte("0x" + hexOf(a, r))
		s[2+r.Intn(40)] = "gz x-"[r.Intn(5)]
		return string(s)
	case 6:
		return ""
	default:
		return "0x"
	}
}

func genJSON(r *hlib.Rng, loc []byte) string {
	switch r.Pick(10, 1, 1, 1, 1) {
	case 0:
		return `"` + genText(r, loc) + `"`
	case 1:
		return ""
	case 2:
		return `""`
	case 3:
		return "null"
	default:
		return `"` + genText(r, loc)
	}
}

var kinds = []string{"IBytes", "IBytes20", "IHex", "IHexBytes", "IBig", "IProto", "IWire", "IRlp", "IText", "IJson",
	"IMixedJson", "IMixedStr", "IScan", "IDigest", "IScope", "ICheckQi", "IConvOut"}
var wireSites = []string{"to", "access_list", "etx_to", "etx_sender"}

func genCase(r *hlib.Rng) *Case {
	loc := genLoc(r)
	k := kinds[r.Pick(10, 3, 5, 2, 3, 4, 8, 4, 4, 5, 2, 3, 3, 4, 6, 4, 4)]
	c := &Case{Kind: k, Loc: loc}
	switch k {
	case "IBytes", "IProto", "IRlp", "IScan", "IScope", "ICheckQi", "IConvOut", "IBig":
		c.B = genRaw(r, loc)
		if k == "IProto" && r.Chance(8) {
			c.Nil, c.B = true, nil
		}
	case "IWire":
		c.B = genRaw(r, loc)
		c.Site = wireSites[r.Intn(len(wireSites))]
		if len(loc) < 2 {
			c.Loc = []byte{byte(r.Intn(16)), byte(r.Intn(16))}
		}
	case "IBytes20":
		c.B = genAddr(r, loc)
	case "IHex", "IHexBytes", "IMixedStr", "IText":
		c.S = genText(r, loc)
	case "IJson", "IMixedJson":
		c.S = genJSON(r, loc)
	case "IDigest":
		c.B = append([]byte{4}, r.Bytes(64)...)
	}
	return c
}

// ---------------------------------------------------------------- corpus

func corpus() []*Case {
	var cs []*Case
	add := func(c *Case) { cs = append(cs, c) }
	seven := func(n int) []byte { return bytes.Repeat([]byte{7}, n) }
	// F10 witnesses, exactly the Coq ones (Proofs/C16.v f10_crop_input, f10_pad_input, f10_ext_input)
	crop := append([]byte{0x00, 0x10}, seven(19)...)
	pad := append([]byte{0x10}, seven(18)...)
	ext := append([]byte{0x55, 0x00}, seven(19)...)
	add(&Case{Kind: "IBytes", B: crop, Loc: []byte{0, 0}})
	add(&Case{Kind: "IBytes", B: pad, Loc: []byte{1, 0}})
	add(&Case{Kind: "IBytes", B: ext, Loc: []byte{0, 0}})
	// ... through the network decoder of a transaction: to / etx_sender / access list of length 19, 20, 21
	for _, site := range wireSites {
		add(&Case{Kind: "IWire", Site: site, B: crop, Loc: []byte{0, 0}})
		add(&Case{Kind: "IWire", Site: site, B: pad, Loc: []byte{1, 0}})
		add(&Case{Kind: "IWire", Site: site, B: crop[1:], Loc: []byte{1, 0}})
		add(&Case{Kind: "IWire", Site: site, B: crop[1:], Loc: []byte{0, 0}})
		add(&Case{Kind: "IWire", Site: site, B: ext, Loc: []byte{0, 0}})
		add(&Case{Kind: "IWire", Site: site, B: []byte{}, Loc: []byte{0, 0}})
		add(&Case{Kind: "IWire", Site: site, B: []byte{}, Loc: []byte{2, 1}})
	}
	add(&Case{Kind: "IProto", B: crop, Loc: []byte{0, 0}})
	add(&Case{Kind: "IProto", Nil: true, Loc: []byte{0, 0}})
	add(&Case{Kind: "IRlp", B: crop})
	add(&Case{Kind: "IRlp", B: crop[1:]})
	add(&Case{Kind: "IHex", S: "0x" + hex.EncodeToString(crop), Loc: []byte{0, 0}})
	add(&Case{Kind: "IBig", B: append([]byte{0, 5}, seven(18)...), Loc: []byte{0, 0}}) // big_to_address_refuted witness
	// BytesToAddress / IsInChainScope, every length 0..40, three locations, three first-byte shapes
	for _, loc := range [][]byte{{0, 0}, {1, 0}, {2, 3}, {15, 15}, {1}, {}} {
		p := byte(0)
		if len(loc) == 2 {
			p = loc[0]<<4 | loc[1]
		}
		for n := 0; n <= 40; n++ {
			for shape := 0; shape < 3; shape++ {
				if len(loc) < 2 && shape > 0 {
					continue
				}
				b := make([]byte, n)
				for i := range b {
					b[i] = byte(0x30 + i)
				}
				if n > 0 {
					b[0] = []byte{p, 0, 0x99}[shape]
				}
				if n > 20 && shape == 1 {
					b[n-20] = p // the byte that becomes byte 0 after cropping
				}
				add(&Case{Kind: "IBytes", B: b, Loc: loc})
				if shape == 0 {
					add(&Case{Kind: "IScope", B: b, Loc: loc})
				}
			}
		}
		// zero address of the location, alone / padded to a hash / behind garbage
		z := make([]byte, 20)
		z[0] = p
		add(&Case{Kind: "IBytes", B: z, Loc: loc})
		add(&Case{Kind: "IBytes", B: append(make([]byte, 12), z...), Loc: loc})
		add(&Case{Kind: "IBytes", B: append([]byte{9, 9}, append(make([]byte, 12), z...)...), Loc: loc})
		add(&Case{Kind: "IScope", B: append([]byte{9, 9}, append(make([]byte, 12), z...)...), Loc: loc})
	}
	// text edge cases
	good := "10" + strings.Repeat("07", 19)
	for _, s := range []string{"", "0x", "0X", "0", "x", "0x" + good, "0X" + good, good, "0x" + strings.ToUpper(good), "0x" + good[1:], "0x" + good + "00",
		"0x" + good[:38], "0xzz" + good[4:], "0x" + good[:20] + "g" + good[21:], "00x" + good, " 0x" + good, "0x" + good + " "} {
		for _, k := range []string{"IHex", "IText", "IMixedStr", "IHexBytes"} {
			add(&Case{Kind: k, S: s, Loc: []byte{1, 0}})
		}
		for _, k := range []string{"IJson", "IMixedJson"} {
			add(&Case{Kind: k, S: `"` + s + `"`, Loc: []byte{}})
		}
	}
	for _, s := range []string{"", `"`, `""`, "null", "{}", `"0x` + good, `0x` + good + `"`, `"0x00` + strings.Repeat("00", 19) + `"`} {
		add(&Case{Kind: "IJson", S: s, Loc: []byte{}})
		add(&Case{Kind: "IMixedJson", S: s, Loc: []byte{}})
	}
	// ledger boundary, predicates
	for _, b1 := range []byte{0, 1, 126, 127, 128, 129, 254, 255} {
		a := append([]byte{0x10, b1}, seven(18)...)
		for _, loc := range [][]byte{{1, 0}, {0, 0}, {1}} {
			add(&Case{Kind: "IBytes20", B: a, Loc: loc})
			add(&Case{Kind: "ICheckQi", B: a, Loc: loc})
			add(&Case{Kind: "IConvOut", B: a, Loc: loc})
			add(&Case{Kind: "IScan", B: a, Loc: loc})
		}
	}
	add(&Case{Kind: "ICheckQi", B: crop, Loc: []byte{0, 0}})
	add(&Case{Kind: "IConvOut", B: crop, Loc: []byte{0, 0}})
	add(&Case{Kind: "IScan", B: crop, Loc: []byte{0, 0}})
	return cs
}

const coqHeader = "From Coq Require Import List NArith Bool.\nFrom GQ Require Import Lib.Key Model.C16.\nImport ListNotations.\nLocal Open Scope N_scope.\n"

func main() {
	f := hlib.ParseFlags()
	hlib.QuietLogs()
	rng := hlib.NewRng(f.Seed)
	rep := hlib.NewReport("C16", "a case = one constructor/decoder/predicate call (or one GrindContract / EVM.Create / createObject / ProcessQiTx-output run) with its observed class, bytes, zone, ledger; "+
		"plus an exhaustive sweep of all 65536 (byte0, byte1) prefixes x 273 locations x constructors against an independent Go reference; "+
		"non-trivial = input is not a plain in-range 20-byte address at a zone location, or the result is internal; distinct by (kind, length class, class, ledger, location context)")
	cw := hlib.NewCaseWriter(f.Out, coqHeader, "C16.case", 220)
	mon := &monitorCtx{rep: rep, seen: map[string]int{}}

	var cases []*Case
	if f.Replay != "" {
		var c Case
		hlib.ReadReplayCase(f.Replay, &c)
		cases = append(cases, &c)
	} else {
		cases = corpus()
		cases = append(cases, senderCorpus()...)
		cases = append(cases, storedCorpus()...)
		rep.CountN("corpus", len(cases))
		for i := 0; i < f.N; i++ {
			cases = append(cases, genCase(rng.Fork()))
		}
		// addresses handed out from stored / cached bytes (stored.go); forked last so that the streams above are unchanged
		srng := hlib.NewRng(f.Seed ^ 0x5e4de2c16).Fork()
		for i := 0; i < f.N/4; i++ {
			cases = append(cases, genSenderCase(srng.Fork()))
		}
		for i := 0; i < f.N/6; i++ {
			cases = append(cases, genStoredCase(srng.Fork()))
		}
	}
	id := 0
	emit := func(c *Case, coq string) {
		c.ID = id
		cw.Add(fmt.Sprintf("(%d, %s, %s)", id, coq, c.Obs.Coq()), c)
		rep.Evaluations++
		rep.TracesValidated++
		rep.Count("kind:" + c.Kind)
		rep.Count("obs:" + c.Obs.Kind)
		if c.Obs.Kind == "addr" {
			rep.Count("class:" + className(c.Obs.Class))
		}
		rep.Count(fmt.Sprintf("locctx:%d", len(c.Loc)))
		if id < 3 {
			rep.Sample(c)
		}
		id++
	}
	for _, c := range cases {
		switch c.Kind {
		case "IGrind", "ICreate", "IGuard", "IQiOut":
			runSpecial(c, mon, emit) // replay of the EVM / state / Qi kinds
			continue
		case "CREATE2":
			runCreate2(c, mon)
			continue
		case "OPCREATE":
			runOpCreate(c, mon)
			continue
		case "ISender":
			runSenderCase(c, mon, emit)
			continue
		case "IQiTx":
			runQiTx(c, mon, emit)
			continue
		}
		func() {
			defer func() {
				if r := recover(); r != nil {
					mon.fail("panic kind="+c.Kind, fmt.Sprintf("%s panicked: %v", c.Kind, r), c)
				}
			}()
			coq, site, in, refLoc := run(c)
			emit(c, coq)
			nb := len(c.B)
			if c.S != "" {
				nb = len(in)
			}
			if c.Obs.Kind == "addr" {
				rep.Count("inlen:" + lenClass(len(in)))
			}
			if nb != 20 || c.Obs.Kind != "addr" || c.Obs.Class == 0 || len(c.Loc) != 2 {
				rep.Nontrivial(fmt.Sprintf("%s/%s/%s/%d/%v/%d", c.Kind, lenClass(nb), c.Obs.Kind, c.Obs.Class, c.Obs.Qi, len(c.Loc)))
			}
			if site != "" && in != nil && c.Obs.Kind == "addr" {
				mon.checkAddr(site, in, refLoc, c.Obs, c)
			}
			// location-less decoders against the node location of the case (property clause "identically for a given node location")
			if (c.Kind == "IRlp" || c.Kind == "IText" || c.Kind == "IJson") && c.Obs.Kind == "addr" && len(c.Loc) == 2 && len(in) == 20 {
				if (c.Obs.Class == 0) != refInZone(c.Obs.A, c.Loc) {
					mon.fail("locationless-decoder site="+site, fmt.Sprintf("%s(%x) is %s on a node at %v although the address %s that zone", site, in, className(c.Obs.Class), c.Loc, inStr(refInZone(c.Obs.A, c.Loc))), c)
				}
			}
			if site != "" && in != nil && c.Obs.Kind == "err" && (c.Kind == "IBytes" || c.Kind == "IWire" || c.Kind == "IRlp" || c.Kind == "IHex" || c.Kind == "IBig") {
				mon.fail("constructor-error site="+site, fmt.Sprintf("%s failed on %x", site, in), c)
			}
		}()
	}
	if f.Replay == "" {
		exhaustive(rng.Fork(), mon, f.Tier)
		senderSweep(hlib.NewRng(f.Seed^0x16c0ffee).Fork(), mon, f.Tier)
		evmAndState(rng.Fork(), mon, emit, f.Tier, f.N)
		qiOutputs(rng.Fork(), mon, emit, f.Tier, f.N)
		qiTxs(hlib.NewRng(f.Seed^0x16a17c5).Fork(), mon, emit, f.Tier, f.N)
		rep.Exhaustive = true
		rep.Note("exhaustive part: all 65536 two-byte prefixes (random 18-byte tails) x 273 locations (256 zones, 16 regions, prime): class of BytesToAddress and IsInChainScope at every location; every observable (bytes, Location(), ledger predicates, InternalAnd{Quai,Qi}Address, ContainsAddress) of {BytesToAddress, Bytes20ToAddress, HexToAddress, Address.ProtoDecode, Address.Scan} and CheckIfBytesAreInternalAndQiAddress / IsConversionOutput at the zone of the address, zone (0,0), one rotating zone, one region and prime (quick tier) or at all locations (thorough tier); {DecodeRLP, UnmarshalText, UnmarshalJSON, MixedcaseAddress.UnmarshalJSON} once per prefix. Random part: lengths 0..40, malformed text, protobuf wire decode of transactions, GrindContract, CREATE/CREATE2 through the EVM and the interpreter, StateDB.createObject entry points, ProcessQiTx outputs")
	}
	cw.Close()
	rep.Write(f.Out)
}

package main

// Whole Qi transactions through the real core.ProcessQiTx (extension round): several outputs, the
// three data shapes (none / 20-byte wrapping contract / 22-byte conversion refund), both sides of the
// fork params.QiWrappingChangeBlock and of the two kQuai hold intervals, duplicates against earlier
// outputs and against the owner of the spent input, node locations other than (0,0).
// Coq side: C16.qi_process / qi_view.  Observed: accepted or not; for an accepted transaction the
// UTXOs found under (tx.Hash(), i) with their RAW owner bytes and the returned ETXs (type, index,
// class and bytes of To).

import (
	"bytes"
	"fmt"
	"math/big"
	"strings"

	"github.com/btcsuite/btcd/btcec/v2/schnorr"
	"github.com/dominant-strategies/go-quai/common"
	"github.com/dominant-strategies/go-quai/core"
	"github.com/dominant-strategies/go-quai/core/rawdb"
	"github.com/dominant-strategies/go-quai/core/types"
	"github.com/dominant-strategies/go-quai/crypto"
	"github.com/dominant-strategies/go-quai/log"
	"github.com/dominant-strategies/go-quai/params"

	"verifharness/hlib"
)

type QEv struct {
	U   bool   `json:"u,omitempty"` // UTXO (else ETX)
	Ty  int    `json:"ty,omitempty"`
	Idx int    `json:"idx"`
	Cls int    `json:"cls,omitempty"`
	A   []byte `json:"a"`
}

func (e QEv) Coq() string {
	if e.U {
		return fmt.Sprintf("EvUtxo %d %s", e.Idx, hlib.CoqBytes(e.A))
	}
	return fmt.Sprintf("EvEtx %d %d %d %s", e.Ty, e.Idx, e.Cls, hlib.CoqBytes(e.A))
}

func coqEvs(es []QEv) string {
	items := make([]string, len(es))
	for i, e := range es {
		items[i] = e.Coq()
	}
	return hlib.CoqList(items)
}

func coqBytesList(bs [][]byte) string {
	items := make([]string, len(bs))
	for i, b := range bs {
		items[i] = hlib.CoqBytes(b)
	}
	return hlib.CoqList(items)
}

func qiOwner(loc common.Location) []byte {
	k := qiKey(loc)
	return cp(crypto.PubkeyBytesToAddress(k.PubKey().SerializeUncompressed(), loc).Bytes())
}

// processQiTx runs the real ProcessQiTx on a signed one-input transaction (input of the largest
// denomination, outputs of small ones: the fee always suffices) with the given outputs and data at
// prime terminus number ptn.
func processQiTx(loc common.Location, outs [][]byte, data []byte, ptn uint64) (ok bool, us, es []QEv, err error) {
	k := qiKey(loc)
	pub := k.PubKey().SerializeUncompressed()
	owner := crypto.PubkeyBytesToAddress(pub, loc)
	db := rawdb.NewMemoryDatabase(log.Global)
	var h1 common.Hash
	h1[0], h1[31] = 0xaa, 0x17
	rawdb.CreateUTXO(db, h1, 0, &types.UtxoEntry{Denomination: types.MaxDenomination, Address: owner.Bytes(), Lock: big.NewInt(0)})
	wo := types.EmptyWorkObject(common.ZONE_CTX)
	wo.WorkObjectHeader().SetLocation(loc)
	wo.WorkObjectHeader().SetNumber(big.NewInt(100))
	wo.WorkObjectHeader().SetDifficulty(new(big.Int).Exp(big.NewInt(10), big.NewInt(18), nil)) // above params.KQuaiDifficultyDivisor: the fee in Quai stays positive in every fork regime
	wo.WorkObjectHeader().SetPrimeTerminusNumber(new(big.Int).SetUint64(ptn))
	wo.Header().SetGasLimit(50000000)
	wo.Header().SetBaseFee(big.NewInt(1))
	pt := types.EmptyWorkObject(common.ZONE_CTX)
	pt.Header().SetExchangeRate(new(big.Int).Exp(big.NewInt(10), big.NewInt(26), nil)) // the fee exceeds the minimum by many orders of magnitude
	var el common.Hash
	for i := range el {
		el[i] = 0xff
	}
	pt.Header().SetEtxEligibleSlices(el)
	chain := &mockChain{pt}
	chainID := big.NewInt(9)
	signer := types.NewSigner(chainID, loc)
	var txouts types.TxOuts
	for i, a := range outs {
		txouts = append(txouts, types.TxOut{Denomination: uint8(i % 7), Address: cp(a), Lock: big.NewInt(0)})
	}
	qt := &types.QiTx{ChainID: chainID, Data: cp(data),
		TxIn:  types.TxIns{{PreviousOutPoint: types.OutPoint{TxHash: h1, Index: 0}, PubKey: pub}},
		TxOut: txouts}
	digest := signer.Hash(types.NewTx(qt))
	sig, e := schnorr.Sign(k, digest[:])
	if e != nil {
		panic(e)
	}
	qt.Signature = sig
	tx := types.NewTx(qt)
	batch := db.NewBatch()
	batch.SetPending(true)
	gp := new(types.GasPool).AddGas(wo.GasLimit())
	used := uint64(0)
	rl, pl := uint64(1)<<40, uint64(1)<<40
	ucd := &core.UtxosCreatedDeleted{AddressOutpointsToAddMap: map[[20]byte][]*types.OutpointAndDenomination{}, AddressOutpointsToRemoveMap: map[[20]byte][]*types.OutPoint{}}
	sa, sr := big.NewInt(0), big.NewInt(0)
	var etxs []*types.ExternalTx
	_, etxs, _, err, _ = core.ProcessQiTx(tx, chain, true, true, wo, batch, db, gp, &used, signer, loc, *chainID, 5.0, &rl, &pl, ucd, sa, sr, false)
	if err != nil {
		return false, nil, nil, err
	}
	for i := range outs {
		if u := rawdb.GetUTXOWithBatch(db, batch, tx.Hash(), uint16(i)); u != nil {
			us = append(us, QEv{U: true, Idx: i, A: cp(u.Address)})
		}
	}
	for _, x := range etxs {
		ev := QEv{Idx: int(x.ETXIndex), Ty: 99}
		switch x.EtxType {
		case types.DefaultType:
			ev.Ty = 0
		case types.ConversionType:
			ev.Ty = 1
		case types.WrappingQiType:
			ev.Ty = 2
		}
		if x.To == nil {
			ev.Cls, ev.A = 1, nil
		} else {
			ev.A = cp(x.To.Bytes())
			if _, e := x.To.InternalAddress(); e != nil {
				ev.Cls = 1
			}
		}
		es = append(es, ev)
	}
	return true, us, es, nil
}

func runQiTx(c *Case, m *monitorCtx, emit func(*Case, string)) {
	loc := c.loc()
	owner := qiOwner(loc)
	var ok bool
	var us, es []QEv
	var err error
	func() {
		defer func() {
			if r := recover(); r != nil {
				m.fail("panic kind=IQiTx", fmt.Sprintf("ProcessQiTx panicked: %v", r), c)
				ok, us, es = false, nil, nil
			}
		}()
		ok, us, es, err = processQiTx(loc, c.Outs, c.Data, c.Ptn)
	}()
	c.Obs = Obs{Kind: "qitx", OK: ok, QU: us, QE: es}
	emit(c, fmt.Sprintf("IQiTx %s %s %s %s %d", hlib.CoqBytes(c.Loc), coqBytesList([][]byte{owner}), coqBytesList(c.Outs), hlib.CoqBytes(c.Data), c.Ptn))

	legacy := c.Ptn < params.QiWrappingChangeBlock
	regime := "post-fork"
	if legacy {
		regime = "pre-fork"
	}
	m.rep.Count(fmt.Sprintf("qitx:datalen=%d/%s/accepted=%v", len(c.Data), regime, ok))
	m.rep.Count(fmt.Sprintf("qitx:outs=%d", len(c.Outs)))
	if !ok {
		m.rep.Nontrivial(fmt.Sprintf("IQiTx/reject/%d/%s", len(c.Data), regime))
		// reference: a transaction of distinct fresh Qi outputs and no data is always accepted
		if len(c.Data) == 0 && len(c.Outs) > 0 {
			fresh := true
			seen := map[string]bool{string(owner): true}
			for _, o := range c.Outs {
				n := refNormalize(o)
				if n[1] < 128 || seen[string(n)] {
					fresh = false
				}
				seen[string(n)] = true
			}
			if fresh {
				m.fail("qi-tx-rejected-although-all-outputs-fresh-qi", fmt.Sprintf("ProcessQiTx rejected %d fresh Qi outputs at %v: %v", len(c.Outs), c.Loc, err), c)
			}
		}
		return
	}
	var shape []string
	// model-independent: every created UTXO belongs to an in-zone Qi address
	utxoAt := map[int]bool{}
	for _, u := range us {
		utxoAt[u.Idx] = true
		n := refNormalize(u.A)
		here, qi := refInZone(n, c.Loc), n[1] >= 128
		switch {
		case here && qi:
			shape = append(shape, "U")
		case here && !qi && legacy && len(c.Data) == common.AddressLength:
			// the wrapping branch before params.QiWrappingChangeBlock falls through to the local UTXO part:
			// a UTXO owned by an in-zone QUAI-ledger address (historical consensus rule, see design/C16.md)
			shape = append(shape, "Ulegacy")
			m.rep.Count("qitx:legacy-wrap-utxo-for-quai-address")
		default:
			m.fail("qi-utxo-for-quai-or-foreign-address", fmt.Sprintf("UTXO %d created for %x at %v (data %d bytes, prime terminus %d)", u.Idx, u.A, c.Loc, len(c.Data), c.Ptn), c)
		}
		if u.Idx >= len(c.Outs) || !bytes.Equal(u.A, c.Outs[u.Idx]) {
			m.fail("qi-utxo-owner-differs-from-output", fmt.Sprintf("UTXO %d owner %x", u.Idx, u.A), c)
		}
		if len(u.A) != 20 {
			m.fail("qi-utxo-owner-raw len!=20", fmt.Sprintf("ProcessQiTx stored a UTXO whose owner field is the %d-byte string %x", len(u.A), u.A), c)
		}
	}
	etxAt := map[int]bool{}
	agg := 0
	for _, e := range es {
		if len(e.A) != 20 {
			m.fail("qi-etx-to-nil", fmt.Sprintf("ETX type %d without a 20-byte To", e.Ty), c)
			continue
		}
		here, qi := refInZone(e.A, c.Loc), e.A[1] >= 128
		switch e.Ty {
		case 0:
			etxAt[e.Idx] = true
			shape = append(shape, "E")
			if here || !qi || e.Cls != 1 {
				m.fail("qi-etx-to-own-zone-or-quai", fmt.Sprintf("Qi ETX %d to %x (class %d) emitted at %v", e.Idx, e.A, e.Cls, c.Loc), c)
			}
		case 1, 2:
			agg++
			shape = append(shape, fmt.Sprintf("A%d", e.Ty))
			if !here || qi || e.Cls != 0 {
				m.fail("qi-aggregate-etx-to-foreign-or-qi", fmt.Sprintf("conversion/wrapping ETX (type %d) to %x (class %d) emitted at %v", e.Ty, e.A, e.Cls, c.Loc), c)
			}
			if (e.Ty == 1) != (len(c.Data) == params.MaxQiTxDataLength) {
				m.fail("qi-aggregate-etx-type-vs-data", fmt.Sprintf("ETX type %d with %d data bytes", e.Ty, len(c.Data)), c)
			}
		default:
			m.fail("qi-etx-unknown-type", fmt.Sprintf("ETX type %d", e.Ty), c)
		}
	}
	if agg > 1 {
		m.fail("qi-aggregate-etx-more-than-one", fmt.Sprintf("%d aggregated ETXs", agg), c)
	}
	// disposition of every output of an ACCEPTED transaction, from the address alone
	seen := map[string]bool{string(owner): true}
	nAgg := 0
	for i, o := range c.Outs {
		n := refNormalize(o)
		here, qi := refInZone(n, c.Loc), n[1] >= 128
		switch {
		case qi && here:
			if !utxoAt[i] || etxAt[i] {
				m.fail("qi-output-disposition", fmt.Sprintf("in-zone Qi output %d (%x) of an accepted tx: utxo=%v etx=%v", i, o, utxoAt[i], etxAt[i]), c)
			}
		case qi && !here:
			if utxoAt[i] || !etxAt[i] {
				m.fail("qi-output-disposition", fmt.Sprintf("foreign Qi output %d (%x) of an accepted tx: utxo=%v etx=%v", i, o, utxoAt[i], etxAt[i]), c)
			}
		case !qi && here && (len(c.Data) == 20 || len(c.Data) == params.MaxQiTxDataLength):
			nAgg++
			wantU := legacy && len(c.Data) == 20
			if utxoAt[i] != wantU || etxAt[i] {
				m.fail("qi-output-disposition", fmt.Sprintf("in-zone Quai output %d (%x), %d data bytes, prime terminus %d: utxo=%v etx=%v", i, o, len(c.Data), c.Ptn, utxoAt[i], etxAt[i]), c)
			}
		default:
			m.fail("qi-output-accepted-for-quai-or-foreign-address", fmt.Sprintf("accepted tx has output %d to %x at %v with %d data bytes", i, o, c.Loc, len(c.Data)), c)
		}
		if qi {
			if seen[string(n)] {
				m.fail("qi-address-reuse-accepted", fmt.Sprintf("accepted tx reuses address %x (output %d)", n, i), c)
			}
			seen[string(n)] = true
		}
	}
	if (nAgg > 0) != (agg == 1) {
		m.fail("qi-aggregate-etx-vs-outputs", fmt.Sprintf("%d aggregated outputs, %d aggregate ETXs", nAgg, agg), c)
	}
	m.rep.Nontrivial(fmt.Sprintf("IQiTx/%s/%d/%s", strings.Join(shape, ""), len(c.Data), regime))
}

// output address shapes relative to the node location
func qiTxAddr(r *hlib.Rng, loc []byte, kind int) []byte {
	p := loc[0]<<4 | loc[1]
	a := r.Bytes(20)
	switch kind {
	case 0: // in-zone Qi
		a[0], a[1] = p, 0x80|a[1]
	case 1: // in-zone Quai
		a[0], a[1] = p, 0x7f&a[1]
	case 2: // sibling zone Qi
		a[0], a[1] = p^0x01, 0x80|a[1]
	case 3: // other region Qi
		a[0], a[1] = p^0x10, 0x80|a[1]
	case 4: // foreign Quai
		a[0], a[1] = p^0x11, 0x7f&a[1]
	case 5: // ledger boundary, in zone
		a[0], a[1] = p, []byte{0x7f, 0x80}[r.Intn(2)]
	case 6: // 21 bytes: a leading byte that is cropped away, then an in-zone Qi address
		a[0], a[1] = p, 0x80|a[1]
		return append([]byte{[]byte{p, 0x55, 0x00}[r.Intn(3)]}, a...)
	case 7: // nibbles swapped
		a[0], a[1] = loc[1]<<4|loc[0], 0x80|a[1]
	}
	return a
}

func qiTxs(r *hlib.Rng, m *monitorCtx, emit func(*Case, string), tier string, n int) {
	fork := params.QiWrappingChangeBlock
	hold := params.KQuaiChangeHoldInterval
	ptns := []uint64{0, fork - 1, fork, fork + 1, params.KawPowForkBlock - 1, params.KawPowForkBlock, params.KawPowForkBlock + hold - 1, params.KawPowForkBlock + hold,
		params.ShaEquivalentDifficultyForkBlock - 1, params.ShaEquivalentDifficultyForkBlock, params.ShaEquivalentDifficultyForkBlock + hold - 1, params.ShaEquivalentDifficultyForkBlock + hold, 3000000}
	locs := [][]byte{{0, 0}, {1, 2}, {0, 1}, {15, 15}, {2, 1}}
	var cs []*Case
	add := func(loc []byte, data []byte, ptn uint64, outs ...[]byte) {
		cs = append(cs, &Case{Kind: "IQiTx", Loc: cp(loc), Outs: outs, Data: data, Ptn: ptn})
	}
	quaiData := func(loc []byte, inZone bool) []byte { // 20-byte wrapping contract
		d := qiTxAddr(r, loc, 1)
		if !inZone {
			d[0] ^= 0x10
		}
		return d
	}
	convData := func(loc []byte, qiRefund bool) []byte { // 2 bytes slip + 20-byte refund address
		ref := qiTxAddr(r, loc, 0)
		if !qiRefund {
			ref[1] &= 0x7f
		}
		return append([]byte{0, 5}, ref...)
	}
	for _, loc := range locs {
		own := qiOwner(common.Location(loc))
		for _, ptn := range []uint64{0, fork - 1, fork, 3000000} {
			// the witness of qi_tx_utxo_for_quai_address_before_fork_refuted: one in-zone Quai output, wrapping data
			add(loc, quaiData(loc, true), ptn, qiTxAddr(r, loc, 1))
			// wrapping next to ordinary Qi outputs; two wrapped outputs; wrapping contract of another zone (rejected)
			add(loc, quaiData(loc, true), ptn, qiTxAddr(r, loc, 0), qiTxAddr(r, loc, 1), qiTxAddr(r, loc, 2))
			add(loc, quaiData(loc, true), ptn, qiTxAddr(r, loc, 1), qiTxAddr(r, loc, 1))
			add(loc, quaiData(loc, false), ptn, qiTxAddr(r, loc, 1))
			// conversion: one, two equal, two different (rejected), with Qi outputs around, Quai refund (rejected)
			q := qiTxAddr(r, loc, 1)
			add(loc, convData(loc, true), ptn, q)
			add(loc, convData(loc, true), ptn, q, qiTxAddr(r, loc, 0), q)
			add(loc, convData(loc, true), ptn, q, qiTxAddr(r, loc, 1))
			add(loc, convData(loc, true), ptn, qiTxAddr(r, loc, 3), q, qiTxAddr(r, loc, 0))
			add(loc, convData(loc, false), ptn, q)
		}
		// no data: in-zone Quai / foreign Quai rejected wherever it stands; duplicates; the input owner as output
		a0, a2 := qiTxAddr(r, loc, 0), qiTxAddr(r, loc, 2)
		add(loc, nil, fork, a0, a2, qiTxAddr(r, loc, 3), qiTxAddr(r, loc, 5))
		add(loc, nil, fork, a0, qiTxAddr(r, loc, 1))
		add(loc, nil, fork, qiTxAddr(r, loc, 4), a0)
		add(loc, nil, fork, a0, a2, a0)
		add(loc, nil, fork, a2, a0, a2)
		add(loc, nil, fork, a0, own)
		add(loc, nil, 0, qiTxAddr(r, loc, 6), a0)
		add(loc, nil, 0, append([]byte{0x33}, a0...), a0) // 21 bytes cropping to an address already used
		add(loc, nil, 0)                                   // no outputs at all
		// foreign Quai address with wrapping / conversion data; data of a length that is neither 0, 20 nor 22
		add(loc, quaiData(loc, true), fork, qiTxAddr(r, loc, 4))
		add(loc, convData(loc, true), fork, qiTxAddr(r, loc, 4))
		add(loc, r.Bytes(21), fork, a0)
		add(loc, r.Bytes(1), fork, a0)
		add(loc, r.Bytes(23), fork, a0)
	}
	// conversions on both sides of every boundary of the kQuai hold intervals
	for _, ptn := range ptns {
		loc := locs[1]
		add(loc, convData(loc, true), ptn, qiTxAddr(r, loc, 1), qiTxAddr(r, loc, 0))
		add(loc, quaiData(loc, true), ptn, qiTxAddr(r, loc, 1), qiTxAddr(r, loc, 2))
	}
	k := n / 3
	if k < 60 {
		k = 60
	}
	for i := 0; i < k; i++ {
		loc := locs[r.Intn(len(locs))]
		if r.Chance(25) {
			loc = []byte{byte(r.Intn(16)), byte(r.Intn(16))}
		}
		var data []byte
		switch r.Pick(4, 3, 3, 1) {
		case 1:
			data = quaiData(loc, !r.Chance(10))
			if r.Chance(8) {
				data[1] |= 0x80
			}
		case 2:
			data = convData(loc, !r.Chance(10))
		case 3:
			data = r.Bytes(1 + r.Intn(30))
		}
		no := 1 + r.Intn(6)
		var outs [][]byte
		for j := 0; j < no; j++ {
			var w []int
			if len(data) == 0 {
				w = []int{10, 1, 5, 4, 1, 2, 1, 2}
			} else {
				w = []int{6, 8, 4, 3, 1, 2, 1, 1}
			}
			o := qiTxAddr(r, loc, r.Pick(w...))
			if j > 0 && r.Chance(12) {
				o = cp(outs[r.Intn(j)])
			}
			outs = append(outs, o)
		}
		add(loc, data, ptns[r.Intn(len(ptns))], outs...)
	}
	for _, c := range cs {
		runQiTx(c, m, emit)
	}
}

package main

import (
	"encoding/hex"
	"fmt"
	"sync"

	"github.com/dominant-strategies/go-quai/common"
	"github.com/dominant-strategies/go-quai/rlp"

	"verifharness/hlib"
)

type exCase struct {
	ID   int    `json:"id"`
	Kind string `json:"kind"`
	B    []byte `json:"b"`
	S    string `json:"s,omitempty"`
	Loc  []byte `json:"loc"`
}

// exhaustive sweeps all 65536 (byte0, byte1) prefixes (random 18-byte tail each) over all 273
// locations and all constructors, against the independent reference:
//   class internal <=> len(loc) == 2 && a[0] == loc[0]*16+loc[1];  zone = nibbles of a[0];
//   Qi <=> a[1] >= 128;  InternalAndQuai <=> internal && !Qi;  InternalAndQi <=> internal && Qi.
// Failures are reported with a replayable ordinary case (id -1: not part of the Coq shards).
type exFail struct {
	sig, what string
	c         *Case
}

func exhaustive(r *hlib.Rng, m *monitorCtx, tier string) {
	// one deterministic PRNG stream per first byte; 8 workers; results merged in order of p0
	rngs := make([]*hlib.Rng, 256)
	for i := range rngs {
		rngs[i] = r.Fork()
	}
	counts := make([]int, 256)
	fails := make([][]exFail, 256)
	var wg sync.WaitGroup
	next := make(chan int, 256)
	for p0 := 0; p0 < 256; p0++ {
		next <- p0
	}
	close(next)
	for w := 0; w < 8; w++ {
		wg.Add(1)
		go func() {
			defer wg.Done()
			for p0 := range next {
				counts[p0], fails[p0] = exhaustiveP0(rngs[p0], p0, tier)
			}
		}()
	}
	wg.Wait()
	n := 0
	for p0 := 0; p0 < 256; p0++ {
		n += counts[p0]
		for _, f := range fails[p0] {
			m.fail(f.sig, f.what, f.c)
		}
	}
	m.rep.Evaluations += n
	m.rep.CountN("exhaustive-evaluations", n)
}

func exhaustiveP0(r *hlib.Rng, p0 int, tier string) (int, []exFail) {
	locs := allLocations()
	n := 0
	var out []exFail
	perSig := map[string]int{}
	bad := func(site string, a []byte, loc []byte, what string) {
		kind := map[string]string{"BytesToAddress": "IBytes", "Bytes20ToAddress": "IBytes20", "HexToAddress": "IHex", "Address.ProtoDecode": "IProto",
			"Address.Scan": "IScan", "IsInChainScope": "IScope", "CheckIfBytesAreInternalAndQiAddress": "ICheckQi", "IsConversionOutput": "IConvOut",
			"Address.DecodeRLP": "IRlp", "Address.UnmarshalText": "IText", "Address.UnmarshalJSON": "IJson", "MixedcaseAddress.UnmarshalJSON": "IMixedJson"}[site]
		c := &Case{ID: -1, Kind: kind, B: cp(a), Loc: cp(loc)}
		switch kind {
		case "IHex", "IText":
			c.S, c.B = "0x"+hex.EncodeToString(a), nil
		case "IJson", "IMixedJson":
			c.S, c.B = `"0x`+hex.EncodeToString(a)+`"`, nil
		}
		sig := what + " site=" + site
		perSig[sig]++
		if perSig[sig] <= 2 {
			out = append(out, exFail{sig, fmt.Sprintf("exhaustive sweep: %s on %x at location %v: %s", site, a, loc, what), c})
		}
	}
	checkObj := func(site string, x common.Address, a []byte, loc []byte) {
		n++
		_, err := x.InternalAddress()
		internal := err == nil
		want := refInZone(a, loc)
		xb := x.Bytes()
		if len(xb) != 20 || string(xb) != string(a) {
			bad(site, a, loc, "bytes")
			return
		}
		if internal != want {
			bad(site, a, loc, "class-vs-zone len=20")
		}
		z := *x.Location()
		if len(z) != 2 || z[0] != a[0]>>4 || z[1] != a[0]&15 {
			bad(site, a, loc, "zone-of")
		}
		qi := a[1] >= 128
		if x.IsInQiLedgerScope() != qi || x.IsInQuaiLedgerScope() == qi {
			bad(site, a, loc, "ledger-of")
		}
		_, e1 := x.InternalAndQuaiAddress()
		_, e2 := x.InternalAndQiAddress()
		if (e1 == nil) != (internal && !qi) || (e2 == nil) != (internal && qi) {
			bad(site, a, loc, "internal-and-ledger")
		}
		if loc := common.Location(loc); loc.ContainsAddress(x) != want {
			bad(site, a, loc, "contains-address")
		}
	}
	hexbuf := make([]byte, 42)
	hexbuf[0], hexbuf[1] = '0', 'x'
	jsonbuf := make([]byte, 44)
	jsonbuf[0], jsonbuf[43] = '"', '"'
	jsonbuf[1], jsonbuf[2] = '0', 'x'
	full := tier == "thorough"
	{
		for p1 := 0; p1 < 256; p1++ {
			a := r.Bytes(20)
			a[0], a[1] = byte(p0), byte(p1)
			var a20 [20]byte
			copy(a20[:], a)
			hex.Encode(hexbuf[2:], a)
			hs := string(hexbuf)
			ab := common.AddressBytes(a20)
			if ab.IsInQiLedgerScope() != (p1 >= 128) || ab.IsInQuaiLedgerScope() == (p1 >= 128) || ab.Location().Region() != p0>>4 || ab.Location().Zone() != p0&15 {
				bad("BytesToAddress", a, []byte{0, 0}, "ledger-of")
			}
			// location-less decoders, once per prefix (reference location (0,0); prime for Mixedcase)
			var d1, d2, d3 common.Address
			enc, _ := rlp.EncodeToBytes(a)
			if err := rlp.DecodeBytes(enc, &d1); err != nil {
				bad("Address.DecodeRLP", a, []byte{0, 0}, "constructor-error")
			} else {
				checkObj("Address.DecodeRLP", d1, a, []byte{0, 0})
			}
			if err := d2.UnmarshalText(hexbuf); err != nil {
				bad("Address.UnmarshalText", a, []byte{0, 0}, "constructor-error")
			} else {
				checkObj("Address.UnmarshalText", d2, a, []byte{0, 0})
			}
			copy(jsonbuf[3:], hexbuf[2:])
			if err := d3.UnmarshalJSON(jsonbuf); err != nil {
				bad("Address.UnmarshalJSON", a, []byte{0, 0}, "constructor-error")
			} else {
				checkObj("Address.UnmarshalJSON", d3, a, []byte{0, 0})
			}
			var ma common.MixedcaseAddress
			if err := ma.UnmarshalJSON(jsonbuf); err != nil {
				bad("MixedcaseAddress.UnmarshalJSON", a, []byte{}, "constructor-error")
			} else {
				checkObj("MixedcaseAddress.UnmarshalJSON", ma.Address(), a, []byte{})
			}
			_, dInternal := d1.InternalAddress()
			for li, loc := range locs {
				x := common.BytesToAddress(a, loc)
				want := refInZone(a, loc)
				// all observables at the selected locations (all of them in the thorough tier; in the quick tier
				// the zone of the address, zone (0,0), one rotating zone, one region and prime); at the other
				// locations the class and IsInChainScope only (zone/ledger/bytes do not depend on the location)
				sel := full || li == 0 || li == 1+p0>>4 || li == 17+p0 || li == 17 || li == 17+(p0*7+p1)%256
				if sel {
					checkObj("BytesToAddress", x, a, loc)
				} else {
					n++
					if _, err := x.InternalAddress(); (err == nil) != want {
						bad("BytesToAddress", a, loc, "class-vs-zone len=20")
					}
				}
				n++
				if common.IsInChainScope(a, loc) != want {
					bad("IsInChainScope", a, loc, "scope-vs-zone len=20")
				}
				if sel {
					checkObj("Bytes20ToAddress", common.Bytes20ToAddress(a20, loc), a, loc)
					checkObj("HexToAddress", common.HexToAddress(hs, loc), a, loc)
					var pa, sa common.Address
					if err := pa.ProtoDecode(&common.ProtoAddress{Value: a}, loc); err != nil {
						bad("Address.ProtoDecode", a, loc, "constructor-error")
					} else {
						checkObj("Address.ProtoDecode", pa, a, loc)
					}
					if err := sa.Scan(a, loc); err != nil {
						bad("Address.Scan", a, loc, "constructor-error")
					} else {
						checkObj("Address.Scan", sa, a, loc)
					}
					n += 2
					if (common.CheckIfBytesAreInternalAndQiAddress(a, loc) == nil) != (want && p1 >= 128) {
						bad("CheckIfBytesAreInternalAndQiAddress", a, loc, "predicate-vs-class")
					}
					if common.IsConversionOutput(a, loc) != (want && p1 < 128) {
						bad("IsConversionOutput", a, loc, "predicate-vs-class")
					}
				}
				// property clause "every constructor and decoder classifies identically for a given node
				// location": the location-less decoders against the node's BytesToAddress
				if len(loc) == 2 && (dInternal == nil) != want {
					bad("Address.DecodeRLP", a, loc, "locationless-decoder")
				}
			}
		}
	}
	return n, out
}

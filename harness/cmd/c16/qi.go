package main

import (
	"fmt"
	"math/big"

	"github.com/btcsuite/btcd/btcec/v2"
	"github.com/btcsuite/btcd/btcec/v2/schnorr"
	"github.com/dominant-strategies/go-quai/common"
	"github.com/dominant-strategies/go-quai/consensus"
	"github.com/dominant-strategies/go-quai/core"
	"github.com/dominant-strategies/go-quai/core/rawdb"
	"github.com/dominant-strategies/go-quai/core/types"
	"github.com/dominant-strategies/go-quai/crypto"
	"github.com/dominant-strategies/go-quai/log"
	"github.com/dominant-strategies/go-quai/params"

	"verifharness/hlib"
)

type mockChain struct{ pt *types.WorkObject }

func (m *mockChain) Engine(*types.WorkObjectHeader) consensus.Engine          { return nil }
func (m *mockChain) GetHeaderOrCandidateByHash(common.Hash) *types.WorkObject { return m.pt }
func (m *mockChain) NodeCtx() int                                             { return common.ZONE_CTX }
func (m *mockChain) IsGenesisHash(common.Hash) bool                           { return false }
func (m *mockChain) GetHeaderByHash(common.Hash) *types.WorkObject            { return m.pt }
func (m *mockChain) GetBlockByHash(common.Hash) *types.WorkObject             { return m.pt }
func (m *mockChain) CheckIfEtxIsEligible(h common.Hash, l common.Location) bool {
	return (*core.HeaderChain)(nil).CheckIfEtxIsEligible(h, l)
}
func (m *mockChain) CheckInCalcOrderCache(common.Hash) (*big.Int, int, bool) { return nil, 0, false }
func (m *mockChain) AddToCalcOrderCache(common.Hash, int, *big.Int)          {}
func (m *mockChain) CalcBaseFee(*types.WorkObject) *big.Int                  { return big.NewInt(1) }
func (m *mockChain) CalcOrder(*types.WorkObject) (*big.Int, int, error)      { return nil, 0, nil }

// a key whose address is in the Qi ledger of loc (deterministic per location)
var qiKeys = map[string]*btcec.PrivateKey{}

func qiKey(loc common.Location) *btcec.PrivateKey {
	if k, ok := qiKeys[string(loc)]; ok {
		return k
	}
	r := hlib.NewRng(uint64(loc[0])*16 + uint64(loc[1]) + 1000)
	for {
		k, _ := btcec.PrivKeyFromBytes(r.Bytes(32))
		a := crypto.PubkeyBytesToAddress(k.PubKey().SerializeUncompressed(), loc)
		if a.Location().Equal(loc) && a.IsInQiLedgerScope() {
			qiKeys[string(loc)] = k
			return k
		}
	}
}

// processOneOutput runs the real ProcessQiTx on a signed one-input transaction whose single output
// pays to `addr` (raw bytes, any length).  Returns the class of the outcome, the UTXO stored for
// output 0 (if any) and the ETXs emitted.
func processOneOutput(loc common.Location, addr []byte, data []byte, index bool) (class string, stored *types.UtxoEntry, etxs []*types.ExternalTx, err error) {
	k := qiKey(loc)
	pub := k.PubKey().SerializeUncompressed()
	owner := crypto.PubkeyBytesToAddress(pub, loc)
	db := rawdb.NewMemoryDatabase(log.Global)
	var h1 common.Hash
	h1[0], h1[31] = 0xaa, 0x16
	rawdb.CreateUTXO(db, h1, 0, &types.UtxoEntry{Denomination: 12, Address: owner.Bytes(), Lock: big.NewInt(0)})
	wo := types.EmptyWorkObject(common.ZONE_CTX)
	wo.WorkObjectHeader().SetLocation(loc)
	wo.WorkObjectHeader().SetNumber(big.NewInt(100))
	wo.WorkObjectHeader().SetDifficulty(big.NewInt(1000000000))
	wo.WorkObjectHeader().SetPrimeTerminusNumber(big.NewInt(0))
	wo.Header().SetGasLimit(5000000)
	wo.Header().SetBaseFee(big.NewInt(1))
	pt := types.EmptyWorkObject(common.ZONE_CTX)
	pt.Header().SetExchangeRate(big.NewInt(100000000000000))
	var el common.Hash
	for i := range el {
		el[i] = 0xff
	}
	pt.Header().SetEtxEligibleSlices(el)
	chain := &mockChain{pt}
	chainID := big.NewInt(9)
	signer := types.NewSigner(chainID, loc)
	qt := &types.QiTx{ChainID: chainID, Data: data,
		TxIn:  types.TxIns{{PreviousOutPoint: types.OutPoint{TxHash: h1, Index: 0}, PubKey: pub}},
		TxOut: types.TxOuts{{Denomination: 10, Address: addr, Lock: big.NewInt(0)}}}
	digest := signer.Hash(types.NewTx(qt))
	sig, e := schnorr.Sign(k, digest[:])
	if e != nil {
		panic(e)
	}
	qt.Signature = sig
	tx := types.NewTx(qt)
	batch := db.NewBatch()
	batch.SetPending(true)
	gp := new(types.GasPool).AddGas(wo.GasLimit())
	used := uint64(0)
	rl, pl := params.ETXRLimitMin, params.ETXPLimitMin
	ucd := &core.UtxosCreatedDeleted{AddressOutpointsToAddMap: map[[20]byte][]*types.OutpointAndDenomination{}, AddressOutpointsToRemoveMap: map[[20]byte][]*types.OutPoint{}}
	sa, sr := big.NewInt(0), big.NewInt(0)
	_, etxs, _, err, _ = core.ProcessQiTx(tx, chain, true, true, wo, batch, db, gp, &used, signer, loc, *chainID, 5.0, &rl, &pl, ucd, sa, sr, index)
	if err != nil {
		return "QReject", nil, nil, err
	}
	stored = rawdb.GetUTXOWithBatch(db, batch, tx.Hash(), 0)
	switch {
	case stored != nil:
		class = "QUtxo"
	case len(etxs) == 1 && etxs[0].EtxType == types.DefaultType:
		class = "QEtx"
	case len(etxs) == 1 && etxs[0].EtxType == types.ConversionType:
		class = "QConvert"
	case len(etxs) == 1 && etxs[0].EtxType == types.WrappingQiType:
		class = "QWrap"
	default:
		class = "?"
	}
	return
}

func runQiOut(c *Case, m *monitorCtx, emit func(*Case, string)) {
	loc := c.loc()
	class, stored, etxs, err := processOneOutput(loc, c.B, nil, false)
	c.Obs = Obs{Kind: "qi", A: []byte(class)}
	emit(c, fmt.Sprintf("IQiOut %s 0 %s", hlib.CoqBytes(c.B), hlib.CoqBytes(c.Loc)))
	m.rep.Count("qiout:" + class)
	m.rep.Nontrivial(fmt.Sprintf("IQiOut/%s/%s", class, lenClass(len(c.B))))
	norm := refNormalize(c.B)
	here := refInZone(norm, c.Loc)
	qi := norm[1] >= 128
	// independent expectation for a data-less transaction
	want := "QReject"
	if qi && here {
		want = "QUtxo"
	} else if qi {
		want = "QEtx"
	}
	if class != want {
		m.fail("qi-output-branch", fmt.Sprintf("ProcessQiTx output to %x at %v: outcome %s (err %v), expected %s", c.B, c.Loc, class, err, want), c)
	}
	// Qi outputs are never created for Quai-ledger or foreign-zone addresses
	if stored != nil {
		if !(qi && here) {
			m.fail("qi-utxo-for-quai-or-foreign-address", fmt.Sprintf("UTXO created for %x at %v", c.B, c.Loc), c)
		}
		if len(stored.Address) != 20 {
			m.fail("qi-utxo-owner-raw len!=20", fmt.Sprintf("ProcessQiTx stored a UTXO whose owner field is the %d-byte string %x (the address it was classified by is %x)", len(stored.Address), stored.Address, norm), c)
		} else if !refInZone(stored.Address, c.Loc) || stored.Address[1] < 128 {
			m.fail("qi-utxo-for-quai-or-foreign-address", fmt.Sprintf("stored UTXO owner %x at %v", stored.Address, c.Loc), c)
		}
	}
	for _, e := range etxs {
		to := e.To.Bytes()
		if e.EtxType == types.DefaultType && (refInZone(to, c.Loc) || to[1] < 128) {
			m.fail("qi-etx-to-own-zone-or-quai", fmt.Sprintf("Qi ETX to %x emitted at %v", to, c.Loc), c)
		}
	}
	// the same transaction on a node that indexes address outpoints must not crash
	if len(c.B) != 20 && class == "QUtxo" {
		func() {
			defer func() {
				if r := recover(); r != nil {
					m.fail("qi-utxo-owner-raw len!=20 panic-with-index", fmt.Sprintf("ProcessQiTx(indexAddressUtxos=true) panics on an output with the %d-byte owner %x: %v", len(c.B), c.B, r), c)
				}
			}()
			processOneOutput(loc, c.B, nil, true)
		}()
	}
}

func qiOutputs(r *hlib.Rng, m *monitorCtx, emit func(*Case, string), tier string, n int) {
	k := n / 10
	if k < 12 {
		k = 12
	}
	locs := [][]byte{{0, 0}, {1, 2}}
	var cs []*Case
	// targeted: in-zone Qi / in-zone Quai / foreign Qi / foreign Quai, and the 21- and 19-byte owners
	for _, loc := range locs {
		p := loc[0]<<4 | loc[1]
		mk := func(b0, b1 byte) []byte {
			a := r.Bytes(20)
			a[0], a[1] = b0, b1
			return a
		}
		cs = append(cs, &Case{Kind: "IQiOut", Loc: loc, B: mk(p, 0x80)}, &Case{Kind: "IQiOut", Loc: loc, B: mk(p, 0x7f)},
			&Case{Kind: "IQiOut", Loc: loc, B: mk(p^0x10, 0xc8)}, &Case{Kind: "IQiOut", Loc: loc, B: mk(p^0x01, 0x05)},
			&Case{Kind: "IQiOut", Loc: loc, B: append([]byte{0x55}, mk(p, 0xc8)...)}, // Coq witness shape qi_long_owner: 21 bytes
			&Case{Kind: "IQiOut", Loc: loc, B: append([]byte{p}, mk(p^0x10, 0xc8)...)})
	}
	cs = append(cs, &Case{Kind: "IQiOut", Loc: []byte{0, 0}, B: append([]byte{0xc8}, r.Bytes(18)...)}) // 19 bytes, pads to 00 c8 ..: zone (0,0), Qi
	for i := 0; i < k; i++ {
		loc := locs[r.Intn(len(locs))]
		cs = append(cs, &Case{Kind: "IQiOut", Loc: loc, B: genRaw(r, loc)})
	}
	for _, c := range cs {
		runSpecial(c, m, emit)
	}
}

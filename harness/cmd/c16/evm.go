package main

import (
	"encoding/binary"
	"fmt"
	"math/big"

	"github.com/dominant-strategies/go-quai/common"
	"github.com/dominant-strategies/go-quai/core"
	"github.com/dominant-strategies/go-quai/core/rawdb"
	"github.com/dominant-strategies/go-quai/core/state"
	"github.com/dominant-strategies/go-quai/core/types"
	"github.com/dominant-strategies/go-quai/core/vm"
	"github.com/dominant-strategies/go-quai/crypto"
	"github.com/dominant-strategies/go-quai/log"
	"github.com/dominant-strategies/go-quai/params"
	"github.com/holiman/uint256"

	"verifharness/hlib"
)

// ---------------------------------------------------------------- independent reference of the derivations

func refQuaiInZone(a []byte, loc []byte) bool { return refInZone(a, loc) && a[1] < 128 }

// crypto.CreateAddress: Keccak256(sender ++ nonce(8, big endian) ++ code)
func refCreateDigest(sender []byte, nonce uint64, code []byte) []byte {
	nb := make([]byte, 8)
	binary.BigEndian.PutUint64(nb, nonce)
	return crypto.Keccak256(append(append(cp(sender), nb...), code...))
}

// crypto.CreateAddress2: Keccak256(0xff ++ sender ++ salt ++ inithash)
func refCreate2Digest(sender []byte, salt [32]byte, inithash []byte) []byte {
	pre := append([]byte{0xff}, sender...)
	pre = append(pre, salt[:]...)
	pre = append(pre, inithash...)
	return crypto.Keccak256(pre)
}

// vm.GrindContract: salt = 16 zero bytes ++ attempt(8) ++ nonce(8)
func refGrindSalt(nonce uint64, i uint64) (s [32]byte) {
	binary.BigEndian.PutUint64(s[24:], nonce)
	binary.BigEndian.PutUint64(s[16:24], i)
	return
}

type grindRef struct {
	ok       bool
	addr     []byte
	gas      uint64
	prefixes [][2]byte // failed attempts
	final    []byte    // digest of the successful attempt (or a never-matching one)
}

func refAttempts(block uint64) uint64 {
	if new(big.Int).SetUint64(block).Cmp(params.MaxGrindIncreaseForkBlock) < 0 {
		return uint64(params.PreviousMaxAddressGrindAttempts)
	}
	return uint64(params.MaxAddressGrindAttempts)
}

func refGrind(sender []byte, nonce, gas, cost uint64, codeHash []byte, block uint64, loc []byte) grindRef {
	never := make([]byte, 32)
	for i := range never {
		never[i] = 0xff
	}
	g := grindRef{final: never}
	for i := uint64(0); i < refAttempts(block); i++ {
		if gas < cost {
			return g
		}
		gas -= cost
		d := refCreate2Digest(sender, refGrindSalt(nonce, i), codeHash)
		if refQuaiInZone(d[12:], loc) {
			g.ok, g.addr, g.gas, g.final = true, cp(d[12:]), gas, d
			return g
		}
		g.prefixes = append(g.prefixes, [2]byte{d[12], d[13]})
	}
	return g
}

func coqPrefixes(ps [][2]byte) string {
	items := make([]string, len(ps))
	for i, p := range ps {
		items[i] = fmt.Sprintf("(%d,%d)", p[0], p[1])
	}
	return "[" + joinSemi(items) + "]"
}
func joinSemi(xs []string) string {
	n := 0
	for _, x := range xs {
		n += len(x) + 1
	}
	b := make([]byte, 0, n)
	for i, x := range xs {
		if i > 0 {
			b = append(b, ';')
		}
		b = append(b, x...)
	}
	return string(b)
}

// ---------------------------------------------------------------- real objects

func newState(loc common.Location) *state.StateDB {
	db := rawdb.NewMemoryDatabase(log.Global)
	st, err := state.New(types.EmptyRootHash, types.EmptyRootHash, big.NewInt(0), state.NewDatabase(db), state.NewDatabase(db), nil, loc, log.Global)
	if err != nil {
		panic(err)
	}
	st.ConfigureAccessListChecks(false)
	return st
}

var precompilesDone = map[string]bool{}

func newEVM(st *state.StateDB, loc common.Location, origin common.Address, block uint64) *vm.EVM {
	if !precompilesDone[string(loc)] {
		vm.InitializePrecompiles(loc)
		precompilesDone[string(loc)] = true
	}
	blockCtx := vm.BlockContext{
		CanTransfer:        core.CanTransfer,
		Transfer:           core.Transfer,
		GetHash:            func(uint64) common.Hash { return common.Hash{} },
		CheckIfEtxEligible: func(common.Hash, common.Location) bool { return true },
		PrimaryCoinbase:    origin,
		GasLimit:           30000000,
		BlockNumber:        new(big.Int).SetUint64(block),
		Time:               big.NewInt(1700000000),
		Difficulty:         big.NewInt(1000000),
		BaseFee:            big.NewInt(1),
		QuaiStateSize:      new(big.Int).Lsh(big.NewInt(1), 20),
	}
	txCtx := vm.TxContext{Origin: origin, GasPrice: big.NewInt(1), Hash: common.BytesToHash([]byte{0xc1, 0x16})}
	return vm.NewEVM(blockCtx, txCtx, st, &params.ChainConfig{ChainID: big.NewInt(1), Location: loc}, vm.Config{}, nil)
}

func keccakGas(code []byte) uint64 {
	return params.Sha3Gas + uint64((len(code)+31)/32)*params.Sha3WordGas
}

// ---------------------------------------------------------------- the special kinds

func runSpecial(c *Case, m *monitorCtx, emit func(*Case, string)) {
	defer func() {
		if r := recover(); r != nil {
			m.fail("panic kind="+c.Kind, fmt.Sprintf("%s panicked: %v", c.Kind, r), c)
		}
	}()
	loc := c.loc()
	L := hlib.CoqBytes(c.Loc)
	switch c.Kind {
	case "IGrind":
		codeHash := crypto.Keccak256Hash(c.Code)
		sender := common.BytesToAddress(c.B, loc)
		a, gas, err := vm.GrindContract(sender, c.Nonce, c.Gas, int64(c.GasCost), codeHash, new(big.Int).SetUint64(c.Block), loc)
		c.Obs = Obs{Kind: "grind"}
		if err == nil {
			c.Obs.OK, c.Obs.A, c.Obs.Gas = true, cp(a.Bytes()), gas
		}
		ref := refGrind(c.B, c.Nonce, c.Gas, c.GasCost, codeHash.Bytes(), c.Block, c.Loc)
		emit(c, fmt.Sprintf("IGrind %s %d %d %d %s %s", L, c.Block, c.Gas, c.GasCost, coqPrefixes(ref.prefixes), hlib.CoqBytes(ref.final)))
		m.rep.Count(fmt.Sprintf("grind:ok=%v", c.Obs.OK))
		m.rep.Nontrivial(fmt.Sprintf("IGrind/%v/%d", c.Obs.OK, len(ref.prefixes)/100))
		// monitor: in-zone Quai address or failure
		if err == nil {
			if _, e := a.InternalAndQuaiAddress(); e != nil || !refQuaiInZone(a.Bytes(), c.Loc) {
				m.fail("grind-result-out-of-zone", fmt.Sprintf("GrindContract returned %x for location %v", a.Bytes(), c.Loc), c)
			}
		}
		// monitor: independent re-derivation (first successful salt, gas accounting, attempt bound)
		if ref.ok != (err == nil) || (ref.ok && (string(ref.addr) != string(a.Bytes()) || ref.gas != gas)) {
			m.fail("grind-vs-reference", fmt.Sprintf("GrindContract ok=%v addr=%x gas=%d, reference ok=%v addr=%x gas=%d", err == nil, a.Bytes(), gas, ref.ok, ref.addr, ref.gas), c)
		}
	case "ICreate":
		st := newState(loc)
		sender := common.BytesToAddress(c.B, loc)
		si, e := sender.InternalAndQuaiAddress()
		if e != nil {
			panic("ICreate sender must be an in-zone Quai address")
		}
		st.AddBalance(si, big.NewInt(1000000))
		st.SetNonce(si, c.Nonce)
		evm := newEVM(st, loc, sender, c.Block)
		_, addr, _, _, err := evm.Create(vm.AccountRef(sender), c.Code, c.Gas, big.NewInt(0))
		if err == nil {
			c.Obs = Obs{Kind: "bytes", A: cp(addr.Bytes())}
		} else {
			c.Obs = Obs{Kind: "err"}
		}
		d0 := refCreateDigest(c.B, c.Nonce, c.Code)
		cost := keccakGas(c.Code)
		var ref grindRef
		if refQuaiInZone(d0[12:], c.Loc) {
			ref = grindRef{ok: true, addr: cp(d0[12:]), final: make([]byte, 32)}
		} else {
			ref = refGrind(c.B, c.Nonce, c.Gas, cost, crypto.Keccak256(c.Code), c.Block, c.Loc)
		}
		emit(c, fmt.Sprintf("ICreate %s %s %d %d %d %s %s", L, hlib.CoqBytes(d0), c.Block, c.Gas, cost, coqPrefixes(ref.prefixes), hlib.CoqBytes(ref.final)))
		m.rep.Count(fmt.Sprintf("create:ok=%v", err == nil))
		m.rep.Nontrivial(fmt.Sprintf("ICreate/%v/%d", err == nil, len(ref.prefixes)/100))
		m.checkCreated("CREATE", st, addr, err, c)
		if err == nil && (!ref.ok || string(ref.addr) != string(addr.Bytes())) {
			m.fail("create-vs-reference", fmt.Sprintf("EVM.Create deployed at %x, reference derivation gives ok=%v %x", addr.Bytes(), ref.ok, ref.addr), c)
		}
		if err != nil && ref.ok {
			m.fail("create-vs-reference", fmt.Sprintf("EVM.Create failed (%v) although attempt %d yields the in-zone Quai address %x", err, len(ref.prefixes), ref.addr), c)
		}
	case "IGuard":
		st := newState(loc)
		var a20 [20]byte
		copy(a20[:], c.B)
		ia := common.InternalAddress(a20)
		switch c.Nonce % 4 { // the entry points that reach createObject
		case 0:
			st.CreateAccount(ia)
		case 1:
			st.AddBalance(ia, big.NewInt(5))
		case 2:
			st.SetNonce(ia, 3)
		case 3:
			st.SetCode(ia, []byte{1, 2, 3})
		}
		exists := st.Exist(ia)
		c.Obs = Obs{Kind: "bool", Bool: exists}
		emit(c, fmt.Sprintf("IGuard %s %s", hlib.CoqBytes(c.B), L))
		m.rep.Count(fmt.Sprintf("guard:created=%v", exists))
		m.rep.Nontrivial(fmt.Sprintf("IGuard/%v/%v/%v/%d", exists, refInZone(c.B, c.Loc), c.B[1] < 128, c.Nonce%4))
		ok := refQuaiInZone(c.B, c.Loc)
		if exists && !ok {
			m.fail("state-account-out-of-zone-or-qi", fmt.Sprintf("StateDB at %v holds an account for %x (in zone %v, Quai ledger %v)", c.Loc, c.B, refInZone(c.B, c.Loc), c.B[1] < 128), c)
		}
		if !exists && ok {
			m.fail("state-account-refused", fmt.Sprintf("StateDB at %v refused the in-zone Quai address %x", c.Loc, c.B), c)
		}
		if !ok && !exists && st.Error() == nil {
			m.fail("state-guard-silent", fmt.Sprintf("createObject refused %x at %v without recording an error", c.B, c.Loc), c)
		}
		// the refused account must not reach the trie either
		st.IntermediateRoot(true)
		if !ok && (st.Exist(ia) || st.GetNonce(ia) != 0 || st.GetBalance(ia).Sign() != 0 || len(st.GetCode(ia)) != 0) {
			m.fail("state-account-out-of-zone-or-qi", fmt.Sprintf("refused address %x has state after IntermediateRoot", c.B), c)
		}
	case "IQiOut":
		runQiOut(c, m, emit)
	}
}

// checkCreated: contract creation yields an in-zone Quai address (with an account in the state) or fails
func (m *monitorCtx) checkCreated(op string, st *state.StateDB, addr common.Address, err error, c *Case) {
	if err != nil {
		return
	}
	ia, e := addr.InternalAndQuaiAddress()
	if e != nil || !refQuaiInZone(addr.Bytes(), c.Loc) {
		m.fail("created-address-out-of-zone-or-qi op="+op, fmt.Sprintf("%s succeeded at %x for location %v", op, addr.Bytes(), c.Loc), c)
		return
	}
	if !st.Exist(ia) {
		m.fail("created-account-missing op="+op, fmt.Sprintf("%s succeeded at %x but the state has no such account", op, addr.Bytes()), c)
	}
}

// ---------------------------------------------------------------- generation

func quaiSender(r *hlib.Rng, loc []byte) []byte {
	a := r.Bytes(20)
	a[0] = loc[0]<<4 | loc[1]
	a[1] &= 0x7f
	return a
}

var evmLocs = [][]byte{{0, 0}, {1, 2}, {2, 1}}

// init code returning empty runtime code: PUSH1 0 PUSH1 0 RETURN ; random tail makes CreateAddress vary
func initCode(r *hlib.Rng) []byte {
	return append([]byte{0x60, 0x00, 0x60, 0x00, 0xf3}, r.Bytes(r.Intn(40))...)
}

func evmAndState(r *hlib.Rng, m *monitorCtx, emit func(*Case, string), tier string, n int) {
	k := n / 12
	if k < 8 {
		k = 8
	}
	// GrindContract: gas-limited (few attempts), unlimited before the fork (bound 1000: ~14 % exhaust it), unlimited after the fork
	for i := 0; i < k; i++ {
		loc := evmLocs[r.Intn(len(evmLocs))]
		c := &Case{Kind: "IGrind", Loc: loc, B: quaiSender(r, loc), Nonce: uint64(r.Intn(5)), Code: initCode(r), Block: 100}
		c.GasCost = keccakGas(c.Code)
		switch r.Pick(5, 4, 2) {
		case 0:
			c.Gas = c.GasCost*uint64(r.Intn(300)) + uint64(r.Intn(int(c.GasCost)))
		case 1:
			c.Gas = 1 << 40
		default:
			c.Gas = 1 << 40
			c.Block = params.MaxGrindIncreaseForkBlock.Uint64() + uint64(r.Intn(2))
			if r.Chance(30) {
				c.Block = params.MaxGrindIncreaseForkBlock.Uint64() - 1
			}
		}
		runSpecial(c, m, emit)
	}
	// one sender that exhausts the pre-fork bound (searched with the reference derivation)
	for try := 0; try < 60; try++ {
		loc := evmLocs[try%len(evmLocs)]
		c := &Case{Kind: "IGrind", Loc: loc, B: quaiSender(r, loc), Code: []byte{0x00}, Block: 100, Gas: 1 << 40}
		c.GasCost = keccakGas(c.Code)
		if ref := refGrind(c.B, 0, c.Gas, c.GasCost, crypto.Keccak256(c.Code), c.Block, loc); !ref.ok {
			runSpecial(c, m, emit)
			break
		}
	}
	// EVM.Create through the real EVM
	for i := 0; i < k; i++ {
		loc := evmLocs[r.Intn(len(evmLocs))]
		c := &Case{Kind: "ICreate", Loc: loc, B: quaiSender(r, loc), Nonce: uint64(r.Intn(3)), Code: initCode(r), Gas: 20000000, Block: 100}
		if r.Chance(30) {
			c.Block = params.MaxGrindIncreaseForkBlock.Uint64() + 5
		}
		runSpecial(c, m, emit)
	}
	// createObject guard
	for i := 0; i < 2*k; i++ {
		loc := evmLocs[r.Intn(len(evmLocs))]
		if r.Chance(25) {
			loc = []byte{byte(r.Intn(16)), byte(r.Intn(16))}
		}
		runSpecial(&Case{Kind: "IGuard", Loc: loc, B: genAddr(r, loc), Nonce: uint64(r.Intn(4))}, m, emit)
	}
	// F10 address handed to the state: BytesToAddress(21 bytes) is "internal" but of zone (1,0)
	{
		bad := common.BytesToAddress(append([]byte{0x00, 0x10}, make([]byte, 19)...), common.Location{0, 0})
		if ia, err := bad.InternalAddress(); err == nil {
			runSpecial(&Case{Kind: "IGuard", Loc: []byte{0, 0}, B: cp(ia.Bytes()), Nonce: 1}, m, emit)
		}
	}
	// monitors only: CREATE2 with random and with ground salts, and CREATE / CREATE2 opcodes run by the interpreter
	create2AndOpcodes(r, m, 4*k)
}

func create2AndOpcodes(r *hlib.Rng, m *monitorCtx, n int) {
	for i := 0; i < n; i++ {
		loc := evmLocs[r.Intn(len(evmLocs))]
		c := &Case{ID: -1, Kind: "CREATE2", Loc: loc, B: quaiSender(r, loc), Code: initCode(r)}
		var salt [32]byte
		copy(salt[:], r.Bytes(32))
		if r.Chance(50) { // grind a salt that lands in the zone and the Quai ledger
			inith := crypto.Keccak256(c.Code)
			for j := uint64(0); j < 20000; j++ {
				binary.BigEndian.PutUint64(salt[:8], j)
				if d := refCreate2Digest(c.B, salt, inith); refQuaiInZone(d[12:], loc) {
					break
				}
			}
		}
		c.S = fmt.Sprintf("%x", salt)
		runCreate2(c, m)
	}
	for i := 0; i < n/4+1; i++ {
		loc := evmLocs[r.Intn(len(evmLocs))]
		runOpCreate(&Case{ID: -1, Kind: "OPCREATE", Loc: loc, B: quaiSender(r, loc), Code: quaiSender(r, loc), Nonce: uint64(1 + r.Intn(50))}, m)
	}
}

// CREATE2 (monitors only): c.B sender, c.Code init code, c.S salt (hex)
func runCreate2(c *Case, m *monitorCtx) {
	defer func() {
		if rc := recover(); rc != nil {
			m.fail("panic kind=CREATE2", fmt.Sprintf("CREATE2 panicked: %v", rc), c)
		}
	}()
	loc := c.loc()
	st := newState(loc)
	sender := common.BytesToAddress(c.B, loc)
	si, _ := sender.InternalAndQuaiAddress()
	st.AddBalance(si, big.NewInt(1000000))
	evm := newEVM(st, loc, sender, 100)
	var salt [32]byte
	sb := common.FromHex(c.S)
	copy(salt[:], sb)
	inith := crypto.Keccak256(c.Code)
	want := refCreate2Digest(c.B, salt, inith)[12:]
	_, addr, _, _, err := evm.Create2(vm.AccountRef(sender), c.Code, 20000000, big.NewInt(0), new(uint256.Int).SetBytes(salt[:]))
	m.rep.Evaluations++
	m.rep.Count(fmt.Sprintf("create2:ok=%v", err == nil))
	m.rep.Nontrivial(fmt.Sprintf("CREATE2/%v/%v", err == nil, refQuaiInZone(want, c.Loc)))
	m.checkCreated("CREATE2", st, addr, err, c)
	if err == nil && string(addr.Bytes()) != string(want) {
		m.fail("create-vs-reference", fmt.Sprintf("CREATE2 deployed at %x, reference %x", addr.Bytes(), want), c)
	}
	if (err == nil) != refQuaiInZone(want, c.Loc) {
		m.fail("create2-accepts-iff-in-zone-quai", fmt.Sprintf("CREATE2 to %x at %v: err=%v", want, c.Loc, err), c)
	}
	if err != nil {
		var w20 [20]byte
		copy(w20[:], want)
		if st.Exist(common.InternalAddress(w20)) {
			m.fail("state-account-out-of-zone-or-qi", fmt.Sprintf("failed CREATE2 left an account at %x", want), c)
		}
	}
}

// CREATE opcode run by the interpreter (monitors only): contract c.B with nonce c.Nonce, called by origin c.Code
func runOpCreate(c *Case, m *monitorCtx) {
	defer func() {
		if rc := recover(); rc != nil {
			m.fail("panic kind=OPCREATE", fmt.Sprintf("CREATE opcode panicked: %v", rc), c)
		}
	}()
	loc := c.loc()
	st := newState(loc)
	origin := common.BytesToAddress(c.Code, loc)
	oi, _ := origin.InternalAndQuaiAddress()
	st.AddBalance(oi, big.NewInt(1000000))
	contract := common.BytesToAddress(c.B, loc)
	ci, _ := contract.InternalAndQuaiAddress()
	// PUSH1 0 PUSH1 0 PUSH1 0 CREATE ; PUSH1 0 MSTORE ; PUSH1 32 PUSH1 0 RETURN
	code := []byte{0x60, 0, 0x60, 0, 0x60, 0, 0xf0, 0x60, 0, 0x52, 0x60, 32, 0x60, 0, 0xf3}
	st.SetCode(ci, code)
	st.SetNonce(ci, c.Nonce)
	evm := newEVM(st, loc, origin, 100)
	ret, _, _, err := evm.Call(vm.AccountRef(origin), contract, nil, 25000000, big.NewInt(0))
	m.rep.Evaluations++
	if err != nil || len(ret) != 32 {
		m.rep.Count("opcreate:callfailed")
		return
	}
	created := ret[12:]
	zero := true
	for _, b := range created {
		zero = zero && b == 0
	}
	m.rep.Count(fmt.Sprintf("opcreate:pushed-zero=%v", zero))
	m.rep.Nontrivial(fmt.Sprintf("OPCREATE/%v", zero))
	if zero {
		return
	}
	if !refQuaiInZone(created, c.Loc) {
		m.fail("created-address-out-of-zone-or-qi op=OPCREATE", fmt.Sprintf("CREATE opcode pushed %x at location %v", created, c.Loc), c)
		return
	}
	var c20 [20]byte
	copy(c20[:], created)
	if !st.Exist(common.InternalAddress(c20)) {
		m.fail("created-account-missing op=OPCREATE", fmt.Sprintf("CREATE opcode pushed %x but no account exists", created), c)
	}
	// reference: CreateAddress(contract, nonce, initcode="") first, then the grinding sequence
	d0 := refCreateDigest(c.B, c.Nonce, nil)
	want := d0[12:]
	if !refQuaiInZone(want, c.Loc) {
		ref := refGrind(c.B, c.Nonce, 1<<40, keccakGas(nil), crypto.Keccak256(nil), 100, c.Loc)
		want = ref.addr
	}
	if string(want) != string(created) {
		m.fail("create-vs-reference", fmt.Sprintf("CREATE opcode pushed %x, reference derivation %x", created, want), c)
	}
}
